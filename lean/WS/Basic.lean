/-
  WS.Basic — byte strings, big-endian numbers, hex, small list helpers.
  Core Lean only (no Mathlib) so that the `wsmodel` executable links.
-/

abbrev Bytes := List UInt8

namespace WS

/-- big-endian encoding of `n` in exactly `w` bytes (high bytes first; `n` taken mod 256^w). -/
def beBytes : Nat → Nat → Bytes
  | 0, _ => []
  | w + 1, n => UInt8.ofNat (n / 256 ^ w % 256) :: beBytes w n

/-- big-endian value of a byte string. -/
def beVal (bs : Bytes) : Nat := bs.foldl (fun acc b => acc * 256 + b.toNat) 0

@[simp] theorem beBytes_length (w n : Nat) : (beBytes w n).length = w := by
  induction w with
  | zero => rfl
  | succ w ih => simp [beBytes, ih]

theorem beVal_foldl_shift (bs : Bytes) (a : Nat) :
    bs.foldl (fun acc b => acc * 256 + b.toNat) a = a * 256 ^ bs.length + beVal bs := by
  induction bs generalizing a with
  | nil => simp [beVal]
  | cons b bs ih =>
    simp only [List.foldl_cons, beVal, List.length_cons]
    rw [ih (a * 256 + b.toNat), ih (0 * 256 + b.toNat)]
    simp only [beVal, Nat.zero_mul, Nat.zero_add, Nat.pow_succ]
    rw [Nat.add_mul, Nat.mul_assoc, Nat.mul_comm 256 (256 ^ bs.length), Nat.add_assoc]

theorem beVal_cons (b : UInt8) (bs : Bytes) : beVal (b :: bs) = b.toNat * 256 ^ bs.length + beVal bs := by
  have := beVal_foldl_shift bs (0 * 256 + b.toNat)
  simpa [beVal] using this

theorem beVal_lt (bs : Bytes) : beVal bs < 256 ^ bs.length := by
  induction bs with
  | nil => simp [beVal]
  | cons b bs ih =>
    rw [beVal_cons, List.length_cons, Nat.pow_succ]
    have hb : b.toNat < 256 := b.toNat_lt
    have : b.toNat * 256 ^ bs.length + 256 ^ bs.length ≤ 256 * 256 ^ bs.length := by
      have h1 : (b.toNat + 1) * 256 ^ bs.length ≤ 256 * 256 ^ bs.length :=
        Nat.mul_le_mul_right _ (by omega)
      simpa [Nat.add_mul] using h1
    rw [Nat.mul_comm (256 ^ bs.length) 256]
    omega

/-- decoding the big-endian encoding gives the number back (for numbers that fit). -/
theorem beVal_beBytes (w n : Nat) (h : n < 256 ^ w) : beVal (beBytes w n) = n := by
  induction w generalizing n with
  | zero => simp at h; subst h; rfl
  | succ w ih =>
    rw [beBytes, beVal_cons, beBytes_length]
    have hq : n / 256 ^ w < 256 := by
      rw [Nat.pow_succ] at h
      exact Nat.div_lt_of_lt_mul h
    have hm : n / 256 ^ w % 256 = n / 256 ^ w := Nat.mod_eq_of_lt hq
    have hpos : 0 < 256 ^ w := Nat.pow_pos (by decide)
    -- beBytes w n only depends on n mod 256^w
    have hrec : ∀ (w' n' : Nat), beBytes w' n' = beBytes w' (n' % 256 ^ w') := by
      intro w'
      induction w' with
      | zero => intro n'; rfl
      | succ w' ih' =>
        intro n'
        simp only [beBytes]
        congr 1
        · congr 1
          rw [Nat.pow_succ, Nat.mod_mul_right_div_self]
          simp [Nat.mod_mod_of_dvd]
        · rw [ih' n', ih' (n' % 256 ^ (w' + 1))]
          congr 1
          rw [Nat.pow_succ, Nat.mod_mul_right_mod]
    rw [hrec w n, ih (n % 256 ^ w) (Nat.mod_lt _ hpos)]
    have hu : (UInt8.ofNat (n / 256 ^ w % 256)).toNat = n / 256 ^ w := by
      rw [hm]; simp [UInt8.toNat_ofNat']; omega
    rw [hu]
    have := Nat.div_add_mod n (256 ^ w)
    rw [Nat.mul_comm] at this
    exact this

/-- encoding is injective on byte strings of equal length (used for strict decoding). -/
theorem beBytes_beVal (bs : Bytes) : beBytes bs.length (beVal bs) = bs := by
  induction bs with
  | nil => rfl
  | cons b bs ih =>
    rw [List.length_cons, beBytes, beVal_cons]
    have hlt := beVal_lt bs
    have hpos : 0 < 256 ^ bs.length := Nat.pow_pos (by decide)
    have h1 : (b.toNat * 256 ^ bs.length + beVal bs) / 256 ^ bs.length = b.toNat := by
      rw [Nat.mul_comm, Nat.mul_add_div hpos, Nat.div_eq_of_lt hlt]; simp
    rw [h1]
    have hb : b.toNat % 256 = b.toNat := Nat.mod_eq_of_lt b.toNat_lt
    rw [hb]
    congr 1
    · simp
    · have hrec : ∀ (w' n' : Nat), beBytes w' n' = beBytes w' (n' % 256 ^ w') := by
        intro w'
        induction w' with
        | zero => intro n'; rfl
        | succ w' ih' =>
          intro n'
          simp only [beBytes]
          congr 1
          · congr 1
            rw [Nat.pow_succ, Nat.mod_mul_right_div_self]
            simp [Nat.mod_mod_of_dvd]
          · rw [ih' n', ih' (n' % 256 ^ (w' + 1))]
            congr 1
            rw [Nat.pow_succ, Nat.mod_mul_right_mod]
      rw [hrec, Nat.mul_comm, Nat.mul_add_mod, Nat.mod_eq_of_lt hlt, ih]

/-! ### hex -/

def hexDigit (n : Nat) : Char :=
  if n < 10 then Char.ofNat (48 + n) else Char.ofNat (87 + n)

def hexOfByte (b : UInt8) : List Char := [hexDigit (b.toNat / 16), hexDigit (b.toNat % 16)]

def toHex (bs : Bytes) : String :=
  if bs.isEmpty then "-" else String.ofList (bs.flatMap hexOfByte)

def hexVal (c : Char) : Option Nat :=
  if '0' ≤ c ∧ c ≤ '9' then some (c.toNat - 48)
  else if 'a' ≤ c ∧ c ≤ 'f' then some (c.toNat - 87)
  else if 'A' ≤ c ∧ c ≤ 'F' then some (c.toNat - 55)
  else none

def fromHexChars : List Char → Option Bytes
  | [] => some []
  | [_] => none
  | a :: b :: rest => do
    let x ← hexVal a
    let y ← hexVal b
    let r ← fromHexChars rest
    pure (UInt8.ofNat (x * 16 + y) :: r)

/-- "-" is the empty byte string (so that a token is never empty). -/
def fromHex (s : String) : Option Bytes :=
  if s = "-" then some [] else fromHexChars s.toList

def strBytes (s : String) : Bytes := s.toUTF8.toList

end WS
