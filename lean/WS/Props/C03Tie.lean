import WS.Gen.Skeletons
/-
  C03 — translator tie: the statement text of the functions this property's model transcribes, regenerated
  from /repo by factgen on every run (WS/Gen/Skeletons.lean), equals the text the model was written against.
  A change to one of these functions breaks the obligation below; the check then searches for a failing
  input with the property's oracles (DESIGN §5).
-/
namespace WS.Props.C03Tie
open WS

/-- today's advanceFrame, NextReader, messageReader.Read/Close and ReadMessage are the modelled ones -/
theorem read_path_as_modelled :
    Gen.stmts_advanceFrame =
      ["if c.readRemaining > 0 { if _, err := io.CopyN(io.Discard, c.br, c.readRemaining); err != nil { return noFrame, err } }",
        "var errors []string",
        "p, err := c.read(2)",
        "if err != nil { return noFrame, err }",
        "frameType := int(p[0] & 0xf)",
        "final := p[0]&finalBit != 0",
        "rsv1 := p[0]&rsv1Bit != 0",
        "rsv2 := p[0]&rsv2Bit != 0",
        "rsv3 := p[0]&rsv3Bit != 0",
        "mask := p[1]&maskBit != 0",
        "_ = c.setReadRemaining(int64(p[1] & 0x7f))",
        "c.readDecompress = false",
        "if rsv1 { if c.newDecompressionReader != nil { c.readDecompress = true } else { errors = append(errors, \"RSV1 set\") } }",
        "if rsv2 { errors = append(errors, \"RSV2 set\") }",
        "if rsv3 { errors = append(errors, \"RSV3 set\") }",
        "switch frameType { case CloseMessage, PingMessage, PongMessage: if c.readRemaining > maxControlFramePayloadSize { errors = append(errors, \"len > 125 for control\") } if !final { errors = append(errors, \"FIN not set on control\") } case TextMessage, BinaryMessage: if !c.readFinal { errors = append(errors, \"data before FIN\") } c.readFinal = final case continuationFrame: if c.readFinal { errors = append(errors, \"continuation after FIN\") } c.readFinal = final default: errors = append(errors, \"bad opcode \"+strconv.Itoa(frameType)) }",
        "if mask != c.isServer { errors = append(errors, \"bad MASK\") }",
        "if len(errors) > 0 { return noFrame, c.handleProtocolError(strings.Join(errors, \", \")) }",
        "switch c.readRemaining { case 126: p, err := c.read(2) if err != nil { return noFrame, err } if err := c.setReadRemaining(int64(binary.BigEndian.Uint16(p))); err != nil { return noFrame, err } case 127: p, err := c.read(8) if err != nil { return noFrame, err } if err := c.setReadRemaining(int64(binary.BigEndian.Uint64(p))); err != nil { _ = c.WriteControl(CloseMessage, FormatCloseMessage(CloseMessageTooBig, \"\"), time.Now().Add(writeWait)) return noFrame, err } }",
        "if mask { c.readMaskPos = 0 p, err := c.read(len(c.readMaskKey)) if err != nil { return noFrame, err } copy(c.readMaskKey[:], p) }",
        "if frameType == continuationFrame || frameType == TextMessage || frameType == BinaryMessage { if frameType != continuationFrame { c.readLength = 0 } c.readLength += c.readRemaining if c.readLength < 0 { _ = c.WriteControl(CloseMessage, FormatCloseMessage(CloseMessageTooBig, \"\"), time.Now().Add(writeWait)) return noFrame, ErrReadLimit } if c.readLimit > 0 && c.readLength > c.readLimit { _ = c.WriteControl(CloseMessage, FormatCloseMessage(CloseMessageTooBig, \"\"), time.Now().Add(writeWait)) return noFrame, ErrReadLimit } return frameType, nil }",
        "var payload []byte",
        "if c.readRemaining > 0 { payload, err = c.read(int(c.readRemaining)) _ = c.setReadRemaining(0) if err != nil { return noFrame, err } if c.isServer { maskBytes(c.readMaskKey, 0, payload) } }",
        "switch frameType { case PongMessage: if err := c.handlePong(string(payload)); err != nil { return noFrame, err } case PingMessage: if err := c.handlePing(string(payload)); err != nil { return noFrame, err } case CloseMessage: closeCode := CloseNoStatusReceived closeText := \"\" if len(payload) >= 2 { closeCode = int(binary.BigEndian.Uint16(payload)) if !isValidReceivedCloseCode(closeCode) { return noFrame, c.handleProtocolError(\"bad close code \" + strconv.Itoa(closeCode)) } closeText = string(payload[2:]) if !utf8.ValidString(closeText) { return noFrame, c.handleProtocolError(\"invalid utf8 payload in close frame\") } } if err := c.handleClose(closeCode, closeText); err != nil { return noFrame, err } return noFrame, &CloseError{Code: closeCode, Text: closeText} }",
        "return frameType, nil"] ∧
    Gen.stmts_NextReader =
      ["if c.reader != nil { c.reader.Close() c.reader = nil }",
        "c.messageReader = nil",
        "c.readLength = 0",
        "for c.readErr == nil { frameType, err := c.advanceFrame() if err != nil { c.readErr = err break } if frameType == TextMessage || frameType == BinaryMessage { c.messageReader = &messageReader{c} c.reader = c.messageReader if c.readDecompress { c.reader = c.newDecompressionReader(c.reader) } return frameType, c.reader, nil } }",
        "c.readErrCount++",
        "if c.readErrCount >= 1000 { panic(\"repeated read on failed websocket connection\") }",
        "return noFrame, nil, c.readErr"] ∧
    Gen.stmts_messageReaderRead =
      ["c := r.c",
        "if c.messageReader != r { return 0, io.EOF }",
        "for c.readErr == nil { if c.readRemaining > 0 { if int64(len(b)) > c.readRemaining { b = b[:c.readRemaining] } n, err := c.br.Read(b) c.readErr = err if c.isServer { c.readMaskPos = maskBytes(c.readMaskKey, c.readMaskPos, b[:n]) } rem := c.readRemaining rem -= int64(n) _ = c.setReadRemaining(rem) if (c.readRemaining > 0 || !c.readFinal) && c.readErr == io.EOF { c.readErr = errUnexpectedEOF } return n, c.readErr } if c.readFinal { c.messageReader = nil return 0, io.EOF } frameType, err := c.advanceFrame() switch { case err != nil: c.readErr = err case frameType == TextMessage || frameType == BinaryMessage: c.readErr = errors.New(\"websocket: internal error, unexpected text or binary in Reader\") } }",
        "err := c.readErr",
        "if err == io.EOF && c.messageReader == r { err = errUnexpectedEOF }",
        "return 0, err"] ∧
    Gen.stmts_readerClose =
      ["return nil"] ∧
    Gen.stmts_ReadMessage =
      ["var r io.Reader",
        "messageType, r, err = c.NextReader()",
        "if err != nil { return messageType, nil, err }",
        "p, err = io.ReadAll(r)",
        "return messageType, p, err"] := by
  refine ⟨?_, ?_, ?_, ?_, ?_⟩ <;> rfl


/-- today's Conn.read (Peek + Discard: the byte source of every header), joinReader.Read / JoinMessages and decompressNoContextTakeover are the modelled ones -/
theorem join_and_source_as_modelled :
    Gen.stmts_connRead =
      ["p, err := c.br.Peek(n)",
        "if err == io.EOF { err = errUnexpectedEOF }",
        "_, _ = c.br.Discard(len(p))",
        "return p, err"] ∧
    Gen.stmts_joinRead =
      ["if r.r == nil { var err error _, r.r, err = r.c.NextReader() if err != nil { return 0, err } if r.term != \"\" { r.r = io.MultiReader(r.r, strings.NewReader(r.term)) } }",
        "n, err := r.r.Read(p)",
        "if err == io.EOF { err = nil r.r = nil }",
        "return n, err"] ∧
    Gen.stmts_JoinMessages =
      ["return &joinReader{c: c, term: term}"] ∧
    Gen.stmts_decompressNCT =
      ["const tail = \"\\x00\\x00\\xff\\xff\" + \"\\x01\\x00\\x00\\xff\\xff\"",
        "fr, _ := flateReaderPool.Get().(io.ReadCloser)",
        "mr := io.MultiReader(r, strings.NewReader(tail))",
        "if err := fr.(flate.Resetter).Reset(mr, nil); err != nil { fr = flate.NewReader(mr) }",
        "return &flateReadWrapper{fr: fr, src: mr}"] ∧
    Gen.stmts_ReadJSON =
      ["_, r, err := c.NextReader()",
        "if err != nil { return err }",
        "err = json.NewDecoder(r).Decode(v)",
        "if err == io.EOF { err = io.ErrUnexpectedEOF }",
        "return err"] := by
  refine ⟨?_, ?_, ?_, ?_, ?_⟩ <;> rfl


end WS.Props.C03Tie
