import WS.Lemmas.ReaderRejects
import WS.Lemmas.ReaderDecodes
import WS.Lemmas.ReaderLift
import WS.Lemmas.ReaderMore
/-
  C06 — Read limit is exact, history-independent and bounds memory.
-/
namespace WS.Props.C06
open WS WS.HdrLogic WS.SrcLaw WS.ReaderRejects

/-- limit_refuses: the data frame whose header makes the running sum exceed the limit is refused
    before any byte of its payload is consumed; ErrReadLimit; a 1009 close frame is written -/
theorem limit_refuses (c : Conn) (hc : AtBoundary c) (hw : WHealthy c.w) (b0 b1 : UInt8) (rest : Bytes)
    (hclient : c.r.isServer = false) (hp : c.r.buf.pending = b0 :: b1 :: rest)
    (hok : ¬ Violates c.r.isServer c.r.nego (!c.r.final) (parseHdr b0 b1))
    (hdata : (parseHdr b0 b1).opcode ≤ 2) (hlen : (parseHdr b0 b1).len7 < 126)
    (hlim : 0 < c.r.limit) (hsum : 0 ≤ c.r.length) (hsmall : c.r.length < 2 ^ 62)
    (hover : c.r.limit < sumBase c (parseHdr b0 b1) + (parseHdr b0 b1).len7) :
    ∃ c', advanceFrame c = (.error .readLimit, c') ∧ c'.r.buf.pending = rest ∧ c'.r.hlog = c.r.hlog ∧
      c'.w.wire = c.w.wire ++ closeFrameBytes c.w (closePayload 1009 []) ∧ c'.w.writeErr = some .closeSent := by
  first | exact ReaderRejects.limit_refuses_small .. | (apply ReaderRejects.limit_refuses_small <;> assumption)

/-- history independence (regression sentinel for finding F2): a text / binary frame within the limit
    is admitted whatever running sum an abandoned earlier message left behind -/
theorem new_message_restarts_sum (c : Conn) (hc : AtBoundary c) (b0 b1 : UInt8) (rest : Bytes)
    (hclient : c.r.isServer = false) (hp : c.r.buf.pending = b0 :: b1 :: rest)
    (hok : ¬ Violates c.r.isServer c.r.nego (!c.r.final) (parseHdr b0 b1))
    (hdata : (parseHdr b0 b1).opcode = 1 ∨ (parseHdr b0 b1).opcode = 2) (hlen : (parseHdr b0 b1).len7 < 126)
    (hlim : ((parseHdr b0 b1).len7 : Int) ≤ c.r.limit) :
    ∃ c', advanceFrame c = (.ok (parseHdr b0 b1).opcode, c') ∧ c'.r.length = (parseHdr b0 b1).len7 ∧
      c'.r.buf.pending = rest ∧ c'.w = c.w := by
  first | exact ReaderRejects.new_message_restarts_sum .. | (apply ReaderRejects.new_message_restarts_sum <;> assumption)

/-- lengths with the top bit set are handled the same way: ErrReadLimit, nothing consumed, 1009 (F3) -/
theorem limit_topbit (c : Conn) (hc : AtBoundary c) (hw : WHealthy c.w) (b0 b1 : UInt8) (ext rest : Bytes)
    (hp : c.r.buf.pending = b0 :: b1 :: ext ++ rest) (hext : ext.length = 8)
    (hok : ¬ Violates c.r.isServer c.r.nego (!c.r.final) (parseHdr b0 b1))
    (h127 : (parseHdr b0 b1).len7 = 127) (htop : 2 ^ 63 ≤ beVal ext) :
    ∃ c', advanceFrame c = (.error .readLimit, c') ∧ c'.r.hlog = c.r.hlog ∧ c'.r.buf.pending = rest ∧
      c'.w.wire = c.w.wire ++ closeFrameBytes c.w (closePayload 1009 []) ∧ c'.w.writeErr = some .closeSent := by
  first | exact ReaderRejects.topbit_length_rejected .. | (apply ReaderRejects.topbit_length_rejected <;> assumption)

open WS.ReaderDecodes in
/-- limit_admits: with a limit L > 0 a conformant message whose data frames sum to at most L is read
    in full, whatever its fragmentation, interleaved control frames (not counted) and read sizes -/
theorem limit_admits (c : Conn) (hc : ReaderIdle c) (t : Nat) (ht : t = 1 ∨ t = 2) (fs : List PFrame)
    (hs : MsgShape t fs) (rest : Bytes)
    (hp : c.r.buf.pending = encAll c.r.isServer fs ++ rest)
    (hend : c.r.buf.t.together = false ∨ rest ≠ [])
    (hsz : (dataPayload fs).length < 2 ^ 62)
    (hlim : ((dataPayload fs).length : Int) ≤ c.r.limit)
    (k : Nat) (hk : 0 < k) :
    ∃ c1 rid, nextReader c = (.msg t rid false, c1) ∧
      ∃ c2, readAll c1 rid k = ((dataPayload fs, none), c2) ∧ ReaderIdle c2 ∧ c2.r.buf.pending = rest :=  by
  obtain ⟨c1, rid, h1, c2, h2, h3, h4, _⟩ := ReaderDecodes.read_message c hc t ht fs hs rest hp hend hsz (Or.inr hlim) k hk
  exact ⟨c1, rid, h1, c2, h2, h3, h4⟩

/-- memory: skipping the remainder of a frame reads at most 8192 bytes at a time whatever length the
    header claimed (io.CopyN to io.Discard); control payloads are at most 125 bytes -/
theorem skip_chunk_bounded (n : Nat) : min 8192 n ≤ 8192 := Nat.min_le_left _ _

open WS.Codec WS.ReaderDecodes WS.ReaderLift
/-- limit at the API: NextReader on an over-limit single-frame message returns ErrReadLimit without
    consuming a payload byte, and the 1009 close frame is on the wire -/
theorem nextReader_over_limit (c : Conn) (hc : ReaderIdle c) (hw : WHealthy c.w) (hclient : c.r.isServer = false)
    (t : Nat) (ht : t = 1 ∨ t = 2) (payload rest : Bytes) (hl : payload.length < 126)
    (hp : c.r.buf.pending = [UInt8.ofNat (128 + t), UInt8.ofNat payload.length] ++ payload ++ rest)
    (hlim : 0 < c.r.limit) (hover : c.r.limit < payload.length) :
    ∃ c', nextReader c = (if c.r.errCount + 1 ≥ 1000 then NRRes.panic else .err .readLimit, c') ∧
      c'.r.readErr = some .readLimit ∧
      c'.r.buf.pending = payload ++ rest ∧
      c'.w.wire = c.w.wire ++ closeFrameBytes c.w (closePayload 1009 []) := by
  first | exact ReaderLift.nextReader_over_limit_total .. | (apply ReaderLift.nextReader_over_limit_total <;> assumption)

open WS.ReaderMore in
theorem nextReader_over_limit_reachable (c : Conn) (hc : ReaderIdle c) (hi : CountInv c) (hw : WHealthy c.w) (hclient : c.r.isServer = false)
    (t : Nat) (ht : t = 1 ∨ t = 2) (payload rest : Bytes) (hl : payload.length < 126)
    (hp : c.r.buf.pending = [UInt8.ofNat (128 + t), UInt8.ofNat payload.length] ++ payload ++ rest)
    (hlim : 0 < c.r.limit) (hover : c.r.limit < payload.length) :
    ∃ c', nextReader c = (.err .readLimit, c') ∧ c'.r.readErr = some .readLimit ∧
      c'.r.buf.pending = payload ++ rest ∧
      c'.w.wire = c.w.wire ++ closeFrameBytes c.w (closePayload 1009 []) := by
  first | exact ReaderMore.nextReader_over_limit_reach .. | (apply ReaderMore.nextReader_over_limit_reach <;> assumption)

open WS.ReaderMore in
/-- the limit inside a fragmented message: the continuation frame (final or not) that takes the
    running sum over the limit is refused by the Read that meets it — ErrReadLimit, no byte
    delivered, no payload byte consumed, 1009 close frame written -/
theorem read_over_limit_mid_message (c : Conn) (rid : Nat) (hc : MidMessage c rid) (hw : WHealthy c.w)
    (hclient : c.r.isServer = false) (fin : Bool) (payload rest : Bytes) (hl : payload.length < 126)
    (hp : c.r.buf.pending = [UInt8.ofNat (if fin then 128 else 0), UInt8.ofNat payload.length] ++ payload ++ rest)
    (hlim : 0 < c.r.limit) (hsum : 0 ≤ c.r.length) (hsmall : c.r.length < 2 ^ 62)
    (hover : c.r.limit < c.r.length + payload.length) (k : Nat) (hk : 0 < k) :
    ∃ c', mrRead c rid k = (([], some .readLimit), c') ∧ c'.r.readErr = some .readLimit ∧
      c'.r.buf.pending = payload ++ rest ∧
      c'.w.wire = c.w.wire ++ closeFrameBytes c.w (closePayload 1009 []) := by
  first | exact ReaderMore.read_over_limit_mid_message .. | (apply ReaderMore.read_over_limit_mid_message <;> assumption)

open WS.ReaderMore in
/-- the running sum is the sum of the frame lengths of the current message: an accepted data frame
    adds exactly its length, a text/binary frame restarts the sum -/
theorem accepted_frame_adds_length (c : Conn) (hc : AtBoundary c) (b0 b1 : UInt8) (rest : Bytes)
    (hclient : c.r.isServer = false) (hp : c.r.buf.pending = b0 :: b1 :: rest)
    (hok : ¬ Violates c.r.isServer c.r.nego (!c.r.final) (parseHdr b0 b1))
    (hdata : (parseHdr b0 b1).opcode ≤ 2) (hlen : (parseHdr b0 b1).len7 < 126)
    (hsum : 0 ≤ c.r.length) (hsmall : c.r.length < 2 ^ 62)
    (hunder : c.r.limit ≤ 0 ∨ sumBase c (parseHdr b0 b1) + (parseHdr b0 b1).len7 ≤ c.r.limit) :
    ∃ res c', advanceFrame c = (res, c') ∧ (∀ e, res ≠ .error e) ∧
      c'.r.length = sumBase c (parseHdr b0 b1) + (parseHdr b0 b1).len7 := by
  first | exact ReaderMore.accepted_frame_adds_length .. | (apply ReaderMore.accepted_frame_adds_length <;> assumption)

end WS.Props.C06
