import WS.Lemmas.OverLimit
import WS.Lemmas.LimitClaimed
import WS.Lemmas.LimitHistory
import WS.Lemmas.RoleGeneric
import WS.Lemmas.ReaderRejects
import WS.Lemmas.ReaderDecodes
import WS.Lemmas.ReaderLift
import WS.Lemmas.ReaderMore
/-
  C06 — Read limit is exact, history-independent and bounds memory.
-/
namespace WS.Props.C06
open WS WS.HdrLogic WS.SrcLaw WS.ReaderRejects

/-- limit_refuses: the data frame whose header makes the running sum exceed the limit is refused
    before any byte of its payload is consumed; ErrReadLimit; a 1009 close frame is written -/
theorem limit_refuses (c : Conn) (hc : AtBoundary c) (hw : WHealthy c.w) (b0 b1 : UInt8) (rest : Bytes)
    (hclient : c.r.isServer = false) (hp : c.r.buf.pending = b0 :: b1 :: rest)
    (hok : ¬ Violates c.r.isServer c.r.nego (!c.r.final) (parseHdr b0 b1))
    (hdata : (parseHdr b0 b1).opcode ≤ 2) (hlen : (parseHdr b0 b1).len7 < 126)
    (hlim : 0 < c.r.limit) (hsum : 0 ≤ c.r.length) (hsmall : c.r.length < 2 ^ 62)
    (hover : c.r.limit < sumBase c (parseHdr b0 b1) + (parseHdr b0 b1).len7) :
    ∃ c', advanceFrame c = (.error .readLimit, c') ∧ c'.r.buf.pending = rest ∧ c'.r.hlog = c.r.hlog ∧
      c'.w.wire = c.w.wire ++ closeFrameBytes c.w (closePayload 1009 []) ∧ c'.w.writeErr = some .closeSent := by
  first | exact ReaderRejects.limit_refuses_small .. | (apply ReaderRejects.limit_refuses_small <;> assumption)

/-- history independence (regression sentinel for finding F2): a text / binary frame within the limit
    is admitted whatever running sum an abandoned earlier message left behind -/
theorem new_message_restarts_sum (c : Conn) (hc : AtBoundary c) (b0 b1 : UInt8) (rest : Bytes)
    (hclient : c.r.isServer = false) (hp : c.r.buf.pending = b0 :: b1 :: rest)
    (hok : ¬ Violates c.r.isServer c.r.nego (!c.r.final) (parseHdr b0 b1))
    (hdata : (parseHdr b0 b1).opcode = 1 ∨ (parseHdr b0 b1).opcode = 2) (hlen : (parseHdr b0 b1).len7 < 126)
    (hlim : ((parseHdr b0 b1).len7 : Int) ≤ c.r.limit) :
    ∃ c', advanceFrame c = (.ok (parseHdr b0 b1).opcode, c') ∧ c'.r.length = (parseHdr b0 b1).len7 ∧
      c'.r.buf.pending = rest ∧ c'.w = c.w := by
  first | exact ReaderRejects.new_message_restarts_sum .. | (apply ReaderRejects.new_message_restarts_sum <;> assumption)

/-- lengths with the top bit set are handled the same way: ErrReadLimit, nothing consumed, 1009 (F3) -/
theorem limit_topbit (c : Conn) (hc : AtBoundary c) (hw : WHealthy c.w) (b0 b1 : UInt8) (ext rest : Bytes)
    (hp : c.r.buf.pending = b0 :: b1 :: ext ++ rest) (hext : ext.length = 8)
    (hok : ¬ Violates c.r.isServer c.r.nego (!c.r.final) (parseHdr b0 b1))
    (h127 : (parseHdr b0 b1).len7 = 127) (htop : 2 ^ 63 ≤ beVal ext) :
    ∃ c', advanceFrame c = (.error .readLimit, c') ∧ c'.r.hlog = c.r.hlog ∧ c'.r.buf.pending = rest ∧
      c'.w.wire = c.w.wire ++ closeFrameBytes c.w (closePayload 1009 []) ∧ c'.w.writeErr = some .closeSent := by
  first | exact ReaderRejects.topbit_length_rejected .. | (apply ReaderRejects.topbit_length_rejected <;> assumption)

open WS.ReaderDecodes in
/-- limit_admits: with a limit L > 0 a conformant message whose data frames sum to at most L is read
    in full, whatever its fragmentation, interleaved control frames (not counted) and read sizes -/
theorem limit_admits (c : Conn) (hc : ReaderIdle c) (t : Nat) (ht : t = 1 ∨ t = 2) (fs : List PFrame)
    (hs : MsgShape t fs) (rest : Bytes)
    (hp : c.r.buf.pending = encAll c.r.isServer fs ++ rest)
    (hend : c.r.buf.t.together = false ∨ rest ≠ [])
    (hsz : (dataPayload fs).length < 2 ^ 62)
    (hlim : ((dataPayload fs).length : Int) ≤ c.r.limit)
    (k : Nat) (hk : 0 < k) :
    ∃ c1 rid, nextReader c = (.msg t rid false, c1) ∧
      ∃ c2, readAll c1 rid k = ((dataPayload fs, none), c2) ∧ ReaderIdle c2 ∧ c2.r.buf.pending = rest :=  by
  obtain ⟨c1, rid, h1, c2, h2, h3, h4, _⟩ := ReaderDecodes.read_message c hc t ht fs hs rest hp hend hsz (Or.inr hlim) k hk
  exact ⟨c1, rid, h1, c2, h2, h3, h4⟩

/-- memory: skipping the remainder of a frame reads at most 8192 bytes at a time whatever length the
    header claimed (io.CopyN to io.Discard); control payloads are at most 125 bytes -/
theorem skip_chunk_bounded (n : Nat) : min 8192 n ≤ 8192 := Nat.min_le_left _ _

open WS.Codec WS.ReaderDecodes WS.ReaderLift
/-- limit at the API: NextReader on an over-limit single-frame message returns ErrReadLimit without
    consuming a payload byte, and the 1009 close frame is on the wire -/
theorem nextReader_over_limit (c : Conn) (hc : ReaderIdle c) (hw : WHealthy c.w) (hclient : c.r.isServer = false)
    (t : Nat) (ht : t = 1 ∨ t = 2) (payload rest : Bytes) (hl : payload.length < 126)
    (hp : c.r.buf.pending = [UInt8.ofNat (128 + t), UInt8.ofNat payload.length] ++ payload ++ rest)
    (hlim : 0 < c.r.limit) (hover : c.r.limit < payload.length) :
    ∃ c', nextReader c = (if c.r.errCount + 1 ≥ 1000 then NRRes.panic else .err .readLimit, c') ∧
      c'.r.readErr = some .readLimit ∧
      c'.r.buf.pending = payload ++ rest ∧
      c'.w.wire = c.w.wire ++ closeFrameBytes c.w (closePayload 1009 []) := by
  first | exact ReaderLift.nextReader_over_limit_total .. | (apply ReaderLift.nextReader_over_limit_total <;> assumption)

open WS.ReaderMore in
theorem nextReader_over_limit_reachable (c : Conn) (hc : ReaderIdle c) (hi : CountInv c) (hw : WHealthy c.w) (hclient : c.r.isServer = false)
    (t : Nat) (ht : t = 1 ∨ t = 2) (payload rest : Bytes) (hl : payload.length < 126)
    (hp : c.r.buf.pending = [UInt8.ofNat (128 + t), UInt8.ofNat payload.length] ++ payload ++ rest)
    (hlim : 0 < c.r.limit) (hover : c.r.limit < payload.length) :
    ∃ c', nextReader c = (.err .readLimit, c') ∧ c'.r.readErr = some .readLimit ∧
      c'.r.buf.pending = payload ++ rest ∧
      c'.w.wire = c.w.wire ++ closeFrameBytes c.w (closePayload 1009 []) := by
  first | exact ReaderMore.nextReader_over_limit_reach .. | (apply ReaderMore.nextReader_over_limit_reach <;> assumption)

open WS.ReaderMore in
/-- the limit inside a fragmented message: the continuation frame (final or not) that takes the
    running sum over the limit is refused by the Read that meets it — ErrReadLimit, no byte
    delivered, no payload byte consumed, 1009 close frame written -/
theorem read_over_limit_mid_message (c : Conn) (rid : Nat) (hc : MidMessage c rid) (hw : WHealthy c.w)
    (hclient : c.r.isServer = false) (fin : Bool) (payload rest : Bytes) (hl : payload.length < 126)
    (hp : c.r.buf.pending = [UInt8.ofNat (if fin then 128 else 0), UInt8.ofNat payload.length] ++ payload ++ rest)
    (hlim : 0 < c.r.limit) (hsum : 0 ≤ c.r.length) (hsmall : c.r.length < 2 ^ 62)
    (hover : c.r.limit < c.r.length + payload.length) (k : Nat) (hk : 0 < k) :
    ∃ c', mrRead c rid k = (([], some .readLimit), c') ∧ c'.r.readErr = some .readLimit ∧
      c'.r.buf.pending = payload ++ rest ∧
      c'.w.wire = c.w.wire ++ closeFrameBytes c.w (closePayload 1009 []) := by
  first | exact ReaderMore.read_over_limit_mid_message .. | (apply ReaderMore.read_over_limit_mid_message <;> assumption)

open WS.ReaderMore in
/-- the running sum is the sum of the frame lengths of the current message: an accepted data frame
    adds exactly its length, a text/binary frame restarts the sum -/
theorem accepted_frame_adds_length (c : Conn) (hc : AtBoundary c) (b0 b1 : UInt8) (rest : Bytes)
    (hclient : c.r.isServer = false) (hp : c.r.buf.pending = b0 :: b1 :: rest)
    (hok : ¬ Violates c.r.isServer c.r.nego (!c.r.final) (parseHdr b0 b1))
    (hdata : (parseHdr b0 b1).opcode ≤ 2) (hlen : (parseHdr b0 b1).len7 < 126)
    (hsum : 0 ≤ c.r.length) (hsmall : c.r.length < 2 ^ 62)
    (hunder : c.r.limit ≤ 0 ∨ sumBase c (parseHdr b0 b1) + (parseHdr b0 b1).len7 ≤ c.r.limit) :
    ∃ res c', advanceFrame c = (res, c') ∧ (∀ e, res ≠ .error e) ∧
      c'.r.length = sumBase c (parseHdr b0 b1) + (parseHdr b0 b1).len7 := by
  first | exact ReaderMore.accepted_frame_adds_length .. | (apply ReaderMore.accepted_frame_adds_length <;> assumption)

open WS.Codec WS.ReaderDecodes WS.ReaderMore WS.RoleGeneric in
/-- limit_refuses for either role (masked or unmasked frames), the 7-bit and the 16-bit length encoding
    (payloads below 2^16), first frame or continuation; needs a healthy write side for the 1009 frame -/
theorem limit_refuses_any_role (c : Conn) (hc : AtBoundary c) (hw : WHealthy c.w)
    (op : Nat) (fin : Bool) (key : Key) (payload rest : Bytes) (hl : payload.length < 65536)
    (hop : (c.r.final = true ∧ (op = 1 ∨ op = 2)) ∨ (c.r.final = false ∧ op = 0))
    (hp : c.r.buf.pending = PFrame.enc c.r.isServer ⟨op, fin, key, payload⟩ ++ rest)
    (hlim : 0 < c.r.limit) (hsum : 0 ≤ c.r.length) (hsmall : c.r.length < 2 ^ 62)
    (hover : c.r.limit < (if op = 0 then c.r.length else 0) + payload.length) :
    ∃ c', advanceFrame c = (.error .readLimit, c') ∧
      c'.r.buf.pending = (if c.r.isServer then maskFrom key 0 payload else payload) ++ rest ∧
      c'.r.hlog = c.r.hlog ∧
      c'.w.wire = c.w.wire ++ closeFrameBytes c.w (closePayload 1009 []) ∧ c'.w.writeErr = some .closeSent := by
  first | exact RoleGeneric.limit_refuses_any .. | (apply RoleGeneric.limit_refuses_any <;> assumption)

open WS.Codec WS.ReaderDecodes WS.ReaderMore WS.RoleGeneric in
theorem nextReader_over_limit_any_role (c : Conn) (hc : ReaderIdle c) (hi : CountInv c) (hw : WHealthy c.w)
    (t : Nat) (ht : t = 1 ∨ t = 2) (fin : Bool) (key : Key) (payload rest : Bytes) (hl : payload.length < 65536)
    (hp : c.r.buf.pending = PFrame.enc c.r.isServer ⟨t, fin, key, payload⟩ ++ rest)
    (hlim : 0 < c.r.limit) (hover : c.r.limit < payload.length) :
    ∃ c', nextReader c = (.err .readLimit, c') ∧ c'.r.readErr = some .readLimit ∧
      c'.w.wire = c.w.wire ++ closeFrameBytes c.w (closePayload 1009 []) := by
  first | exact RoleGeneric.nextReader_over_limit_any .. | (apply RoleGeneric.nextReader_over_limit_any <;> assumption)


open WS.Codec WS.SrcLaw WS.HdrLogic WS.ReaderDecodes WS.ReaderRejects WS.ReaderLift WS.ReaderMore WS.RoleGeneric WS.LimitClaimed

/-- the limit against every length a header can CLAIM: 7-bit, 16-bit and 64-bit encodings (minimal or
    not), any claimed length below 2^63, any running sum — including sums that leave the int64 range
    (the Go code adds int64s; the model wraps with `wrap64`). The data frame whose claimed length takes
    the message over the limit in the mathematical integers is refused as soon as its header has
    arrived — nothing of the payload needs to be there: ErrReadLimit, exactly the header consumed, no
    handler run, a 1009 close frame written. Either role, first frame or continuation. -/
theorem limit_refuses_claimed (c : Conn) (hc : AtBoundary c) (hw : WHealthy c.w)
    (b0 b1 : UInt8) (ext keyb rest : Bytes)
    (hok : ¬ Violates c.r.isServer c.r.nego (!c.r.final) (parseHdr b0 b1))
    (hdata : (parseHdr b0 b1).opcode ≤ 2)
    (hext : ext.length = extLen (parseHdr b0 b1))
    (hkey : keyb.length = if (parseHdr b0 b1).mask then 4 else 0)
    (hp : c.r.buf.pending = b0 :: b1 :: (ext ++ keyb ++ rest))
    (hL : claimed (parseHdr b0 b1) ext < 2 ^ 63)
    (hsum : 0 ≤ c.r.length) (hsum' : c.r.length < 2 ^ 63)
    (hlim : 0 < c.r.limit)
    (hover : c.r.limit < sumBase c (parseHdr b0 b1) + (claimed (parseHdr b0 b1) ext : Int)) :
    ∃ c', advanceFrame c = (.error .readLimit, c') ∧ c'.r.buf.pending = rest ∧ c'.r.hlog = c.r.hlog ∧
      c'.w.wire = c.w.wire ++ closeFrameBytes c.w (closePayload 1009 []) ∧ c'.w.writeErr = some .closeSent := by
  first | exact WS.LimitClaimed.limit_refuses_claimed .. | (apply WS.LimitClaimed.limit_refuses_claimed <;> assumption)

/-- a 64-bit length with the top bit set is refused the same way whatever the limit (even none),
    before the masking key is read -/
theorem topbit_refused_claimed (c : Conn) (hc : AtBoundary c) (hw : WHealthy c.w)
    (b0 b1 : UInt8) (ext rest : Bytes)
    (hok : ¬ Violates c.r.isServer c.r.nego (!c.r.final) (parseHdr b0 b1))
    (h127 : (parseHdr b0 b1).len7 = 127) (hext : ext.length = 8)
    (hp : c.r.buf.pending = b0 :: b1 :: (ext ++ rest))
    (hL : 2 ^ 63 ≤ beVal ext) :
    ∃ c', advanceFrame c = (.error .readLimit, c') ∧ c'.r.buf.pending = rest ∧ c'.r.hlog = c.r.hlog ∧
      c'.w.wire = c.w.wire ++ closeFrameBytes c.w (closePayload 1009 []) := by
  first | exact WS.LimitClaimed.topbit_refused_claimed .. | (apply WS.LimitClaimed.topbit_refused_claimed <;> assumption)

/-- API level: NextReader on an idle reader meeting such a first frame returns ErrReadLimit, latches
    it, and the 1009 frame is on the wire -/
theorem nextReader_over_limit_claimed (c : Conn) (hc : ReaderIdle c) (hi : CountInv c) (hw : WHealthy c.w)
    (b0 b1 : UInt8) (ext keyb rest : Bytes)
    (hok : ¬ Violates c.r.isServer c.r.nego false (parseHdr b0 b1))
    (hdata : (parseHdr b0 b1).opcode = 1 ∨ (parseHdr b0 b1).opcode = 2)
    (hext : ext.length = extLen (parseHdr b0 b1))
    (hkey : keyb.length = if (parseHdr b0 b1).mask then 4 else 0)
    (hp : c.r.buf.pending = b0 :: b1 :: (ext ++ keyb ++ rest))
    (hL : claimed (parseHdr b0 b1) ext < 2 ^ 63)
    (hlim : 0 < c.r.limit) (hover : c.r.limit < (claimed (parseHdr b0 b1) ext : Int)) :
    ∃ c', nextReader c = (.err .readLimit, c') ∧ c'.r.readErr = some .readLimit ∧
      c'.w.wire = c.w.wire ++ closeFrameBytes c.w (closePayload 1009 []) := by
  first | exact WS.LimitClaimed.nextReader_over_limit_claimed .. | (apply WS.LimitClaimed.nextReader_over_limit_claimed <;> assumption)


open WS.Codec WS.ReaderDecodes WS.LimitHistory in
/-- history independence at the message level (the first sentence of C06; regression statement for
    finding F2): with a limit L > 0 in force, a message within the limit that the application
    abandons after reads of any sizes — none, some, to the end or beyond — is followed by the next
    message within the limit being read IN FULL, whatever the two fragmentations, interleaved control
    frames, role, bufio size and transport chunking; the limit itself is unchanged -/
theorem abandon_then_next_limited (c : Conn) (hc : ReaderIdle c) (t1 t2 : Nat) (ht1 : t1 = 1 ∨ t1 = 2) (ht2 : t2 = 1 ∨ t2 = 2)
    (fs1 fs2 : List PFrame) (hs1 : MsgShape t1 fs1) (hs2 : MsgShape t2 fs2) (rest : Bytes)
    (hp : c.r.buf.pending = encAll c.r.isServer fs1 ++ encAll c.r.isServer fs2 ++ rest)
    (hend : c.r.buf.t.together = false ∨ rest ≠ [])
    (hsz : (dataPayload fs1).length < 2 ^ 62 ∧ (dataPayload fs2).length < 2 ^ 62)
    (hL : 0 < c.r.limit)
    (h1 : ((dataPayload fs1).length : Int) ≤ c.r.limit) (h2 : ((dataPayload fs2).length : Int) ≤ c.r.limit)
    (reads : List Nat) (k : Nat) (hk : 0 < k) :
    ∃ c1 rid1, nextReader c = (.msg t1 rid1 false, c1) ∧
      ∃ c3 rid2, nextReader (partialReads c1 rid1 reads) = (.msg t2 rid2 false, c3) ∧
        ∃ c4, readAll c3 rid2 k = ((dataPayload fs2, none), c4) ∧ ReaderIdle c4 ∧ c4.r.buf.pending = rest ∧
          c4.r.hlog = c.r.hlog ++ ctlEvents fs1 ++ ctlEvents fs2 ∧ c4.r.limit = c.r.limit := by
  first | exact WS.LimitHistory.abandon_then_next_limited .. | (apply WS.LimitHistory.abandon_then_next_limited <;> assumption)

open WS.Codec WS.ReaderDecodes WS.LimitHistory in
/-- … for ANY NUMBER of earlier messages, each within the limit and each treated by the application in
    any way (`readss`: one list of read sizes per message; `touchMsgs` is the plain loop "NextReader,
    then Reads of these sizes, results discarded"): the next message of at most L payload bytes is read
    in full. The running sum of an earlier message never counts against a later one. -/
theorem limit_history_independent (c : Conn) (hc : ReaderIdle c) (hL : 0 < c.r.limit)
    (msgs : List (Nat × List PFrame))
    (hm : ∀ m ∈ msgs, (m.1 = 1 ∨ m.1 = 2) ∧ MsgShape m.1 m.2 ∧ (dataPayload m.2).length < 2 ^ 62 ∧
            ((dataPayload m.2).length : Int) ≤ c.r.limit)
    (readss : List (List Nat)) (hr : readss.length = msgs.length)
    (t : Nat) (ht : t = 1 ∨ t = 2) (fs : List PFrame) (hs : MsgShape t fs)
    (hsz : (dataPayload fs).length < 2 ^ 62) (hfit : ((dataPayload fs).length : Int) ≤ c.r.limit)
    (rest : Bytes)
    (hp : c.r.buf.pending = (msgs.map (fun m => encAll c.r.isServer m.2)).flatten ++ encAll c.r.isServer fs ++ rest)
    (hend : c.r.buf.t.together = false ∨ rest ≠ []) (k : Nat) (hk : 0 < k) :
    ∃ c1 rid, nextReader (touchMsgs readss c) = (.msg t rid false, c1) ∧
      ∃ c2, readAll c1 rid k = ((dataPayload fs, none), c2) ∧ ReaderIdle c2 ∧ c2.r.buf.pending = rest ∧
        c2.r.hlog = c.r.hlog ++ (msgs.map (fun m => ctlEvents m.2)).flatten ++ ctlEvents fs := by
  first | exact WS.LimitHistory.limit_history_independent .. | (apply WS.LimitHistory.limit_history_independent <;> assumption)

open WS.Codec WS.ReaderDecodes WS.Sequences WS.LimitHistory in
/-- any number of messages, each within the limit (their total far above it), all read in full, in order -/
theorem read_messages_limited (c : Conn) (hc : ReaderIdle c) (msgs : List (Nat × List PFrame))
    (hm : ∀ m ∈ msgs, (m.1 = 1 ∨ m.1 = 2) ∧ MsgShape m.1 m.2 ∧ (dataPayload m.2).length < 2 ^ 62 ∧
            ((dataPayload m.2).length : Int) ≤ c.r.limit)
    (rest : Bytes)
    (hp : c.r.buf.pending = (msgs.map (fun m => encAll c.r.isServer m.2)).flatten ++ rest)
    (hend : c.r.buf.t.together = false ∨ rest ≠ []) (k : Nat) (hk : 0 < k) :
    ∃ c', readMsgs k msgs.length c = (msgs.map (fun m => (m.1, dataPayload m.2)), c') ∧
      ReaderIdle c' ∧ c'.r.buf.pending = rest ∧
      c'.r.hlog = c.r.hlog ++ (msgs.map (fun m => ctlEvents m.2)).flatten := by
  first | exact WS.LimitHistory.read_messages_limited .. | (apply WS.LimitHistory.read_messages_limited <;> assumption)

open WS.Codec WS.ReaderDecodes WS.CutLogic WS.ReaderMore in
/-- the second sentence of C06 at the message level: a message exceeding the read limit L > 0 can never
    be read in full — NextReader or one of the Reads fails with ErrReadLimit, and what was delivered
    before is a prefix of the payload of at most L bytes — whatever the fragmentation, interleaved
    control frames, role, chunking, bufio size and read size (`openAndRead`: NextReader, then Reads of
    size k to the end or the first error) -/
theorem over_limit_never_complete (c : Conn) (hc : ReaderIdle c) (t : Nat) (ht : t = 1 ∨ t = 2)
    (fs : List PFrame) (hs : MsgShape t fs) (rest : Bytes)
    (hp : c.r.buf.pending = encAll c.r.isServer fs ++ rest)
    (hend : c.r.buf.t.together = false ∨ rest ≠ [])
    (hsz : (dataPayload fs).length < 2 ^ 62)
    (hL : 0 < c.r.limit) (hover : c.r.limit < ((dataPayload fs).length : Int))
    (hcnt : c.r.errCount + 1 < 1000) (k : Nat) (hk : 0 < k) :
    openAndRead c k = .failedOpen .readLimit ∨
    (∃ got, openAndRead c k = .failedRead t got .readLimit ∧ got <+: dataPayload fs ∧
        (got.length : Int) ≤ c.r.limit) := by
  first | exact WS.OverLimit.over_limit_never_complete .. | (apply WS.OverLimit.over_limit_never_complete <;> assumption)

/-! ### non-vacuity -/
section NonVacuity
set_option linter.defProp false
open WS WS.HdrLogic WS.SrcLaw WS.ReaderRejects WS.Codec WS.ReaderDecodes WS.ReaderLift WS.ReaderMore

/-- a client connection with read limit 128, in the middle of a fragmented message of which 100
    bytes have been counted (message reader 2 current); pending: a final continuation frame of 64
    bytes (header 0x80 0x40; only the first payload bytes have arrived), which takes the sum to 164 -/
def witMid : Conn :=
  { w := { newW false 4096 false false with keys := [1, 2, 3, 4] },
    r := { isServer := false, nego := false, limit := 128, length := 100, final := false,
           msgReader := some 2, nextId := 3,
           buf := { size := 4096, buf := [0x80, 0x40, 0x61], t := { chunks := [[0x62, 0x63]] }, total := 66 } } }

def witMid_wf : WF witMid.r.buf := ⟨by decide, by decide, by decide, (by intro e h; cases h)⟩
def witMid_atBoundary : AtBoundary witMid := ⟨rfl, rfl, witMid_wf, by decide⟩
def witMid_pending : witMid.r.buf.pending = 0x80 :: 0x40 :: [0x61, 0x62, 0x63] := by decide
def witMid_ok : ¬ Violates witMid.r.isServer witMid.r.nego (!witMid.r.final) (parseHdr 0x80 0x40) := by
  rw [← headerErrors_nil_iff]; decide

/-- non-vacuity of `limit_refuses`: all eleven hypotheses hold for `witMid` (100 + 64 > 128) -/
example : ∃ c', advanceFrame witMid = (.error .readLimit, c') ∧ c'.r.buf.pending = [0x61, 0x62, 0x63] ∧ c'.r.hlog = witMid.r.hlog ∧
      c'.w.wire = witMid.w.wire ++ closeFrameBytes witMid.w (closePayload 1009 []) ∧ c'.w.writeErr = some .closeSent :=
  limit_refuses witMid witMid_atBoundary ⟨rfl, rfl⟩ 0x80 0x40 _ rfl witMid_pending witMid_ok
    (by decide) (by decide) (by decide) (by decide) (by decide) (by decide)

/-- the same situation with read limit 101 and the complete frame pending: a final continuation
    frame carrying "abc" (100 + 3 > 101), followed by a ping -/
def witMid2 : Conn :=
  { w := { newW false 4096 false false with keys := [1, 2, 3, 4] },
    r := { isServer := false, nego := false, limit := 101, length := 100, final := false,
           msgReader := some 2, nextId := 3,
           buf := { size := 4096, buf := [0x80, 0x03, 0x61], t := { chunks := [[0x62, 0x63, 0x89, 0x00]] }, total := 7 } } }

def witMid2_mid : MidMessage witMid2 2 :=
  ⟨rfl, rfl, rfl, rfl, ⟨by decide, by decide, by decide, (by intro e h; cases h)⟩, by decide, by decide⟩

/-- non-vacuity of `read_over_limit_mid_message`: `MidMessage`, `WHealthy`, the pending bytes in the
    shape header ++ payload ++ rest and the limit hypotheses hold together for `witMid2` -/
example : ∃ c', mrRead witMid2 2 512 = (([], some .readLimit), c') ∧ c'.r.readErr = some .readLimit ∧
      c'.r.buf.pending = [0x61, 0x62, 0x63] ++ [0x89, 0x00] ∧
      c'.w.wire = witMid2.w.wire ++ closeFrameBytes witMid2.w (closePayload 1009 []) :=
  read_over_limit_mid_message witMid2 2 witMid2_mid ⟨rfl, rfl⟩ rfl true [0x61, 0x62, 0x63] [0x89, 0x00] (by decide)
    (by decide) (by decide) (by decide) (by decide) (by decide) 512 (by decide)

/-- a client connection with read limit 128 whose application abandoned the previous message after
    100 counted bytes (`length = 100` left behind, reader at a frame boundary with `final = true`);
    pending: a new final text frame of 64 bytes -/
def witAbandoned : Conn :=
  { w := { newW false 4096 false false with keys := [1, 2, 3, 4] },
    r := { isServer := false, nego := false, limit := 128, length := 100, final := true, nextId := 3,
           buf := { size := 4096, buf := [0x81, 0x40, 0x61], t := { chunks := [[0x62, 0x63]] }, total := 66 } } }

def witAbandoned_atBoundary : AtBoundary witAbandoned :=
  ⟨rfl, rfl, ⟨by decide, by decide, by decide, (by intro e h; cases h)⟩, by decide⟩
def witAbandoned_ok : ¬ Violates witAbandoned.r.isServer witAbandoned.r.nego (!witAbandoned.r.final) (parseHdr 0x81 0x40) := by
  rw [← headerErrors_nil_iff]; decide

/-- non-vacuity of `new_message_restarts_sum` -/
example : ∃ c', advanceFrame witAbandoned = (.ok 1, c') ∧ c'.r.length = (64 : Nat) ∧
      c'.r.buf.pending = [0x61, 0x62, 0x63] ∧ c'.w = witAbandoned.w :=
  new_message_restarts_sum witAbandoned witAbandoned_atBoundary 0x81 0x40 [0x61, 0x62, 0x63] rfl (by decide) witAbandoned_ok
    (Or.inl (by decide)) (by decide) (by decide)

/-- non-vacuity of `accepted_frame_adds_length` (a text frame: the sum restarts at 0 + 64 ≤ 128) … -/
example : ∃ res c', advanceFrame witAbandoned = (res, c') ∧ (∀ e, res ≠ .error e) ∧
      c'.r.length = sumBase witAbandoned (parseHdr 0x81 0x40) + (parseHdr 0x81 0x40).len7 :=
  accepted_frame_adds_length witAbandoned witAbandoned_atBoundary 0x81 0x40 [0x61, 0x62, 0x63] rfl (by decide) witAbandoned_ok
    (by decide) (by decide) (by decide) (by decide) (Or.inr (by decide))

/-- … and (a continuation frame of 20 bytes inside a message: 100 + 20 ≤ 128) -/
def witMid3 : Conn :=
  { w := { newW false 4096 false false with keys := [1, 2, 3, 4] },
    r := { isServer := false, nego := false, limit := 128, length := 100, final := false,
           msgReader := some 2, nextId := 3,
           buf := { size := 4096, buf := [0x00, 0x14, 0x61], t := { chunks := [[0x62, 0x63]] }, total := 22 } } }

example : ∃ res c', advanceFrame witMid3 = (res, c') ∧ (∀ e, res ≠ .error e) ∧
      c'.r.length = sumBase witMid3 (parseHdr 0x00 0x14) + (parseHdr 0x00 0x14).len7 :=
  accepted_frame_adds_length witMid3 ⟨rfl, rfl, ⟨by decide, by decide, by decide, (by intro e h; cases h)⟩, by decide⟩
    0x00 0x14 [0x61, 0x62, 0x63] rfl (by decide) (by rw [← headerErrors_nil_iff]; decide)
    (by decide) (by decide) (by decide) (by decide) (Or.inr (by decide))

example : sumBase witMid3 (parseHdr 0x00 0x14) + (parseHdr 0x00 0x14).len7 = 120 := by decide

/-- an idle client reader with read limit 128 facing a binary frame whose 64-bit length field has the
    top bit set (0x8000000000000010), one more byte behind it -/
def witTop : Conn :=
  { w := { newW false 4096 false false with keys := [1, 2, 3, 4] },
    r := { isServer := false, nego := false, limit := 128,
           buf := { size := 4096, buf := [], t := { chunks := [[0x82, 0x7F, 0x80, 0, 0], [0, 0, 0, 0, 0x10, 0xAA]] }, total := 11 } } }

/-- non-vacuity of `limit_topbit` -/
example : ∃ c', advanceFrame witTop = (.error .readLimit, c') ∧ c'.r.hlog = witTop.r.hlog ∧ c'.r.buf.pending = [0xAA] ∧
      c'.w.wire = witTop.w.wire ++ closeFrameBytes witTop.w (closePayload 1009 []) ∧ c'.w.writeErr = some .closeSent :=
  limit_topbit witTop ⟨rfl, rfl, ⟨by decide, by decide, by decide, (by intro e h; cases h)⟩, by decide⟩ ⟨rfl, rfl⟩
    0x82 0x7F [0x80, 0, 0, 0, 0, 0, 0, 0x10] [0xAA] (by decide) rfl
    (by rw [← headerErrors_nil_iff]; decide) (by decide) (by decide)

/-- a text message "Hello" from a server in two fragments with a 3-byte ping in between -/
def witMsg : List PFrame :=
  [{ op := 1, fin := false, key := default, payload := [0x48, 0x65, 0x6c] },
   { op := 9, fin := true, key := default, payload := [1, 2, 3] },
   { op := 0, fin := true, key := default, payload := [0x6c, 0x6f] }]

def witMsg_shape : MsgShape 1 witMsg :=
  MsgShape.frag _ _ rfl rfl (by decide)
    (Tail.ctl _ _ ⟨Or.inl rfl, rfl, by decide⟩ (Tail.last _ rfl rfl (by decide)))

/-- an idle client reader with read limit exactly 5 = |"Hello"| (the ping's 3 bytes do not count);
    the transport delivers the 14 wire bytes in two chunks and then a close frame header -/
def witExact : Conn :=
  { w := { newW false 4096 false false with keys := [1, 2, 3, 4] },
    r := { isServer := false, nego := false, limit := 5,
           buf := { size := 4096, buf := [],
                    t := { chunks := [(encAll false witMsg).take 6, (encAll false witMsg).drop 6 ++ [0x88, 0x00]] }, total := 16 } } }

def witExact_idle : ReaderIdle witExact :=
  ⟨rfl, rfl, rfl, ⟨by decide, by decide, by decide, (by intro e h; cases h)⟩, by decide, by decide,
    (by intro id h; cases h), (by intro id h; cases h)⟩

/-- non-vacuity of `limit_admits`: reads of 3 bytes -/
example : ∃ c1 rid, nextReader witExact = (.msg 1 rid false, c1) ∧
      ∃ c2, readAll c1 rid 3 = (([0x48, 0x65, 0x6c, 0x6c, 0x6f], none), c2) ∧ ReaderIdle c2 ∧ c2.r.buf.pending = [0x88, 0x00] :=
  limit_admits witExact witExact_idle 1 (Or.inl rfl) witMsg witMsg_shape [0x88, 0x00] (by decide) (Or.inl rfl)
    (by decide) (by decide) 3 (by decide)

/-- an idle client reader with read limit 4 facing an unfragmented 10-byte binary message and then a ping -/
def witOver : Conn :=
  { w := { newW false 4096 false false with keys := [1, 2, 3, 4] },
    r := { isServer := false, nego := false, limit := 4, hlog := [.ping []],
           buf := { size := 4096, buf := [0x82, 0x0A, 0, 1, 2],
                    t := { chunks := [[3, 4, 5, 6, 7, 8, 9, 0x89, 0x00]] }, total := 14 } } }

def witOver_idle : ReaderIdle witOver :=
  ⟨rfl, rfl, rfl, ⟨by decide, by decide, by decide, (by intro e h; cases h)⟩, by decide, by decide,
    (by intro id h; cases h), (by intro id h; cases h)⟩

/-- non-vacuity of `nextReader_over_limit` -/
example : ∃ c', nextReader witOver = (if witOver.r.errCount + 1 ≥ 1000 then NRRes.panic else .err .readLimit, c') ∧
      c'.r.readErr = some .readLimit ∧
      c'.r.buf.pending = [0, 1, 2, 3, 4, 5, 6, 7, 8, 9] ++ [0x89, 0x00] ∧
      c'.w.wire = witOver.w.wire ++ closeFrameBytes witOver.w (closePayload 1009 []) :=
  nextReader_over_limit witOver witOver_idle ⟨rfl, rfl⟩ rfl 2 (Or.inr rfl) [0, 1, 2, 3, 4, 5, 6, 7, 8, 9] [0x89, 0x00]
    (by decide) (by decide) (by decide) (by decide)

/-- non-vacuity of `nextReader_over_limit_reachable`: additionally `CountInv` -/
example : ∃ c', nextReader witOver = (.err .readLimit, c') ∧ c'.r.readErr = some .readLimit ∧
      c'.r.buf.pending = [0, 1, 2, 3, 4, 5, 6, 7, 8, 9] ++ [0x89, 0x00] ∧
      c'.w.wire = witOver.w.wire ++ closeFrameBytes witOver.w (closePayload 1009 []) :=
  nextReader_over_limit_reachable witOver witOver_idle (fun _ => rfl) ⟨rfl, rfl⟩ rfl 2 (Or.inr rfl)
    [0, 1, 2, 3, 4, 5, 6, 7, 8, 9] [0x89, 0x00] (by decide) (by decide) (by decide) (by decide)

/-- evaluated: the 1009 close frame (masked with the first key of the key source) is the whole wire -/
example : (nextReader witOver).2.w.wire = [0x88, 0x82, 1, 2, 3, 4, 3 ^^^ 1, 0xF1 ^^^ 2] := by decide

/-- 64 payload bytes / 200 payload bytes -/
def witP64 : Bytes := List.replicate 64 0x61
def witP200 : Bytes := List.replicate 200 0x62

/-- a SERVER connection with read limit 128, in the middle of a fragmented message of which 100 bytes
    have been counted; pending: a masked (key 37 fa 21 3d) final continuation frame of 64 bytes, delivered in
    three pieces (5 bytes buffered, then 30, then the rest plus a masked ping header): 100 + 64 > 128 -/
def witSrvMid : Conn :=
  { w := newW true 4096 false false,
    r := { isServer := true, nego := false, limit := 128, length := 100, final := false,
           msgReader := some 2, nextId := 3,
           buf := { size := 4096, buf := (PFrame.enc true ⟨0, true, ⟨0x37, 0xfa, 0x21, 0x3d⟩, witP64⟩).take 5,
                    t := { chunks := [((PFrame.enc true ⟨0, true, ⟨0x37, 0xfa, 0x21, 0x3d⟩, witP64⟩).drop 5).take 30,
                                      (PFrame.enc true ⟨0, true, ⟨0x37, 0xfa, 0x21, 0x3d⟩, witP64⟩).drop 35 ++ [0x89, 0x80]] },
                    total := 72 } } }

def witSrvMid_atBoundary : AtBoundary witSrvMid :=
  ⟨rfl, rfl, ⟨by decide, by decide, by decide, (by intro e h; cases h)⟩, by decide⟩

/-- the frame really is masked: header 80 c0 (FIN+continuation, MASK+64), then the key -/
example : witSrvMid.r.buf.pending.take 7 = [0x80, 0xC0, 0x37, 0xfa, 0x21, 0x3d, 0x61 ^^^ 0x37] := by decide

/-- non-vacuity of `limit_refuses_any_role`: all hypotheses hold for the server reader `witSrvMid`
    (masked continuation frame, running sum 100, limit 128, payload 64) -/
example : ∃ c', advanceFrame witSrvMid = (.error .readLimit, c') ∧
      c'.r.buf.pending = (if witSrvMid.r.isServer then maskFrom ⟨0x37, 0xfa, 0x21, 0x3d⟩ 0 witP64 else witP64) ++ [0x89, 0x80] ∧
      c'.r.hlog = witSrvMid.r.hlog ∧
      c'.w.wire = witSrvMid.w.wire ++ closeFrameBytes witSrvMid.w (closePayload 1009 []) ∧ c'.w.writeErr = some .closeSent :=
  limit_refuses_any_role witSrvMid witSrvMid_atBoundary ⟨rfl, rfl⟩ 0 true ⟨0x37, 0xfa, 0x21, 0x3d⟩ witP64 [0x89, 0x80]
    (by decide) (Or.inr ⟨rfl, rfl⟩) (by decide) (by decide) (by decide) (by decide) (by decide)

/-- evaluated: the server's 1009 close frame (unmasked) is the whole wire -/
example : (advanceFrame witSrvMid).2.w.wire = [0x88, 0x02, 0x03, 0xF1] := by decide

/-- an idle SERVER reader with read limit 150 facing a masked (key a0 b0 c0 d0) unfragmented text frame of
    200 bytes — the 16-bit length form (header 81 fe 00 c8) — in three transport chunks, then a ping header -/
def witSrvOver : Conn :=
  { w := newW true 4096 false false,
    r := { isServer := true, nego := false, limit := 150, hlog := [.ping []],
           buf := { size := 4096, buf := [],
                    t := { chunks := [(PFrame.enc true ⟨1, true, ⟨0xa0, 0xb0, 0xc0, 0xd0⟩, witP200⟩).take 3,
                                      ((PFrame.enc true ⟨1, true, ⟨0xa0, 0xb0, 0xc0, 0xd0⟩, witP200⟩).drop 3).take 100,
                                      (PFrame.enc true ⟨1, true, ⟨0xa0, 0xb0, 0xc0, 0xd0⟩, witP200⟩).drop 103 ++ [0x89, 0x80]] },
                    total := 210 } } }

def witSrvOver_idle : ReaderIdle witSrvOver :=
  ⟨rfl, rfl, rfl, ⟨by decide, by decide, by decide +kernel, (by intro e h; cases h)⟩, by decide, by decide +kernel,
    (by intro id h; cases h), (by intro id h; cases h)⟩

example : witSrvOver.r.buf.pending.take 9 = [0x81, 0xFE, 0x00, 0xC8, 0xa0, 0xb0, 0xc0, 0xd0, 0x62 ^^^ 0xa0] := by
  decide +kernel

def witP200_len : witP200.length = 200 := by rw [witP200, List.length_replicate]

/-- non-vacuity of `nextReader_over_limit_any_role`: all hypotheses hold for the server reader `witSrvOver`
    (200 > 150, 16-bit length form, masked) -/
example : ∃ c', nextReader witSrvOver = (.err .readLimit, c') ∧ c'.r.readErr = some .readLimit ∧
      c'.w.wire = witSrvOver.w.wire ++ closeFrameBytes witSrvOver.w (closePayload 1009 []) :=
  nextReader_over_limit_any_role witSrvOver witSrvOver_idle (fun _ => rfl) ⟨rfl, rfl⟩ 1 (Or.inl rfl) true
    ⟨0xa0, 0xb0, 0xc0, 0xd0⟩ witP200 [0x89, 0x80] (by rw [witP200_len]; decide) (by decide +kernel) (by decide)
    (by rw [witP200_len]; decide)

/-- evaluated -/
example : (nextReader witSrvOver).2.w.wire = [0x88, 0x02, 0x03, 0xF1] := by decide +kernel

/-! #### claimed lengths (`limit_refuses_claimed`, `topbit_refused_claimed`, `nextReader_over_limit_claimed`) -/

/-- an idle client reader with read limit 1000; all that has arrived is the 10-byte header of a final
    binary frame in the 64-bit length form (82 7f 00 00 01 00 00 00 00 00) claiming 2^40 bytes — four
    header bytes are buffered, the other six are the transport's only chunk, no payload byte at all -/
def witClaim64 : Conn :=
  { w := { newW false 4096 false false with keys := [1, 2, 3, 4] },
    r := { isServer := false, nego := false, limit := 1000, hlog := [.ping []],
           buf := { size := 4096, buf := [0x82, 0x7F, 0, 0], t := { chunks := [[1, 0, 0, 0, 0, 0]] }, total := 10 } } }

def witClaim64_idle : ReaderIdle witClaim64 :=
  ⟨rfl, rfl, rfl, ⟨by decide, by decide, by decide, (by intro e h; cases h)⟩, by decide, by decide,
    (by intro id h; cases h), (by intro id h; cases h)⟩
def witClaim64_atBoundary : AtBoundary witClaim64 :=
  ⟨witClaim64_idle.noErr, witClaim64_idle.rem, witClaim64_idle.wf, witClaim64_idle.size⟩
def witClaim64_pending : witClaim64.r.buf.pending = 0x82 :: 0x7F :: ([0, 0, 1, 0, 0, 0, 0, 0] ++ [] ++ []) := by decide
def witClaim64_claimed : claimed (parseHdr 0x82 0x7F) [0, 0, 1, 0, 0, 0, 0, 0] = 2 ^ 40 := by decide

/-- non-vacuity of `limit_refuses_claimed`, instance 1: all hypotheses hold for `witClaim64`
    (claimed 2^40 > 1000; only the header is pending, so `rest = []`) -/
example : ∃ c', advanceFrame witClaim64 = (.error .readLimit, c') ∧ c'.r.buf.pending = [] ∧ c'.r.hlog = witClaim64.r.hlog ∧
      c'.w.wire = witClaim64.w.wire ++ closeFrameBytes witClaim64.w (closePayload 1009 []) ∧ c'.w.writeErr = some .closeSent :=
  limit_refuses_claimed witClaim64 witClaim64_atBoundary ⟨rfl, rfl⟩ 0x82 0x7F [0, 0, 1, 0, 0, 0, 0, 0] [] []
    (by rw [← headerErrors_nil_iff]; decide) (by decide) (by decide) (by decide) witClaim64_pending
    (by decide) (by decide) (by decide) (by decide) (by decide)

/-- non-vacuity of `nextReader_over_limit_claimed`: `ReaderIdle`, `CountInv`, `WHealthy` and the header
    hypotheses hold together for `witClaim64` -/
example : ∃ c', nextReader witClaim64 = (.err .readLimit, c') ∧ c'.r.readErr = some .readLimit ∧
      c'.w.wire = witClaim64.w.wire ++ closeFrameBytes witClaim64.w (closePayload 1009 []) :=
  nextReader_over_limit_claimed witClaim64 witClaim64_idle (fun _ => rfl) ⟨rfl, rfl⟩ 0x82 0x7F [0, 0, 1, 0, 0, 0, 0, 0] [] []
    ((headerErrors_nil_iff _ _ true _).mp (by decide)) (Or.inr (by decide)) (by decide) (by decide) witClaim64_pending
    (by decide) (by decide) (by decide)

/-- evaluated: the error is latched, nothing is left pending, and the masked 1009 close frame is the whole wire -/
example : (nextReader witClaim64).2.r.readErr = some .readLimit ∧ (nextReader witClaim64).2.r.buf.pending = [] ∧
    (nextReader witClaim64).2.w.wire = [0x88, 0x82, 1, 2, 3, 4, 3 ^^^ 1, 0xF1 ^^^ 2] := by decide

/-- a SERVER reader with read limit 1000 in the middle of a fragmented message of which 800 bytes have
    been counted; pending: a masked final continuation frame in the 16-bit length form
    (80 fe 01 2c = FIN+continuation, MASK+126, length 300), its key 37 fa 21 3d and the first three
    payload bytes: 800 + 300 > 1000 -/
def witClaim16 : Conn :=
  { w := newW true 4096 false false,
    r := { isServer := true, nego := false, limit := 1000, length := 800, final := false,
           msgReader := some 2, nextId := 3, hlog := [.pong [7]],
           buf := { size := 4096, buf := [0x80, 0xFE, 0x01], t := { chunks := [[0x2C, 0x37, 0xfa], [0x21, 0x3d, 0x56, 0x98, 0x42]] }, total := 308 } } }

def witClaim16_atBoundary : AtBoundary witClaim16 :=
  ⟨rfl, rfl, ⟨by decide, by decide, by decide, (by intro e h; cases h)⟩, by decide⟩

/-- non-vacuity of `limit_refuses_claimed`, instance 2: masked 16-bit length, running sum -/
example : ∃ c', advanceFrame witClaim16 = (.error .readLimit, c') ∧ c'.r.buf.pending = [0x56, 0x98, 0x42] ∧ c'.r.hlog = witClaim16.r.hlog ∧
      c'.w.wire = witClaim16.w.wire ++ closeFrameBytes witClaim16.w (closePayload 1009 []) ∧ c'.w.writeErr = some .closeSent :=
  limit_refuses_claimed witClaim16 witClaim16_atBoundary ⟨rfl, rfl⟩ 0x80 0xFE [0x01, 0x2C] [0x37, 0xfa, 0x21, 0x3d] [0x56, 0x98, 0x42]
    (by rw [← headerErrors_nil_iff]; decide) (by decide) (by decide) (by decide) (by decide)
    (by decide) (by decide) (by decide) (by decide) (by decide)

example : sumBase witClaim16 (parseHdr 0x80 0xFE) + (claimed (parseHdr 0x80 0xFE) [0x01, 0x2C] : Int) = 1100 := by decide

/-- a client reader whose limit is the largest int64 (2^63 - 1), in the middle of a fragmented message
    of which 2^62 bytes have been counted; pending: the 10-byte header of a non-final continuation frame
    claiming 2^63 - 1 bytes (00 7f 7f ff ff ff ff ff ff ff) and one payload byte. The mathematical sum
    2^62 + 2^63 - 1 is above the limit; the int64 sum in the Go code wraps to a negative number -/
def witClaimWrap : Conn :=
  { w := { newW false 4096 false false with keys := [1, 2, 3, 4] },
    r := { isServer := false, nego := false, limit := 9223372036854775807, length := 4611686018427387904, final := false,
           msgReader := some 2, nextId := 3,
           buf := { size := 4096, buf := [0x00, 0x7F, 0x7F, 0xFF, 0xFF], t := { chunks := [[0xFF, 0xFF, 0xFF, 0xFF, 0xFF, 0x61]] }, total := 11 } } }

def witClaimWrap_atBoundary : AtBoundary witClaimWrap :=
  ⟨rfl, rfl, ⟨by decide, by decide, by decide, (by intro e h; cases h)⟩, by decide⟩

/-- non-vacuity of `limit_refuses_claimed`, instance 3: the int64 sum wraps -/
example : ∃ c', advanceFrame witClaimWrap = (.error .readLimit, c') ∧ c'.r.buf.pending = [0x61] ∧ c'.r.hlog = witClaimWrap.r.hlog ∧
      c'.w.wire = witClaimWrap.w.wire ++ closeFrameBytes witClaimWrap.w (closePayload 1009 []) ∧ c'.w.writeErr = some .closeSent :=
  limit_refuses_claimed witClaimWrap witClaimWrap_atBoundary ⟨rfl, rfl⟩ 0x00 0x7F [0x7F, 0xFF, 0xFF, 0xFF, 0xFF, 0xFF, 0xFF, 0xFF] [] [0x61]
    (by rw [← headerErrors_nil_iff]; decide) (by decide) (by decide) (by decide) (by decide)
    (by decide) (by decide) (by decide) (by decide) (by decide)

/-- the claimed length is 2^63 - 1, the running sum 2^62, and their int64 sum is negative -/
example : claimed (parseHdr 0x00 0x7F) [0x7F, 0xFF, 0xFF, 0xFF, 0xFF, 0xFF, 0xFF, 0xFF] = 2 ^ 63 - 1 ∧
    witClaimWrap.r.length = 2 ^ 62 ∧
    wrap64 (witClaimWrap.r.length + (2 ^ 63 - 1 : Nat)) < 0 := by decide

/-- an idle client reader WITHOUT a read limit facing a text frame whose 64-bit length field is
    ff 00 00 00 00 00 00 01 (top bit set), then two more bytes -/
def witTopFF : Conn :=
  { w := { newW false 4096 false false with keys := [1, 2, 3, 4] },
    r := { isServer := false, nego := false, limit := 0,
           buf := { size := 4096, buf := [0x81], t := { chunks := [[0x7F, 0xFF, 0, 0, 0], [0, 0, 0, 1, 0xAA, 0xBB]] }, total := 12 } } }

/-- non-vacuity of `topbit_refused_claimed` -/
example : ∃ c', advanceFrame witTopFF = (.error .readLimit, c') ∧ c'.r.buf.pending = [0xAA, 0xBB] ∧ c'.r.hlog = witTopFF.r.hlog ∧
      c'.w.wire = witTopFF.w.wire ++ closeFrameBytes witTopFF.w (closePayload 1009 []) :=
  topbit_refused_claimed witTopFF ⟨rfl, rfl, ⟨by decide, by decide, by decide, (by intro e h; cases h)⟩, by decide⟩ ⟨rfl, rfl⟩
    0x81 0x7F [0xFF, 0, 0, 0, 0, 0, 0, 1] [0xAA, 0xBB]
    (by rw [← headerErrors_nil_iff]; decide) (by decide) rfl (by decide) (by decide)

section History
open WS.LimitHistory WS.Sequences

/-- an idle client reader with read limit exactly 5 facing "Hello" three times (15 payload bytes in
    all, each message in two fragments with a ping in between) and then a close frame header -/
def witThree : Conn :=
  { w := { newW false 4096 false false with keys := [1, 2, 3, 4] },
    r := { isServer := false, nego := false, limit := 5,
           buf := { size := 4096, buf := [],
                    t := { chunks := [encAll false witMsg ++ (encAll false witMsg).take 3,
                                      (encAll false witMsg).drop 3 ++ encAll false witMsg ++ [0x88, 0x00]] }, total := 44 } } }

def witThree_idle : ReaderIdle witThree :=
  ⟨rfl, rfl, rfl, ⟨by decide, by decide, by decide, (by intro e h; cases h)⟩, by decide, by decide,
    (by intro id h; cases h), (by intro id h; cases h)⟩

/-- non-vacuity of `limit_history_independent`: the first message is abandoned after one Read of 2
    bytes, the second is opened and not read at all, the third is read in full with reads of 3 bytes —
    although 15 bytes have gone by under a limit of 5 -/
example : ∃ c1 rid, nextReader (touchMsgs [[2], []] witThree) = (.msg 1 rid false, c1) ∧
      ∃ c2, readAll c1 rid 3 = (([0x48, 0x65, 0x6c, 0x6c, 0x6f], none), c2) ∧ ReaderIdle c2 ∧
        c2.r.buf.pending = [0x88, 0x00] := by
  obtain ⟨c1, rid, h1, c2, h2, h3, h4, _⟩ := limit_history_independent witThree witThree_idle (by decide)
    [(1, witMsg), (1, witMsg)]
    (by
      intro m hm
      simp only [List.mem_cons, List.mem_nil_iff, or_false] at hm
      rcases hm with rfl | rfl <;> exact ⟨Or.inl rfl, witMsg_shape, by decide, by decide⟩)
    [[2], []] rfl 1 (Or.inl rfl) witMsg witMsg_shape (by decide) (by decide) [0x88, 0x00] (by decide) (Or.inl rfl)
    3 (by decide)
  exact ⟨c1, rid, h1, c2, h2, h3, h4⟩

/-- non-vacuity of `abandon_then_next_limited`: two messages, the first abandoned after a 1-byte Read -/
example : ∃ c1 rid1, nextReader witThree = (.msg 1 rid1 false, c1) ∧
      ∃ c3 rid2, nextReader (partialReads c1 rid1 [0]) = (.msg 1 rid2 false, c3) ∧
        ∃ c4, readAll c3 rid2 4 = (([0x48, 0x65, 0x6c, 0x6c, 0x6f], none), c4) ∧ ReaderIdle c4 := by
  obtain ⟨c1, rid1, h1, c3, rid2, h2, c4, h3, h4, _⟩ := abandon_then_next_limited witThree witThree_idle 1 1
    (Or.inl rfl) (Or.inl rfl) witMsg witMsg witMsg_shape witMsg_shape (encAll false witMsg ++ [0x88, 0x00])
    (by decide) (Or.inl rfl) ⟨by decide, by decide⟩ (by decide) (by decide) (by decide) [0] 4 (by decide)
  exact ⟨c1, rid1, h1, c3, rid2, h2, c4, h3, h4⟩

/-- non-vacuity of `read_messages_limited`: all three read in full under the limit of 5 -/
example : ∃ c', readMsgs 3 3 witThree =
      ([(1, [0x48, 0x65, 0x6c, 0x6c, 0x6f]), (1, [0x48, 0x65, 0x6c, 0x6c, 0x6f]), (1, [0x48, 0x65, 0x6c, 0x6c, 0x6f])], c') ∧
      ReaderIdle c' ∧ c'.r.buf.pending = [0x88, 0x00] := by
  obtain ⟨c', h1, h2, h3, _⟩ := read_messages_limited witThree witThree_idle [(1, witMsg), (1, witMsg), (1, witMsg)]
    (by
      intro m hm
      simp only [List.mem_cons, List.mem_nil_iff, or_false] at hm
      rcases hm with rfl | rfl | rfl <;> exact ⟨Or.inl rfl, witMsg_shape, by decide, by decide⟩)
    [0x88, 0x00] (by decide) (Or.inl rfl) 3 (by decide)
  exact ⟨c', h1, h2, h3⟩

/-- the same, evaluated directly on the model (what the third NextReader reports and the running sum) -/
example : (nextReader (touchMsgs [[2], []] witThree)).2.r.readErr = none ∧
    (nextReader (touchMsgs [[2], []] witThree)).2.r.length = 3 := by decide +kernel

/-- `witThree` with a read limit of 4: "Hello" (3 + 2 bytes in two fragments) exceeds it by one byte -/
def witThreeOver : Conn := { witThree with r := { witThree.r with limit := 4 } }

def witThreeOver_idle : ReaderIdle witThreeOver :=
  ⟨witThree_idle.noErr, witThree_idle.rem, witThree_idle.fin, witThree_idle.wf, witThree_idle.size, witThree_idle.fuel,
   witThree_idle.hp, witThree_idle.hq⟩

/-- non-vacuity of `over_limit_never_complete`: all hypotheses hold; reads of 2 bytes -/
example : WS.CutLogic.openAndRead witThreeOver 2 = .failedOpen .readLimit ∨
    (∃ got, WS.CutLogic.openAndRead witThreeOver 2 = .failedRead 1 got .readLimit ∧ got <+: dataPayload witMsg ∧
        (got.length : Int) ≤ witThreeOver.r.limit) :=
  over_limit_never_complete witThreeOver witThreeOver_idle 1 (Or.inl rfl) witMsg witMsg_shape
    (encAll false witMsg ++ encAll false witMsg ++ [0x88, 0x00]) (by decide) (Or.inl rfl) (by decide) (by decide)
    (by decide) (by decide) 2 (by decide)

/-- what actually happens there: the first fragment "Hel" is delivered, the continuation frame is refused -/
example : WS.CutLogic.openAndRead witThreeOver 2 = .failedRead 1 [0x48, 0x65, 0x6c] .readLimit := by rfl

end History

end NonVacuity

end WS.Props.C06
