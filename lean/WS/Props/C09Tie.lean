import WS.Gen.Skeletons
/-
  C09 — translator tie: the statement text of the functions this property's model transcribes, regenerated
  from /repo by factgen on every run (WS/Gen/Skeletons.lean), equals the text the model was written against.
  A change to one of these functions breaks the obligation below; the check then searches for a failing
  input with the property's oracles (DESIGN §5).
-/
namespace WS.Props.C09Tie
open WS

/-- today's Conn.write, WriteControl and writeFatal are the modelled ones (statement text; the lock skeletons are write_wellLocked / writeControl_wellLocked) -/
theorem write_sites_as_modelled :
    Gen.stmts_connWrite =
      ["<-c.mu",
        "defer func() { c.mu <- struct{}{} }()",
        "c.writeErrMu.Lock()",
        "err := c.writeErr",
        "c.writeErrMu.Unlock()",
        "if err != nil { return err }",
        "if err := c.conn.SetWriteDeadline(deadline); err != nil { return c.writeFatal(err) }",
        "if len(buf1) == 0 { _, err = c.conn.Write(buf0) } else { err = c.writeBufs(buf0, buf1) }",
        "if err != nil { return c.writeFatal(err) }",
        "if frameType == CloseMessage { _ = c.writeFatal(ErrCloseSent) }",
        "return nil"] ∧
    Gen.stmts_WriteControl =
      ["if !isControl(messageType) { return errBadWriteOpCode }",
        "if len(data) > maxControlFramePayloadSize { return errInvalidControlFrame }",
        "b0 := byte(messageType) | finalBit",
        "b1 := byte(len(data))",
        "if !c.isServer { b1 |= maskBit }",
        "buf := make([]byte, 0, maxFrameHeaderSize+maxControlFramePayloadSize)",
        "buf = append(buf, b0, b1)",
        "if c.isServer { buf = append(buf, data...) } else { key := newMaskKey() buf = append(buf, key[:]...) buf = append(buf, data...) maskBytes(key, 0, buf[6:]) }",
        "if deadline.IsZero() { <-c.mu } else { d := time.Until(deadline) if d < 0 { return errWriteTimeout } select { case <-c.mu: default: timer := time.NewTimer(d) select { case <-c.mu: timer.Stop() case <-timer.C: return errWriteTimeout } } }",
        "defer func() { c.mu <- struct{}{} }()",
        "c.writeErrMu.Lock()",
        "err := c.writeErr",
        "c.writeErrMu.Unlock()",
        "if err != nil { return err }",
        "if err := c.conn.SetWriteDeadline(deadline); err != nil { return c.writeFatal(err) }",
        "if _, err = c.conn.Write(buf); err != nil { return c.writeFatal(err) }",
        "if messageType == CloseMessage { _ = c.writeFatal(ErrCloseSent) }",
        "return err"] ∧
    Gen.stmts_writeFatal =
      ["c.writeErrMu.Lock()",
        "if c.writeErr == nil { c.writeErr = err }",
        "c.writeErrMu.Unlock()",
        "return err"] := by
  refine ⟨?_, ?_, ?_⟩ <;> rfl


end WS.Props.C09Tie
