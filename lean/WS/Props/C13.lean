import WS.Lemmas.HttpLogic
import WS.Gen.Skeletons
/-
  C13 — Default origin policy admits same-origin requests only.
-/
namespace WS.Props.C13
open WS WS.Http WS.Server WS.HttpLogic

/-- fold_eq_iff (full strength since the fix of finding F7): equalASCIIFold accepts exactly the byte
    strings that are equal after byte-wise ASCII lower-casing -/
theorem fold_eq_iff (s t : Bytes) :
    equalASCIIFold s t = true ↔ t.map asciiLower = s.map asciiLower := by
  first | exact HttpLogic.fold_eq_iff .. | (apply HttpLogic.fold_eq_iff <;> assumption)

theorem fold_symm (s t : Bytes) : equalASCIIFold s t = equalASCIIFold t s := by
  first | exact HttpLogic.fold_symm .. | (apply HttpLogic.fold_symm <;> assumption)

/-- no extra label, prefix or suffix look-alike can pass: equal strings have equal length -/
theorem fold_length (s t : Bytes) (h : equalASCIIFold s t = true) : s.length = t.length := by
  first | exact HttpLogic.fold_length .. | (apply HttpLogic.fold_length <;> assumption)

/-- regression sentinel for F7 -/
theorem fold_distinguishes_invalid_utf8 : equalASCIIFold [0x61, 0xff] [0x61, 0xfe] = false := by
  first | exact HttpLogic.fold_distinguishes_invalid_utf8 .. | (apply HttpLogic.fold_distinguishes_invalid_utf8 <;> assumption)

/-- U+212A KELVIN SIGN and U+017F LONG S do not fold to k / s -/
theorem fold_no_unicode_folding :
    equalASCIIFold [0xe2, 0x84, 0xaa] [0x6b] = false ∧ equalASCIIFold [0xc5, 0xbf] [0x73] = false := by
  first | exact HttpLogic.fold_no_unicode_folding .. | (apply HttpLogic.fold_no_unicode_folding <;> assumption)

/-- same_origin_iff: accepted iff there is no Origin header, or it parses and its host folds to the request Host -/
theorem same_origin_iff (r : Req) (oh : Option Bytes) :
    checkSameOrigin r oh = true ↔ (r.values "Origin" = [] ∨ ∃ h, oh = some h ∧ equalASCIIFold h r.host = true) := by
  first | exact HttpLogic.same_origin_iff .. | (apply HttpLogic.same_origin_iff <;> assumption)

/-- today's checkSameOrigin and equalASCIIFold are the modelled ones -/
theorem policy_as_modelled :
    Gen.stmts_checkSameOrigin =
      ["origin := r.Header[\"Origin\"]", "if len(origin) == 0 { return true }", "u, err := url.Parse(origin[0])",
       "if err != nil { return false }", "return equalASCIIFold(u.Host, r.Host)"] ∧
    Gen.stmts_equalASCIIFold =
      ["if len(s) != len(t) { return false }",
       "for i := 0; i < len(s); i++ { sb, tb := s[i], t[i] if 'A' <= sb && sb <= 'Z' { sb = sb + 'a' - 'A' } if 'A' <= tb && tb <= 'Z' { tb = tb + 'a' - 'A' } if sb != tb { return false } }",
       "return true"] := by
  constructor <;> decide +kernel

end WS.Props.C13
