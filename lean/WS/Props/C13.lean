import WS.Lemmas.HttpLogic
import WS.Gen.Skeletons
/-
  C13 — Default origin policy admits same-origin requests only.
-/
namespace WS.Props.C13
open WS WS.Http WS.Server WS.HttpLogic

/-- fold_eq_iff (full strength since the fix of finding F7): equalASCIIFold accepts exactly the byte
    strings that are equal after byte-wise ASCII lower-casing -/
theorem fold_eq_iff (s t : Bytes) :
    equalASCIIFold s t = true ↔ t.map asciiLower = s.map asciiLower := by
  first | exact HttpLogic.fold_eq_iff .. | (apply HttpLogic.fold_eq_iff <;> assumption)

theorem fold_symm (s t : Bytes) : equalASCIIFold s t = equalASCIIFold t s := by
  first | exact HttpLogic.fold_symm .. | (apply HttpLogic.fold_symm <;> assumption)

/-- no extra label, prefix or suffix look-alike can pass: equal strings have equal length -/
theorem fold_length (s t : Bytes) (h : equalASCIIFold s t = true) : s.length = t.length := by
  first | exact HttpLogic.fold_length .. | (apply HttpLogic.fold_length <;> assumption)

/-- regression sentinel for F7 -/
theorem fold_distinguishes_invalid_utf8 : equalASCIIFold [0x61, 0xff] [0x61, 0xfe] = false := by
  first | exact HttpLogic.fold_distinguishes_invalid_utf8 .. | (apply HttpLogic.fold_distinguishes_invalid_utf8 <;> assumption)

/-- U+212A KELVIN SIGN and U+017F LONG S do not fold to k / s -/
theorem fold_no_unicode_folding :
    equalASCIIFold [0xe2, 0x84, 0xaa] [0x6b] = false ∧ equalASCIIFold [0xc5, 0xbf] [0x73] = false := by
  first | exact HttpLogic.fold_no_unicode_folding .. | (apply HttpLogic.fold_no_unicode_folding <;> assumption)

/-- same_origin_iff: accepted iff there is no Origin header, or it parses and its host folds to the request Host -/
theorem same_origin_iff (r : Req) (oh : Option Bytes) :
    checkSameOrigin r oh = true ↔ (r.values "Origin" = [] ∨ ∃ h, oh = some h ∧ equalASCIIFold h r.host = true) := by
  first | exact HttpLogic.same_origin_iff .. | (apply HttpLogic.same_origin_iff <;> assumption)

/-- today's checkSameOrigin and equalASCIIFold are the modelled ones -/
theorem policy_as_modelled :
    Gen.stmts_checkSameOrigin =
      ["origin := r.Header[\"Origin\"]", "if len(origin) == 0 { return true }", "u, err := url.Parse(origin[0])",
       "if err != nil { return false }", "return equalASCIIFold(u.Host, r.Host)"] ∧
    Gen.stmts_equalASCIIFold =
      ["if len(s) != len(t) { return false }",
       "for i := 0; i < len(s); i++ { sb, tb := s[i], t[i] if 'A' <= sb && sb <= 'Z' { sb = sb + 'a' - 'A' } if 'A' <= tb && tb <= 'Z' { tb = tb + 'a' - 'A' } if sb != tb { return false } }",
       "return true"] := by
  constructor <;> decide +kernel

/-! ### non-vacuity -/
section NonVacuity
set_option linter.defProp false

/-- witness for `fold_length`: an Origin host in mixed case folds to the request Host -/
def witFold_mixed : equalASCIIFold (strBytes "Example.COM:8080") (strBytes "example.com:8080") = true := by decide +kernel
/-- non-vacuity of `fold_length`: the hypothesis holds for "Example.COM:8080" / "example.com:8080", and the theorem applies -/
example : (strBytes "Example.COM:8080").length = (strBytes "example.com:8080").length :=
  fold_length _ _ witFold_mixed
/-- the hypothesis of `fold_length` is not automatic: a suffix look-alike is rejected -/
example : equalASCIIFold (strBytes "example.com.evil.org") (strBytes "example.com") = false := by decide +kernel

/-- a browser request to Host example.com:8080 whose Origin is the same site, host in mixed case -/
def witReqSame : Req :=
  { method := strBytes "GET", host := strBytes "example.com:8080",
    hdr := [(strBytes "Connection", [strBytes "keep-alive, Upgrade"]), (strBytes "Upgrade", [strBytes "websocket"]),
            (strBytes "Origin", [strBytes "http://Example.COM:8080"])] }

/-- a request to Host example.com:8080 made by a page of another site -/
def witReqCross : Req :=
  { witReqSame with hdr := [(strBytes "Connection", [strBytes "Upgrade"]), (strBytes "Upgrade", [strBytes "websocket"]),
            (strBytes "Origin", [strBytes "https://evil.example.org"])] }

/-- instance of `same_origin_iff` (right to left): the Origin header is present, its host parses to
    "Example.COM:8080" and folds to the Host, hence the request is accepted -/
example : checkSameOrigin witReqSame (some (strBytes "Example.COM:8080")) = true :=
  (same_origin_iff witReqSame (some (strBytes "Example.COM:8080"))).2 (Or.inr ⟨_, rfl, witFold_mixed⟩)
/-- instance of `same_origin_iff`: the first disjunct is false for this request (the Origin header is there) -/
example : witReqSame.values "Origin" ≠ [] := by decide +kernel

/-- instance of `same_origin_iff` (left to right, contrapositive): a cross-origin request is refused,
    both disjuncts of the right-hand side fail -/
example : checkSameOrigin witReqCross (some (strBytes "evil.example.org")) = false := by
  cases h : checkSameOrigin witReqCross (some (strBytes "evil.example.org")) with
  | false => rfl
  | true =>
    rcases (same_origin_iff _ _).1 h with h0 | ⟨x, hx, hf⟩
    · exact absurd h0 (by decide +kernel)
    · cases hx; exact absurd hf (by decide +kernel)

/-- instance of `same_origin_iff`: a request whose Origin does not parse (`oh = none`) is refused -/
example : ¬ checkSameOrigin witReqCross none = true := by
  intro h
  rcases (same_origin_iff _ _).1 h with h0 | ⟨x, hx, _⟩
  · exact absurd h0 (by decide +kernel)
  · cases hx

/-- instance of `same_origin_iff` (first disjunct): a non-browser client sending no Origin header is accepted -/
example : checkSameOrigin { witReqSame with hdr := [(strBytes "Connection", [strBytes "Upgrade"])] } none = true :=
  (same_origin_iff _ none).2 (Or.inl (by decide +kernel))

end NonVacuity

end WS.Props.C13
