import WS.Gen.Skeletons
/-
  C06 — translator tie: the statement text of the functions this property's model transcribes, regenerated
  from /repo by factgen on every run (WS/Gen/Skeletons.lean), equals the text the model was written against.
  A change to one of these functions breaks the obligation below; the check then searches for a failing
  input with the property's oracles (DESIGN §5).
-/
namespace WS.Props.C06Tie
open WS

/-- today's setReadRemaining, SetReadLimit and advanceFrame (running sum, both 1009 sites) are the modelled ones -/
theorem limit_sites_as_modelled :
    Gen.stmts_setReadRemaining =
      ["if n < 0 { return ErrReadLimit }",
        "c.readRemaining = n",
        "return nil"] ∧
    Gen.stmts_SetReadLimit =
      ["c.readLimit = limit"] ∧
    Gen.stmts_advanceFrame =
      ["if c.readRemaining > 0 { if _, err := io.CopyN(io.Discard, c.br, c.readRemaining); err != nil { return noFrame, err } }",
        "var errors []string",
        "p, err := c.read(2)",
        "if err != nil { return noFrame, err }",
        "frameType := int(p[0] & 0xf)",
        "final := p[0]&finalBit != 0",
        "rsv1 := p[0]&rsv1Bit != 0",
        "rsv2 := p[0]&rsv2Bit != 0",
        "rsv3 := p[0]&rsv3Bit != 0",
        "mask := p[1]&maskBit != 0",
        "_ = c.setReadRemaining(int64(p[1] & 0x7f))",
        "c.readDecompress = false",
        "if rsv1 { if c.newDecompressionReader != nil { c.readDecompress = true } else { errors = append(errors, \"RSV1 set\") } }",
        "if rsv2 { errors = append(errors, \"RSV2 set\") }",
        "if rsv3 { errors = append(errors, \"RSV3 set\") }",
        "switch frameType { case CloseMessage, PingMessage, PongMessage: if c.readRemaining > maxControlFramePayloadSize { errors = append(errors, \"len > 125 for control\") } if !final { errors = append(errors, \"FIN not set on control\") } case TextMessage, BinaryMessage: if !c.readFinal { errors = append(errors, \"data before FIN\") } c.readFinal = final case continuationFrame: if c.readFinal { errors = append(errors, \"continuation after FIN\") } c.readFinal = final default: errors = append(errors, \"bad opcode \"+strconv.Itoa(frameType)) }",
        "if mask != c.isServer { errors = append(errors, \"bad MASK\") }",
        "if len(errors) > 0 { return noFrame, c.handleProtocolError(strings.Join(errors, \", \")) }",
        "switch c.readRemaining { case 126: p, err := c.read(2) if err != nil { return noFrame, err } if err := c.setReadRemaining(int64(binary.BigEndian.Uint16(p))); err != nil { return noFrame, err } case 127: p, err := c.read(8) if err != nil { return noFrame, err } if err := c.setReadRemaining(int64(binary.BigEndian.Uint64(p))); err != nil { _ = c.WriteControl(CloseMessage, FormatCloseMessage(CloseMessageTooBig, \"\"), time.Now().Add(writeWait)) return noFrame, err } }",
        "if mask { c.readMaskPos = 0 p, err := c.read(len(c.readMaskKey)) if err != nil { return noFrame, err } copy(c.readMaskKey[:], p) }",
        "if frameType == continuationFrame || frameType == TextMessage || frameType == BinaryMessage { if frameType != continuationFrame { c.readLength = 0 } c.readLength += c.readRemaining if c.readLength < 0 { _ = c.WriteControl(CloseMessage, FormatCloseMessage(CloseMessageTooBig, \"\"), time.Now().Add(writeWait)) return noFrame, ErrReadLimit } if c.readLimit > 0 && c.readLength > c.readLimit { _ = c.WriteControl(CloseMessage, FormatCloseMessage(CloseMessageTooBig, \"\"), time.Now().Add(writeWait)) return noFrame, ErrReadLimit } return frameType, nil }",
        "var payload []byte",
        "if c.readRemaining > 0 { payload, err = c.read(int(c.readRemaining)) _ = c.setReadRemaining(0) if err != nil { return noFrame, err } if c.isServer { maskBytes(c.readMaskKey, 0, payload) } }",
        "switch frameType { case PongMessage: if err := c.handlePong(string(payload)); err != nil { return noFrame, err } case PingMessage: if err := c.handlePing(string(payload)); err != nil { return noFrame, err } case CloseMessage: closeCode := CloseNoStatusReceived closeText := \"\" if len(payload) >= 2 { closeCode = int(binary.BigEndian.Uint16(payload)) if !isValidReceivedCloseCode(closeCode) { return noFrame, c.handleProtocolError(\"bad close code \" + strconv.Itoa(closeCode)) } closeText = string(payload[2:]) if !utf8.ValidString(closeText) { return noFrame, c.handleProtocolError(\"invalid utf8 payload in close frame\") } } if err := c.handleClose(closeCode, closeText); err != nil { return noFrame, err } return noFrame, &CloseError{Code: closeCode, Text: closeText} }",
        "return frameType, nil"] := by
  refine ⟨?_, ?_, ?_⟩ <;> rfl


end WS.Props.C06Tie
