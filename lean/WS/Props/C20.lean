import WS.Lemmas.PoolInv
import WS.Lemmas.PoolInvZ
/-
  C20 — Pooled write buffers are held only while writing and never touched after release.
-/
namespace WS.Props.C20
open WS WS.PoolInv

/-- for every program over the write API (invalid requests, abandoned writers included), every
    transport fault script: Get/Put are balanced, a buffer is held only while a message writer is
    live, at most one message writer is live, none is held between messages -/
theorem pool_balance (s0 : W) (h0 : Fresh s0) (ops : List Op) : Inv (run s0 ops) :=
  PoolInv.pool_balance s0 h0 ops

/-- the connection never returns a buffer it does not hold -/
theorem no_nil_put (s0 : W) (h0 : Fresh s0) (ops : List Op) : Ev.poolPut none ∉ (run s0 ops).log :=
  PoolInv.no_nil_put s0 h0 ops

/-- non-vacuity: a pooled server, NextWriter, abandoned, then WriteMessage: get put get put -/
example :
    let s0 : W := newW true 16 true false
    ((run s0 [.nextWriter 2 [] [], .writeMessage 1 [65] [] [] [] []]).log.filter
        (fun e => match e with | .poolGet _ => true | .poolPut _ => true | _ => false)) =
      [.poolGet none, .poolPut (some 0), .poolGet (some 0), .poolPut (some 0)] := by
  decide

open WS.PoolInvZ in
/-- the same with permessage-deflate negotiated (flate wrappers, toggling, levels), for every
    execution in which the compress/flate answers are consistent (`EnvAdmissible`: what the
    compressor pushed is the deflate stream minus its tail — checked on every correspondence run) -/
theorem pool_balance_compression (s0 : W) (h0 : FreshZ s0) (ops : List Op) (henv : WireWF.EnvAdmissible s0 ops) :
    Inv (run s0 ops) := by
  first | exact PoolInvZ.pool_balance_z .. | (apply PoolInvZ.pool_balance_z <;> assumption)

open WS.PoolInvZ in
theorem no_nil_put_compression (s0 : W) (h0 : FreshZ s0) (ops : List Op) (henv : WireWF.EnvAdmissible s0 ops) :
    Ev.poolPut none ∉ (run s0 ops).log := by
  first | exact PoolInvZ.no_nil_put_z .. | (apply PoolInvZ.no_nil_put_z <;> assumption)

/-! ### non-vacuity -/
section NonVacuity
set_option linter.defProp false


/-- a pooled server connection, write buffer 4096, no compression, with a transport fault script
    (the 4th transport call fails) -/
def witP : W := { newW true 4096 true false with faults := [(3, .fail 7)] }

/-- witness for `pool_balance`, `no_nil_put`: the constructor state is `Fresh` (pool set, no buffer held) -/
def witP_fresh : Fresh witP := ⟨rfl, rfl, rfl, rfl, rfl, rfl, rfl, rfl, by decide⟩

/-- NextWriter(text); Write "Hel"; an invalid NextWriter(type 7) that abandons (implicitly closes) the
    first writer; WriteMessage(binary) that hits the transport fault; WriteControl(ping); NextWriter on
    the failed connection -/
def witPOps : List Op :=
  [.nextWriter 1 [] [], .write 0 [72, 101, 108] [] false, .nextWriter 7 [] [],
   .writeMessage 2 [1, 2, 3] [] [] [] [], .writeControl 9 [104, 105] 0, .nextWriter 1 [] []]

/-- non-vacuity of `pool_balance`: the hypothesis holds for a pooled server (buffer 4096) and the theorem
    applies to a six-operation program with an abandoned writer, an invalid request and a transport fault -/
example : Inv (run witP witPOps) := pool_balance witP witP_fresh witPOps

/-- non-vacuity of `no_nil_put` on the same instance -/
example : Ev.poolPut none ∉ (run witP witPOps).log := no_nil_put witP witP_fresh witPOps

/-- … and that run (witness of `pool_balance`) is: get (miss), put 0, get 0, put 0 -/
example : (run witP witPOps).log.filter (fun e => match e with | .poolGet _ => true | .poolPut _ => true | _ => false) =
    [.poolGet none, .poolPut (some 0), .poolGet (some 0), .poolPut (some 0)] := by decide +kernel

/-- a pooled client connection, write buffer 4096, permessage-deflate negotiated, two masking keys -/
def witZ : W := { newW false 4096 true true with keys := [0x37, 0xfa, 0x21, 0x3d, 1, 2, 3, 4] }

open WS.PoolInvZ in
/-- witness for `pool_balance_compression`, `no_nil_put_compression`: the constructor state is `FreshZ` -/
def witZ_fresh : FreshZ witZ := ⟨rfl, rfl, rfl, rfl, rfl, rfl, rfl, by decide⟩

/-- deflate("Hello") with sync flush: f2 48 cd c9 c9 07 00 | 00 00 ff ff (RFC 7692 §7.2.3.1) -/
def witHelloZ : Bytes := [0xf2, 0x48, 0xcd, 0xc9, 0xc9, 0x07, 0x00, 0x00, 0x00, 0xff, 0xff]
/-- deflate(01 02 03) with sync flush -/
def witBinZ : Bytes := [0x62, 0x64, 0x62, 0x06, 0x00, 0x00, 0x00, 0xff, 0xff]

/-- NextWriter(text) — a flate writer; Write "Hello" (flate pushes f2 48 cd); WriteControl(ping "hi");
    Close (flate flushes c9 c9 | 07 00; the environment's full stream is `witHelloZ`);
    EnableWriteCompression(false); WriteMessage(text "Hello") uncompressed; EnableWriteCompression(true);
    WriteMessage(binary 01 02 03) compressed to `witBinZ` -/
def witZOps : List Op :=
  [.nextWriter 1 [] [],
   .write 0 [72, 101, 108, 108, 111] [[0xf2, 0x48, 0xcd]] false,
   .writeControl 9 [104, 105] 0,
   .close 0 [[0xc9, 0xc9], [0x07, 0x00]] witHelloZ,
   .enableWriteCompression false,
   .writeMessage 1 [72, 101, 108, 108, 111] [] [] [] [],
   .enableWriteCompression true,
   .writeMessage 2 [1, 2, 3] [] [] [[0x62, 0x64, 0x62, 0x06, 0x00]] witBinZ]

/-- decidable equality of handles (local helper for `decide +kernel`) -/
@[instance_reducible] def witDecEqHandle : DecidableEq Handle := fun a b =>
  match a, b with
  | .plain x, .plain y => if h : x = y then isTrue (h ▸ rfl) else isFalse (fun e => by cases e; exact h rfl)
  | .plain _, .flate .. => isFalse (fun e => by cases e)
  | .flate .., .plain _ => isFalse (fun e => by cases e)
  | .flate a1 a2 a3 a4, .flate b1 b2 b3 b4 =>
    if h : a1 = b1 ∧ a2 = b2 ∧ a3 = b3 ∧ a4 = b4 then isTrue (by obtain ⟨rfl, rfl, rfl, rfl⟩ := h; rfl)
    else isFalse (fun e => by cases e; exact h ⟨rfl, rfl, rfl, rfl⟩)

attribute [local instance] witDecEqHandle

/-- the handle a successful NextWriter returned (helper for `decide +kernel`) -/
def witOkVal : Except WErr Nat → Option Nat
  | .ok h => some h
  | .error _ => none

/-- witness for `pool_balance_compression`, `no_nil_put_compression`: `EnvAdmissible` holds non-trivially —
    the program closes two flate writers (handle 0 explicitly, handle 2 inside the last WriteMessage) and
    both times the stream ends in 00 00 ff ff and its front is what went downstream -/
def witZOps_env : WireWF.EnvAdmissible witZ witZOps := by
  refine ⟨?_, trivial, trivial, ?_, trivial, ?_, trivial, ?_, trivial⟩
  · intro h hh; cases hh
  · intro i sent hh
    have h' : (run witZ (witZOps.take 3)).handles[0]? = some (Handle.flate 0 true none [0xf2, 0x48, 0xcd]) := by decide +kernel
    have h2 := h'.symm.trans hh
    cases h2
    exact ⟨by decide, by decide⟩
  · refine ⟨?_, ?_⟩
    · intro h hh
      have h' : (run witZ (witZOps.take 5)).writer = none := by decide +kernel
      exact absurd (h'.symm.trans hh) (by simp)
    · intro h s1 heq
      have e1 : witOkVal (nextWriter (run witZ (witZOps.take 5)) 1 [] []).1 = some 1 := by decide +kernel
      have e2 : witOkVal (nextWriter (run witZ (witZOps.take 5)) 1 [] []).1 = some h := congrArg (fun p => witOkVal p.1) heq
      have e3 : (nextWriter (run witZ (witZOps.take 5)) 1 [] []).2 = s1 := congrArg Prod.snd heq
      obtain rfl : h = 1 := by
        have := e2.symm.trans e1
        cases this; rfl
      subst e3
      intro i sent hh
      have h' : (hWrite (nextWriter (run witZ (witZOps.take 5)) 1 [] []).2 1 [72, 101, 108, 108, 111] []).2.handles[1]?
          = some (Handle.plain 1) := by decide +kernel
      have h2 := h'.symm.trans hh
      cases h2
  · refine ⟨?_, ?_⟩
    · intro h hh
      have h' : (run witZ (witZOps.take 7)).writer = none := by decide +kernel
      exact absurd (h'.symm.trans hh) (by simp)
    · intro h s1 heq
      have e1 : witOkVal (nextWriter (run witZ (witZOps.take 7)) 2 [] []).1 = some 2 := by decide +kernel
      have e2 : witOkVal (nextWriter (run witZ (witZOps.take 7)) 2 [] []).1 = some h := congrArg (fun p => witOkVal p.1) heq
      have e3 : (nextWriter (run witZ (witZOps.take 7)) 2 [] []).2 = s1 := congrArg Prod.snd heq
      obtain rfl : h = 2 := by
        have := e2.symm.trans e1
        cases this; rfl
      subst e3
      intro i sent hh
      have h' : (hWrite (nextWriter (run witZ (witZOps.take 7)) 2 [] []).2 2 [1, 2, 3] [[0x62, 0x64, 0x62, 0x06, 0x00]]).2.handles[2]?
          = some (Handle.flate 2 true none [0x62, 0x64, 0x62, 0x06, 0x00]) := by decide +kernel
      have h2 := h'.symm.trans hh
      cases h2
      exact ⟨by decide, by decide⟩

/-- non-vacuity of `pool_balance_compression`: all hypotheses hold for a pooled client (buffer 4096,
    compression negotiated) running the eight-operation program `witZOps` that really closes flate
    writers and toggles compression, and the theorem applies -/
example : Inv (run witZ witZOps) := pool_balance_compression witZ witZ_fresh witZOps witZOps_env

/-- non-vacuity of `no_nil_put_compression` on the same instance -/
example : Ev.poolPut none ∉ (run witZ witZOps).log := no_nil_put_compression witZ witZ_fresh witZOps witZOps_env

end NonVacuity

end WS.Props.C20
