import WS.Lemmas.PoolInv
import WS.Lemmas.PoolInvZ
/-
  C20 — Pooled write buffers are held only while writing and never touched after release.
-/
namespace WS.Props.C20
open WS WS.PoolInv

/-- for every program over the write API (invalid requests, abandoned writers included), every
    transport fault script: Get/Put are balanced, a buffer is held only while a message writer is
    live, at most one message writer is live, none is held between messages -/
theorem pool_balance (s0 : W) (h0 : Fresh s0) (ops : List Op) : Inv (run s0 ops) :=
  PoolInv.pool_balance s0 h0 ops

/-- the connection never returns a buffer it does not hold -/
theorem no_nil_put (s0 : W) (h0 : Fresh s0) (ops : List Op) : Ev.poolPut none ∉ (run s0 ops).log :=
  PoolInv.no_nil_put s0 h0 ops

/-- non-vacuity: a pooled server, NextWriter, abandoned, then WriteMessage: get put get put -/
example :
    let s0 : W := newW true 16 true false
    ((run s0 [.nextWriter 2 [] [], .writeMessage 1 [65] [] [] [] []]).log.filter
        (fun e => match e with | .poolGet _ => true | .poolPut _ => true | _ => false)) =
      [.poolGet none, .poolPut (some 0), .poolGet (some 0), .poolPut (some 0)] := by
  decide

open WS.PoolInvZ in
/-- the same with permessage-deflate negotiated (flate wrappers, toggling, levels), for every
    execution in which the compress/flate answers are consistent (`EnvAdmissible`: what the
    compressor pushed is the deflate stream minus its tail — checked on every correspondence run) -/
theorem pool_balance_compression (s0 : W) (h0 : FreshZ s0) (ops : List Op) (henv : WireWF.EnvAdmissible s0 ops) :
    Inv (run s0 ops) := by
  first | exact PoolInvZ.pool_balance_z .. | (apply PoolInvZ.pool_balance_z <;> assumption)

open WS.PoolInvZ in
theorem no_nil_put_compression (s0 : W) (h0 : FreshZ s0) (ops : List Op) (henv : WireWF.EnvAdmissible s0 ops) :
    Ev.poolPut none ∉ (run s0 ops).log := by
  first | exact PoolInvZ.no_nil_put_z .. | (apply PoolInvZ.no_nil_put_z <;> assumption)

end WS.Props.C20
