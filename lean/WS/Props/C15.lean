import WS.Lemmas.Agree
import WS.Lemmas.HttpLogic
import WS.Lemmas.HdrLogic
import WS.Gen.Tables
import WS.Lemmas.CompressedWrite
/-
  C15 — Both endpoints always agree on whether compression is in use.
-/
namespace WS.Props.C15
open WS WS.Http WS.Server WS.Client WS.HttpLogic

/-- server_any_offer: for every offer, the server compresses iff it is enabled and an extension named
    permessage-deflate was offered -/
theorem server_any_offer (u : UCfg) (r : Req) (rh : RespHdr) (oh : Option Bytes) (hj : Hijack) (b : Bytes) (a : Accepted)
    (h : upgrade u r rh oh hj = .ok (b, a)) :
    a.compress = (u.enableCompression &&
      (parseExtensions (r.values "Sec-Websocket-Extensions")).any (fun e => e.name == strBytes "permessage-deflate")) := by
  first | exact HttpLogic.compress_iff .. | (apply HttpLogic.compress_iff <;> assumption)

/-- client_any_reply: the client compresses iff the reply carries permessage-deflate (both parameters being required for acceptance: C14.dial_iff) -/
theorem client_any_reply (key : Bytes) (r : Reply) (d : Dialed) (h : checkReply key r = .ok d) :
    d.compress = ((parseExtensions (r.values "Sec-Websocket-Extensions")).any (fun e => e.name == strBytes "permessage-deflate")) := by
  first | exact HttpLogic.client_compress_iff .. | (apply HttpLogic.client_compress_iff <;> assumption)

/-- pair_agrees, evaluated on the literals of today's source: what the Dialer offers makes an enabled Upgrader compress … -/
theorem offer_literal_negotiates :
    (parseExtensions [strBytes "permessage-deflate; server_no_context_takeover; client_no_context_takeover"]).any
      (fun e => e.name == strBytes "permessage-deflate") = true := by
  first | exact HttpLogic.offer_literal_negotiates .. | (apply HttpLogic.offer_literal_negotiates <;> assumption)

/-- … and what the Upgrader announces makes the Dialer compress -/
theorem announce_literal_accepted :
    ((parseExtensions [strBytes "permessage-deflate; server_no_context_takeover; client_no_context_takeover"]).find?
        (fun e => e.name == strBytes "permessage-deflate")).map
      (fun e => e.has (strBytes "server_no_context_takeover") && e.has (strBytes "client_no_context_takeover")) = some true := by
  first | exact HttpLogic.announce_literal_accepted .. | (apply HttpLogic.announce_literal_accepted <;> assumption)

/-- the offer and the announcement found in today's client.go / server.go are those literals -/
theorem literals_as_modelled :
    strBytes "permessage-deflate; server_no_context_takeover; client_no_context_takeover" ∈ Gen.lits_Dialer_DialContext ∧
    strBytes "Sec-WebSocket-Extensions: permessage-deflate; server_no_context_takeover; client_no_context_takeover\r\n" ∈ Gen.lits_Upgrader_Upgrade := by
  constructor <;> decide +kernel

/-- rsv1_iff_decompressor: the reader treats RSV1 as a framing violation exactly when compression was
    not negotiated -/
theorem rsv1_iff_decompressor (isServer final : Bool) (h : Hdr) (hr : h.rsv1 = true)
    (hrest : ¬ HdrLogic.Violates isServer true (!final) h) :
    (headerErrors isServer false final h ≠ []) ∧ (headerErrors isServer true final h = []) := by
  constructor
  · intro hn
    have := (HdrLogic.headerErrors_nil_iff isServer false final h).mp hn
    apply this
    unfold HdrLogic.Violates
    right; right; left
    exact ⟨hr, rfl⟩
  · exact (HdrLogic.headerErrors_nil_iff isServer true final h).mpr hrest

open WS.Content WS.CompressedWrite
/-- toggle_safe (compression on): with permessage-deflate negotiated and write compression enabled a
    data message goes out as exactly one RSV1 message whose payload is the deflate stream minus its
    4-byte tail, however flate chunks its output and whatever the buffer size … -/
theorem compressed_message_roundtrip (s : W) (hi : IdleZ s) (t : Nat) (ht : t = 1 ∨ t = 2)
    (writes : List (Bytes × List Bytes)) (dnC : List Bytes) (full : Bytes)
    (hsz : ∀ w ∈ writes, ∀ c ∈ w.2, c.length < 2 ^ 40) (hszC : ∀ c ∈ dnC, c.length < 2 ^ 40)
    (htail : 4 ≤ full.length ∧ full.drop (full.length - 4) = sync4)
    (hcons : pushed writes dnC = full.take (full.length - 4)) :
    let s' := run s (zOps s t writes dnC full)
    IdleZ s' ∧
    wireMessages s' = wireMessages s ++ [⟨t, true, full.take (full.length - 4)⟩] ∧
    wireControls s' = wireControls s := by
  first | exact CompressedWrite.compressed_message_roundtrip .. | (apply CompressedWrite.compressed_message_roundtrip <;> assumption)

/-- … and after EnableWriteCompression(false) the same connection sends the next message plain: every
    message is either plain or RSV1 + deflate, both of which a negotiated peer accepts -/
theorem toggle_safe_off (s : W) (hi : IdleZ s) (t : Nat) (ht : t = 1 ∨ t = 2) (data : Bytes) (hd : data.length < 2 ^ 40) :
    let s1 := enableWriteCompression s false
    (writeMessage s1 t data).1 = none ∧
    wireMessages (writeMessage s1 t data).2 = wireMessages s ++ [⟨t, false, data⟩] := by
  first | exact CompressedWrite.toggled_off_message_plain .. | (apply CompressedWrite.toggled_off_message_plain <;> assumption)

open WS.Agree in
/-- both_or_neither (the property's first sentence): whenever the Dialer's request is upgraded, the
    server side compresses exactly when both sides enabled compression, and the Dialer accepts the 101
    with the same setting — for every pair of EnableCompression values, subprotocol lists, URLs and
    keys. net/http is the carrier (environment): `reqOf` / `replyOf` say header fields arrive under
    canonical names; `reply_is_what_the_101_says` ties `replyOf` to the bytes actually written. -/
theorem both_or_neither (d : DCfg) (u : UCfg) (url : Url) (key host : Bytes) (h : Client.Hdr)
    (oh : Option Bytes) (hj : Hijack) (bytes : Bytes) (a : Accepted)
    (hb : buildRequest d url key [] = .ok (host, h))
    (hu : upgrade u (reqOf host h) none oh hj = .ok (bytes, a)) :
    a.compress = (d.enableCompression && u.enableCompression) ∧
    ∃ dl, checkReply key (replyOf a (Spec.acceptKey Gen.keyGUID key)) = .ok dl ∧ dl.compress = a.compress := by
  first | exact Agree.both_or_neither .. | (apply Agree.both_or_neither <;> assumption)

open WS.Agree in
/-- … and the handshake does succeed (ws/wss URL without userinfo, valid key, hijack possible) -/
theorem handshake_succeeds (d : DCfg) (u : UCfg) (url : Url) (key : Bytes) (oh : Option Bytes) (hj : Hijack)
    (hs : url.scheme = strBytes "ws" ∨ url.scheme = strBytes "wss") (hnu : url.hasUser = false)
    (hk : isValidChallengeKey key = true) (hjok : hj.ok = true) (hco : u.checkOrigin = none ∨ u.checkOrigin = some true) :
    ∃ host h bytes a, buildRequest d url key [] = .ok (host, h) ∧ upgrade u (reqOf host h) none oh hj = .ok (bytes, a) := by
  first | exact Agree.handshake_succeeds .. | (apply Agree.handshake_succeeds <;> assumption)

open WS.Agree in
theorem reply_is_what_the_101_says (u : UCfg) (r : Req) (oh : Option Bytes) (hj : Hijack) (bytes : Bytes) (a : Accepted)
    (hu : upgrade u r none oh hj = .ok (bytes, a)) :
    ∃ names : List Bytes,
      names.map canonicalKey = (replyOf a (Spec.acceptKey Gen.keyGUID (r.get "Sec-Websocket-Key"))).hdr.map (·.1) ∧
      a.lines = strBytes "HTTP/1.1 101 Switching Protocols" ::
        (names.zip (replyOf a (Spec.acceptKey Gen.keyGUID (r.get "Sec-Websocket-Key"))).hdr).map
          (fun p => p.1 ++ strBytes ": " ++ p.2.2.headD []) := by
  first | exact Agree.replyOf_renders .. | (apply Agree.replyOf_renders <;> assumption)


/-! ### non-vacuity -/
section NonVacuity
set_option linter.defProp false

/-- a client connection, write buffer 4096, permessage-deflate negotiated, write compression enabled
    (the default), one masking key available -/
def witZ : W := { newW false 4096 false true with keys := [0x37, 0xfa, 0x21, 0x3d] }

/-- witness for `compressed_message_roundtrip` / `toggle_safe_off`: the fresh negotiated client is `IdleZ` -/
def witZ_idle : IdleZ witZ :=
  { healthy := rfl, noFaults := rfl, noWriter := rfl
    dead := by intro m h; cases h
    size := by decide
    whole := ⟨[], rfl, rfl⟩
    nego := rfl, enabled := rfl }

/-- "Hel" ++ "lo" written in two calls; flate pushes the RFC 7692 §7.2.3.1 deflate stream of "Hello"
    (f2 48 cd c9 c9 07 00) downstream in four chunks: one during each Write, two during Close -/
def witWrites : List (Bytes × List Bytes) :=
  [([0x48, 0x65, 0x6c], [[0xf2, 0x48]]), ([0x6c, 0x6f], [[0xcd]])]
def witDnC : List Bytes := [[0xc9, 0xc9], [0x07, 0x00]]
/-- the complete deflate stream: pushed bytes ++ 00 00 ff ff -/
def witFull : Bytes := [0xf2, 0x48, 0xcd, 0xc9, 0xc9, 0x07, 0x00, 0x00, 0x00, 0xff, 0xff]

def witWrites_sz : ∀ w ∈ witWrites, ∀ c ∈ w.2, c.length < 2 ^ 40 := by decide
def witDnC_sz : ∀ c ∈ witDnC, c.length < 2 ^ 40 := by decide
def witFull_tail : 4 ≤ witFull.length ∧ witFull.drop (witFull.length - 4) = sync4 := by decide
def witFull_cons : pushed witWrites witDnC = witFull.take (witFull.length - 4) := by decide

/-- non-vacuity of `compressed_message_roundtrip`: all hypotheses hold for a client (buffer 4096,
    compression negotiated) writing the text message "Hello" in two pieces with flate's output in four
    chunks, and the theorem applies -/
example :
    let s' := run witZ (zOps witZ 1 witWrites witDnC witFull)
    IdleZ s' ∧
    wireMessages s' = wireMessages witZ ++ [⟨1, true, witFull.take (witFull.length - 4)⟩] ∧
    wireControls s' = wireControls witZ :=
  compressed_message_roundtrip witZ witZ_idle 1 (Or.inl rfl) witWrites witDnC witFull
    witWrites_sz witDnC_sz witFull_tail witFull_cons

/-- … and the wire of that run really is one masked FIN+RSV1 text frame of 7 bytes -/
example : (run witZ (zOps witZ 1 witWrites witDnC witFull)).wire =
    [0xc1, 0x87, 0x37, 0xfa, 0x21, 0x3d, 197, 178, 236, 244, 254, 253, 33] := by decide +kernel

/-- the first two bytes of that frame as the peer's reader parses them: FIN, RSV1, text, masked, len 7 -/
def witHdr : Hdr := parseHdr 0xc1 0x87
def witHdr_rsv1 : witHdr.rsv1 = true := by decide
/-- a server reader between messages (`final = true`) with compression negotiated has no objection -/
def witHdr_rest : ¬ HdrLogic.Violates true true (!true) witHdr := by unfold HdrLogic.Violates; decide

/-- non-vacuity of `rsv1_iff_decompressor`: the header c1 87 (what the client above put on the wire)
    read by an idle server reader satisfies both hypotheses, and the theorem applies -/
example : (headerErrors true false true witHdr ≠ []) ∧ (headerErrors true true true witHdr = []) :=
  rsv1_iff_decompressor true true witHdr witHdr_rsv1 witHdr_rest

def witData : Bytes := strBytes "Hello, plain world"

/-- non-vacuity of `toggle_safe_off`: the same negotiated client (buffer 4096), after
    EnableWriteCompression(false), sends an 18-byte text message -/
example :
    let s1 := enableWriteCompression witZ false
    (writeMessage s1 1 witData).1 = none ∧
    wireMessages (writeMessage s1 1 witData).2 = wireMessages witZ ++ [⟨1, false, witData⟩] :=
  toggle_safe_off witZ witZ_idle 1 (Or.inl rfl) witData (by decide +kernel)

/-- the RFC 6455 §1.3 sample key and the literal offer / announcement of today's client.go / server.go -/
def witKey : Bytes := strBytes "dGhlIHNhbXBsZSBub25jZQ=="
def witOffer : Bytes := strBytes "permessage-deflate; server_no_context_takeover; client_no_context_takeover"

/-- the RFC 6455 §1.3 opening handshake (canonical header keys) plus the Dialer's compression offer -/
def witReq : Req :=
  { method := strBytes "GET", host := strBytes "server.example.com"
    hdr := [(strBytes "Upgrade", [strBytes "websocket"]),
            (strBytes "Connection", [strBytes "Upgrade"]),
            (strBytes "Sec-Websocket-Key", [witKey]),
            (strBytes "Origin", [strBytes "http://server.example.com"]),
            (strBytes "Sec-Websocket-Version", [strBytes "13"]),
            (strBytes "Sec-Websocket-Extensions", [witOffer])] }
/-- an Upgrader with EnableCompression, default origin policy, 4096-byte buffers -/
def witU : UCfg :=
  { subprotocols := none, enableCompression := true, checkOrigin := none, readBufferSize := 4096,
    writeBufferSize := 4096, pool := false, handshakeTimeout := false }
def witHj : Hijack := { ok := true, brSize := 4096, buffered := 0, availLen := 4096 }

/-- witness for `server_any_offer`: Upgrade accepts that request (every condition of the chain holds;
    the 101 bytes contain the SHA-1 accept token and are left unevaluated) -/
def witUp_ok : ∃ p, upgrade witU witReq none (some (strBytes "server.example.com")) witHj = .ok p :=
  (HttpLogic.upgrade_ok_iff witU witReq none (some (strBytes "server.example.com")) witHj).mpr (by decide +kernel)

/-- non-vacuity of `server_any_offer`: the hypothesis holds for the RFC sample request with the Dialer's
    offer against an Upgrader with compression enabled, and the theorem shows that it compresses -/
example : ∃ b a, upgrade witU witReq none (some (strBytes "server.example.com")) witHj = .ok (b, a) ∧
    a.compress = true := by
  obtain ⟨⟨b, a⟩, h⟩ := witUp_ok
  refine ⟨b, a, h, ?_⟩
  rw [server_any_offer _ _ _ _ _ _ _ h]
  decide +kernel

/-- the server's 101 for that key, as the client sees it: RFC 6455 §1.3 accept token + the announcement -/
def witReply : Reply :=
  { status := 101
    hdr := [(strBytes "Upgrade", [strBytes "websocket"]),
            (strBytes "Connection", [strBytes "Upgrade"]),
            (strBytes "Sec-Websocket-Accept", [strBytes "s3pPLMBiTxaQ9kYGzzhZRbK+xOo="]),
            (strBytes "Sec-Websocket-Extensions", [witOffer])] }

/-- Boolean test "x = .ok d" (`Except` has no `DecidableEq` instance) -/
def witOkIs (x : Except DErr Dialed) (d : Dialed) : Bool :=
  match x with | .ok d' => d' == d | .error _ => false
def witOkIs_sound {x : Except DErr Dialed} {d : Dialed} (h : witOkIs x d = true) : x = .ok d := by
  cases x <;> simp_all [witOkIs]

/-- witness for `client_any_reply`: the client accepts that reply for the sample key (the kernel
    evaluates SHA-1 + base64 here) -/
def witReply_ok : checkReply witKey witReply = .ok { compress := true, subprotocol := [] } :=
  witOkIs_sound (by decide +kernel)

/-- non-vacuity of `client_any_reply`: the hypothesis holds for the RFC 6455 sample key / accept pair
    with permessage-deflate announced, and the theorem applies -/
example : ({ compress := true, subprotocol := [] } : Dialed).compress =
    ((parseExtensions (witReply.values "Sec-Websocket-Extensions")).any (fun e => e.name == strBytes "permessage-deflate")) :=
  client_any_reply witKey witReply _ witReply_ok


/-! #### Dialer × Upgrader composed (`both_or_neither`, `handshake_succeeds`, `reply_is_what_the_101_says`) -/

open WS.Agree

/-- ws://example.com -/
def witUrl : Url := { scheme := strBytes "ws", host := strBytes "example.com", hasUser := false }
/-- Dialers asking for subprotocol "chat", with / without EnableCompression -/
def witDOn : DCfg := { subprotocols := [strBytes "chat"], enableCompression := true }
def witDOff : DCfg := { subprotocols := [strBytes "chat"], enableCompression := false }
/-- Upgraders: EnableCompression and Subprotocols ["chat"]; no compression and no subprotocol list -/
def witUOn : UCfg := { witU with subprotocols := some [strBytes "chat"] }
def witUOff : UCfg := { witU with enableCompression := false }
def witOh : Option Bytes := some (strBytes "example.com")

/-- witnesses for `handshake_succeeds`: the RFC 6455 sample key is a valid challenge key (16 bytes base64) -/
def witKey_valid : isValidChallengeKey witKey = true := by decide +kernel

/-- non-vacuity of `handshake_succeeds`: all hypotheses hold for ws://example.com, the sample key, a
    working Hijack and the default origin policy, for each of the four EnableCompression combinations
    (no SHA-1 evaluation needed: the accept token stays symbolic) -/
def witHS (d : DCfg) (u : UCfg) (hco : u.checkOrigin = none ∨ u.checkOrigin = some true) :
    ∃ host h bytes a, buildRequest d witUrl witKey [] = .ok (host, h) ∧
      upgrade u (reqOf host h) none witOh witHj = .ok (bytes, a) :=
  handshake_succeeds d u witUrl witKey witOh witHj (Or.inl rfl) rfl witKey_valid rfl hco

/-- … and of `both_or_neither` on each of them: both hypotheses hold (they are what `witHS` returns), the
    theorem applies, and the concrete outcome is: Dialer on, Upgrader on → both compress -/
example : ∃ host h bytes a, buildRequest witDOn witUrl witKey [] = .ok (host, h) ∧
    upgrade witUOn (reqOf host h) none witOh witHj = .ok (bytes, a) ∧ a.compress = true ∧
    ∃ dl, checkReply witKey (replyOf a (Spec.acceptKey Gen.keyGUID witKey)) = .ok dl ∧ dl.compress = true := by
  obtain ⟨host, h, bytes, a, hb, hu⟩ := witHS witDOn witUOn (Or.inl rfl)
  obtain ⟨hc, dl, hdl, hdc⟩ := both_or_neither witDOn witUOn witUrl witKey host h witOh witHj bytes a hb hu
  exact ⟨host, h, bytes, a, hb, hu, hc, dl, hdl, hdc.trans hc⟩

/-- Dialer on, Upgrader off → neither compresses -/
example : ∃ host h bytes a, buildRequest witDOn witUrl witKey [] = .ok (host, h) ∧
    upgrade witUOff (reqOf host h) none witOh witHj = .ok (bytes, a) ∧ a.compress = false ∧
    ∃ dl, checkReply witKey (replyOf a (Spec.acceptKey Gen.keyGUID witKey)) = .ok dl ∧ dl.compress = false := by
  obtain ⟨host, h, bytes, a, hb, hu⟩ := witHS witDOn witUOff (Or.inl rfl)
  obtain ⟨hc, dl, hdl, hdc⟩ := both_or_neither witDOn witUOff witUrl witKey host h witOh witHj bytes a hb hu
  exact ⟨host, h, bytes, a, hb, hu, hc, dl, hdl, hdc.trans hc⟩

/-- Dialer off, Upgrader on → neither compresses -/
example : ∃ host h bytes a, buildRequest witDOff witUrl witKey [] = .ok (host, h) ∧
    upgrade witUOn (reqOf host h) none witOh witHj = .ok (bytes, a) ∧ a.compress = false ∧
    ∃ dl, checkReply witKey (replyOf a (Spec.acceptKey Gen.keyGUID witKey)) = .ok dl ∧ dl.compress = false := by
  obtain ⟨host, h, bytes, a, hb, hu⟩ := witHS witDOff witUOn (Or.inl rfl)
  obtain ⟨hc, dl, hdl, hdc⟩ := both_or_neither witDOff witUOn witUrl witKey host h witOh witHj bytes a hb hu
  exact ⟨host, h, bytes, a, hb, hu, hc, dl, hdl, hdc.trans hc⟩

/-- Dialer off, Upgrader off → neither compresses -/
example : ∃ host h bytes a, buildRequest witDOff witUrl witKey [] = .ok (host, h) ∧
    upgrade witUOff (reqOf host h) none witOh witHj = .ok (bytes, a) ∧ a.compress = false ∧
    ∃ dl, checkReply witKey (replyOf a (Spec.acceptKey Gen.keyGUID witKey)) = .ok dl ∧ dl.compress = false := by
  obtain ⟨host, h, bytes, a, hb, hu⟩ := witHS witDOff witUOff (Or.inl rfl)
  obtain ⟨hc, dl, hdl, hdc⟩ := both_or_neither witDOff witUOff witUrl witKey host h witOh witHj bytes a hb hu
  exact ⟨host, h, bytes, a, hb, hu, hc, dl, hdl, hdc.trans hc⟩

/-- `handshake_succeeds`, further instance: a wss URL and an application CheckOrigin that returns true -/
example : ∃ host h bytes a,
    buildRequest witDOn { witUrl with scheme := strBytes "wss" } witKey [] = .ok (host, h) ∧
    upgrade { witUOn with checkOrigin := some true } (reqOf host h) none none witHj = .ok (bytes, a) :=
  handshake_succeeds witDOn { witUOn with checkOrigin := some true } { witUrl with scheme := strBytes "wss" }
    witKey none witHj (Or.inr rfl) rfl witKey_valid rfl (Or.inr rfl)

/-! the on / on configuration evaluated: the request the Dialer builds, what the Upgrader answers -/

/-- the header map DialContext builds for `witDOn` -/
def witHdrOn : Client.Hdr :=
  [(strBytes "Upgrade", [strBytes "websocket"]), (strBytes "Connection", [strBytes "Upgrade"]),
   (strBytes "Sec-WebSocket-Key", [witKey]), (strBytes "Sec-WebSocket-Version", [strBytes "13"]),
   (strBytes "Sec-WebSocket-Protocol", [strBytes "chat"]),
   (strBytes "Sec-WebSocket-Extensions", [witOffer])]

/-- Boolean test "x = .ok v" (`Except` has no `DecidableEq` instance) -/
def witBuildIs (x : Except DErr (Bytes × Client.Hdr)) (v : Bytes × Client.Hdr) : Bool :=
  match x with | .ok v' => v' == v | .error _ => false
def witBuildIs_sound {x : Except DErr (Bytes × Client.Hdr)} {v : Bytes × Client.Hdr} (h : witBuildIs x v = true) :
    x = .ok v := by
  cases x <;> simp_all [witBuildIs]

/-- first hypothesis of `both_or_neither`, evaluated -/
def witBuildOn : buildRequest witDOn witUrl witKey [] = .ok (strBytes "example.com", witHdrOn) :=
  witBuildIs_sound (by decide +kernel)

/-- Boolean test "x = .ok (_, a) with these 101 lines, subprotocol and compression flag" -/
def witUpIs (x : Except Reject (Bytes × Accepted)) (lines : List Bytes) (sub : Bytes) (c : Bool) : Bool :=
  match x with | .ok (_, a) => a.lines == lines && a.subprotocol == sub && a.compress == c | .error _ => false
def witUpIs_sound {x : Except Reject (Bytes × Accepted)} {lines : List Bytes} {sub : Bytes} {c : Bool}
    (h : witUpIs x lines sub c = true) :
    ∃ b a, x = .ok (b, a) ∧ a.lines = lines ∧ a.subprotocol = sub ∧ a.compress = c := by
  cases x with
  | error e => simp [witUpIs] at h
  | ok p =>
    obtain ⟨b, a⟩ := p
    simp only [witUpIs, Bool.and_eq_true, beq_iff_eq] at h
    exact ⟨b, a, rfl, h.1.1, h.1.2, h.2⟩

/-- the 101 of the RFC 6455 §1.3 sample key, with subprotocol and extension lines -/
def witLinesOn : List Bytes :=
  [strBytes "HTTP/1.1 101 Switching Protocols", strBytes "Upgrade: websocket", strBytes "Connection: Upgrade",
   strBytes "Sec-WebSocket-Accept: s3pPLMBiTxaQ9kYGzzhZRbK+xOo=", strBytes "Sec-WebSocket-Protocol: chat",
   strBytes "Sec-WebSocket-Extensions: permessage-deflate; server_no_context_takeover; client_no_context_takeover"]

/-- second hypothesis of `both_or_neither` / the hypothesis of `reply_is_what_the_101_says`, evaluated
    (the kernel runs SHA-1 + base64 once): Upgrade accepts, selects "chat", compresses, and writes these lines -/
def witUpOn : ∃ b a, upgrade witUOn (reqOf (strBytes "example.com") witHdrOn) none witOh witHj = .ok (b, a) ∧
    a.lines = witLinesOn ∧ a.subprotocol = strBytes "chat" ∧ a.compress = true :=
  witUpIs_sound (by decide +kernel)

/-- `both_or_neither` instantiated on the evaluated pair: the theorem's value for `a.compress` (on && on)
    agrees with the evaluated one, and the Dialer accepts the 101 with compression on -/
example : ∃ b a, upgrade witUOn (reqOf (strBytes "example.com") witHdrOn) none witOh witHj = .ok (b, a) ∧
    a.lines = witLinesOn ∧ a.compress = (witDOn.enableCompression && witUOn.enableCompression) ∧
    ∃ dl, checkReply witKey (replyOf a (Spec.acceptKey Gen.keyGUID witKey)) = .ok dl ∧ dl.compress = true := by
  obtain ⟨b, a, hu, hl, _, hc⟩ := witUpOn
  obtain ⟨hc', dl, hdl, hdc⟩ := both_or_neither witDOn witUOn witUrl witKey _ _ witOh witHj b a witBuildOn hu
  exact ⟨b, a, hu, hl, hc', dl, hdl, hdc.trans hc⟩

/-- non-vacuity of `reply_is_what_the_101_says`: the hypothesis holds for that upgrade, and the theorem
    applies: the six lines `witLinesOn` are the status line plus one `Name: value` line per field of `replyOf` -/
example : ∃ b a, upgrade witUOn (reqOf (strBytes "example.com") witHdrOn) none witOh witHj = .ok (b, a) ∧
    ∃ names : List Bytes,
      names.map canonicalKey = (replyOf a (Spec.acceptKey Gen.keyGUID
        ((reqOf (strBytes "example.com") witHdrOn).get "Sec-Websocket-Key"))).hdr.map (·.1) ∧
      witLinesOn = strBytes "HTTP/1.1 101 Switching Protocols" ::
        (names.zip (replyOf a (Spec.acceptKey Gen.keyGUID
          ((reqOf (strBytes "example.com") witHdrOn).get "Sec-Websocket-Key"))).hdr).map
          (fun p => p.1 ++ strBytes ": " ++ p.2.2.headD []) := by
  obtain ⟨b, a, hu, hl, _, _⟩ := witUpOn
  obtain ⟨names, h1, h2⟩ := reply_is_what_the_101_says witUOn _ witOh witHj b a hu
  exact ⟨b, a, hu, names, h1, hl ▸ h2⟩

/-- `reply_is_what_the_101_says`, second instance: the RFC 6455 §1.3 request `witReq` against `witU` -/
example : ∃ b a, upgrade witU witReq none (some (strBytes "server.example.com")) witHj = .ok (b, a) ∧
    ∃ names : List Bytes,
      names.map canonicalKey = (replyOf a (Spec.acceptKey Gen.keyGUID (witReq.get "Sec-Websocket-Key"))).hdr.map (·.1) ∧
      a.lines = strBytes "HTTP/1.1 101 Switching Protocols" ::
        (names.zip (replyOf a (Spec.acceptKey Gen.keyGUID (witReq.get "Sec-Websocket-Key"))).hdr).map
          (fun p => p.1 ++ strBytes ": " ++ p.2.2.headD []) := by
  obtain ⟨⟨b, a⟩, h⟩ := witUp_ok
  exact ⟨b, a, h, reply_is_what_the_101_says witU witReq _ witHj b a h⟩

end NonVacuity

end WS.Props.C15
