import WS.Lemmas.HttpLogic
import WS.Lemmas.HdrLogic
import WS.Gen.Tables
import WS.Lemmas.CompressedWrite
/-
  C15 — Both endpoints always agree on whether compression is in use.
-/
namespace WS.Props.C15
open WS WS.Http WS.Server WS.Client WS.HttpLogic

/-- server_any_offer: for every offer, the server compresses iff it is enabled and an extension named
    permessage-deflate was offered -/
theorem server_any_offer (u : UCfg) (r : Req) (rh : RespHdr) (oh : Option Bytes) (hj : Hijack) (b : Bytes) (a : Accepted)
    (h : upgrade u r rh oh hj = .ok (b, a)) :
    a.compress = (u.enableCompression &&
      (parseExtensions (r.values "Sec-Websocket-Extensions")).any (fun e => e.name == strBytes "permessage-deflate")) := by
  first | exact HttpLogic.compress_iff .. | (apply HttpLogic.compress_iff <;> assumption)

/-- client_any_reply: the client compresses iff the reply carries permessage-deflate (both parameters being required for acceptance: C14.dial_iff) -/
theorem client_any_reply (key : Bytes) (r : Reply) (d : Dialed) (h : checkReply key r = .ok d) :
    d.compress = ((parseExtensions (r.values "Sec-Websocket-Extensions")).any (fun e => e.name == strBytes "permessage-deflate")) := by
  first | exact HttpLogic.client_compress_iff .. | (apply HttpLogic.client_compress_iff <;> assumption)

/-- pair_agrees, evaluated on the literals of today's source: what the Dialer offers makes an enabled Upgrader compress … -/
theorem offer_literal_negotiates :
    (parseExtensions [strBytes "permessage-deflate; server_no_context_takeover; client_no_context_takeover"]).any
      (fun e => e.name == strBytes "permessage-deflate") = true := by
  first | exact HttpLogic.offer_literal_negotiates .. | (apply HttpLogic.offer_literal_negotiates <;> assumption)

/-- … and what the Upgrader announces makes the Dialer compress -/
theorem announce_literal_accepted :
    ((parseExtensions [strBytes "permessage-deflate; server_no_context_takeover; client_no_context_takeover"]).find?
        (fun e => e.name == strBytes "permessage-deflate")).map
      (fun e => e.has (strBytes "server_no_context_takeover") && e.has (strBytes "client_no_context_takeover")) = some true := by
  first | exact HttpLogic.announce_literal_accepted .. | (apply HttpLogic.announce_literal_accepted <;> assumption)

/-- the offer and the announcement found in today's client.go / server.go are those literals -/
theorem literals_as_modelled :
    strBytes "permessage-deflate; server_no_context_takeover; client_no_context_takeover" ∈ Gen.lits_Dialer_DialContext ∧
    strBytes "Sec-WebSocket-Extensions: permessage-deflate; server_no_context_takeover; client_no_context_takeover\r\n" ∈ Gen.lits_Upgrader_Upgrade := by
  constructor <;> decide +kernel

/-- rsv1_iff_decompressor: the reader treats RSV1 as a framing violation exactly when compression was
    not negotiated -/
theorem rsv1_iff_decompressor (isServer final : Bool) (h : Hdr) (hr : h.rsv1 = true)
    (hrest : ¬ HdrLogic.Violates isServer true (!final) h) :
    (headerErrors isServer false final h ≠ []) ∧ (headerErrors isServer true final h = []) := by
  constructor
  · intro hn
    have := (HdrLogic.headerErrors_nil_iff isServer false final h).mp hn
    apply this
    unfold HdrLogic.Violates
    right; right; left
    exact ⟨hr, rfl⟩
  · exact (HdrLogic.headerErrors_nil_iff isServer true final h).mpr hrest

open WS.Content WS.CompressedWrite
/-- toggle_safe (compression on): with permessage-deflate negotiated and write compression enabled a
    data message goes out as exactly one RSV1 message whose payload is the deflate stream minus its
    4-byte tail, however flate chunks its output and whatever the buffer size … -/
theorem compressed_message_roundtrip (s : W) (hi : IdleZ s) (t : Nat) (ht : t = 1 ∨ t = 2)
    (writes : List (Bytes × List Bytes)) (dnC : List Bytes) (full : Bytes)
    (hsz : ∀ w ∈ writes, ∀ c ∈ w.2, c.length < 2 ^ 40) (hszC : ∀ c ∈ dnC, c.length < 2 ^ 40)
    (htail : 4 ≤ full.length ∧ full.drop (full.length - 4) = sync4)
    (hcons : pushed writes dnC = full.take (full.length - 4)) :
    let s' := run s (zOps s t writes dnC full)
    IdleZ s' ∧
    wireMessages s' = wireMessages s ++ [⟨t, true, full.take (full.length - 4)⟩] ∧
    wireControls s' = wireControls s := by
  first | exact CompressedWrite.compressed_message_roundtrip .. | (apply CompressedWrite.compressed_message_roundtrip <;> assumption)

/-- … and after EnableWriteCompression(false) the same connection sends the next message plain: every
    message is either plain or RSV1 + deflate, both of which a negotiated peer accepts -/
theorem toggle_safe_off (s : W) (hi : IdleZ s) (t : Nat) (ht : t = 1 ∨ t = 2) (data : Bytes) (hd : data.length < 2 ^ 40) :
    let s1 := enableWriteCompression s false
    (writeMessage s1 t data).1 = none ∧
    wireMessages (writeMessage s1 t data).2 = wireMessages s ++ [⟨t, false, data⟩] := by
  first | exact CompressedWrite.toggled_off_message_plain .. | (apply CompressedWrite.toggled_off_message_plain <;> assumption)

end WS.Props.C15
