import WS.Gen.Skeletons
/-
  C07 — translator tie: the statement text of the functions this property's model transcribes, regenerated
  from /repo by factgen on every run (WS/Gen/Skeletons.lean), equals the text the model was written against.
  A change to one of these functions breaks the obligation below; the check then searches for a failing
  input with the property's oracles (DESIGN §5).
-/
namespace WS.Props.C07Tie
open WS

/-- today's header parsers and NextReader (the 1000-call panic) are the modelled ones -/
theorem parsers_as_modelled :
    Gen.stmts_NextReader =
      ["if c.reader != nil { c.reader.Close() c.reader = nil }",
        "c.messageReader = nil",
        "c.readLength = 0",
        "for c.readErr == nil { frameType, err := c.advanceFrame() if err != nil { c.readErr = err break } if frameType == TextMessage || frameType == BinaryMessage { c.messageReader = &messageReader{c} c.reader = c.messageReader if c.readDecompress { c.reader = c.newDecompressionReader(c.reader) } return frameType, c.reader, nil } }",
        "c.readErrCount++",
        "if c.readErrCount >= 1000 { panic(\"repeated read on failed websocket connection\") }",
        "return noFrame, nil, c.readErr"] ∧
    Gen.stmts_skipSpace =
      ["i := 0",
        "for ; i < len(s); i++ { if b := s[i]; b != ' ' && b != '\\t' { break } }",
        "return s[i:]"] ∧
    Gen.stmts_nextToken =
      ["i := 0",
        "for ; i < len(s); i++ { if !isTokenOctet[s[i]] { break } }",
        "return s[:i], s[i:]"] ∧
    Gen.stmts_nextTokenOrQuoted =
      ["if !strings.HasPrefix(s, \"\\\"\") { return nextToken(s) }",
        "s = s[1:]",
        "for i := 0; i < len(s); i++ { switch s[i] { case '\"': return s[:i], s[i+1:] case '\\\\': p := make([]byte, len(s)-1) j := copy(p, s[:i]) escape := true for i = i + 1; i < len(s); i++ { b := s[i] switch { case escape: escape = false p[j] = b j++ case b == '\\\\': escape = true case b == '\"': return string(p[:j]), s[i+1:] default: p[j] = b j++ } } return \"\", \"\" } }",
        "return \"\", \"\""] ∧
    Gen.stmts_tokenListContainsValue =
      ["headers: for _, s := range header[name] { for { var t string t, s = nextToken(skipSpace(s)) if t == \"\" { continue headers } s = skipSpace(s) if s != \"\" && s[0] != ',' { continue headers } if equalASCIIFold(t, value) { return true } if s == \"\" { continue headers } s = s[1:] } }",
        "return false"] ∧
    Gen.stmts_parseExtensions =
      ["var result []map[string]string",
        "headers: for _, s := range header[\"Sec-Websocket-Extensions\"] { for { var t string t, s = nextToken(skipSpace(s)) if t == \"\" { continue headers } ext := map[string]string{\"\": t} for { s = skipSpace(s) if !strings.HasPrefix(s, \";\") { break } var k string k, s = nextToken(skipSpace(s[1:])) if k == \"\" { continue headers } s = skipSpace(s) var v string if strings.HasPrefix(s, \"=\") { v, s = nextTokenOrQuoted(skipSpace(s[1:])) s = skipSpace(s) } if s != \"\" && s[0] != ',' && s[0] != ';' { continue headers } ext[k] = v } if s != \"\" && s[0] != ',' { continue headers } result = append(result, ext) if s == \"\" { continue headers } s = s[1:] } }",
        "return result"] := by
  refine ⟨?_, ?_, ?_, ?_, ?_, ?_⟩ <;> rfl


/-- today's Conn.read is the modelled one (the bounded header read of header_read_bounded) -/
theorem frame_source_as_modelled :
    Gen.stmts_connRead =
      ["p, err := c.br.Peek(n)",
        "if err == io.EOF { err = errUnexpectedEOF }",
        "_, _ = c.br.Discard(len(p))",
        "return p, err"] := by
  rfl


end WS.Props.C07Tie
