import WS.Gen.Skeletons
/-
  C17 — translator tie: the statement text of the functions this property's model transcribes, regenerated
  from /repo by factgen on every run (WS/Gen/Skeletons.lean), equals the text the model was written against.
  A change to one of these functions breaks the obligation below; the check then searches for a failing
  input with the property's oracles (DESIGN §5).
-/
namespace WS.Props.C17Tie
open WS

/-- today's brNetConn.Read is the modelled one -/
theorem brnetconn_as_modelled :
    Gen.stmts_brNetConnRead =
      ["if b.br != nil { if n := b.br.Buffered(); len(p) > n { p = p[:n] } n, err = b.br.Read(p) if b.br.Buffered() == 0 { b.br = nil } return n, err }",
        "return b.Conn.Read(p)"] := by
  rfl


end WS.Props.C17Tie
