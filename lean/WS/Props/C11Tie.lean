import WS.Gen.Skeletons
/-
  C11 — translator tie: the statement text of the functions this property's model transcribes, regenerated
  from /repo by factgen on every run (WS/Gen/Skeletons.lean), equals the text the model was written against.
  A change to one of these functions breaks the obligation below; the check then searches for a failing
  input with the property's oracles (DESIGN §5).
-/
namespace WS.Props.C11Tie
open WS

/-- today's Conn.Close touches only the transport and SetWriteDeadline only records the deadline -/
theorem close_and_deadline_as_modelled :
    Gen.stmts_connClose =
      ["return c.conn.Close()"] ∧
    Gen.stmts_SetWriteDeadline =
      ["c.writeDeadline = t",
        "return nil"] := by
  refine ⟨?_, ?_⟩ <;> rfl



end WS.Props.C11Tie
