import WS.Lemmas.PreparedSend
import WS.Lemmas.PreparedLogic
/-
  C19 — A PreparedMessage equals WriteMessage on every connection it is sent to.
-/
namespace WS.Props.C19
open WS WS.Content WS.PreparedLogic

/-- write_prepared_uses_live_key: the framing variant is chosen from the connection's role and its
    compression settings at the time of the call -/
theorem write_prepared_uses_live_key (s : W) (pm : PM) :
    prepKey s pm = ⟨s.isServer, s.nego && s.enableWC && isData pm.t, s.level⟩ := by
  first | exact PreparedLogic.key_is_live .. | (apply PreparedLogic.key_is_live <;> assumption)

/-- an uncompressed image is by construction what WriteMessage writes on a fresh connection of that role -/
theorem render_is_writeMessage (k : PKey) (t : Int) (data keys : Bytes) (ki : Nat) :
    (renderPlain k t data keys ki).2.1 = (writeMessage (prepConn k keys ki) t data).2.wire := by
  first | exact PreparedLogic.render_is_writeMessage .. | (apply PreparedLogic.render_is_writeMessage <;> assumption)

/-- prepared_equiv: the image decodes to exactly one message with the type and payload given at creation, for every payload size (larger than the internal 4096-byte buffer included) and either role -/
theorem prepared_equiv (isServer : Bool) (level : Int) (t : Nat) (ht : t = 1 ∨ t = 2) (data keys : Bytes) (ki : Nat)
    (hd : data.length < 2 ^ 40) :
    let r := renderPlain ⟨isServer, false, level⟩ t data keys ki
    r.1 = none ∧
    Spec.messages (Spec.decodePrefixAux r.2.1.length r.2.1) = [⟨t, false, data⟩] := by
  first | exact PreparedLogic.prepared_equiv_plain .. | (apply PreparedLogic.prepared_equiv_plain <;> assumption)

/-- a cache hit sends the cached image in one transport write under the connection's deadline (so prepared close / ping obey C09 / C10 like direct ones); for a data message the writer the application left open is closed first, as in NextWriter / WriteMessage (`dnp`, `fullp`: the flate answers for that implicit close) -/
theorem cached_image_sent (s : W) (pm : PM) (img : Bytes) (dnp : List Bytes) (fullp : Bytes)
    (h : pm.lookup (prepKey s pm) = some img) :
    writePrepared s pm none dnp fullp =
      ((writePreparedImage s pm.t img dnp fullp).1, (writePreparedImage s pm.t img dnp fullp).2, pm) := by
  first | exact PreparedLogic.cached_image_sent .. | (apply PreparedLogic.cached_image_sent <;> assumption)

/-- cache_sound: sending never changes an entry already cached, nor the type or payload fixed at creation (caller_mutation_irrelevant: the model keeps its own copy, as NewPreparedMessage does) -/
theorem cache_sound (s : W) (pm : PM) (env : Option (Bytes × Bytes)) (dnp : List Bytes) (fullp : Bytes)
    (k : PKey) (img : Bytes) (h : pm.lookup k = some img) :
    (writePrepared s pm env dnp fullp).2.2.lookup k = some img ∧ (writePrepared s pm env dnp fullp).2.2.t = pm.t ∧
    (writePrepared s pm env dnp fullp).2.2.data = pm.data := by
  first | exact PreparedLogic.cache_monotone .. | (apply PreparedLogic.cache_monotone <;> assumption)

/-- an entry added for a key is the rendering for exactly that key, never another key's image -/
theorem cache_adds_own_key (s : W) (pm : PM) (env : Option (Bytes × Bytes)) (dnp : List Bytes) (fullp : Bytes)
    (hmiss : pm.lookup (prepKey s pm) = none) (hplain : (prepKey s pm).compress = false) :
    (writePrepared s pm env dnp fullp).2.2.cache =
      pm.cache ++ [(prepKey s pm, (renderPlain (prepKey s pm) pm.t pm.data s.keys s.keyIdx).2.1)] := by
  first | exact PreparedLogic.cache_adds_own_key .. | (apply PreparedLogic.cache_adds_own_key <;> assumption)

/-- a compressed image is cached only if it decodes to one complete well-formed compressed message of the right type whose payload is the deflate stream minus its tail -/
theorem compressed_image_checked (k : PKey) (t : Int) (full keys : Bytes) (ki : Nat) (img : Bytes)
    (h : imageOk k t full keys ki img = true) :
    ∃ fs, Spec.decodeStream img = some fs ∧ Spec.WellFormed ⟨!k.isServer, true⟩ fs ∧
      Spec.messages fs = [⟨t.toNat, true, full.take (full.length - 4)⟩] := by
  first | exact PreparedLogic.compressed_image_checked .. | (apply PreparedLogic.compressed_image_checked <;> assumption)

open WS.Content WS.PreparedSend in
/-- prepared_equiv at the connection (the property's headline): a prepared text / binary message sent
    on a connection between messages — either role, any buffer size, variant cached or rendered now —
    is accepted and the wire gains exactly one complete message with the type and payload given at
    creation, which is what `C02.writeMessage_roundtrip` says WriteMessage sends -/
theorem prepared_data_roundtrip (s : W) (hi : Idle s) (pm : PM) (hv : PMValid pm) (t : Nat) (ht : t = 1 ∨ t = 2)
    (hpt : pm.t = (t : Int)) (hd : pm.data.length < 2 ^ 40) (hplain : (prepKey s pm).compress = false) :
    (writePrepared s pm none).1 = none ∧ Idle (writePrepared s pm none).2.1 ∧
    wireMessages (writePrepared s pm none).2.1 = wireMessages s ++ [⟨t, false, pm.data⟩] ∧
    wireControls (writePrepared s pm none).2.1 = wireControls s := by
  first | exact PreparedSend.prepared_data_roundtrip .. | (apply PreparedSend.prepared_data_roundtrip <;> assumption)

open WS.Content WS.PreparedSend in
/-- prepared ping / pong: exactly one control frame with the payload given at creation -/
theorem prepared_control_roundtrip (s : W) (hi : Idle s) (pm : PM) (hv : PMValid pm) (t : Nat) (ht : t = 9 ∨ t = 10)
    (hpt : pm.t = (t : Int)) (hd : pm.data.length ≤ 125) :
    (writePrepared s pm none).1 = none ∧ Idle (writePrepared s pm none).2.1 ∧
    wireMessages (writePrepared s pm none).2.1 = wireMessages s ∧
    wireControls (writePrepared s pm none).2.1 = wireControls s ++ [(t, pm.data)] := by
  first | exact PreparedSend.prepared_control_roundtrip .. | (apply PreparedSend.prepared_control_roundtrip <;> assumption)

open WS.PreparedSend in
/-- the cache invariant the two theorems above assume is established by NewPreparedMessage … -/
theorem newPrepared_valid (t : Int) (data keys : Bytes) (ki : Nat) (pm : PM)
    (h : (newPrepared t data keys ki).1 = .ok pm) : PMValid pm ∧ pm.t = t ∧ pm.data = data := by
  first | exact PreparedSend.newPrepared_valid .. | (apply PreparedSend.newPrepared_valid <;> assumption)

open WS.PreparedSend in
/-- … and preserved by every send of a data message (any connection, any environment answers) … -/
theorem cache_valid_preserved_data (s : W) (pm : PM) (env : Option (Bytes × Bytes)) (dnp : List Bytes) (fullp : Bytes)
    (h : PMValid pm) (t : Nat) (ht : t = 1 ∨ t = 2) (hpt : pm.t = (t : Int)) (hd : pm.data.length < 2 ^ 40) :
    PMValid (writePrepared s pm env dnp fullp).2.2 := by
  first | exact PreparedSend.writePrepared_valid_data .. | (apply PreparedSend.writePrepared_valid_data <;> assumption)

open WS.PreparedSend in
/-- … and of a ping / pong -/
theorem cache_valid_preserved_control (s : W) (pm : PM) (env : Option (Bytes × Bytes)) (dnp : List Bytes) (fullp : Bytes)
    (h : PMValid pm) (t : Nat) (ht : t = 9 ∨ t = 10) (hpt : pm.t = (t : Int)) (hd : pm.data.length ≤ 125) :
    PMValid (writePrepared s pm env dnp fullp).2.2 := by
  first | exact PreparedSend.writePrepared_valid_control .. | (apply PreparedSend.writePrepared_valid_control <;> assumption)


/-! ### non-vacuity -/
section NonVacuity
set_option linter.defProp false

/-- two masking keys in the process-wide key source -/
def witKeys : Bytes := [0x37, 0xfa, 0x21, 0x3d, 0x11, 0x22, 0x33, 0x44]
/-- "Hello" -/
def witHello : Bytes := [0x48, 0x65, 0x6c, 0x6c, 0x6f]
/-- a client connection, write buffer 4096, no compression -/
def witC : W := { newW false 4096 false false with keys := witKeys }
/-- what NewPreparedMessage(TextMessage, "Hello") returns: one entry, the plain server frame -/
def witPM0 : PM :=
  { t := 1, data := witHello, cache := [(⟨true, false, 0⟩, [0x81, 0x05, 0x48, 0x65, 0x6c, 0x6c, 0x6f])] }
/-- … it really is the cache `newPrepared` builds -/
def witPM0_new : (match (newPrepared 1 witHello witKeys 0).1 with
    | .ok pm => pm.cache == witPM0.cache | .error _ => false) = true := by
  decide +kernel
/-- the prepared message and the connection after it was sent once on `witC` (cache miss → rendered) -/
def witPM1 : PM := (writePrepared witC witPM0 none).2.2
def witC1 : W := (writePrepared witC witPM0 none).2.1
/-- the masked client frame rendered for `witC`'s key with the first masking key -/
def witImgC : Bytes := [0x81, 0x85, 0x37, 0xfa, 0x21, 0x3d, 127, 159, 77, 81, 88]

/-- witness for `cached_image_sent`: the second send on the same connection is a cache hit -/
def witPM1_hit : witPM1.lookup (prepKey witC1 witPM1) = some witImgC := by decide +kernel

/-- non-vacuity of `cached_image_sent`: the hypothesis holds for a prepared "Hello" that was already
    sent once on a client connection (buffer 4096) — the cache was filled by running `writePrepared` —
    and the theorem applies to the second send -/
example : writePrepared witC1 witPM1 none =
    ((writePreparedImage witC1 witPM1.t witImgC).1, (writePreparedImage witC1 witPM1.t witImgC).2, witPM1) :=
  cached_image_sent witC1 witPM1 witImgC [] [] witPM1_hit

/-- witness for `cache_sound`: the server entry made at creation -/
def witPM0_srv : witPM0.lookup ⟨true, false, 0⟩ = some [0x81, 0x05, 0x48, 0x65, 0x6c, 0x6c, 0x6f] := by
  decide +kernel

/-- non-vacuity of `cache_sound`: the entry made at creation survives a send on a client connection
    (which is a miss for the client's key and adds a second entry) -/
example : (writePrepared witC witPM0 none).2.2.lookup ⟨true, false, 0⟩ = some [0x81, 0x05, 0x48, 0x65, 0x6c, 0x6c, 0x6f] ∧
    (writePrepared witC witPM0 none).2.2.t = witPM0.t ∧ (writePrepared witC witPM0 none).2.2.data = witPM0.data :=
  cache_sound witC witPM0 none [] [] ⟨true, false, 0⟩ _ witPM0_srv

/-- witnesses for `cache_adds_own_key`: the client's key (client, plain, level 1) is not cached yet and is uncompressed -/
def witPM0_miss : witPM0.lookup (prepKey witC witPM0) = none := by decide +kernel
def witPM0_plain : (prepKey witC witPM0).compress = false := by decide +kernel

/-- non-vacuity of `cache_adds_own_key`: both hypotheses hold for the first send of the fresh prepared
    message on the client connection, and the theorem applies -/
example : (writePrepared witC witPM0 none).2.2.cache =
    witPM0.cache ++ [(prepKey witC witPM0,
      (renderPlain (prepKey witC witPM0) witPM0.t witPM0.data witC.keys witC.keyIdx).2.1)] :=
  cache_adds_own_key witC witPM0 none [] [] witPM0_miss witPM0_plain

/-- the RFC 7692 §7.2.3.1 deflate stream of "Hello" with its 00 00 ff ff tail -/
def witFull : Bytes := [0xf2, 0x48, 0xcd, 0xc9, 0xc9, 0x07, 0x00, 0x00, 0x00, 0xff, 0xff]
/-- the compressed client image: FIN+RSV1 text frame, masked with the first key, 7 payload bytes -/
def witImgZ : Bytes := [0xc1, 0x87, 0x37, 0xfa, 0x21, 0x3d, 197, 178, 236, 244, 254, 253, 33]
/-- witness for `compressed_image_checked`: that image passes the validation for key (client, compress, level 1) -/
def witImgZ_ok : imageOk ⟨false, true, 1⟩ 1 witFull witKeys 0 witImgZ = true := by decide +kernel

/-- non-vacuity of `compressed_image_checked`: `imageOk` holds for a real compressed client image of
    "Hello", and the theorem applies -/
example : ∃ fs, Spec.decodeStream witImgZ = some fs ∧ Spec.WellFormed ⟨!false, true⟩ fs ∧
      Spec.messages fs = [⟨(1 : Int).toNat, true, witFull.take (witFull.length - 4)⟩] :=
  compressed_image_checked ⟨false, true, 1⟩ 1 witFull witKeys 0 witImgZ witImgZ_ok

/-- a client connection (buffer 4096) with permessage-deflate negotiated: its key is the compressed one,
    and `writePrepared` accepts and caches exactly that validated image -/
def witCZ : W := { newW false 4096 false true with keys := witKeys }
example : prepKey witCZ witPM0 = ⟨false, true, 1⟩ ∧
    (writePrepared witCZ witPM0 (some (witImgZ, witFull))).1 = none ∧
    (writePrepared witCZ witPM0 (some (witImgZ, witFull))).2.2.lookup ⟨false, true, 1⟩ = some witImgZ := by
  decide +kernel

/-- a payload larger than the private connection's 4096-byte buffer -/
def witBig : Bytes := List.replicate 5000 0x41

/-- non-vacuity of `prepared_equiv`: a 5000-byte text message rendered for a client key (two frames) -/
example :
    let r := renderPlain ⟨false, false, 1⟩ (1 : Nat) witBig witKeys 0
    r.1 = none ∧
    Spec.messages (Spec.decodePrefixAux r.2.1.length r.2.1) = [⟨1, false, witBig⟩] :=
  prepared_equiv false 1 1 (Or.inl rfl) witBig witKeys 0 (by rw [witBig, List.length_replicate]; decide)

/-- … and for the server key used at creation with the 5-byte payload -/
example :
    let r := renderPlain ⟨true, false, 0⟩ (1 : Nat) witHello witKeys 0
    r.1 = none ∧
    Spec.messages (Spec.decodePrefixAux r.2.1.length r.2.1) = [⟨1, false, witHello⟩] :=
  prepared_equiv true 0 1 (Or.inl rfl) witHello witKeys 0 (by decide)


/-! #### the connection-level theorems (`prepared_*_roundtrip`, `newPrepared_valid`, `cache_valid_preserved_*`) -/

open WS.PreparedSend

/-- a 300-byte binary payload -/
def witData300 : Bytes := List.replicate 300 0x42
def witData300_len : witData300.length < 2 ^ 40 := by rw [witData300, List.length_replicate]; decide

/-- what NewPreparedMessage(BinaryMessage, <300 bytes>) returns: the plain server frame 82 7e 01 2c … -/
def witPMb : PM :=
  { t := 2, data := witData300,
    cache := [(⟨true, false, 0⟩, (renderPlain ⟨true, false, 0⟩ 2 witData300 witKeys 0).2.1)] }

/-- witness for `newPrepared_valid`: `newPrepared 2 <300 bytes>` succeeds and returns `witPMb` -/
def witPMb_new : (newPrepared 2 witData300 witKeys 0).1 = .ok witPMb := by
  have h := (prepared_equiv true 0 2 (Or.inr rfl) witData300 witKeys 0 witData300_len).1
  unfold newPrepared
  dsimp only
  split
  · rename_i e img ki heq
    rw [show ((2 : Nat) : Int) = 2 from rfl, heq] at h
    cases h
  · rename_i img ki heq
    simp only [witPMb, heq]

/-- non-vacuity of `newPrepared_valid`: the hypothesis holds for the 300-byte binary message, and the theorem applies -/
example : PMValid witPMb ∧ witPMb.t = 2 ∧ witPMb.data = witData300 :=
  newPrepared_valid 2 witData300 witKeys 0 witPMb witPMb_new
def witPMb_valid : PMValid witPMb := (newPrepared_valid 2 witData300 witKeys 0 witPMb witPMb_new).1

/-- the cached image is the unmasked server frame: 82 7e 01 2c + 300 bytes -/
example : (witPMb.lookup ⟨true, false, 0⟩).map (fun i => (i.take 5, i.length)) = some ([0x82, 0x7e, 0x01, 0x2c, 0x42], 304) := by
  decide +kernel

/-- the freshly constructed client `witC` is `Idle` -/
def witC_idle : Idle witC :=
  ⟨rfl, rfl, rfl, (fun m h => by cases h), ⟨by decide, by decide⟩, ⟨[], by decide, rfl⟩, rfl⟩
/-- the client after one text message "Hello" went out (first masking key used) -/
def witCm : W := (writeMessage witC 1 witHello).2
/-- witness for `prepared_data_roundtrip` / `prepared_control_roundtrip`: that client is `Idle` again -/
def witCm_idle : Idle witCm :=
  (writeMessage_roundtrip witC witC_idle 1 (Or.inl rfl) witHello (by decide)).2.1
/-- witness: the client's key is an uncompressed one -/
def witCm_plain : (prepKey witCm witPMb).compress = false := by decide +kernel

/-- non-vacuity of `prepared_data_roundtrip`: all hypotheses hold for the 300-byte binary prepared message
    sent on a client connection (buffer 4096) that has already sent one message, and the theorem applies -/
example : (writePrepared witCm witPMb none).1 = none ∧ Idle (writePrepared witCm witPMb none).2.1 ∧
    wireMessages (writePrepared witCm witPMb none).2.1 = wireMessages witCm ++ [⟨2, false, witData300⟩] ∧
    wireControls (writePrepared witCm witPMb none).2.1 = wireControls witCm :=
  prepared_data_roundtrip witCm witCm_idle witPMb witPMb_valid 2 (Or.inr rfl) rfl witData300_len witCm_plain

/-- … this send is a cache miss: the variant is rendered now, masked with the connection's next key
    (11 22 33 44 — the first one went into the "Hello" frame, 11 bytes), and added to the cache -/
example : witPMb.lookup (prepKey witCm witPMb) = none ∧
    witCm.wire.length = 11 ∧
    ((writePrepared witCm witPMb none).2.1.wire.drop 11).take 9 = [0x82, 0xfe, 0x01, 0x2c, 0x11, 0x22, 0x33, 0x44, 0x53] ∧
    (writePrepared witCm witPMb none).2.1.wire.length = 11 + 308 ∧
    (writePrepared witCm witPMb none).2.2.cache.length = 2 := by decide +kernel

/-- a server connection (buffer 4096) with compression level 0 (the level NewPreparedMessage's own entry is
    keyed with), after it sent one message -/
def witS0 : W := { newW true 4096 false false with level := 0 }
def witS0_idle : Idle witS0 :=
  ⟨rfl, rfl, rfl, (fun m h => by cases h), ⟨by decide, by decide⟩, ⟨[], by decide, rfl⟩, rfl⟩
def witSm : W := (writeMessage witS0 1 witHello).2
def witSm_idle : Idle witSm :=
  (writeMessage_roundtrip witS0 witS0_idle 1 (Or.inl rfl) witHello (by decide)).2.1
def witSm_plain : (prepKey witSm witPMb).compress = false := by decide +kernel

/-- non-vacuity of `prepared_data_roundtrip`, second instance: the same prepared message on that server … -/
example : (writePrepared witSm witPMb none).1 = none ∧ Idle (writePrepared witSm witPMb none).2.1 ∧
    wireMessages (writePrepared witSm witPMb none).2.1 = wireMessages witSm ++ [⟨2, false, witData300⟩] ∧
    wireControls (writePrepared witSm witPMb none).2.1 = wireControls witSm :=
  prepared_data_roundtrip witSm witSm_idle witPMb witPMb_valid 2 (Or.inr rfl) rfl witData300_len witSm_plain

/-- … where it is a cache hit: the entry made at creation is sent as it is and the cache does not grow -/
example : (witPMb.lookup (prepKey witSm witPMb)).isSome ∧
    witSm.wire.length = 7 ∧
    ((writePrepared witSm witPMb none).2.1.wire.drop 7).take 5 = [0x82, 0x7e, 0x01, 0x2c, 0x42] ∧
    (writePrepared witSm witPMb none).2.1.wire.length = 7 + 304 ∧
    (writePrepared witSm witPMb none).2.2.cache.length = 1 := by decide +kernel

/-- a prepared ping with the 5-byte payload "Hello", as NewPreparedMessage(PingMessage, "Hello") returns it -/
def witPMp : PM :=
  { t := 9, data := witHello, cache := [(⟨true, false, 0⟩, [0x89, 0x05, 0x48, 0x65, 0x6c, 0x6c, 0x6f])] }
/-- Boolean test "the result is `.ok` with this type, payload and cache" (`PM` has no `DecidableEq`) -/
def witOkIs (x : Except WErr PM) (pm : PM) : Bool :=
  match x with | .ok p => p.t == pm.t && p.data == pm.data && p.cache == pm.cache | .error _ => false
def witOkIs_sound {x : Except WErr PM} {pm : PM} (h : witOkIs x pm = true) : x = .ok pm := by
  cases x with
  | error e => simp [witOkIs] at h
  | ok p =>
    cases p; cases pm
    simp only [witOkIs, Bool.and_eq_true, beq_iff_eq] at h
    obtain ⟨⟨h1, h2⟩, h3⟩ := h
    simp_all
/-- witness for `newPrepared_valid`: `newPrepared 9 "Hello"` returns exactly `witPMp` -/
def witPMp_new : (newPrepared 9 witHello witKeys 0).1 = .ok witPMp := witOkIs_sound (by decide +kernel)

/-- non-vacuity of `newPrepared_valid`, second instance: the prepared ping -/
example : PMValid witPMp ∧ witPMp.t = 9 ∧ witPMp.data = witHello :=
  newPrepared_valid 9 witHello witKeys 0 witPMp witPMp_new
def witPMp_valid : PMValid witPMp := (newPrepared_valid 9 witHello witKeys 0 witPMp witPMp_new).1

/-- non-vacuity of `prepared_control_roundtrip`: all hypotheses hold for the prepared 5-byte ping sent on the
    client (buffer 4096) that has already sent one message, and the theorem applies -/
example : (writePrepared witCm witPMp none).1 = none ∧ Idle (writePrepared witCm witPMp none).2.1 ∧
    wireMessages (writePrepared witCm witPMp none).2.1 = wireMessages witCm ∧
    wireControls (writePrepared witCm witPMp none).2.1 = wireControls witCm ++ [(9, witHello)] :=
  prepared_control_roundtrip witCm witCm_idle witPMp witPMp_valid 9 (Or.inl rfl) rfl (by decide)

/-- … the wire gains the masked ping frame 89 85 11 22 33 44 … -/
example : (writePrepared witCm witPMp none).2.1.wire.drop 11 =
    [0x89, 0x85, 0x11, 0x22, 0x33, 0x44, 0x59, 0x47, 0x5f, 0x28, 0x7e] := by decide +kernel

/-- non-vacuity of `cache_valid_preserved_data`: the cache of the 300-byte message after the send on the
    client (which added the client variant) is still valid … -/
example : PMValid (writePrepared witCm witPMb none [] []).2.2 :=
  cache_valid_preserved_data witCm witPMb none [] [] witPMb_valid 2 (Or.inr rfl) rfl witData300_len

/-- `witPM0` (prepared text "Hello") is what `newPrepared` returns, hence valid -/
def witPM0_new' : (newPrepared 1 witHello witKeys 0).1 = .ok witPM0 := witOkIs_sound (by decide +kernel)
def witPM0_valid : PMValid witPM0 := (newPrepared_valid 1 witHello witKeys 0 witPM0 witPM0_new').1

/-- … and, second instance of `cache_valid_preserved_data`, so is the cache of "Hello" after the send on the
    compressing client `witCZ`, where the environment supplied the compressed image (a third entry kind) -/
example : PMValid (writePrepared witCZ witPM0 (some (witImgZ, witFull)) [] []).2.2 :=
  cache_valid_preserved_data witCZ witPM0 (some (witImgZ, witFull)) [] [] witPM0_valid 1 (Or.inl rfl) rfl (by decide)

/-- non-vacuity of `cache_valid_preserved_control`: the prepared ping after the send on the client
    (cache: server entry + the client variant just rendered) -/
example : PMValid (writePrepared witCm witPMp none [] []).2.2 :=
  cache_valid_preserved_control witCm witPMp none [] [] witPMp_valid 9 (Or.inl rfl) rfl (by decide)
example : (writePrepared witCm witPMp none [] []).2.2.cache.length = 2 := by decide +kernel

end NonVacuity

end WS.Props.C19
