import WS.Lemmas.PreparedLogic
/-
  C19 — A PreparedMessage equals WriteMessage on every connection it is sent to.
-/
namespace WS.Props.C19
open WS WS.Content WS.PreparedLogic

/-- write_prepared_uses_live_key: the framing variant is chosen from the connection's role and its
    compression settings at the time of the call -/
theorem write_prepared_uses_live_key (s : W) (pm : PM) :
    prepKey s pm = ⟨s.isServer, s.nego && s.enableWC && isData pm.t, s.level⟩ := by
  first | exact PreparedLogic.key_is_live .. | (apply PreparedLogic.key_is_live <;> assumption)

/-- an uncompressed image is by construction what WriteMessage writes on a fresh connection of that role -/
theorem render_is_writeMessage (k : PKey) (t : Int) (data keys : Bytes) (ki : Nat) :
    (renderPlain k t data keys ki).2.1 = (writeMessage (prepConn k keys ki) t data).2.wire := by
  first | exact PreparedLogic.render_is_writeMessage .. | (apply PreparedLogic.render_is_writeMessage <;> assumption)

/-- prepared_equiv: the image decodes to exactly one message with the type and payload given at creation, for every payload size (larger than the internal 4096-byte buffer included) and either role -/
theorem prepared_equiv (isServer : Bool) (level : Int) (t : Nat) (ht : t = 1 ∨ t = 2) (data keys : Bytes) (ki : Nat)
    (hd : data.length < 2 ^ 40) :
    let r := renderPlain ⟨isServer, false, level⟩ t data keys ki
    r.1 = none ∧
    Spec.messages (Spec.decodePrefixAux r.2.1.length r.2.1) = [⟨t, false, data⟩] := by
  first | exact PreparedLogic.prepared_equiv_plain .. | (apply PreparedLogic.prepared_equiv_plain <;> assumption)

/-- a cache hit sends the cached image in one transport write under the connection's deadline (so prepared close / ping obey C09 / C10 like direct ones) -/
theorem cached_image_sent (s : W) (pm : PM) (img : Bytes) (h : pm.lookup (prepKey s pm) = some img) :
    writePrepared s pm none = ((writePreparedImage s pm.t img).1, (writePreparedImage s pm.t img).2, pm) := by
  first | exact PreparedLogic.cached_image_sent .. | (apply PreparedLogic.cached_image_sent <;> assumption)

/-- cache_sound: sending never changes an entry already cached, nor the type or payload fixed at creation (caller_mutation_irrelevant: the model keeps its own copy, as NewPreparedMessage does) -/
theorem cache_sound (s : W) (pm : PM) (env : Option (Bytes × Bytes)) (k : PKey) (img : Bytes)
    (h : pm.lookup k = some img) :
    (writePrepared s pm env).2.2.lookup k = some img ∧ (writePrepared s pm env).2.2.t = pm.t ∧
    (writePrepared s pm env).2.2.data = pm.data := by
  first | exact PreparedLogic.cache_monotone .. | (apply PreparedLogic.cache_monotone <;> assumption)

/-- an entry added for a key is the rendering for exactly that key, never another key's image -/
theorem cache_adds_own_key (s : W) (pm : PM) (env : Option (Bytes × Bytes))
    (hmiss : pm.lookup (prepKey s pm) = none) (hplain : (prepKey s pm).compress = false) :
    (writePrepared s pm env).2.2.cache =
      pm.cache ++ [(prepKey s pm, (renderPlain (prepKey s pm) pm.t pm.data s.keys s.keyIdx).2.1)] := by
  first | exact PreparedLogic.cache_adds_own_key .. | (apply PreparedLogic.cache_adds_own_key <;> assumption)

/-- a compressed image is cached only if it decodes to one complete well-formed compressed message of the right type whose payload is the deflate stream minus its tail -/
theorem compressed_image_checked (k : PKey) (t : Int) (full keys : Bytes) (ki : Nat) (img : Bytes)
    (h : imageOk k t full keys ki img = true) :
    ∃ fs, Spec.decodeStream img = some fs ∧ Spec.WellFormed ⟨!k.isServer, true⟩ fs ∧
      Spec.messages fs = [⟨t.toNat, true, full.take (full.length - 4)⟩] := by
  first | exact PreparedLogic.compressed_image_checked .. | (apply PreparedLogic.compressed_image_checked <;> assumption)

end WS.Props.C19
