import WS.Gen.Skeletons
/-
  C15 — translator tie: the statement text of the functions this property's model transcribes, regenerated
  from /repo by factgen on every run (WS/Gen/Skeletons.lean), equals the text the model was written against.
  A change to one of these functions breaks the obligation below; the check then searches for a failing
  input with the property's oracles (DESIGN §5).
-/
namespace WS.Props.C15Tie
open WS

/-- today's EnableWriteCompression, SetCompressionLevel and isValidCompressionLevel are the modelled ones -/
theorem compression_switches_as_modelled :
    Gen.stmts_EnableWriteCompression =
      ["c.enableWriteCompression = enable"] ∧
    Gen.stmts_SetCompressionLevel =
      ["if !isValidCompressionLevel(level) { return errors.New(\"websocket: invalid compression level\") }",
        "c.compressionLevel = level",
        "return nil"] ∧
    Gen.stmts_isValidCompressionLevel =
      ["return minCompressionLevel <= level && level <= maxCompressionLevel"] := by
  refine ⟨?_, ?_, ?_⟩ <;> rfl



end WS.Props.C15Tie
