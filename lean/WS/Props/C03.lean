import WS.Lemmas.ReadProgram
import WS.Lemmas.MixedReads
import WS.Lemmas.Sequences
import WS.Lemmas.JoinLaw
import WS.Lemmas.JoinSeq
import WS.Lemmas.ReaderZ
import WS.Lemmas.SrcLaw
import WS.Lemmas.Mask
import WS.Lemmas.ReaderDecodes
/-
  C03 — The reader decodes any conformant peer stream, however fragmented or read.
  This file: independence from transport chunking, buffer size and read sizes (the byte source is a
  plain stream). The message-level statements `read_message` / `abandon_then_next` are added from
  WS/Lemmas/ReaderDecodes.lean.
-/
namespace WS.Props.C03
open WS WS.SrcLaw

/-- header reads (Peek+Discard): whatever the transport chunking, the bufio size (≥ n) and what was
    buffered before, reading n available bytes returns exactly the next n bytes of the stream -/
theorem take_is_stream_prefix (b : Buf) (h : WF b) (n : Nat) (hn : n ≤ b.size) (hp : n ≤ b.pending.length) :
    (b.take n).1 = b.pending.take n ∧ (b.take n).2.1 = none ∧
    (b.take n).2.2.pending = b.pending.drop n ∧ WF (b.take n).2.2 ∧ Same b (b.take n).2.2 :=
  take_ok b h n hn hp

/-- payload reads: a Read of any size k ≥ 1 returns a non-empty prefix of the stream (when there is
    one), never reorders or drops bytes, and reports the transport's terminal error only after the
    last byte -/
theorem read_is_stream_prefix (b : Buf) (h : WF b) (k : Nat) (hk : 0 < k) :
    (b.read k).1 ++ (b.read k).2.2.pending = b.pending ∧ (b.read k).1.length ≤ k ∧
    (b.pending ≠ [] → (b.read k).1 ≠ []) ∧
    (∀ e, (b.read k).2.1 = some e → (b.read k).2.2.pending = [] ∧ e = b.t.term) ∧
    (b.pending = [] → (b.read k).2.1 = some b.t.term) ∧
    WF (b.read k).2.2 ∧ Same b (b.read k).2.2 :=
  read_spec b h k hk

/-- skipping the rest of an abandoned frame (io.CopyN to io.Discard) drops exactly n bytes -/
theorem skip_is_stream_drop (b : Buf) (h : WF b) (n : Nat) (hp : n ≤ b.pending.length) :
    (b.skip n).1 = none ∧ (b.skip n).2.pending = b.pending.drop n ∧ WF (b.skip n).2 ∧ Same b (b.skip n).2 :=
  skip_ok b h n hp

/-- unmasking is position-correct across reads of any sizes -/
theorem unmask_across_reads (k : Key) (p : Nat) (xs ys : Bytes) :
    maskFrom k p (xs ++ ys) = maskFrom k p xs ++ maskFrom k ((p + xs.length) % 4) ys := by
  rw [maskFrom_append]
  congr 1
  exact maskFrom_congr k (by omega) ys

open WS.ReaderDecodes in
/-- C03 (one message): from an idle reader whose pending bytes start with a conformant message —
    any fragmentation incl. empty frames, any masking keys, pings/pongs between fragments, either
    role, any bufio size ≥ 125, any transport chunking — NextReader returns its type and reading to
    the end with reads of ANY size k yields exactly its payload and then end-of-message; the reader
    is idle again right after the message and the handlers saw exactly the interleaved control
    frames, in wire order (C08: exactly once). -/
theorem read_message (c : Conn) (hc : ReaderIdle c) (t : Nat) (ht : t = 1 ∨ t = 2) (fs : List PFrame)
    (hs : MsgShape t fs) (rest : Bytes)
    (hp : c.r.buf.pending = encAll c.r.isServer fs ++ rest)
    (hend : c.r.buf.t.together = false ∨ rest ≠ [])
    (hsz : (dataPayload fs).length < 2 ^ 62)
    (hlim : c.r.limit ≤ 0 ∨ ((dataPayload fs).length : Int) ≤ c.r.limit)
    (k : Nat) (hk : 0 < k) :
    ∃ c1 rid, nextReader c = (.msg t rid false, c1) ∧
      ∃ c2, readAll c1 rid k = ((dataPayload fs, none), c2) ∧ ReaderIdle c2 ∧ c2.r.buf.pending = rest ∧
        c2.r.hlog = c.r.hlog ++ ctlEvents fs :=
  ReaderDecodes.read_message c hc t ht fs hs rest hp hend hsz hlim k hk

open WS.ReaderDecodes in
/-- C03 (abandonment): after opening a message and reading any part of it (nothing, some, or all),
    the next NextReader returns the following message, complete and unmixed -/
theorem abandon_then_next (c : Conn) (hc : ReaderIdle c) (t1 t2 : Nat) (ht1 : t1 = 1 ∨ t1 = 2) (ht2 : t2 = 1 ∨ t2 = 2)
    (fs1 fs2 : List PFrame) (hs1 : MsgShape t1 fs1) (hs2 : MsgShape t2 fs2) (rest : Bytes)
    (hp : c.r.buf.pending = encAll c.r.isServer fs1 ++ encAll c.r.isServer fs2 ++ rest)
    (hend : c.r.buf.t.together = false ∨ rest ≠ [])
    (hsz : (dataPayload fs1).length < 2 ^ 62 ∧ (dataPayload fs2).length < 2 ^ 62)
    (hlim : c.r.limit ≤ 0)
    (reads : List Nat) (k : Nat) (hk : 0 < k) :
    ∃ c1 rid1, nextReader c = (.msg t1 rid1 false, c1) ∧
      ∃ c3 rid2, nextReader (partialReads c1 rid1 reads) = (.msg t2 rid2 false, c3) ∧
        ∃ c4, readAll c3 rid2 k = ((dataPayload fs2, none), c4) ∧ ReaderIdle c4 ∧ c4.r.buf.pending = rest ∧
          c4.r.hlog = c.r.hlog ++ ctlEvents fs1 ++ ctlEvents fs2 :=
  ReaderDecodes.abandon_then_next c hc t1 t2 ht1 ht2 fs1 fs2 hs1 hs2 rest hp hend hsz hlim reads k hk

/-- non-vacuity: a 3-byte buffer over a transport that hands out [1,2],[3,4,5]: take 2 then read 9 -/
example :
    let b : Buf := { size := 3, t := { chunks := [[1, 2], [3, 4, 5]] } }
    (b.take 2).1 = [1, 2] ∧ ((b.take 2).2.2.read 9).1 = [3, 4, 5] := by decide

open WS.Codec WS.ReaderDecodes WS.ReaderZ in
/-- read_message for permessage-deflate: a compressed message (RSV1 on its first data frame,
    compression negotiated) is announced as compressed and what the message reader hands to the
    decompressor — reads of any size, any fragmentation, interleaved pings/pongs, any chunking and
    buffer size, either role — is exactly the concatenation of the data frames' payloads, i.e. the
    peer's deflate stream (compress/flate itself is environment) -/
theorem read_compressed_message (c : Conn) (hc : ReaderIdle c) (hn : c.r.nego = true) (t : Nat) (ht : t = 1 ∨ t = 2)
    (f : PFrame) (more : List PFrame) (hs : ZShape t f more) (rest : Bytes)
    (hp : c.r.buf.pending = encZ c.r.isServer f ++ encAll c.r.isServer more ++ rest)
    (hend : c.r.buf.t.together = false ∨ rest ≠ [])
    (hsz : (f.payload ++ dataPayload more).length < 2 ^ 62)
    (hlim : c.r.limit ≤ 0 ∨ (((f.payload ++ dataPayload more).length : Nat) : Int) ≤ c.r.limit)
    (k : Nat) (hk : 0 < k) :
    ∃ c1 rid, nextReader c = (.msg t rid true, c1) ∧
      ∃ c2, readAll c1 rid k = ((f.payload ++ dataPayload more, none), c2) ∧ ReaderIdle c2 ∧
        c2.r.buf.pending = rest ∧ c2.r.hlog = c.r.hlog ++ ctlEvents more := by
  first | exact ReaderZ.read_compressed_message .. | (apply ReaderZ.read_compressed_message <;> assumption)

open WS.Codec WS.ReaderDecodes WS.ReaderZ in
/-- … and the same bytes are refused (nothing delivered, no handler run) when compression was not negotiated -/
theorem compressed_frame_refused_when_not_negotiated (c : Conn) (hc : ReaderIdle c) (hn : c.r.nego = false)
    (t : Nat) (ht : t = 1 ∨ t = 2) (f : PFrame) (hf : f.op = t) (tail : Bytes)
    (hp : c.r.buf.pending = encZ c.r.isServer f ++ tail) (hcnt : c.r.errCount = 0) :
    ∃ msg c', nextReader c = (.err (.protocol msg), c') ∧ c'.r.hlog = c.r.hlog := by
  first | exact ReaderZ.compressed_frame_refused_when_not_negotiated .. | (apply ReaderZ.compressed_frame_refused_when_not_negotiated <;> assumption)

open WS.Codec WS.ReaderDecodes WS.JoinLaw in
/-- through JoinMessages: reading the joined reader with reads of any size delivers exactly
    payload ++ terminator for a message … -/
theorem join_message (c : Conn) (hc : ReaderIdle c) (t : Nat) (ht : t = 1 ∨ t = 2) (fs : List PFrame)
    (hs : MsgShape t fs) (rest : Bytes)
    (hp : c.r.buf.pending = encAll c.r.isServer fs ++ rest)
    (hend : c.r.buf.t.together = false ∨ rest ≠ [])
    (hsz : (dataPayload fs).length < 2 ^ 62) (hlim : c.r.limit ≤ 0)
    (term : Bytes) (k : Nat) (hk : 0 < k) (fuel : Nat) (hf : (dataPayload fs).length + term.length + 3 ≤ fuel) :
    ∃ c', joinMsg fuel c .idle term k [] = ((dataPayload fs ++ term, none), c', .idle) ∧
      ReaderIdle c' ∧ c'.r.buf.pending = rest ∧ c'.r.hlog = c.r.hlog ++ ctlEvents fs := by
  first | exact JoinLaw.join_message .. | (apply JoinLaw.join_message <;> assumption)

open WS.Codec WS.ReaderDecodes WS.JoinLaw in
/-- … and payload₁ ++ term, then payload₂ ++ term for two, nothing mixed -/
theorem join_two_messages (c : Conn) (hc : ReaderIdle c) (t1 t2 : Nat) (ht1 : t1 = 1 ∨ t1 = 2) (ht2 : t2 = 1 ∨ t2 = 2)
    (fs1 fs2 : List PFrame) (hs1 : MsgShape t1 fs1) (hs2 : MsgShape t2 fs2) (rest : Bytes)
    (hp : c.r.buf.pending = encAll c.r.isServer fs1 ++ encAll c.r.isServer fs2 ++ rest)
    (hend : c.r.buf.t.together = false ∨ rest ≠ [])
    (hsz : (dataPayload fs1).length < 2 ^ 62 ∧ (dataPayload fs2).length < 2 ^ 62) (hlim : c.r.limit ≤ 0)
    (term : Bytes) (k : Nat) (hk : 0 < k) (fuel : Nat)
    (hf : (dataPayload fs1).length + (dataPayload fs2).length + term.length + 3 ≤ fuel) :
    ∃ c1 c2, joinMsg fuel c .idle term k [] = ((dataPayload fs1 ++ term, none), c1, .idle) ∧
      joinMsg fuel c1 .idle term k [] = ((dataPayload fs2 ++ term, none), c2, .idle) ∧
      ReaderIdle c2 ∧ c2.r.buf.pending = rest := by
  exact JoinLaw.join_two_messages c hc t1 t2 ht1 ht2 fs1 fs2 hs1 hs2 rest hp hend hsz hlim term k hk fuel hf


open WS.ReaderDecodes WS.Sequences in
/-- read_message for ANY NUMBER of messages: from an idle reader, a stream of any number of
    conformant messages (each with any fragmentation, empty frames, control frames between fragments)
    followed by `rest` is read as exactly those messages, in wire order, each exactly once; the
    handlers saw the interleaved control frames in wire order; the reader is idle again with `rest`
    untouched -/
theorem read_messages (c : Conn) (hc : ReaderIdle c) (msgs : List (Nat × List PFrame))
    (hm : ∀ m ∈ msgs, (m.1 = 1 ∨ m.1 = 2) ∧ MsgShape m.1 m.2 ∧ (dataPayload m.2).length < 2 ^ 62)
    (rest : Bytes)
    (hp : c.r.buf.pending = (msgs.map (fun m => encAll c.r.isServer m.2)).flatten ++ rest)
    (hend : c.r.buf.t.together = false ∨ rest ≠ []) (hlim : c.r.limit ≤ 0) (k : Nat) (hk : 0 < k) :
    ∃ c', readMsgs k msgs.length c = (msgs.map (fun m => (m.1, dataPayload m.2)), c') ∧
      ReaderIdle c' ∧ c'.r.buf.pending = rest ∧
      c'.r.hlog = c.r.hlog ++ (msgs.map (fun m => ctlEvents m.2)).flatten := by
  first | exact WS.Sequences.read_messages .. | (apply WS.Sequences.read_messages <;> assumption)

open WS.ReaderDecodes WS.MixedReads

/-- "reads of any sizes", with the size changing from one Read to the next: reading a message first
    with requests of the sizes `ks` (any positive sizes, in order: `zFills` is the plain loop "Read with
    these sizes until the list ends or a Read returns an error") and then to the end with requests of
    size `k` delivers, concatenated, exactly the payload; end-of-message is signalled once, by
    whichever phase reaches it; the reader is idle again, the following bytes untouched, the handlers
    saw the interleaved control frames -/
theorem read_message_mixed (c : Conn) (hc : ReaderIdle c) (t : Nat) (ht : t = 1 ∨ t = 2) (fs : List PFrame)
    (hs : MsgShape t fs) (rest : Bytes)
    (hp : c.r.buf.pending = encAll c.r.isServer fs ++ rest)
    (hend : c.r.buf.t.together = false ∨ rest ≠ [])
    (hsz : (dataPayload fs).length < 2 ^ 62) (hlim : c.r.limit ≤ 0)
    (ks : List Nat) (hks : ∀ k ∈ ks, 0 < k) (k : Nat) (hk : 0 < k) :
    ∃ c1 rid, nextReader c = (.msg t rid false, c1) ∧
      ∃ pre st c2, zFills ks c1 rid [] = ((pre, st), c2) ∧
        ((st = some .eof ∧ pre = dataPayload fs ∧ ReaderIdle c2 ∧ c2.r.buf.pending = rest ∧
            c2.r.hlog = c.r.hlog ++ ctlEvents fs) ∨
         (st = none ∧ ∃ suf c3, readAll c2 rid k = ((suf, none), c3) ∧ pre ++ suf = dataPayload fs ∧
            ReaderIdle c3 ∧ c3.r.buf.pending = rest ∧ c3.r.hlog = c.r.hlog ++ ctlEvents fs)) := by
  first | exact WS.MixedReads.read_message_mixed .. | (apply WS.MixedReads.read_message_mixed <;> assumption)

/-- ReadMessage / io.ReadAll: whatever capacities the Go allocator picks for the growing buffer (any
    strictly increasing sequence — an environment answer measured by the harness; after the list the
    model grows by 8192), the message is returned complete and byte-identical -/
theorem read_message_any_caps (c : Conn) (hc : ReaderIdle c) (t : Nat) (ht : t = 1 ∨ t = 2) (fs : List PFrame)
    (hs : MsgShape t fs) (rest : Bytes)
    (hp : c.r.buf.pending = encAll c.r.isServer fs ++ rest)
    (hend : c.r.buf.t.together = false ∨ rest ≠ [])
    (hsz : (dataPayload fs).length < 2 ^ 62) (hlim : c.r.limit ≤ 0)
    (caps : List Nat) (hcaps : Growing 0 caps) :
    ∃ c1 rid, nextReader c = (.msg t rid false, c1) ∧
      ∃ c2, readAllGrow c1 rid caps = ((dataPayload fs, none), c2) ∧ ReaderIdle c2 ∧
        c2.r.buf.pending = rest ∧ c2.r.hlog = c.r.hlog ++ ctlEvents fs := by
  first | exact WS.MixedReads.read_message_any_caps .. | (apply WS.MixedReads.read_message_any_caps <;> assumption)

open WS.Codec WS.ReaderDecodes WS.JoinLaw WS.JoinSeq in
/-- `join_message` with a read limit in force: a message within the limit goes through JoinMessages
    complete, followed by the terminator; role, limit, handlers and the transport's parameters are
    unchanged (`Keep`) -/
theorem join_message_limited (c : Conn) (hc : ReaderIdle c) (t : Nat) (ht : t = 1 ∨ t = 2) (fs : List PFrame)
    (hs : MsgShape t fs) (rest : Bytes)
    (hp : c.r.buf.pending = encAll c.r.isServer fs ++ rest)
    (hend : c.r.buf.t.together = false ∨ rest ≠ [])
    (hsz : (dataPayload fs).length < 2 ^ 62)
    (hlim : c.r.limit ≤ 0 ∨ ((dataPayload fs).length : Int) ≤ c.r.limit)
    (term : Bytes) (k : Nat) (hk : 0 < k) (fuel : Nat) (hf : (dataPayload fs).length + term.length + 3 ≤ fuel) :
    ∃ c', joinMsg fuel c .idle term k [] = ((dataPayload fs ++ term, none), c', .idle) ∧
      ReaderIdle c' ∧ c'.r.buf.pending = rest ∧ c'.r.hlog = c.r.hlog ++ ctlEvents fs ∧ Keep c c' := by
  first | exact WS.JoinSeq.join_message_limited .. | (apply WS.JoinSeq.join_message_limited <;> assumption)

open WS.Codec WS.ReaderDecodes WS.JoinLaw WS.JoinSeq WS.Sequences in
/-- JoinMessages over ANY NUMBER of messages (with or without a read limit; each message within it):
    the joined reader delivers payload₁ ++ term ++ payload₂ ++ term ++ …, nothing lost, nothing mixed,
    in wire order; `joinMsgs` is the plain loop "read the joined reader until n messages and their
    terminators have been delivered or an error occurs"; the handlers saw the interleaved control
    frames in wire order and the bytes behind the last message are untouched -/
theorem join_messages (c : Conn) (hc : ReaderIdle c) (msgs : List (Nat × List PFrame))
    (hm : ∀ m ∈ msgs, (m.1 = 1 ∨ m.1 = 2) ∧ MsgShape m.1 m.2 ∧ (dataPayload m.2).length < 2 ^ 62 ∧
            (c.r.limit ≤ 0 ∨ ((dataPayload m.2).length : Int) ≤ c.r.limit))
    (rest : Bytes)
    (hp : c.r.buf.pending = (msgs.map (fun m => encAll c.r.isServer m.2)).flatten ++ rest)
    (hend : c.r.buf.t.together = false ∨ rest ≠ [])
    (term : Bytes) (k : Nat) (hk : 0 < k) (fuel : Nat)
    (hf : ∀ m ∈ msgs, (dataPayload m.2).length + term.length + 3 ≤ fuel) :
    ∃ c', joinMsgs fuel term k msgs.length c [] =
        (((msgs.map (fun m => dataPayload m.2 ++ term)).flatten, none), c') ∧
      ReaderIdle c' ∧ c'.r.buf.pending = rest ∧
      c'.r.hlog = c.r.hlog ++ (msgs.map (fun m => ctlEvents m.2)).flatten := by
  first | exact WS.JoinSeq.join_messages .. | (apply WS.JoinSeq.join_messages <;> assumption)

open WS.Codec WS.ReaderDecodes WS.ReadProgram in
/-- C03 at its full quantifier — EVERY program over the read API (`runProg`: NextReader and Read(k) in
    any order, number and sizes; reading on after the end of a message; opening the next message while
    the current one is unread, partly read or fully read) run against a stream of conformant messages,
    with or without a read limit, observes exactly what the messages dictate (`Ok`, WS/Lemmas/ReadProgram.lean):
    the i-th NextReader opens the i-th message with its type — none skipped, none delivered twice —, every
    Read returns a non-empty piece of at most the size asked for, continuing exactly where the previous
    Read of that message stopped, with no error; end-of-message is reported exactly when the whole payload
    has been delivered, and again on every later Read of that reader -/
theorem any_read_program (c : Conn) (hc : ReaderIdle c) (msgs : List (Nat × List PFrame))
    (hm : ∀ m ∈ msgs, (m.1 = 1 ∨ m.1 = 2) ∧ MsgShape m.1 m.2 ∧ (dataPayload m.2).length < 2 ^ 62 ∧
            (c.r.limit ≤ 0 ∨ ((dataPayload m.2).length : Int) ≤ c.r.limit))
    (rest : Bytes)
    (hp : c.r.buf.pending = (msgs.map (fun m => encAll c.r.isServer m.2)).flatten ++ rest)
    (hend : c.r.buf.t.together = false ∨ rest ≠ [])
    (ops : List ROp) (hn : (ops.filter ROp.isNext).length ≤ msgs.length) :
    Ok ops (msgs.map (fun m => (m.1, dataPayload m.2))) none false (runProg ops c none).1 := by
  first | exact WS.ReadProgram.any_read_program .. | (apply WS.ReadProgram.any_read_program <;> assumption)

/-! ### non-vacuity -/
section NonVacuity
set_option linter.defProp false
open WS WS.SrcLaw WS.Codec WS.ReaderDecodes

/-- a bufio.Reader of 4096 bytes holding 3 buffered bytes over a transport that will deliver two more
    chunks and then fail with a transport error -/
def witBuf : Buf :=
  { size := 4096, buf := [1, 2, 3], t := { chunks := [[4, 5], [6, 7, 8, 9]], term := .transport 3 }, total := 9 }

def witBuf_wf : WF witBuf := ⟨by decide, by decide, by decide, (by intro e h; cases h)⟩

/-- non-vacuity of `take_is_stream_prefix`: a 4-byte header read across the buffer/transport border -/
example : (witBuf.take 4).1 = [1, 2, 3, 4] ∧ (witBuf.take 4).2.1 = none ∧
    (witBuf.take 4).2.2.pending = [5, 6, 7, 8, 9] ∧ WF (witBuf.take 4).2.2 ∧ Same witBuf (witBuf.take 4).2.2 :=
  take_is_stream_prefix witBuf witBuf_wf 4 (by decide) (by decide)

/-- non-vacuity of `read_is_stream_prefix`: Read(2) -/
example : (witBuf.read 2).1 ++ (witBuf.read 2).2.2.pending = witBuf.pending ∧ (witBuf.read 2).1.length ≤ 2 ∧
    (witBuf.pending ≠ [] → (witBuf.read 2).1 ≠ []) ∧
    (∀ e, (witBuf.read 2).2.1 = some e → (witBuf.read 2).2.2.pending = [] ∧ e = witBuf.t.term) ∧
    (witBuf.pending = [] → (witBuf.read 2).2.1 = some witBuf.t.term) ∧
    WF (witBuf.read 2).2.2 ∧ Same witBuf (witBuf.read 2).2.2 :=
  read_is_stream_prefix witBuf witBuf_wf 2 (by decide)

/-- non-vacuity of `skip_is_stream_drop`: skipping 7 of the 9 pending bytes -/
example : (witBuf.skip 7).1 = none ∧ (witBuf.skip 7).2.pending = [8, 9] ∧ WF (witBuf.skip 7).2 ∧ Same witBuf (witBuf.skip 7).2 :=
  skip_is_stream_drop witBuf witBuf_wf 7 (by decide)

/-- instance of `unmask_across_reads` (no hypotheses): "Hello" split 2 + 3 at key offset 3 -/
example : maskFrom ⟨0x37, 0xfa, 0x21, 0x3d⟩ 3 ([0x48, 0x65] ++ [0x6c, 0x6c, 0x6f]) =
    maskFrom ⟨0x37, 0xfa, 0x21, 0x3d⟩ 3 [0x48, 0x65] ++ maskFrom ⟨0x37, 0xfa, 0x21, 0x3d⟩ ((3 + 2) % 4) [0x6c, 0x6c, 0x6f] :=
  unmask_across_reads _ 3 _ _

/-- a text message "Hello" in two fragments ("Hel" non-final, "lo" final) with a ping "p" in between,
    each frame masked with its own key (the reader is a server) -/
def witMsg : List PFrame :=
  [{ op := 1, fin := false, key := ⟨0x37, 0xfa, 0x21, 0x3d⟩, payload := [0x48, 0x65, 0x6c] },
   { op := 9, fin := true, key := ⟨1, 2, 3, 4⟩, payload := [0x70] },
   { op := 0, fin := true, key := ⟨0xa0, 0xb0, 0xc0, 0xd0⟩, payload := [0x6c, 0x6f] }]

def witMsg_shape : MsgShape 1 witMsg :=
  MsgShape.frag _ _ rfl rfl (by decide)
    (Tail.ctl _ _ ⟨Or.inl rfl, rfl, by decide⟩ (Tail.last _ rfl rfl (by decide)))

/-- a second, unfragmented binary message of 4 bytes preceded by a pong -/
def witMsg2 : List PFrame :=
  [{ op := 10, fin := true, key := ⟨5, 6, 7, 8⟩, payload := [] },
   { op := 2, fin := true, key := ⟨9, 8, 7, 6⟩, payload := [0xde, 0xad, 0xbe, 0xef] }]

def witMsg2_shape : MsgShape 2 witMsg2 :=
  MsgShape.ctl _ _ ⟨Or.inr rfl, rfl, by decide⟩ (MsgShape.single _ rfl rfl (by decide))

/-- the wire bytes of the two messages followed by the first byte of a third frame -/
def witWire : Bytes := encAll true witMsg ++ encAll true witMsg2 ++ [0x81]

/-- a server connection, reader idle, 4096-byte bufio.Reader that has buffered the first 5 wire bytes;
    the rest arrives in chunks of 7 bytes, then the transport times out -/
def witSrv : Conn :=
  { w := newW true 4096 false false,
    r := { isServer := true, nego := false, hlog := [.pong []],
           buf := { size := 4096, buf := witWire.take 5,
                    t := { chunks := [(witWire.drop 5).take 7, (witWire.drop 12).take 7, (witWire.drop 19).take 7, witWire.drop 26],
                           term := .transport 1 },
                    total := witWire.length } } }

example : witWire.length = 41 := by decide

def witSrv_idle : ReaderIdle witSrv :=
  ⟨rfl, rfl, rfl, ⟨by decide, by decide, by decide, (by intro e h; cases h)⟩, by decide, by decide,
    (by intro id h; cases h), (by intro id h; cases h)⟩

/-- non-vacuity of `read_message`: `ReaderIdle`, `MsgShape`, the pending bytes, `hend`, the size and
    limit hypotheses hold together; reads of 2 bytes -/
example : ∃ c1 rid, nextReader witSrv = (.msg 1 rid false, c1) ∧
      ∃ c2, readAll c1 rid 2 = (([0x48, 0x65, 0x6c, 0x6c, 0x6f], none), c2) ∧ ReaderIdle c2 ∧
        c2.r.buf.pending = encAll true witMsg2 ++ [0x81] ∧
        c2.r.hlog = [.pong [], .ping [0x70]] :=
  read_message witSrv witSrv_idle 1 (Or.inl rfl) witMsg witMsg_shape (encAll true witMsg2 ++ [0x81])
    (by decide) (Or.inl rfl) (by decide) (Or.inl (by decide)) 2 (by decide)

/-- non-vacuity of `abandon_then_next`: the first message is abandoned after one Read of 2 bytes and
    one of 1 byte; the second message is then read with 3-byte reads -/
example : ∃ c1 rid1, nextReader witSrv = (.msg 1 rid1 false, c1) ∧
      ∃ c3 rid2, nextReader (partialReads c1 rid1 [2, 1]) = (.msg 2 rid2 false, c3) ∧
        ∃ c4, readAll c3 rid2 3 = (([0xde, 0xad, 0xbe, 0xef], none), c4) ∧ ReaderIdle c4 ∧ c4.r.buf.pending = [0x81] ∧
          c4.r.hlog = [.pong []] ++ [.ping [0x70]] ++ [.pong []] :=
  abandon_then_next witSrv witSrv_idle 1 2 (Or.inl rfl) (Or.inr rfl) witMsg witMsg2 witMsg_shape witMsg2_shape [0x81]
    (by decide) (Or.inl rfl) ⟨by decide, by decide⟩ (by decide) [2, 1] 3 (by decide)

/-- the two messages of `witWire` as a sequence: text "Hello" in two fragments with a ping in between,
    then (after a pong) a single-frame binary message -/
def witMsgs : List (Nat × List PFrame) := [(1, witMsg), (2, witMsg2)]

def witMsgs_ok : ∀ m ∈ witMsgs, (m.1 = 1 ∨ m.1 = 2) ∧ MsgShape m.1 m.2 ∧ (dataPayload m.2).length < 2 ^ 62 := by
  intro m hm
  simp only [witMsgs, List.mem_cons, List.not_mem_nil, or_false] at hm
  rcases hm with rfl | rfl
  · exact ⟨Or.inl rfl, witMsg_shape, by decide⟩
  · exact ⟨Or.inr rfl, witMsg2_shape, by decide⟩

/-- non-vacuity of `read_messages`: `ReaderIdle`, the per-message hypotheses (type, `MsgShape`, size),
    the pending bytes = the masked encodings of both messages ++ [0x81], `hend` and the limit
    hypothesis hold together for the server reader `witSrv`; reads of 2 bytes -/
example : ∃ c', WS.Sequences.readMsgs 2 2 witSrv =
        ([(1, [0x48, 0x65, 0x6c, 0x6c, 0x6f]), (2, [0xde, 0xad, 0xbe, 0xef])], c') ∧
      ReaderIdle c' ∧ c'.r.buf.pending = [0x81] ∧
      c'.r.hlog = [.pong []] ++ [.ping [0x70], .pong []] :=
  read_messages witSrv witSrv_idle witMsgs witMsgs_ok [0x81] (by decide) (Or.inl rfl) (by decide) 2 (by decide)

/-- the same instance evaluated directly on the model -/
example : (WS.Sequences.readMsgs 2 2 witSrv).1 = [(1, [0x48, 0x65, 0x6c, 0x6c, 0x6f]), (2, [0xde, 0xad, 0xbe, 0xef])] ∧
    (WS.Sequences.readMsgs 2 2 witSrv).2.r.hlog = [.pong [], .ping [0x70], .pong []] := by decide +kernel

section Z
open WS.ReaderZ

/-- first frame of a compressed text message: 4 bytes of deflate stream, non-final; on the wire it
    carries RSV1 (`encZ`) -/
def witZFirst : PFrame :=
  { op := 1, fin := false, key := ⟨0x37, 0xfa, 0x21, 0x3d⟩, payload := [0xf2, 0x48, 0xcd, 0xc9] }

/-- … followed by a ping "p" and the final continuation with the last 3 bytes of the deflate stream -/
def witZMore : List PFrame :=
  [{ op := 9, fin := true, key := ⟨1, 2, 3, 4⟩, payload := [0x70] },
   { op := 0, fin := true, key := ⟨0xa0, 0xb0, 0xc0, 0xd0⟩, payload := [0xc9, 0x07, 0x00] }]

def witZ_shape : ZShape 1 witZFirst witZMore :=
  ⟨rfl, by decide, Or.inr ⟨rfl, Tail.ctl _ _ ⟨Or.inl rfl, rfl, by decide⟩ (Tail.last _ rfl rfl (by decide))⟩⟩

/-- the wire bytes of the compressed message followed by the first byte of the next frame -/
def witZWire : Bytes := encZ true witZFirst ++ encAll true witZMore ++ [0x81]

example : witZWire.length = 27 := by decide
/-- the first wire byte is 0x41: text, FIN clear, RSV1 set -/
example : witZWire.take 2 = [0x41, 0x84] := by decide

/-- a server connection with permessage-deflate negotiated, reader idle, 4096-byte bufio.Reader that
    has buffered the first 5 wire bytes; the rest arrives in two chunks (9 and 13 bytes), then the
    transport times out -/
def witSrvZ : Conn :=
  { w := newW true 4096 false false,
    r := { isServer := true, nego := true, hlog := [.pong []],
           buf := { size := 4096, buf := witZWire.take 5,
                    t := { chunks := [(witZWire.drop 5).take 9, witZWire.drop 14],
                           term := .transport 1 },
                    total := witZWire.length } } }

def witSrvZ_idle : ReaderIdle witSrvZ :=
  ⟨rfl, rfl, rfl, ⟨by decide, by decide, by decide, (by intro e h; cases h)⟩, by decide, by decide,
    (by intro id h; cases h), (by intro id h; cases h)⟩

/-- non-vacuity of `read_compressed_message`: `ReaderIdle`, `nego = true`, `ZShape`, the pending bytes,
    `hend`, the size and limit hypotheses hold together; reads of 2 bytes. NextReader reports
    `z = true` and the raw bytes handed to the decompressor are the concatenated payloads. -/
example : ∃ c1 rid, nextReader witSrvZ = (.msg 1 rid true, c1) ∧
      ∃ c2, readAll c1 rid 2 = (([0xf2, 0x48, 0xcd, 0xc9, 0xc9, 0x07, 0x00], none), c2) ∧ ReaderIdle c2 ∧
        c2.r.buf.pending = [0x81] ∧ c2.r.hlog = [.pong [], .ping [0x70]] :=
  read_compressed_message witSrvZ witSrvZ_idle rfl 1 (Or.inl rfl) witZFirst witZMore witZ_shape [0x81]
    (by decide) (Or.inl rfl) (by decide) (Or.inl (by decide)) 2 (by decide)

/-- the same instance evaluated directly on the model: compressed flag and message type -/
example : ∃ rid, (nextReader witSrvZ).1 = .msg 1 rid true := ⟨_, rfl⟩

/-- the same wire bytes on a connection where compression was NOT negotiated -/
def witSrvNoZ : Conn := { witSrvZ with r := { witSrvZ.r with nego := false } }

def witSrvNoZ_idle : ReaderIdle witSrvNoZ :=
  ⟨rfl, rfl, rfl, ⟨by decide, by decide, by decide, (by intro e h; cases h)⟩, by decide, by decide,
    (by intro id h; cases h), (by intro id h; cases h)⟩

/-- non-vacuity of `compressed_frame_refused_when_not_negotiated`: the RSV1 first frame is refused with
    a protocol error and no handler ran -/
example : ∃ msg c', nextReader witSrvNoZ = (.err (.protocol msg), c') ∧ c'.r.hlog = [.pong []] :=
  compressed_frame_refused_when_not_negotiated witSrvNoZ witSrvNoZ_idle rfl 1 (Or.inl rfl) witZFirst rfl
    (encAll true witZMore ++ [0x81]) (by decide) rfl

end Z

section Join
open WS.JoinLaw

/-- non-vacuity of `join_message`: `witSrv` read through JoinMessages with terminator "\n" and reads of
    3 bytes delivers "Hello\n" -/
example : ∃ c', joinMsg 20 witSrv .idle [10] 3 [] = (([0x48, 0x65, 0x6c, 0x6c, 0x6f, 10], none), c', .idle) ∧
      ReaderIdle c' ∧ c'.r.buf.pending = encAll true witMsg2 ++ [0x81] ∧
      c'.r.hlog = [.pong [], .ping [0x70]] :=
  join_message witSrv witSrv_idle 1 (Or.inl rfl) witMsg witMsg_shape (encAll true witMsg2 ++ [0x81])
    (by decide) (Or.inl rfl) (by decide) (by decide) [10] 3 (by decide) 20 (by decide)

/-- non-vacuity of `join_two_messages`: "Hello\n" and then the 4 binary bytes plus "\n", nothing mixed -/
example : ∃ c1 c2, joinMsg 20 witSrv .idle [10] 3 [] = (([0x48, 0x65, 0x6c, 0x6c, 0x6f, 10], none), c1, .idle) ∧
      joinMsg 20 c1 .idle [10] 3 [] = (([0xde, 0xad, 0xbe, 0xef, 10], none), c2, .idle) ∧
      ReaderIdle c2 ∧ c2.r.buf.pending = [0x81] :=
  join_two_messages witSrv witSrv_idle 1 2 (Or.inl rfl) (Or.inr rfl) witMsg witMsg2 witMsg_shape witMsg2_shape [0x81]
    (by decide) (Or.inl rfl) ⟨by decide, by decide⟩ (by decide) [10] 3 (by decide) 20 (by decide)

/-- the bytes delivered, evaluated directly on the model -/
example : (joinMsg 20 witSrv .idle [10] 3 []).1 = ([0x48, 0x65, 0x6c, 0x6c, 0x6f, 10], none) := by decide

/-- non-vacuity of `join_messages` (and of `join_message_limited` inside it): both messages of the
    witness stream through JoinMessages under a read limit of 5 bytes — exactly the size of the larger
    message — as one statement -/
example : ∃ c', WS.JoinSeq.joinMsgs 20 [10] 3 2 { witSrv with r := { witSrv.r with limit := 5 } } [] =
        (([0x48, 0x65, 0x6c, 0x6c, 0x6f, 10, 0xde, 0xad, 0xbe, 0xef, 10], none), c') ∧
      ReaderIdle c' ∧ c'.r.buf.pending = [0x81] := by
  have hI : ReaderIdle { witSrv with r := { witSrv.r with limit := 5 } } :=
    ⟨witSrv_idle.noErr, witSrv_idle.rem, witSrv_idle.fin, witSrv_idle.wf, witSrv_idle.size, witSrv_idle.fuel,
     witSrv_idle.hp, witSrv_idle.hq⟩
  obtain ⟨c', h1, h2, h3, _⟩ := join_messages _ hI [(1, witMsg), (2, witMsg2)]
    (by
      intro m hm
      simp only [List.mem_cons, List.mem_nil_iff, or_false] at hm
      rcases hm with rfl | rfl
      · exact ⟨Or.inl rfl, witMsg_shape, by decide, Or.inr (by decide)⟩
      · exact ⟨Or.inr rfl, witMsg2_shape, by decide, Or.inr (by decide)⟩)
    [0x81] (by decide) (Or.inl rfl) [10] 3 (by decide) 20
    (by
      intro m hm
      simp only [List.mem_cons, List.mem_nil_iff, or_false] at hm
      rcases hm with rfl | rfl <;> decide)
  have e : (([(1, witMsg), (2, witMsg2)] : List (Nat × List PFrame)).map (fun m => dataPayload m.2 ++ [10])).flatten =
      [0x48, 0x65, 0x6c, 0x6c, 0x6f, 10, 0xde, 0xad, 0xbe, 0xef, 10] := by decide
  rw [e] at h1
  exact ⟨c', h1, h2, h3⟩

end Join

section Mixed
open WS.MixedReads

/-- non-vacuity of `read_message_mixed`, list of sizes ending INSIDE the message: `ReaderIdle`,
    `MsgShape`, the pending bytes, `hend`, the size and limit hypotheses and `∀ k ∈ ks, 0 < k` hold
    together for `witSrv` / `witMsg` with `ks = [1, 3]`, then reads of 2 bytes to the end -/
example : ∃ c1 rid, nextReader witSrv = (.msg 1 rid false, c1) ∧
      ∃ pre st c2, zFills [1, 3] c1 rid [] = ((pre, st), c2) ∧
        ((st = some .eof ∧ pre = [0x48, 0x65, 0x6c, 0x6c, 0x6f] ∧ ReaderIdle c2 ∧
            c2.r.buf.pending = encAll true witMsg2 ++ [0x81] ∧ c2.r.hlog = [.pong [], .ping [0x70]]) ∨
         (st = none ∧ ∃ suf c3, readAll c2 rid 2 = ((suf, none), c3) ∧ pre ++ suf = [0x48, 0x65, 0x6c, 0x6c, 0x6f] ∧
            ReaderIdle c3 ∧ c3.r.buf.pending = encAll true witMsg2 ++ [0x81] ∧
            c3.r.hlog = [.pong [], .ping [0x70]])) :=
  read_message_mixed witSrv witSrv_idle 1 (Or.inl rfl) witMsg witMsg_shape (encAll true witMsg2 ++ [0x81])
    (by decide) (Or.inl rfl) (by decide) (by decide) [1, 3] (by decide) 2 (by decide)

/-- … evaluated on the model: the second alternative holds. Read(1) = "H"; Read(3) = "el" (a Read
    never crosses a frame border), no end-of-message yet; the reads of 2 bytes then deliver "lo"
    (after the ping handler ran) -/
example : (zFills [1, 3] (nextReader witSrv).2 0 []).1 = ([0x48, 0x65, 0x6c], none) ∧
    (readAll (zFills [1, 3] (nextReader witSrv).2 0 []).2 0 2).1 = ([0x6c, 0x6f], none) ∧
    (readAll (zFills [1, 3] (nextReader witSrv).2 0 []).2 0 2).2.r.hlog = [.pong [], .ping [0x70]] := by
  decide +kernel

/-- non-vacuity of `read_message_mixed`, list of sizes REACHING the end of the message:
    `ks = [2, 2, 4096, 7]` -/
example : ∃ c1 rid, nextReader witSrv = (.msg 1 rid false, c1) ∧
      ∃ pre st c2, zFills [2, 2, 4096, 7] c1 rid [] = ((pre, st), c2) ∧
        ((st = some .eof ∧ pre = [0x48, 0x65, 0x6c, 0x6c, 0x6f] ∧ ReaderIdle c2 ∧
            c2.r.buf.pending = encAll true witMsg2 ++ [0x81] ∧ c2.r.hlog = [.pong [], .ping [0x70]]) ∨
         (st = none ∧ ∃ suf c3, readAll c2 rid 2 = ((suf, none), c3) ∧ pre ++ suf = [0x48, 0x65, 0x6c, 0x6c, 0x6f] ∧
            ReaderIdle c3 ∧ c3.r.buf.pending = encAll true witMsg2 ++ [0x81] ∧
            c3.r.hlog = [.pong [], .ping [0x70]])) :=
  read_message_mixed witSrv witSrv_idle 1 (Or.inl rfl) witMsg witMsg_shape (encAll true witMsg2 ++ [0x81])
    (by decide) (Or.inl rfl) (by decide) (by decide) [2, 2, 4096, 7] (by decide) 2 (by decide)

/-- … evaluated on the model: the first alternative holds ("He", "l", "lo", then io.EOF); the
    following bytes are untouched and the ping handler ran once -/
example : (zFills [2, 2, 4096, 7] (nextReader witSrv).2 0 []).1 = ([0x48, 0x65, 0x6c, 0x6c, 0x6f], some .eof) ∧
    (zFills [2, 2, 4096, 7] (nextReader witSrv).2 0 []).2.r.buf.pending = encAll true witMsg2 ++ [0x81] ∧
    (zFills [2, 2, 4096, 7] (nextReader witSrv).2 0 []).2.r.hlog = [.pong [], .ping [0x70]] := by
  decide +kernel

/-- the capacities [2, 3, 8] are strictly increasing from 0 -/
def witCaps_growing : Growing 0 [2, 3, 8] := by simp [Growing]

/-- non-vacuity of `read_message_any_caps`: the same witness read by ReadMessage with an allocator that
    answers the capacities 2, 3, 8 (requests of 2, 1, 5 bytes) -/
example : ∃ c1 rid, nextReader witSrv = (.msg 1 rid false, c1) ∧
      ∃ c2, readAllGrow c1 rid [2, 3, 8] = (([0x48, 0x65, 0x6c, 0x6c, 0x6f], none), c2) ∧ ReaderIdle c2 ∧
        c2.r.buf.pending = encAll true witMsg2 ++ [0x81] ∧ c2.r.hlog = [.pong [], .ping [0x70]] :=
  read_message_any_caps witSrv witSrv_idle 1 (Or.inl rfl) witMsg witMsg_shape (encAll true witMsg2 ++ [0x81])
    (by decide) (Or.inl rfl) (by decide) (by decide) [2, 3, 8] witCaps_growing

/-- … and with no measured capacities at all (`caps = []`, `Growing 0 []` is trivial: the model starts
    at 512 and grows by 8192) -/
example : ∃ c1 rid, nextReader witSrv = (.msg 1 rid false, c1) ∧
      ∃ c2, readAllGrow c1 rid [] = (([0x48, 0x65, 0x6c, 0x6c, 0x6f], none), c2) ∧ ReaderIdle c2 ∧
        c2.r.buf.pending = encAll true witMsg2 ++ [0x81] ∧ c2.r.hlog = [.pong [], .ping [0x70]] :=
  read_message_any_caps witSrv witSrv_idle 1 (Or.inl rfl) witMsg witMsg_shape (encAll true witMsg2 ++ [0x81])
    (by decide) (Or.inl rfl) (by decide) (by decide) [] (by simp [Growing])

/-- `readAllGrow` evaluated on the model for both capacity lists -/
example : (readAllGrow (nextReader witSrv).2 0 [2, 3, 8]).1 = ([0x48, 0x65, 0x6c, 0x6c, 0x6f], none) ∧
    (readAllGrow (nextReader witSrv).2 0 [2, 3, 8]).2.r.buf.pending = encAll true witMsg2 ++ [0x81] ∧
    (readAllGrow (nextReader witSrv).2 0 [2, 3, 8]).2.r.hlog = [.pong [], .ping [0x70]] ∧
    (readAllGrow (nextReader witSrv).2 0 []).1 = ([0x48, 0x65, 0x6c, 0x6c, 0x6f], none) := by
  decide +kernel

end Mixed

section Program
open WS.ReadProgram

/-- a program that reads before opening anything, opens the first message, reads 2 bytes, abandons it,
    opens the second, reads it in pieces of up to 3 bytes, reads on past its end -/
def witProg : List ROp := [.read 5, .next, .read 1, .next, .read 2, .read 2, .read 2, .read 0]

/-- non-vacuity of `any_read_program`: the hypotheses hold for `witSrv` and the two witness messages -/
example : Ok witProg [(1, dataPayload witMsg), (2, dataPayload witMsg2)] none false (runProg witProg witSrv none).1 :=
  any_read_program witSrv witSrv_idle [(1, witMsg), (2, witMsg2)]
    (by
      intro m hm
      simp only [List.mem_cons, List.mem_nil_iff, or_false] at hm
      rcases hm with rfl | rfl
      · exact ⟨Or.inl rfl, witMsg_shape, by decide, Or.inl (by decide)⟩
      · exact ⟨Or.inr rfl, witMsg2_shape, by decide, Or.inl (by decide)⟩)
    [0x81] (by decide) (Or.inl rfl) witProg (by decide)

/-- the trace of that run, evaluated on the model: "He", then the second message although "llo" and a
    ping were still unread, its four bytes in pieces of 3 and 1, end-of-message twice -/
example : (runProg witProg witSrv none).1 =
    [.opened 1, .ret [0x48, 0x65] none, .opened 2, .ret [0xde, 0xad, 0xbe] none, .ret [0xef] none,
     .ret [] (some .eof), .ret [] (some .eof)] := by decide +kernel

end Program

end NonVacuity

end WS.Props.C03
