import WS.Lemmas.SrcLaw
import WS.Lemmas.Mask
/-
  C03 — The reader decodes any conformant peer stream, however fragmented or read.
  This file: independence from transport chunking, buffer size and read sizes (the byte source is a
  plain stream). The message-level statements `read_message` / `abandon_then_next` are added from
  WS/Lemmas/ReaderDecodes.lean.
-/
namespace WS.Props.C03
open WS WS.SrcLaw

/-- header reads (Peek+Discard): whatever the transport chunking, the bufio size (≥ n) and what was
    buffered before, reading n available bytes returns exactly the next n bytes of the stream -/
theorem take_is_stream_prefix (b : Buf) (h : WF b) (n : Nat) (hn : n ≤ b.size) (hp : n ≤ b.pending.length) :
    (b.take n).1 = b.pending.take n ∧ (b.take n).2.1 = none ∧
    (b.take n).2.2.pending = b.pending.drop n ∧ WF (b.take n).2.2 ∧ Same b (b.take n).2.2 :=
  take_ok b h n hn hp

/-- payload reads: a Read of any size k ≥ 1 returns a non-empty prefix of the stream (when there is
    one), never reorders or drops bytes, and reports the transport's terminal error only after the
    last byte -/
theorem read_is_stream_prefix (b : Buf) (h : WF b) (k : Nat) (hk : 0 < k) :
    (b.read k).1 ++ (b.read k).2.2.pending = b.pending ∧ (b.read k).1.length ≤ k ∧
    (b.pending ≠ [] → (b.read k).1 ≠ []) ∧
    (∀ e, (b.read k).2.1 = some e → (b.read k).2.2.pending = [] ∧ e = b.t.term) ∧
    (b.pending = [] → (b.read k).2.1 = some b.t.term) ∧
    WF (b.read k).2.2 ∧ Same b (b.read k).2.2 :=
  read_spec b h k hk

/-- skipping the rest of an abandoned frame (io.CopyN to io.Discard) drops exactly n bytes -/
theorem skip_is_stream_drop (b : Buf) (h : WF b) (n : Nat) (hp : n ≤ b.pending.length) :
    (b.skip n).1 = none ∧ (b.skip n).2.pending = b.pending.drop n ∧ WF (b.skip n).2 ∧ Same b (b.skip n).2 :=
  skip_ok b h n hp

/-- unmasking is position-correct across reads of any sizes -/
theorem unmask_across_reads (k : Key) (p : Nat) (xs ys : Bytes) :
    maskFrom k p (xs ++ ys) = maskFrom k p xs ++ maskFrom k ((p + xs.length) % 4) ys := by
  rw [maskFrom_append]
  congr 1
  exact maskFrom_congr k (by omega) ys

/-- non-vacuity: a 3-byte buffer over a transport that hands out [1,2],[3,4,5]: take 2 then read 9 -/
example :
    let b : Buf := { size := 3, t := { chunks := [[1, 2], [3, 4, 5]] } }
    (b.take 2).1 = [1, 2] ∧ ((b.take 2).2.2.read 9).1 = [3, 4, 5] := by decide

end WS.Props.C03
