import WS.Lemmas.SrcLaw
import WS.Lemmas.Mask
import WS.Lemmas.ReaderDecodes
/-
  C03 — The reader decodes any conformant peer stream, however fragmented or read.
  This file: independence from transport chunking, buffer size and read sizes (the byte source is a
  plain stream). The message-level statements `read_message` / `abandon_then_next` are added from
  WS/Lemmas/ReaderDecodes.lean.
-/
namespace WS.Props.C03
open WS WS.SrcLaw

/-- header reads (Peek+Discard): whatever the transport chunking, the bufio size (≥ n) and what was
    buffered before, reading n available bytes returns exactly the next n bytes of the stream -/
theorem take_is_stream_prefix (b : Buf) (h : WF b) (n : Nat) (hn : n ≤ b.size) (hp : n ≤ b.pending.length) :
    (b.take n).1 = b.pending.take n ∧ (b.take n).2.1 = none ∧
    (b.take n).2.2.pending = b.pending.drop n ∧ WF (b.take n).2.2 ∧ Same b (b.take n).2.2 :=
  take_ok b h n hn hp

/-- payload reads: a Read of any size k ≥ 1 returns a non-empty prefix of the stream (when there is
    one), never reorders or drops bytes, and reports the transport's terminal error only after the
    last byte -/
theorem read_is_stream_prefix (b : Buf) (h : WF b) (k : Nat) (hk : 0 < k) :
    (b.read k).1 ++ (b.read k).2.2.pending = b.pending ∧ (b.read k).1.length ≤ k ∧
    (b.pending ≠ [] → (b.read k).1 ≠ []) ∧
    (∀ e, (b.read k).2.1 = some e → (b.read k).2.2.pending = [] ∧ e = b.t.term) ∧
    (b.pending = [] → (b.read k).2.1 = some b.t.term) ∧
    WF (b.read k).2.2 ∧ Same b (b.read k).2.2 :=
  read_spec b h k hk

/-- skipping the rest of an abandoned frame (io.CopyN to io.Discard) drops exactly n bytes -/
theorem skip_is_stream_drop (b : Buf) (h : WF b) (n : Nat) (hp : n ≤ b.pending.length) :
    (b.skip n).1 = none ∧ (b.skip n).2.pending = b.pending.drop n ∧ WF (b.skip n).2 ∧ Same b (b.skip n).2 :=
  skip_ok b h n hp

/-- unmasking is position-correct across reads of any sizes -/
theorem unmask_across_reads (k : Key) (p : Nat) (xs ys : Bytes) :
    maskFrom k p (xs ++ ys) = maskFrom k p xs ++ maskFrom k ((p + xs.length) % 4) ys := by
  rw [maskFrom_append]
  congr 1
  exact maskFrom_congr k (by omega) ys

open WS.ReaderDecodes in
/-- C03 (one message): from an idle reader whose pending bytes start with a conformant message —
    any fragmentation incl. empty frames, any masking keys, pings/pongs between fragments, either
    role, any bufio size ≥ 125, any transport chunking — NextReader returns its type and reading to
    the end with reads of ANY size k yields exactly its payload and then end-of-message; the reader
    is idle again right after the message and the handlers saw exactly the interleaved control
    frames, in wire order (C08: exactly once). -/
theorem read_message (c : Conn) (hc : ReaderIdle c) (t : Nat) (ht : t = 1 ∨ t = 2) (fs : List PFrame)
    (hs : MsgShape t fs) (rest : Bytes)
    (hp : c.r.buf.pending = encAll c.r.isServer fs ++ rest)
    (hend : c.r.buf.t.together = false ∨ rest ≠ [])
    (hsz : (dataPayload fs).length < 2 ^ 62)
    (hlim : c.r.limit ≤ 0 ∨ ((dataPayload fs).length : Int) ≤ c.r.limit)
    (k : Nat) (hk : 0 < k) :
    ∃ c1 rid, nextReader c = (.msg t rid false, c1) ∧
      ∃ c2, readAll c1 rid k = ((dataPayload fs, none), c2) ∧ ReaderIdle c2 ∧ c2.r.buf.pending = rest ∧
        c2.r.hlog = c.r.hlog ++ ctlEvents fs :=
  ReaderDecodes.read_message c hc t ht fs hs rest hp hend hsz hlim k hk

open WS.ReaderDecodes in
/-- C03 (abandonment): after opening a message and reading any part of it (nothing, some, or all),
    the next NextReader returns the following message, complete and unmixed -/
theorem abandon_then_next (c : Conn) (hc : ReaderIdle c) (t1 t2 : Nat) (ht1 : t1 = 1 ∨ t1 = 2) (ht2 : t2 = 1 ∨ t2 = 2)
    (fs1 fs2 : List PFrame) (hs1 : MsgShape t1 fs1) (hs2 : MsgShape t2 fs2) (rest : Bytes)
    (hp : c.r.buf.pending = encAll c.r.isServer fs1 ++ encAll c.r.isServer fs2 ++ rest)
    (hend : c.r.buf.t.together = false ∨ rest ≠ [])
    (hsz : (dataPayload fs1).length < 2 ^ 62 ∧ (dataPayload fs2).length < 2 ^ 62)
    (hlim : c.r.limit ≤ 0)
    (reads : List Nat) (k : Nat) (hk : 0 < k) :
    ∃ c1 rid1, nextReader c = (.msg t1 rid1 false, c1) ∧
      ∃ c3 rid2, nextReader (partialReads c1 rid1 reads) = (.msg t2 rid2 false, c3) ∧
        ∃ c4, readAll c3 rid2 k = ((dataPayload fs2, none), c4) ∧ ReaderIdle c4 ∧ c4.r.buf.pending = rest ∧
          c4.r.hlog = c.r.hlog ++ ctlEvents fs1 ++ ctlEvents fs2 :=
  ReaderDecodes.abandon_then_next c hc t1 t2 ht1 ht2 fs1 fs2 hs1 hs2 rest hp hend hsz hlim reads k hk

/-- non-vacuity: a 3-byte buffer over a transport that hands out [1,2],[3,4,5]: take 2 then read 9 -/
example :
    let b : Buf := { size := 3, t := { chunks := [[1, 2], [3, 4, 5]] } }
    (b.take 2).1 = [1, 2] ∧ ((b.take 2).2.2.read 9).1 = [3, 4, 5] := by decide

end WS.Props.C03
