import WS.Gen.Skeletons
/-
  C14 — translator tie: the statement text of the functions this property's model transcribes, regenerated
  from /repo by factgen on every run (WS/Gen/Skeletons.lean), equals the text the model was written against.
  A change to one of these functions breaks the obligation below; the check then searches for a failing
  input with the property's oracles (DESIGN §5).
-/
namespace WS.Props.C14Tie
open WS

/-- today's generateChallengeKey draws 16 bytes from the random source and base64-encodes them -/
theorem challenge_key_as_modelled :
    Gen.stmts_generateChallengeKey =
      ["p := make([]byte, 16)",
        "if _, err := io.ReadFull(rand.Reader, p); err != nil { return \"\", err }",
        "return base64.StdEncoding.EncodeToString(p), nil"] := by
  rfl



end WS.Props.C14Tie
