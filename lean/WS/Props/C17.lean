import WS.Lemmas.LineLaw
import WS.Model.Server
import WS.Lemmas.SrcLaw
/-
  C17 — No bytes are lost or reordered at the handshake boundary.
  brNetConn serves the hijacked reader's buffered bytes first and never over-reads; composed with
  the stream law of the connection's own bufio.Reader (C03) the Conn's byte source is
  `buffered ++ socket` on all three paths of Upgrade (reuse / wrap / nothing buffered).
-/
namespace WS.Props.C17
open WS WS.Server

/-- reads of sizes `ks` from a brNetConn: the bytes served from the hijacked buffer and the state -/
def serve (b : BrConn) : List Nat → Bytes × BrConn
  | [] => ([], b)
  | k :: ks =>
    match b.read (k + 1) with
    | (some bs, b') => let (rest, b'') := serve b' ks; (bs ++ rest, b'')
    | (none, b') => ([], b')

/-- brnetconn_stream: whatever the read sizes, the bytes served from the hijacked reader are a prefix
    of what it had buffered, in order, and what remains buffered is exactly the rest: nothing is
    lost, repeated or reordered, and the switch to the socket happens exactly when the buffer is empty -/
theorem brnetconn_stream (buf : Bytes) (hne : buf ≠ []) (ks : List Nat) :
    let (out, b') := serve ⟨some buf⟩ ks
    out ++ (b'.buffered.getD []) = buf ∧ (b'.buffered = none ∨ ∃ r, b'.buffered = some r ∧ r ≠ []) := by
  induction ks generalizing buf with
  | nil => simp [serve, hne]
  | cons k ks ih =>
    simp only [serve, BrConn.read]
    by_cases hr : (buf.drop (min (k + 1) buf.length)).isEmpty
    · simp only [hr, if_true]
      have hd : buf.drop (min (k + 1) buf.length) = [] := by simpa using hr
      cases ks with
      | nil =>
        simp [serve]
        have := List.take_append_drop (min (k + 1) buf.length) buf
        rw [hd] at this; simpa using this
      | cons k2 ks2 =>
        simp [serve, BrConn.read]
        have := List.take_append_drop (min (k + 1) buf.length) buf
        rw [hd] at this; simpa using this
    · simp only [hr]
      have hne' : buf.drop (min (k + 1) buf.length) ≠ [] := by simpa using hr
      have := ih (buf.drop (min (k + 1) buf.length)) hne'
      simp only [Bool.false_eq_true, if_false]
      revert this
      cases hs : serve ⟨some (buf.drop (min (k + 1) buf.length))⟩ ks with
      | mk out b' =>
        intro this
        simp only at this ⊢
        refine ⟨?_, this.2⟩
        rw [List.append_assoc, this.1, List.take_append_drop]

/-- never over-reads: a Read served from the buffer returns at most what is buffered and at most what
    was asked for -/
theorem brnetconn_no_overread (buf : Bytes) (k : Nat) (bs : Bytes) (b' : BrConn)
    (h : (BrConn.read ⟨some buf⟩ k) = (some bs, b')) : bs.length ≤ k ∧ bs.length ≤ buf.length := by
  simp only [BrConn.read, Prod.mk.injEq, Option.some.injEq] at h
  obtain ⟨h1, _⟩ := h
  subst h1
  simp [List.length_take]
  omega

/-- upgrade_reader_choice: the three paths of Upgrade — reuse the hijacked reader (its buffered bytes
    stay in front), wrap the connection (brNetConn serves them first), or neither when nothing is
    buffered -/
theorem upgrade_reader_choice (rbs : Int) (brSize buffered : Nat) :
    let reuse := rbs == 0 && brSize > 256
    let wrap := !reuse && buffered > 0
    (reuse = true → wrap = false) ∧ (reuse = false ∧ wrap = false → buffered = 0) := by
  simp
  constructor
  · intro h1 h2 h3
    rcases h3 with h3 | h3
    · exact absurd h1 h3
    · omega
  · intro h1 h2
    apply h2
    by_cases hz : rbs = 0
    · right; exact h1 hz
    · left; exact hz

/-- non-vacuity -/
example : (serve ⟨some [1, 2, 3, 4, 5]⟩ [1, 0, 7]).1 = [1, 2, 3, 4, 5] := by decide

open WS.SrcLaw WS.LineLaw in
/-- client side: http.ReadResponse consumes the 101 header block line by line from the connection's
    own bufio.Reader; for every chunking and buffer size exactly the header lines are consumed, so the
    first frame starts at the byte after the empty line — bytes glued to the handshake are neither
    lost nor duplicated (with C03's stream law for what follows) -/
theorem client_header_block_consumed_exactly (lines : List Bytes) (hl : ∀ l ∈ lines, (10 : UInt8) ∉ l) (b : Buf) (h : WF b) (hs : 16 ≤ b.size)
    (htot : b.pending.length ≤ b.total)
    (rest : Bytes) (hp : b.pending = block lines rest) :
    let b' := lines.foldl (fun b _ => b.readLine (2 * b.total + 2)) b
    WF b' ∧ b'.pending = rest ∧ Same b b' ∧ b'.total = b.total := by
  first | exact LineLaw.readLines_spec .. | (apply LineLaw.readLines_spec <;> assumption)

open WS.SrcLaw WS.LineLaw in
theorem readLine_spec (b : Buf) (h : WF b) (hs : 16 ≤ b.size) (line rest : Bytes) (hl : (10 : UInt8) ∉ line)
    (hp : b.pending = line ++ 10 :: rest) (fuel : Nat) (hf : 2 * b.pending.length + 2 ≤ fuel) :
    WF (b.readLine fuel) ∧ (b.readLine fuel).pending = rest ∧ Same b (b.readLine fuel) := by
  first | exact LineLaw.readLine_spec .. | (apply LineLaw.readLine_spec <;> assumption)

/-! ### non-vacuity -/
section NonVacuity
set_option linter.defProp false
open WS.SrcLaw WS.LineLaw

/-- bytes a client glued to its upgrade request, left in the hijacked bufio.Reader: a masked text
    frame "Hello" (RFC 6455 §5.7) -/
def witHij : Bytes := [0x81, 0x85, 0x37, 0xfa, 0x21, 0x3d, 0x7f, 0x9f, 0x4d, 0x51, 0x58]

/-- non-vacuity of `brnetconn_stream`: 11 buffered bytes, reads of 2, 4 and 8 bytes -/
example : let (out, b') := serve ⟨some witHij⟩ [1, 3, 7]
    out ++ (b'.buffered.getD []) = witHij ∧ (b'.buffered = none ∨ ∃ r, b'.buffered = some r ∧ r ≠ []) :=
  brnetconn_stream witHij (by decide) [1, 3, 7]
/-- non-vacuity of `brnetconn_stream`: reads that stop inside the buffer (2 and 4 bytes of 11) -/
example : let (out, b') := serve ⟨some witHij⟩ [1, 3]
    out ++ (b'.buffered.getD []) = witHij ∧ (b'.buffered = none ∨ ∃ r, b'.buffered = some r ∧ r ≠ []) :=
  brnetconn_stream witHij (by decide) [1, 3]
/-- concrete values for the `brnetconn_stream` witness -/
example : serve ⟨some witHij⟩ [1, 3] = ([0x81, 0x85, 0x37, 0xfa, 0x21, 0x3d], ⟨some [0x7f, 0x9f, 0x4d, 0x51, 0x58]⟩) := rfl

/-- non-vacuity of `brnetconn_no_overread`: a 4-byte Read (frame header peek) from the 11 buffered bytes -/
example : ([0x81, 0x85, 0x37, 0xfa] : Bytes).length ≤ 4 ∧ ([0x81, 0x85, 0x37, 0xfa] : Bytes).length ≤ witHij.length :=
  brnetconn_no_overread witHij 4 [0x81, 0x85, 0x37, 0xfa] ⟨some [0x21, 0x3d, 0x7f, 0x9f, 0x4d, 0x51, 0x58]⟩ rfl
/-- non-vacuity of `brnetconn_no_overread`: a 4096-byte Read gets only the 11 buffered bytes -/
example : witHij.length ≤ 4096 ∧ witHij.length ≤ witHij.length :=
  brnetconn_no_overread witHij 4096 witHij ⟨none⟩ rfl

/-- instance of `upgrade_reader_choice` (no hypotheses): ReadBufferSize 0, hijacked reader of 4096
    bytes with 11 bytes buffered: reuse, no wrap -/
example : ((0 : Int) == 0 && 4096 > 256) = true ∧ (!((0 : Int) == 0 && 4096 > 256) && 11 > 0) = false := by decide

/-- the header lines of the RFC 6455 sample 101 response, each without its "\n" (the last one is the
    empty line "\r\n") -/
def witLines : List Bytes :=
  [/- 'HTTP/1.1 101 Switching Protocols\r' -/
   [72, 84, 84, 80, 47, 49, 46, 49, 32, 49, 48, 49, 32, 83, 119, 105, 116, 99, 104, 105, 110, 103, 32,
    80, 114, 111, 116, 111, 99, 111, 108, 115, 13],
   /- 'Upgrade: websocket\r' -/
   [85, 112, 103, 114, 97, 100, 101, 58, 32, 119, 101, 98, 115, 111, 99, 107, 101, 116, 13],
   /- 'Connection: Upgrade\r' -/
   [67, 111, 110, 110, 101, 99, 116, 105, 111, 110, 58, 32, 85, 112, 103, 114, 97, 100, 101, 13],
   /- 'Sec-WebSocket-Accept: s3pPLMBiTxaQ9kYGzzhZRbK+xOo=\r' -/
   [83, 101, 99, 45, 87, 101, 98, 83, 111, 99, 107, 101, 116, 45, 65, 99, 99, 101, 112, 116, 58, 32,
    115, 51, 112, 80, 76, 77, 66, 105, 84, 120, 97, 81, 57, 107, 89, 71, 122, 122, 104, 90, 82, 98, 75,
    43, 120, 79, 111, 61, 13],
   /- '\r' -/
   [13]]
/-- the first bytes of the first frame (unmasked text "Hello", truncated), glued to the handshake -/
def witRest : Bytes := [129, 5, 72, 101, 108]
/-- the transport delivers the 134 bytes in four chunks: cut inside the status line, inside the
    Sec-WebSocket-Accept line, and before its "\\r\\n"; the last chunk carries the end of the
    block together with the frame bytes -/
def witChunks : List Bytes :=
  [[72, 84, 84, 80, 47, 49, 46, 49, 32, 49, 48, 49, 32, 83, 119, 105, 116, 99, 104, 105],
   [110, 103, 32, 80, 114, 111, 116, 111, 99, 111, 108, 115, 13, 10, 85, 112, 103, 114, 97, 100, 101,
    58, 32, 119, 101, 98, 115, 111, 99, 107, 101, 116, 13, 10, 67, 111, 110, 110, 101, 99, 116, 105,
    111, 110, 58, 32, 85, 112, 103, 114, 97, 100, 101, 13, 10, 83, 101, 99, 45, 87],
   [101, 98, 83, 111, 99, 107, 101, 116, 45, 65, 99, 99, 101, 112, 116, 58, 32, 115, 51, 112, 80, 76,
    77, 66, 105, 84, 120, 97, 81, 57, 107, 89, 71, 122, 122, 104, 90, 82, 98, 75, 43, 120, 79, 111, 61],
   [13, 10, 13, 10, 129, 5, 72, 101, 108]]

/-- the client connection's own bufio.Reader (4096 bytes) on top of that transport -/
def witBuf : Buf := { size := 4096, t := { chunks := witChunks }, total := 134 }
/-- the same transport under the smallest buffer the theorems allow (16 bytes: every header line but
    the last is longer than the buffer) -/
def witBuf16 : Buf := { size := 16, t := { chunks := witChunks }, total := 134 }

/-- witness for `client_header_block_consumed_exactly`: no header line contains a newline -/
def witLines_nl : ∀ l ∈ witLines, (10 : UInt8) ∉ l := by decide
/-- witness for `client_header_block_consumed_exactly` / `readLine_spec` -/
def witBuf_wf : WF witBuf := ⟨by decide, by decide, by decide, fun e h => nomatch h⟩
def witBuf16_wf : WF witBuf16 := ⟨by decide, by decide, by decide, fun e h => nomatch h⟩
def witBuf_block : witBuf.pending = block witLines witRest := by decide +kernel
def witBuf16_block : witBuf16.pending = block witLines witRest := by decide +kernel

/-- non-vacuity of `client_header_block_consumed_exactly`: 4096-byte reader, five header lines split
    over four transport chunks, frame bytes glued to the last one -/
example : let b' := witLines.foldl (fun b _ => b.readLine (2 * b.total + 2)) witBuf
    WF b' ∧ b'.pending = witRest ∧ Same witBuf b' ∧ b'.total = witBuf.total :=
  client_header_block_consumed_exactly witLines witLines_nl witBuf witBuf_wf (by decide) (by decide +kernel)
    witRest witBuf_block
/-- non-vacuity of `client_header_block_consumed_exactly`: the same with a 16-byte reader -/
example : let b' := witLines.foldl (fun b _ => b.readLine (2 * b.total + 2)) witBuf16
    WF b' ∧ b'.pending = witRest ∧ Same witBuf16 b' ∧ b'.total = witBuf16.total :=
  client_header_block_consumed_exactly witLines witLines_nl witBuf16 witBuf16_wf (by decide) (by decide +kernel)
    witRest witBuf16_block

/-- non-vacuity of `readLine_spec`: the status line of the 101 response is read from `witBuf`; what
    stays pending is the rest of the block and the frame bytes -/
example : WF (witBuf.readLine 270) ∧ (witBuf.readLine 270).pending = block witLines.tail witRest ∧
    Same witBuf (witBuf.readLine 270) :=
  readLine_spec witBuf witBuf_wf (by decide) (witLines.headD []) (block witLines.tail witRest) (by decide)
    (by decide +kernel) 270 (by decide +kernel)

end NonVacuity

end WS.Props.C17
