import WS.Lemmas.LineLaw
import WS.Model.Server
import WS.Lemmas.SrcLaw
/-
  C17 — No bytes are lost or reordered at the handshake boundary.
  brNetConn serves the hijacked reader's buffered bytes first and never over-reads; composed with
  the stream law of the connection's own bufio.Reader (C03) the Conn's byte source is
  `buffered ++ socket` on all three paths of Upgrade (reuse / wrap / nothing buffered).
-/
namespace WS.Props.C17
open WS WS.Server

/-- reads of sizes `ks` from a brNetConn: the bytes served from the hijacked buffer and the state -/
def serve (b : BrConn) : List Nat → Bytes × BrConn
  | [] => ([], b)
  | k :: ks =>
    match b.read (k + 1) with
    | (some bs, b') => let (rest, b'') := serve b' ks; (bs ++ rest, b'')
    | (none, b') => ([], b')

/-- brnetconn_stream: whatever the read sizes, the bytes served from the hijacked reader are a prefix
    of what it had buffered, in order, and what remains buffered is exactly the rest: nothing is
    lost, repeated or reordered, and the switch to the socket happens exactly when the buffer is empty -/
theorem brnetconn_stream (buf : Bytes) (hne : buf ≠ []) (ks : List Nat) :
    let (out, b') := serve ⟨some buf⟩ ks
    out ++ (b'.buffered.getD []) = buf ∧ (b'.buffered = none ∨ ∃ r, b'.buffered = some r ∧ r ≠ []) := by
  induction ks generalizing buf with
  | nil => simp [serve, hne]
  | cons k ks ih =>
    simp only [serve, BrConn.read]
    by_cases hr : (buf.drop (min (k + 1) buf.length)).isEmpty
    · simp only [hr, if_true]
      have hd : buf.drop (min (k + 1) buf.length) = [] := by simpa using hr
      cases ks with
      | nil =>
        simp [serve]
        have := List.take_append_drop (min (k + 1) buf.length) buf
        rw [hd] at this; simpa using this
      | cons k2 ks2 =>
        simp [serve, BrConn.read]
        have := List.take_append_drop (min (k + 1) buf.length) buf
        rw [hd] at this; simpa using this
    · simp only [hr]
      have hne' : buf.drop (min (k + 1) buf.length) ≠ [] := by simpa using hr
      have := ih (buf.drop (min (k + 1) buf.length)) hne'
      simp only [Bool.false_eq_true, if_false]
      revert this
      cases hs : serve ⟨some (buf.drop (min (k + 1) buf.length))⟩ ks with
      | mk out b' =>
        intro this
        simp only at this ⊢
        refine ⟨?_, this.2⟩
        rw [List.append_assoc, this.1, List.take_append_drop]

/-- never over-reads: a Read served from the buffer returns at most what is buffered and at most what
    was asked for -/
theorem brnetconn_no_overread (buf : Bytes) (k : Nat) (bs : Bytes) (b' : BrConn)
    (h : (BrConn.read ⟨some buf⟩ k) = (some bs, b')) : bs.length ≤ k ∧ bs.length ≤ buf.length := by
  simp only [BrConn.read, Prod.mk.injEq, Option.some.injEq] at h
  obtain ⟨h1, _⟩ := h
  subst h1
  simp [List.length_take]
  omega

/-- upgrade_reader_choice: the three paths of Upgrade — reuse the hijacked reader (its buffered bytes
    stay in front), wrap the connection (brNetConn serves them first), or neither when nothing is
    buffered -/
theorem upgrade_reader_choice (rbs : Int) (brSize buffered : Nat) :
    let reuse := rbs == 0 && brSize > 256
    let wrap := !reuse && buffered > 0
    (reuse = true → wrap = false) ∧ (reuse = false ∧ wrap = false → buffered = 0) := by
  simp
  constructor
  · intro h1 h2 h3
    rcases h3 with h3 | h3
    · exact absurd h1 h3
    · omega
  · intro h1 h2
    apply h2
    by_cases hz : rbs = 0
    · right; exact h1 hz
    · left; exact hz

/-- non-vacuity -/
example : (serve ⟨some [1, 2, 3, 4, 5]⟩ [1, 0, 7]).1 = [1, 2, 3, 4, 5] := by decide

open WS.SrcLaw WS.LineLaw in
/-- client side: http.ReadResponse consumes the 101 header block line by line from the connection's
    own bufio.Reader; for every chunking and buffer size exactly the header lines are consumed, so the
    first frame starts at the byte after the empty line — bytes glued to the handshake are neither
    lost nor duplicated (with C03's stream law for what follows) -/
theorem client_header_block_consumed_exactly (lines : List Bytes) (hl : ∀ l ∈ lines, (10 : UInt8) ∉ l) (b : Buf) (h : WF b) (hs : 16 ≤ b.size)
    (htot : b.pending.length ≤ b.total)
    (rest : Bytes) (hp : b.pending = block lines rest) :
    let b' := lines.foldl (fun b _ => b.readLine (2 * b.total + 2)) b
    WF b' ∧ b'.pending = rest ∧ Same b b' ∧ b'.total = b.total := by
  first | exact LineLaw.readLines_spec .. | (apply LineLaw.readLines_spec <;> assumption)

open WS.SrcLaw WS.LineLaw in
theorem readLine_spec (b : Buf) (h : WF b) (hs : 16 ≤ b.size) (line rest : Bytes) (hl : (10 : UInt8) ∉ line)
    (hp : b.pending = line ++ 10 :: rest) (fuel : Nat) (hf : 2 * b.pending.length + 2 ≤ fuel) :
    WF (b.readLine fuel) ∧ (b.readLine fuel).pending = rest ∧ Same b (b.readLine fuel) := by
  first | exact LineLaw.readLine_spec .. | (apply LineLaw.readLine_spec <;> assumption)

end WS.Props.C17
