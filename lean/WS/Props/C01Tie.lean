import WS.Gen.Skeletons
/-
  C01 — translator tie: the statement text of the functions this property's model transcribes, regenerated
  from /repo by factgen on every run (WS/Gen/Skeletons.lean), equals the text the model was written against.
  A change to one of these functions breaks the obligation below; the check then searches for a failing
  input with the property's oracles (DESIGN §5).
-/
namespace WS.Props.C01Tie
open WS

/-- today's message writer (ncopy, Write, WriteString, ReadFrom, Close), NextWriter, WriteMessage and the constructor are the ones the model transcribes -/
theorem writer_path_as_modelled :
    Gen.stmts_ncopy =
      ["n := len(w.c.writeBuf) - w.pos",
        "if n <= 0 { if err := w.flushFrame(false, nil); err != nil { return 0, err } n = len(w.c.writeBuf) - w.pos }",
        "if n > max { n = max }",
        "return n, nil"] ∧
    Gen.stmts_mwWrite =
      ["if w.err != nil { return 0, w.err }",
        "if len(p) > 2*len(w.c.writeBuf) && w.c.isServer { err := w.flushFrame(false, p) if err != nil { return 0, err } return len(p), nil }",
        "nn := len(p)",
        "for len(p) > 0 { n, err := w.ncopy(len(p)) if err != nil { return 0, err } copy(w.c.writeBuf[w.pos:], p[:n]) w.pos += n p = p[n:] }",
        "return nn, nil"] ∧
    Gen.stmts_mwWriteString =
      ["if w.err != nil { return 0, w.err }",
        "nn := len(p)",
        "for len(p) > 0 { n, err := w.ncopy(len(p)) if err != nil { return 0, err } copy(w.c.writeBuf[w.pos:], p[:n]) w.pos += n p = p[n:] }",
        "return nn, nil"] ∧
    Gen.stmts_mwReadFrom =
      ["if w.err != nil { return 0, w.err }",
        "for { if w.pos == len(w.c.writeBuf) { err = w.flushFrame(false, nil) if err != nil { break } } var n int n, err = r.Read(w.c.writeBuf[w.pos:]) w.pos += n nn += int64(n) if err != nil { if err == io.EOF { err = nil } break } }",
        "return nn, err"] ∧
    Gen.stmts_mwClose =
      ["if w.err != nil { return w.err }",
        "return w.flushFrame(true, nil)"] ∧
    Gen.stmts_NextWriter =
      ["var mw messageWriter",
        "if err := c.beginMessage(&mw, messageType); err != nil { return nil, err }",
        "c.writer = &mw",
        "if c.newCompressionWriter != nil && c.enableWriteCompression && isData(messageType) { w := c.newCompressionWriter(c.writer, c.compressionLevel) mw.compress = true c.writer = w }",
        "return c.writer, nil"] ∧
    Gen.stmts_WriteMessage =
      ["if c.isServer && (c.newCompressionWriter == nil || !c.enableWriteCompression) { var mw messageWriter if err := c.beginMessage(&mw, messageType); err != nil { return err } n := copy(c.writeBuf[mw.pos:], data) mw.pos += n data = data[n:] return mw.flushFrame(true, data) }",
        "w, err := c.NextWriter(messageType)",
        "if err != nil { return err }",
        "if _, err = w.Write(data); err != nil { return err }",
        "return w.Close()"] ∧
    Gen.stmts_newConn =
      ["if br == nil { if readBufferSize == 0 { readBufferSize = defaultReadBufferSize } else if readBufferSize < maxControlFramePayloadSize { readBufferSize = maxControlFramePayloadSize } br = bufio.NewReaderSize(conn, readBufferSize) }",
        "if writeBufferSize <= 0 { writeBufferSize = defaultWriteBufferSize } else if writeBufferSize < maxControlFramePayloadSize { writeBufferSize = maxControlFramePayloadSize }",
        "writeBufferSize += maxFrameHeaderSize",
        "if writeBuf == nil && writeBufferPool == nil { writeBuf = make([]byte, writeBufferSize) }",
        "mu := make(chan struct{}, 1)",
        "mu <- struct{}{}",
        "c := &Conn{ isServer: isServer, br: br, conn: conn, mu: mu, readFinal: true, writeBuf: writeBuf, writePool: writeBufferPool, writeBufSize: writeBufferSize, enableWriteCompression: true, compressionLevel: defaultCompressionLevel, }",
        "c.SetCloseHandler(nil)",
        "c.SetPingHandler(nil)",
        "c.SetPongHandler(nil)",
        "return c"] := by
  refine ⟨?_, ?_, ?_, ?_, ?_, ?_, ?_, ?_⟩ <;> rfl


/-- today's maskBytes (word-at-a-time) is the one C01.mask_words_eq_bytes is about -/
theorem maskBytes_as_modelled :
    Gen.stmts_maskBytes =
      ["if len(b) < 2*wordSize { for i := range b { b[i] ^= key[pos&3] pos++ } return pos & 3 }",
        "if n := int(uintptr(unsafe.Pointer(&b[0]))) % wordSize; n != 0 { n = wordSize - n for i := range b[:n] { b[i] ^= key[pos&3] pos++ } b = b[n:] }",
        "// Create aligned word size key. var k [wordSize]byte",
        "for i := range k { k[i] = key[(pos+i)&3] }",
        "kw := *(*uintptr)(unsafe.Pointer(&k))",
        "n := (len(b) / wordSize) * wordSize",
        "for i := 0; i < n; i += wordSize { *(*uintptr)(unsafe.Pointer(uintptr(unsafe.Pointer(&b[0])) + uintptr(i))) ^= kw }",
        "b = b[n:]",
        "for i := range b { b[i] ^= key[pos&3] pos++ }",
        "return pos & 3"] := by
  rfl


/-- today's WriteJSON / ReadJSON (thin wrappers around NextWriter / NextReader) and the functions that put compress/flate around the message writer / reader are the modelled ones -/
theorem json_and_deflate_plumbing_as_modelled :
    Gen.stmts_WriteJSON =
      ["w, err := c.NextWriter(TextMessage)",
        "if err != nil { return err }",
        "err1 := json.NewEncoder(w).Encode(v)",
        "err2 := w.Close()",
        "if err1 != nil { return err1 }",
        "return err2"] ∧
    Gen.stmts_ReadJSON =
      ["_, r, err := c.NextReader()",
        "if err != nil { return err }",
        "err = json.NewDecoder(r).Decode(v)",
        "if err == io.EOF { err = io.ErrUnexpectedEOF }",
        "return err"] ∧
    Gen.stmts_compressNCT =
      ["p := &flateWriterPools[level-minCompressionLevel]",
        "tw := &truncWriter{w: w}",
        "fw, _ := p.Get().(*flate.Writer)",
        "if fw == nil { fw, _ = flate.NewWriter(tw, level) } else { fw.Reset(tw) }",
        "return &flateWriteWrapper{fw: fw, tw: tw, p: p}"] ∧
    Gen.stmts_decompressNCT =
      ["const tail = \"\\x00\\x00\\xff\\xff\" + \"\\x01\\x00\\x00\\xff\\xff\"",
        "fr, _ := flateReaderPool.Get().(io.ReadCloser)",
        "mr := io.MultiReader(r, strings.NewReader(tail))",
        "if err := fr.(flate.Resetter).Reset(mr, nil); err != nil { fr = flate.NewReader(mr) }",
        "return &flateReadWrapper{fr: fr, src: mr}"] := by
  refine ⟨?_, ?_, ?_, ?_⟩ <;> rfl


end WS.Props.C01Tie
