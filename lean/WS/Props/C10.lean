import WS.Lemmas.AuditGaps
import WS.Lemmas.Writer
import WS.Lemmas.WireInv
import WS.Lemmas.WriterExtras
/-
  C10 — Write failures are fail-stop; bad requests write nothing; deadlines are applied.
-/
namespace WS.Props.C10
open WS WS.WireInv

/-- fail-stop: once any transport call has failed (or a close was sent) the sticky error is set, and
    from then on no operation of the write API reaches the transport or changes the error -/
theorem fault_failstop (s : W) (ops : List Op) (h : s.writeErr.isSome) :
    (run s ops).wire = s.wire ∧ (run s ops).tcalls = s.tcalls ∧ (run s ops).writeErr = s.writeErr := by
  have := run_of_err s ops h
  exact ⟨core_wire this, core_tcalls this, core_writeErr this⟩

/-- … and every later message-level write, including Close of a writer opened before, fails -/
theorem later_writes_fail (s : W) (h : s.writeErr.isSome) :
    (∀ t dnp fullp, ∃ e, (nextWriter s t dnp fullp).1 = .error e) ∧
    (∀ t data dnp fullp dn full, (writeMessage s t data dnp fullp dn full).1.isSome) ∧
    (∀ enc dnp fullp dn full, (writeJSON s enc dnp fullp dn full).1.isSome) ∧
    (∀ t data d, (writeControl s t data d).1.isSome) ∧
    (∀ t img dnp fullp, (writePreparedImage s t img dnp fullp).1.isSome) ∧
    (∀ hd dn full, (hClose s hd dn full).1.isSome) :=
  ⟨fun t dnp fullp => (nextWriter_of_err s t dnp fullp h).1,
   fun t data dnp fullp dn full => (writeMessage_of_err s t data dnp fullp dn full h).1,
   fun enc dnp fullp dn full => (writeJSON_of_err s enc dnp fullp dn full h).1,
   fun t data d => (writeControl_of_err s t data d h).1,
   fun t img dnp fullp => (writePreparedImage_of_err s t img dnp fullp h).1,
   fun hd dn full => (hClose_of_err s hd dn full h).1⟩

/-- for every program, every fault script (error, timeout, short write at any transport call) and
    every environment answer: the bytes the transport accepted are whole frames followed by at
    most one incomplete write, and an incomplete write exists only if the sticky error is set -/
theorem wire_frames_then_partial (s0 : W) (h0 : Fresh s0) (ops : List Op) (hops : ∀ op ∈ ops, OpOK s0.isServer op) :
    Decomposes s0.isServer (run s0 ops).wire ((run s0 ops).writeErr.isNone) :=
  wire_decomposes s0 h0 ops hops

/-- invalid requests are harmless: a bad message type or an oversized control payload given to
    WriteControl changes nothing at all -/
theorem invalid_control_request_harmless (s : W) (t : Int) (data : Bytes) (d : Int) :
    (isControl t = false → writeControl s t data d = (some .badOpcode, s)) ∧
    (isControl t = true → 125 < data.length → writeControl s t data d = (some .invalidControl, s)) :=
  ⟨WriterExtras.writeControl_badType s t data d, WriterExtras.writeControl_tooLong s t data d⟩

/-- a bad message type given to NextWriter / WriteMessage: an error, and the only effect is the
    implicit close of a previously open writer (which belongs to that earlier message) -/
theorem invalid_type_request_harmless (s : W) (t : Int) (data : Bytes) (dnp : List Bytes) (fullp : Bytes) (dn : List Bytes) (full : Bytes)
    (ht : isControl t = false ∧ isData t = false) :
    (nextWriter s t dnp fullp).1 = .error .badOpcode ∧ (nextWriter s t dnp fullp).2 = closePrev s dnp fullp ∧
    (writeMessage s t data dnp fullp dn full).1 = some .badOpcode ∧
    (writeMessage s t data dnp fullp dn full).2 = closePrev s dnp fullp :=
  ⟨(WriterExtras.nextWriter_badType s t dnp fullp ht).1, (WriterExtras.nextWriter_badType s t dnp fullp ht).2,
   (WriterExtras.writeMessage_badType s t data dnp fullp dn full ht).1, (WriterExtras.writeMessage_badType s t data dnp fullp dn full ht).2⟩

/-- a control message over 125 bytes, or one that would need a second frame, is refused before any
    byte is produced: no transport call, sticky error untouched -/
theorem fragmented_control_harmless (s : W) (m : MW) (final : Bool) (extra : Bytes)
    (hc : isControl m.ft = true) (hbad : final = false ∨ 125 < m.buf.length + extra.length) :
    (flushFrame s m final extra).1 = some .invalidControl ∧ (flushFrame s m final extra).2.1.core = s.core :=
  WriterExtras.flushFrame_invalidControl s m final extra hc hbad

/-- deadlines are applied: every frame a message writer flushes goes out as `SetWriteDeadline d`
    followed only by Write calls, with d the value last given to SetWriteDeadline … -/
theorem deadline_applied_frames (s : W) (m : MW) (final : Bool) (extra : Bytes) :
    ∃ evs, (frameWrite s m final extra).2.log = s.log ++ evs ∧
      (evs = [] ∨ ∃ f, evs.head? = some (.swd s.deadline f)) ∧
      (∀ e ∈ evs.drop 1, ∃ b n f, e = .wr b n f) :=
  WriterExtras.frameWrite_deadline s m final extra

/-- … and WriteControl writes under its own deadline argument, zero included -/
theorem deadline_applied_control (s : W) (t : Int) (data : Bytes) (d : Int) :
    ∃ evs, (writeControl s t data d).2.log = s.log ++ evs ∧
      (evs = [] ∨ ∃ f, evs.head? = some (.swd d f)) ∧
      (∀ e ∈ evs.drop 1, ∃ b n f, e = .wr b n f) :=
  WriterExtras.writeControl_deadline s t data d

/-- non-vacuity: a short write at the second transport call leaves a strict prefix and sets the error -/
example :
    let s0 : W := { newW true 16 false false with faults := [(1, .short 3 7)] }
    (writeMessage s0 2 [9, 9, 9, 9, 9]).2.wire = [130, 5, 9] ∧ (writeMessage s0 2 [9, 9, 9, 9, 9]).2.writeErr = some (.transport 7) := by
  decide

open WS.Codec WS.ReaderDecodes WS.RoleGeneric WS.AuditGaps in
/-- fault ⇒ sticky: whatever makes a frame write fail — the sticky error, a failing SetWriteDeadline, a failing
    or short transport write — the connection's sticky write error is set afterwards … -/
theorem connWrite_error_is_sticky (s : W) (ft d : Int) (b0 b1 : Bytes) (h : (connWrite s ft d b0 b1).1.isSome) :
    (connWrite s ft d b0 b1).2.writeErr.isSome := by
  first | exact AuditGaps.connWrite_error_is_sticky .. | (apply AuditGaps.connWrite_error_is_sticky <;> assumption)

open WS.Codec WS.ReaderDecodes WS.RoleGeneric WS.AuditGaps in
/-- … and on a connection that was healthy it is exactly the error that was returned -/
theorem connWrite_error_latched (s : W) (ft d : Int) (b0 b1 : Bytes) (e : WErr) (hs : s.writeErr = none)
    (h : (connWrite s ft d b0 b1).1 = some e) : (connWrite s ft d b0 b1).2.writeErr = some e := by
  first | exact AuditGaps.connWrite_error_latched .. | (apply AuditGaps.connWrite_error_latched <;> assumption)


/-! ### non-vacuity -/
section NonVacuity
set_option linter.defProp false


/-- a client connection, write buffer 4096, two masking keys, and a fault script: the 4th transport
    call (the Write of the second frame) accepts 3 bytes and then fails with error 7 -/
def witF : W := { newW false 4096 false false with keys := [0x37, 0xfa, 0x21, 0x3d, 1, 2, 3, 4], faults := [(3, .short 3 7)] }

/-- witness for `wire_frames_then_partial`: the constructor state is `Fresh` -/
def witF_fresh : Fresh witF := ⟨rfl, rfl, rfl, rfl, rfl, by decide, by decide⟩

/-- WriteControl(ping "hi"); NextWriter(text); Write "Hello"; Close — hits the fault; WriteMessage(binary);
    WriteControl(pong) -/
def witFOps : List Op :=
  [.writeControl 9 [104, 105] 0, .nextWriter 1 [] [], .write 0 [72, 101, 108, 108, 111] [] false,
   .close 0 [] [], .writeMessage 2 [1, 2, 3] [] [] [] [], .writeControl 10 [104, 105] 0]

/-- witness for `wire_frames_then_partial`: every operation satisfies the size conditions -/
def witFOps_ok : ∀ op ∈ witFOps, OpOK witF.isServer op := by
  intro op h
  simp [witFOps] at h
  rcases h with rfl | rfl | rfl | rfl | rfl | rfl <;> simp [OpOK]

/-- non-vacuity of `wire_frames_then_partial`: all hypotheses hold for a client (buffer 4096) with a short
    write at the 4th transport call running a six-operation program, and the theorem applies -/
example : Decomposes false (run witF witFOps).wire ((run witF witFOps).writeErr.isNone) :=
  wire_frames_then_partial witF witF_fresh witFOps witFOps_ok

/-- … and on that run (witness of `wire_frames_then_partial`) the wire is the whole ping frame followed by 3 bytes of the text frame; the error is sticky -/
example : (run witF witFOps).wire = [137, 130, 55, 250, 33, 61, 95, 147, 129, 133, 1] ∧
    (run witF witFOps).writeErr = some (.transport 7) := by decide +kernel

/-- the connection after the failed Close: sticky error set, a partial frame on the wire -/
def witFailed : W := run witF (witFOps.take 4)

/-- witness for `fault_failstop`, `later_writes_fail`: the sticky error is set -/
def witFailed_err : witFailed.writeErr.isSome := by decide +kernel

/-- non-vacuity of `fault_failstop`: the hypothesis holds for the failed client, and the theorem applies to
    a program of three further operations -/
example : (run witFailed (witFOps.drop 3)).wire = witFailed.wire ∧ (run witFailed (witFOps.drop 3)).tcalls = witFailed.tcalls ∧
    (run witFailed (witFOps.drop 3)).writeErr = witFailed.writeErr :=
  fault_failstop witFailed (witFOps.drop 3) witFailed_err

/-- non-vacuity of `later_writes_fail`: the hypothesis holds for the failed client, and the theorem applies
    (e.g. a later WriteMessage fails) -/
example : (writeMessage witFailed 2 [1, 2, 3] [] [] [] []).1.isSome :=
  (later_writes_fail witFailed witFailed_err).2.1 2 [1, 2, 3] [] [] [] []

/-- a healthy client with a text message writer open (3 bytes buffered) -/
def witOpen : W := run { witF with faults := [] } (witFOps.take 3)

/-- … it really has writer 0 open and no error (state used for `invalid_type_request_harmless`) -/
example : witOpen.writer = some 0 ∧ witOpen.writeErr = none := by decide +kernel

/-- instances of `invalid_control_request_harmless` (no hypotheses; both premises of its conclusion are
    satisfiable): WriteControl with a data type, and with a 126-byte ping -/
example : writeControl witOpen 1 [104, 105] 0 = (some .badOpcode, witOpen) :=
  (invalid_control_request_harmless witOpen 1 [104, 105] 0).1 (by decide)
/-- instance of `invalid_control_request_harmless`: a 126-byte ping is refused, nothing changes -/
example : writeControl witOpen 9 (List.replicate 126 0) 0 = (some .invalidControl, witOpen) :=
  (invalid_control_request_harmless witOpen 9 (List.replicate 126 0) 0).2 (by decide) (by rw [List.length_replicate]; decide)

/-- non-vacuity of `invalid_type_request_harmless`: message type 7 is neither control nor data; applied to
    the client with an open writer -/
example :
    (nextWriter witOpen 7 [] []).1 = .error .badOpcode ∧ (nextWriter witOpen 7 [] []).2 = closePrev witOpen [] [] ∧
    (writeMessage witOpen 7 [1, 2, 3] [] [] [] []).1 = some .badOpcode ∧
    (writeMessage witOpen 7 [1, 2, 3] [] [] [] []).2 = closePrev witOpen [] [] :=
  invalid_type_request_harmless witOpen 7 [1, 2, 3] [] [] [] [] (by decide)

/-- a ping message writer holding 100 bytes -/
def witPingMW : MW := { ft := 9, buf := List.replicate 100 0 }

/-- non-vacuity of `fragmented_control_harmless` (payload too long: 100 buffered + 30 extra > 125) -/
example : (flushFrame witOpen witPingMW true (List.replicate 30 0)).1 = some .invalidControl ∧
    (flushFrame witOpen witPingMW true (List.replicate 30 0)).2.1.core = witOpen.core :=
  fragmented_control_harmless witOpen witPingMW true (List.replicate 30 0) (by decide) (Or.inr (by decide))

/-- non-vacuity of `fragmented_control_harmless` (a non-final control frame) -/
example : (flushFrame witOpen witPingMW false []).1 = some .invalidControl ∧
    (flushFrame witOpen witPingMW false []).2.1.core = witOpen.core :=
  fragmented_control_harmless witOpen witPingMW false [] (by decide) (Or.inl rfl)

/-! `connWrite_error_is_sticky`, `connWrite_error_latched`: one frame write that fails -/

/-- a healthy client (buffer 4096) whose transport fails the very first call — the SetWriteDeadline of the
    first frame — with error 41 -/
def witSwdFault : W :=
  { newW false 4096 false false with keys := [0x37, 0xfa, 0x21, 0x3d, 1, 2, 3, 4], faults := [(0, .fail 41)] }
/-- the masked ping "hi" as WriteControl would build it there -/
def witPingFrame : Bytes := controlFrame false 9 [104, 105] (newKey witSwdFault).1
example : witPingFrame = [0x89, 0x82, 0x37, 0xfa, 0x21, 0x3d, 104 ^^^ 0x37, 105 ^^^ 0xfa] := by decide

/-- witness: Conn.write(ping, deadline 5) returns the transport's error 41 -/
def witSwdFault_fails : (connWrite witSwdFault 9 5 witPingFrame []).1 = some (.transport 41) := by decide

/-- non-vacuity of `connWrite_error_is_sticky` (failing SetWriteDeadline) -/
example : (connWrite witSwdFault 9 5 witPingFrame []).2.writeErr.isSome :=
  connWrite_error_is_sticky witSwdFault 9 5 witPingFrame [] (by rw [witSwdFault_fails]; rfl)
/-- non-vacuity of `connWrite_error_latched` (failing SetWriteDeadline): the connection was healthy, error 41 is
    returned, and exactly it is latched -/
example : (connWrite witSwdFault 9 5 witPingFrame []).2.writeErr = some (.transport 41) :=
  connWrite_error_latched witSwdFault 9 5 witPingFrame [] (.transport 41) rfl witSwdFault_fails
/-- evaluated: nothing reached the wire, one transport call was made (the failed SetWriteDeadline(5)) -/
example : (connWrite witSwdFault 9 5 witPingFrame []).2.wire = [] ∧ (connWrite witSwdFault 9 5 witPingFrame []).2.tcalls = 1 ∧
    (connWrite witSwdFault 9 5 witPingFrame []).2.log = [.swd 5 (some 41)] := by decide

/-- the client `witF` after its ping went out (two transport calls made, still healthy); the next Write — the
    4th transport call — is scripted to accept 3 bytes and fail with error 7 -/
def witF1 : W := run witF (witFOps.take 1)
example : witF1.writeErr = none ∧ witF1.tcalls = 2 ∧ witF1.wire.length = 8 := by decide +kernel
/-- a masked text frame "Hello" (second key) in two buffers: header + key, masked payload -/
def witTextHdr : Bytes := [0x81, 0x85, 1, 2, 3, 4]
def witTextBody : Bytes := [72 ^^^ 1, 101 ^^^ 2, 108 ^^^ 3, 108 ^^^ 4, 111 ^^^ 1]

/-- witness: the short Write makes Conn.write return error 7 -/
def witF1_fails : (connWrite witF1 1 0 witTextHdr witTextBody).1 = some (.transport 7) := by decide +kernel

/-- non-vacuity of `connWrite_error_is_sticky` (short transport write, data frame, two buffers) -/
example : (connWrite witF1 1 0 witTextHdr witTextBody).2.writeErr.isSome :=
  connWrite_error_is_sticky witF1 1 0 witTextHdr witTextBody (by rw [witF1_fails]; rfl)
/-- non-vacuity of `connWrite_error_latched` (short transport write) -/
example : (connWrite witF1 1 0 witTextHdr witTextBody).2.writeErr = some (.transport 7) :=
  connWrite_error_latched witF1 1 0 witTextHdr witTextBody (.transport 7) (by decide +kernel) witF1_fails
/-- evaluated: three bytes of the header buffer were accepted, the second buffer was never offered -/
example : (connWrite witF1 1 0 witTextHdr witTextBody).2.wire = witF1.wire ++ [0x81, 0x85, 1] ∧
    (connWrite witF1 1 0 witTextHdr witTextBody).2.tcalls = 4 := by decide +kernel

/-- a healthy server whose transport fails the Write of the SECOND buffer (3rd transport call) outright, error 43 -/
def witSrvFault : W := { newW true 4096 false false with faults := [(2, .fail 43)] }
/-- non-vacuity of `connWrite_error_latched` / `connWrite_error_is_sticky` (failing Write, a close frame 1000 in two
    buffers): the close frame did not go out completely, so the error latched is the transport's, not ErrCloseSent -/
example : (connWrite witSrvFault 8 0 [0x88, 0x02] [3, 232]).2.writeErr = some (.transport 43) :=
  connWrite_error_latched witSrvFault 8 0 [0x88, 0x02] [3, 232] (.transport 43) rfl (by decide)
example : (connWrite witSrvFault 8 0 [0x88, 0x02] [3, 232]).2.writeErr.isSome :=
  connWrite_error_is_sticky witSrvFault 8 0 [0x88, 0x02] [3, 232] (by decide)
example : (connWrite witSrvFault 8 0 [0x88, 0x02] [3, 232]).2.wire = [0x88, 0x02] := by decide

/-- `connWrite_error_is_sticky` on a connection that is already failed (the sticky error itself is what is
    returned): `witFailed` -/
example : (connWrite witFailed 1 0 witTextHdr witTextBody).2.writeErr.isSome :=
  connWrite_error_is_sticky witFailed 1 0 witTextHdr witTextBody (by decide +kernel)

end NonVacuity

end WS.Props.C10
