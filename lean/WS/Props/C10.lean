import WS.Lemmas.Writer
import WS.Lemmas.WireInv
import WS.Lemmas.WriterExtras
/-
  C10 — Write failures are fail-stop; bad requests write nothing; deadlines are applied.
-/
namespace WS.Props.C10
open WS WS.WireInv

/-- fail-stop: once any transport call has failed (or a close was sent) the sticky error is set, and
    from then on no operation of the write API reaches the transport or changes the error -/
theorem fault_failstop (s : W) (ops : List Op) (h : s.writeErr.isSome) :
    (run s ops).wire = s.wire ∧ (run s ops).tcalls = s.tcalls ∧ (run s ops).writeErr = s.writeErr := by
  have := run_of_err s ops h
  exact ⟨core_wire this, core_tcalls this, core_writeErr this⟩

/-- … and every later message-level write, including Close of a writer opened before, fails -/
theorem later_writes_fail (s : W) (h : s.writeErr.isSome) :
    (∀ t dnp fullp, ∃ e, (nextWriter s t dnp fullp).1 = .error e) ∧
    (∀ t data dnp fullp dn full, (writeMessage s t data dnp fullp dn full).1.isSome) ∧
    (∀ enc dnp fullp dn full, (writeJSON s enc dnp fullp dn full).1.isSome) ∧
    (∀ t data d, (writeControl s t data d).1.isSome) ∧
    (∀ t img, (writePreparedImage s t img).1.isSome) ∧
    (∀ hd dn full, (hClose s hd dn full).1.isSome) :=
  ⟨fun t dnp fullp => (nextWriter_of_err s t dnp fullp h).1,
   fun t data dnp fullp dn full => (writeMessage_of_err s t data dnp fullp dn full h).1,
   fun enc dnp fullp dn full => (writeJSON_of_err s enc dnp fullp dn full h).1,
   fun t data d => (writeControl_of_err s t data d h).1,
   fun t img => (writePreparedImage_of_err s t img h).1,
   fun hd dn full => (hClose_of_err s hd dn full h).1⟩

/-- for every program, every fault script (error, timeout, short write at any transport call) and
    every environment answer: the bytes the transport accepted are whole frames followed by at
    most one incomplete write, and an incomplete write exists only if the sticky error is set -/
theorem wire_frames_then_partial (s0 : W) (h0 : Fresh s0) (ops : List Op) (hops : ∀ op ∈ ops, OpOK s0.isServer op) :
    Decomposes s0.isServer (run s0 ops).wire ((run s0 ops).writeErr.isNone) :=
  wire_decomposes s0 h0 ops hops

/-- invalid requests are harmless: a bad message type or an oversized control payload given to
    WriteControl changes nothing at all -/
theorem invalid_control_request_harmless (s : W) (t : Int) (data : Bytes) (d : Int) :
    (isControl t = false → writeControl s t data d = (some .badOpcode, s)) ∧
    (isControl t = true → 125 < data.length → writeControl s t data d = (some .invalidControl, s)) :=
  ⟨WriterExtras.writeControl_badType s t data d, WriterExtras.writeControl_tooLong s t data d⟩

/-- a bad message type given to NextWriter / WriteMessage: an error, and the only effect is the
    implicit close of a previously open writer (which belongs to that earlier message) -/
theorem invalid_type_request_harmless (s : W) (t : Int) (data : Bytes) (dnp : List Bytes) (fullp : Bytes) (dn : List Bytes) (full : Bytes)
    (ht : isControl t = false ∧ isData t = false) :
    (nextWriter s t dnp fullp).1 = .error .badOpcode ∧ (nextWriter s t dnp fullp).2 = closePrev s dnp fullp ∧
    (writeMessage s t data dnp fullp dn full).1 = some .badOpcode ∧
    (writeMessage s t data dnp fullp dn full).2 = closePrev s dnp fullp :=
  ⟨(WriterExtras.nextWriter_badType s t dnp fullp ht).1, (WriterExtras.nextWriter_badType s t dnp fullp ht).2,
   (WriterExtras.writeMessage_badType s t data dnp fullp dn full ht).1, (WriterExtras.writeMessage_badType s t data dnp fullp dn full ht).2⟩

/-- a control message over 125 bytes, or one that would need a second frame, is refused before any
    byte is produced: no transport call, sticky error untouched -/
theorem fragmented_control_harmless (s : W) (m : MW) (final : Bool) (extra : Bytes)
    (hc : isControl m.ft = true) (hbad : final = false ∨ 125 < m.buf.length + extra.length) :
    (flushFrame s m final extra).1 = some .invalidControl ∧ (flushFrame s m final extra).2.1.core = s.core :=
  WriterExtras.flushFrame_invalidControl s m final extra hc hbad

/-- deadlines are applied: every frame a message writer flushes goes out as `SetWriteDeadline d`
    followed only by Write calls, with d the value last given to SetWriteDeadline … -/
theorem deadline_applied_frames (s : W) (m : MW) (final : Bool) (extra : Bytes) :
    ∃ evs, (frameWrite s m final extra).2.log = s.log ++ evs ∧
      (evs = [] ∨ ∃ f, evs.head? = some (.swd s.deadline f)) ∧
      (∀ e ∈ evs.drop 1, ∃ b n f, e = .wr b n f) :=
  WriterExtras.frameWrite_deadline s m final extra

/-- … and WriteControl writes under its own deadline argument, zero included -/
theorem deadline_applied_control (s : W) (t : Int) (data : Bytes) (d : Int) :
    ∃ evs, (writeControl s t data d).2.log = s.log ++ evs ∧
      (evs = [] ∨ ∃ f, evs.head? = some (.swd d f)) ∧
      (∀ e ∈ evs.drop 1, ∃ b n f, e = .wr b n f) :=
  WriterExtras.writeControl_deadline s t data d

/-- non-vacuity: a short write at the second transport call leaves a strict prefix and sets the error -/
example :
    let s0 : W := { newW true 16 false false with faults := [(1, .short 3 7)] }
    (writeMessage s0 2 [9, 9, 9, 9, 9]).2.wire = [130, 5, 9] ∧ (writeMessage s0 2 [9, 9, 9, 9, 9]).2.writeErr = some (.transport 7) := by
  decide

end WS.Props.C10
