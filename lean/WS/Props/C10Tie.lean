import WS.Gen.Skeletons
/-
  C10 — translator tie: the statement text of the functions this property's model transcribes, regenerated
  from /repo by factgen on every run (WS/Gen/Skeletons.lean), equals the text the model was written against.
  A change to one of these functions breaks the obligation below; the check then searches for a failing
  input with the property's oracles (DESIGN §5).
-/
namespace WS.Props.C10Tie
open WS

/-- today's Conn.write, writeFatal and flushFrame (error paths) are the modelled ones -/
theorem failstop_sites_as_modelled :
    Gen.stmts_connWrite =
      ["<-c.mu",
        "defer func() { c.mu <- struct{}{} }()",
        "c.writeErrMu.Lock()",
        "err := c.writeErr",
        "c.writeErrMu.Unlock()",
        "if err != nil { return err }",
        "if err := c.conn.SetWriteDeadline(deadline); err != nil { return c.writeFatal(err) }",
        "if len(buf1) == 0 { _, err = c.conn.Write(buf0) } else { err = c.writeBufs(buf0, buf1) }",
        "if err != nil { return c.writeFatal(err) }",
        "if frameType == CloseMessage { _ = c.writeFatal(ErrCloseSent) }",
        "return nil"] ∧
    Gen.stmts_writeFatal =
      ["c.writeErrMu.Lock()",
        "if c.writeErr == nil { c.writeErr = err }",
        "c.writeErrMu.Unlock()",
        "return err"] ∧
    Gen.stmts_flushFrame =
      ["c := w.c",
        "length := w.pos - maxFrameHeaderSize + len(extra)",
        "if isControl(w.frameType) && (!final || length > maxControlFramePayloadSize) { return w.endMessage(errInvalidControlFrame) }",
        "b0 := byte(w.frameType)",
        "if final { b0 |= finalBit }",
        "if w.compress { b0 |= rsv1Bit }",
        "w.compress = false",
        "b1 := byte(0)",
        "if !c.isServer { b1 |= maskBit }",
        "framePos := 0",
        "if c.isServer { framePos = 4 }",
        "switch { case length >= 65536: c.writeBuf[framePos] = b0 c.writeBuf[framePos+1] = b1 | 127 binary.BigEndian.PutUint64(c.writeBuf[framePos+2:], uint64(length)) case length > 125: framePos += 6 c.writeBuf[framePos] = b0 c.writeBuf[framePos+1] = b1 | 126 binary.BigEndian.PutUint16(c.writeBuf[framePos+2:], uint16(length)) default: framePos += 8 c.writeBuf[framePos] = b0 c.writeBuf[framePos+1] = b1 | byte(length) }",
        "if !c.isServer { key := newMaskKey() copy(c.writeBuf[maxFrameHeaderSize-4:], key[:]) maskBytes(key, 0, c.writeBuf[maxFrameHeaderSize:w.pos]) if len(extra) > 0 { return w.endMessage(c.writeFatal(errors.New(\"websocket: internal error, extra used in client mode\"))) } }",
        "if c.isWriting { panic(\"concurrent write to websocket connection\") }",
        "c.isWriting = true",
        "err := c.write(w.frameType, c.writeDeadline, c.writeBuf[framePos:w.pos], extra)",
        "if !c.isWriting { panic(\"concurrent write to websocket connection\") }",
        "c.isWriting = false",
        "if err != nil { return w.endMessage(err) }",
        "if final { _ = w.endMessage(errWriteClosed) return nil }",
        "w.pos = maxFrameHeaderSize",
        "w.frameType = continuationFrame",
        "return nil"] := by
  refine ⟨?_, ?_, ?_⟩ <;> rfl


/-- today's SetWriteDeadline only records the deadline; it is applied by Conn.write per frame -/
theorem set_write_deadline_as_modelled :
    Gen.stmts_SetWriteDeadline =
      ["c.writeDeadline = t",
        "return nil"] := by
  rfl


end WS.Props.C10Tie
