import WS.Model.Plan
/-
  C16 — Handshakes clean up on every failure path and leave no deadline on success.
  Theorems over the plan machine of WS/Model/Plan.lean (direct dial, plain HTTP CONNECT proxy,
  Upgrade after the hijack); the plan itself is compared with the operations the real Dial /
  Upgrade perform, with every operation failing in turn (stream hsfault). TLS and SOCKS5 internals
  are observed, not modelled (C18).
-/
namespace WS.Props.C16
open WS.Plan

/-- fail_closes: whichever operation fails, no Conn is returned, the net.Conn is closed, and the
    close is the last thing done to it -/
theorem fail_closes (cfg : Cfg) (k : Nat) (hk : k < (plan cfg).length) :
    (exec (plan cfg) (some k)).returned = false ∧ (exec (plan cfg) (some k)).closed = true ∧
    (exec (plan cfg) (some k)).ops = (plan cfg).take (k + 1) ++ [.c] := by
  unfold exec; simp [hk]

/-- success_open_no_deadline: on success the Conn is returned open, and the last deadline operation
    of the handshake sets the zero time -/
theorem success_open_no_deadline (cfg : Cfg) :
    (exec (plan cfg) none).returned = true ∧ (exec (plan cfg) none).closed = false ∧
    (((exec (plan cfg) none).ops.filter isDeadlineOp).getLast? = some .sd0 ∨
     ((exec (plan cfg) none).ops.filter isDeadlineOp).getLast? = some .swd0) := by
  obtain ⟨s, t, p⟩ := cfg
  cases s <;> cases t <;> cases p <;> decide

/-- ops_under_deadline: with a handshake timeout / context deadline the first operation of the client
    handshake arms it, so every later operation runs under it -/
theorem ops_under_deadline (cfg : Cfg) (hs : cfg.server = false) (ht : cfg.timeout = true) :
    (plan cfg).head? = some .sdD := by
  obtain ⟨s, t, p⟩ := cfg
  cases s <;> cases t <;> cases p <;> simp_all [plan]

/-- in the plan machine nothing is written after the failing operation: the executed sequence is the plan up to
    the failure followed (for a non-close failure) by one close. (By definition of `Plan.exec`; the content of C16 is
    that the operation sequences RECORDED from the real Dial / Upgrade equal `exec` for every configuration and every
    failing operation — stream hsfault.) -/
theorem no_write_after_failure (cfg : Cfg) (k : Nat) (hk : k < (plan cfg).length) :
    ((exec (plan cfg) (some k)).ops.drop (k + 1)) = [.c] := by
  unfold exec; simp [hk]
  have : ((plan cfg).take (k + 1)).length = k + 1 := by simp; omega
  rw [List.drop_append_of_le_length (by omega)]
  simp [List.drop_take]

/-- non-vacuity: a direct dial with a timeout whose reply read fails -/
example : exec (plan ⟨false, true, false⟩) (some 2) = ⟨[.sdD, .w, .r, .c], false, true⟩ := by decide

/-! ### non-vacuity -/
section NonVacuity
set_option linter.defProp false

/-- a client dial through a plain HTTP CONNECT proxy with a handshake timeout:
    plan = [sdD, w, r, w, r, sd0] -/
def witCfg : Cfg := ⟨false, true, true⟩
/-- an Upgrade (server side) with a handshake timeout: plan = [swdD, w, swd0] -/
def witSrv : Cfg := ⟨true, true, false⟩
/-- witness for `fail_closes` / `no_write_after_failure`: operation 3 (the write of the upgrade
    request after the CONNECT exchange) is in the middle of the six-operation plan -/
def witCfg_k : 3 < (plan witCfg).length := by decide

/-- the plan of the witness configuration -/
example : plan witCfg = [.sdD, .w, .r, .w, .r, .sd0] := by decide

/-- non-vacuity of `fail_closes`: proxy + timeout dial whose 4th operation (k = 3) fails -/
example : (exec (plan witCfg) (some 3)).returned = false ∧ (exec (plan witCfg) (some 3)).closed = true ∧
    (exec (plan witCfg) (some 3)).ops = (plan witCfg).take (3 + 1) ++ [.c] :=
  fail_closes witCfg 3 witCfg_k
/-- concrete value of the `fail_closes` witness -/
example : exec (plan witCfg) (some 3) = ⟨[.sdD, .w, .r, .w, .c], false, true⟩ := by decide
/-- non-vacuity of `fail_closes`: Upgrade with timeout whose response write (k = 1) fails -/
example : (exec (plan witSrv) (some 1)).returned = false ∧ (exec (plan witSrv) (some 1)).closed = true ∧
    (exec (plan witSrv) (some 1)).ops = (plan witSrv).take (1 + 1) ++ [.c] :=
  fail_closes witSrv 1 (by decide)

/-- instance of `success_open_no_deadline` (no hypotheses) on the proxy + timeout dial -/
example : ((exec (plan witCfg) none).ops.filter isDeadlineOp).getLast? = some .sd0 := by decide

/-- non-vacuity of `ops_under_deadline`: a client configuration (proxy) with a timeout -/
example : (plan witCfg).head? = some .sdD := ops_under_deadline witCfg rfl rfl
/-- non-vacuity of `ops_under_deadline`: a direct dial with a timeout -/
example : (plan ⟨false, true, false⟩).head? = some .sdD := ops_under_deadline ⟨false, true, false⟩ rfl rfl

/-- non-vacuity of `no_write_after_failure`: proxy + timeout dial, k = 3 in the middle of the plan -/
example : ((exec (plan witCfg) (some 3)).ops.drop (3 + 1)) = [.c] :=
  no_write_after_failure witCfg 3 witCfg_k
/-- non-vacuity of `no_write_after_failure`: Upgrade with timeout whose response write (k = 1) fails -/
example : ((exec (plan witSrv) (some 1)).ops.drop (1 + 1)) = [.c] :=
  no_write_after_failure witSrv 1 (by decide)

end NonVacuity

end WS.Props.C16
