import WS.Lemmas.HlogProgram
import WS.Lemmas.AuditGaps
import WS.Lemmas.RoleGeneric
import WS.Lemmas.ReaderRejects
import WS.Lemmas.ReaderDecodes
/-
  C08 — Control frames: handlers see each frame once; ping answered, close echoed.
-/
namespace WS.Props.C08
open WS WS.HdrLogic WS.SrcLaw WS.ReaderRejects

/-- default_ping_pong: a ping of 0..125 bytes reaches the ping handler once with its exact payload
    and, with the default handler, is answered by one pong carrying the identical payload -/
theorem default_ping_pong (c : Conn) (hc : AtBoundary c) (hw : WHealthy c.w) (hclient : c.r.isServer = false)
    (hd : c.r.hPing = .dflt) (payload rest : Bytes) (hl : payload.length ≤ 125)
    (hp : c.r.buf.pending = [137, UInt8.ofNat payload.length] ++ payload ++ rest) :
    ∃ c', advanceFrame c = (.ok 9, c') ∧ c'.r.hlog = c.r.hlog ++ [.ping payload] ∧ c'.r.buf.pending = rest ∧
      c'.w.wire = c.w.wire ++ controlFrame c.w.isServer 10 payload (ctlKey c.w).1 ∧
      c'.r.readErr = none ∧ c'.r.final = c.r.final := by
  first | exact ReaderRejects.ping_answered .. | (apply ReaderRejects.ping_answered <;> assumption)

/-- default_close_echo: a close with an accepted code and UTF-8 reason is handed to the close handler once,
    echoed by a close frame with the same code, and reads fail with CloseError{code, reason} -/
theorem default_close_echo (c : Conn) (hc : AtBoundary c) (hw : WHealthy c.w) (hclient : c.r.isServer = false)
    (hd : c.r.hClose = .dflt) (code : Nat) (reason rest : Bytes)
    (hcode : isValidReceivedCloseCode code = true) (hc16 : code < 65536) (hutf : Spec.validUtf8 reason = true)
    (hl : reason.length ≤ 123)
    (hp : c.r.buf.pending = [136, UInt8.ofNat (2 + reason.length)] ++ beBytes 2 code ++ reason ++ rest) :
    ∃ c', advanceFrame c = (.error (.close code reason), c') ∧ c'.r.hlog = c.r.hlog ++ [.close code reason] ∧
      c'.w.wire = c.w.wire ++ controlFrame c.w.isServer 8 (closePayload code []) (ctlKey c.w).1 ∧
      c'.w.writeErr = some .closeSent := by
  first | exact ReaderRejects.close_echoed .. | (apply ReaderRejects.close_echoed <;> assumption)

open WS.ReaderDecodes in
/-- handlers_exactly_once: while a conformant message is read to its end (any fragmentation, any read
    sizes), the handler log grows by exactly the pings / pongs interleaved with its fragments, in
    wire order, each with its exact payload -/
theorem handlers_exactly_once (c : Conn) (hc : ReaderIdle c) (t : Nat) (ht : t = 1 ∨ t = 2) (fs : List PFrame)
    (hs : MsgShape t fs) (rest : Bytes)
    (hp : c.r.buf.pending = encAll c.r.isServer fs ++ rest)
    (hend : c.r.buf.t.together = false ∨ rest ≠ [])
    (hsz : (dataPayload fs).length < 2 ^ 62) (hlim : c.r.limit ≤ 0)
    (k : Nat) (hk : 0 < k) :
    ∃ c1 rid c2, nextReader c = (.msg t rid false, c1) ∧ (readAll c1 rid k).2 = c2 ∧
      c2.r.hlog = c.r.hlog ++ ctlEvents fs := by
  obtain ⟨c1, rid, h1, c2, h2, _, _, h5⟩ := ReaderDecodes.read_message c hc t ht fs hs rest hp hend hsz (Or.inl hlim) k hk
  exact ⟨c1, rid, c2, h1, by rw [h2], h5⟩

/-- handler_error_sticky: an error returned by a handler is a read error like any other, hence
    permanent (C04.nextReader_sticky) -/
theorem handler_error_sticky (c : Conn) (id : Nat) (he : c.r.readErr = some (.handler id)) (hn : c.r.errCount + 1 < 1000) :
    ∃ c', nextReader c = (.err (.handler id), c') ∧ c'.r.readErr = some (.handler id) := by
  obtain ⟨c', h1, h2, _⟩ := ReaderRejects.nextReader_sticky c (.handler id) he hn
  exact ⟨c', h1, h2⟩

open WS.Codec WS.ReaderDecodes WS.RoleGeneric in
/-- default_ping_pong for either role (a server-side reader unmasks the ping with the frame's key; the
    pong carries the unmasked payload) -/
theorem default_ping_pong_any_role (c : Conn) (hc : AtBoundary c) (hw : WHealthy c.w) (hd : c.r.hPing = .dflt)
    (key : Key) (payload rest : Bytes) (hl : payload.length ≤ 125)
    (hp : c.r.buf.pending = PFrame.enc c.r.isServer ⟨9, true, key, payload⟩ ++ rest) :
    ∃ c', advanceFrame c = (.ok 9, c') ∧ c'.r.hlog = c.r.hlog ++ [.ping payload] ∧ c'.r.buf.pending = rest ∧
      c'.w.wire = c.w.wire ++ controlFrame c.w.isServer 10 payload (ctlKey c.w).1 ∧
      c'.r.readErr = none ∧ c'.r.final = c.r.final := by
  first | exact RoleGeneric.ping_answered_any .. | (apply RoleGeneric.ping_answered_any <;> assumption)

open WS.Codec WS.ReaderDecodes WS.RoleGeneric in
/-- default_close_echo for either role -/
theorem default_close_echo_any_role (c : Conn) (hc : AtBoundary c) (hw : WHealthy c.w) (hd : c.r.hClose = .dflt)
    (key : Key) (code : Nat) (reason rest : Bytes)
    (hcode : isValidReceivedCloseCode code = true) (hc16 : code < 65536) (hutf : Spec.validUtf8 reason = true)
    (hl : reason.length ≤ 123)
    (hp : c.r.buf.pending = PFrame.enc c.r.isServer ⟨8, true, key, beBytes 2 code ++ reason⟩ ++ rest) :
    ∃ c', advanceFrame c = (.error (.close code reason), c') ∧ c'.r.hlog = c.r.hlog ++ [.close code reason] ∧
      c'.w.wire = c.w.wire ++ controlFrame c.w.isServer 8 (closePayload code []) (ctlKey c.w).1 ∧
      c'.w.writeErr = some .closeSent := by
  first | exact RoleGeneric.close_echoed_any .. | (apply RoleGeneric.close_echoed_any <;> assumption)


open WS.Codec WS.ReaderDecodes WS.RoleGeneric WS.AuditGaps in
/-- a close frame without a body is reported as CloseError 1005 with an empty reason; the default handler echoes -/
theorem empty_close_is_1005 (c : Conn) (hc : AtBoundary c) (hw : WHealthy c.w) (hd : c.r.hClose = .dflt)
    (key : Key) (rest : Bytes)
    (hp : c.r.buf.pending = PFrame.enc c.r.isServer ⟨8, true, key, []⟩ ++ rest) :
    ∃ c', advanceFrame c = (.error (.close 1005 []), c') ∧ c'.r.hlog = c.r.hlog ++ [.close 1005 []] ∧
      c'.w.writeErr = some .closeSent ∧ c.w.wire.length < c'.w.wire.length := by
  first | exact AuditGaps.empty_close_is_1005 .. | (apply AuditGaps.empty_close_is_1005 <;> assumption)

open WS.Codec WS.ReaderDecodes WS.RoleGeneric WS.AuditGaps in
/-- the error a ping handler returns is what the read call returns; it is latched and no pong is written -/
theorem failing_handler_error_returned (c : Conn) (hc : ReaderIdle' c) (id : Nat) (hh : c.r.hPing = .fail id)
    (key : Key) (payload rest : Bytes) (hl : payload.length ≤ 125) (hcnt : c.r.errCount = 0)
    (hp : c.r.buf.pending = PFrame.enc c.r.isServer ⟨9, true, key, payload⟩ ++ rest) :
    ∃ c', nextReader c = (.err (.handler id), c') ∧ c'.r.readErr = some (.handler id) ∧
      c'.r.hlog = c.r.hlog ++ [.ping payload] ∧ c'.w.wire = c.w.wire := by
  first | exact AuditGaps.failing_ping_handler .. | (apply AuditGaps.failing_ping_handler <;> assumption)


open WS.Codec WS.ReaderDecodes WS.ReadProgram in
/-- C08 for EVERY read program (`runProg`, C03.any_read_program): whatever sequence of NextReader and
    Read(k) calls the application makes on a stream of conformant messages — reading everything, abandoning
    messages part-way, reading past their ends —, at every point the handler log is a PREFIX of the stream's
    ping / pong frames in wire order with their exact payloads: each control frame is handed to its handler
    at most once, never out of order, never with another payload, and none is invented
    (`handlers_exactly_once` is the case of a program that reads a message to its end: then all of its
    control frames have been handled) -/
theorem any_read_program_hlog (c : Conn) (hc : ReaderIdle c) (msgs : List (Nat × List PFrame))
    (hm : ∀ m ∈ msgs, (m.1 = 1 ∨ m.1 = 2) ∧ MsgShape m.1 m.2 ∧ (dataPayload m.2).length < 2 ^ 62 ∧
            (c.r.limit ≤ 0 ∨ ((dataPayload m.2).length : Int) ≤ c.r.limit))
    (rest : Bytes)
    (hp : c.r.buf.pending = (msgs.map (fun m => encAll c.r.isServer m.2)).flatten ++ rest)
    (hend : c.r.buf.t.together = false ∨ rest ≠ [])
    (ops : List ROp) (hn : (ops.filter ROp.isNext).length ≤ msgs.length) :
    (runProg ops c none).2.r.hlog <+: c.r.hlog ++ (msgs.map (fun m => ctlEvents m.2)).flatten := by
  first | exact WS.HlogProgram.any_read_program_hlog .. | (apply WS.HlogProgram.any_read_program_hlog <;> assumption)

/-! ### non-vacuity -/
section NonVacuity
set_option linter.defProp false
open WS WS.HdrLogic WS.SrcLaw WS.ReaderRejects WS.Codec WS.ReaderDecodes

/-- a client connection (default handlers, two keys in the key source) in the middle of a fragmented
    message; pending: a ping "ping!" (split over buffer and transport), then a close frame
    1001 "bye", then one stray byte -/
def witPing : Conn :=
  { w := { newW false 4096 false false with keys := [1, 2, 3, 4, 5, 6, 7, 8] },
    r := { isServer := false, nego := false, final := false, length := 3, msgReader := some 0, nextId := 1,
           hlog := [.pong [9]],
           buf := { size := 4096, buf := [137, 5, 0x70, 0x69],
                    t := { chunks := [[0x6e, 0x67, 0x21, 136, 5], [0x03, 0xE9, 0x62, 0x79, 0x65, 0xAA]] }, total := 15 } } }

def witPing_wf : WF witPing.r.buf := ⟨by decide, by decide, by decide, (by intro e h; cases h)⟩

/-- non-vacuity of `default_ping_pong`: all hypotheses hold for `witPing` -/
example : ∃ c', advanceFrame witPing = (.ok 9, c') ∧ c'.r.hlog = [.pong [9]] ++ [.ping [0x70, 0x69, 0x6e, 0x67, 0x21]] ∧
      c'.r.buf.pending = [136, 5, 0x03, 0xE9, 0x62, 0x79, 0x65, 0xAA] ∧
      c'.w.wire = witPing.w.wire ++ controlFrame witPing.w.isServer 10 [0x70, 0x69, 0x6e, 0x67, 0x21] (ctlKey witPing.w).1 ∧
      c'.r.readErr = none ∧ c'.r.final = witPing.r.final :=
  default_ping_pong witPing ⟨rfl, rfl, witPing_wf, by decide⟩ ⟨rfl, rfl⟩ rfl rfl [0x70, 0x69, 0x6e, 0x67, 0x21]
    [136, 5, 0x03, 0xE9, 0x62, 0x79, 0x65, 0xAA] (by decide) (by decide)

/-- evaluated: the pong on the wire is masked with the first key and carries the ping's payload -/
example : (advanceFrame witPing).2.w.wire = [0x8A, 0x85, 1, 2, 3, 4, 0x70 ^^^ 1, 0x69 ^^^ 2, 0x6e ^^^ 3, 0x67 ^^^ 4, 0x21 ^^^ 1] := by
  decide

/-- the connection after the ping was answered: the close frame 1001 "bye" is next -/
def witClose : Conn := (advanceFrame witPing).2

def witClose_atBoundary : AtBoundary witClose :=
  ⟨by decide, by decide, ⟨by decide, by decide, by decide, by decide⟩, by decide⟩

/-- non-vacuity of `default_close_echo`: all hypotheses hold for `witClose` (a state produced by the
    model itself), code 1001, reason "bye" -/
example : ∃ c', advanceFrame witClose = (.error (.close 1001 [0x62, 0x79, 0x65]), c') ∧
      c'.r.hlog = witClose.r.hlog ++ [.close 1001 [0x62, 0x79, 0x65]] ∧
      c'.w.wire = witClose.w.wire ++ controlFrame witClose.w.isServer 8 (closePayload 1001 []) (ctlKey witClose.w).1 ∧
      c'.w.writeErr = some .closeSent :=
  default_close_echo witClose witClose_atBoundary ⟨by decide, by decide⟩ (by decide) (by decide) 1001 [0x62, 0x79, 0x65] [0xAA]
    (by decide) (by decide) (by decide) (by decide) (by decide)

/-- a binary message 01 02 03 04 05 in three fragments with a ping and a pong in between, masked
    (the reader is a server) -/
def witMsg : List PFrame :=
  [{ op := 2, fin := false, key := ⟨0x37, 0xfa, 0x21, 0x3d⟩, payload := [1, 2] },
   { op := 9, fin := true, key := ⟨1, 2, 3, 4⟩, payload := [0x70] },
   { op := 0, fin := false, key := ⟨0xa0, 0xb0, 0xc0, 0xd0⟩, payload := [3] },
   { op := 10, fin := true, key := ⟨4, 3, 2, 1⟩, payload := [0x71, 0x72] },
   { op := 0, fin := true, key := ⟨0xff, 0, 0xff, 0⟩, payload := [4, 5] }]

def witMsg_shape : MsgShape 2 witMsg :=
  MsgShape.frag _ _ rfl rfl (by decide)
    (Tail.ctl _ _ ⟨Or.inl rfl, rfl, by decide⟩ (Tail.cont _ _ rfl rfl (by decide)
      (Tail.ctl _ _ ⟨Or.inr rfl, rfl, by decide⟩ (Tail.last _ rfl rfl (by decide)))))

/-- a server connection with recording ping / pong handlers, reader idle; the 38 wire bytes arrive in
    chunks of 9, followed by EOF -/
def witSrv : Conn :=
  { w := newW true 4096 false false,
    r := { isServer := true, nego := false, hPing := .record, hPong := .record,
           buf := { size := 4096, buf := [],
                    t := { chunks := [(encAll true witMsg).take 9, ((encAll true witMsg).drop 9).take 9,
                                      ((encAll true witMsg).drop 18).take 9, (encAll true witMsg).drop 27] },
                    total := 38 } } }

def witSrv_idle : ReaderIdle witSrv :=
  ⟨rfl, rfl, rfl, ⟨by decide, by decide, by decide, (by intro e h; cases h)⟩, by decide, by decide,
    (by intro id h; cases h), (by intro id h; cases h)⟩

/-- non-vacuity of `handlers_exactly_once`: reads of 1 byte -/
example : ∃ c1 rid c2, nextReader witSrv = (.msg 2 rid false, c1) ∧ (readAll c1 rid 1).2 = c2 ∧
      c2.r.hlog = witSrv.r.hlog ++ [.ping [0x70], .pong [0x71, 0x72]] :=
  handlers_exactly_once witSrv witSrv_idle 2 (Or.inr rfl) witMsg witMsg_shape [] (by decide) (Or.inl rfl)
    (by decide) (by decide) 1 (by decide)

/-- a client connection whose application ping handler returned error 42 on the previous call -/
def witHandlerFailed : Conn :=
  { w := { newW false 4096 false false with keys := [1, 2, 3, 4] },
    r := { isServer := false, nego := false, hPing := .fail 42, readErr := some (.handler 42), errCount := 1,
           hlog := [.ping [1, 2]], buf := { size := 4096, buf := [0x81, 0x01, 0x41], total := 7 } } }

/-- non-vacuity of `handler_error_sticky` -/
example : ∃ c', nextReader witHandlerFailed = (.err (.handler 42), c') ∧ c'.r.readErr = some (.handler 42) :=
  handler_error_sticky witHandlerFailed 42 rfl (by decide)

/-- a SERVER connection (default handlers) in the middle of a fragmented message; pending: a masked
    ping "ping!" with the non-zero key 37 fa 21 3d (split over buffer and two transport chunks), then the
    header of a masked close frame -/
def witSrvPing : Conn :=
  { w := newW true 4096 false false,
    r := { isServer := true, nego := false, final := false, length := 3, msgReader := some 0, nextId := 1,
           hlog := [.pong [9]],
           buf := { size := 4096, buf := (PFrame.enc true ⟨9, true, ⟨0x37, 0xfa, 0x21, 0x3d⟩, [0x70, 0x69, 0x6e, 0x67, 0x21]⟩).take 4,
                    t := { chunks := [((PFrame.enc true ⟨9, true, ⟨0x37, 0xfa, 0x21, 0x3d⟩, [0x70, 0x69, 0x6e, 0x67, 0x21]⟩).drop 4).take 4,
                                      (PFrame.enc true ⟨9, true, ⟨0x37, 0xfa, 0x21, 0x3d⟩, [0x70, 0x69, 0x6e, 0x67, 0x21]⟩).drop 8 ++ [0x88, 0x82]] },
                    total := 13 } } }

def witSrvPing_atBoundary : AtBoundary witSrvPing :=
  ⟨rfl, rfl, ⟨by decide, by decide, by decide, (by intro e h; cases h)⟩, by decide⟩

/-- the bytes really are masked: header 89 85, key, payload XOR key -/
example : witSrvPing.r.buf.pending =
    [0x89, 0x85, 0x37, 0xfa, 0x21, 0x3d, 0x70 ^^^ 0x37, 0x69 ^^^ 0xfa, 0x6e ^^^ 0x21, 0x67 ^^^ 0x3d, 0x21 ^^^ 0x37, 0x88, 0x82] := by
  decide

/-- non-vacuity of `default_ping_pong_any_role`: all hypotheses hold for the server reader `witSrvPing`
    and a masked ping with a non-zero key; the (unmasked, server-side) pong carries the unmasked payload -/
example : ∃ c', advanceFrame witSrvPing = (.ok 9, c') ∧
      c'.r.hlog = witSrvPing.r.hlog ++ [.ping [0x70, 0x69, 0x6e, 0x67, 0x21]] ∧ c'.r.buf.pending = [0x88, 0x82] ∧
      c'.w.wire = witSrvPing.w.wire ++ controlFrame witSrvPing.w.isServer 10 [0x70, 0x69, 0x6e, 0x67, 0x21] (ctlKey witSrvPing.w).1 ∧
      c'.r.readErr = none ∧ c'.r.final = witSrvPing.r.final :=
  default_ping_pong_any_role witSrvPing witSrvPing_atBoundary ⟨rfl, rfl⟩ rfl ⟨0x37, 0xfa, 0x21, 0x3d⟩
    [0x70, 0x69, 0x6e, 0x67, 0x21] [0x88, 0x82] (by decide) (by decide)

/-- evaluated: the server's pong is unmasked and carries "ping!" -/
example : (advanceFrame witSrvPing).2.w.wire = [0x8A, 0x05, 0x70, 0x69, 0x6e, 0x67, 0x21] := by decide

/-- a SERVER connection (default handlers), reader idle; pending: a masked close frame 1001 "bye" with the
    non-zero key a0 b0 c0 d0 (split over buffer and transport), then one stray byte -/
def witSrvClose : Conn :=
  { w := newW true 4096 false false,
    r := { isServer := true, nego := false, hlog := [.ping [0x70]],
           buf := { size := 4096, buf := (PFrame.enc true ⟨8, true, ⟨0xa0, 0xb0, 0xc0, 0xd0⟩, beBytes 2 1001 ++ [0x62, 0x79, 0x65]⟩).take 3,
                    t := { chunks := [(PFrame.enc true ⟨8, true, ⟨0xa0, 0xb0, 0xc0, 0xd0⟩, beBytes 2 1001 ++ [0x62, 0x79, 0x65]⟩).drop 3 ++ [0xAA]] },
                    total := 12 } } }

def witSrvClose_atBoundary : AtBoundary witSrvClose :=
  ⟨rfl, rfl, ⟨by decide, by decide, by decide, (by intro e h; cases h)⟩, by decide⟩

example : witSrvClose.r.buf.pending =
    [0x88, 0x85, 0xa0, 0xb0, 0xc0, 0xd0, 0x03 ^^^ 0xa0, 0xE9 ^^^ 0xb0, 0x62 ^^^ 0xc0, 0x79 ^^^ 0xd0, 0x65 ^^^ 0xa0, 0xAA] := by
  decide

/-- non-vacuity of `default_close_echo_any_role`: all hypotheses hold for the server reader `witSrvClose`,
    code 1001, reason "bye", masked with a non-zero key -/
example : ∃ c', advanceFrame witSrvClose = (.error (.close 1001 [0x62, 0x79, 0x65]), c') ∧
      c'.r.hlog = witSrvClose.r.hlog ++ [.close 1001 [0x62, 0x79, 0x65]] ∧
      c'.w.wire = witSrvClose.w.wire ++ controlFrame witSrvClose.w.isServer 8 (closePayload 1001 []) (ctlKey witSrvClose.w).1 ∧
      c'.w.writeErr = some .closeSent :=
  default_close_echo_any_role witSrvClose witSrvClose_atBoundary ⟨rfl, rfl⟩ rfl ⟨0xa0, 0xb0, 0xc0, 0xd0⟩ 1001
    [0x62, 0x79, 0x65] [0xAA] (by decide) (by decide) (by decide) (by decide) (by decide)

/-- evaluated: the server's close echo is unmasked and carries the code 1001 -/
example : (advanceFrame witSrvClose).2.w.wire = [0x88, 0x02, 0x03, 0xE9] := by decide

/-- a SERVER connection (default handlers), reader idle after one ping; pending: a masked close frame WITHOUT
    a body (header 88 80 and the key 37 fa 21 3d; the key bytes arrive in a second transport chunk), then one
    stray byte -/
def witSrvEmptyClose : Conn :=
  { w := newW true 4096 false false,
    r := { isServer := true, nego := false, hlog := [.ping [0x70]],
           buf := { size := 4096, buf := (PFrame.enc true ⟨8, true, ⟨0x37, 0xfa, 0x21, 0x3d⟩, []⟩).take 3,
                    t := { chunks := [(PFrame.enc true ⟨8, true, ⟨0x37, 0xfa, 0x21, 0x3d⟩, []⟩).drop 3 ++ [0xAA]] },
                    total := 7 } } }

def witSrvEmptyClose_atBoundary : AtBoundary witSrvEmptyClose :=
  ⟨rfl, rfl, ⟨by decide, by decide, by decide, (by intro e h; cases h)⟩, by decide⟩

example : witSrvEmptyClose.r.buf.pending = [0x88, 0x80, 0x37, 0xfa, 0x21, 0x3d, 0xAA] := by decide

/-- non-vacuity of `empty_close_is_1005`: all hypotheses hold for the server reader `witSrvEmptyClose` -/
example : ∃ c', advanceFrame witSrvEmptyClose = (.error (.close 1005 []), c') ∧
      c'.r.hlog = witSrvEmptyClose.r.hlog ++ [.close 1005 []] ∧
      c'.w.writeErr = some .closeSent ∧ witSrvEmptyClose.w.wire.length < c'.w.wire.length :=
  empty_close_is_1005 witSrvEmptyClose witSrvEmptyClose_atBoundary ⟨rfl, rfl⟩ rfl ⟨0x37, 0xfa, 0x21, 0x3d⟩ [0xAA] (by decide)

/-- evaluated: the server's echo is an unmasked close frame with an EMPTY body (1005 is never put on the
    wire), the handler saw (1005, ""), and the stray byte is still pending -/
example : (advanceFrame witSrvEmptyClose).2.w.wire = [0x88, 0x00] ∧
    (advanceFrame witSrvEmptyClose).2.r.hlog = [.ping [0x70], .close 1005 []] ∧
    (advanceFrame witSrvEmptyClose).2.r.buf.pending = [0xAA] := by decide

/-- the same empty close frame towards a CLIENT reader (unmasked: 88 00), mid-message; its echo is masked with
    the first key of the key source -/
def witCliEmptyClose : Conn :=
  { w := { newW false 4096 false false with keys := [1, 2, 3, 4, 5, 6, 7, 8] },
    r := { isServer := false, nego := false, final := false, length := 3, msgReader := some 0, nextId := 1,
           buf := { size := 4096, buf := [0x88], t := { chunks := [[0x00, 0x81], [0x01, 0x41]] }, total := 5 } } }

example : ∃ c', advanceFrame witCliEmptyClose = (.error (.close 1005 []), c') ∧
      c'.r.hlog = witCliEmptyClose.r.hlog ++ [.close 1005 []] ∧
      c'.w.writeErr = some .closeSent ∧ witCliEmptyClose.w.wire.length < c'.w.wire.length :=
  empty_close_is_1005 witCliEmptyClose ⟨rfl, rfl, ⟨by decide, by decide, by decide, (by intro e h; cases h)⟩, by decide⟩
    ⟨rfl, rfl⟩ rfl ⟨0, 0, 0, 0⟩ [0x81, 0x01, 0x41] (by decide)

example : (advanceFrame witCliEmptyClose).2.w.wire = [0x88, 0x80, 1, 2, 3, 4] := by decide

/-- a SERVER connection whose application ping handler returns error 7, reader idle (one pong handled so far,
    no failed call yet); pending: a masked ping "hi" (key a0 b0 c0 d0, split over buffer and transport), then a
    masked text frame "A" -/
def witFailPing : Conn :=
  { w := newW true 4096 false false,
    r := { isServer := true, nego := false, hPing := .fail 7, hlog := [.pong [9]],
           buf := { size := 4096, buf := (PFrame.enc true ⟨9, true, ⟨0xa0, 0xb0, 0xc0, 0xd0⟩, [0x68, 0x69]⟩).take 5,
                    t := { chunks := [(PFrame.enc true ⟨9, true, ⟨0xa0, 0xb0, 0xc0, 0xd0⟩, [0x68, 0x69]⟩).drop 5 ++ [0x81, 0x81, 1],
                                      [2, 3, 4, 0x41 ^^^ 1]] },
                    total := 15 } } }

def witFailPing_idle : WS.AuditGaps.ReaderIdle' witFailPing :=
  ⟨rfl, rfl, rfl, ⟨by decide, by decide, by decide, (by intro e h; cases h)⟩, by decide, by decide⟩

example : witFailPing.r.buf.pending =
    [0x89, 0x82, 0xa0, 0xb0, 0xc0, 0xd0, 0x68 ^^^ 0xa0, 0x69 ^^^ 0xb0, 0x81, 0x81, 1, 2, 3, 4, 0x41 ^^^ 1] := by decide

/-- non-vacuity of `failing_handler_error_returned`: all hypotheses hold for `witFailPing`, handler error 7,
    ping "hi", a text frame behind it -/
example : ∃ c', nextReader witFailPing = (.err (.handler 7), c') ∧ c'.r.readErr = some (.handler 7) ∧
      c'.r.hlog = witFailPing.r.hlog ++ [.ping [0x68, 0x69]] ∧ c'.w.wire = witFailPing.w.wire :=
  failing_handler_error_returned witFailPing witFailPing_idle 7 rfl ⟨0xa0, 0xb0, 0xc0, 0xd0⟩ [0x68, 0x69]
    [0x81, 0x81, 1, 2, 3, 4, 0x41 ^^^ 1] (by decide) rfl (by decide)

/-- evaluated: NextReader latches the handler's error, the handler saw the unmasked "hi" once, no pong (nothing
    at all) was written, and the text frame behind the ping was not touched -/
example : (nextReader witFailPing).2.r.readErr = some (.handler 7) ∧
    (nextReader witFailPing).2.r.hlog = [.pong [9], .ping [0x68, 0x69]] ∧
    (nextReader witFailPing).2.w.wire = [] ∧ (nextReader witFailPing).2.w.writeErr = none ∧
    (nextReader witFailPing).2.r.buf.pending = [0x81, 0x81, 1, 2, 3, 4, 0x41 ^^^ 1] := by decide

section Program
open WS.ReadProgram

/-- a program that opens the message, reads three single bytes (crossing the ping) and stops -/
def witHProg : List ROp := [.read 3, .next, .read 0, .read 0, .read 0]

/-- non-vacuity of `any_read_program_hlog`: the hypotheses hold for `witSrv` -/
example : (runProg witHProg witSrv none).2.r.hlog <+: witSrv.r.hlog ++ [.ping [0x70], .pong [0x71, 0x72]] := by
  have h := any_read_program_hlog witSrv witSrv_idle [(2, witMsg)]
    (by
      intro m hm
      simp only [List.mem_cons, List.mem_nil_iff, or_false] at hm
      subst hm
      exact ⟨Or.inr rfl, witMsg_shape, by decide, Or.inl (by decide)⟩)
    [] (by decide) (Or.inl rfl) witHProg (by decide)
  have e : (([(2, witMsg)] : List (Nat × List PFrame)).map (fun m => ctlEvents m.2)).flatten =
      [.ping [0x70], .pong [0x71, 0x72]] := by decide
  rw [e] at h
  exact h

/-- where that program stands: the ping between the first two fragments has been handled, the pong
    before the last fragment not yet -/
example : (runProg witHProg witSrv none).2.r.hlog = [.ping [0x70]] := by decide +kernel

end Program

end NonVacuity

end WS.Props.C08
