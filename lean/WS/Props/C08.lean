import WS.Lemmas.ReaderRejects
import WS.Lemmas.ReaderDecodes
/-
  C08 — Control frames: handlers see each frame once; ping answered, close echoed.
-/
namespace WS.Props.C08
open WS WS.HdrLogic WS.SrcLaw WS.ReaderRejects

/-- default_ping_pong: a ping of 0..125 bytes reaches the ping handler once with its exact payload
    and, with the default handler, is answered by one pong carrying the identical payload -/
theorem default_ping_pong (c : Conn) (hc : AtBoundary c) (hw : WHealthy c.w) (hclient : c.r.isServer = false)
    (hd : c.r.hPing = .dflt) (payload rest : Bytes) (hl : payload.length ≤ 125)
    (hp : c.r.buf.pending = [137, UInt8.ofNat payload.length] ++ payload ++ rest) :
    ∃ c', advanceFrame c = (.ok 9, c') ∧ c'.r.hlog = c.r.hlog ++ [.ping payload] ∧ c'.r.buf.pending = rest ∧
      c'.w.wire = c.w.wire ++ controlFrame c.w.isServer 10 payload (ctlKey c.w).1 ∧
      c'.r.readErr = none ∧ c'.r.final = c.r.final := by
  first | exact ReaderRejects.ping_answered .. | (apply ReaderRejects.ping_answered <;> assumption)

/-- default_close_echo: a close with an accepted code and UTF-8 reason is handed to the close handler once,
    echoed by a close frame with the same code, and reads fail with CloseError{code, reason} -/
theorem default_close_echo (c : Conn) (hc : AtBoundary c) (hw : WHealthy c.w) (hclient : c.r.isServer = false)
    (hd : c.r.hClose = .dflt) (code : Nat) (reason rest : Bytes)
    (hcode : isValidReceivedCloseCode code = true) (hc16 : code < 65536) (hutf : Spec.validUtf8 reason = true)
    (hl : reason.length ≤ 123)
    (hp : c.r.buf.pending = [136, UInt8.ofNat (2 + reason.length)] ++ beBytes 2 code ++ reason ++ rest) :
    ∃ c', advanceFrame c = (.error (.close code reason), c') ∧ c'.r.hlog = c.r.hlog ++ [.close code reason] ∧
      c'.w.wire = c.w.wire ++ controlFrame c.w.isServer 8 (closePayload code []) (ctlKey c.w).1 ∧
      c'.w.writeErr = some .closeSent := by
  first | exact ReaderRejects.close_echoed .. | (apply ReaderRejects.close_echoed <;> assumption)

open WS.ReaderDecodes in
/-- handlers_exactly_once: while a conformant message is read to its end (any fragmentation, any read
    sizes), the handler log grows by exactly the pings / pongs interleaved with its fragments, in
    wire order, each with its exact payload -/
theorem handlers_exactly_once (c : Conn) (hc : ReaderIdle c) (t : Nat) (ht : t = 1 ∨ t = 2) (fs : List PFrame)
    (hs : MsgShape t fs) (rest : Bytes)
    (hp : c.r.buf.pending = encAll c.r.isServer fs ++ rest)
    (hend : c.r.buf.t.together = false ∨ rest ≠ [])
    (hsz : (dataPayload fs).length < 2 ^ 62) (hlim : c.r.limit ≤ 0)
    (k : Nat) (hk : 0 < k) :
    ∃ c1 rid c2, nextReader c = (.msg t rid false, c1) ∧ (readAll c1 rid k).2 = c2 ∧
      c2.r.hlog = c.r.hlog ++ ctlEvents fs := by
  obtain ⟨c1, rid, h1, c2, h2, _, _, h5⟩ := ReaderDecodes.read_message c hc t ht fs hs rest hp hend hsz (Or.inl hlim) k hk
  exact ⟨c1, rid, c2, h1, by rw [h2], h5⟩

/-- handler_error_sticky: an error returned by a handler is a read error like any other, hence
    permanent (C04.nextReader_sticky) -/
theorem handler_error_sticky (c : Conn) (id : Nat) (he : c.r.readErr = some (.handler id)) (hn : c.r.errCount + 1 < 1000) :
    ∃ c', nextReader c = (.err (.handler id), c') ∧ c'.r.readErr = some (.handler id) := by
  obtain ⟨c', h1, h2, _⟩ := ReaderRejects.nextReader_sticky c (.handler id) he hn
  exact ⟨c', h1, h2⟩

end WS.Props.C08
