import WS.Lemmas.HdrLogic
import WS.Lemmas.ReaderRejects
import WS.Gen.Skeletons
import WS.Lemmas.ReaderLift
import WS.Lemmas.ReaderMore
/-
  C04 — Framing violations are rejected fail-stop and never reach the application.
-/
namespace WS.Props.C04
open WS WS.HdrLogic WS.SrcLaw WS.ReaderRejects

/-- the reader's header check reports an error exactly for the violations the property lists, for
    every header over the full alphabet, either role, negotiated or not, idle or mid-message -/
theorem violates_iff_model_error (isServer nego final : Bool) (h : Hdr) :
    headerErrors isServer nego final h = [] ↔ ¬ Violates isServer nego (!final) h :=
  headerErrors_nil_iff isServer nego final h

/-- the accepted close codes are exactly 1000–1003, 1007–1013 and 3000–4999 (generated table) -/
theorem closecode_spec (c : Nat) :
    isValidReceivedCloseCode c = true ↔ ((1000 ≤ c ∧ c ≤ 1003) ∨ (1007 ≤ c ∧ c ≤ 1013) ∨ (3000 ≤ c ∧ c ≤ 4999)) :=
  HdrLogic.closecode_spec c

/-- the check list recognised in today's advanceFrame is the one the model implements -/
theorem header_checks_as_modelled :
    Gen.headerChecks =
      [("rsv1 && !(c.newDecompressionReader != nil)", "\"RSV1 set\""),
       ("rsv2", "\"RSV2 set\""),
       ("rsv3", "\"RSV3 set\""),
       ("switch frameType case CloseMessage,PingMessage,PongMessage && c.readRemaining > maxControlFramePayloadSize", "\"len > 125 for control\""),
       ("switch frameType case CloseMessage,PingMessage,PongMessage && !final", "\"FIN not set on control\""),
       ("switch frameType case TextMessage,BinaryMessage && !c.readFinal", "\"data before FIN\""),
       ("switch frameType case continuationFrame && c.readFinal", "\"continuation after FIN\""),
       ("switch frameType default", "\"bad opcode \"+strconv.Itoa(frameType)"),
       ("mask != c.isServer", "\"bad MASK\"")] := by decide +kernel

/-- C04 (state machine): at any frame boundary — idle or inside a fragmented message, either role,
    negotiated or not, any source chunking — a header that violates the framing rules makes
    advanceFrame fail with a protocol error; no handler runs, the frame's payload is never looked
    at, and exactly one close frame with status 1002 is written -/
theorem header_violation_rejected (c : Conn) (hc : AtBoundary c) (hw : WHealthy c.w) (b0 b1 : UInt8) (rest : Bytes)
    (hp : c.r.buf.pending = b0 :: b1 :: rest)
    (hv : Violates c.r.isServer c.r.nego (!c.r.final) (parseHdr b0 b1)) :
    ∃ msg c', advanceFrame c = (.error (.protocol msg), c') ∧
      c'.r.hlog = c.r.hlog ∧ c'.r.buf.pending = rest ∧
      c'.w.wire = c.w.wire ++ closeFrameBytes c.w ((closePayload 1002 (strBytes msg)).take 125) ∧
      c'.w.writeErr = some .closeSent := by
  first | exact ReaderRejects.header_violation_rejected .. | (apply ReaderRejects.header_violation_rejected <;> assumption)

/-- a 64-bit length with the top bit set: ErrReadLimit before any payload, a 1009 (not a 1002) close -/
theorem topbit_length_rejected (c : Conn) (hc : AtBoundary c) (hw : WHealthy c.w) (b0 b1 : UInt8) (ext rest : Bytes)
    (hp : c.r.buf.pending = b0 :: b1 :: ext ++ rest) (hext : ext.length = 8)
    (hok : ¬ Violates c.r.isServer c.r.nego (!c.r.final) (parseHdr b0 b1))
    (h127 : (parseHdr b0 b1).len7 = 127) (htop : 2 ^ 63 ≤ beVal ext) :
    ∃ c', advanceFrame c = (.error .readLimit, c') ∧ c'.r.hlog = c.r.hlog ∧ c'.r.buf.pending = rest ∧
      c'.w.wire = c.w.wire ++ closeFrameBytes c.w (closePayload 1009 []) ∧ c'.w.writeErr = some .closeSent := by
  first | exact ReaderRejects.topbit_length_rejected .. | (apply ReaderRejects.topbit_length_rejected <;> assumption)

/-- every later read fails with the same error, runs no handler, writes and consumes nothing -/
theorem nextReader_sticky (c : Conn) (e : RErr) (he : c.r.readErr = some e) (hn : c.r.errCount + 1 < 1000) :
    ∃ c', nextReader c = (.err e, c') ∧ c'.r.readErr = some e ∧ c'.w = c.w ∧ c'.r.hlog = c.r.hlog ∧
      c'.r.buf = c.r.buf ∧ c'.r.errCount = c.r.errCount + 1 := by
  first | exact ReaderRejects.nextReader_sticky .. | (apply ReaderRejects.nextReader_sticky <;> assumption)

/-- … up to the documented panic of the 1000th call on a failed connection -/
theorem nextReader_panics_at_1000 (c : Conn) (e : RErr) (he : c.r.readErr = some e) (hn : 1000 ≤ c.r.errCount + 1) :
    ∃ c', nextReader c = (.panic, c') := by
  first | exact ReaderRejects.nextReader_panics_at_1000 .. | (apply ReaderRejects.nextReader_panics_at_1000 <;> assumption)

/-- nothing further is delivered through a message reader either -/
theorem mrRead_after_error (c : Conn) (e : RErr) (he : c.r.readErr = some e) (rid k : Nat) :
    ((mrRead c rid k).1).1 = [] ∧ ((mrRead c rid k).1).2.isSome ∧ (mrRead c rid k).2.w = c.w := by
  first | exact ReaderRejects.mrRead_after_error .. | (apply ReaderRejects.mrRead_after_error <;> assumption)

/-- non-vacuity: RSV2 on a text frame to an idle server reader is a violation, and the model flags it -/
example : headerErrors true false true (parseHdr 0xA1 0x80) = ["RSV2 set"] := by decide

open WS.Codec WS.ReaderDecodes WS.ReaderLift
/-- fail-stop at the API (reader idle, any conformant history behind it): the NextReader call that meets
    a violating frame returns the protocol error (or, on what would be the 1000th failed call, the
    repeated-read panic), records it, invokes no handler, consumes nothing beyond the 2 header bytes,
    and writes exactly one 1002 close frame -/
theorem nextReader_violation (c : Conn) (hc : ReaderIdle c) (hw : WHealthy c.w) (b0 b1 : UInt8) (rest : Bytes)
    (hp : c.r.buf.pending = b0 :: b1 :: rest)
    (hv : Violates c.r.isServer c.r.nego false (parseHdr b0 b1)) :
    ∃ msg c', nextReader c = (if c.r.errCount + 1 ≥ 1000 then NRRes.panic else .err (.protocol msg), c') ∧
      c'.r.readErr = some (.protocol msg) ∧
      c'.r.hlog = c.r.hlog ∧ c'.r.buf.pending = rest ∧
      c'.w.wire = c.w.wire ++ closeFrameBytes c.w ((closePayload 1002 (strBytes msg)).take 125) ∧
      c'.w.writeErr = some .closeSent := by
  first | exact ReaderLift.nextReader_violation_total .. | (apply ReaderLift.nextReader_violation_total <;> assumption)

/-- fail-stop inside a fragmented message: the Read that meets the violating frame returns the error
    with zero bytes — e.g. a new text/binary frame where a continuation is due -/
theorem read_violation_mid_message (c : Conn) (rid : Nat) (hc : MidMessage c rid) (hw : WHealthy c.w) (b0 b1 : UInt8) (rest : Bytes)
    (hp : c.r.buf.pending = b0 :: b1 :: rest)
    (hv : Violates c.r.isServer c.r.nego true (parseHdr b0 b1)) (k : Nat) (hk : 0 < k) :
    ∃ msg c', mrRead c rid k = (([], some (.protocol msg)), c') ∧ c'.r.readErr = some (.protocol msg) ∧
      c'.r.hlog = c.r.hlog ∧
      c'.w.wire = c.w.wire ++ closeFrameBytes c.w ((closePayload 1002 (strBytes msg)).take 125) := by
  first | exact ReaderLift.read_violation_mid_message .. | (apply ReaderLift.read_violation_mid_message <;> assumption)

open WS.ReaderMore in
/-- on reachable states (failed-call counter 0 while no error is latched) there is no panic branch -/
theorem nextReader_violation_reachable (c : Conn) (hc : ReaderIdle c) (hi : CountInv c) (hw : WHealthy c.w) (b0 b1 : UInt8) (rest : Bytes)
    (hp : c.r.buf.pending = b0 :: b1 :: rest)
    (hv : Violates c.r.isServer c.r.nego false (parseHdr b0 b1)) :
    ∃ msg c', nextReader c = (.err (.protocol msg), c') ∧ c'.r.readErr = some (.protocol msg) ∧
      c'.r.hlog = c.r.hlog ∧ c'.r.buf.pending = rest ∧
      c'.w.wire = c.w.wire ++ closeFrameBytes c.w ((closePayload 1002 (strBytes msg)).take 125) ∧
      c'.w.writeErr = some .closeSent := by
  first | exact ReaderMore.nextReader_violation_reach .. | (apply ReaderMore.nextReader_violation_reach <;> assumption)

end WS.Props.C04
