import WS.Lemmas.HdrLogic
import WS.Gen.Skeletons
/-
  C04 — Framing violations are rejected fail-stop (decision core; the state-machine statements
  `header_violation_rejected`, `topbit_length_rejected`, `nextReader_sticky` are added from
  WS/Lemmas/ReaderRejects.lean).
-/
namespace WS.Props.C04
open WS WS.HdrLogic

/-- the reader's header check reports an error exactly for the violations the property lists, for
    every header over the full alphabet, either role, negotiated or not, idle or mid-message -/
theorem violates_iff_model_error (isServer nego final : Bool) (h : Hdr) :
    headerErrors isServer nego final h = [] ↔ ¬ Violates isServer nego (!final) h :=
  headerErrors_nil_iff isServer nego final h

/-- the accepted close codes are exactly 1000–1003, 1007–1013 and 3000–4999 (generated table) -/
theorem closecode_spec (c : Nat) :
    isValidReceivedCloseCode c = true ↔ ((1000 ≤ c ∧ c ≤ 1003) ∨ (1007 ≤ c ∧ c ≤ 1013) ∨ (3000 ≤ c ∧ c ≤ 4999)) :=
  HdrLogic.closecode_spec c

/-- the check list recognised in today's advanceFrame is the one the model implements: nine
    checks, in this order, with these guards -/
theorem header_checks_as_modelled :
    Gen.headerChecks =
      [("rsv1 && !(c.newDecompressionReader != nil)", "\"RSV1 set\""),
       ("rsv2", "\"RSV2 set\""),
       ("rsv3", "\"RSV3 set\""),
       ("switch frameType case CloseMessage,PingMessage,PongMessage && c.readRemaining > maxControlFramePayloadSize", "\"len > 125 for control\""),
       ("switch frameType case CloseMessage,PingMessage,PongMessage && !final", "\"FIN not set on control\""),
       ("switch frameType case TextMessage,BinaryMessage && !c.readFinal", "\"data before FIN\""),
       ("switch frameType case continuationFrame && c.readFinal", "\"continuation after FIN\""),
       ("switch frameType default", "\"bad opcode \"+strconv.Itoa(frameType)"),
       ("mask != c.isServer", "\"bad MASK\"")] := by decide

/-- non-vacuity: RSV2 on a text frame to an idle server reader is a violation, and the model flags it -/
example : headerErrors true false true (parseHdr 0xA1 0x80) = ["RSV2 set"] := by decide

end WS.Props.C04
