import WS.Lemmas.ViolHlog
import WS.Lemmas.ViolProgram
import WS.Lemmas.AuditGaps
import WS.Lemmas.HdrLogic
import WS.Lemmas.ReaderRejects
import WS.Gen.Skeletons
import WS.Lemmas.ReaderLift
import WS.Lemmas.ReaderMore
/-
  C04 — Framing violations are rejected fail-stop and never reach the application.
-/
namespace WS.Props.C04
open WS WS.HdrLogic WS.SrcLaw WS.ReaderRejects

/-- the reader's header check reports an error exactly for the violations the property lists, for
    every header over the full alphabet, either role, negotiated or not, idle or mid-message -/
theorem violates_iff_model_error (isServer nego final : Bool) (h : Hdr) :
    headerErrors isServer nego final h = [] ↔ ¬ Violates isServer nego (!final) h :=
  headerErrors_nil_iff isServer nego final h

/-- the accepted close codes are exactly 1000–1003, 1007–1013 and 3000–4999 (generated table) -/
theorem closecode_spec (c : Nat) :
    isValidReceivedCloseCode c = true ↔ ((1000 ≤ c ∧ c ≤ 1003) ∨ (1007 ≤ c ∧ c ≤ 1013) ∨ (3000 ≤ c ∧ c ≤ 4999)) :=
  HdrLogic.closecode_spec c

/-- the check list recognised in today's advanceFrame is the one the model implements -/
theorem header_checks_as_modelled :
    Gen.headerChecks =
      [("rsv1 && !(c.newDecompressionReader != nil)", "\"RSV1 set\""),
       ("rsv2", "\"RSV2 set\""),
       ("rsv3", "\"RSV3 set\""),
       ("switch frameType case CloseMessage,PingMessage,PongMessage && c.readRemaining > maxControlFramePayloadSize", "\"len > 125 for control\""),
       ("switch frameType case CloseMessage,PingMessage,PongMessage && !final", "\"FIN not set on control\""),
       ("switch frameType case TextMessage,BinaryMessage && !c.readFinal", "\"data before FIN\""),
       ("switch frameType case continuationFrame && c.readFinal", "\"continuation after FIN\""),
       ("switch frameType default", "\"bad opcode \"+strconv.Itoa(frameType)"),
       ("mask != c.isServer", "\"bad MASK\"")] := by decide +kernel

/-- C04 (state machine): at any frame boundary — idle or inside a fragmented message, either role,
    negotiated or not, any source chunking — a header that violates the framing rules makes
    advanceFrame fail with a protocol error; no handler runs, the frame's payload is never looked
    at, and exactly one close frame with status 1002 is written -/
theorem header_violation_rejected (c : Conn) (hc : AtBoundary c) (hw : WHealthy c.w) (b0 b1 : UInt8) (rest : Bytes)
    (hp : c.r.buf.pending = b0 :: b1 :: rest)
    (hv : Violates c.r.isServer c.r.nego (!c.r.final) (parseHdr b0 b1)) :
    ∃ msg c', advanceFrame c = (.error (.protocol msg), c') ∧
      c'.r.hlog = c.r.hlog ∧ c'.r.buf.pending = rest ∧
      c'.w.wire = c.w.wire ++ closeFrameBytes c.w ((closePayload 1002 (strBytes msg)).take 125) ∧
      c'.w.writeErr = some .closeSent := by
  first | exact ReaderRejects.header_violation_rejected .. | (apply ReaderRejects.header_violation_rejected <;> assumption)

/-- a 64-bit length with the top bit set: ErrReadLimit before any payload, a 1009 (not a 1002) close -/
theorem topbit_length_rejected (c : Conn) (hc : AtBoundary c) (hw : WHealthy c.w) (b0 b1 : UInt8) (ext rest : Bytes)
    (hp : c.r.buf.pending = b0 :: b1 :: ext ++ rest) (hext : ext.length = 8)
    (hok : ¬ Violates c.r.isServer c.r.nego (!c.r.final) (parseHdr b0 b1))
    (h127 : (parseHdr b0 b1).len7 = 127) (htop : 2 ^ 63 ≤ beVal ext) :
    ∃ c', advanceFrame c = (.error .readLimit, c') ∧ c'.r.hlog = c.r.hlog ∧ c'.r.buf.pending = rest ∧
      c'.w.wire = c.w.wire ++ closeFrameBytes c.w (closePayload 1009 []) ∧ c'.w.writeErr = some .closeSent := by
  first | exact ReaderRejects.topbit_length_rejected .. | (apply ReaderRejects.topbit_length_rejected <;> assumption)

/-- every later read fails with the same error, runs no handler, writes and consumes nothing -/
theorem nextReader_sticky (c : Conn) (e : RErr) (he : c.r.readErr = some e) (hn : c.r.errCount + 1 < 1000) :
    ∃ c', nextReader c = (.err e, c') ∧ c'.r.readErr = some e ∧ c'.w = c.w ∧ c'.r.hlog = c.r.hlog ∧
      c'.r.buf = c.r.buf ∧ c'.r.errCount = c.r.errCount + 1 := by
  first | exact ReaderRejects.nextReader_sticky .. | (apply ReaderRejects.nextReader_sticky <;> assumption)

/-- … up to the documented panic of the 1000th call on a failed connection -/
theorem nextReader_panics_at_1000 (c : Conn) (e : RErr) (he : c.r.readErr = some e) (hn : 1000 ≤ c.r.errCount + 1) :
    ∃ c', nextReader c = (.panic, c') := by
  first | exact ReaderRejects.nextReader_panics_at_1000 .. | (apply ReaderRejects.nextReader_panics_at_1000 <;> assumption)

/-- nothing further is delivered through a message reader either -/
theorem mrRead_after_error (c : Conn) (e : RErr) (he : c.r.readErr = some e) (rid k : Nat) :
    ((mrRead c rid k).1).1 = [] ∧ ((mrRead c rid k).1).2.isSome ∧ (mrRead c rid k).2.w = c.w := by
  first | exact ReaderRejects.mrRead_after_error .. | (apply ReaderRejects.mrRead_after_error <;> assumption)

/-- non-vacuity: RSV2 on a text frame to an idle server reader is a violation, and the model flags it -/
example : headerErrors true false true (parseHdr 0xA1 0x80) = ["RSV2 set"] := by decide

open WS.Codec WS.ReaderDecodes WS.ReaderLift
/-- fail-stop at the API (reader idle, any conformant history behind it): the NextReader call that meets
    a violating frame returns the protocol error (or, on what would be the 1000th failed call, the
    repeated-read panic), records it, invokes no handler, consumes nothing beyond the 2 header bytes,
    and writes exactly one 1002 close frame -/
theorem nextReader_violation (c : Conn) (hc : ReaderIdle c) (hw : WHealthy c.w) (b0 b1 : UInt8) (rest : Bytes)
    (hp : c.r.buf.pending = b0 :: b1 :: rest)
    (hv : Violates c.r.isServer c.r.nego false (parseHdr b0 b1)) :
    ∃ msg c', nextReader c = (if c.r.errCount + 1 ≥ 1000 then NRRes.panic else .err (.protocol msg), c') ∧
      c'.r.readErr = some (.protocol msg) ∧
      c'.r.hlog = c.r.hlog ∧ c'.r.buf.pending = rest ∧
      c'.w.wire = c.w.wire ++ closeFrameBytes c.w ((closePayload 1002 (strBytes msg)).take 125) ∧
      c'.w.writeErr = some .closeSent := by
  first | exact ReaderLift.nextReader_violation_total .. | (apply ReaderLift.nextReader_violation_total <;> assumption)

/-- fail-stop inside a fragmented message: the Read that meets the violating frame returns the error
    with zero bytes — e.g. a new text/binary frame where a continuation is due -/
theorem read_violation_mid_message (c : Conn) (rid : Nat) (hc : MidMessage c rid) (hw : WHealthy c.w) (b0 b1 : UInt8) (rest : Bytes)
    (hp : c.r.buf.pending = b0 :: b1 :: rest)
    (hv : Violates c.r.isServer c.r.nego true (parseHdr b0 b1)) (k : Nat) (hk : 0 < k) :
    ∃ msg c', mrRead c rid k = (([], some (.protocol msg)), c') ∧ c'.r.readErr = some (.protocol msg) ∧
      c'.r.hlog = c.r.hlog ∧
      c'.w.wire = c.w.wire ++ closeFrameBytes c.w ((closePayload 1002 (strBytes msg)).take 125) := by
  first | exact ReaderLift.read_violation_mid_message .. | (apply ReaderLift.read_violation_mid_message <;> assumption)

open WS.ReaderMore in
/-- on reachable states (failed-call counter 0 while no error is latched) there is no panic branch -/
theorem nextReader_violation_reachable (c : Conn) (hc : ReaderIdle c) (hi : CountInv c) (hw : WHealthy c.w) (b0 b1 : UInt8) (rest : Bytes)
    (hp : c.r.buf.pending = b0 :: b1 :: rest)
    (hv : Violates c.r.isServer c.r.nego false (parseHdr b0 b1)) :
    ∃ msg c', nextReader c = (.err (.protocol msg), c') ∧ c'.r.readErr = some (.protocol msg) ∧
      c'.r.hlog = c.r.hlog ∧ c'.r.buf.pending = rest ∧
      c'.w.wire = c.w.wire ++ closeFrameBytes c.w ((closePayload 1002 (strBytes msg)).take 125) ∧
      c'.w.writeErr = some .closeSent := by
  first | exact ReaderMore.nextReader_violation_reach .. | (apply ReaderMore.nextReader_violation_reach <;> assumption)

open WS.Codec WS.ReaderDecodes WS.RoleGeneric WS.AuditGaps in
/-- close frames: a status code a peer may not send is a protocol violation — handler not run, protocol error,
    1002 close frame written (either role) -/
theorem bad_close_code_rejected (c : Conn) (hc : AtBoundary c) (hw : WHealthy c.w)
    (key : Key) (code : Nat) (reason rest : Bytes)
    (hcode : isValidReceivedCloseCode code = false) (hc16 : code < 65536) (hl : reason.length ≤ 123)
    (hp : c.r.buf.pending = PFrame.enc c.r.isServer ⟨8, true, key, beBytes 2 code ++ reason⟩ ++ rest) :
    ∃ msg c', advanceFrame c = (.error (.protocol msg), c') ∧ c'.r.hlog = c.r.hlog ∧
      c'.w.wire = c.w.wire ++ closeFrameBytes c.w ((closePayload 1002 (strBytes msg)).take 125) ∧
      c'.w.writeErr = some .closeSent := by
  first | exact AuditGaps.bad_close_code_rejected .. | (apply AuditGaps.bad_close_code_rejected <;> assumption)

open WS.Codec WS.ReaderDecodes WS.RoleGeneric WS.AuditGaps in
/-- close frames: a reason that is not UTF-8 likewise -/
theorem bad_close_utf8_rejected (c : Conn) (hc : AtBoundary c) (hw : WHealthy c.w)
    (key : Key) (code : Nat) (reason rest : Bytes)
    (hcode : isValidReceivedCloseCode code = true) (hc16 : code < 65536) (hutf : Spec.validUtf8 reason = false)
    (hl : reason.length ≤ 123)
    (hp : c.r.buf.pending = PFrame.enc c.r.isServer ⟨8, true, key, beBytes 2 code ++ reason⟩ ++ rest) :
    ∃ msg c', advanceFrame c = (.error (.protocol msg), c') ∧ c'.r.hlog = c.r.hlog ∧
      c'.w.wire = c.w.wire ++ closeFrameBytes c.w ((closePayload 1002 (strBytes msg)).take 125) ∧
      c'.w.writeErr = some .closeSent := by
  first | exact AuditGaps.bad_close_utf8_rejected .. | (apply AuditGaps.bad_close_utf8_rejected <;> assumption)


open WS.Codec WS.ReaderDecodes WS.ReadProgram WS.CutProgram in
/-- C04 for EVERY read program (`runProg`, C03.any_read_program), delivery clause: whole conformant
    messages, then a frame whose header violates framing at a message boundary (any of the violations of
    `Violates`), then ANY bytes; whatever sequence of NextReader / Read(k) calls the application makes —
    also after the error —, with or without a healthy writer: the messages its trace reports as complete
    (`C05`'s `completed`) form a sublist of the whole messages, in order. Nothing from the violating frame
    or after it is ever delivered as a message, and everything delivered is byte-identical.
    PARTIAL with respect to the full statement `violation_program` (kept, commented, in
    WS/Lemmas/ViolProgram.lean; not refuted): proved when every whole message is within the read limit, and
    stated here for the delivery conjunct alone; `violation_program_fits_partial` below has both. -/
theorem violation_program_fits_completed_partial (c : Conn) (hc : ReaderIdle c) (msgs : List (Nat × List PFrame))
    (hm : ∀ m ∈ msgs, (m.1 = 1 ∨ m.1 = 2) ∧ MsgShape m.1 m.2 ∧ (dataPayload m.2).length < 2 ^ 62 ∧
      (c.r.limit ≤ 0 ∨ ((dataPayload m.2).length : Int) ≤ c.r.limit))
    (b0 b1 : UInt8) (tail : Bytes)
    (hv : Violates c.r.isServer c.r.nego false (parseHdr b0 b1))
    (hp : c.r.buf.pending = (msgs.map (fun m => encAll c.r.isServer m.2)).flatten ++ b0 :: b1 :: tail)
    (ops : List ROp) :
    List.Sublist (completed (runProg ops c none).1) (msgs.map (fun m => (m.1, dataPayload m.2))) := by
  first | exact WS.ViolProgram.violation_program_fits_completed_partial .. | (apply WS.ViolProgram.violation_program_fits_completed_partial <;> assumption)

open WS.Codec WS.ReaderDecodes WS.ReadProgram WS.CutProgram in
/-- the full statement `violation_program` under the one remaining restriction (every whole message
    within the read limit): BOTH conjuncts — the messages reported complete are a sublist of the whole
    messages, AND the handlers have seen only (a prefix of) the control frames of the whole messages, in
    wire order: nothing from the violating frame or after it is delivered or passed to a handler,
    whatever the application calls and in whatever order -/
theorem violation_program_fits_partial (c : Conn) (hc : ReaderIdle c) (msgs : List (Nat × List PFrame))
    (hm : ∀ m ∈ msgs, (m.1 = 1 ∨ m.1 = 2) ∧ MsgShape m.1 m.2 ∧ (dataPayload m.2).length < 2 ^ 62 ∧
      (c.r.limit ≤ 0 ∨ ((dataPayload m.2).length : Int) ≤ c.r.limit))
    (b0 b1 : UInt8) (tail : Bytes)
    (hv : Violates c.r.isServer c.r.nego false (parseHdr b0 b1))
    (hp : c.r.buf.pending = (msgs.map (fun m => encAll c.r.isServer m.2)).flatten ++ b0 :: b1 :: tail)
    (ops : List ROp) :
    List.Sublist (completed (runProg ops c none).1) (msgs.map (fun m => (m.1, dataPayload m.2))) ∧
    (runProg ops c none).2.r.hlog <+: c.r.hlog ++ (msgs.map (fun m => ctlEvents m.2)).flatten :=
  ⟨WS.ViolProgram.violation_program_fits_completed_partial c hc msgs hm b0 b1 tail hv hp ops,
   WS.ViolHlog.violation_program_hlog_fits_partial c hc msgs hm b0 b1 tail hv hp ops⟩

/-! ### non-vacuity -/
section NonVacuity
set_option linter.defProp false
open WS WS.HdrLogic WS.SrcLaw WS.ReaderRejects WS.Codec WS.ReaderDecodes WS.ReaderLift WS.ReaderMore

/-- a client connection (4096-byte buffers, two masking keys in the key source) whose reader is idle
    between messages after having handled one pong; pending on the source (partly buffered, partly
    still in two transport chunks): a final text frame with RSV2 set carrying "abc", then a ping -/
def witIdle : Conn :=
  { w := { newW false 4096 false false with keys := [1, 2, 3, 4, 5, 6, 7, 8] },
    r := { isServer := false, nego := false, hlog := [.pong [7]],
           buf := { size := 4096, buf := [0xA1, 0x03],
                    t := { chunks := [[0x61, 0x62], [0x63, 0x89, 0x00]] }, total := 7 } } }

def witIdle_wf : WF witIdle.r.buf := ⟨by decide, by decide, by decide, (by intro e h; cases h)⟩
def witIdle_atBoundary : AtBoundary witIdle := ⟨rfl, rfl, witIdle_wf, by decide⟩
def witIdle_readerIdle : ReaderIdle witIdle :=
  ⟨rfl, rfl, rfl, witIdle_wf, by decide, by decide, (by intro id h; cases h), (by intro id h; cases h)⟩
def witIdle_healthy : WHealthy witIdle.w := ⟨rfl, rfl⟩
def witIdle_pending : witIdle.r.buf.pending = 0xA1 :: 0x03 :: [0x61, 0x62, 0x63, 0x89, 0x00] := by decide
def witIdle_violates : Violates witIdle.r.isServer witIdle.r.nego (!witIdle.r.final) (parseHdr 0xA1 0x03) :=
  Or.inl (by decide)
def witIdle_countInv : CountInv witIdle := fun _ => rfl

/-- non-vacuity of `header_violation_rejected` (idle reader): all hypotheses hold for `witIdle`
    (RSV2 on a text frame), and the theorem applies -/
example : ∃ msg c', advanceFrame witIdle = (.error (.protocol msg), c') ∧
      c'.r.hlog = [.pong [7]] ∧ c'.r.buf.pending = [0x61, 0x62, 0x63, 0x89, 0x00] ∧
      c'.w.wire = witIdle.w.wire ++ closeFrameBytes witIdle.w ((closePayload 1002 (strBytes msg)).take 125) ∧
      c'.w.writeErr = some .closeSent :=
  header_violation_rejected witIdle witIdle_atBoundary witIdle_healthy 0xA1 0x03 _ witIdle_pending witIdle_violates

/-- non-vacuity of `nextReader_violation`: `ReaderIdle`, `WHealthy`, the pending bytes and `Violates`
    hold together for `witIdle` -/
example : ∃ msg c', nextReader witIdle = (if witIdle.r.errCount + 1 ≥ 1000 then NRRes.panic else .err (.protocol msg), c') ∧
      c'.r.readErr = some (.protocol msg) ∧
      c'.r.hlog = witIdle.r.hlog ∧ c'.r.buf.pending = [0x61, 0x62, 0x63, 0x89, 0x00] ∧
      c'.w.wire = witIdle.w.wire ++ closeFrameBytes witIdle.w ((closePayload 1002 (strBytes msg)).take 125) ∧
      c'.w.writeErr = some .closeSent :=
  nextReader_violation witIdle witIdle_readerIdle witIdle_healthy 0xA1 0x03 _ witIdle_pending witIdle_violates

/-- non-vacuity of `nextReader_violation_reachable`: additionally `CountInv witIdle` -/
example : ∃ msg c', nextReader witIdle = (.err (.protocol msg), c') ∧ c'.r.readErr = some (.protocol msg) ∧
      c'.r.hlog = witIdle.r.hlog ∧ c'.r.buf.pending = [0x61, 0x62, 0x63, 0x89, 0x00] ∧
      c'.w.wire = witIdle.w.wire ++ closeFrameBytes witIdle.w ((closePayload 1002 (strBytes msg)).take 125) ∧
      c'.w.writeErr = some .closeSent :=
  nextReader_violation_reachable witIdle witIdle_readerIdle witIdle_countInv witIdle_healthy 0xA1 0x03 _
    witIdle_pending witIdle_violates

/-- the concrete outcome on `witIdle`, evaluated: the error names the violation and the reader's
    state is as the theorems say -/
example : (nextReader witIdle).2.r.readErr = some (.protocol "RSV2 set") ∧ (nextReader witIdle).2.r.hlog = [.pong [7]] := by
  decide

/-- a server connection in the middle of a fragmented binary message (message reader 3 is current,
    5 payload bytes counted so far, the non-final first frame fully delivered); the peer now starts
    a NEW masked text frame "hi" where a continuation is due, followed by further bytes -/
def witMid : Conn :=
  { w := newW true 4096 false false,
    r := { isServer := true, nego := false, final := false, length := 5, msgReader := some 3, nextId := 4,
           maskKey := ⟨9, 9, 9, 9⟩, maskPos := 1,
           buf := { size := 4096, buf := [0x81, 0x82, 1, 2, 3, 4, 0x69],
                    t := { chunks := [[0x6B, 0x80, 0x80]], term := .transport 5 }, total := 10 } } }

def witMid_wf : WF witMid.r.buf := ⟨by decide, by decide, by decide, (by intro e h; cases h)⟩
def witMid_mid : MidMessage witMid 3 := ⟨rfl, rfl, rfl, rfl, witMid_wf, by decide, by decide⟩
def witMid_pending : witMid.r.buf.pending = 0x81 :: 0x82 :: [1, 2, 3, 4, 0x69, 0x6B, 0x80, 0x80] := by decide
def witMid_violates : Violates witMid.r.isServer witMid.r.nego true (parseHdr 0x81 0x82) :=
  Or.inr (Or.inr (Or.inr (Or.inr (Or.inr (Or.inr (Or.inr (Or.inl ⟨Or.inl (by decide), rfl⟩)))))))

/-- non-vacuity of `read_violation_mid_message`: `MidMessage`, `WHealthy`, pending bytes, `Violates`
    (a new text frame inside an unfinished message) hold together for `witMid`; Read of 512 bytes -/
example : ∃ msg c', mrRead witMid 3 512 = (([], some (.protocol msg)), c') ∧ c'.r.readErr = some (.protocol msg) ∧
      c'.r.hlog = witMid.r.hlog ∧
      c'.w.wire = witMid.w.wire ++ closeFrameBytes witMid.w ((closePayload 1002 (strBytes msg)).take 125) :=
  read_violation_mid_message witMid 3 witMid_mid ⟨rfl, rfl⟩ 0x81 0x82 _ witMid_pending witMid_violates 512 (by decide)

/-- non-vacuity of `header_violation_rejected` inside a fragmented message (`final = false`) -/
example : ∃ msg c', advanceFrame witMid = (.error (.protocol msg), c') ∧
      c'.r.hlog = witMid.r.hlog ∧ c'.r.buf.pending = [1, 2, 3, 4, 0x69, 0x6B, 0x80, 0x80] ∧
      c'.w.wire = witMid.w.wire ++ closeFrameBytes witMid.w ((closePayload 1002 (strBytes msg)).take 125) ∧
      c'.w.writeErr = some .closeSent :=
  header_violation_rejected witMid ⟨rfl, rfl, witMid_wf, by decide⟩ ⟨rfl, rfl⟩ 0x81 0x82 _ witMid_pending
    (by rw [show witMid.r.final = false from rfl]; exact witMid_violates)

example : (mrRead witMid 3 512).1 = ([], some (.protocol "data before FIN")) := by decide

/-- an idle client reader facing a binary frame whose 64-bit length field has the top bit set
    (0x8000000000000010), one more byte behind it -/
def witTop : Conn :=
  { w := { newW false 4096 false false with keys := [1, 2, 3, 4] },
    r := { isServer := false, nego := false,
           buf := { size := 4096, buf := [], t := { chunks := [[0x82, 0x7F, 0x80, 0, 0], [0, 0, 0, 0, 0x10, 0xAA]] }, total := 11 } } }

def witTop_wf : WF witTop.r.buf := ⟨by decide, by decide, by decide, (by intro e h; cases h)⟩

/-- non-vacuity of `topbit_length_rejected`: all eight hypotheses hold for `witTop` -/
example : ∃ c', advanceFrame witTop = (.error .readLimit, c') ∧ c'.r.hlog = witTop.r.hlog ∧ c'.r.buf.pending = [0xAA] ∧
      c'.w.wire = witTop.w.wire ++ closeFrameBytes witTop.w (closePayload 1009 []) ∧ c'.w.writeErr = some .closeSent :=
  topbit_length_rejected witTop ⟨rfl, rfl, witTop_wf, by decide⟩ ⟨rfl, rfl⟩ 0x82 0x7F [0x80, 0, 0, 0, 0, 0, 0, 0x10] [0xAA]
    (by decide) rfl
    (by rw [← violates_iff_model_error]; decide) (by decide) (by decide)

/-- a client connection whose reader failed with a protocol error two calls ago (a message reader
    had been handed out before) and which still has unread bytes buffered -/
def witFailed (n : Nat) : Conn :=
  { w := { newW false 4096 false false with writeErr := some .closeSent, wire := [0x88, 0x80, 0, 0, 0, 0] },
    r := { isServer := false, nego := false, readErr := some (.protocol "RSV2 set"), errCount := n,
           msgReader := some 0, nextId := 1, hlog := [.ping [1]],
           buf := { size := 4096, buf := [0x61, 0x62, 0x63], total := 5 } } }

/-- non-vacuity of `nextReader_sticky`: second failed call -/
example : ∃ c', nextReader (witFailed 1) = (.err (.protocol "RSV2 set"), c') ∧ c'.r.readErr = some (.protocol "RSV2 set") ∧
      c'.w = (witFailed 1).w ∧ c'.r.hlog = (witFailed 1).r.hlog ∧
      c'.r.buf = (witFailed 1).r.buf ∧ c'.r.errCount = (witFailed 1).r.errCount + 1 :=
  nextReader_sticky (witFailed 1) _ rfl (by decide)

/-- non-vacuity of `nextReader_panics_at_1000`: 999 failed calls before this one -/
example : ∃ c', nextReader (witFailed 999) = (.panic, c') :=
  nextReader_panics_at_1000 (witFailed 999) (.protocol "RSV2 set") rfl (by decide)

/-- non-vacuity of `mrRead_after_error`: Read(512) on the message reader handed out earlier -/
example : ((mrRead (witFailed 1) 0 512).1).1 = [] ∧ ((mrRead (witFailed 1) 0 512).1).2.isSome ∧
    (mrRead (witFailed 1) 0 512).2.w = (witFailed 1).w :=
  mrRead_after_error (witFailed 1) (.protocol "RSV2 set") rfl 0 512

/-- instances of `violates_iff_model_error` / `closecode_spec` (no hypotheses): a masked ping of
    126 bytes to a server, and close code 1005 -/
example : headerErrors true false true (parseHdr 0x89 0xFE) = ["len > 125 for control"] ∧
    isValidReceivedCloseCode 1005 = false ∧ isValidReceivedCloseCode 3000 = true := by decide

/-- a SERVER connection (default handlers), reader idle after one ping; pending: a masked close frame with the
    status 1005 (which may never appear on the wire) and reason "x", key a0 b0 c0 d0, split over buffer
    and transport, then one stray byte -/
def witSrvBadClose : Conn :=
  { w := newW true 4096 false false,
    r := { isServer := true, nego := false, hlog := [.ping [0x70]],
           buf := { size := 4096, buf := (PFrame.enc true ⟨8, true, ⟨0xa0, 0xb0, 0xc0, 0xd0⟩, beBytes 2 1005 ++ [0x78]⟩).take 3,
                    t := { chunks := [(PFrame.enc true ⟨8, true, ⟨0xa0, 0xb0, 0xc0, 0xd0⟩, beBytes 2 1005 ++ [0x78]⟩).drop 3 ++ [0xAA]] },
                    total := 10 } } }

def witSrvBadClose_atBoundary : AtBoundary witSrvBadClose :=
  ⟨rfl, rfl, ⟨by decide, by decide, by decide, (by intro e h; cases h)⟩, by decide⟩

/-- the bytes really are a masked close frame: header 88 83, key, (03 ED 78) XOR key -/
example : witSrvBadClose.r.buf.pending =
    [0x88, 0x83, 0xa0, 0xb0, 0xc0, 0xd0, 0x03 ^^^ 0xa0, 0xED ^^^ 0xb0, 0x78 ^^^ 0xc0, 0xAA] := by decide

/-- non-vacuity of `bad_close_code_rejected` (server reader): all hypotheses hold for `witSrvBadClose`,
    status 1005, reason "x", masked with a non-zero key -/
example : ∃ msg c', advanceFrame witSrvBadClose = (.error (.protocol msg), c') ∧ c'.r.hlog = witSrvBadClose.r.hlog ∧
      c'.w.wire = witSrvBadClose.w.wire ++ closeFrameBytes witSrvBadClose.w ((closePayload 1002 (strBytes msg)).take 125) ∧
      c'.w.writeErr = some .closeSent :=
  bad_close_code_rejected witSrvBadClose witSrvBadClose_atBoundary ⟨rfl, rfl⟩ ⟨0xa0, 0xb0, 0xc0, 0xd0⟩ 1005 [0x78] [0xAA]
    (by decide) (by decide) (by decide) (by decide)

/-- evaluated: the close handler did not run (the log still holds only the earlier ping), a protocol error
    is returned, and the server's (unmasked) close frame carries 1002 -/
example : (advanceFrame witSrvBadClose).2.r.hlog = [.ping [0x70]] ∧
    (advanceFrame witSrvBadClose).2.w.wire = 0x88 :: 21 :: 0x03 :: 0xEA :: strBytes "bad close code 1005" ∧
    (advanceFrame witSrvBadClose).2.w.writeErr = some .closeSent := by decide +kernel

/-- a CLIENT connection in the middle of a fragmented message; pending: an (unmasked) close frame with the
    status 999 and reason "no", then a ping header -/
def witCliBadClose : Conn :=
  { w := { newW false 4096 false false with keys := [1, 2, 3, 4, 5, 6, 7, 8] },
    r := { isServer := false, nego := false, final := false, length := 3, msgReader := some 0, nextId := 1,
           hlog := [.pong [9]],
           buf := { size := 4096, buf := [0x88, 0x04, 0x03],
                    t := { chunks := [[0xE7, 0x6e], [0x6f, 0x89, 0x00]] }, total := 8 } } }

def witCliBadClose_atBoundary : AtBoundary witCliBadClose :=
  ⟨rfl, rfl, ⟨by decide, by decide, by decide, (by intro e h; cases h)⟩, by decide⟩

/-- non-vacuity of `bad_close_code_rejected` (client reader, mid-message): status 999, reason "no" -/
example : ∃ msg c', advanceFrame witCliBadClose = (.error (.protocol msg), c') ∧ c'.r.hlog = witCliBadClose.r.hlog ∧
      c'.w.wire = witCliBadClose.w.wire ++ closeFrameBytes witCliBadClose.w ((closePayload 1002 (strBytes msg)).take 125) ∧
      c'.w.writeErr = some .closeSent :=
  bad_close_code_rejected witCliBadClose witCliBadClose_atBoundary ⟨rfl, rfl⟩ ⟨0, 0, 0, 0⟩ 999 [0x6e, 0x6f] [0x89, 0x00]
    (by decide) (by decide) (by decide) (by decide)

/-- a SERVER connection, reader idle; pending: a masked close frame with the accepted status 1000 but the
    reason bytes ff fe (not UTF-8), key 37 fa 21 3d, then two further bytes -/
def witSrvBadUtf8 : Conn :=
  { w := newW true 4096 false false,
    r := { isServer := true, nego := false, hlog := [.ping [0x70]],
           buf := { size := 4096, buf := (PFrame.enc true ⟨8, true, ⟨0x37, 0xfa, 0x21, 0x3d⟩, beBytes 2 1000 ++ [0xff, 0xfe]⟩).take 5,
                    t := { chunks := [(PFrame.enc true ⟨8, true, ⟨0x37, 0xfa, 0x21, 0x3d⟩, beBytes 2 1000 ++ [0xff, 0xfe]⟩).drop 5, [0x89, 0x80]] },
                    total := 12 } } }

def witSrvBadUtf8_atBoundary : AtBoundary witSrvBadUtf8 :=
  ⟨rfl, rfl, ⟨by decide, by decide, by decide, (by intro e h; cases h)⟩, by decide⟩

example : witSrvBadUtf8.r.buf.pending =
    [0x88, 0x84, 0x37, 0xfa, 0x21, 0x3d, 0x03 ^^^ 0x37, 0xE8 ^^^ 0xfa, 0xff ^^^ 0x21, 0xfe ^^^ 0x3d, 0x89, 0x80] := by decide

/-- non-vacuity of `bad_close_utf8_rejected`: all hypotheses hold for `witSrvBadUtf8`, status 1000,
    reason ff fe -/
example : ∃ msg c', advanceFrame witSrvBadUtf8 = (.error (.protocol msg), c') ∧ c'.r.hlog = witSrvBadUtf8.r.hlog ∧
      c'.w.wire = witSrvBadUtf8.w.wire ++ closeFrameBytes witSrvBadUtf8.w ((closePayload 1002 (strBytes msg)).take 125) ∧
      c'.w.writeErr = some .closeSent :=
  bad_close_utf8_rejected witSrvBadUtf8 witSrvBadUtf8_atBoundary ⟨rfl, rfl⟩ ⟨0x37, 0xfa, 0x21, 0x3d⟩ 1000 [0xff, 0xfe] [0x89, 0x80]
    (by decide) (by decide) (by decide) (by decide) (by decide)

/-- evaluated through NextReader (which latches what advanceFrame returned): which protocol errors these are -/
example : (nextReader witSrvBadClose).2.r.readErr = some (.protocol "bad close code 1005") ∧
    (nextReader witCliBadClose).2.r.readErr = some (.protocol "bad close code 999") ∧
    (nextReader witSrvBadUtf8).2.r.readErr = some (.protocol "invalid utf8 payload in close frame") := by decide

section Program
open WS.ReadProgram WS.CutProgram

/-- a text message "Hi" from a server, unfragmented -/
def witHi : List PFrame := [{ op := 1, fin := true, key := default, payload := [0x48, 0x69] }]

def witHi_shape : MsgShape 1 witHi := MsgShape.single _ rfl rfl (by decide)

/-- an idle client reader facing "Hi", then a frame with RSV2 set claiming 3 bytes, then a perfectly
    well-formed text frame "ok" that must never be delivered -/
def witViolAfter : Conn :=
  { w := { newW false 4096 false false with keys := [1, 2, 3, 4] },
    r := { isServer := false, nego := false,
           buf := { size := 4096, buf := [0x81, 0x02, 0x48],
                    t := { chunks := [[0x69, 0xA1, 0x03, 0x61], [0x62, 0x63, 0x81, 0x02, 0x6f, 0x6b]] }, total := 15 } } }

def witViolAfter_idle : ReaderIdle witViolAfter :=
  ⟨rfl, rfl, rfl, ⟨by decide, by decide, by decide, (by intro e h; cases h)⟩, by decide, by decide,
    (by intro id h; cases h), (by intro id h; cases h)⟩

def witViolProg : List ROp := [.next, .read 0, .read 7, .read 7, .next, .read 7, .next, .read 7]

/-- non-vacuity of `violation_program_fits_completed_partial`: all hypotheses hold -/
example : List.Sublist (completed (runProg witViolProg witViolAfter none).1) [(1, dataPayload witHi)] :=
  violation_program_fits_completed_partial witViolAfter witViolAfter_idle [(1, witHi)]
    (by
      intro m hm
      simp only [List.mem_cons, List.mem_nil_iff, or_false] at hm
      subst hm
      exact ⟨Or.inl rfl, witHi_shape, by decide, Or.inl (by decide)⟩)
    0xA1 0x03 [0x61, 0x62, 0x63, 0x81, 0x02, 0x6f, 0x6b]
    (Or.inl (by decide)) (by decide) witViolProg

/-- non-vacuity of `violation_program_fits_partial` (same witness): both conjuncts -/
example : List.Sublist (completed (runProg witViolProg witViolAfter none).1) [(1, dataPayload witHi)] ∧
    (runProg witViolProg witViolAfter none).2.r.hlog <+: witViolAfter.r.hlog ++ [] := by
  have h := violation_program_fits_partial witViolAfter witViolAfter_idle [(1, witHi)]
    (by
      intro m hm
      simp only [List.mem_cons, List.mem_nil_iff, or_false] at hm
      subst hm
      exact ⟨Or.inl rfl, witHi_shape, by decide, Or.inl (by decide)⟩)
    0xA1 0x03 [0x61, 0x62, 0x63, 0x81, 0x02, 0x6f, 0x6b]
    (Or.inl (by decide)) (by decide) witViolProg
  have e : (([(1, witHi)] : List (Nat × List PFrame)).map (fun m => ctlEvents m.2)).flatten = [] := by decide
  rw [e] at h
  exact h

/-- what the trace reports: "Hi" and nothing else — not the well-formed "ok" behind the violation -/
example : completed (runProg witViolProg witViolAfter none).1 = [(1, [0x48, 0x69])] := by decide +kernel

end Program

end NonVacuity

end WS.Props.C04
