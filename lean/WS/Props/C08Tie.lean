import WS.Gen.Skeletons
/-
  C08 — translator tie: the statement text of the functions this property's model transcribes, regenerated
  from /repo by factgen on every run (WS/Gen/Skeletons.lean), equals the text the model was written against.
  A change to one of these functions breaks the obligation below; the check then searches for a failing
  input with the property's oracles (DESIGN §5).
-/
namespace WS.Props.C08Tie
open WS

/-- today's default ping / pong / close handlers are the modelled ones -/
theorem handlers_as_modelled :
    Gen.stmts_SetCloseHandler =
      ["if h == nil { h = func(code int, text string) error { message := FormatCloseMessage(code, \"\") _ = c.WriteControl(CloseMessage, message, time.Now().Add(writeWait)) return nil } }",
        "c.handleClose = h"] ∧
    Gen.stmts_SetPingHandler =
      ["if h == nil { h = func(message string) error { _ = c.WriteControl(PongMessage, []byte(message), time.Now().Add(writeWait)) return nil } }",
        "c.handlePing = h"] ∧
    Gen.stmts_SetPongHandler =
      ["if h == nil { h = func(string) error { return nil } }",
        "c.handlePong = h"] := by
  refine ⟨?_, ?_, ?_⟩ <;> rfl


end WS.Props.C08Tie
