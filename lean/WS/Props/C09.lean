import WS.Lemmas.AuditGaps
import WS.Lemmas.PreparedSend
import WS.Model.Sched
import WS.Model.Writer
import WS.Lemmas.Writer
import WS.Gen.Skeletons
/-
  C09 — A close frame is the last thing a connection ever writes.

  (1) Interleaving theorem over `WS.Sched`: any number of threads, every interleaving.
  (2) Tie of the `Step` relation to today's source: `WellLocked` on the generated skeletons.
  (3) Sequential counterpart over the executable writer model: for every program, once the
      sticky error is set (in particular `ErrCloseSent`), nothing reaches the transport and
      every frame-writing call fails.
-/
namespace WS.Props.C09
open WS WS.Sched

theorem reach_inv {g : G} (h : Reach g) : Inv g := by
  induction h with
  | init => exact inv_init
  | step _ hs ih => exact inv_step ih hs

/-- In every reachable state of every interleaving of any number of threads a close frame can
    only be the last frame on the wire. -/
theorem close_is_last {g : G} (h : Reach g) : CloseLast g.wire := (reach_inv h).closeL

/-- Once a close frame is on the wire no step of any thread appends anything. -/
theorem no_byte_after_close {g g' : G} (h : Reach g) (hs : Step g g') (hc : true ∈ g.wire) :
    g'.wire = g.wire := by
  have hi := reach_inv h
  cases hs with
  | writeOk t c hp => exact absurd hc (hi.clean t (Or.inr hp))
  | _ => rfl

/-- After the closer has released the mutex the sticky error is set: every write API entered
    afterwards takes the `checkFail` branch (see `only_checkFail_after_close`). -/
theorem writeErr_after_close_released {g : G} (h : Reach g) (hc : true ∈ g.wire) (hh : g.holder = none) :
    g.writeErr = true := by
  have hi := reach_inv h
  cases hw : g.writeErr with
  | true => rfl
  | false =>
    obtain ⟨t, ht, _⟩ := hi.closer hc hw
    rw [hh] at ht; cases ht

/-- A thread that acquires the mutex after a close frame was written and released cannot get past
    the error check. -/
theorem only_checkFail_after_close {g g' : G} (h : Reach g) (hc : true ∈ g.wire) (t : Nat)
    (hp : g.phase t = .lockedUnchecked) (hs : Step g g') (ht : g'.phase t ≠ .lockedUnchecked) :
    g'.phase t = .idle ∧ g'.wire = g.wire := by
  have hi := reach_inv h
  have hold : g.holder = some t := hi.lock t (by simp [hp, holds])
  have hwe : g.writeErr = true := by
    cases hw : g.writeErr with
    | true => rfl
    | false =>
      obtain ⟨u, hu, hph⟩ := hi.closer hc hw
      rw [hold] at hu; cases hu
      rw [hp] at hph; cases hph
  have huniq : ∀ u, holds (g.phase u) = true → u = t := fun u hu =>
    holder_unique hi (by simp [hp, holds]) hu
  cases hs with
  | want u h1 => exact absurd (by by_cases e : t = u <;> simp_all [upd]) ht
  | acquire u h1 hf => rw [hold] at hf; cases hf
  | timeout u h1 => exact absurd (by by_cases e : t = u <;> simp_all [upd]) ht
  | checkFail u h1 he =>
    have : u = t := huniq u (by simp [h1, holds])
    subst this; exact ⟨by simp, rfl⟩
  | checkOk u h1 he =>
    have : u = t := huniq u (by simp [h1, holds])
    subst this; rw [hwe] at he; cases he
  | deadlineOk u h1 => have : u = t := huniq u (by simp [h1, holds]); subst this; rw [hp] at h1; cases h1
  | deadlineFail u h1 => have : u = t := huniq u (by simp [h1, holds]); subst this; rw [hp] at h1; cases h1
  | writeOk u c h1 => have : u = t := huniq u (by simp [h1, holds]); subst this; rw [hp] at h1; cases h1
  | writeFail u h1 => have : u = t := huniq u (by simp [h1, holds]); subst this; rw [hp] at h1; cases h1
  | mark u c h1 => have : u = t := huniq u (by simp [h1, holds]); subst this; rw [hp] at h1; cases h1
  | release u h1 => have : u = t := huniq u (by simp [h1, holds]); subst this; rw [hp] at h1; cases h1

/-! ### tie to the source: the generated statement skeletons follow the lock protocol of `Step` -/

open WS.Gen in
/-- acquire; deferred release; re-check of the sticky error under the lock; deadline; write;
    error check; close mark; return — with only validation / local frame building before the lock. -/
def WellLocked (l : List Gen.Act) : Bool :=
  let body := l.dropWhile (fun a => a == .validateType || a == .validateLen || a == .build)
  body == [.acquire, .deferRelease, .checkErr, .setDeadline, .write, .checkWrite, .markClose, .ret] ||
  body == [.acquireTimed, .deferRelease, .checkErr, .setDeadline, .write, .checkWrite, .markClose, .ret]

theorem write_wellLocked : WellLocked Gen.writeSkeleton = true := by decide
theorem writeControl_wellLocked : WellLocked Gen.writeControlSkeleton = true := by decide

/-! ### sequential counterpart over the executable writer model -/

/-- For every program: once the sticky write error is set — a close frame sent by any path sets it
    to ErrCloseSent — no operation of the write API makes a transport call or changes the wire. -/
theorem seq_nothing_after_close (s : W) (ops : List Op) (h : s.writeErr.isSome) :
    (run s ops).wire = s.wire ∧ (run s ops).tcalls = s.tcalls ∧ (run s ops).writeErr = s.writeErr := by
  have := run_of_err s ops h
  exact ⟨core_wire this, core_tcalls this, core_writeErr this⟩

/-- the close frame itself sets the sticky error (Conn.write and WriteControl) -/
theorem close_sets_sticky (s : W) (d : Int) (b0 b1 : Bytes) (h : (connWrite s 8 d b0 b1).1 = none) :
    (connWrite s 8 d b0 b1).2.writeErr.isSome := by
  unfold connWrite at *
  split
  · simp_all
  · split
    · simp_all
    · split
      · simp_all
      · exact writeFatal_isSome _ _

/-- every frame-writing request after that fails; a message writer opened earlier fails at Close -/
theorem seq_requests_fail (s : W) (h : s.writeErr.isSome) :
    (∀ t dnp fullp, ∃ e, (nextWriter s t dnp fullp).1 = .error e) ∧
    (∀ t data dnp fullp dn full, (writeMessage s t data dnp fullp dn full).1.isSome) ∧
    (∀ enc dnp fullp dn full, (writeJSON s enc dnp fullp dn full).1.isSome) ∧
    (∀ t data d, (writeControl s t data d).1.isSome) ∧
    (∀ t img dnp fullp, (writePreparedImage s t img dnp fullp).1.isSome) ∧
    (∀ hd dn full, (hClose s hd dn full).1.isSome) :=
  ⟨fun t dnp fullp => (nextWriter_of_err s t dnp fullp h).1,
   fun t data dnp fullp dn full => (writeMessage_of_err s t data dnp fullp dn full h).1,
   fun enc dnp fullp dn full => (writeJSON_of_err s enc dnp fullp dn full h).1,
   fun t data d => (writeControl_of_err s t data d h).1,
   fun t img dnp fullp => (writePreparedImage_of_err s t img dnp fullp h).1,
   fun hd dn full => (hClose_of_err s hd dn full h).1⟩

/-- non-vacuity: a server that sends a close via WriteControl ends up with the sticky error set
    and the close frame as the whole wire -/
example : (writeControl (newW true 16 false false) 8 [3, 232] 0).2.writeErr = some .closeSent ∧
    (writeControl (newW true 16 false false) 8 [3, 232] 0).2.wire = [136, 2, 3, 232] := by decide

open WS.PreparedSend in
/-- a message writer that was open when the close frame went out fails no later than its Close (so the
    message is never reported as sent): with the sticky error set, Close on any handle — live, stale,
    compressed, bogus — returns an error -/
theorem open_writer_fails_at_close (s : W) (he : s.writeErr.isSome) (h : Nat) (dn : List Bytes) (full : Bytes) :
    (hClose s h dn full).1.isSome := by
  first | exact PreparedSend.close_after_close_fails .. | (apply PreparedSend.close_after_close_fails <;> assumption)


open WS.Codec WS.ReaderDecodes WS.RoleGeneric WS.AuditGaps in
/-- a close frame that went out latches exactly ErrCloseSent … -/
theorem close_latches_ErrCloseSent (s : W) (d : Int) (b0 b1 : Bytes) (h : (connWrite s 8 d b0 b1).1 = none) :
    (connWrite s 8 d b0 b1).2.writeErr = some .closeSent := by
  first | exact AuditGaps.close_sets_closeSent .. | (apply AuditGaps.close_sets_closeSent <;> assumption)

open WS.Codec WS.ReaderDecodes WS.RoleGeneric WS.AuditGaps in
/-- … and with it latched every otherwise valid request — WriteMessage, NextWriter, WriteControl (deadline not
    already past), WritePreparedMessage — fails with exactly ErrCloseSent and leaves the wire unchanged -/
theorem requests_fail_with_closeSent (s : W) (h : s.writeErr = some .closeSent) :
    (∀ t data, (t = 1 ∨ t = 2) → (writeMessage s t data).1 = some .closeSent ∧ (writeMessage s t data).2.wire = s.wire) ∧
    (∀ t, (t = 1 ∨ t = 2) → ∃ s', nextWriter s t = (.error .closeSent, s') ∧ s'.wire = s.wire) ∧
    (∀ t data d, (t = 8 ∨ t = 9 ∨ t = 10) → data.length ≤ 125 → 0 ≤ d →
        (writeControl s t data d).1 = some .closeSent ∧ (writeControl s t data d).2.wire = s.wire) ∧
    (∀ t img, (writePreparedImage s t img).1 = some .closeSent ∧ (writePreparedImage s t img).2.wire = s.wire) := by
  first | exact AuditGaps.requests_fail_with_closeSent .. | (apply AuditGaps.requests_fail_with_closeSent <;> assumption)


/-! ### non-vacuity -/
section NonVacuity
set_option linter.defProp false

/-! two threads: thread 0 writes a data frame (thread 1 starts waiting meanwhile), then a close
    frame, and releases; thread 1 then acquires the mutex -/
def witG1 : G := { init with phase := upd init.phase 0 .waiting }
def witG2 : G := { witG1 with holder := some 0, phase := upd witG1.phase 0 .lockedUnchecked }
def witG3 : G := { witG2 with phase := upd witG2.phase 0 .lockedChecked }
def witG4 : G := { witG3 with phase := upd witG3.phase 1 .waiting }
def witG5 : G := { witG4 with phase := upd witG4.phase 0 .deadlineSet }
def witG6 : G := { witG5 with wire := witG5.wire ++ [false], phase := upd witG5.phase 0 (.wrote false) }
def witG7 : G := { witG6 with writeErr := witG6.writeErr || false, phase := upd witG6.phase 0 .marked }
def witG8 : G := { witG7 with holder := none, phase := upd witG7.phase 0 .idle }
def witG9 : G := { witG8 with phase := upd witG8.phase 0 .waiting }
def witG10 : G := { witG9 with holder := some 0, phase := upd witG9.phase 0 .lockedUnchecked }
def witG11 : G := { witG10 with phase := upd witG10.phase 0 .lockedChecked }
def witG12 : G := { witG11 with phase := upd witG11.phase 0 .deadlineSet }
def witG13 : G := { witG12 with wire := witG12.wire ++ [true], phase := upd witG12.phase 0 (.wrote true) }
def witG14 : G := { witG13 with writeErr := witG13.writeErr || true, phase := upd witG13.phase 0 .marked }
def witG15 : G := { witG14 with holder := none, phase := upd witG14.phase 0 .idle }
def witG16 : G := { witG15 with holder := some 1, phase := upd witG15.phase 1 .lockedUnchecked }
def witG17 : G := { witG16 with holder := none, phase := upd witG16.phase 1 .idle }

def witR1 : Reach witG1 := .step .init (.want init 0 rfl)
def witR2 : Reach witG2 := .step witR1 (.acquire witG1 0 rfl rfl)
def witR3 : Reach witG3 := .step witR2 (.checkOk witG2 0 rfl rfl)
def witR4 : Reach witG4 := .step witR3 (.want witG3 1 rfl)
def witR5 : Reach witG5 := .step witR4 (.deadlineOk witG4 0 rfl)
def witR6 : Reach witG6 := .step witR5 (.writeOk witG5 0 false rfl)
def witR7 : Reach witG7 := .step witR6 (.mark witG6 0 false rfl)
def witR8 : Reach witG8 := .step witR7 (.release witG7 0 rfl)
def witR9 : Reach witG9 := .step witR8 (.want witG8 0 rfl)
def witR10 : Reach witG10 := .step witR9 (.acquire witG9 0 rfl rfl)
def witR11 : Reach witG11 := .step witR10 (.checkOk witG10 0 rfl rfl)
def witR12 : Reach witG12 := .step witR11 (.deadlineOk witG11 0 rfl)
def witR13 : Reach witG13 := .step witR12 (.writeOk witG12 0 true rfl)
def witR14 : Reach witG14 := .step witR13 (.mark witG13 0 true rfl)
def witR15 : Reach witG15 := .step witR14 (.release witG14 0 rfl)
def witR16 : Reach witG16 := .step witR15 (.acquire witG15 1 rfl rfl)
def witS16 : Step witG16 witG17 := .checkFail witG16 1 rfl rfl

/-- the wire of the witness state: a data frame, then the close frame -/
example : witG16.wire = [false, true] := rfl

/-- non-vacuity of `reach_inv`: a 16-step schedule of two threads is reachable -/
example : Inv witG16 := reach_inv witR16
/-- non-vacuity of `close_is_last`: the reachable state `witG16` has wire [data, close] -/
example : CloseLast [false, true] := close_is_last witR16
/-- non-vacuity of `no_byte_after_close`: reachable `witG16` with a close frame on the wire and a
    further step (thread 1 fails the error check) -/
example : witG17.wire = [false, true] := no_byte_after_close witR16 witS16 (by decide)
/-- non-vacuity of `no_byte_after_close`, second instance: the closer's own `mark` step -/
example : witG14.wire = [false, true] := no_byte_after_close witR13 (.mark witG13 0 true rfl) (by decide)
/-- non-vacuity of `writeErr_after_close_released`: `witG15` = thread 0 has written the close frame and
    released the mutex -/
example : witG15.writeErr = true := writeErr_after_close_released witR15 (by decide) rfl
/-- non-vacuity of `only_checkFail_after_close`: in `witG16` a close is on the wire, thread 1 is in phase
    `.lockedUnchecked`, and the step `witS16` leaves that phase -/
example : witG17.phase 1 = .idle ∧ witG17.wire = witG16.wire :=
  only_checkFail_after_close witR16 (by decide) 1 rfl witS16 (by decide)


/-! sequential witnesses -/

/-- a client connection with a 4096-byte write buffer and a masking-key source -/
def witW0 : W := { newW false 4096 false false with keys := [0x37, 0xfa, 0x21, 0x3d, 1, 2, 3, 4] }
/-- … after it sent a close frame (status 1000) via WriteControl -/
def witWc : W := (writeControl witW0 8 [3, 232] 0).2
/-- witness for `seq_nothing_after_close` / `seq_requests_fail`: the sticky error is set -/
def witWc_err : witWc.writeErr.isSome := by decide
def witOps : List Op :=
  [.writeMessage 1 [104, 101, 108, 108, 111] [] [] [] [],
   .writeControl 9 [112, 105, 110, 103] 0,
   .nextWriter 2 [] []]

/-- non-vacuity of `seq_nothing_after_close`: a three-operation program (WriteMessage "hello", ping,
    NextWriter) on the client that has sent a close -/
example : (run witWc witOps).wire = witWc.wire ∧ (run witWc witOps).tcalls = witWc.tcalls ∧
    (run witWc witOps).writeErr = witWc.writeErr := seq_nothing_after_close witWc witOps witWc_err

def witClose : Bytes := controlFrame false 8 [3, 232] (newKey witW0).1
/-- witness for `close_sets_sticky`: the masked close frame is written without error -/
def witClose_ok : (connWrite witW0 8 0 witClose []).1 = none := by decide
/-- non-vacuity of `close_sets_sticky`: Conn.write of a masked close frame on the 4096-byte client -/
example : (connWrite witW0 8 0 witClose []).2.writeErr.isSome :=
  close_sets_sticky witW0 0 witClose [] witClose_ok
/-- concrete value for the `close_sets_sticky` witness -/
example : (connWrite witW0 8 0 witClose []).2.writeErr = some .closeSent := by decide

/-- non-vacuity of `seq_requests_fail`: NextWriter after the close fails -/
example : ∃ e, (nextWriter witWc 1 [] []).1 = .error e := (seq_requests_fail witWc witWc_err).1 1 [] []
/-- non-vacuity of `seq_requests_fail`: a ping after the close fails -/
example : (writeControl witWc 9 [112, 105, 110, 103] 0).1.isSome :=
  (seq_requests_fail witWc witWc_err).2.2.2.1 9 [112, 105, 110, 103] 0

/-! an open message writer when the close frame goes out -/

/-- NextWriter(BinaryMessage); Write 01 02 03 (stays in the 4096-byte buffer); WriteControl(close 1000) -/
def witOpsOpen : List Op :=
  [.nextWriter 2 [] [],
   .write 0 [1, 2, 3] [] false,
   .writeControl 8 [3, 232] 0]
/-- the client `witW0` after that program: handle 0 is a live binary writer with three buffered bytes,
    and the close frame is on the wire -/
def witWo : W := run witW0 witOpsOpen

/-- the state really is as described: handle 0 is live, the writer is still the connection's current
    writer, the wire is exactly the masked close frame, and the sticky error is ErrCloseSent -/
example : witWo.handles.length = 1 ∧ witWo.writer.isSome ∧ witWo.wire = witClose ∧
    witWo.writeErr = some .closeSent := by decide +kernel
/-- witness for `open_writer_fails_at_close`: the sticky error is set -/
def witWo_err : witWo.writeErr.isSome := by decide +kernel

/-- non-vacuity of `open_writer_fails_at_close`: Close on the live handle 0 of `witWo` returns an error -/
example : (hClose witWo 0 [] []).1.isSome := open_writer_fails_at_close witWo witWo_err 0 [] []
/-- … concretely ErrCloseSent, and the wire still is (hence ends with) the close frame: the three
    buffered bytes of the binary message never reach the transport -/
example : (hClose witWo 0 [] []).1 = some .closeSent ∧ (hClose witWo 0 [] []).2.wire = witClose ∧
    (hClose witWo 0 [] []).2.tcalls = witWo.tcalls := by decide +kernel
/-- … and the close frame is 88 82 <key> <masked 03 e8> -/
example : witClose = [0x88, 0x82, 0x37, 0xfa, 0x21, 0x3d, 0x34, 0x12] := by decide

/-- a client with a 256-byte write buffer, on which 300 bytes are written (more than the buffer): the
    first fragment of the binary message is already on the wire when the close frame (second masking
    key) goes out -/
def witW0s : W := { newW false 256 false false with keys := [0x37, 0xfa, 0x21, 0x3d, 1, 2, 3, 4] }
def witOpsOpen2 : List Op :=
  [.nextWriter 2 [] [],
   .write 0 (List.replicate 300 7) [] false,
   .writeControl 8 [3, 232] 0]
def witWo2 : W := run witW0s witOpsOpen2
def witWo2_err : witWo2.writeErr.isSome := by decide +kernel
/-- the wire of `witWo2`: a non-final binary fragment (02 fe 01 00 = no FIN, masked, 256 bytes), then the close frame -/
example : witWo2.wire.take 4 = [0x02, 0xfe, 0x01, 0x00] ∧ witWo2.wire.length = 264 + 8 ∧
    witWo2.wire.drop 264 = [0x88, 0x82, 1, 2, 3, 4, 2, 234] := by decide +kernel
/-- non-vacuity of `open_writer_fails_at_close`, second instance: Close on the half-sent message fails … -/
example : (hClose witWo2 0 [] []).1.isSome := open_writer_fails_at_close witWo2 witWo2_err 0 [] []
/-- … with ErrCloseSent, the final fragment is never sent, and the wire still ends with the close frame -/
example : (hClose witWo2 0 [] []).1 = some .closeSent ∧ (hClose witWo2 0 [] []).2.wire = witWo2.wire ∧
    (hClose witWo2 0 [] []).2.wire.drop 264 = [0x88, 0x82, 1, 2, 3, 4, 2, 234] := by decide +kernel

/-! a close frame sent through Conn.write on a connection with traffic behind it -/

/-- the client `witW0` after it sent the text message "hello" (first masking key used, wire holds that frame) -/
def witW1 : W := (writeMessage witW0 1 [104, 101, 108, 108, 111]).2
/-- … it is healthy and the message is on the wire -/
example : witW1.writeErr = none ∧ witW1.wire.length = 11 ∧ witW1.keyIdx = 1 := by decide +kernel
/-- the close frame 1001 "bye" as WriteControl would build it on `witW1`: masked with the SECOND key 01 02 03 04 -/
def witClose1 : Bytes := controlFrame false 8 (beBytes 2 1001 ++ [0x62, 0x79, 0x65]) (newKey witW1).1
example : witClose1 = [0x88, 0x85, 1, 2, 3, 4, 0x03 ^^^ 1, 0xE9 ^^^ 2, 0x62 ^^^ 3, 0x79 ^^^ 4, 0x65 ^^^ 1] := by decide +kernel
/-- witness for `close_latches_ErrCloseSent`: Conn.write(CloseMessage, deadline 1000000) succeeds -/
def witClose1_ok : (connWrite witW1 8 1000000 witClose1 []).1 = none := by decide +kernel

/-- non-vacuity of `close_latches_ErrCloseSent`: the hypothesis holds for the healthy client `witW1` and a
    real masked close frame -/
example : (connWrite witW1 8 1000000 witClose1 []).2.writeErr = some .closeSent :=
  close_latches_ErrCloseSent witW1 1000000 witClose1 [] witClose1_ok
/-- … and the frame really went out: the wire is the text frame followed by the close frame -/
example : (connWrite witW1 8 1000000 witClose1 []).2.wire = witW1.wire ++ witClose1 := by decide +kernel
/-- second instance of `close_latches_ErrCloseSent`: the fresh client `witW0`, zero deadline, two buffers
    (header+key in the first, the masked payload in the second) -/
example : (connWrite witW0 8 0 (witClose.take 6) (witClose.drop 6)).2.writeErr = some .closeSent :=
  close_latches_ErrCloseSent witW0 0 (witClose.take 6) (witClose.drop 6) (by decide)

/-- the state after that close -/
def witWc1 : W := (connWrite witW1 8 1000000 witClose1 []).2
/-- witness for `requests_fail_with_closeSent`: exactly ErrCloseSent is latched -/
def witWc1_closeSent : witWc1.writeErr = some .closeSent := by decide +kernel

/-- non-vacuity of `requests_fail_with_closeSent`, first conjunct: WriteMessage(text, "hello") -/
example : (writeMessage witWc1 1 [104, 101, 108, 108, 111]).1 = some .closeSent ∧
    (writeMessage witWc1 1 [104, 101, 108, 108, 111]).2.wire = witWc1.wire :=
  (requests_fail_with_closeSent witWc1 witWc1_closeSent).1 1 [104, 101, 108, 108, 111] (Or.inl rfl)
/-- second conjunct: NextWriter(binary) -/
example : ∃ s', nextWriter witWc1 2 = (.error .closeSent, s') ∧ s'.wire = witWc1.wire :=
  (requests_fail_with_closeSent witWc1 witWc1_closeSent).2.1 2 (Or.inr rfl)
/-- third conjunct: WriteControl(ping "ping", deadline 5) and a second close frame (zero deadline) -/
example : (writeControl witWc1 9 [112, 105, 110, 103] 5).1 = some .closeSent ∧
    (writeControl witWc1 9 [112, 105, 110, 103] 5).2.wire = witWc1.wire :=
  (requests_fail_with_closeSent witWc1 witWc1_closeSent).2.2.1 9 [112, 105, 110, 103] 5 (Or.inr (Or.inl rfl))
    (by decide) (by decide)
example : (writeControl witWc1 8 [3, 232] 0).1 = some .closeSent ∧ (writeControl witWc1 8 [3, 232] 0).2.wire = witWc1.wire :=
  (requests_fail_with_closeSent witWc1 witWc1_closeSent).2.2.1 8 [3, 232] 0 (Or.inl rfl) (by decide) (by decide)
/-- fourth conjunct: WritePreparedMessage with the frame image of a masked text "hi" -/
example : (writePreparedImage witWc1 1 [0x81, 0x82, 5, 6, 7, 8, 0x68 ^^^ 5, 0x69 ^^^ 6]).1 = some .closeSent ∧
    (writePreparedImage witWc1 1 [0x81, 0x82, 5, 6, 7, 8, 0x68 ^^^ 5, 0x69 ^^^ 6]).2.wire = witWc1.wire :=
  (requests_fail_with_closeSent witWc1 witWc1_closeSent).2.2.2 1 [0x81, 0x82, 5, 6, 7, 8, 0x68 ^^^ 5, 0x69 ^^^ 6]
/-- `requests_fail_with_closeSent` also applies to `witWc` (close sent via WriteControl) and to `witWo` (close sent
    while a message writer was open) -/
example : (writeMessage witWc 2 [1, 2, 3]).1 = some .closeSent ∧ (writeMessage witWc 2 [1, 2, 3]).2.wire = witWc.wire :=
  (requests_fail_with_closeSent witWc (by decide)).1 2 [1, 2, 3] (Or.inr rfl)
example : ∃ s', nextWriter witWo 1 = (.error .closeSent, s') ∧ s'.wire = witWo.wire :=
  (requests_fail_with_closeSent witWo (by decide +kernel)).2.1 1 (Or.inl rfl)
end NonVacuity

end WS.Props.C09
