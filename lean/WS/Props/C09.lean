import WS.Model.Sched
import WS.Model.Writer
import WS.Lemmas.Writer
import WS.Gen.Skeletons
/-
  C09 — A close frame is the last thing a connection ever writes.

  (1) Interleaving theorem over `WS.Sched`: any number of threads, every interleaving.
  (2) Tie of the `Step` relation to today's source: `WellLocked` on the generated skeletons.
  (3) Sequential counterpart over the executable writer model: for every program, once the
      sticky error is set (in particular `ErrCloseSent`), nothing reaches the transport and
      every frame-writing call fails.
-/
namespace WS.Props.C09
open WS WS.Sched

theorem reach_inv {g : G} (h : Reach g) : Inv g := by
  induction h with
  | init => exact inv_init
  | step _ hs ih => exact inv_step ih hs

/-- In every reachable state of every interleaving of any number of threads a close frame can
    only be the last frame on the wire. -/
theorem close_is_last {g : G} (h : Reach g) : CloseLast g.wire := (reach_inv h).closeL

/-- Once a close frame is on the wire no step of any thread appends anything. -/
theorem no_byte_after_close {g g' : G} (h : Reach g) (hs : Step g g') (hc : true ∈ g.wire) :
    g'.wire = g.wire := by
  have hi := reach_inv h
  cases hs with
  | writeOk t c hp => exact absurd hc (hi.clean t (Or.inr hp))
  | _ => rfl

/-- After the closer has released the mutex the sticky error is set: every write API entered
    afterwards takes the `checkFail` branch (see `only_checkFail_after_close`). -/
theorem writeErr_after_close_released {g : G} (h : Reach g) (hc : true ∈ g.wire) (hh : g.holder = none) :
    g.writeErr = true := by
  have hi := reach_inv h
  cases hw : g.writeErr with
  | true => rfl
  | false =>
    obtain ⟨t, ht, _⟩ := hi.closer hc hw
    rw [hh] at ht; cases ht

/-- A thread that acquires the mutex after a close frame was written and released cannot get past
    the error check. -/
theorem only_checkFail_after_close {g g' : G} (h : Reach g) (hc : true ∈ g.wire) (t : Nat)
    (hp : g.phase t = .lockedUnchecked) (hs : Step g g') (ht : g'.phase t ≠ .lockedUnchecked) :
    g'.phase t = .idle ∧ g'.wire = g.wire := by
  have hi := reach_inv h
  have hold : g.holder = some t := hi.lock t (by simp [hp, holds])
  have hwe : g.writeErr = true := by
    cases hw : g.writeErr with
    | true => rfl
    | false =>
      obtain ⟨u, hu, hph⟩ := hi.closer hc hw
      rw [hold] at hu; cases hu
      rw [hp] at hph; cases hph
  have huniq : ∀ u, holds (g.phase u) = true → u = t := fun u hu =>
    holder_unique hi (by simp [hp, holds]) hu
  cases hs with
  | want u h1 => exact absurd (by by_cases e : t = u <;> simp_all [upd]) ht
  | acquire u h1 hf => rw [hold] at hf; cases hf
  | timeout u h1 => exact absurd (by by_cases e : t = u <;> simp_all [upd]) ht
  | checkFail u h1 he =>
    have : u = t := huniq u (by simp [h1, holds])
    subst this; exact ⟨by simp, rfl⟩
  | checkOk u h1 he =>
    have : u = t := huniq u (by simp [h1, holds])
    subst this; rw [hwe] at he; cases he
  | deadlineOk u h1 => have : u = t := huniq u (by simp [h1, holds]); subst this; rw [hp] at h1; cases h1
  | deadlineFail u h1 => have : u = t := huniq u (by simp [h1, holds]); subst this; rw [hp] at h1; cases h1
  | writeOk u c h1 => have : u = t := huniq u (by simp [h1, holds]); subst this; rw [hp] at h1; cases h1
  | writeFail u h1 => have : u = t := huniq u (by simp [h1, holds]); subst this; rw [hp] at h1; cases h1
  | mark u c h1 => have : u = t := huniq u (by simp [h1, holds]); subst this; rw [hp] at h1; cases h1
  | release u h1 => have : u = t := huniq u (by simp [h1, holds]); subst this; rw [hp] at h1; cases h1

/-! ### tie to the source: the generated statement skeletons follow the lock protocol of `Step` -/

open WS.Gen in
/-- acquire; deferred release; re-check of the sticky error under the lock; deadline; write;
    error check; close mark; return — with only validation / local frame building before the lock. -/
def WellLocked (l : List Gen.Act) : Bool :=
  let body := l.dropWhile (fun a => a == .validateType || a == .validateLen || a == .build)
  body == [.acquire, .deferRelease, .checkErr, .setDeadline, .write, .checkWrite, .markClose, .ret] ||
  body == [.acquireTimed, .deferRelease, .checkErr, .setDeadline, .write, .checkWrite, .markClose, .ret]

theorem write_wellLocked : WellLocked Gen.writeSkeleton = true := by decide
theorem writeControl_wellLocked : WellLocked Gen.writeControlSkeleton = true := by decide

/-! ### sequential counterpart over the executable writer model -/

/-- For every program: once the sticky write error is set — a close frame sent by any path sets it
    to ErrCloseSent — no operation of the write API makes a transport call or changes the wire. -/
theorem seq_nothing_after_close (s : W) (ops : List Op) (h : s.writeErr.isSome) :
    (run s ops).wire = s.wire ∧ (run s ops).tcalls = s.tcalls ∧ (run s ops).writeErr = s.writeErr := by
  have := run_of_err s ops h
  exact ⟨core_wire this, core_tcalls this, core_writeErr this⟩

/-- the close frame itself sets the sticky error (Conn.write and WriteControl) -/
theorem close_sets_sticky (s : W) (d : Int) (b0 b1 : Bytes) (h : (connWrite s 8 d b0 b1).1 = none) :
    (connWrite s 8 d b0 b1).2.writeErr.isSome := by
  unfold connWrite at *
  split
  · simp_all
  · split
    · simp_all
    · split
      · simp_all
      · exact writeFatal_isSome _ _

/-- every frame-writing request after that fails; a message writer opened earlier fails at Close -/
theorem seq_requests_fail (s : W) (h : s.writeErr.isSome) :
    (∀ t dnp fullp, ∃ e, (nextWriter s t dnp fullp).1 = .error e) ∧
    (∀ t data dnp fullp dn full, (writeMessage s t data dnp fullp dn full).1.isSome) ∧
    (∀ enc dnp fullp dn full, (writeJSON s enc dnp fullp dn full).1.isSome) ∧
    (∀ t data d, (writeControl s t data d).1.isSome) ∧
    (∀ t img, (writePreparedImage s t img).1.isSome) ∧
    (∀ hd dn full, (hClose s hd dn full).1.isSome) :=
  ⟨fun t dnp fullp => (nextWriter_of_err s t dnp fullp h).1,
   fun t data dnp fullp dn full => (writeMessage_of_err s t data dnp fullp dn full h).1,
   fun enc dnp fullp dn full => (writeJSON_of_err s enc dnp fullp dn full h).1,
   fun t data d => (writeControl_of_err s t data d h).1,
   fun t img => (writePreparedImage_of_err s t img h).1,
   fun hd dn full => (hClose_of_err s hd dn full h).1⟩

/-- non-vacuity: a server that sends a close via WriteControl ends up with the sticky error set
    and the close frame as the whole wire -/
example : (writeControl (newW true 16 false false) 8 [3, 232] 0).2.writeErr = some .closeSent ∧
    (writeControl (newW true 16 false false) 8 [3, 232] 0).2.wire = [136, 2, 3, 232] := by decide

end WS.Props.C09
