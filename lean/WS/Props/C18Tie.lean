import WS.Gen.Skeletons
/-
  C18 — translator tie: the statement text of the functions this property's model transcribes, regenerated
  from /repo by factgen on every run (WS/Gen/Skeletons.lean), equals the text the model was written against.
  A change to one of these functions breaks the obligation below; the check then searches for a failing
  input with the property's oracles (DESIGN §5).
-/
namespace WS.Props.C18Tie
open WS

/-- today's hostPortNoPort and httpProxyDialer.DialContext (incl. the F6 repair) are the modelled ones -/
theorem proxy_as_modelled :
    Gen.stmts_hostPortNoPort =
      ["hostPort = u.Host",
        "hostNoPort = u.Host",
        "if i := strings.LastIndex(u.Host, \":\"); i > strings.LastIndex(u.Host, \"]\") { hostNoPort = hostNoPort[:i] } else { switch u.Scheme { case \"wss\": hostPort += \":443\" case \"https\": hostPort += \":443\" default: hostPort += \":80\" } }",
        "return hostPort, hostNoPort"] ∧
    Gen.stmts_httpProxyDial =
      ["hostPort, _ := hostPortNoPort(hpd.proxyURL)",
        "conn, err := hpd.forwardDial(ctx, network, hostPort)",
        "if err != nil { return nil, err }",
        "connectHeader := make(http.Header)",
        "if user := hpd.proxyURL.User; user != nil { proxyUser := user.Username() if proxyPassword, passwordSet := user.Password(); passwordSet { credential := base64.StdEncoding.EncodeToString([]byte(proxyUser + \":\" + proxyPassword)) connectHeader.Set(\"Proxy-Authorization\", \"Basic \"+credential) } }",
        "connectReq := &http.Request{ Method: http.MethodConnect, URL: &url.URL{Opaque: addr}, Host: addr, Header: connectHeader, }",
        "if err := connectReq.Write(conn); err != nil { conn.Close() return nil, err }",
        "br := bufio.NewReader(conn)",
        "resp, err := http.ReadResponse(br, connectReq)",
        "if err != nil { conn.Close() return nil, err }",
        "br.Reset(bytes.NewReader(nil))",
        "_ = resp.Body.Close()",
        "if resp.StatusCode != http.StatusOK { _ = conn.Close() f := strings.SplitN(resp.Status, \" \", 2) if len(f) < 2 { return nil, errors.New(resp.Status) } return nil, errors.New(f[1]) }",
        "return conn, nil"] := by
  refine ⟨?_, ?_⟩ <;> rfl


end WS.Props.C18Tie
