import WS.Lemmas.WireInv
import WS.Lemmas.Codec
/-
  C02 — Everything written to the wire is well-formed RFC 6455 / RFC 7692 framing.
  (The frame-record level statement — masks, RSV bits, fragmentation grammar — is
  `wire_wellformed` from WS/Lemmas/WireWF.lean; this file holds the decodability core.)
-/
namespace WS.Props.C02
open WS WS.Codec WS.WireInv

theorem encode_ne_nil (isServer : Bool) (b0 : Nat) (key : Key) (payload : Bytes) : encode isServer b0 key payload ≠ [] := by
  unfold encode header
  dsimp only
  split <;> split <;> (try split) <;> simp

/-- a concatenation of frames, each encoded as the writer encodes them, is decoded by the strict
    RFC decoder into as many frames -/
theorem frames_decode (isServer : Bool) (fs : List Bytes) (h : ∀ f ∈ fs, IsFrame isServer f) :
    ∃ frs, Spec.decodeStream fs.flatten = some frs ∧ frs.length = fs.length := by
  induction fs with
  | nil => exact ⟨[], decodeStream_nil, rfl⟩
  | cons f fs ih =>
    obtain ⟨frs, hd, hl⟩ := ih (fun g hg => h g (List.mem_cons_of_mem _ hg))
    obtain ⟨b0, key, payload, hb, hp, hf⟩ := h f List.mem_cons_self
    subst hf
    have hdec := decode_encode isServer b0 key payload fs.flatten hb hp
    have := decodeStream_cons _ _ _ hdec (encode_ne_nil _ _ _ _)
    refine ⟨frameOf isServer b0 key payload :: frs, ?_, by simp [hl]⟩
    simp only [List.flatten_cons]
    rw [this, hd]; rfl

/-- C02 (decodability, minimal length encoding included because the decoder is strict): for every
    program over the write API without transport faults — any role, buffer size, pool setting,
    compression setting, split of writes, environment answer — the wire is a sequence of frames that
    the independent RFC decoder accepts -/
theorem wire_decodable (s0 : W) (h0 : Fresh s0) (hf : s0.faults = []) (ops : List Op)
    (hops : ∀ op ∈ ops, OpOK s0.isServer op) :
    ∃ frs, Spec.decodeStream (run s0 ops).wire = some frs := by
  obtain ⟨fs, hw, hfs⟩ := no_fault_whole_frames s0 h0 hf ops hops
  obtain ⟨frs, hd, _⟩ := frames_decode s0.isServer fs hfs
  exact ⟨frs, by rw [hw]; exact hd⟩

/-- masked iff client: every frame the model encodes carries a key exactly when the role is client -/
theorem masked_iff_client (isServer : Bool) (b0 : Nat) (key : Key) (payload : Bytes) :
    (frameOf isServer b0 key payload).mask.isSome = !isServer := by
  unfold frameOf; cases isServer <;> rfl

/-- non-vacuity: a server fast-path message of 20 bytes (buffer 16: header+16 bytes, then 4 extra bytes) decodes to one binary frame -/
example : (Spec.decodeStream (writeMessage (newW true 16 false false) 2 (List.replicate 20 7)).2.wire).map (·.length) = some 1 := by
  decide

end WS.Props.C02
