import WS.Lemmas.WriterMore
import WS.Lemmas.WireInv
import WS.Lemmas.Codec
import WS.Lemmas.WireWF
import WS.Lemmas.Content
import WS.Gen.Skeletons
import WS.Lemmas.CompressedWrite
/-
  C02 — Everything written to the wire is well-formed RFC 6455 / RFC 7692 framing.
  (The frame-record level statement — masks, RSV bits, fragmentation grammar — is
  `wire_wellformed` from WS/Lemmas/WireWF.lean; this file holds the decodability core.)
-/
namespace WS.Props.C02
open WS WS.Codec WS.WireInv

theorem encode_ne_nil (isServer : Bool) (b0 : Nat) (key : Key) (payload : Bytes) : encode isServer b0 key payload ≠ [] := by
  unfold encode header
  dsimp only
  split <;> split <;> (try split) <;> simp

/-- a concatenation of frames, each encoded as the writer encodes them, is decoded by the strict
    RFC decoder into as many frames -/
theorem frames_decode (isServer : Bool) (fs : List Bytes) (h : ∀ f ∈ fs, IsFrame isServer f) :
    ∃ frs, Spec.decodeStream fs.flatten = some frs ∧ frs.length = fs.length := by
  induction fs with
  | nil => exact ⟨[], decodeStream_nil, rfl⟩
  | cons f fs ih =>
    obtain ⟨frs, hd, hl⟩ := ih (fun g hg => h g (List.mem_cons_of_mem _ hg))
    obtain ⟨b0, key, payload, hb, hp, hf⟩ := h f List.mem_cons_self
    subst hf
    have hdec := decode_encode isServer b0 key payload fs.flatten hb hp
    have := decodeStream_cons _ _ _ hdec (encode_ne_nil _ _ _ _)
    refine ⟨frameOf isServer b0 key payload :: frs, ?_, by simp [hl]⟩
    simp only [List.flatten_cons]
    rw [this, hd]; rfl

/-- C02 (decodability, minimal length encoding included because the decoder is strict): for every
    program over the write API without transport faults — any role, buffer size, pool setting,
    compression setting, split of writes, environment answer — the wire is a sequence of frames that
    the independent RFC decoder accepts -/
theorem wire_decodable (s0 : W) (h0 : Fresh s0) (hf : s0.faults = []) (ops : List Op)
    (hops : ∀ op ∈ ops, OpOK s0.isServer op) :
    ∃ frs, Spec.decodeStream (run s0 ops).wire = some frs := by
  obtain ⟨fs, hw, hfs⟩ := no_fault_whole_frames s0 h0 hf ops hops
  obtain ⟨frs, hd, _⟩ := frames_decode s0.isServer fs hfs
  exact ⟨frs, by rw [hw]; exact hd⟩

/-- masked iff client: every frame the model encodes carries a key exactly when the role is client -/
theorem masked_iff_client (isServer : Bool) (b0 : Nat) (key : Key) (payload : Bytes) :
    (frameOf isServer b0 key payload).mask.isSome = !isServer := by
  unfold frameOf; cases isServer <;> rfl

/-- C02 (frame-record level): for every admissible program without transport faults the wire decodes
    to a frame sequence that is well-formed for this role: masked iff client, RSV2/RSV3 clear, RSV1
    only on the first frame of a data message and only if permessage-deflate was negotiated, control
    frames unfragmented with ≤ 125 bytes, each data message one text/binary frame followed only by
    continuations. `_partial`: `EnvAdmissible` demands that the environment's flate answers pass the
    two checks of flateWriteWrapper.Close (real compress/flate always does; with an inconsistent
    answer the model — like the code — leaves a message writer open, see the kernel-checked
    counterexample `WireWF.wire_wellformed_false`); `Admissible` excludes a prepared *data* message
    sent while a message writer is open (finding F8). -/
theorem wire_wellformed_partial (s0 : W) (h0 : Fresh s0) (hf : s0.faults = []) (ops : List Op)
    (ha : WireWF.Admissible s0 ops) (he : WireWF.EnvAdmissible s0 ops) :
    ∃ fs, Spec.decodeStream (run s0 ops).wire = some fs ∧ Spec.WellFormed ⟨!s0.isServer, s0.nego⟩ fs :=
  WireWF.wire_wellformed_partial s0 h0 hf ops ha he

/-- with transport faults the whole frames that reached the wire are still well-formed -/
theorem wire_wellformed_prefix_partial (s0 : W) (h0 : Fresh s0) (ops : List Op)
    (ha : WireWF.Admissible s0 ops) (he : WireWF.EnvAdmissible s0 ops) :
    Spec.WellFormed ⟨!s0.isServer, s0.nego⟩ (Spec.decodePrefixAux (run s0 ops).wire.length (run s0 ops).wire) :=
  WireWF.wire_wellformed_prefix_partial s0 h0 ops ha he

/-- payloads: a data message written through NextWriter in any pieces (Write / WriteString of any
    sizes, pings/pongs in between) is accepted, and the wire gains exactly one message whose
    unmasked payload is the concatenation of the pieces, plus the interleaved control frames in
    order — for every buffer size and either role (uncompressed connections) -/
theorem message_roundtrip (s : W) (hi : Content.Idle s) (t : Nat) (ht : t = 1 ∨ t = 2) (ps : List Content.Piece)
    (hps : ∀ p ∈ ps, p.ok) :
    let s' := run s (Content.messageOps s t ps)
    Content.Idle s' ∧
    Content.wireMessages s' = Content.wireMessages s ++ [⟨t, false, (ps.map Content.Piece.bytes).flatten⟩] ∧
    Content.wireControls s' = Content.wireControls s ++ (ps.map Content.Piece.ctl).flatten :=
  Content.message_roundtrip s hi t ht ps hps

/-- the same for WriteMessage, any size, any buffer size, either role -/
theorem writeMessage_roundtrip (s : W) (hi : Content.Idle s) (t : Nat) (ht : t = 1 ∨ t = 2) (data : Bytes) (hd : data.length < 2 ^ 40) :
    (writeMessage s t data).1 = none ∧ Content.Idle (writeMessage s t data).2 ∧
    Content.wireMessages (writeMessage s t data).2 = Content.wireMessages s ++ [⟨t, false, data⟩] ∧
    Content.wireControls (writeMessage s t data).2 = Content.wireControls s :=
  Content.writeMessage_roundtrip s hi t ht data hd

/-- … and for a control message of at most 125 bytes sent with WriteControl -/
theorem writeControl_roundtrip (s : W) (hi : Content.Idle s) (t : Nat) (ht : t = 9 ∨ t = 10) (data : Bytes) (hd : data.length ≤ 125) (d : Nat) :
    (writeControl s t data d).1 = none ∧ Content.Idle (writeControl s t data d).2 ∧
    Content.wireMessages (writeControl s t data d).2 = Content.wireMessages s ∧
    Content.wireControls (writeControl s t data d).2 = Content.wireControls s ++ [(t, data)] :=
  Content.writeControl_roundtrip s hi t ht data hd d

/-- the length thresholds and header offsets of today's flushFrame are the ones the model encodes -/
theorem length_switch_as_modelled :
    Gen.lengthSwitch =
      ["length >= 65536 => c.writeBuf[framePos] = b0; c.writeBuf[framePos+1] = b1 | 127; binary.BigEndian.PutUint64(c.writeBuf[framePos+2:], uint64(length))",
       "length > 125 => framePos += 6; c.writeBuf[framePos] = b0; c.writeBuf[framePos+1] = b1 | 126; binary.BigEndian.PutUint16(c.writeBuf[framePos+2:], uint16(length))",
       "default => framePos += 8; c.writeBuf[framePos] = b0; c.writeBuf[framePos+1] = b1 | byte(length)"] := by
  decide +kernel

/-- non-vacuity: a server fast-path message of 20 bytes (buffer 16: header+16 bytes, then 4 extra bytes) decodes to one binary frame -/
example : (Spec.decodeStream (writeMessage (newW true 16 false false) 2 (List.replicate 20 7)).2.wire).map (·.length) = some 1 := by
  decide

open WS.Content WS.CompressedWrite in
/-- compressed messages (RFC 7692): with compression negotiated and enabled, a data message written in
    any pieces, with flate emitting its output in any chunks, reaches the wire as exactly one message
    with RSV1 on its first frame only whose payload is the deflate stream minus the 00 00 ff ff tail -/
theorem compressed_message_roundtrip (s : W) (hi : IdleZ s) (t : Nat) (ht : t = 1 ∨ t = 2)
    (writes : List (Bytes × List Bytes)) (dnC : List Bytes) (full : Bytes)
    (hsz : ∀ w ∈ writes, ∀ c ∈ w.2, c.length < 2 ^ 40) (hszC : ∀ c ∈ dnC, c.length < 2 ^ 40)
    (htail : 4 ≤ full.length ∧ full.drop (full.length - 4) = sync4)
    (hcons : pushed writes dnC = full.take (full.length - 4)) :
    let s' := run s (zOps s t writes dnC full)
    IdleZ s' ∧
    wireMessages s' = wireMessages s ++ [⟨t, true, full.take (full.length - 4)⟩] ∧
    wireControls s' = wireControls s := by
  first | exact CompressedWrite.compressed_message_roundtrip .. | (apply CompressedWrite.compressed_message_roundtrip <;> assumption)

open WS.Content WS.WriterMore in
/-- key_per_frame: every frame a client writes takes the next draw of the key source; the frames of
    one message carry consecutive draws and the source advances by the number of frames -/
theorem key_per_frame (s : W) (hi : Idle s) (hclient : s.isServer = false) (t : Nat) (ht : t = 1 ∨ t = 2)
    (data : Bytes) (hd : data.length < 2 ^ 40) :
    let s' := (writeMessage s t data).2
    ∃ n, s'.keyIdx = s.keyIdx + n ∧
      wireKeys s' = wireKeys s ++ (List.range n).map (fun i => some (keyAt s (s.keyIdx + i))) ∧ 0 < n := by
  first | exact WriterMore.key_per_frame .. | (apply WriterMore.key_per_frame <;> assumption)

open WS.Content WS.WriterMore in
/-- servers never mask -/
theorem server_never_masks (s : W) (hi : Idle s) (hsrv : s.isServer = true) (t : Nat) (ht : t = 1 ∨ t = 2)
    (data : Bytes) (hd : data.length < 2 ^ 40) :
    wireKeys (writeMessage s t data).2 = wireKeys s ++ List.replicate ((wireKeys (writeMessage s t data).2).length - (wireKeys s).length) none := by
  first | exact WriterMore.server_never_masks .. | (apply WriterMore.server_never_masks <;> assumption)

end WS.Props.C02
