import WS.Lemmas.WriterMore
import WS.Lemmas.WireInv
import WS.Lemmas.Codec
import WS.Lemmas.WireWF
import WS.Lemmas.Content
import WS.Gen.Skeletons
import WS.Lemmas.CompressedWrite
/-
  C02 — Everything written to the wire is well-formed RFC 6455 / RFC 7692 framing.
  (The frame-record level statement — masks, RSV bits, fragmentation grammar — is
  `wire_wellformed` from WS/Lemmas/WireWF.lean; this file holds the decodability core.)
-/
namespace WS.Props.C02
open WS WS.Codec WS.WireInv

theorem encode_ne_nil (isServer : Bool) (b0 : Nat) (key : Key) (payload : Bytes) : encode isServer b0 key payload ≠ [] := by
  unfold encode header
  dsimp only
  split <;> split <;> (try split) <;> simp

/-- a concatenation of frames, each encoded as the writer encodes them, is decoded by the strict
    RFC decoder into as many frames -/
theorem frames_decode (isServer : Bool) (fs : List Bytes) (h : ∀ f ∈ fs, IsFrame isServer f) :
    ∃ frs, Spec.decodeStream fs.flatten = some frs ∧ frs.length = fs.length := by
  induction fs with
  | nil => exact ⟨[], decodeStream_nil, rfl⟩
  | cons f fs ih =>
    obtain ⟨frs, hd, hl⟩ := ih (fun g hg => h g (List.mem_cons_of_mem _ hg))
    obtain ⟨b0, key, payload, hb, hp, hf⟩ := h f List.mem_cons_self
    subst hf
    have hdec := decode_encode isServer b0 key payload fs.flatten hb hp
    have := decodeStream_cons _ _ _ hdec (encode_ne_nil _ _ _ _)
    refine ⟨frameOf isServer b0 key payload :: frs, ?_, by simp [hl]⟩
    simp only [List.flatten_cons]
    rw [this, hd]; rfl

/-- C02 (decodability, minimal length encoding included because the decoder is strict): for every
    program over the write API without transport faults — any role, buffer size, pool setting,
    compression setting, split of writes, environment answer — the wire is a sequence of frames that
    the independent RFC decoder accepts -/
theorem wire_decodable (s0 : W) (h0 : Fresh s0) (hf : s0.faults = []) (ops : List Op)
    (hops : ∀ op ∈ ops, OpOK s0.isServer op) :
    ∃ frs, Spec.decodeStream (run s0 ops).wire = some frs := by
  obtain ⟨fs, hw, hfs⟩ := no_fault_whole_frames s0 h0 hf ops hops
  obtain ⟨frs, hd, _⟩ := frames_decode s0.isServer fs hfs
  exact ⟨frs, by rw [hw]; exact hd⟩

/-- masked iff client: every frame the model encodes carries a key exactly when the role is client -/
theorem masked_iff_client (isServer : Bool) (b0 : Nat) (key : Key) (payload : Bytes) :
    (frameOf isServer b0 key payload).mask.isSome = !isServer := by
  unfold frameOf; cases isServer <;> rfl

/-- C02 (frame-record level): for every admissible program without transport faults the wire decodes
    to a frame sequence that is well-formed for this role: masked iff client, RSV2/RSV3 clear, RSV1
    only on the first frame of a data message and only if permessage-deflate was negotiated, control
    frames unfragmented with ≤ 125 bytes, each data message one text/binary frame followed only by
    continuations. `_partial`: `EnvAdmissible` demands that the environment's flate answers pass the
    two checks of flateWriteWrapper.Close (real compress/flate always does; with an inconsistent
    answer the model — like the code — leaves a message writer open, see the kernel-checked
    counterexample `WireWF.wire_wellformed_false`); since the repair of finding F8 (WritePreparedMessage
    of a data message first closes the message writer the application left open) `Admissible` no longer
    excludes a prepared data message sent while a message writer is open — see the witness `witPOps`. -/
theorem wire_wellformed_partial (s0 : W) (h0 : Fresh s0) (hf : s0.faults = []) (ops : List Op)
    (ha : WireWF.Admissible s0 ops) (he : WireWF.EnvAdmissible s0 ops) :
    ∃ fs, Spec.decodeStream (run s0 ops).wire = some fs ∧ Spec.WellFormed ⟨!s0.isServer, s0.nego⟩ fs :=
  WireWF.wire_wellformed_partial s0 h0 hf ops ha he

/-- with transport faults the whole frames that reached the wire are still well-formed (`_partial`: under the same
    two hypotheses as `wire_wellformed_partial` — `Admissible`: prepared images are well-formed frames for this role;
    `EnvAdmissible`: the compress/flate answers are consistent) -/
theorem wire_wellformed_prefix_partial (s0 : W) (h0 : Fresh s0) (ops : List Op)
    (ha : WireWF.Admissible s0 ops) (he : WireWF.EnvAdmissible s0 ops) :
    Spec.WellFormed ⟨!s0.isServer, s0.nego⟩ (Spec.decodePrefixAux (run s0 ops).wire.length (run s0 ops).wire) :=
  WireWF.wire_wellformed_prefix_partial s0 h0 ops ha he

/-- payloads: a data message written through NextWriter in any pieces (Write / WriteString of any
    sizes, pings/pongs in between) is accepted, and the wire gains exactly one message whose
    unmasked payload is the concatenation of the pieces, plus the interleaved control frames in
    order — for every buffer size and either role (uncompressed connections) -/
theorem message_roundtrip (s : W) (hi : Content.Idle s) (t : Nat) (ht : t = 1 ∨ t = 2) (ps : List Content.Piece)
    (hps : ∀ p ∈ ps, p.ok) :
    let s' := run s (Content.messageOps s t ps)
    Content.Idle s' ∧
    Content.wireMessages s' = Content.wireMessages s ++ [⟨t, false, (ps.map Content.Piece.bytes).flatten⟩] ∧
    Content.wireControls s' = Content.wireControls s ++ (ps.map Content.Piece.ctl).flatten :=
  Content.message_roundtrip s hi t ht ps hps

/-- the same for WriteMessage, any size, any buffer size, either role -/
theorem writeMessage_roundtrip (s : W) (hi : Content.Idle s) (t : Nat) (ht : t = 1 ∨ t = 2) (data : Bytes) (hd : data.length < 2 ^ 40) :
    (writeMessage s t data).1 = none ∧ Content.Idle (writeMessage s t data).2 ∧
    Content.wireMessages (writeMessage s t data).2 = Content.wireMessages s ++ [⟨t, false, data⟩] ∧
    Content.wireControls (writeMessage s t data).2 = Content.wireControls s :=
  Content.writeMessage_roundtrip s hi t ht data hd

/-- … and for a control message of at most 125 bytes sent with WriteControl -/
theorem writeControl_roundtrip (s : W) (hi : Content.Idle s) (t : Nat) (ht : t = 9 ∨ t = 10) (data : Bytes) (hd : data.length ≤ 125) (d : Nat) :
    (writeControl s t data d).1 = none ∧ Content.Idle (writeControl s t data d).2 ∧
    Content.wireMessages (writeControl s t data d).2 = Content.wireMessages s ∧
    Content.wireControls (writeControl s t data d).2 = Content.wireControls s ++ [(t, data)] :=
  Content.writeControl_roundtrip s hi t ht data hd d

/-- the length thresholds and header offsets of today's flushFrame are the ones the model encodes -/
theorem length_switch_as_modelled :
    Gen.lengthSwitch =
      ["length >= 65536 => c.writeBuf[framePos] = b0; c.writeBuf[framePos+1] = b1 | 127; binary.BigEndian.PutUint64(c.writeBuf[framePos+2:], uint64(length))",
       "length > 125 => framePos += 6; c.writeBuf[framePos] = b0; c.writeBuf[framePos+1] = b1 | 126; binary.BigEndian.PutUint16(c.writeBuf[framePos+2:], uint16(length))",
       "default => framePos += 8; c.writeBuf[framePos] = b0; c.writeBuf[framePos+1] = b1 | byte(length)"] := by
  decide +kernel

/-- non-vacuity: a server fast-path message of 20 bytes (buffer 16: header+16 bytes, then 4 extra bytes) decodes to one binary frame -/
example : (Spec.decodeStream (writeMessage (newW true 16 false false) 2 (List.replicate 20 7)).2.wire).map (·.length) = some 1 := by
  decide

open WS.Content WS.CompressedWrite in
/-- compressed messages (RFC 7692): with compression negotiated and enabled, a data message written in
    any pieces, with flate emitting its output in any chunks, reaches the wire as exactly one message
    with RSV1 on its first frame only whose payload is the deflate stream minus the 00 00 ff ff tail -/
theorem compressed_message_roundtrip (s : W) (hi : IdleZ s) (t : Nat) (ht : t = 1 ∨ t = 2)
    (writes : List (Bytes × List Bytes)) (dnC : List Bytes) (full : Bytes)
    (hsz : ∀ w ∈ writes, ∀ c ∈ w.2, c.length < 2 ^ 40) (hszC : ∀ c ∈ dnC, c.length < 2 ^ 40)
    (htail : 4 ≤ full.length ∧ full.drop (full.length - 4) = sync4)
    (hcons : pushed writes dnC = full.take (full.length - 4)) :
    let s' := run s (zOps s t writes dnC full)
    IdleZ s' ∧
    wireMessages s' = wireMessages s ++ [⟨t, true, full.take (full.length - 4)⟩] ∧
    wireControls s' = wireControls s := by
  first | exact CompressedWrite.compressed_message_roundtrip .. | (apply CompressedWrite.compressed_message_roundtrip <;> assumption)

open WS.Content WS.WriterMore in
/-- key_per_frame: every frame a client writes takes the next draw of the key source; the frames of
    one message carry consecutive draws and the source advances by the number of frames -/
theorem key_per_frame (s : W) (hi : Idle s) (hclient : s.isServer = false) (t : Nat) (ht : t = 1 ∨ t = 2)
    (data : Bytes) (hd : data.length < 2 ^ 40) :
    let s' := (writeMessage s t data).2
    ∃ n, s'.keyIdx = s.keyIdx + n ∧
      wireKeys s' = wireKeys s ++ (List.range n).map (fun i => some (keyAt s (s.keyIdx + i))) ∧ 0 < n := by
  first | exact WriterMore.key_per_frame .. | (apply WriterMore.key_per_frame <;> assumption)

open WS.Content WS.WriterMore in
/-- servers never mask -/
theorem server_never_masks (s : W) (hi : Idle s) (hsrv : s.isServer = true) (t : Nat) (ht : t = 1 ∨ t = 2)
    (data : Bytes) (hd : data.length < 2 ^ 40) :
    wireKeys (writeMessage s t data).2 = wireKeys s ++ List.replicate ((wireKeys (writeMessage s t data).2).length - (wireKeys s).length) none := by
  first | exact WriterMore.server_never_masks .. | (apply WriterMore.server_never_masks <;> assumption)

/-! ### non-vacuity -/
section NonVacuity
set_option linter.defProp false

/-- "Hello" -/
def witHello : Bytes := [72, 101, 108, 108, 111]
/-- a client connection, write buffer 4096, no compression, two masking keys in the key source -/
def witC : W := { newW false 4096 false false with keys := [0x37, 0xfa, 0x21, 0x3d, 1, 2, 3, 4] }

/-- witness for `wire_decodable`: the constructor state is `Fresh` -/
def witC_fresh : Fresh witC := ⟨rfl, rfl, rfl, rfl, rfl, by decide, by decide⟩

/-- NextWriter(text); Write "Hel"; WriteControl(ping "hi"); WriteString "lo"; Close; WriteMessage(binary 01 02 03) -/
def witOps : List Op :=
  [.nextWriter 1 [] [], .write 0 [72, 101, 108] [] false, .writeControl 9 [104, 105] 0,
   .write 0 [108, 111] [] true, .close 0 [] [], .writeMessage 2 [1, 2, 3] [] [] [] []]

/-- witness for `wire_decodable`: every operation of the program satisfies the size conditions -/
def witOps_ok : ∀ op ∈ witOps, OpOK witC.isServer op := by
  intro op h
  simp [witOps] at h
  rcases h with rfl | rfl | rfl | rfl | rfl | rfl <;> simp [OpOK]

/-- non-vacuity of `wire_decodable`: all hypotheses hold for the client (buffer 4096, no faults)
    running the six-operation program `witOps`, and the theorem applies -/
example : ∃ frs, Spec.decodeStream (run witC witOps).wire = some frs :=
  wire_decodable witC witC_fresh rfl witOps witOps_ok

/-- … and that run (witness of `wire_decodable`) really puts three frames on the wire: ping "hi", text "Hello", binary 01 02 03 -/
example : (run witC witOps).wire =
    [137, 130, 55, 250, 33, 61, 95, 147, 129, 133, 1, 2, 3, 4, 73, 103, 111, 104, 110, 130, 131, 55, 250, 33, 61, 54, 248, 34] := by
  decide +kernel

/-- two frames as a client encodes them: the RFC 6455 §5.7 masked "Hello" and a ping "hi" -/
def witFrames : List Bytes :=
  [encode false 129 ⟨0x37, 0xfa, 0x21, 0x3d⟩ witHello, encode false 137 ⟨1, 2, 3, 4⟩ [104, 105]]

/-- witness for `frames_decode`: both are frames of a client -/
def witFrames_ok : ∀ f ∈ witFrames, IsFrame false f := by
  intro f h
  simp [witFrames] at h
  rcases h with rfl | rfl
  · exact ⟨129, ⟨0x37, 0xfa, 0x21, 0x3d⟩, witHello, by decide, by decide, rfl⟩
  · exact ⟨137, ⟨1, 2, 3, 4⟩, [104, 105], by decide, by decide, rfl⟩

/-- non-vacuity of `frames_decode`: the hypothesis holds for two masked client frames, and the theorem applies -/
example : ∃ frs, Spec.decodeStream witFrames.flatten = some frs ∧ frs.length = 2 :=
  frames_decode false witFrames witFrames_ok

/-- … the first of them (witness of `frames_decode`) is the RFC 6455 §5.7 example 81 85 37 fa 21 3d 7f 9f 4d 51 58 -/
example : (witFrames.head?) = some [0x81, 0x85, 0x37, 0xfa, 0x21, 0x3d, 0x7f, 0x9f, 0x4d, 0x51, 0x58] := by decide

/-- the freshly constructed client is `Idle` -/
def witC_idle : Content.Idle witC :=
  ⟨rfl, rfl, rfl, (fun m h => by cases h), ⟨by decide, by decide⟩, ⟨[], by decide, rfl⟩, rfl⟩

/-- the client after one text message "Hello" went out: a connection between messages with a non-empty wire -/
def witC1 : W := (writeMessage witC 1 witHello).2

/-- witness for `message_roundtrip`, `writeMessage_roundtrip`, `writeControl_roundtrip`, `key_per_frame`:
    the client is `Idle` again after the first message (by `writeMessage_roundtrip` on the fresh state) -/
def witC1_idle : Content.Idle witC1 :=
  (writeMessage_roundtrip witC witC_idle 1 (Or.inl rfl) witHello (by decide)).2.1

/-- a message larger than the write buffer: 5000 bytes (two frames) -/
def witBig : Bytes := List.replicate 5000 7
/-- witness for the size bound `data.length < 2 ^ 40` -/
def witBig_len : witBig.length < 2 ^ 40 := by rw [witBig, List.length_replicate]; decide

/-- Write 01 02; WriteControl(ping "hi", deadline 5); WriteString 03 -/
def witPieces : List Content.Piece := [.write [1, 2] false, .control 9 [104, 105] 5, .write [3] true]

/-- witness for `message_roundtrip`: every piece is `ok` -/
def witPieces_ok : ∀ p ∈ witPieces, p.ok := by
  intro p h
  simp [witPieces] at h
  rcases h with rfl | rfl | rfl <;> simp [Content.Piece.ok]

/-- non-vacuity of `message_roundtrip`: all hypotheses hold for the client (buffer 4096) that already sent
    one message and now writes a binary message in two pieces with a ping in between, and the theorem applies -/
example :
    Content.Idle (run witC1 (Content.messageOps witC1 2 witPieces)) ∧
    Content.wireMessages (run witC1 (Content.messageOps witC1 2 witPieces)) = Content.wireMessages witC1 ++ [⟨2, false, [1, 2, 3]⟩] ∧
    Content.wireControls (run witC1 (Content.messageOps witC1 2 witPieces)) = Content.wireControls witC1 ++ [(9, [104, 105])] :=
  message_roundtrip witC1 witC1_idle 2 (Or.inr rfl) witPieces witPieces_ok

/-- non-vacuity of `writeMessage_roundtrip`: all hypotheses hold for the same client and a 5000-byte binary
    message (larger than the buffer), and the theorem applies -/
example :
    (writeMessage witC1 (2 : Nat) witBig).1 = none ∧ Content.Idle (writeMessage witC1 (2 : Nat) witBig).2 ∧
    Content.wireMessages (writeMessage witC1 (2 : Nat) witBig).2 = Content.wireMessages witC1 ++ [⟨2, false, witBig⟩] ∧
    Content.wireControls (writeMessage witC1 (2 : Nat) witBig).2 = Content.wireControls witC1 :=
  writeMessage_roundtrip witC1 witC1_idle 2 (Or.inr rfl) witBig witBig_len

/-- non-vacuity of `writeControl_roundtrip`: all hypotheses hold for the same client and a pong "hi" with
    deadline 5, and the theorem applies -/
example :
    (writeControl witC1 (10 : Nat) [104, 105] (5 : Nat)).1 = none ∧ Content.Idle (writeControl witC1 (10 : Nat) [104, 105] (5 : Nat)).2 ∧
    Content.wireMessages (writeControl witC1 (10 : Nat) [104, 105] (5 : Nat)).2 = Content.wireMessages witC1 ∧
    Content.wireControls (writeControl witC1 (10 : Nat) [104, 105] (5 : Nat)).2 = Content.wireControls witC1 ++ [(10, [104, 105])] :=
  writeControl_roundtrip witC1 witC1_idle 10 (Or.inr rfl) [104, 105] (by decide) 5

open WS.Content WS.WriterMore in
/-- non-vacuity of `key_per_frame`: all hypotheses hold for the same client (`isServer = false`) and the
    5000-byte message, and the theorem applies -/
example : ∃ n, (writeMessage witC1 (2 : Nat) witBig).2.keyIdx = witC1.keyIdx + n ∧
      wireKeys (writeMessage witC1 (2 : Nat) witBig).2 = wireKeys witC1 ++ (List.range n).map (fun i => some (keyAt witC1 (witC1.keyIdx + i))) ∧ 0 < n :=
  key_per_frame witC1 witC1_idle (by decide +kernel) 2 (Or.inr rfl) witBig witBig_len

/-- a server connection, write buffer 4096 -/
def witS : W := newW true 4096 false false
/-- the freshly constructed server is `Idle` -/
def witS_idle : Content.Idle witS :=
  ⟨rfl, rfl, rfl, (fun m h => by cases h), ⟨by decide, by decide⟩, ⟨[], by decide, rfl⟩, rfl⟩
/-- the server after one text message "Hello" -/
def witS1 : W := (writeMessage witS 1 witHello).2
/-- witness for `server_never_masks`: the server is `Idle` again after the first message -/
def witS1_idle : Content.Idle witS1 :=
  (writeMessage_roundtrip witS witS_idle 1 (Or.inl rfl) witHello (by decide)).2.1

open WS.Content WS.WriterMore in
/-- non-vacuity of `server_never_masks`: all hypotheses hold for a server (buffer 4096) that already sent
    one message and a 5000-byte message, and the theorem applies -/
example : wireKeys (writeMessage witS1 (2 : Nat) witBig).2 = wireKeys witS1 ++ List.replicate ((wireKeys (writeMessage witS1 (2 : Nat) witBig).2).length - (wireKeys witS1).length) none :=
  server_never_masks witS1 witS1_idle (by decide +kernel) 2 (Or.inr rfl) witBig witBig_len


/-- a client connection, write buffer 4096, permessage-deflate negotiated, two masking keys in the source -/
def witZ : W := { newW false 4096 false true with keys := [0x37, 0xfa, 0x21, 0x3d, 1, 2, 3, 4] }

/-- witness for `wire_wellformed_partial`: the constructor state is `Fresh` -/
def witZ_fresh : Fresh witZ := ⟨rfl, rfl, rfl, rfl, rfl, by decide, by decide⟩

/-- deflate("Hello") with sync flush: f2 48 cd c9 c9 07 00 | 00 00 ff ff (RFC 7692 §7.2.3.1) -/
def witHelloZ : Bytes := [0xf2, 0x48, 0xcd, 0xc9, 0xc9, 0x07, 0x00, 0x00, 0x00, 0xff, 0xff]
/-- deflate(01 02 03) with sync flush -/
def witBinZ : Bytes := [0x62, 0x64, 0x62, 0x06, 0x00, 0x00, 0x00, 0xff, 0xff]

/-- NextWriter(text) — a flate writer; Write "Hello" (flate pushes f2 48 cd); WriteControl(ping "hi");
    Close (flate flushes c9 c9 | 07 00; the environment's full stream is `witHelloZ`);
    WriteMessage(binary 01 02 03) compressed to `witBinZ` -/
def witZOps : List Op :=
  [.nextWriter 1 [] [],
   .write 0 witHello [[0xf2, 0x48, 0xcd]] false,
   .writeControl 9 [104, 105] 0,
   .close 0 [[0xc9, 0xc9], [0x07, 0x00]] witHelloZ,
   .writeMessage 2 [1, 2, 3] [] [] [[0x62, 0x64, 0x62, 0x06, 0x00]] witBinZ]

/-- witness for `wire_wellformed_partial`: the program is `Admissible` -/
def witZOps_adm : WireWF.Admissible witZ witZOps := by
  refine ⟨?_, trivial, ?_, trivial, trivial, trivial, ?_, trivial, ?_, trivial, trivial⟩
  · simp [OpOK]
  · simp [OpOK, witHello]
  · simp [OpOK]
  · simp [OpOK]

/-- decidable equality of handles (local helper for `decide +kernel`) -/
@[instance_reducible] def witDecEqHandle : DecidableEq Handle := fun a b =>
  match a, b with
  | .plain x, .plain y => if h : x = y then isTrue (h ▸ rfl) else isFalse (fun e => by cases e; exact h rfl)
  | .plain _, .flate .. => isFalse (fun e => by cases e)
  | .flate .., .plain _ => isFalse (fun e => by cases e)
  | .flate a1 a2 a3 a4, .flate b1 b2 b3 b4 =>
    if h : a1 = b1 ∧ a2 = b2 ∧ a3 = b3 ∧ a4 = b4 then isTrue (by obtain ⟨rfl, rfl, rfl, rfl⟩ := h; rfl)
    else isFalse (fun e => by cases e; exact h ⟨rfl, rfl, rfl, rfl⟩)

attribute [local instance] witDecEqHandle

/-- the handle a successful NextWriter returned (helper for `decide +kernel`) -/
def witOkVal : Except WErr Nat → Option Nat
  | .ok h => some h
  | .error _ => none

/-- witness for `wire_wellformed_partial`: `EnvAdmissible` holds non-trivially — the program closes two
    flate writers (handle 0 explicitly, handle 1 inside WriteMessage) and both times the stream ends in
    00 00 ff ff and its front is what went downstream -/
def witZOps_env : WireWF.EnvAdmissible witZ witZOps := by
  refine ⟨?_, trivial, trivial, ?_, ?_, trivial⟩
  · intro h hh; cases hh
  · intro i sent hh
    have h' : (run witZ (witZOps.take 3)).handles[0]? = some (Handle.flate 0 true none [0xf2, 0x48, 0xcd]) := by decide +kernel
    have h2 := h'.symm.trans hh
    cases h2
    exact ⟨by decide, by decide⟩
  · refine ⟨?_, ?_⟩
    · intro h hh
      have h' : (run witZ (witZOps.take 4)).writer = none := by decide +kernel
      exact absurd (h'.symm.trans hh) (by simp)
    · intro h s1 heq
      have e1 : witOkVal (nextWriter (run witZ (witZOps.take 4)) 2 [] []).1 = some 1 := by decide +kernel
      have e2 : witOkVal (nextWriter (run witZ (witZOps.take 4)) 2 [] []).1 = some h := congrArg (fun p => witOkVal p.1) heq
      have e3 : (nextWriter (run witZ (witZOps.take 4)) 2 [] []).2 = s1 := congrArg Prod.snd heq
      obtain rfl : h = 1 := by
        have := e2.symm.trans e1
        cases this; rfl
      subst e3
      intro i sent hh
      have h' : (hWrite (nextWriter (run witZ (witZOps.take 4)) 2 [] []).2 1 [1, 2, 3] [[0x62, 0x64, 0x62, 0x06, 0x00]]).2.handles[1]?
          = some (Handle.flate 1 true none [0x62, 0x64, 0x62, 0x06, 0x00]) := by decide +kernel
      have h2 := h'.symm.trans hh
      cases h2
      exact ⟨by decide, by decide⟩

/-- non-vacuity of `wire_wellformed_partial`: all hypotheses hold for the client (buffer 4096, compression
    negotiated, no faults) running the five-operation program `witZOps`, and the theorem applies -/
example : ∃ fs, Spec.decodeStream (run witZ witZOps).wire = some fs ∧ Spec.WellFormed ⟨true, true⟩ fs :=
  wire_wellformed_partial witZ witZ_fresh rfl witZOps witZOps_adm witZOps_env

/-- the same connection with a transport fault script: the 4th transport call (the Write of the
    text frame) accepts 5 bytes and fails -/
def witZF : W := { witZ with faults := [(3, .short 5 7)] }

/-- witness for `wire_wellformed_prefix_partial` -/
def witZF_fresh : Fresh witZF := ⟨rfl, rfl, rfl, rfl, rfl, by decide, by decide⟩

/-- witness for `wire_wellformed_prefix_partial`: the program is `Admissible` from the faulty connection -/
def witZFOps_adm : WireWF.Admissible witZF witZOps := by
  refine ⟨?_, trivial, ?_, trivial, trivial, trivial, ?_, trivial, ?_, trivial, trivial⟩
  · simp [OpOK]
  · simp [OpOK, witHello]
  · simp [OpOK]
  · simp [OpOK]

/-- witness for `wire_wellformed_prefix_partial`: `EnvAdmissible` (the Close of handle 0 passes both checks
    before the transport fails; the later WriteMessage gets no writer any more) -/
def witZFOps_env : WireWF.EnvAdmissible witZF witZOps := by
  refine ⟨?_, trivial, trivial, ?_, ?_, trivial⟩
  · intro h hh; cases hh
  · intro i sent hh
    have h' : (run witZF (witZOps.take 3)).handles[0]? = some (Handle.flate 0 true none [0xf2, 0x48, 0xcd]) := by decide +kernel
    have h2 := h'.symm.trans hh
    cases h2
    exact ⟨by decide, by decide⟩
  · refine ⟨?_, ?_⟩
    · intro h hh
      have h' : (run witZF (witZOps.take 4)).writer = none := by decide +kernel
      exact absurd (h'.symm.trans hh) (by simp)
    · intro h s1 heq
      have e1 : witOkVal (nextWriter (run witZF (witZOps.take 4)) 2 [] []).1 = none := by decide +kernel
      have e2 : witOkVal (nextWriter (run witZF (witZOps.take 4)) 2 [] []).1 = some h := congrArg (fun p => witOkVal p.1) heq
      exact absurd (e1.symm.trans e2) (by simp)

/-- the fault really strikes (witness of `wire_wellformed_prefix_partial`): the ping frame and 5 bytes of the text frame are on the wire, the error is sticky -/
example : (run witZF witZOps).wire = [137, 130, 55, 250, 33, 61, 95, 147, 193, 135, 1, 2, 3] ∧
    (run witZF witZOps).writeErr = some (.transport 7) := by decide +kernel

/-- non-vacuity of `wire_wellformed_prefix_partial`: all hypotheses hold for the client with a short write
    at the 4th transport call running `witZOps`, and the theorem applies -/
example : Spec.WellFormed ⟨true, true⟩ (Spec.decodePrefixAux (run witZF witZOps).wire.length (run witZF witZOps).wire) :=
  wire_wellformed_prefix_partial witZF witZF_fresh witZOps witZFOps_adm witZFOps_env

/-! a prepared data message in the middle of a fragmented message (finding F8, repaired) -/

/-- a server connection, write buffer 4096, no compression -/
def witP : W := newW true 4096 false false
def witP_fresh : Fresh witP := ⟨rfl, rfl, rfl, rfl, rfl, by decide, by decide⟩
/-- the prepared text message "hi" as one server frame -/
def witHiImg : Bytes := [0x81, 0x02, 104, 105]
/-- NextWriter(text); Write "Hello" (buffered, the message writer stays open); WritePreparedMessage(text "hi") -/
def witPOps : List Op :=
  [.nextWriter 1 [] [], .write 0 witHello [] false, .writePrepared 1 witHiImg [] []]

/-- witness for `wire_wellformed_partial`: the program is `Admissible` although the prepared *data* message
    is sent while a message writer is open (before the repair `Admissible` demanded `NoOpenWriter` here) -/
def witPOps_adm : WireWF.Admissible witP witPOps := by
  refine ⟨?_, trivial, ?_, trivial, ⟨⟨[witHiImg], ?_, by decide⟩, ?_⟩, ?_, trivial⟩
  · simp [OpOK]
  · simp [OpOK, witHello]
  · intro f hf
    rw [List.mem_singleton] at hf
    subst hf
    exact ⟨129, default, [104, 105], by decide, by decide, by decide +kernel⟩
  · intro _ c hc; cases hc
  · exact Or.inr ⟨⟨[⟨true, false, false, false, 1, none, [104, 105]⟩], by decide +kernel, by decide +kernel, by decide, by decide, by decide⟩,
      Or.inl (by decide)⟩

/-- … and a message writer really is open when the prepared message is sent -/
example : ¬ WireWF.NoOpenWriter (run witP (witPOps.take 2)) := by
  intro h
  have h1 : (run witP (witPOps.take 2)).mws.all (fun m => m.err.isSome) = false := by decide +kernel
  have h2 : (run witP (witPOps.take 2)).mws.all (fun m => m.err.isSome) = true := List.all_eq_true.mpr h
  rw [h1] at h2; cases h2

def witPOps_env : WireWF.EnvAdmissible witP witPOps := by
  refine ⟨?_, trivial, ?_, trivial⟩
  · intro h hh; cases hh
  · intro _ h _ i sent hh
    have h' : (run witP (witPOps.take 2)).handles = [Handle.plain 0] := by decide +kernel
    have hh' : (run witP (witPOps.take 2)).handles[h]? = some (Handle.flate i true none sent) := hh
    rw [h'] at hh'
    cases h with
    | zero => cases hh'
    | succ n => cases hh'

/-- non-vacuity of `wire_wellformed_partial` for the repaired case: the open text message is finished
    first ("Hello", final), then the prepared "hi" follows -/
example : ∃ fs, Spec.decodeStream (run witP witPOps).wire = some fs ∧ Spec.WellFormed ⟨false, false⟩ fs :=
  wire_wellformed_partial witP witP_fresh rfl witPOps witPOps_adm witPOps_env

example : (run witP witPOps).wire = [0x81, 0x05] ++ witHello ++ witHiImg := by decide +kernel

/-! compressed messages: adapted from the witness of the identical theorem in WS/Props/C15.lean -/
open WS.Content WS.CompressedWrite in
/-- witness for `compressed_message_roundtrip`: the fresh negotiated client is `IdleZ` -/
def witZ_idle : IdleZ witZ :=
  { healthy := rfl, noFaults := rfl, noWriter := rfl
    dead := by intro m h; cases h
    size := by decide
    whole := ⟨[], rfl, rfl⟩
    nego := rfl, enabled := rfl }

/-- "Hel" ++ "lo" written in two calls; flate pushes the RFC 7692 §7.2.3.1 deflate stream of "Hello"
    (f2 48 cd c9 c9 07 00) downstream in four chunks: one during each Write, two during Close -/
def witWrites : List (Bytes × List Bytes) :=
  [([0x48, 0x65, 0x6c], [[0xf2, 0x48]]), ([0x6c, 0x6f], [[0xcd]])]
def witDnC : List Bytes := [[0xc9, 0xc9], [0x07, 0x00]]

def witWrites_sz : ∀ w ∈ witWrites, ∀ c ∈ w.2, c.length < 2 ^ 40 := by decide
def witDnC_sz : ∀ c ∈ witDnC, c.length < 2 ^ 40 := by decide
def witHelloZ_tail : 4 ≤ witHelloZ.length ∧ witHelloZ.drop (witHelloZ.length - 4) = sync4 := by decide
open WS.CompressedWrite in
def witHelloZ_cons : pushed witWrites witDnC = witHelloZ.take (witHelloZ.length - 4) := by decide

open WS.Content WS.CompressedWrite in
/-- non-vacuity of `compressed_message_roundtrip`: all hypotheses hold for a client (buffer 4096,
    compression negotiated and enabled) writing the text message "Hello" in two pieces with flate's
    output in four chunks, and the theorem applies -/
example :
    let s' := run witZ (zOps witZ 1 witWrites witDnC witHelloZ)
    IdleZ s' ∧
    wireMessages s' = wireMessages witZ ++ [⟨1, true, witHelloZ.take (witHelloZ.length - 4)⟩] ∧
    wireControls s' = wireControls witZ :=
  compressed_message_roundtrip witZ witZ_idle 1 (Or.inl rfl) witWrites witDnC witHelloZ
    witWrites_sz witDnC_sz witHelloZ_tail witHelloZ_cons

/-- … and the wire of that run (witness of `compressed_message_roundtrip`) is one masked FIN+RSV1 text frame of 7 bytes -/
example : (run witZ (CompressedWrite.zOps witZ 1 witWrites witDnC witHelloZ)).wire =
    [0xc1, 0x87, 0x37, 0xfa, 0x21, 0x3d, 197, 178, 236, 244, 254, 253, 33] := by decide +kernel

end NonVacuity

end WS.Props.C02
