import WS.Gen.Skeletons
/-
  C20 — translator tie: the statement text of the functions this property's model transcribes, regenerated
  from /repo by factgen on every run (WS/Gen/Skeletons.lean), equals the text the model was written against.
  A change to one of these functions breaks the obligation below; the check then searches for a failing
  input with the property's oracles (DESIGN §5).
-/
namespace WS.Props.C20Tie
open WS

/-- today's beginMessage / endMessage are the modelled ones (the only pool traffic of the package: inventory pool_sites) -/
theorem pool_sites_as_modelled :
    Gen.stmts_beginMessage =
      ["if c.writer != nil { c.writer.Close() c.writer = nil }",
        "if !isControl(messageType) && !isData(messageType) { return errBadWriteOpCode }",
        "c.writeErrMu.Lock()",
        "err := c.writeErr",
        "c.writeErrMu.Unlock()",
        "if err != nil { return err }",
        "mw.c = c",
        "mw.frameType = messageType",
        "mw.pos = maxFrameHeaderSize",
        "if c.writeBuf == nil { wpd, ok := c.writePool.Get().(writePoolData) if ok { c.writeBuf = wpd.buf } else { c.writeBuf = make([]byte, c.writeBufSize) } }",
        "return nil"] ∧
    Gen.stmts_endMessage =
      ["if w.err != nil { return err }",
        "c := w.c",
        "w.err = err",
        "c.writer = nil",
        "if c.writePool != nil { c.writePool.Put(writePoolData{buf: c.writeBuf}) c.writeBuf = nil }",
        "return err"] := by
  refine ⟨?_, ?_⟩ <;> rfl


end WS.Props.C20Tie
