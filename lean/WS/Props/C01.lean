import WS.Lemmas.RoundTripLimit
import WS.Lemmas.ContentRF
import WS.Lemmas.Sequences
import WS.Lemmas.PairRoundtrip
import WS.Lemmas.WriterMore
import WS.Lemmas.MaskTrunc
import WS.Lemmas.Mask
import WS.Lemmas.Codec
/-
  C01 — Message round-trip fidelity: data transformations that the tests never vary.
  (The composition writer ∘ wire ∘ reader is stated in C02 / C03; the per-message round trip over
  the writer model is `WS.Props.C02.message_roundtrip` once WS/Lemmas/Content.lean is in.)
-/
namespace WS.Props.C01
open WS

/-- mask.go's word-at-a-time algorithm equals RFC 6455 §5.3 byte-wise masking for every slice
    alignment, key, key offset and length, and returns the right next offset -/
theorem mask_words_eq_bytes (k : Key) (pos a : Nat) (b : Bytes) :
    maskBytesGo k pos a b = (maskFrom k pos b, (pos + b.length) % 4) :=
  MaskTrunc.mask_words_eq_bytes k pos a b

/-- masking is an involution: the peer's unmasking restores the payload -/
theorem mask_involutive (k : Key) (p : Nat) (bs : Bytes) : maskFrom k p (maskFrom k p bs) = bs :=
  maskFrom_involutive k p bs

/-- the key offset carries across a split of the payload (frames delivered in several reads) -/
theorem mask_pos_carry (k : Key) (p : Nat) (xs ys : Bytes) :
    maskFrom k p (xs ++ ys) = maskFrom k p xs ++ maskFrom k (p + xs.length) ys :=
  maskFrom_append k p xs ys

/-- truncWriter: for every chunking of the deflate stream, forwarded ++ held = stream and exactly
    min(4, length) bytes are held back -/
theorem trunc_any_chunking (cs : List Bytes) :
    (MaskTrunc.writeAll cs).forwarded ++ (MaskTrunc.writeAll cs).p = cs.flatten ∧
    (MaskTrunc.writeAll cs).p.length = min 4 cs.flatten.length :=
  MaskTrunc.trunc_any_chunking cs

/-- one frame: strict decoding inverts the writer's encoding for every length below 2^63 -/
theorem frame_roundtrip (isServer : Bool) (b0 : Nat) (key : Key) (payload rest : Bytes)
    (hb : b0 < 256) (hl : payload.length < 2 ^ 63) :
    Spec.decodeFrame (Codec.encode isServer b0 key payload ++ rest) = some (Codec.frameOf isServer b0 key payload, rest) :=
  Codec.decode_encode isServer b0 key payload rest hb hl

/-- non-vacuity: a masked 5-byte frame with an extreme key -/
example : Spec.decodeFrame (Codec.encode false 130 ⟨255, 0, 255, 0⟩ [1, 2, 3, 4, 5]) =
    some (Codec.frameOf false 130 ⟨255, 0, 255, 0⟩ [1, 2, 3, 4, 5], []) := by decide

open WS.Content WS.WriterMore in
/-- accepted (control messages): the constructor always makes room for a control frame (repair of F4) … -/
theorem newW_fits_control (isServer : Bool) (size : Int) (pool nego : Bool) :
    maxFrameHeaderSize + 125 ≤ (newW isServer size pool nego).wbufLen := by
  first | exact WriterMore.newW_fits_control .. | (apply WriterMore.newW_fits_control <;> assumption)

open WS.Content WS.WriterMore in
/-- … so a ping/pong of at most 125 bytes through WriteMessage is accepted and is exactly one control
    frame with that payload, client or server -/
theorem writeMessage_control_roundtrip (s : W) (hi : Idle s) (hcap : maxFrameHeaderSize + 125 ≤ s.wbufLen)
    (t : Nat) (ht : t = 9 ∨ t = 10) (data : Bytes) (hd : data.length ≤ 125) :
    (writeMessage s t data).1 = none ∧ Idle (writeMessage s t data).2 ∧
    wireMessages (writeMessage s t data).2 = wireMessages s ∧
    wireControls (writeMessage s t data).2 = wireControls s ++ [(t, data)] := by
  first | exact WriterMore.writeMessage_control_roundtrip .. | (apply WriterMore.writeMessage_control_roundtrip <;> assumption)

open WS.ReaderDecodes WS.PairRoundtrip in
/-- round_trip (the property's headline, as one theorem): whatever `WriteMessage(t, data)` on one
    connection puts on the wire — any payload below 2^40 bytes, any write buffer size, either role
    (masked or not) — a connection of the opposite role reads as exactly `(t, data)`: NextReader returns
    the type, reading to the end with reads of ANY size through ANY bufio size ≥ 125 and ANY transport
    chunking yields exactly the payload and then end-of-message, no handler is invoked, and the reader
    is idle again with the following bytes untouched -/
theorem round_trip (s : W) (hi : Content.Idle s) (t : Nat) (ht : t = 1 ∨ t = 2) (data : Bytes)
    (hd : data.length < 2 ^ 40)
    (c : Conn) (hc : ReaderIdle c) (hrole : c.r.isServer = !s.isServer) (rest : Bytes)
    (hp : c.r.buf.pending = (writeMessage s t data).2.wire.drop s.wire.length ++ rest)
    (hend : c.r.buf.t.together = false ∨ rest ≠ []) (hlim : c.r.limit ≤ 0) (k : Nat) (hk : 0 < k) :
    ∃ c1 rid, nextReader c = (.msg t rid false, c1) ∧
      ∃ c2, readAll c1 rid k = ((data, none), c2) ∧ ReaderIdle c2 ∧ c2.r.buf.pending = rest ∧
        c2.r.hlog = c.r.hlog := by
  first | exact PairRoundtrip.pair_roundtrip .. | (apply PairRoundtrip.pair_roundtrip <;> assumption)

open WS.ReaderDecodes WS.PairRoundtrip in
/-- the bridge between the two sides: the frames WriteMessage appends form one conformant message
    (first frame of type t, continuations, FIN on the last; no control frames) whose payload is data -/
theorem writeMessage_frames (s : W) (hi : Content.Idle s) (t : Nat) (ht : t = 1 ∨ t = 2) (data : Bytes)
    (hd : data.length < 2 ^ 40) :
    ∃ fs : List PFrame, MsgShape t fs ∧ dataPayload fs = data ∧ ctlEvents fs = [] ∧
      (writeMessage s t data).2.wire = s.wire ++ encAll (!s.isServer) fs := by
  first | exact PairRoundtrip.writeMessage_frames .. | (apply PairRoundtrip.writeMessage_frames <;> assumption)


open WS.ReaderDecodes WS.PairRoundtrip WS.Sequences WS.ContentRF WS.Content

/-- round_trip for ANY NUMBER of messages ("every data message arrives exactly once, in send order"):
    whatever a sequence of WriteMessage calls on one connection puts on the wire, a connection of the
    opposite role reads (`readMsgs`: NextReader, then reads of any size k to the end, repeated) as
    exactly that list of (type, payload) pairs; no handler is invoked, the following bytes are
    untouched, the writer is idle again. By induction over the list from `round_trip`. -/
theorem round_trip_sequence (s : W) (hi : Content.Idle s) (msgs : List (Nat × Bytes))
    (hm : ∀ m ∈ msgs, (m.1 = 1 ∨ m.1 = 2) ∧ m.2.length < 2 ^ 40)
    (c : Conn) (hc : ReaderIdle c) (hrole : c.r.isServer = !s.isServer) (rest : Bytes)
    (hp : c.r.buf.pending = (writeMsgs s msgs).wire.drop s.wire.length ++ rest)
    (hend : c.r.buf.t.together = false ∨ rest ≠ []) (hlim : c.r.limit ≤ 0) (k : Nat) (hk : 0 < k) :
    ∃ c', readMsgs k msgs.length c = (msgs, c') ∧ ReaderIdle c' ∧ c'.r.buf.pending = rest ∧
      c'.r.hlog = c.r.hlog ∧ Content.Idle (writeMsgs s msgs) := by
  first | exact WS.Sequences.round_trip_sequence .. | (apply WS.Sequences.round_trip_sequence <;> assumption)

/-- … with control messages in between ("control messages sent in between do not disturb it"): a
    program of WriteMessage (text / binary) and WriteControl (ping / pong ≤ 125 bytes) calls, ending
    with a data message, is read as exactly its data messages in send order, each once, and the
    reader's handlers are invoked for exactly the control frames, in send order (`ctlOf`). -/
theorem round_trip_sequence_with_controls (s : W) (hi : Content.Idle s) (items : List Item)
    (hok : ∀ it ∈ items, it.ok)
    (hlast : items = [] ∨ ∃ pre t d, items = pre ++ [.data t d])
    (c : Conn) (hc : ReaderIdle c) (hrole : c.r.isServer = !s.isServer) (rest : Bytes)
    (hp : c.r.buf.pending = (writeItems s items).wire.drop s.wire.length ++ rest)
    (hend : c.r.buf.t.together = false ∨ rest ≠ []) (hlim : c.r.limit ≤ 0) (k : Nat) (hk : 0 < k) :
    ∃ c', readMsgs k (dataOf items).length c = (dataOf items, c') ∧ ReaderIdle c' ∧
      c'.r.buf.pending = rest ∧ c'.r.hlog = c.r.hlog ++ ctlOf items ∧
      Content.Idle (writeItems s items) := by
  first | exact WS.Sequences.round_trip_sequence_with_controls .. | (apply WS.Sequences.round_trip_sequence_with_controls <;> assumption)

/-- the NextWriter round trip with `ReadFrom` (io.Copy into the message writer) among the pieces:
    Write / WriteString of any sizes, ReadFrom of a source that hands out its bytes in reads of any
    sizes — empty reads included — and ends with io.EOF, alone or together with its last bytes,
    pings/pongs in between: one message on the wire whose payload is the concatenation of everything
    written and copied, for every buffer size and either role (uncompressed connections) -/
theorem message_roundtrip_readFrom (s : W) (hi : Idle s) (t : Nat) (ht : t = 1 ∨ t = 2) (ps : List Piece2)
    (hps : ∀ p ∈ ps, p.ok) :
    let s' := run s (messageOps2 s t ps)
    Idle s' ∧
    wireMessages s' = wireMessages s ++ [⟨t, false, (ps.map Piece2.bytes).flatten⟩] ∧
    wireControls s' = wireControls s ++ (ps.map Piece2.ctl).flatten := by
  first | exact WS.ContentRF.message_roundtrip_readFrom .. | (apply WS.ContentRF.message_roundtrip_readFrom <;> assumption)

/-- the io.ReaderFrom contract: ReadFrom on the live writer of a data message of a healthy connection
    reports exactly the number of bytes the source handed out, and no error, when the source ends with
    io.EOF; in particular the loop terminates (the model's `.hang` outcome is never reached) -/
theorem readFrom_reports_all_data (s : W) (m : MW) (r : Src) (hm : m.err = none) (hr : r.term = none)
    (hcap : 0 < s.cap) (hb : m.buf.length ≤ s.cap) (hw : s.writeErr = none) (hf : s.faults = [])
    (hft : isControl m.ft = false) :
    (mwReadFrom s m r).1 = (r.chunks.flatten.length, none) := by
  first | exact WS.ContentRF.readFrom_reports_all_data .. | (apply WS.ContentRF.readFrom_reports_all_data <;> assumption)


open WS.ReaderDecodes WS.PairRoundtrip in
/-- `round_trip` for a receiver with a read limit: any limit not below the payload length lets the
    message through unchanged (and leaves the limit as it is) -/
theorem round_trip_limited (s : W) (hi : Content.Idle s) (t : Nat) (ht : t = 1 ∨ t = 2) (data : Bytes)
    (hd : data.length < 2 ^ 40)
    (c : Conn) (hc : ReaderIdle c) (hrole : c.r.isServer = !s.isServer) (rest : Bytes)
    (hp : c.r.buf.pending = (writeMessage s t data).2.wire.drop s.wire.length ++ rest)
    (hend : c.r.buf.t.together = false ∨ rest ≠ [])
    (hlim : c.r.limit ≤ 0 ∨ (data.length : Int) ≤ c.r.limit) (k : Nat) (hk : 0 < k) :
    ∃ c1 rid, nextReader c = (.msg t rid false, c1) ∧
      ∃ c2, readAll c1 rid k = ((data, none), c2) ∧ ReaderIdle c2 ∧ c2.r.buf.pending = rest ∧
        c2.r.hlog = c.r.hlog ∧ c2.r.limit = c.r.limit := by
  first | exact WS.RoundTripLimit.round_trip_limited .. | (apply WS.RoundTripLimit.round_trip_limited <;> assumption)

open WS.ReaderDecodes WS.PairRoundtrip WS.Sequences in
/-- any number of messages sent with WriteMessage, each within the receiver's read limit (their total
    may be far above it), arrive exactly once, in send order -/
theorem round_trip_sequence_limited (s : W) (hi : Content.Idle s) (msgs : List (Nat × Bytes))
    (c : Conn) (hc : ReaderIdle c) (hrole : c.r.isServer = !s.isServer)
    (hm : ∀ m ∈ msgs, (m.1 = 1 ∨ m.1 = 2) ∧ m.2.length < 2 ^ 40 ∧ (c.r.limit ≤ 0 ∨ (m.2.length : Int) ≤ c.r.limit))
    (rest : Bytes)
    (hp : c.r.buf.pending = (writeMsgs s msgs).wire.drop s.wire.length ++ rest)
    (hend : c.r.buf.t.together = false ∨ rest ≠ []) (k : Nat) (hk : 0 < k) :
    ∃ c', readMsgs k msgs.length c = (msgs, c') ∧ ReaderIdle c' ∧ c'.r.buf.pending = rest ∧
      c'.r.hlog = c.r.hlog := by
  first | exact WS.RoundTripLimit.round_trip_sequence_limited .. | (apply WS.RoundTripLimit.round_trip_sequence_limited <;> assumption)

/-! ### non-vacuity -/
section NonVacuity
set_option linter.defProp false


/-- a 70000-byte payload: needs the 64-bit length form -/
def witBig : Bytes := List.replicate 70000 0x61
/-- witness for `frame_roundtrip`: the length bound -/
def witBig_len : witBig.length < 2 ^ 63 := by rw [witBig, List.length_replicate]; decide

/-- non-vacuity of `frame_roundtrip`: both hypotheses hold for a masked FIN+binary frame (b0 = 130) of
    70000 bytes with the RFC 6455 §5.7 key 37 fa 21 3d, followed by the first bytes of a next frame,
    and the theorem applies -/
example : Spec.decodeFrame (Codec.encode false 130 ⟨0x37, 0xfa, 0x21, 0x3d⟩ witBig ++ [0x89, 0x80]) =
    some (Codec.frameOf false 130 ⟨0x37, 0xfa, 0x21, 0x3d⟩ witBig, [0x89, 0x80]) :=
  frame_roundtrip false 130 ⟨0x37, 0xfa, 0x21, 0x3d⟩ witBig [0x89, 0x80] (by decide) witBig_len

/-- a client connection, write buffer 4096, two masking keys in the key source -/
def witC : W := { newW false 4096 false false with keys := [0x37, 0xfa, 0x21, 0x3d, 1, 2, 3, 4] }

/-- the freshly constructed client is `Idle` -/
def witC_idle : Content.Idle witC :=
  ⟨rfl, rfl, rfl, (fun m h => by cases h), ⟨by decide, by decide⟩, ⟨[], by decide, rfl⟩, rfl⟩

/-- the client after one text message "Hello" went out -/
def witC1 : W := (writeMessage witC (1 : Nat) [72, 101, 108, 108, 111]).2

/-- witness for `writeMessage_control_roundtrip`: the client is `Idle` again after that message -/
def witC1_idle : Content.Idle witC1 :=
  (Content.writeMessage_roundtrip witC witC_idle 1 (Or.inl rfl) [72, 101, 108, 108, 111] (by decide)).2.1

/-- witness for `writeMessage_control_roundtrip`: the buffer has room for a control frame -/
def witC1_cap : maxFrameHeaderSize + 125 ≤ witC1.wbufLen := by decide +kernel

/-- a 125-byte ping payload -/
def witPing : Bytes := List.replicate 125 0x70
/-- witness for `writeMessage_control_roundtrip`: the payload bound -/
def witPing_len : witPing.length ≤ 125 := by rw [witPing, List.length_replicate]; decide

open WS.Content WS.WriterMore in
/-- non-vacuity of `writeMessage_control_roundtrip`: all hypotheses hold for a client (buffer 4096) that
    already sent one message and a ping of the maximal 125 bytes, and the theorem applies -/
example :
    (writeMessage witC1 (9 : Nat) witPing).1 = none ∧ Idle (writeMessage witC1 (9 : Nat) witPing).2 ∧
    wireMessages (writeMessage witC1 (9 : Nat) witPing).2 = wireMessages witC1 ∧
    wireControls (writeMessage witC1 (9 : Nat) witPing).2 = wireControls witC1 ++ [(9, witPing)] :=
  writeMessage_control_roundtrip witC1 witC1_idle witC1_cap 9 (Or.inl rfl) witPing witPing_len

open WS.ReaderDecodes WS.PairRoundtrip WS.SrcLaw

/-- a 5000-byte binary payload 00 01 02 … (more than one write buffer: two frames) -/
def witData : Bytes := (List.range 5000).map UInt8.ofNat
def witData_len : witData.length = 5000 := by simp [witData]

/-- the bytes `WriteMessage(Binary, witData)` appends to the wire of the client `witC1` (which already
    sent "Hello", so the wire is not empty and the key index is 1) -/
def witWire : Bytes := (writeMessage witC1 (2 : Nat) witData).2.wire.drop witC1.wire.length

/-- two masked frames: 8 + 4096 and 8 + 904 bytes -/
def witWire_len : witWire.length = 5016 := by decide +kernel

/-- evaluated: first frame = binary, no FIN, MASK + 16-bit length 4096, second key of the key source -/
example : witWire.take 9 = [0x02, 0xFE, 0x10, 0x00, 1, 2, 3, 4, 0x00 ^^^ 1] := by decide +kernel

/-- a server-side idle reader (bufio size 4096, no read limit, one ping already handled) whose pending
    bytes are exactly those bytes plus two trailing bytes (the header of a masked ping), delivered in three
    transport chunks: 1000 bytes, 3000 bytes, the remaining 1016 + 2 -/
def witRd : Conn :=
  { w := newW true 4096 false false,
    r := { isServer := true, nego := false, hlog := [.ping [7]],
           buf := { size := 4096, buf := [],
                    t := { chunks := [witWire.take 1000, (witWire.drop 1000).take 3000, witWire.drop 4000 ++ [0x89, 0x80]] },
                    total := 5018 } } }

def witRd_pending : witRd.r.buf.pending = witWire ++ [0x89, 0x80] := by
  show [] ++ [witWire.take 1000, (witWire.drop 1000).take 3000, witWire.drop 4000 ++ [0x89, 0x80]].flatten = _
  have h : witWire.drop 4000 = (witWire.drop 1000).drop 3000 := by rw [List.drop_drop]
  simp only [List.flatten_cons, List.flatten_nil, List.nil_append, List.append_nil, h]
  rw [← List.append_assoc ((witWire.drop 1000).take 3000), List.take_append_drop, ← List.append_assoc,
    List.take_append_drop]

def witRd_idle : ReaderIdle witRd :=
  ⟨rfl, rfl, rfl, ⟨by decide, by decide, by decide +kernel, (by intro e h; cases h)⟩, by decide,
    (by rw [witRd_pending, List.length_append, witWire_len]; decide),
    (by intro id h; cases h), (by intro id h; cases h)⟩

/-- non-vacuity of `round_trip` -/
example : ∃ c1 rid, nextReader witRd = (.msg 2 rid false, c1) ∧
      ∃ c2, readAll c1 rid 512 = ((witData, none), c2) ∧ ReaderIdle c2 ∧ c2.r.buf.pending = [0x89, 0x80] ∧
        c2.r.hlog = witRd.r.hlog :=
  round_trip witC1 witC1_idle 2 (Or.inr rfl) witData (by rw [witData_len]; decide) witRd witRd_idle (by decide +kernel)
    [0x89, 0x80] witRd_pending (Or.inl rfl) (by decide) 512 (by decide)

/-- evaluated on the model: NextReader announces a binary message with reader id 0, uncompressed … -/
example : (match (nextReader witRd).1 with | .msg t rid z => t == 2 && rid == 0 && !z | _ => false) = true := by
  decide +kernel

/-- … and reading it to the end in 512-byte reads returns exactly the 5000 bytes and then end-of-message
    (no error), leaving the two trailing bytes pending -/
example : (match readAll (nextReader witRd).2 0 512 with
    | ((out, e), c2) => out == witData && e.isNone && c2.r.buf.pending == [0x89, 0x80]) = true := by decide +kernel

/-- non-vacuity of `writeMessage_frames`: the same client and message -/
example : ∃ fs : List PFrame, MsgShape 2 fs ∧ dataPayload fs = witData ∧ ctlEvents fs = [] ∧
      (writeMessage witC1 (2 : Nat) witData).2.wire = witC1.wire ++ encAll (!witC1.isServer) fs :=
  writeMessage_frames witC1 witC1_idle 2 (Or.inr rfl) witData (by rw [witData_len]; decide)

/-- evaluated: the frames are a non-final binary frame of 4096 bytes (key 01 02 03 04) and a final
    continuation frame of 904 bytes (the key source wraps around to 37 fa 21 3d) -/
example : (writeMessage witC1 (2 : Nat) witData).2.wire = witC1.wire ++ encAll (!witC1.isServer)
    [⟨2, false, ⟨1, 2, 3, 4⟩, witData.take 4096⟩, ⟨0, true, ⟨0x37, 0xfa, 0x21, 0x3d⟩, witData.drop 4096⟩] :=
  eq_of_beq (by decide +kernel)

/-- a second instance of `writeMessage_frames` / `round_trip`'s writer side: a 300-byte text message from the
    fresh client `witC` (one frame, 16-bit length form) -/
example : ∃ fs : List PFrame, MsgShape 1 fs ∧ dataPayload fs = List.replicate 300 0x41 ∧ ctlEvents fs = [] ∧
      (writeMessage witC (1 : Nat) (List.replicate 300 0x41)).2.wire = witC.wire ++ encAll (!witC.isServer) fs :=
  writeMessage_frames witC witC_idle 1 (Or.inl rfl) _ (by rw [List.length_replicate]; decide)

/-! #### sequences of messages (`round_trip_sequence`, `round_trip_sequence_with_controls`) -/

/-- a client connection whose write buffer was supplied by the caller and has room for 16 payload
    bytes only (30 = maxFrameHeaderSize + 16); three masking keys in the key source -/
def witS : W :=
  { newW false 0 false false (some 30) with keys := [0x37, 0xfa, 0x21, 0x3d, 1, 2, 3, 4, 9, 8, 7, 6] }

example : witS.cap = 16 := by decide

def witS_idle : Content.Idle witS :=
  ⟨rfl, rfl, rfl, (fun m h => by cases h), ⟨by decide, by decide⟩, ⟨[], by decide, rfl⟩, rfl⟩

/-- three messages: text "hello", binary 00 01 … 27 (40 bytes: three frames of 16 + 16 + 8 with
    that buffer), and an empty text message -/
def witMsgs : List (Nat × Bytes) :=
  [(1, [0x68, 0x65, 0x6c, 0x6c, 0x6f]), (2, (List.range 40).map UInt8.ofNat), (1, [])]

def witMsgs_ok : ∀ m ∈ witMsgs, (m.1 = 1 ∨ m.1 = 2) ∧ m.2.length < 2 ^ 40 := by
  intro m hm
  simp only [witMsgs, List.mem_cons, List.not_mem_nil, or_false] at hm
  rcases hm with rfl | rfl | rfl
  · exact ⟨Or.inl rfl, by decide⟩
  · exact ⟨Or.inr rfl, by decide⟩
  · exact ⟨Or.inl rfl, by decide⟩

/-- what the three WriteMessage calls put on the wire -/
def witSeqWire : Bytes := (writeMsgs witS witMsgs).wire.drop witS.wire.length

/-- evaluated: five masked frames, 11 + (22 + 22 + 14) + 6 bytes; the second message starts with a
    non-final binary frame of 16 bytes under the second key, and the wire ends with the empty final
    text frame under the second key again (the key source wrapped around) -/
example : witSeqWire.length = 75 ∧
    witSeqWire.take 11 = [0x81, 0x85, 0x37, 0xfa, 0x21, 0x3d, 0x68 ^^^ 0x37, 0x65 ^^^ 0xfa, 0x6c ^^^ 0x21, 0x6c ^^^ 0x3d, 0x6f ^^^ 0x37] ∧
    (witSeqWire.drop 11).take 7 = [0x02, 0x90, 1, 2, 3, 4, 0 ^^^ 1] ∧
    witSeqWire.drop 69 = [0x81, 0x80, 1, 2, 3, 4] := by decide +kernel

/-- a server-side idle reader (bufio size 4096, no read limit, one pong already handled) whose pending
    bytes are that wire followed by two stray bytes (the header of a masked ping): 9 bytes buffered,
    the rest in two transport chunks of 30 and 36 + 2 bytes -/
def witSeqRd : Conn :=
  { w := newW true 4096 false false,
    r := { isServer := true, nego := false, hlog := [.pong [7]],
           buf := { size := 4096, buf := witSeqWire.take 9,
                    t := { chunks := [(witSeqWire.drop 9).take 30, witSeqWire.drop 39 ++ [0x89, 0x80]] },
                    total := 77 } } }

def witSeqRd_pending : witSeqRd.r.buf.pending = (writeMsgs witS witMsgs).wire.drop witS.wire.length ++ [0x89, 0x80] := by
  decide +kernel

def witSeqRd_idle : ReaderIdle witSeqRd :=
  ⟨rfl, rfl, rfl, ⟨by decide, by decide +kernel, by decide +kernel, (by intro e h; cases h)⟩, by decide, by decide +kernel,
    (by intro id h; cases h), (by intro id h; cases h)⟩

/-- non-vacuity of `round_trip_sequence`: `Content.Idle` for the small-buffer client, the per-message
    hypotheses, `ReaderIdle` for the opposite-role reader, the pending bytes = evaluated wire ++ two
    stray bytes, `hend` and the limit hypothesis hold together; reads of 7 bytes -/
example : ∃ c', readMsgs 7 3 witSeqRd = (witMsgs, c') ∧ ReaderIdle c' ∧ c'.r.buf.pending = [0x89, 0x80] ∧
      c'.r.hlog = witSeqRd.r.hlog ∧ Content.Idle (writeMsgs witS witMsgs) :=
  round_trip_sequence witS witS_idle witMsgs witMsgs_ok witSeqRd witSeqRd_idle (by decide) [0x89, 0x80]
    witSeqRd_pending (Or.inl rfl) (by decide) 7 (by decide)

/-- the reader of `witSeqRd` with a read limit of exactly 40 bytes — the size of the largest of the
    three messages, 45 bytes in all -/
def witSeqRdLim : Conn := { witSeqRd with r := { witSeqRd.r with limit := 40 } }

def witSeqRdLim_idle : ReaderIdle witSeqRdLim :=
  ⟨witSeqRd_idle.noErr, witSeqRd_idle.rem, witSeqRd_idle.fin, witSeqRd_idle.wf, witSeqRd_idle.size, witSeqRd_idle.fuel,
   witSeqRd_idle.hp, witSeqRd_idle.hq⟩

/-- non-vacuity of `round_trip_sequence_limited` (and of `round_trip_limited` inside it): the three
    messages are read in full under the limit of 40 -/
example : ∃ c', readMsgs 7 3 witSeqRdLim = (witMsgs, c') ∧ ReaderIdle c' ∧ c'.r.buf.pending = [0x89, 0x80] ∧
      c'.r.hlog = witSeqRdLim.r.hlog :=
  round_trip_sequence_limited witS witS_idle witMsgs witSeqRdLim witSeqRdLim_idle (by decide)
    (by
      intro m hm
      simp only [witMsgs, List.mem_cons, List.not_mem_nil, or_false] at hm
      rcases hm with rfl | rfl | rfl
      · exact ⟨Or.inl rfl, by decide, Or.inr (by decide)⟩
      · exact ⟨Or.inr rfl, by decide, Or.inr (by decide)⟩
      · exact ⟨Or.inl rfl, by decide, Or.inr (by decide)⟩)
    [0x89, 0x80] witSeqRd_pending (Or.inl rfl) 7 (by decide)

/-- the same instance evaluated directly on the model -/
example : (readMsgs 7 3 witSeqRd).1 = witMsgs ∧ (readMsgs 7 3 witSeqRd).2.r.buf.pending = [0x89, 0x80] ∧
    (readMsgs 7 3 witSeqRd).2.r.hlog = [.pong [7]] := by decide +kernel

/-- a writer program: ping "p1", text "a", pong "q", binary 01 02 03 -/
def witItems : List Item :=
  [.ctl 9 [0x70, 0x31] 5, .data 1 [0x61], .ctl 10 [0x71] 5, .data 2 [1, 2, 3]]

def witItems_ok : ∀ it ∈ witItems, it.ok := by
  intro it h
  simp only [witItems, List.mem_cons, List.not_mem_nil, or_false] at h
  rcases h with rfl | rfl | rfl | rfl
  · exact ⟨Or.inl rfl, by decide⟩
  · exact ⟨Or.inl rfl, by decide⟩
  · exact ⟨Or.inr rfl, by decide⟩
  · exact ⟨Or.inr rfl, by decide⟩

def witItems_last : witItems = [] ∨ ∃ pre t d, witItems = pre ++ [.data t d] :=
  Or.inr ⟨[.ctl 9 [0x70, 0x31] 5, .data 1 [0x61], .ctl 10 [0x71] 5], 2, [1, 2, 3], rfl⟩

/-- what the program puts on the wire of the client `witC1` (write buffer 4096, "Hello" already sent) -/
def witItemsWire : Bytes := (writeItems witC1 witItems).wire.drop witC1.wire.length

/-- evaluated: four masked frames (8 + 7 + 7 + 9 bytes): ping, text, pong, binary -/
example : witItemsWire.length = 31 ∧ witItemsWire.take 2 = [0x89, 0x82] ∧ (witItemsWire.drop 8).take 2 = [0x81, 0x81] ∧
    (witItemsWire.drop 15).take 2 = [0x8A, 0x81] ∧ (witItemsWire.drop 22).take 2 = [0x82, 0x83] := by decide +kernel

/-- a server-side idle reader whose pending bytes are that wire followed by the first byte of a next
    frame: 3 bytes buffered, the rest in chunks of 10 and 18 + 1 bytes -/
def witItemsRd : Conn :=
  { w := newW true 4096 false false,
    r := { isServer := true, nego := false, hlog := [.pong [7]],
           buf := { size := 4096, buf := witItemsWire.take 3,
                    t := { chunks := [(witItemsWire.drop 3).take 10, witItemsWire.drop 13 ++ [0x81]] },
                    total := 32 } } }

def witItemsRd_pending : witItemsRd.r.buf.pending = (writeItems witC1 witItems).wire.drop witC1.wire.length ++ [0x81] := by
  decide +kernel

def witItemsRd_idle : ReaderIdle witItemsRd :=
  ⟨rfl, rfl, rfl, ⟨by decide, by decide +kernel, by decide +kernel, (by intro e h; cases h)⟩, by decide, by decide +kernel,
    (by intro id h; cases h), (by intro id h; cases h)⟩

/-- non-vacuity of `round_trip_sequence_with_controls`: all hypotheses (including `hok` and `hlast`)
    hold together; reads of 2 bytes. Both data messages arrive, the ping and pong handlers ran in
    send order. -/
example : ∃ c', readMsgs 2 (dataOf witItems).length witItemsRd = ([(1, [0x61]), (2, [1, 2, 3])], c') ∧ ReaderIdle c' ∧
      c'.r.buf.pending = [0x81] ∧ c'.r.hlog = [.pong [7]] ++ [.ping [0x70, 0x31], .pong [0x71]] ∧
      Content.Idle (writeItems witC1 witItems) :=
  round_trip_sequence_with_controls witC1 witC1_idle witItems witItems_ok witItems_last witItemsRd witItemsRd_idle
    (by decide +kernel) [0x81] witItemsRd_pending (Or.inl rfl) (by decide) 2 (by decide)

/-- the same instance evaluated directly on the model -/
example : (readMsgs 2 2 witItemsRd).1 = [(1, [0x61]), (2, [1, 2, 3])] ∧
    (readMsgs 2 2 witItemsRd).2.r.hlog = [.pong [7], .ping [0x70, 0x31], .pong [0x71]] := by decide +kernel

/-! #### ReadFrom (`message_roundtrip_readFrom`, `readFrom_reports_all_data`) -/

/-- an io.Reader handing out "cd", then an empty read, then "efg" together with io.EOF -/
def witSrc1 : Src := { chunks := [[0x63, 0x64], [], [0x65, 0x66, 0x67]], term := none, together := true }
/-- an io.Reader handing out "hi" and then, separately, io.EOF -/
def witSrc2 : Src := { chunks := [[0x68, 0x69]], term := none }

/-- the pieces of one text message: Write "ab", io.Copy from `witSrc1`, a ping "pg", io.Copy from `witSrc2` -/
def witPieces : List Piece2 :=
  [.write [0x61, 0x62] false, .readFrom witSrc1, .control 9 [0x70, 0x67] 5, .readFrom witSrc2]

def witPieces_ok : ∀ p ∈ witPieces, p.ok := by
  intro p h
  simp only [witPieces, List.mem_cons, List.not_mem_nil, or_false] at h
  rcases h with rfl | rfl | rfl | rfl
  · exact (by decide : [0x61, 0x62].length < 2 ^ 40)
  · exact ⟨rfl, by decide⟩
  · exact ⟨Or.inl rfl, by decide⟩
  · exact ⟨rfl, by decide⟩

/-- non-vacuity of `message_roundtrip_readFrom`: `Idle` and all `Piece2.ok` hold for the client `witC`;
    the message on the wire is "abcdefghi" and the ping went out as a control frame -/
example :
    let s' := run witC (messageOps2 witC 1 witPieces)
    Idle s' ∧
    wireMessages s' = wireMessages witC ++ [⟨1, false, [0x61, 0x62, 0x63, 0x64, 0x65, 0x66, 0x67, 0x68, 0x69]⟩] ∧
    wireControls s' = wireControls witC ++ [(9, [0x70, 0x67])] :=
  message_roundtrip_readFrom witC witC_idle 1 (Or.inl rfl) witPieces witPieces_ok

/-- evaluated: the wire is the masked ping (first key) followed by ONE final text frame of 9 bytes (second key) -/
example : (run witC (messageOps2 witC 1 witPieces)).wire =
    encAll true [⟨9, true, ⟨0x37, 0xfa, 0x21, 0x3d⟩, [0x70, 0x67]⟩,
                       ⟨1, true, ⟨1, 2, 3, 4⟩, [0x61, 0x62, 0x63, 0x64, 0x65, 0x66, 0x67, 0x68, 0x69]⟩] := by
  decide +kernel

/-- a client connection with room for 8 payload bytes (22 = maxFrameHeaderSize + 8) after
    NextWriter(BinaryMessage) and Write of 3 bytes: the live message writer has 3 buffered bytes -/
def witRF : W :=
  run { newW false 0 false false (some 22) with keys := [0x37, 0xfa, 0x21, 0x3d, 1, 2, 3, 4] }
    [.nextWriter 2 [] [], .write 0 [0xa1, 0xa2, 0xa3] [] false]

example : witRF.cap = 8 ∧ witRF.writer = some 0 ∧ (getMW witRF 0).buf = [0xa1, 0xa2, 0xa3] ∧ (getMW witRF 0).ft = 2 ∧
    witRF.wire = [] := by decide +kernel

/-- a source of 20 bytes in chunks of 7, 6 and 7, then io.EOF -/
def witSrc20 : Src :=
  { chunks := [[0, 1, 2, 3, 4, 5, 6], [7, 8, 9, 10, 11, 12], [13, 14, 15, 16, 17, 18, 19]], term := none }

/-- non-vacuity of `readFrom_reports_all_data`: all seven hypotheses hold; ReadFrom reports 20 -/
example : (mwReadFrom witRF (getMW witRF 0) witSrc20).1 = (20, none) :=
  readFrom_reports_all_data witRF (getMW witRF 0) witSrc20 (by decide +kernel) rfl (by decide +kernel) (by decide +kernel)
    (by decide +kernel) (by decide +kernel) (by decide +kernel)

/-- evaluated: two full non-final frames of 8 bytes went out (binary under the first key, a
    continuation under the second) and the last 7 bytes are in the buffer -/
example : (mwReadFrom witRF (getMW witRF 0) witSrc20).2.1.wire =
      encAll true [⟨2, false, ⟨0x37, 0xfa, 0x21, 0x3d⟩, [0xa1, 0xa2, 0xa3, 0, 1, 2, 3, 4]⟩,
                         ⟨0, false, ⟨1, 2, 3, 4⟩, [5, 6, 7, 8, 9, 10, 11, 12]⟩] ∧
    (mwReadFrom witRF (getMW witRF 0) witSrc20).2.2.buf = [13, 14, 15, 16, 17, 18, 19] := by decide +kernel

end NonVacuity

end WS.Props.C01
