import WS.Lemmas.WriterMore
import WS.Lemmas.MaskTrunc
import WS.Lemmas.Mask
import WS.Lemmas.Codec
/-
  C01 — Message round-trip fidelity: data transformations that the tests never vary.
  (The composition writer ∘ wire ∘ reader is stated in C02 / C03; the per-message round trip over
  the writer model is `WS.Props.C02.message_roundtrip` once WS/Lemmas/Content.lean is in.)
-/
namespace WS.Props.C01
open WS

/-- mask.go's word-at-a-time algorithm equals RFC 6455 §5.3 byte-wise masking for every slice
    alignment, key, key offset and length, and returns the right next offset -/
theorem mask_words_eq_bytes (k : Key) (pos a : Nat) (b : Bytes) :
    maskBytesGo k pos a b = (maskFrom k pos b, (pos + b.length) % 4) :=
  MaskTrunc.mask_words_eq_bytes k pos a b

/-- masking is an involution: the peer's unmasking restores the payload -/
theorem mask_involutive (k : Key) (p : Nat) (bs : Bytes) : maskFrom k p (maskFrom k p bs) = bs :=
  maskFrom_involutive k p bs

/-- the key offset carries across a split of the payload (frames delivered in several reads) -/
theorem mask_pos_carry (k : Key) (p : Nat) (xs ys : Bytes) :
    maskFrom k p (xs ++ ys) = maskFrom k p xs ++ maskFrom k (p + xs.length) ys :=
  maskFrom_append k p xs ys

/-- truncWriter: for every chunking of the deflate stream, forwarded ++ held = stream and exactly
    min(4, length) bytes are held back -/
theorem trunc_any_chunking (cs : List Bytes) :
    (MaskTrunc.writeAll cs).forwarded ++ (MaskTrunc.writeAll cs).p = cs.flatten ∧
    (MaskTrunc.writeAll cs).p.length = min 4 cs.flatten.length :=
  MaskTrunc.trunc_any_chunking cs

/-- one frame: strict decoding inverts the writer's encoding for every length below 2^63 -/
theorem frame_roundtrip (isServer : Bool) (b0 : Nat) (key : Key) (payload rest : Bytes)
    (hb : b0 < 256) (hl : payload.length < 2 ^ 63) :
    Spec.decodeFrame (Codec.encode isServer b0 key payload ++ rest) = some (Codec.frameOf isServer b0 key payload, rest) :=
  Codec.decode_encode isServer b0 key payload rest hb hl

/-- non-vacuity: a masked 5-byte frame with an extreme key -/
example : Spec.decodeFrame (Codec.encode false 130 ⟨255, 0, 255, 0⟩ [1, 2, 3, 4, 5]) =
    some (Codec.frameOf false 130 ⟨255, 0, 255, 0⟩ [1, 2, 3, 4, 5], []) := by decide

open WS.Content WS.WriterMore in
/-- accepted (control messages): the constructor always makes room for a control frame (repair of F4) … -/
theorem newW_fits_control (isServer : Bool) (size : Int) (pool nego : Bool) :
    maxFrameHeaderSize + 125 ≤ (newW isServer size pool nego).wbufLen := by
  first | exact WriterMore.newW_fits_control .. | (apply WriterMore.newW_fits_control <;> assumption)

open WS.Content WS.WriterMore in
/-- … so a ping/pong of at most 125 bytes through WriteMessage is accepted and is exactly one control
    frame with that payload, client or server -/
theorem writeMessage_control_roundtrip (s : W) (hi : Idle s) (hcap : maxFrameHeaderSize + 125 ≤ s.wbufLen)
    (t : Nat) (ht : t = 9 ∨ t = 10) (data : Bytes) (hd : data.length ≤ 125) :
    (writeMessage s t data).1 = none ∧ Idle (writeMessage s t data).2 ∧
    wireMessages (writeMessage s t data).2 = wireMessages s ∧
    wireControls (writeMessage s t data).2 = wireControls s ++ [(t, data)] := by
  first | exact WriterMore.writeMessage_control_roundtrip .. | (apply WriterMore.writeMessage_control_roundtrip <;> assumption)

end WS.Props.C01
