import WS.Lemmas.ReaderRejects
import WS.Lemmas.SrcLaw
import WS.Model.Http
import WS.Lemmas.Robust
import WS.Lemmas.ParserFuel
import WS.Lemmas.ReaderTotal
/-
  C07 — Untrusted network input never panics, hangs or allocates out of proportion.

  What a theorem can say here: the executable model of the read path and of the header parsers is
  a set of total functions whose recursion is bounded by the input (Lean's termination checker
  accepted them with fuel = input length, and the differential harness never observed fuel
  exhaustion `MODEL-hang` / `*`), and the only panic value the model can produce is the documented
  one. Go-level panics (index out of range, nil map) cannot arise in the model; they are guarded by
  the translator's inventory of every index / slice / make / type-assertion site in the functions fed
  by network input (expect/inventory.json: a new or changed site breaks the tie) and searched for by
  the fuzz streams under recover().
-/
namespace WS.Props.C07
open WS WS.SrcLaw WS.ReaderRejects

/-- the documented exception: the 1000th NextReader call on a failed connection panics … -/
theorem panic_at_1000 (c : Conn) (e : RErr) (he : c.r.readErr = some e) (hn : 1000 ≤ c.r.errCount + 1) :
    ∃ c', nextReader c = (.panic, c') :=
  nextReader_panics_at_1000 c e he hn

/-- … and before that a failed connection just returns its error -/
theorem no_panic_before_1000 (c : Conn) (e : RErr) (he : c.r.readErr = some e) (hn : c.r.errCount + 1 < 1000) :
    ∃ c', nextReader c = (.err e, c') := by
  obtain ⟨c', h, _⟩ := nextReader_sticky c e he hn
  exact ⟨c', h⟩

/-- header reads are bounded: a read of n bytes (n is at most 125 for control payloads, 8 for lengths, 4 for
    keys, 2 for the header) delivers at most n bytes, consumes exactly what it delivers, and on a source
    with fewer than n bytes left it ends with the source's error instead of waiting -/
theorem header_read_bounded (b : Buf) (h : WF b) (n : Nat) (hn : n ≤ b.size) :
    (b.take n).1.length ≤ n ∧
    (b.take n).1 ++ (b.take n).2.2.pending = b.pending ∧
    (b.pending.length < n → (b.take n).2.1 = some (mapEOF b.t.term)) := by
  refine ⟨?_, ?_, ?_⟩
  · by_cases hp : n ≤ b.pending.length
    · rw [(take_ok b h n hn hp).1]; simp [List.length_take]; omega
    · rw [(take_short b h n hn (by omega)).1]; omega
  · by_cases hp : n ≤ b.pending.length
    · rw [(take_ok b h n hn hp).1, (take_ok b h n hn hp).2.2.1]; exact List.take_append_drop n b.pending
    · rw [(take_short b h n hn (by omega)).1, (take_short b h n hn (by omega)).2.2.1]; simp
  · intro hp; exact (take_short b h n hn hp).2.1

/-- skipping a frame whose header claims any length consumes what is there and ends with an error
    when the stream is shorter — it never waits for the claimed length -/
theorem skip_terminates_on_short_stream (b : Buf) (h : WF b) (n : Nat) (hp : b.pending.length < n) :
    (b.skip n).1 = some b.t.term ∧ (b.skip n).2.pending = [] :=
  ⟨(skip_short b h n hp).1, (skip_short b h n hp).2.1⟩

open WS.Http
/-- panic_only_after_1000_failed_reads: NextReader panics exactly on the 1000th (or later) call that
    ends in an error — never on a healthy call, never earlier -/
theorem panic_iff (c : Conn) :
    (∃ c', nextReader c = (.panic, c')) ↔ (c.r.readErr.isSome ∧ 1000 ≤ c.r.errCount + 1) ∨
      (c.r.readErr = none ∧ 1000 ≤ c.r.errCount + 1 ∧ ∃ e c', nextReaderLoop c.fuel { c with r := { c.r with msgReader := none, length := 0 } } = (.err e, c')) := by
  first | exact Robust.nextReader_panic_iff .. | (apply Robust.nextReader_panic_iff <;> assumption)

/-- a connection with fewer than 999 failed calls never panics in NextReader, whatever the peer sends -/
theorem no_panic_on_any_input (c : Conn) (h : c.r.errCount + 1 < 1000) : ∀ c', nextReader c ≠ (.panic, c') := by
  first | exact Robust.nextReader_no_panic .. | (apply Robust.nextReader_no_panic <;> assumption)

/-- alloc_linear (quoted strings): the unescaped value is never longer than the header value it came
    from (the code allocates len(s)-1 bytes for it), and the scanners only ever return pieces of
    their input -/
theorem nextTokenOrQuoted_length (s : Bytes) :
    (nextTokenOrQuoted s).1.length ≤ s.length ∧ (nextTokenOrQuoted s).2.length ≤ s.length := by
  first | exact Robust.nextTokenOrQuoted_length .. | (apply Robust.nextTokenOrQuoted_length <;> assumption)

theorem nextToken_split (s : Bytes) :
    (nextToken s).1 ++ (nextToken s).2 = s ∧ ∀ b ∈ (nextToken s).1, isTokenOctet b = true :=
  Robust.nextToken_split s

/-- skipSpace returns a suffix of its input -/
theorem skipSpace_suffix (s : Bytes) : ∃ pre, pre ++ skipSpace s = s ∧ ∀ b ∈ pre, b = 32 ∨ b = 9 :=
  Robust.skipSpace_suffix s

/-! ### never hangs, on ANY input (frame bytes): the fuel of the model's reader loops is never exhausted

  `nextReaderLoop` / `mrReadLoop` take a fuel argument; running out of it is the model's "hang" outcome
  (the driver prints `MODEL-hang`). The theorems below hold for every byte stream whatsoever —
  conformant or garbage, complete or cut at any offset — and every reader state with a well-formed
  byte source: each iteration that does not end the loop has consumed at least the two header bytes of
  a frame, so the fuel the model passes is never exhausted and any larger fuel gives the same result.
  (The conformant-stream theorems of C03 prove the same for conformant streams as a by-product; these
  are about the inputs an attacker chooses.) -/

/-- progress: a frame that advanceFrame accepts has taken at least its two header bytes from the
    input -/
theorem advanceFrame_ok_consumes (c c' : Conn) (t : Nat) (hwf : WF c.r.buf)
    (h : advanceFrame c = (.ok t, c')) :
    c'.r.buf.pending.length + 2 ≤ c.r.buf.pending.length ∧ WF c'.r.buf ∧ c'.r.buf.total = c.r.buf.total ∧
      c'.r.buf.size = c.r.buf.size := by
  first | exact WS.ReaderTotal.advanceFrame_ok_consumes .. | (apply WS.ReaderTotal.advanceFrame_ok_consumes <;> assumption)

/-- the NextReader loop never runs out of fuel: with any fuel above half the pending input (in
    particular with `Conn.fuel`) it ends with a message or with an error that has been latched — the
    fuel-0 branch (which would return an error WITHOUT latching one) is never taken -/
theorem nextReaderLoop_no_hang (n : Nat) (c : Conn) (hwf : WF c.r.buf) (he : c.r.readErr = none)
    (hn : c.r.buf.pending.length + 1 ≤ n) :
    (∃ t rid z c', nextReaderLoop n c = (.msg t rid z, c')) ∨
    (∃ e c', nextReaderLoop n c = (.err e, c') ∧ c'.r.readErr = some e) := by
  first | exact WS.ReaderTotal.nextReaderLoop_no_hang .. | (apply WS.ReaderTotal.nextReaderLoop_no_hang <;> assumption)

/-- … and the fuel is an artefact: any fuel above the bound gives the same result -/
theorem nextReaderLoop_fuel (n m : Nat) (c : Conn) (hwf : WF c.r.buf)
    (hn : c.r.buf.pending.length + 1 ≤ n) (hm : c.r.buf.pending.length + 1 ≤ m) :
    nextReaderLoop n c = nextReaderLoop m c := by
  first | exact WS.ReaderTotal.nextReaderLoop_fuel .. | (apply WS.ReaderTotal.nextReaderLoop_fuel <;> assumption)

/-- NextReader on ANY input: a message, the documented panic, or an error that is the latched one -/
theorem nextReader_total (c : Conn) (hwf : WF c.r.buf) (hfuel : c.r.buf.pending.length ≤ c.r.buf.total) :
    (∃ t rid z c', nextReader c = (.msg t rid z, c')) ∨
    (∃ c', nextReader c = (.panic, c') ∧ 1000 ≤ c.r.errCount + 1) ∨
    (∃ e c', nextReader c = (.err e, c') ∧ c'.r.readErr = some e) := by
  first | exact WS.ReaderTotal.nextReader_total .. | (apply WS.ReaderTotal.nextReader_total <;> assumption)

/-- messageReader.Read: the fuel is an artefact for the Read loop as well -/
theorem mrReadLoop_fuel (n m : Nat) (c : Conn) (rid k : Nat) (hwf : WF c.r.buf)
    (hn : c.r.buf.pending.length + 2 ≤ n) (hm : c.r.buf.pending.length + 2 ≤ m) :
    mrReadLoop n c rid k = mrReadLoop m c rid k := by
  first | exact WS.ReaderTotal.mrReadLoop_fuel .. | (apply WS.ReaderTotal.mrReadLoop_fuel <;> assumption)

/-- Read on ANY input returns data, end of message, or an error that is latched (or, for a stale
    reader, io.EOF): never the fuel-exhaustion outcome -/
theorem mrRead_total (c : Conn) (rid k : Nat) (hk : 0 < k) (hwf : WF c.r.buf)
    (hfuel : c.r.buf.pending.length ≤ c.r.buf.total) :
    ∀ out e c', mrRead c rid k = ((out, some e), c') →
      e = .eof ∨ c'.r.readErr ≠ none := by
  first | exact WS.ReaderTotal.mrRead_total .. | (apply WS.ReaderTotal.mrRead_total <;> assumption)

/-! ### never loops without consuming input (header values): the fuel of the parsers' loops is an artefact -/

/-- tokenListContainsValue: every iteration of the per-line loop consumes at least one byte (a
    non-empty token and its comma), so the loop run with ANY fuel above the line length computes the
    public function: the fuel-0 branch is unreachable -/
theorem lineContains_any_fuel (s value : Bytes) (n : Nat) (h : s.length + 1 ≤ n) :
    lineContains s value = lineContainsAux n s value :=
  WS.ParserFuel.lineContains_any_fuel s value n h

/-- parseExtensions: the same for the extension-list loop of every header line, whatever fuel above
    the line length is chosen per line -/
theorem parseExtensions_any_fuel (lines : List Bytes) (f : Bytes → Nat) (hf : ∀ l, l.length + 1 ≤ f l) :
    parseExtensions lines = lines.foldl (fun acc l => acc ++ lineExtsAux (f l) l []) [] :=
  WS.ParserFuel.parseExtensions_any_fuel lines f hf

/-- the parameter loop of one extension: any fuel above the input length gives the same result -/
theorem paramsAux_fuel (n : Nat) (s : Bytes) (acc : Ext) (h : s.length + 1 ≤ n) :
    paramsAux n s acc = paramsAux (s.length + 1) s acc :=
  WS.ParserFuel.paramsAux_fuel n s acc h

/-- what is left after the parameters of an extension is not longer than the input (the loops only
    ever move forward) -/
theorem paramsAux_rest_le (n : Nat) (s : Bytes) (acc : Ext) :
    (paramsAux n s acc).2.1.length ≤ s.length :=
  WS.ParserFuel.paramsAux_rest_le n s acc

/-- isValidChallengeKey: the base64 length walk consumes four characters per iteration -/
theorem b64DecodedLen_any_fuel (s : Bytes) (n : Nat)
    (h : (s.filter (fun b => b != 10 && b != 13)).length + 1 ≤ n) :
    b64DecodedLen s = b64LenAux n (s.filter (fun b => b != 10 && b != 13)) 0 :=
  WS.ParserFuel.b64DecodedLen_any_fuel s n h

/-! ### non-vacuity -/
section NonVacuity
set_option linter.defProp false
open WS WS.SrcLaw WS.ReaderRejects WS.Http

/-- a server connection whose reader failed with ErrReadLimit `n` calls ago; unread bytes remain -/
def witFailed (n : Nat) : Conn :=
  { w := { newW true 4096 false false with writeErr := some .closeSent, wire := [0x88, 0x02, 0x03, 0xF1] },
    r := { isServer := true, nego := false, readErr := some .readLimit, errCount := n, limit := 4,
           buf := { size := 4096, buf := [0, 1, 2, 3], total := 12 } } }

/-- non-vacuity of `panic_at_1000`: the 1000th failed call -/
example : ∃ c', nextReader (witFailed 999) = (.panic, c') := panic_at_1000 (witFailed 999) .readLimit rfl (by decide)

/-- non-vacuity of `no_panic_before_1000`: the 999th failed call -/
example : ∃ c', nextReader (witFailed 998) = (.err .readLimit, c') :=
  no_panic_before_1000 (witFailed 998) .readLimit rfl (by decide)

/-- instance of `panic_iff` (no hypotheses): both sides hold for `witFailed 999` -/
example : ((witFailed 999).r.readErr.isSome ∧ 1000 ≤ (witFailed 999).r.errCount + 1) ∧
    ∃ c', nextReader (witFailed 999) = (.panic, c') :=
  ⟨⟨rfl, by decide⟩, (panic_iff (witFailed 999)).mpr (Or.inl ⟨rfl, by decide⟩)⟩

/-- a 4096-byte bufio.Reader holding the start of a frame header that claims a 2^63-1 byte payload;
    the transport delivers 3 more bytes and then fails -/
def witBuf : Buf :=
  { size := 4096, buf := [0x82, 0xFF, 0x7F], t := { chunks := [[0xFF, 0xFF], [0xFF]], term := .transport 9 }, total := 6 }

def witBuf_wf : WF witBuf := ⟨by decide, by decide, by decide, (by intro e h; cases h)⟩

/-- non-vacuity of `header_read_bounded`: the 8-byte extended length is asked for after the 2 header
    bytes; 6 pending bytes < 8 + 2 -/
example : (witBuf.take 10).1.length ≤ 10 ∧
    (witBuf.take 10).1 ++ (witBuf.take 10).2.2.pending = witBuf.pending ∧
    (witBuf.pending.length < 10 → (witBuf.take 10).2.1 = some (mapEOF witBuf.t.term)) :=
  header_read_bounded witBuf witBuf_wf 10 (by decide)

example : witBuf.pending.length < 10 ∧ (witBuf.take 10).2.1 = some (.transport 9) := by decide

/-- non-vacuity of `skip_terminates_on_short_stream`: the claimed length 2^63 - 1 is never waited for -/
example : (witBuf.skip (2 ^ 63 - 1)).1 = some (.transport 9) ∧ (witBuf.skip (2 ^ 63 - 1)).2.pending = [] :=
  skip_terminates_on_short_stream witBuf witBuf_wf (2 ^ 63 - 1) (by decide)

/-- a fresh client connection fed garbage: a frame with all reserved bits, opcode 15, then noise -/
def witGarbage : Conn :=
  { w := { newW false 4096 false false with keys := [1, 2, 3, 4] },
    r := { isServer := false, nego := false, errCount := 0,
           buf := { size := 4096, buf := [], t := { chunks := [[0xFF, 0xFF, 0xFF], [0x00, 0x13, 0x37]] }, total := 6 } } }

/-- non-vacuity of `no_panic_on_any_input` -/
example : ∀ c', nextReader witGarbage ≠ (.panic, c') := no_panic_on_any_input witGarbage (by decide)

example : (nextReader witGarbage).2.r.readErr = some (.protocol "RSV1 set, RSV2 set, RSV3 set, bad opcode 15, bad MASK") := by
  decide

/-- instances of `nextTokenOrQuoted_length`, `nextToken_split`, `skipSpace_suffix` (no hypotheses):
    a quoted string with an escape, `permessage-deflate; x`, leading blanks -/
example : (nextTokenOrQuoted (strBytes "\"a\\\"b\"; rest")).1 = strBytes "a\"b" ∧
    (nextToken (strBytes "permessage-deflate; x")).1 = strBytes "permessage-deflate" ∧
    skipSpace (strBytes " \t websocket") = strBytes "websocket" := by decide +kernel

/-- `witGarbage`'s byte source is well formed (what every reachable state satisfies) -/
def witGarbage_wf : WF witGarbage.r.buf := ⟨by decide, by decide, by decide, (by intro e h; cases h)⟩

/-- a client connection fed pings, pongs and then noise: the NextReader loop has to iterate -/
def witPings : Conn :=
  { w := { newW false 4096 false false with keys := [1, 2, 3, 4] },
    r := { isServer := false, nego := false, errCount := 0,
           buf := { size := 4096, buf := [], t := { chunks := [[0x89, 0x00, 0x8A], [0x01, 0x55, 0x89, 0x00], [0x8A, 0x00, 0x8F, 0x00]] }, total := 11 } } }

def witPings_wf : WF witPings.r.buf := ⟨by decide, by decide, by decide, (by intro e h; cases h)⟩

/-- non-vacuity of `nextReader_total` and `nextReaderLoop_no_hang`: the hypotheses hold for garbage
    input, and the outcome is the third disjunct with the protocol error latched -/
example : (∃ t rid z c', nextReader witGarbage = (.msg t rid z, c')) ∨
    (∃ c', nextReader witGarbage = (.panic, c') ∧ 1000 ≤ witGarbage.r.errCount + 1) ∨
    (∃ e c', nextReader witGarbage = (.err e, c') ∧ c'.r.readErr = some e) :=
  nextReader_total witGarbage witGarbage_wf (by decide)

example : (∃ t rid z c', nextReaderLoop witPings.fuel witPings = (.msg t rid z, c')) ∨
    (∃ e c', nextReaderLoop witPings.fuel witPings = (.err e, c') ∧ c'.r.readErr = some e) :=
  nextReaderLoop_no_hang witPings.fuel witPings witPings_wf rfl (by decide)

/-- … evaluated: four control frames are skipped (the loop iterates), then the bad frame is refused
    and the error latched; a fuel of 12 (= pending + 1) and the model's own 4108 agree -/
example : (nextReaderLoop witPings.fuel witPings).2.r.readErr = some (.protocol "bad opcode 15") ∧
    (nextReaderLoop witPings.fuel witPings).2.r.hlog = [.ping [], .pong [0x55], .ping [], .pong []] ∧
    (nextReaderLoop 12 witPings).2.r.hlog = (nextReaderLoop witPings.fuel witPings).2.r.hlog := by decide +kernel

example : nextReaderLoop 12 witPings = nextReaderLoop witPings.fuel witPings :=
  nextReaderLoop_fuel 12 witPings.fuel witPings witPings_wf (by decide) (by decide)

/-- non-vacuity of `advanceFrame_ok_consumes`: the first ping of `witPings` -/
example : (advanceFrame witPings).2.r.buf.pending.length + 2 ≤ witPings.r.buf.pending.length :=
  (advanceFrame_ok_consumes witPings (advanceFrame witPings).2 9 witPings_wf (by rfl)).1

/-- non-vacuity of `mrRead_total` / `mrReadLoop_fuel`: a reader opened on a message whose continuation
    never arrives (cut inside the second frame's header) -/
def witCut : Conn :=
  { w := { newW false 4096 false false with keys := [1, 2, 3, 4] },
    r := { isServer := false, nego := false, errCount := 0, final := false, remaining := 0, msgReader := some 7,
           buf := { size := 4096, buf := [0x89, 0x00, 0x80], t := { chunks := [], term := .eof }, total := 9 } } }

def witCut_wf : WF witCut.r.buf := ⟨by decide, by decide, by decide, (by intro e h; cases h)⟩

example : ∀ out e c', mrRead witCut 7 16 = ((out, some e), c') → e = .eof ∨ c'.r.readErr ≠ none :=
  mrRead_total witCut 7 16 (by decide) witCut_wf (by decide)

example : mrReadLoop 5 witCut 7 16 = mrReadLoop (witCut.fuel + 1) witCut 7 16 :=
  mrReadLoop_fuel 5 (witCut.fuel + 1) witCut 7 16 witCut_wf (by decide) (by decide)

/-- instances of the parser theorems: an offer with parameters and a quoted value, run with the model's
    fuel and with a much larger one -/
example : lineContains (strBytes "keep-alive, Upgrade") (strBytes "upgrade") = true ∧
    lineContainsAux 1000 (strBytes "keep-alive, Upgrade") (strBytes "upgrade") = true ∧
    (parseExtensions [strBytes "foo; a=\"x, y\", permessage-deflate; client_max_window_bits"]).length = 2 := by
  decide +kernel

example : parseExtensions [strBytes "permessage-deflate; a=1, x"] =
    [strBytes "permessage-deflate; a=1, x"].foldl (fun acc l => acc ++ lineExtsAux (l.length + 500) l []) [] :=
  parseExtensions_any_fuel _ (fun l => l.length + 500) (by intro l; omega)

end NonVacuity

end WS.Props.C07
