import WS.Lemmas.ReaderRejects
import WS.Lemmas.SrcLaw
import WS.Model.Http
import WS.Lemmas.Robust
/-
  C07 — Untrusted network input never panics, hangs or allocates out of proportion.

  What a theorem can say here: the executable model of the read path and of the header parsers is
  a set of total functions whose recursion is bounded by the input (Lean's termination checker
  accepted them with fuel = input length, and the differential harness never observed fuel
  exhaustion `MODEL-hang` / `*`), and the only panic value the model can produce is the documented
  one. Go-level panics (index out of range, nil map) cannot arise in the model; they are guarded by
  the translator's inventory of every index / slice / make / type-assertion site in the functions fed
  by network input (expect/inventory.json: a new or changed site breaks the tie) and searched for by
  the fuzz streams under recover().
-/
namespace WS.Props.C07
open WS WS.SrcLaw WS.ReaderRejects

/-- the documented exception: the 1000th NextReader call on a failed connection panics … -/
theorem panic_at_1000 (c : Conn) (e : RErr) (he : c.r.readErr = some e) (hn : 1000 ≤ c.r.errCount + 1) :
    ∃ c', nextReader c = (.panic, c') :=
  nextReader_panics_at_1000 c e he hn

/-- … and before that a failed connection just returns its error -/
theorem no_panic_before_1000 (c : Conn) (e : RErr) (he : c.r.readErr = some e) (hn : c.r.errCount + 1 < 1000) :
    ∃ c', nextReader c = (.err e, c') := by
  obtain ⟨c', h, _⟩ := nextReader_sticky c e he hn
  exact ⟨c', h⟩

/-- header reads are bounded: a read of n bytes (n is at most 125 for control payloads, 8 for lengths, 4 for
    keys, 2 for the header) delivers at most n bytes, consumes exactly what it delivers, and on a source
    with fewer than n bytes left it ends with the source's error instead of waiting -/
theorem header_read_bounded (b : Buf) (h : WF b) (n : Nat) (hn : n ≤ b.size) :
    (b.take n).1.length ≤ n ∧
    (b.take n).1 ++ (b.take n).2.2.pending = b.pending ∧
    (b.pending.length < n → (b.take n).2.1 = some (mapEOF b.t.term)) := by
  refine ⟨?_, ?_, ?_⟩
  · by_cases hp : n ≤ b.pending.length
    · rw [(take_ok b h n hn hp).1]; simp [List.length_take]; omega
    · rw [(take_short b h n hn (by omega)).1]; omega
  · by_cases hp : n ≤ b.pending.length
    · rw [(take_ok b h n hn hp).1, (take_ok b h n hn hp).2.2.1]; exact List.take_append_drop n b.pending
    · rw [(take_short b h n hn (by omega)).1, (take_short b h n hn (by omega)).2.2.1]; simp
  · intro hp; exact (take_short b h n hn hp).2.1

/-- skipping a frame whose header claims any length consumes what is there and ends with an error
    when the stream is shorter — it never waits for the claimed length -/
theorem skip_terminates_on_short_stream (b : Buf) (h : WF b) (n : Nat) (hp : b.pending.length < n) :
    (b.skip n).1 = some b.t.term ∧ (b.skip n).2.pending = [] :=
  ⟨(skip_short b h n hp).1, (skip_short b h n hp).2.1⟩

open WS.Http
/-- panic_only_after_1000_failed_reads: NextReader panics exactly on the 1000th (or later) call that
    ends in an error — never on a healthy call, never earlier -/
theorem panic_iff (c : Conn) :
    (∃ c', nextReader c = (.panic, c')) ↔ (c.r.readErr.isSome ∧ 1000 ≤ c.r.errCount + 1) ∨
      (c.r.readErr = none ∧ 1000 ≤ c.r.errCount + 1 ∧ ∃ e c', nextReaderLoop c.fuel { c with r := { c.r with msgReader := none, length := 0 } } = (.err e, c')) := by
  first | exact Robust.nextReader_panic_iff .. | (apply Robust.nextReader_panic_iff <;> assumption)

/-- a connection with fewer than 999 failed calls never panics in NextReader, whatever the peer sends -/
theorem no_panic_on_any_input (c : Conn) (h : c.r.errCount + 1 < 1000) : ∀ c', nextReader c ≠ (.panic, c') := by
  first | exact Robust.nextReader_no_panic .. | (apply Robust.nextReader_no_panic <;> assumption)

/-- alloc_linear (quoted strings): the unescaped value is never longer than the header value it came
    from (the code allocates len(s)-1 bytes for it), and the scanners only ever return pieces of
    their input -/
theorem nextTokenOrQuoted_length (s : Bytes) :
    (nextTokenOrQuoted s).1.length ≤ s.length ∧ (nextTokenOrQuoted s).2.length ≤ s.length := by
  first | exact Robust.nextTokenOrQuoted_length .. | (apply Robust.nextTokenOrQuoted_length <;> assumption)

theorem nextToken_split (s : Bytes) :
    (nextToken s).1 ++ (nextToken s).2 = s ∧ ∀ b ∈ (nextToken s).1, isTokenOctet b = true :=
  Robust.nextToken_split s

/-- skipSpace returns a suffix of its input -/
theorem skipSpace_suffix (s : Bytes) : ∃ pre, pre ++ skipSpace s = s ∧ ∀ b ∈ pre, b = 32 ∨ b = 9 :=
  Robust.skipSpace_suffix s

/-! ### non-vacuity -/
section NonVacuity
set_option linter.defProp false
open WS WS.SrcLaw WS.ReaderRejects WS.Http

/-- a server connection whose reader failed with ErrReadLimit `n` calls ago; unread bytes remain -/
def witFailed (n : Nat) : Conn :=
  { w := { newW true 4096 false false with writeErr := some .closeSent, wire := [0x88, 0x02, 0x03, 0xF1] },
    r := { isServer := true, nego := false, readErr := some .readLimit, errCount := n, limit := 4,
           buf := { size := 4096, buf := [0, 1, 2, 3], total := 12 } } }

/-- non-vacuity of `panic_at_1000`: the 1000th failed call -/
example : ∃ c', nextReader (witFailed 999) = (.panic, c') := panic_at_1000 (witFailed 999) .readLimit rfl (by decide)

/-- non-vacuity of `no_panic_before_1000`: the 999th failed call -/
example : ∃ c', nextReader (witFailed 998) = (.err .readLimit, c') :=
  no_panic_before_1000 (witFailed 998) .readLimit rfl (by decide)

/-- instance of `panic_iff` (no hypotheses): both sides hold for `witFailed 999` -/
example : ((witFailed 999).r.readErr.isSome ∧ 1000 ≤ (witFailed 999).r.errCount + 1) ∧
    ∃ c', nextReader (witFailed 999) = (.panic, c') :=
  ⟨⟨rfl, by decide⟩, (panic_iff (witFailed 999)).mpr (Or.inl ⟨rfl, by decide⟩)⟩

/-- a 4096-byte bufio.Reader holding the start of a frame header that claims a 2^63-1 byte payload;
    the transport delivers 3 more bytes and then fails -/
def witBuf : Buf :=
  { size := 4096, buf := [0x82, 0xFF, 0x7F], t := { chunks := [[0xFF, 0xFF], [0xFF]], term := .transport 9 }, total := 6 }

def witBuf_wf : WF witBuf := ⟨by decide, by decide, by decide, (by intro e h; cases h)⟩

/-- non-vacuity of `header_read_bounded`: the 8-byte extended length is asked for after the 2 header
    bytes; 6 pending bytes < 8 + 2 -/
example : (witBuf.take 10).1.length ≤ 10 ∧
    (witBuf.take 10).1 ++ (witBuf.take 10).2.2.pending = witBuf.pending ∧
    (witBuf.pending.length < 10 → (witBuf.take 10).2.1 = some (mapEOF witBuf.t.term)) :=
  header_read_bounded witBuf witBuf_wf 10 (by decide)

example : witBuf.pending.length < 10 ∧ (witBuf.take 10).2.1 = some (.transport 9) := by decide

/-- non-vacuity of `skip_terminates_on_short_stream`: the claimed length 2^63 - 1 is never waited for -/
example : (witBuf.skip (2 ^ 63 - 1)).1 = some (.transport 9) ∧ (witBuf.skip (2 ^ 63 - 1)).2.pending = [] :=
  skip_terminates_on_short_stream witBuf witBuf_wf (2 ^ 63 - 1) (by decide)

/-- a fresh client connection fed garbage: a frame with all reserved bits, opcode 15, then noise -/
def witGarbage : Conn :=
  { w := { newW false 4096 false false with keys := [1, 2, 3, 4] },
    r := { isServer := false, nego := false, errCount := 0,
           buf := { size := 4096, buf := [], t := { chunks := [[0xFF, 0xFF, 0xFF], [0x00, 0x13, 0x37]] }, total := 6 } } }

/-- non-vacuity of `no_panic_on_any_input` -/
example : ∀ c', nextReader witGarbage ≠ (.panic, c') := no_panic_on_any_input witGarbage (by decide)

example : (nextReader witGarbage).2.r.readErr = some (.protocol "RSV1 set, RSV2 set, RSV3 set, bad opcode 15, bad MASK") := by
  decide

/-- instances of `nextTokenOrQuoted_length`, `nextToken_split`, `skipSpace_suffix` (no hypotheses):
    a quoted string with an escape, `permessage-deflate; x`, leading blanks -/
example : (nextTokenOrQuoted (strBytes "\"a\\\"b\"; rest")).1 = strBytes "a\"b" ∧
    (nextToken (strBytes "permessage-deflate; x")).1 = strBytes "permessage-deflate" ∧
    skipSpace (strBytes " \t websocket") = strBytes "websocket" := by decide +kernel

end NonVacuity

end WS.Props.C07
