import WS.Lemmas.ReaderRejects
import WS.Lemmas.SrcLaw
import WS.Model.Http
import WS.Lemmas.Robust
/-
  C07 — Untrusted network input never panics, hangs or allocates out of proportion.

  What a theorem can say here: the executable model of the read path and of the header parsers is
  a set of total functions whose recursion is bounded by the input (Lean's termination checker
  accepted them with fuel = input length, and the differential harness never observed fuel
  exhaustion `MODEL-hang` / `*`), and the only panic value the model can produce is the documented
  one. Go-level panics (index out of range, nil map) cannot arise in the model; they are guarded by
  the translator's inventory of every index / slice / make / type-assertion site in the functions fed
  by network input (expect/inventory.json: a new or changed site breaks the tie) and searched for by
  the fuzz streams under recover().
-/
namespace WS.Props.C07
open WS WS.SrcLaw WS.ReaderRejects

/-- the documented exception: the 1000th NextReader call on a failed connection panics … -/
theorem panic_at_1000 (c : Conn) (e : RErr) (he : c.r.readErr = some e) (hn : 1000 ≤ c.r.errCount + 1) :
    ∃ c', nextReader c = (.panic, c') :=
  nextReader_panics_at_1000 c e he hn

/-- … and before that a failed connection just returns its error -/
theorem no_panic_before_1000 (c : Conn) (e : RErr) (he : c.r.readErr = some e) (hn : c.r.errCount + 1 < 1000) :
    ∃ c', nextReader c = (.err e, c') := by
  obtain ⟨c', h, _⟩ := nextReader_sticky c e he hn
  exact ⟨c', h⟩

/-- header reads are bounded: whatever length a header claims, at most the bytes asked for (≤ 125 for
    control payloads, ≤ 8 for lengths) are taken from the source, and a short source is an error,
    not a wait -/
theorem header_read_bounded (b : Buf) (h : WF b) (n : Nat) (hn : n ≤ b.size) :
    (b.take n).1.length ≤ max n b.pending.length ∧
    (b.pending.length < n → (b.take n).2.1 = some (mapEOF b.t.term)) := by
  constructor
  · by_cases hp : n ≤ b.pending.length
    · rw [(take_ok b h n hn hp).1]; simp [List.length_take]; omega
    · rw [(take_short b h n hn (by omega)).1]; omega
  · intro hp; exact (take_short b h n hn hp).2.1

/-- skipping a frame whose header claims any length consumes what is there and ends with an error
    when the stream is shorter — it never waits for the claimed length -/
theorem skip_terminates_on_short_stream (b : Buf) (h : WF b) (n : Nat) (hp : b.pending.length < n) :
    (b.skip n).1 = some b.t.term ∧ (b.skip n).2.pending = [] :=
  ⟨(skip_short b h n hp).1, (skip_short b h n hp).2.1⟩

open WS.Http
/-- panic_only_after_1000_failed_reads: NextReader panics exactly on the 1000th (or later) call that
    ends in an error — never on a healthy call, never earlier -/
theorem panic_iff (c : Conn) :
    (∃ c', nextReader c = (.panic, c')) ↔ (c.r.readErr.isSome ∧ 1000 ≤ c.r.errCount + 1) ∨
      (c.r.readErr = none ∧ 1000 ≤ c.r.errCount + 1 ∧ ∃ e c', nextReaderLoop c.fuel { c with r := { c.r with msgReader := none, length := 0 } } = (.err e, c')) := by
  first | exact Robust.nextReader_panic_iff .. | (apply Robust.nextReader_panic_iff <;> assumption)

/-- a connection with fewer than 999 failed calls never panics in NextReader, whatever the peer sends -/
theorem no_panic_on_any_input (c : Conn) (h : c.r.errCount + 1 < 1000) : ∀ c', nextReader c ≠ (.panic, c') := by
  first | exact Robust.nextReader_no_panic .. | (apply Robust.nextReader_no_panic <;> assumption)

/-- alloc_linear (quoted strings): the unescaped value is never longer than the header value it came
    from (the code allocates len(s)-1 bytes for it), and the scanners only ever return pieces of
    their input -/
theorem nextTokenOrQuoted_length (s : Bytes) :
    (nextTokenOrQuoted s).1.length ≤ s.length ∧ (nextTokenOrQuoted s).2.length ≤ s.length := by
  first | exact Robust.nextTokenOrQuoted_length .. | (apply Robust.nextTokenOrQuoted_length <;> assumption)

theorem nextToken_split (s : Bytes) :
    (nextToken s).1 ++ (nextToken s).2 = s ∧ ∀ b ∈ (nextToken s).1, isTokenOctet b = true :=
  Robust.nextToken_split s

/-- skipSpace returns a suffix of its input -/
theorem skipSpace_suffix (s : Bytes) : ∃ pre, pre ++ skipSpace s = s ∧ ∀ b ∈ pre, b = 32 ∨ b = 9 :=
  Robust.skipSpace_suffix s

end WS.Props.C07
