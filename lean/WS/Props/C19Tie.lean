import WS.Gen.Skeletons
/-
  C19 — translator tie: the statement text of the functions this property's model transcribes, regenerated
  from /repo by factgen on every run (WS/Gen/Skeletons.lean), equals the text the model was written against.
  A change to one of these functions breaks the obligation below; the check then searches for a failing
  input with the property's oracles (DESIGN §5).
-/
namespace WS.Props.C19Tie
open WS

/-- today's WritePreparedMessage and PreparedMessage.frame are the modelled ones -/
theorem prepared_as_modelled :
    Gen.stmts_WritePreparedMessage =
      ["frameType, frameData, err := pm.frame(prepareKey{ isServer: c.isServer, compress: c.newCompressionWriter != nil && c.enableWriteCompression && isData(pm.messageType), compressionLevel: c.compressionLevel, })",
        "if err != nil { return err }",
        "if isData(pm.messageType) && c.writer != nil { c.writer.Close() c.writer = nil }",
        "if c.isWriting { panic(\"concurrent write to websocket connection\") }",
        "c.isWriting = true",
        "err = c.write(frameType, c.writeDeadline, frameData, nil)",
        "if !c.isWriting { panic(\"concurrent write to websocket connection\") }",
        "c.isWriting = false",
        "return err"] ∧
    Gen.stmts_preparedFrame =
      ["pm.mu.Lock()",
        "frame, ok := pm.frames[key]",
        "if !ok { frame = &preparedFrame{} pm.frames[key] = frame }",
        "pm.mu.Unlock()",
        "var err error",
        "frame.once.Do(func() { mu := make(chan struct{}, 1) mu <- struct{}{} var nc prepareConn c := &Conn{ conn: &nc, mu: mu, isServer: key.isServer, compressionLevel: key.compressionLevel, enableWriteCompression: true, writeBuf: make([]byte, defaultWriteBufferSize+maxFrameHeaderSize), } if key.compress { c.newCompressionWriter = compressNoContextTakeover } err = c.WriteMessage(pm.messageType, pm.data) frame.data = nc.buf.Bytes() })",
        "return pm.messageType, frame.data, err"] := by
  refine ⟨?_, ?_⟩ <;> rfl


/-- today's NewPreparedMessage is the modelled one -/
theorem new_prepared_as_modelled :
    Gen.stmts_NewPreparedMessage =
      ["pm := &PreparedMessage{ messageType: messageType, frames: make(map[prepareKey]*preparedFrame), data: data, }",
        "_, frameData, err := pm.frame(prepareKey{isServer: true, compress: false})",
        "if err != nil { return nil, err }",
        "pm.data = frameData[len(frameData)-len(data):]",
        "return pm, nil"] := by
  rfl


end WS.Props.C19Tie
