import WS.Gen.Skeletons
/-
  C02 — translator tie: the statement text of the functions this property's model transcribes, regenerated
  from /repo by factgen on every run (WS/Gen/Skeletons.lean), equals the text the model was written against.
  A change to one of these functions breaks the obligation below; the check then searches for a failing
  input with the property's oracles (DESIGN §5).
-/
namespace WS.Props.C02Tie
open WS

/-- today's flushFrame and the deflate plumbing (truncWriter.Write, flateWriteWrapper.Write/Close) are the modelled ones -/
theorem flushFrame_as_modelled :
    Gen.stmts_flushFrame =
      ["c := w.c",
        "length := w.pos - maxFrameHeaderSize + len(extra)",
        "if isControl(w.frameType) && (!final || length > maxControlFramePayloadSize) { return w.endMessage(errInvalidControlFrame) }",
        "b0 := byte(w.frameType)",
        "if final { b0 |= finalBit }",
        "if w.compress { b0 |= rsv1Bit }",
        "w.compress = false",
        "b1 := byte(0)",
        "if !c.isServer { b1 |= maskBit }",
        "framePos := 0",
        "if c.isServer { framePos = 4 }",
        "switch { case length >= 65536: c.writeBuf[framePos] = b0 c.writeBuf[framePos+1] = b1 | 127 binary.BigEndian.PutUint64(c.writeBuf[framePos+2:], uint64(length)) case length > 125: framePos += 6 c.writeBuf[framePos] = b0 c.writeBuf[framePos+1] = b1 | 126 binary.BigEndian.PutUint16(c.writeBuf[framePos+2:], uint16(length)) default: framePos += 8 c.writeBuf[framePos] = b0 c.writeBuf[framePos+1] = b1 | byte(length) }",
        "if !c.isServer { key := newMaskKey() copy(c.writeBuf[maxFrameHeaderSize-4:], key[:]) maskBytes(key, 0, c.writeBuf[maxFrameHeaderSize:w.pos]) if len(extra) > 0 { return w.endMessage(c.writeFatal(errors.New(\"websocket: internal error, extra used in client mode\"))) } }",
        "if c.isWriting { panic(\"concurrent write to websocket connection\") }",
        "c.isWriting = true",
        "err := c.write(w.frameType, c.writeDeadline, c.writeBuf[framePos:w.pos], extra)",
        "if !c.isWriting { panic(\"concurrent write to websocket connection\") }",
        "c.isWriting = false",
        "if err != nil { return w.endMessage(err) }",
        "if final { _ = w.endMessage(errWriteClosed) return nil }",
        "w.pos = maxFrameHeaderSize",
        "w.frameType = continuationFrame",
        "return nil"] ∧
    Gen.stmts_truncWrite =
      ["n := 0",
        "if w.n < len(w.p) { n = copy(w.p[w.n:], p) p = p[n:] w.n += n if len(p) == 0 { return n, nil } }",
        "m := len(p)",
        "if m > len(w.p) { m = len(w.p) }",
        "if nn, err := w.w.Write(w.p[:m]); err != nil { return n + nn, err }",
        "copy(w.p[:], w.p[m:])",
        "copy(w.p[len(w.p)-m:], p[len(p)-m:])",
        "nn, err := w.w.Write(p[:len(p)-m])",
        "return n + nn, err"] ∧
    Gen.stmts_flateWrite =
      ["if w.fw == nil { return 0, errWriteClosed }",
        "return w.fw.Write(p)"] ∧
    Gen.stmts_flateClose =
      ["if w.fw == nil { return errWriteClosed }",
        "err1 := w.fw.Flush()",
        "w.p.Put(w.fw)",
        "w.fw = nil",
        "if w.tw.p != [4]byte{0, 0, 0xff, 0xff} { return errors.New(\"websocket: internal error, unexpected bytes at end of flate stream\") }",
        "err2 := w.tw.w.Close()",
        "if err1 != nil { return err1 }",
        "return err2"] := by
  refine ⟨?_, ?_, ?_, ?_⟩ <;> rfl


/-- today's newMaskKey (one draw of 4 bytes from the key source per call), isControl and isData are the modelled ones -/
theorem key_source_and_opcode_classes_as_modelled :
    Gen.stmts_newMaskKey =
      ["var k [4]byte",
        "_, _ = io.ReadFull(maskRand, k[:])",
        "return k"] ∧
    Gen.stmts_isControl =
      ["return frameType == CloseMessage || frameType == PingMessage || frameType == PongMessage"] ∧
    Gen.stmts_isData =
      ["return frameType == TextMessage || frameType == BinaryMessage"] := by
  refine ⟨?_, ?_, ?_⟩ <;> rfl


end WS.Props.C02Tie
