import WS.Lemmas.SrcLaw
import WS.Lemmas.ReaderRejects
/-
  C05 — No silent truncation (source level): a cut stream is reported as an error exactly when the
  bytes asked for did not all arrive; what did arrive is delivered unchanged and in order. The
  reader-level statements (sticky error, no data after an error) are added from
  WS/Lemmas/ReaderRejects.lean. Finding F1 (EOF together with the last bytes of a *non-final*
  frame) is a defect of the code and is recorded in KNOWN_FINDINGS.txt.
-/
namespace WS.Props.C05
open WS WS.SrcLaw

/-- a header cut short: Conn.read reports the terminal error (io.EOF mapped to the 1006
    unexpected-EOF CloseError), never a short header as if it were complete -/
theorem header_cut_is_error (b : Buf) (h : WF b) (n : Nat) (hn : n ≤ b.size) (hp : b.pending.length < n) :
    (b.take n).1 = b.pending ∧ (b.take n).2.1 = some (mapEOF b.t.term) ∧
    (b.take n).2.2.pending = [] ∧ WF (b.take n).2.2 ∧ Same b (b.take n).2.2 :=
  take_short b h n hn hp

/-- a skipped frame remainder cut short is an error too -/
theorem skip_cut_is_error (b : Buf) (h : WF b) (n : Nat) (hp : b.pending.length < n) :
    (b.skip n).1 = some b.t.term ∧ (b.skip n).2.pending = [] ∧ WF (b.skip n).2 ∧ Same b (b.skip n).2 :=
  skip_short b h n hp

/-- the terminal error is permanent at the source: once everything was delivered every Read
    reports it again (scripted transports are sticky) -/
theorem error_repeats (b : Buf) (h : WF b) (k : Nat) (hk : 0 < k) (he : b.pending = []) :
    (b.read k).2.1 = some b.t.term ∧ (b.read k).2.2.pending = [] := by
  have := read_spec b h k hk
  exact ⟨this.2.2.2.2.1 he, (this.2.2.2.1 _ (this.2.2.2.2.1 he)).1⟩

/-- once NextReader has returned an error it returns the same error on every later call and delivers
    nothing further (up to the documented 1000-call panic) -/
theorem error_is_permanent (c : Conn) (e : RErr) (he : c.r.readErr = some e) (hn : c.r.errCount + 1 < 1000) :
    ∃ c', nextReader c = (.err e, c') ∧ c'.r.readErr = some e ∧ c'.w = c.w ∧ c'.r.hlog = c.r.hlog ∧
      c'.r.buf = c.r.buf ∧ c'.r.errCount = c.r.errCount + 1 :=
  ReaderRejects.nextReader_sticky c e he hn

theorem no_data_after_error (c : Conn) (e : RErr) (he : c.r.readErr = some e) (rid k : Nat) :
    ((mrRead c rid k).1).1 = [] ∧ ((mrRead c rid k).1).2.isSome ∧ (mrRead c rid k).2.w = c.w :=
  ReaderRejects.mrRead_after_error c e he rid k

/-- non-vacuity: two bytes arrive, four are needed -/
example :
    let b : Buf := { size := 16, t := { chunks := [[1, 2]], term := .eof } }
    (b.take 4).2.1 = some .unexpectedEOF := by decide

end WS.Props.C05
