import WS.Lemmas.CutTogether
import WS.Lemmas.CutProgramFull
import WS.Lemmas.ProgramAnyLimit
import WS.Lemmas.CutProgram
import WS.Lemmas.CutAnyLimit
import WS.Lemmas.ZCut
import WS.Lemmas.SrcLaw
import WS.Lemmas.ReaderRejects
import WS.Lemmas.CutLogic
import WS.Lemmas.ReaderMore
/-
  C05 — No silent truncation (source level): a cut stream is reported as an error exactly when the
  bytes asked for did not all arrive; what did arrive is delivered unchanged and in order. The
  reader-level statements (sticky error, no data after an error) are added from
  WS/Lemmas/ReaderRejects.lean. Finding F1 (EOF together with the last bytes of a *non-final*
  frame) is a defect of the code and is recorded in KNOWN_FINDINGS.txt.
-/
namespace WS.Props.C05
open WS WS.SrcLaw

/-- a header cut short: Conn.read reports the terminal error (io.EOF mapped to the 1006
    unexpected-EOF CloseError), never a short header as if it were complete -/
theorem header_cut_is_error (b : Buf) (h : WF b) (n : Nat) (hn : n ≤ b.size) (hp : b.pending.length < n) :
    (b.take n).1 = b.pending ∧ (b.take n).2.1 = some (mapEOF b.t.term) ∧
    (b.take n).2.2.pending = [] ∧ WF (b.take n).2.2 ∧ Same b (b.take n).2.2 :=
  take_short b h n hn hp

/-- a skipped frame remainder cut short is an error too -/
theorem skip_cut_is_error (b : Buf) (h : WF b) (n : Nat) (hp : b.pending.length < n) :
    (b.skip n).1 = some b.t.term ∧ (b.skip n).2.pending = [] ∧ WF (b.skip n).2 ∧ Same b (b.skip n).2 :=
  skip_short b h n hp

/-- the terminal error is permanent at the source: once everything was delivered every Read
    reports it again (scripted transports are sticky) -/
theorem error_repeats (b : Buf) (h : WF b) (k : Nat) (hk : 0 < k) (he : b.pending = []) :
    (b.read k).2.1 = some b.t.term ∧ (b.read k).2.2.pending = [] := by
  have := read_spec b h k hk
  exact ⟨this.2.2.2.2.1 he, (this.2.2.2.1 _ (this.2.2.2.2.1 he)).1⟩

/-- once NextReader has returned an error it returns the same error on every later call and delivers
    nothing further (up to the documented 1000-call panic) -/
theorem error_is_permanent (c : Conn) (e : RErr) (he : c.r.readErr = some e) (hn : c.r.errCount + 1 < 1000) :
    ∃ c', nextReader c = (.err e, c') ∧ c'.r.readErr = some e ∧ c'.w = c.w ∧ c'.r.hlog = c.r.hlog ∧
      c'.r.buf = c.r.buf ∧ c'.r.errCount = c.r.errCount + 1 :=
  ReaderRejects.nextReader_sticky c e he hn

theorem no_data_after_error (c : Conn) (e : RErr) (he : c.r.readErr = some e) (rid k : Nat) :
    ((mrRead c rid k).1).1 = [] ∧ ((mrRead c rid k).1).2.isSome ∧ (mrRead c rid k).2.w = c.w :=
  ReaderRejects.mrRead_after_error c e he rid k

/-- non-vacuity: two bytes arrive, four are needed -/
example :
    let b : Buf := { size := 16, t := { chunks := [[1, 2]], term := .eof } }
    (b.take 4).2.1 = some .unexpectedEOF := by decide

open WS.Codec WS.ReaderDecodes WS.CutLogic WS.ReaderMore
/-- cut_never_complete: the transport ends (EOF, error or timeout; alone or together with the last
    bytes) at ANY byte offset strictly inside a conformant message, for any fragmentation, interleaved
    control frames, chunking, buffer size and read size: the message is never reported complete.
    Either NextReader fails, or the message reader fails with a non-nil error other than io.EOF after
    delivering only a prefix of the payload (or NextReader raises the documented panic of the 1000th
    failed call). -/
theorem cut_never_complete (c : Conn) (hc : ReaderIdle c) (t : Nat) (ht : t = 1 ∨ t = 2)
    (fs : List PFrame)
    (hs : MsgShape t fs) (cut : Nat) (hcut : cut < (encAll c.r.isServer fs).length)
    (hp : c.r.buf.pending = (encAll c.r.isServer fs).take cut)
    (hsz : (dataPayload fs).length < 2 ^ 62) (hlim : c.r.limit ≤ 0)
    (k : Nat) (hk : 0 < k) :
    (∃ e, openAndRead c k = .failedOpen e ∧ c.r.errCount + 1 < 1000) ∨
    (∃ got e, openAndRead c k = .failedRead t got e ∧ e ≠ .eof ∧ got <+: dataPayload fs) ∨
    (1000 ≤ c.r.errCount + 1 ∧ openAndRead c k = .panicked) := by
  first | exact CutLogic.cut_never_complete_or_panic_partial .. | (apply CutLogic.cut_never_complete_or_panic_partial <;> assumption)


/-- the same on reachable reader states (the failed-call counter is 0 while no error is latched —
    `reach_inv_nextReader`, `reach_inv_read` below): no panic alternative -/
theorem cut_never_complete_reachable (c : Conn) (hc : ReaderIdle c) (hi : CountInv c) (t : Nat) (ht : t = 1 ∨ t = 2)
    (fs : List PFrame) (hs : MsgShape t fs) (cut : Nat) (hcut : cut < (encAll c.r.isServer fs).length)
    (hp : c.r.buf.pending = (encAll c.r.isServer fs).take cut)
    (hsz : (dataPayload fs).length < 2 ^ 62) (hlim : c.r.limit ≤ 0) (k : Nat) (hk : 0 < k) :
    (∃ e, openAndRead c k = .failedOpen e) ∨
    (∃ got e, openAndRead c k = .failedRead t got e ∧ e ≠ .eof ∧ got <+: dataPayload fs) := by
  have h0 : c.r.errCount = 0 := hi hc.noErr
  exact CutLogic.cut_never_complete_partial c hc t ht fs hs cut hcut hp hsz hlim (by omega) k hk

/-- … and when the whole message arrived before the transport ended it is reported complete and
    byte-identical -/
theorem whole_message_then_error (c : Conn) (hc : ReaderIdle c) (t : Nat) (ht : t = 1 ∨ t = 2) (fs : List PFrame)
    (hs : MsgShape t fs)
    (hp : c.r.buf.pending = encAll c.r.isServer fs) (htog : c.r.buf.t.together = false)
    (hsz : (dataPayload fs).length < 2 ^ 62) (hlim : c.r.limit ≤ 0)
    (k : Nat) (hk : 0 < k) :
    openAndRead c k = .complete t (dataPayload fs) := by
  first | exact CutLogic.whole_message_then_error .. | (apply CutLogic.whole_message_then_error <;> assumption)


/-- the reachable-state invariant used above is preserved by NextReader and by Read -/
theorem reach_inv_nextReader (c : Conn) (h : ReachInv c) : ReachInv (nextReader c).2 := by
  first | exact ReaderMore.nextReader_reachInv_partial .. | (apply ReaderMore.nextReader_reachInv_partial <;> assumption)

theorem reach_inv_read (c : Conn) (rid k : Nat) (hk : 0 < k) (h : ReachInv c) : ReachInv (mrRead c rid k).2 := by
  first | exact ReaderMore.mrRead_reachInv .. | (apply ReaderMore.mrRead_reachInv <;> assumption)

open WS.Codec WS.ReaderDecodes WS.ReaderZ WS.CutLogic WS.ReaderMore WS.ZCut

/-- cut_never_complete for COMPRESSED messages (finding F10 as a theorem): the transport ends (EOF,
    error or timeout; alone or together with the last bytes) at ANY byte offset strictly inside a
    compressed message (first frame RSV1, any fragmentation, control frames in between): whatever
    compress/flate does with the raw bytes — whatever the sizes of its read requests, however early it
    reports the end of the deflate stream (a final block long before the last frame), whatever the
    request size of the drain that follows — the message is not reported complete: NextReader fails or
    the decompressing reader (model of flateReadWrapper, `zReadToEnd`) fails -/
theorem compressed_cut_never_complete (c : Conn) (hc : ReaderIdle c) (hi : CountInv c) (hn : c.r.nego = true)
    (t : Nat) (ht : t = 1 ∨ t = 2) (f : PFrame) (more : List PFrame) (hs : ZShape t f more)
    (cut : Nat) (hcut : cut < (encZ c.r.isServer f ++ encAll c.r.isServer more).length)
    (hp : c.r.buf.pending = (encZ c.r.isServer f ++ encAll c.r.isServer more).take cut)
    (hsz : (f.payload ++ dataPayload more).length < 2 ^ 62) (hlim : c.r.limit ≤ 0) (env : ZEnv)
    (hreq : ∀ k ∈ env.reqs, 0 < k) (hdr : 0 < env.drainK) :
    (∃ e c1, nextReader c = (.err e, c1)) ∨
    (∃ c1 rid, nextReader c = (.msg t rid true, c1) ∧ ∃ raw e c2, zReadToEnd c1 rid env = ((raw, .failed e), c2)) := by
  first | exact WS.ZCut.compressed_cut_never_complete .. | (apply WS.ZCut.compressed_cut_never_complete <;> assumption)

/-- … and a compressed message that arrived whole is reported complete whenever the decompressor
    accepts it, however early or late it reports the end of the deflate stream; what it was given is a
    prefix of the concatenated payloads; the reader is idle again with the following bytes untouched -/
theorem compressed_whole_complete (c : Conn) (hc : ReaderIdle c) (hn : c.r.nego = true)
    (t : Nat) (ht : t = 1 ∨ t = 2) (f : PFrame) (more : List PFrame) (hs : ZShape t f more) (rest : Bytes)
    (hp : c.r.buf.pending = encZ c.r.isServer f ++ encAll c.r.isServer more ++ rest)
    (hend : c.r.buf.t.together = false ∨ rest ≠ [])
    (hsz : (f.payload ++ dataPayload more).length < 2 ^ 62) (hlim : c.r.limit ≤ 0)
    (reqs : List Nat) (drainK : Nat) (hreq : ∀ k ∈ reqs, 0 < k) (hdr : 0 < drainK) :
    ∃ c1 rid, nextReader c = (.msg t rid true, c1) ∧
      ∃ raw c2, zReadToEnd c1 rid ⟨reqs, true, drainK⟩ = ((raw, .complete), c2) ∧
        raw <+: f.payload ++ dataPayload more ∧ ReaderIdle c2 ∧ c2.r.buf.pending = rest := by
  first | exact WS.ZCut.compressed_whole_complete .. | (apply WS.ZCut.compressed_whole_complete <;> assumption)

/-- completion of a compressed message implies that the raw message was read to its end, for every
    behaviour of the decompressor: the message reader has returned io.EOF and is detached, or — on a
    transport that reports io.EOF together with the last bytes — io.EOF is latched right after the
    last byte of the final frame. (The first statement handed to the proof agent had only the first
    alternative and was refuted with the instance `ZCut.complete_reads_to_end_counterexample`.) -/
theorem complete_reads_to_end_or_latched (c : Conn) (rid : Nat) (hrid : c.r.msgReader = some rid)
    (env : ZEnv) (raw : Bytes) (c' : Conn) (h : zReadToEnd c rid env = ((raw, .complete), c')) :
    c'.r.msgReader = none ∨
    (c.r.buf.t.together = true ∧ c'.r.readErr = some .eof ∧ c'.r.remaining ≤ 0 ∧ c'.r.final = true) := by
  first | exact WS.ZCut.complete_reads_to_end_or_latched_partial .. | (apply WS.ZCut.complete_reads_to_end_or_latched_partial <;> assumption)

open WS.Codec WS.ReaderDecodes WS.CutLogic WS.ReaderMore in
/-- `cut_never_complete` WITHOUT the "no read limit" hypothesis: whatever read limit is in force
    (positive, zero or negative), a message cut at any offset strictly inside it is never reported
    complete; with a limit the failure may be ErrReadLimit instead of the transport's error — still an
    error other than io.EOF after only a prefix of the payload -/
theorem cut_never_complete_any_limit (c : Conn) (hc : ReaderIdle c) (t : Nat) (ht : t = 1 ∨ t = 2)
    (fs : List PFrame)
    (hs : MsgShape t fs) (cut : Nat) (hcut : cut < (encAll c.r.isServer fs).length)
    (hp : c.r.buf.pending = (encAll c.r.isServer fs).take cut)
    (hsz : (dataPayload fs).length < 2 ^ 62)
    (k : Nat) (hk : 0 < k) :
    (∃ e, openAndRead c k = .failedOpen e ∧ c.r.errCount + 1 < 1000) ∨
    (∃ got e, openAndRead c k = .failedRead t got e ∧ e ≠ .eof ∧ got <+: dataPayload fs) ∨
    (1000 ≤ c.r.errCount + 1 ∧ openAndRead c k = .panicked) := by
  first | exact WS.CutAnyLimit.cut_never_complete_any_limit .. | (apply WS.CutAnyLimit.cut_never_complete_any_limit <;> assumption)

open WS.Codec WS.ReaderDecodes WS.ReadProgram WS.CutProgram in
/-- the first sentence of C05 for EVERY read program (`runProg`, C03.any_read_program): whole messages,
    then the first `cut` bytes of one more message (cut strictly inside it), then the transport's terminal
    condition, whatever it is and however delivered; the application calls NextReader and Read(k) in any
    order, number and sizes — also after errors, also NextReader from inside the cut message. The messages
    its trace reports as complete (`completed`: opened, pieces without error, then io.EOF) form a sublist
    of the whole messages, in order: every message reported complete was completely received and is
    byte-identical, and the partially received one is never among them.
    PARTIAL with respect to the full statement `cut_program_never_complete` (kept, commented, in
    WS/Lemmas/CutProgram.lean; not refuted): proved when (a) every WHOLE message is within the read limit
    (the cut one need not be) and (b) the terminal condition does not arrive together with the last bytes
    of the last whole message (`together = false ∨ 0 < cut`); the two excluded corners are covered at the
    one-message level by `cut_never_complete_any_limit`, `whole_message_then_error` and by the rcut stream. -/
theorem cut_program_never_complete_fits_partial (c : Conn) (hc : ReaderIdle c) (msgs : List (Nat × List PFrame))
    (hm : ∀ m ∈ msgs, (m.1 = 1 ∨ m.1 = 2) ∧ MsgShape m.1 m.2 ∧ (dataPayload m.2).length < 2 ^ 62 ∧
      (c.r.limit ≤ 0 ∨ ((dataPayload m.2).length : Int) ≤ c.r.limit))
    (t : Nat) (ht : t = 1 ∨ t = 2) (fs : List PFrame) (hs : MsgShape t fs) (hsz : (dataPayload fs).length < 2 ^ 62)
    (cut : Nat) (hcut : cut < (encAll c.r.isServer fs).length)
    (hp : c.r.buf.pending = (msgs.map (fun m => encAll c.r.isServer m.2)).flatten ++ (encAll c.r.isServer fs).take cut)
    (hend : c.r.buf.t.together = false ∨ 0 < cut)
    (ops : List ROp) :
    List.Sublist (completed (runProg ops c none).1) (msgs.map (fun m => (m.1, dataPayload m.2))) := by
  first | exact WS.CutProgram.cut_program_never_complete_fits_partial .. | (apply WS.CutProgram.cut_program_never_complete_fits_partial <;> assumption)

/-! ### non-vacuity -/
section NonVacuity
set_option linter.defProp false
open WS WS.SrcLaw WS.Codec WS.ReaderDecodes WS.CutLogic WS.ReaderMore

/-- a 4096-byte bufio.Reader with 3 buffered bytes; the transport delivers 2 more and then EOF -/
def witBuf : Buf :=
  { size := 4096, buf := [0x82, 0x7E, 0x01], t := { chunks := [[0x00, 0xAA]], term := .eof }, total := 5 }

def witBuf_wf : WF witBuf := ⟨by decide, by decide, by decide, (by intro e h; cases h)⟩

/-- non-vacuity of `header_cut_is_error`: 5 bytes arrive where 8 are needed -/
example : (witBuf.take 8).1 = [0x82, 0x7E, 0x01, 0x00, 0xAA] ∧ (witBuf.take 8).2.1 = some .unexpectedEOF ∧
    (witBuf.take 8).2.2.pending = [] ∧ WF (witBuf.take 8).2.2 ∧ Same witBuf (witBuf.take 8).2.2 :=
  header_cut_is_error witBuf witBuf_wf 8 (by decide) (by decide)

/-- non-vacuity of `skip_cut_is_error`: a frame remainder of 256 bytes of which only 5 arrive -/
example : (witBuf.skip 256).1 = some .eof ∧ (witBuf.skip 256).2.pending = [] ∧ WF (witBuf.skip 256).2 ∧
    Same witBuf (witBuf.skip 256).2 :=
  skip_cut_is_error witBuf witBuf_wf 256 (by decide)

/-- a drained source: nothing buffered, the transport script exhausted, its timeout error latched -/
def witDrained : Buf := { size := 4096, buf := [], err := some (.transport 7), t := { chunks := [], term := .transport 7 }, total := 5 }

def witDrained_wf : WF witDrained :=
  ⟨by decide, by decide, by decide, (by intro e h; cases h; exact ⟨rfl, rfl⟩)⟩

/-- non-vacuity of `error_repeats` (latched error) -/
example : (witDrained.read 512).2.1 = some (.transport 7) ∧ (witDrained.read 512).2.2.pending = [] :=
  error_repeats witDrained witDrained_wf 512 (by decide) rfl

/-- … and on the state after that Read (error no longer latched, transport sticky) -/
example : ((witDrained.read 512).2.2.read 512).2.1 = some (.transport 7) ∧ ((witDrained.read 512).2.2.read 512).2.2.pending = [] :=
  error_repeats (witDrained.read 512).2.2 (read_spec witDrained witDrained_wf 512 (by decide)).2.2.2.2.2.1 512 (by decide)
    (error_repeats witDrained witDrained_wf 512 (by decide) rfl).2

/-- a client connection whose reader failed with the 1006 unexpected-EOF error (a message reader had
    been handed out before, a ping was handled) -/
def witFailed : Conn :=
  { w := { newW false 4096 false false with keys := [1, 2, 3, 4] },
    r := { isServer := false, nego := false, readErr := some .unexpectedEOF, errCount := 3,
           msgReader := some 0, nextId := 1, hlog := [.ping [1]], final := false,
           buf := { size := 4096, buf := [], total := 5 } } }

/-- non-vacuity of `error_is_permanent` -/
example : ∃ c', nextReader witFailed = (.err .unexpectedEOF, c') ∧ c'.r.readErr = some .unexpectedEOF ∧ c'.w = witFailed.w ∧
      c'.r.hlog = witFailed.r.hlog ∧ c'.r.buf = witFailed.r.buf ∧ c'.r.errCount = 4 :=
  error_is_permanent witFailed _ rfl (by decide)

/-- non-vacuity of `no_data_after_error` -/
example : ((mrRead witFailed 0 512).1).1 = [] ∧ ((mrRead witFailed 0 512).1).2.isSome ∧ (mrRead witFailed 0 512).2.w = witFailed.w :=
  no_data_after_error witFailed _ rfl 0 512

/-- a text message "Hello" in two fragments ("Hel" non-final, "lo" final) with a ping "p" in between,
    each frame masked with its own key (the reader is a server) -/
def witMsg : List PFrame :=
  [{ op := 1, fin := false, key := ⟨0x37, 0xfa, 0x21, 0x3d⟩, payload := [0x48, 0x65, 0x6c] },
   { op := 9, fin := true, key := ⟨1, 2, 3, 4⟩, payload := [0x70] },
   { op := 0, fin := true, key := ⟨0xa0, 0xb0, 0xc0, 0xd0⟩, payload := [0x6c, 0x6f] }]

def witMsg_shape : MsgShape 1 witMsg :=
  MsgShape.frag _ _ rfl rfl (by decide)
    (Tail.ctl _ _ ⟨Or.inl rfl, rfl, by decide⟩ (Tail.last _ rfl rfl (by decide)))

example : (encAll true witMsg).length = 24 := by decide

/-- a server connection, reader idle; of the 24 wire bytes of `witMsg` only the first `cut` arrive
    (5 already buffered, the rest in chunks of 7), then EOF (`together`: with the last bytes) -/
def witCut (cut : Nat) (together : Bool) : Conn :=
  { w := newW true 4096 false false,
    r := { isServer := true, nego := false, hlog := [.pong []],
           buf := { size := 4096, buf := ((encAll true witMsg).take cut).take 5,
                    t := { chunks := [(((encAll true witMsg).take cut).drop 5).take 7, ((encAll true witMsg).take cut).drop 12],
                           term := .eof, together := together },
                    total := 24 } } }

/-- cut at byte 21: inside the masking key of the final continuation frame -/
def witCut_idle : ReaderIdle (witCut 21 true) :=
  ⟨rfl, rfl, rfl, ⟨by decide, by decide, by decide, (by intro e h; cases h)⟩, by decide, by decide,
    (by intro id h; cases h), (by intro id h; cases h)⟩

/-- non-vacuity of `cut_never_complete`: all hypotheses hold for `witCut 21 true`, reads of 2 bytes -/
example : (∃ e, openAndRead (witCut 21 true) 2 = .failedOpen e ∧ (witCut 21 true).r.errCount + 1 < 1000) ∨
    (∃ got e, openAndRead (witCut 21 true) 2 = .failedRead 1 got e ∧ e ≠ .eof ∧ got <+: dataPayload witMsg) ∨
    (1000 ≤ (witCut 21 true).r.errCount + 1 ∧ openAndRead (witCut 21 true) 2 = .panicked) :=
  cut_never_complete (witCut 21 true) witCut_idle 1 (Or.inl rfl) witMsg witMsg_shape 21 (by decide) (by decide)
    (by decide) (by decide) 2 (by decide)

/-- `witCut 21 true` with a read limit of 4 bytes — one byte less than the message: the second data frame
    would take the running sum to 5 -/
def witCutLim : Conn := { witCut 21 true with r := { (witCut 21 true).r with limit := 4 } }

def witCutLim_idle : ReaderIdle witCutLim :=
  ⟨witCut_idle.noErr, witCut_idle.rem, witCut_idle.fin, witCut_idle.wf, witCut_idle.size, witCut_idle.fuel,
   witCut_idle.hp, witCut_idle.hq⟩

/-- non-vacuity of `cut_never_complete_any_limit`: all hypotheses hold with a limit in force -/
example : (∃ e, openAndRead witCutLim 2 = .failedOpen e ∧ witCutLim.r.errCount + 1 < 1000) ∨
    (∃ got e, openAndRead witCutLim 2 = .failedRead 1 got e ∧ e ≠ .eof ∧ got <+: dataPayload witMsg) ∨
    (1000 ≤ witCutLim.r.errCount + 1 ∧ openAndRead witCutLim 2 = .panicked) :=
  cut_never_complete_any_limit witCutLim witCutLim_idle 1 (Or.inl rfl) witMsg witMsg_shape 21 (by decide) (by decide)
    (by decide) 2 (by decide)

/-- what actually happens there: the cut is inside the masking key of the second data frame, so the
    transport's end is met before the limit is consulted … -/
example : openAndRead witCutLim 2 = .failedRead 1 [0x48, 0x65, 0x6c] .unexpectedEOF := by rfl

/-- … and two bytes later (header and key of the second data frame complete, one of its two payload
    bytes missing) the limit is what refuses the message: ErrReadLimit, not completion -/
example : openAndRead { witCut 23 true with r := { (witCut 23 true).r with limit := 4 } } 2 =
    .failedRead 1 [0x48, 0x65, 0x6c] .readLimit := by rfl

/-- non-vacuity of `cut_never_complete_reachable`: additionally `CountInv` -/
example : (∃ e, openAndRead (witCut 21 true) 2 = .failedOpen e) ∨
    (∃ got e, openAndRead (witCut 21 true) 2 = .failedRead 1 got e ∧ e ≠ .eof ∧ got <+: dataPayload witMsg) :=
  cut_never_complete_reachable (witCut 21 true) witCut_idle (fun _ => rfl) 1 (Or.inl rfl) witMsg witMsg_shape 21
    (by decide) (by decide) (by decide) (by decide) 2 (by decide)

/-- what actually happens there: the first fragment's payload is delivered, then the 1006 error -/
example : openAndRead (witCut 21 true) 2 = .failedRead 1 [0x48, 0x65, 0x6c] .unexpectedEOF := by rfl

def witWhole_idle : ReaderIdle (witCut 24 false) :=
  ⟨rfl, rfl, rfl, ⟨by decide, by decide, by decide, (by intro e h; cases h)⟩, by decide, by decide,
    (by intro id h; cases h), (by intro id h; cases h)⟩

/-- non-vacuity of `whole_message_then_error`: all 24 bytes arrive, EOF afterwards; reads of 2 bytes -/
example : openAndRead (witCut 24 false) 2 = .complete 1 [0x48, 0x65, 0x6c, 0x6c, 0x6f] :=
  whole_message_then_error (witCut 24 false) witWhole_idle 1 (Or.inl rfl) witMsg witMsg_shape (by decide) rfl
    (by decide) (by decide) 2 (by decide)

def witCut_reachInv : ReachInv (witCut 21 true) := ⟨fun _ => rfl, witCut_idle.wf, witCut_idle.fuel⟩

/-- non-vacuity of `reach_inv_nextReader` -/
example : ReachInv (nextReader (witCut 21 true)).2 := reach_inv_nextReader _ witCut_reachInv

/-- non-vacuity of `reach_inv_read`: a Read(2) on the message reader just opened -/
example : ReachInv (mrRead (nextReader (witCut 21 true)).2 0 2).2 :=
  reach_inv_read _ 0 2 (by decide) (reach_inv_nextReader _ witCut_reachInv)

/-! #### compressed messages (`compressed_cut_never_complete`, `compressed_whole_complete`,
    `complete_reads_to_end_or_latched`) -/
open WS.ReaderZ WS.ZCut

/-- first frame of a compressed text message: RSV1 (set by `encZ`), non-final, payload 02 00 — an
    empty *final* stored deflate block, i.e. the deflate stream ends inside the first frame (F10) -/
def witZF : PFrame := { op := 1, fin := false, key := ⟨0x37, 0xfa, 0x21, 0x3d⟩, payload := [0x02, 0x00] }

/-- … and the final continuation frame with payload 00 -/
def witZMore : List PFrame := [{ op := 0, fin := true, key := ⟨0xa0, 0xb0, 0xc0, 0xd0⟩, payload := [0x00] }]

def witZ_shape : ZShape 1 witZF witZMore :=
  ⟨rfl, by decide, Or.inr ⟨rfl, Tail.last _ rfl rfl (by decide)⟩⟩

/-- the wire bytes towards a client (unmasked: 41 02 02 00 | 80 01 00) and towards a server -/
example : encZ false witZF ++ encAll false witZMore = [0x41, 0x02, 0x02, 0x00, 0x80, 0x01, 0x00] := by decide
example : (encZ true witZF).length = 8 ∧ (encZ true witZF ++ encAll true witZMore).length = 15 := by decide

/-- the decompressor of finding F10: asks once for 4096 raw bytes, then reports the end of the
    deflate stream; the drain that follows asks for 8192 bytes at a time -/
def witZEnv : ZEnv := ⟨[4096], true, 8192⟩

/-- a connection with compression negotiated, reader idle (a pong was handled before), buffer size
    4096; of the wire bytes of `witZF`, `witZMore` followed by `rest` only the first `cut` arrive
    (4 already buffered, the others in one chunk), then the transport ends with `term` -/
def witZConn (isServer : Bool) (rest : Bytes) (cut : Nat) (term : RErr) (together : Bool) : Conn :=
  { w := newW isServer 4096 false true,
    r := { isServer := isServer, nego := true, hlog := [.pong []],
           buf := { size := 4096, buf := ((encZ isServer witZF ++ encAll isServer witZMore ++ rest).take cut).take 4,
                    t := { chunks := [((encZ isServer witZF ++ encAll isServer witZMore ++ rest).take cut).drop 4],
                           term := term, together := together },
                    total := 16 } } }

/-- client reader: the first frame (4 bytes) and the first header byte of the second arrived, then EOF -/
def witZCut : Conn := witZConn false [] 5 .eof false

def witZCut_idle : ReaderIdle witZCut :=
  ⟨rfl, rfl, rfl, ⟨by decide, by decide, by decide, (by intro e h; cases h)⟩, by decide, by decide,
    (by intro id h; cases h), (by intro id h; cases h)⟩

example : witZCut.r.buf.pending = [0x41, 0x02, 0x02, 0x00, 0x80] := by decide

/-- non-vacuity of `compressed_cut_never_complete`: all hypotheses hold for `witZCut`, cut = 5 of 7 -/
example : (∃ e c1, nextReader witZCut = (.err e, c1)) ∨
    (∃ c1 rid, nextReader witZCut = (.msg 1 rid true, c1) ∧
      ∃ raw e c2, zReadToEnd c1 rid witZEnv = ((raw, .failed e), c2)) :=
  compressed_cut_never_complete witZCut witZCut_idle (fun _ => rfl) rfl 1 (Or.inl rfl) witZF witZMore witZ_shape 5
    (by decide) (by decide) (by decide) (by decide) witZEnv (by decide) (by decide)

/-- what actually happens there: NextReader announces the compressed text message; the decompressor
    is handed the two payload bytes and reports the end of the deflate stream; the drain then hits the
    cut header of the second frame: the 1006 unexpected-EOF close error, not completion -/
example : (nextReader witZCut).1 = .msg 1 0 true := by rfl
example : (zReadToEnd (nextReader witZCut).2 0 witZEnv).1 = ([0x02, 0x00], .failed .unexpectedEOF) := by
  decide +kernel

/-- server reader (masked frames, 8 + 7 bytes): the first frame and the first header byte of the
    second arrived, then the transport fails with an error of its own, reported together with the
    last bytes -/
def witZCutS : Conn := witZConn true [] 9 (.transport 7) true

def witZCutS_idle : ReaderIdle witZCutS :=
  ⟨rfl, rfl, rfl, ⟨by decide, by decide, by decide, (by intro e h; cases h)⟩, by decide, by decide,
    (by intro id h; cases h), (by intro id h; cases h)⟩

/-- non-vacuity of `compressed_cut_never_complete`, second instance (server side, transport error,
    decompressor asking for 1 byte and then 4096 bytes, drain of 512) -/
example : (∃ e c1, nextReader witZCutS = (.err e, c1)) ∨
    (∃ c1 rid, nextReader witZCutS = (.msg 1 rid true, c1) ∧
      ∃ raw e c2, zReadToEnd c1 rid ⟨[1, 4096], true, 512⟩ = ((raw, .failed e), c2)) :=
  compressed_cut_never_complete witZCutS witZCutS_idle (fun _ => rfl) rfl 1 (Or.inl rfl) witZF witZMore witZ_shape 9
    (by decide) (by decide) (by decide) (by decide) ⟨[1, 4096], true, 512⟩ (by decide) (by decide)

example : (nextReader witZCutS).1 = .msg 1 0 true := by rfl
example : (zReadToEnd (nextReader witZCutS).2 0 ⟨[1, 4096], true, 512⟩).1 = ([0x02, 0x00], .failed (.transport 7)) := by
  decide +kernel

/-- client reader: the same message arrived whole, followed by one stray byte (the first header byte
    of the next frame), then EOF -/
def witZWhole : Conn := witZConn false [0x81] 8 .eof true

def witZWhole_idle : ReaderIdle witZWhole :=
  ⟨rfl, rfl, rfl, ⟨by decide, by decide, by decide, (by intro e h; cases h)⟩, by decide, by decide,
    (by intro id h; cases h), (by intro id h; cases h)⟩

example : witZWhole.r.buf.pending = [0x41, 0x02, 0x02, 0x00, 0x80, 0x01, 0x00, 0x81] := by decide

/-- non-vacuity of `compressed_whole_complete`, `reqs = [4096]` (the decompressor of F10) -/
example : ∃ c1 rid, nextReader witZWhole = (.msg 1 rid true, c1) ∧
    ∃ raw c2, zReadToEnd c1 rid ⟨[4096], true, 8192⟩ = ((raw, .complete), c2) ∧
      raw <+: witZF.payload ++ dataPayload witZMore ∧ ReaderIdle c2 ∧ c2.r.buf.pending = [0x81] :=
  compressed_whole_complete witZWhole witZWhole_idle rfl 1 (Or.inl rfl) witZF witZMore witZ_shape [0x81]
    (by decide) (Or.inr (by decide)) (by decide) (by decide) [4096] 8192 (by decide) (by decide)

/-- … and `reqs = []`: the decompressor reports the end at once, the whole message is drained -/
example : ∃ c1 rid, nextReader witZWhole = (.msg 1 rid true, c1) ∧
    ∃ raw c2, zReadToEnd c1 rid ⟨[], true, 8192⟩ = ((raw, .complete), c2) ∧
      raw <+: witZF.payload ++ dataPayload witZMore ∧ ReaderIdle c2 ∧ c2.r.buf.pending = [0x81] :=
  compressed_whole_complete witZWhole witZWhole_idle rfl 1 (Or.inl rfl) witZF witZMore witZ_shape [0x81]
    (by decide) (Or.inr (by decide)) (by decide) (by decide) [] 8192 (by simp) (by decide)

/-- what actually happens there -/
example : (nextReader witZWhole).1 = .msg 1 0 true := by rfl
example : (zReadToEnd (nextReader witZWhole).2 0 ⟨[4096], true, 8192⟩).1 = ([0x02, 0x00], .complete) ∧
    (zReadToEnd (nextReader witZWhole).2 0 ⟨[4096], true, 8192⟩).2.r.buf.pending = [0x81] := by
  decide +kernel
example : (zReadToEnd (nextReader witZWhole).2 0 ⟨[], true, 8192⟩).1 = ([], .complete) ∧
    (zReadToEnd (nextReader witZWhole).2 0 ⟨[], true, 8192⟩).2.r.buf.pending = [0x81] := by
  decide +kernel

/-- non-vacuity of `complete_reads_to_end_or_latched`: the state after NextReader on `witZWhole`
    (a message reader is attached), the decompressor of F10; the decompressing reader reports the
    message complete … -/
example : (zReadToEnd (nextReader witZWhole).2 0 witZEnv).2.r.msgReader = none ∨
    ((nextReader witZWhole).2.r.buf.t.together = true ∧
      (zReadToEnd (nextReader witZWhole).2 0 witZEnv).2.r.readErr = some .eof ∧
      (zReadToEnd (nextReader witZWhole).2 0 witZEnv).2.r.remaining ≤ 0 ∧
      (zReadToEnd (nextReader witZWhole).2 0 witZEnv).2.r.final = true) :=
  complete_reads_to_end_or_latched (nextReader witZWhole).2 0 (by rfl) witZEnv [0x02, 0x00]
    (zReadToEnd (nextReader witZWhole).2 0 witZEnv).2 (Prod.ext (by decide +kernel) rfl)

/-- … and it is the first alternative that holds: the message reader is detached -/
example : (zReadToEnd (nextReader witZWhole).2 0 witZEnv).2.r.msgReader = none := by decide +kernel

/-- the second alternative is not redundant: `WS.ZCut.complete_reads_to_end_counterexample`
    (`cxC`: client reader one payload byte before the end of the final frame of a compressed message,
    buffer size 1, the byte arrives together with io.EOF; `cxE` = ⟨[4096], true, 32768⟩) satisfies the
    hypotheses, the message reader stays attached … -/
example : ZCut.cxC.r.msgReader = some 0 ∧ (zReadToEnd ZCut.cxC 0 cxE).1 = ([7], .complete) ∧
    (zReadToEnd ZCut.cxC 0 cxE).2.r.msgReader = some 0 :=
  ⟨complete_reads_to_end_counterexample.1, complete_reads_to_end_counterexample.2.2.2.1,
    complete_reads_to_end_counterexample.2.2.2.2⟩

/-- … so the theorem, instantiated on it, yields the second alternative: io.EOF latched after the last
    byte of the final frame on a `together` transport -/
example : ZCut.cxC.r.buf.t.together = true ∧ (zReadToEnd ZCut.cxC 0 cxE).2.r.readErr = some .eof ∧
    (zReadToEnd ZCut.cxC 0 cxE).2.r.remaining ≤ 0 ∧ (zReadToEnd ZCut.cxC 0 cxE).2.r.final = true := by
  rcases complete_reads_to_end_or_latched ZCut.cxC 0 complete_reads_to_end_counterexample.1 cxE [7]
    (zReadToEnd ZCut.cxC 0 cxE).2 (Prod.ext complete_reads_to_end_counterexample.2.2.2.1 rfl) with h | h
  · rw [complete_reads_to_end_counterexample.2.2.2.2] at h; cases h
  · exact h

section Program
open WS.ReadProgram WS.CutProgram

/-- a server reader facing the whole message `witMsg` ("Hello", 24 wire bytes) and then the first 21
    bytes of the same message again, then EOF together with the last bytes -/
def witTwo : Conn :=
  { w := newW true 4096 false false,
    r := { isServer := true, nego := false,
           buf := { size := 4096, buf := (encAll true witMsg).take 5,
                    t := { chunks := [(encAll true witMsg).drop 5 ++ (encAll true witMsg).take 9, ((encAll true witMsg).take 21).drop 9],
                           term := .eof, together := true },
                    total := 45 } } }

def witTwo_idle : ReaderIdle witTwo :=
  ⟨rfl, rfl, rfl, ⟨by decide, by decide, by decide, (by intro e h; cases h)⟩, by decide, by decide,
    (by intro id h; cases h), (by intro id h; cases h)⟩

/-- a program that reads the first message to its end, opens the second, reads on after the failure and
    asks for yet another message -/
def witProg : List ROp := [.next, .read 9, .read 9, .read 9, .next, .read 9, .read 9, .read 0, .next, .read 3]

/-- non-vacuity of `cut_program_never_complete_fits_partial`: all hypotheses hold -/
example : List.Sublist (completed (runProg witProg witTwo none).1) [(1, dataPayload witMsg)] :=
  cut_program_never_complete_fits_partial witTwo witTwo_idle [(1, witMsg)]
    (by
      intro m hm
      simp only [List.mem_cons, List.mem_nil_iff, or_false] at hm
      subst hm
      exact ⟨Or.inl rfl, witMsg_shape, by decide, Or.inl (by decide)⟩)
    1 (Or.inl rfl) witMsg witMsg_shape (by decide) 21 (by decide) (by decide) (Or.inr (by decide)) witProg

/-- what the trace reports there: exactly the first message, complete; the second never -/
example : completed (runProg witProg witTwo none).1 = [(1, [0x48, 0x65, 0x6c, 0x6c, 0x6f])] := by decide +kernel

end Program

end NonVacuity

end WS.Props.C05
