import WS.Lemmas.SrcLaw
import WS.Lemmas.ReaderRejects
import WS.Lemmas.CutLogic
import WS.Lemmas.ReaderMore
/-
  C05 — No silent truncation (source level): a cut stream is reported as an error exactly when the
  bytes asked for did not all arrive; what did arrive is delivered unchanged and in order. The
  reader-level statements (sticky error, no data after an error) are added from
  WS/Lemmas/ReaderRejects.lean. Finding F1 (EOF together with the last bytes of a *non-final*
  frame) is a defect of the code and is recorded in KNOWN_FINDINGS.txt.
-/
namespace WS.Props.C05
open WS WS.SrcLaw

/-- a header cut short: Conn.read reports the terminal error (io.EOF mapped to the 1006
    unexpected-EOF CloseError), never a short header as if it were complete -/
theorem header_cut_is_error (b : Buf) (h : WF b) (n : Nat) (hn : n ≤ b.size) (hp : b.pending.length < n) :
    (b.take n).1 = b.pending ∧ (b.take n).2.1 = some (mapEOF b.t.term) ∧
    (b.take n).2.2.pending = [] ∧ WF (b.take n).2.2 ∧ Same b (b.take n).2.2 :=
  take_short b h n hn hp

/-- a skipped frame remainder cut short is an error too -/
theorem skip_cut_is_error (b : Buf) (h : WF b) (n : Nat) (hp : b.pending.length < n) :
    (b.skip n).1 = some b.t.term ∧ (b.skip n).2.pending = [] ∧ WF (b.skip n).2 ∧ Same b (b.skip n).2 :=
  skip_short b h n hp

/-- the terminal error is permanent at the source: once everything was delivered every Read
    reports it again (scripted transports are sticky) -/
theorem error_repeats (b : Buf) (h : WF b) (k : Nat) (hk : 0 < k) (he : b.pending = []) :
    (b.read k).2.1 = some b.t.term ∧ (b.read k).2.2.pending = [] := by
  have := read_spec b h k hk
  exact ⟨this.2.2.2.2.1 he, (this.2.2.2.1 _ (this.2.2.2.2.1 he)).1⟩

/-- once NextReader has returned an error it returns the same error on every later call and delivers
    nothing further (up to the documented 1000-call panic) -/
theorem error_is_permanent (c : Conn) (e : RErr) (he : c.r.readErr = some e) (hn : c.r.errCount + 1 < 1000) :
    ∃ c', nextReader c = (.err e, c') ∧ c'.r.readErr = some e ∧ c'.w = c.w ∧ c'.r.hlog = c.r.hlog ∧
      c'.r.buf = c.r.buf ∧ c'.r.errCount = c.r.errCount + 1 :=
  ReaderRejects.nextReader_sticky c e he hn

theorem no_data_after_error (c : Conn) (e : RErr) (he : c.r.readErr = some e) (rid k : Nat) :
    ((mrRead c rid k).1).1 = [] ∧ ((mrRead c rid k).1).2.isSome ∧ (mrRead c rid k).2.w = c.w :=
  ReaderRejects.mrRead_after_error c e he rid k

/-- non-vacuity: two bytes arrive, four are needed -/
example :
    let b : Buf := { size := 16, t := { chunks := [[1, 2]], term := .eof } }
    (b.take 4).2.1 = some .unexpectedEOF := by decide

open WS.Codec WS.ReaderDecodes WS.CutLogic WS.ReaderMore
/-- cut_never_complete: the transport ends (EOF, error or timeout; alone or together with the last
    bytes) at ANY byte offset strictly inside a conformant message, for any fragmentation, interleaved
    control frames, chunking, buffer size and read size: the message is never reported complete.
    Either NextReader fails, or the message reader fails with a non-nil error other than io.EOF after
    delivering only a prefix of the payload (or NextReader raises the documented panic of the 1000th
    failed call). -/
theorem cut_never_complete (c : Conn) (hc : ReaderIdle c) (t : Nat) (ht : t = 1 ∨ t = 2)
    (fs : List PFrame)
    (hs : MsgShape t fs) (cut : Nat) (hcut : cut < (encAll c.r.isServer fs).length)
    (hp : c.r.buf.pending = (encAll c.r.isServer fs).take cut)
    (hsz : (dataPayload fs).length < 2 ^ 62) (hlim : c.r.limit ≤ 0)
    (k : Nat) (hk : 0 < k) :
    (∃ e, openAndRead c k = .failedOpen e ∧ c.r.errCount + 1 < 1000) ∨
    (∃ got e, openAndRead c k = .failedRead t got e ∧ e ≠ .eof ∧ got <+: dataPayload fs) ∨
    (1000 ≤ c.r.errCount + 1 ∧ openAndRead c k = .panicked) := by
  first | exact CutLogic.cut_never_complete_or_panic_partial .. | (apply CutLogic.cut_never_complete_or_panic_partial <;> assumption)


/-- the same on reachable reader states (the failed-call counter is 0 while no error is latched —
    `reach_inv_nextReader`, `reach_inv_read` below): no panic alternative -/
theorem cut_never_complete_reachable (c : Conn) (hc : ReaderIdle c) (hi : CountInv c) (t : Nat) (ht : t = 1 ∨ t = 2)
    (fs : List PFrame) (hs : MsgShape t fs) (cut : Nat) (hcut : cut < (encAll c.r.isServer fs).length)
    (hp : c.r.buf.pending = (encAll c.r.isServer fs).take cut)
    (hsz : (dataPayload fs).length < 2 ^ 62) (hlim : c.r.limit ≤ 0) (k : Nat) (hk : 0 < k) :
    (∃ e, openAndRead c k = .failedOpen e) ∨
    (∃ got e, openAndRead c k = .failedRead t got e ∧ e ≠ .eof ∧ got <+: dataPayload fs) := by
  have h0 : c.r.errCount = 0 := hi hc.noErr
  exact CutLogic.cut_never_complete_partial c hc t ht fs hs cut hcut hp hsz hlim (by omega) k hk

/-- … and when the whole message arrived before the transport ended it is reported complete and
    byte-identical -/
theorem whole_message_then_error (c : Conn) (hc : ReaderIdle c) (t : Nat) (ht : t = 1 ∨ t = 2) (fs : List PFrame)
    (hs : MsgShape t fs)
    (hp : c.r.buf.pending = encAll c.r.isServer fs) (htog : c.r.buf.t.together = false)
    (hsz : (dataPayload fs).length < 2 ^ 62) (hlim : c.r.limit ≤ 0)
    (k : Nat) (hk : 0 < k) :
    openAndRead c k = .complete t (dataPayload fs) := by
  first | exact CutLogic.whole_message_then_error .. | (apply CutLogic.whole_message_then_error <;> assumption)


/-- the reachable-state invariant used above is preserved by NextReader and by Read -/
theorem reach_inv_nextReader (c : Conn) (h : ReachInv c) : ReachInv (nextReader c).2 := by
  first | exact ReaderMore.nextReader_reachInv_partial .. | (apply ReaderMore.nextReader_reachInv_partial <;> assumption)

theorem reach_inv_read (c : Conn) (rid k : Nat) (hk : 0 < k) (h : ReachInv c) : ReachInv (mrRead c rid k).2 := by
  first | exact ReaderMore.mrRead_reachInv .. | (apply ReaderMore.mrRead_reachInv <;> assumption)

end WS.Props.C05
