import WS.Lemmas.HttpLogic
import WS.Gen.Skeletons
import WS.Gen.Tables
import WS.Lemmas.Robust
import WS.Lemmas.RequestLogic
/-
  C12 — Server handshake: upgrade iff the request is a valid opening handshake; correct 101.
-/
namespace WS.Props.C12
open WS WS.Http WS.Server WS.Client WS.HttpLogic

/-- upgrade_iff: Upgrade succeeds exactly when every condition of the chain holds -/
theorem upgrade_iff (u : UCfg) (r : Req) (rh : RespHdr) (oh : Option Bytes) (hj : Hijack) :
    (∃ a, upgrade u r rh oh hj = .ok a) ↔
      (tokenListContainsValue (r.values "Connection") (strBytes "upgrade") = true ∧
       tokenListContainsValue (r.values "Upgrade") (strBytes "websocket") = true ∧
       r.method = strBytes "GET" ∧
       tokenListContainsValue (r.values "Sec-Websocket-Version") (strBytes "13") = true ∧
       rh.has "Sec-Websocket-Extensions" = false ∧
       (match u.checkOrigin with | some b => b | none => checkSameOrigin r oh) = true ∧
       isValidChallengeKey (r.get "Sec-Websocket-Key") = true ∧
       hj.ok = true) := by
  first | exact HttpLogic.upgrade_ok_iff .. | (apply HttpLogic.upgrade_ok_iff <;> assumption)

/-- reject_status: 403 exactly for the origin, 426 exactly for a missing Upgrade token (and then the Connection token was present) -/
theorem reject_status (u : UCfg) (r : Req) (rh : RespHdr) (oh : Option Bytes) (hj : Hijack) (e : Reject)
    (h : upgrade u r rh oh hj = .error e) :
    (e.status = 403 ↔ e = .origin) ∧ (e.status = 426 ↔ e = .noUpgradeWebsocket) ∧
    (e = .noUpgradeWebsocket → tokenListContainsValue (r.values "Connection") (strBytes "upgrade") = true ∧
        tokenListContainsValue (r.values "Upgrade") (strBytes "websocket") = false) ∧
    (e = .origin → (match u.checkOrigin with | some b => b | none => checkSameOrigin r oh) = false) := by
  first | exact HttpLogic.reject_status .. | (apply HttpLogic.reject_status <;> assumption)

/-- deflate_announced_iff: compression is on (and announced) iff the server enabled it and the client offered an extension named permessage-deflate -/
theorem deflate_announced_iff (u : UCfg) (r : Req) (rh : RespHdr) (oh : Option Bytes) (hj : Hijack) (b : Bytes) (a : Accepted)
    (h : upgrade u r rh oh hj = .ok (b, a)) :
    a.compress = (u.enableCompression &&
      (parseExtensions (r.values "Sec-Websocket-Extensions")).any (fun e => e.name == strBytes "permessage-deflate")) := by
  first | exact HttpLogic.compress_iff .. | (apply HttpLogic.compress_iff <;> assumption)

/-- the selected subprotocol was offered by the client and is supported by the server -/
theorem subprotocol_offered_and_supported (u : UCfg) (r : Req) (rh : RespHdr) (server : List Bytes) (hs : u.subprotocols = some server)
    (hne : selectSubprotocol u r rh ≠ []) :
    selectSubprotocol u r rh ∈ server ∧ selectSubprotocol u r rh ∈ subprotocols (r.get "Sec-Websocket-Protocol") := by
  first | exact HttpLogic.subprotocol_sound .. | (apply HttpLogic.subprotocol_sound <;> assumption)

/-- no_injection: whatever bytes the application supplies as header values or as subprotocol, the 101 has exactly the expected number of lines -/
theorem no_injection (accept sub : Bytes) (compress : Bool) (rh : RespHdr)
    (ha : ∀ b ∈ accept, b ≠ 13)
    (hk : ∀ l, rh = some l → ∀ p ∈ l, ∀ b ∈ p.1, b ≠ 13) :
    (splitCRLF (response101 accept sub compress rh) []).length =
      4 + (if sub.isEmpty then 0 else 1) + (if compress then 1 else 0) + rhLines rh + 2 := by
  first | exact HttpLogic.no_injection .. | (apply HttpLogic.no_injection <;> assumption)

/-- the accept token cannot break a line -/
theorem base64_no_crlf (xs : Bytes) : ∀ b ∈ Spec.base64 xs, b ≠ 13 ∧ b ≠ 10 := by
  first | exact HttpLogic.base64_no_crlf .. | (apply HttpLogic.base64_no_crlf <;> assumption)

theorem scrub_no_ctl (v : Bytes) : ∀ b ∈ scrub v, 31 < b.toNat := by
  first | exact HttpLogic.scrub_no_ctl .. | (apply HttpLogic.scrub_no_ctl <;> assumption)

/-- accept_digest: the Accept value is base64(SHA-1(key ++ GUID)) with the GUID found in today's
    source; checked in the kernel on the example of RFC 6455 §1.3 -/
theorem accept_digest_rfc_vector :
    Spec.acceptKey Gen.keyGUID (strBytes "dGhlIHNhbXBsZSBub25jZQ==") = strBytes "s3pPLMBiTxaQ9kYGzzhZRbK+xOo=" := by
  decide +kernel

/-- the rejection chain recognised in today's Upgrade is the modelled one, in this order -/
theorem upgrade_chain_as_modelled :
    Gen.upgradeChain =
      ["!tokenListContainsValue(r.Header, \"Connection\", \"upgrade\") => http.StatusBadRequest",
       "!tokenListContainsValue(r.Header, \"Upgrade\", \"websocket\") => http.StatusUpgradeRequired",
       "r.Method != http.MethodGet => http.StatusMethodNotAllowed",
       "!tokenListContainsValue(r.Header, \"Sec-Websocket-Version\", \"13\") => http.StatusBadRequest",
       "_, ok := responseHeader[\"Sec-Websocket-Extensions\"]; ok => http.StatusInternalServerError",
       "!checkOrigin(r) => http.StatusForbidden",
       "!isValidChallengeKey(challengeKey) => http.StatusBadRequest",
       "err != nil => http.StatusInternalServerError"] := by decide +kernel

open WS.Robust
/-- contains_sound (arbitrary byte strings): if the list scanner says a header line contains the
    token, then some comma-separated element of the line, trimmed of SP/HT, is a token that equals it
    under ASCII folding — "websockets" or "xupgrade" can never pass -/
theorem contains_sound (s v : Bytes) (h : lineContains s v = true) :
    ∃ e ∈ elements s, e ≠ [] ∧ (∀ b ∈ e, isTokenOctet b = true) ∧ equalASCIIFold e v = true := by
  first | exact Robust.contains_sound .. | (apply Robust.contains_sound <;> assumption)

/-- contains_complete (well-formed 1#token lists): the scanner finds the token whenever an element
    equals it -/
theorem contains_complete (s v : Bytes)
    (hwf : ∀ e ∈ elements s, e ≠ [] ∧ ∀ b ∈ e, isTokenOctet b = true)
    (h : ∃ e ∈ elements s, equalASCIIFold e v = true) :
    lineContains s v = true := by
  first | exact Robust.contains_complete .. | (apply Robust.contains_complete <;> assumption)

/-- the exact lines of the 101 response (no application response header): status line, Upgrade,
    Connection, Accept, optional scrubbed subprotocol, optional extension announcement -/
theorem response101_lines (accept sub : Bytes) (compress : Bool)
    (ha : ∀ b ∈ accept, b ≠ 13) :
    splitCRLF (response101 accept sub compress none) [] =
      [strBytes "HTTP/1.1 101 Switching Protocols", strBytes "Upgrade: websocket", strBytes "Connection: Upgrade",
       strBytes "Sec-WebSocket-Accept: " ++ accept] ++
      (if sub.isEmpty then [] else [strBytes "Sec-WebSocket-Protocol: " ++ scrub sub]) ++
      (if compress then [strBytes "Sec-WebSocket-Extensions: permessage-deflate; server_no_context_takeover; client_no_context_takeover"] else []) ++
      [[], []] := by
  first | exact RequestLogic.response101_lines .. | (apply RequestLogic.response101_lines <;> assumption)

/-- no hijack on failure: a request that is refused for any reason other than the Hijack call itself
    is refused whatever Hijack would have answered — the decision is taken before the connection is
    taken over (in the model the hijack outcome `hj` is an environment answer consulted only after
    every check has passed), so a refused handshake leaves the connection with net/http -/
theorem rejected_before_hijack (u : UCfg) (r : Req) (rh : RespHdr) (oh : Option Bytes) (hj hj' : Hijack) (e : Reject)
    (h : upgrade u r rh oh hj = .error e) (he : e ≠ .hijack) :
    upgrade u r rh oh hj' = .error e := by
  unfold upgrade at h ⊢
  repeat' split at h
  all_goals (simp_all; done)

/-- … and a failing Hijack is reported as such (500), never as an upgrade -/
theorem hijack_failure_rejected (u : UCfg) (r : Req) (rh : RespHdr) (oh : Option Bytes) (hj : Hijack) (hf : hj.ok = false) :
    ∀ a, upgrade u r rh oh hj ≠ .ok a := by
  intro a h
  have := (upgrade_iff u r rh oh hj).mp ⟨a, h⟩
  simp [hf] at this

/-- error precedence (what the status of a request with several faults names): with the `upgrade` token
    in Connection and no `websocket` token in Upgrade the answer is 426, whatever else is wrong with
    the request (method, version, key, origin, hijack) -/
theorem missing_upgrade_token_is_426 (u : UCfg) (r : Req) (rh : RespHdr) (oh : Option Bytes) (hj : Hijack)
    (hc : tokenListContainsValue (r.values "Connection") (strBytes "upgrade") = true)
    (hu : tokenListContainsValue (r.values "Upgrade") (strBytes "websocket") = false) :
    upgrade u r rh oh hj = .error .noUpgradeWebsocket ∧ Reject.noUpgradeWebsocket.status = 426 := by
  unfold upgrade
  simp [hc, hu, Reject.status]

/-- … and without the `upgrade` token in Connection it is 400, whatever else is wrong -/
theorem missing_connection_token_is_400 (u : UCfg) (r : Req) (rh : RespHdr) (oh : Option Bytes) (hj : Hijack)
    (hc : tokenListContainsValue (r.values "Connection") (strBytes "upgrade") = false) :
    upgrade u r rh oh hj = .error .noConnectionUpgrade ∧ Reject.noConnectionUpgrade.status = 400 := by
  unfold upgrade
  simp [hc, Reject.status]

/-! ### non-vacuity -/
section NonVacuity
set_option linter.defProp false

/-- the opening handshake of RFC 6455 §1.3 as a browser sends it: GET, Connection: keep-alive, Upgrade;
    Upgrade: websocket; version 13; the sample key; Origin = the site itself; two subprotocols and a
    permessage-deflate offer (r.Header has canonical keys) -/
def witReq : Req :=
  { method := strBytes "GET", host := strBytes "server.example.com",
    hdr := [(strBytes "Connection", [strBytes "keep-alive, Upgrade"]),
            (strBytes "Upgrade", [strBytes "websocket"]),
            (strBytes "Sec-Websocket-Version", [strBytes "13"]),
            (strBytes "Sec-Websocket-Key", [strBytes "dGhlIHNhbXBsZSBub25jZQ=="]),
            (strBytes "Origin", [strBytes "http://server.example.com"]),
            (strBytes "Sec-Websocket-Protocol", [strBytes "superchat, chat"]),
            (strBytes "Sec-Websocket-Extensions", [strBytes "permessage-deflate; client_max_window_bits"])] }

/-- an Upgrader with two subprotocols, compression enabled, default origin policy, 4096-byte buffers -/
def witU : UCfg :=
  { subprotocols := some [strBytes "chat", strBytes "superchat"], enableCompression := true, checkOrigin := none,
    readBufferSize := 4096, writeBufferSize := 4096, pool := false, handshakeTimeout := true }

/-- url.Parse(origin).Host of `witReq` -/
def witOh : Option Bytes := some (strBytes "server.example.com")

/-- a successful Hijack with net/http's 4096-byte bufio pair, nothing buffered -/
def witHj : Hijack := { ok := true, brSize := 4096, buffered := 0, availLen := 4096 }

/-- the Accept value of the RFC sample key -/
def witAccept : Bytes := strBytes "s3pPLMBiTxaQ9kYGzzhZRbK+xOo="

/-- witness for `upgrade_iff`: the eight conditions of the chain hold for the RFC sample request -/
def witReq_chain :
    tokenListContainsValue (witReq.values "Connection") (strBytes "upgrade") = true ∧
    tokenListContainsValue (witReq.values "Upgrade") (strBytes "websocket") = true ∧
    witReq.method = strBytes "GET" ∧
    tokenListContainsValue (witReq.values "Sec-Websocket-Version") (strBytes "13") = true ∧
    RespHdr.has none "Sec-Websocket-Extensions" = false ∧
    (match witU.checkOrigin with | some b => b | none => checkSameOrigin witReq witOh) = true ∧
    isValidChallengeKey (witReq.get "Sec-Websocket-Key") = true ∧
    witHj.ok = true := by
  refine ⟨?_, ?_, ?_, ?_, ?_, ?_, ?_, ?_⟩ <;> decide +kernel

/-- non-vacuity of `upgrade_iff` (right to left): the right-hand side is satisfiable by a realistic
    request, and hence `upgrade` = .ok -/
def witReq_ok : ∃ a, upgrade witU witReq none witOh witHj = .ok a :=
  (upgrade_iff witU witReq none witOh witHj).2 witReq_chain
/-- non-vacuity of `upgrade_iff`: the existence statement itself -/
example : ∃ a, upgrade witU witReq none witOh witHj = .ok a := witReq_ok

/-- non-vacuity of `upgrade_iff`, concretely: `upgrade` answers the RFC sample request with the 101
    of the RFC (Accept s3pPLMBiTxaQ9kYGzzhZRbK+xOo=, via `accept_digest_rfc_vector`), subprotocol
    "superchat" and the permessage-deflate announcement -/
def witReq_ok_bytes :
    ∃ a, upgrade witU witReq none witOh witHj = .ok (response101 witAccept (strBytes "superchat") true none, a) := by
  have hk : witReq.get "Sec-Websocket-Key" = strBytes "dGhlIHNhbXBsZSBub25jZQ==" := by decide +kernel
  have hs : selectSubprotocol witU witReq none = strBytes "superchat" := by decide +kernel
  have hc : (witU.enableCompression &&
      (parseExtensions (witReq.values "Sec-Websocket-Extensions")).any (fun e => e.name == strBytes "permessage-deflate")) = true := by
    decide +kernel
  unfold upgrade
  rw [if_neg (by decide +kernel), if_neg (by decide +kernel), if_neg (by decide +kernel), if_neg (by decide +kernel),
      if_neg (by decide +kernel), if_neg (by decide +kernel), if_neg (by decide +kernel)]
  simp only [hk, hs, hc, accept_digest_rfc_vector]
  rw [if_neg (by decide +kernel)]
  exact ⟨_, rfl⟩

/-- an `Except` value that evaluates to `.error e` is `.error e` (lets the kernel run `upgrade` up to the rejection) -/
def witErrOf {α : Type} (x : Except Reject α) (e : Reject)
    (h : (match x with | .error e' => decide (e' = e) | .ok _ => false) = true) : x = .error e := by
  cases x with
  | error e' => simpa using h
  | ok a => simp at h

/-- the same handshake sent by a page of another site -/
def witReqCross : Req :=
  { witReq with hdr := [(strBytes "Connection", [strBytes "keep-alive, Upgrade"]),
            (strBytes "Upgrade", [strBytes "websocket"]),
            (strBytes "Sec-Websocket-Version", [strBytes "13"]),
            (strBytes "Sec-Websocket-Key", [strBytes "dGhlIHNhbXBsZSBub25jZQ=="]),
            (strBytes "Origin", [strBytes "https://evil.example.org"])] }

/-- witness for `reject_status`: the cross-origin request is rejected for its origin -/
def witReqCross_rejected : upgrade witU witReqCross none (some (strBytes "evil.example.org")) witHj = .error .origin :=
  witErrOf _ _ (by decide +kernel)
/-- non-vacuity of `reject_status` (403): the hypothesis holds with `e = .origin`, and the theorem applies -/
example : Reject.origin.status = 403 ∧
    (match witU.checkOrigin with | some b => b | none => checkSameOrigin witReqCross (some (strBytes "evil.example.org"))) = false :=
  have h := reject_status witU witReqCross none (some (strBytes "evil.example.org")) witHj .origin witReqCross_rejected
  ⟨h.1.2 rfl, h.2.2.2 rfl⟩

/-- an HTTP/1.1 upgrade attempt to another protocol: Connection: Upgrade but Upgrade: h2c -/
def witReqH2c : Req :=
  { method := strBytes "GET", host := strBytes "server.example.com",
    hdr := [(strBytes "Connection", [strBytes "Upgrade, HTTP2-Settings"]),
            (strBytes "Upgrade", [strBytes "h2c"]),
            (strBytes "Http2-Settings", [strBytes "AAMAAABkAAQAAP__"])] }

/-- witness for `reject_status`: the h2c request is rejected for the missing websocket token -/
def witReqH2c_rejected : upgrade witU witReqH2c none none witHj = .error .noUpgradeWebsocket :=
  witErrOf _ _ (by decide +kernel)
/-- non-vacuity of `reject_status` (426): the hypothesis holds with `e = .noUpgradeWebsocket`, and the theorem applies -/
example : Reject.noUpgradeWebsocket.status = 426 ∧
    tokenListContainsValue (witReqH2c.values "Connection") (strBytes "upgrade") = true ∧
    tokenListContainsValue (witReqH2c.values "Upgrade") (strBytes "websocket") = false :=
  have h := reject_status witU witReqH2c none none witHj .noUpgradeWebsocket witReqH2c_rejected
  ⟨h.2.1.2 rfl, h.2.2.1 rfl⟩

/-- non-vacuity of `deflate_announced_iff`: the hypothesis `upgrade … = .ok (b, a)` is satisfiable (by
    `witReq_ok`), and for that result the theorem says compression is on: the server enabled it and the
    client offered permessage-deflate -/
example : ∃ b a, upgrade witU witReq none witOh witHj = .ok (b, a) ∧ a.compress = true := by
  obtain ⟨⟨b, a⟩, h⟩ := witReq_ok
  refine ⟨b, a, h, ?_⟩
  rw [deflate_announced_iff witU witReq none witOh witHj b a h]
  decide +kernel

/-- non-vacuity of `deflate_announced_iff` (negative side): same request, compression not enabled on the server -/
example : ∃ b a, upgrade { witU with enableCompression := false } witReq none witOh witHj = .ok (b, a) ∧ a.compress = false := by
  obtain ⟨⟨b, a⟩, h⟩ := (upgrade_iff { witU with enableCompression := false } witReq none witOh witHj).2 witReq_chain
  refine ⟨b, a, h, ?_⟩
  rw [deflate_announced_iff _ witReq none witOh witHj b a h]
  decide +kernel

/-- witness for `subprotocol_offered_and_supported`: the server supports ["chat", "superchat"], the
    client offers "superchat, chat"; the client's first choice is selected -/
def witSub_selected : selectSubprotocol witU witReq none = strBytes "superchat" := by decide +kernel
/-- non-vacuity of `subprotocol_offered_and_supported`: both hypotheses hold, and the theorem applies -/
example : selectSubprotocol witU witReq none ∈ [strBytes "chat", strBytes "superchat"] ∧
    selectSubprotocol witU witReq none ∈ subprotocols (witReq.get "Sec-Websocket-Protocol") :=
  subprotocol_offered_and_supported witU witReq none [strBytes "chat", strBytes "superchat"] rfl
    (by rw [witSub_selected]; decide +kernel)

/-- witness for `no_injection` / `response101_lines`: no CR in the Accept value -/
def witAccept_noCR : ∀ b ∈ witAccept, b ≠ 13 := by decide +kernel

/-- an application response header with two entries (three values) -/
def witRh : RespHdr :=
  some [(strBytes "Set-Cookie", [strBytes "session=abc123; HttpOnly", strBytes "theme=dark"]),
        (strBytes "X-Request-Id", [strBytes "42"])]
/-- witness for `no_injection`: no CR in the header names -/
def witRh_noCR : ∀ l, witRh = some l → ∀ p ∈ l, ∀ b ∈ p.1, b ≠ 13 := by
  intro l h
  cases h
  decide +kernel

/-- non-vacuity of `no_injection`: Accept of the RFC sample, subprotocol "superchat", compression on,
    two application headers with three values: 4 + 1 + 1 + 3 + 2 lines -/
example : (splitCRLF (response101 witAccept (strBytes "superchat") true witRh) []).length =
    4 + (if (strBytes "superchat").isEmpty then 0 else 1) + (if true then 1 else 0) + rhLines witRh + 2 :=
  no_injection witAccept (strBytes "superchat") true witRh witAccept_noCR witRh_noCR
/-- an application header value and a subprotocol that try to inject a line -/
def witRhEvil : RespHdr := some [(strBytes "X-App", [strBytes "a\r\nSet-Cookie: evil=1"])]
/-- witness for `no_injection`: no CR in the header name of `witRhEvil` (the value is full of them) -/
def witRhEvil_noCR : ∀ l, witRhEvil = some l → ∀ p ∈ l, ∀ b ∈ p.1, b ≠ 13 := by
  intro l h
  cases h
  decide +kernel
/-- non-vacuity of `no_injection` with values that try to inject: a header value with CR LF and a
    subprotocol with CR LF satisfy the hypotheses and still give the expected number of lines -/
example : (splitCRLF (response101 witAccept (strBytes "chat\r\nX-Evil: 1") false witRhEvil) []).length =
    4 + (if (strBytes "chat\r\nX-Evil: 1").isEmpty then 0 else 1) + (if false then 1 else 0) + rhLines witRhEvil + 2 :=
  no_injection witAccept _ false witRhEvil witAccept_noCR witRhEvil_noCR

/-- witness for `contains_sound`: a browser's Connection header contains the token "upgrade" -/
def witLine_contains : lineContains (strBytes "keep-alive, Upgrade") (strBytes "upgrade") = true := by decide +kernel
/-- non-vacuity of `contains_sound`: the hypothesis holds for "keep-alive, Upgrade", and the theorem applies -/
example : ∃ e ∈ elements (strBytes "keep-alive, Upgrade"), e ≠ [] ∧ (∀ b ∈ e, isTokenOctet b = true) ∧
    equalASCIIFold e (strBytes "upgrade") = true :=
  contains_sound _ _ witLine_contains

/-- witness for `contains_complete`: "keep-alive, Upgrade" is a well-formed 1#token list -/
def witLine_wf : ∀ e ∈ elements (strBytes "keep-alive, Upgrade"), e ≠ [] ∧ ∀ b ∈ e, isTokenOctet b = true := by decide +kernel
/-- witness for `contains_complete`: its second element equals "upgrade" under ASCII folding -/
def witLine_elem : ∃ e ∈ elements (strBytes "keep-alive, Upgrade"), equalASCIIFold e (strBytes "upgrade") = true :=
  ⟨strBytes "Upgrade", by decide +kernel, by decide +kernel⟩
/-- non-vacuity of `contains_complete`: both hypotheses hold for "keep-alive, Upgrade" / "upgrade", and the theorem applies -/
example : lineContains (strBytes "keep-alive, Upgrade") (strBytes "upgrade") = true :=
  contains_complete _ _ witLine_wf witLine_elem

/-- non-vacuity of `response101_lines`: the 101 for the RFC sample with subprotocol and compression -/
example : splitCRLF (response101 witAccept (strBytes "superchat") true none) [] =
      [strBytes "HTTP/1.1 101 Switching Protocols", strBytes "Upgrade: websocket", strBytes "Connection: Upgrade",
       strBytes "Sec-WebSocket-Accept: " ++ witAccept] ++
      (if (strBytes "superchat").isEmpty then [] else [strBytes "Sec-WebSocket-Protocol: " ++ scrub (strBytes "superchat")]) ++
      (if true then [strBytes "Sec-WebSocket-Extensions: permessage-deflate; server_no_context_takeover; client_no_context_takeover"] else []) ++
      [[], []] :=
  response101_lines witAccept (strBytes "superchat") true witAccept_noCR

/-- rejected_before_hijack on the cross-origin request: refused with 403 whether or not Hijack would work -/
example : upgrade witU witReqCross none (some (strBytes "evil.example.org")) { witHj with ok := false } = .error .origin :=
  rejected_before_hijack _ _ _ _ witHj _ _ witReqCross_rejected (by decide)

/-- hijack_failure_rejected on the good request -/
example : ∀ a, upgrade witU witReq none witOh { witHj with ok := false } ≠ .ok a :=
  hijack_failure_rejected _ _ _ _ _ rfl

/-- missing_upgrade_token_is_426 on the h2c request with a POST method on top (two faults) -/
example : upgrade witU { witReqH2c with method := strBytes "POST" } none none witHj = .error .noUpgradeWebsocket :=
  (missing_upgrade_token_is_426 _ _ _ _ _ (by decide +kernel) (by decide +kernel)).1

end NonVacuity

end WS.Props.C12
