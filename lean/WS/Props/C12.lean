import WS.Lemmas.HttpLogic
import WS.Gen.Skeletons
import WS.Gen.Tables
import WS.Lemmas.Robust
import WS.Lemmas.RequestLogic
/-
  C12 — Server handshake: upgrade iff the request is a valid opening handshake; correct 101.
-/
namespace WS.Props.C12
open WS WS.Http WS.Server WS.Client WS.HttpLogic

/-- upgrade_iff: Upgrade succeeds exactly when every condition of the chain holds -/
theorem upgrade_iff (u : UCfg) (r : Req) (rh : RespHdr) (oh : Option Bytes) (hj : Hijack) :
    (∃ a, upgrade u r rh oh hj = .ok a) ↔
      (tokenListContainsValue (r.values "Connection") (strBytes "upgrade") = true ∧
       tokenListContainsValue (r.values "Upgrade") (strBytes "websocket") = true ∧
       r.method = strBytes "GET" ∧
       tokenListContainsValue (r.values "Sec-Websocket-Version") (strBytes "13") = true ∧
       rh.has "Sec-Websocket-Extensions" = false ∧
       (match u.checkOrigin with | some b => b | none => checkSameOrigin r oh) = true ∧
       isValidChallengeKey (r.get "Sec-Websocket-Key") = true ∧
       hj.ok = true) := by
  first | exact HttpLogic.upgrade_ok_iff .. | (apply HttpLogic.upgrade_ok_iff <;> assumption)

/-- reject_status: 403 exactly for the origin, 426 exactly for a missing Upgrade token (and then the Connection token was present) -/
theorem reject_status (u : UCfg) (r : Req) (rh : RespHdr) (oh : Option Bytes) (hj : Hijack) (e : Reject)
    (h : upgrade u r rh oh hj = .error e) :
    (e.status = 403 ↔ e = .origin) ∧ (e.status = 426 ↔ e = .noUpgradeWebsocket) ∧
    (e = .noUpgradeWebsocket → tokenListContainsValue (r.values "Connection") (strBytes "upgrade") = true ∧
        tokenListContainsValue (r.values "Upgrade") (strBytes "websocket") = false) ∧
    (e = .origin → (match u.checkOrigin with | some b => b | none => checkSameOrigin r oh) = false) := by
  first | exact HttpLogic.reject_status .. | (apply HttpLogic.reject_status <;> assumption)

/-- deflate_announced_iff: compression is on (and announced) iff the server enabled it and the client offered an extension named permessage-deflate -/
theorem deflate_announced_iff (u : UCfg) (r : Req) (rh : RespHdr) (oh : Option Bytes) (hj : Hijack) (b : Bytes) (a : Accepted)
    (h : upgrade u r rh oh hj = .ok (b, a)) :
    a.compress = (u.enableCompression &&
      (parseExtensions (r.values "Sec-Websocket-Extensions")).any (fun e => e.name == strBytes "permessage-deflate")) := by
  first | exact HttpLogic.compress_iff .. | (apply HttpLogic.compress_iff <;> assumption)

/-- the selected subprotocol was offered by the client and is supported by the server -/
theorem subprotocol_offered_and_supported (u : UCfg) (r : Req) (rh : RespHdr) (server : List Bytes) (hs : u.subprotocols = some server)
    (hne : selectSubprotocol u r rh ≠ []) :
    selectSubprotocol u r rh ∈ server ∧ selectSubprotocol u r rh ∈ subprotocols (r.get "Sec-Websocket-Protocol") := by
  first | exact HttpLogic.subprotocol_sound .. | (apply HttpLogic.subprotocol_sound <;> assumption)

/-- no_injection: whatever bytes the application supplies as header values or as subprotocol, the 101 has exactly the expected number of lines -/
theorem no_injection (accept sub : Bytes) (compress : Bool) (rh : RespHdr)
    (ha : ∀ b ∈ accept, b ≠ 13)
    (hk : ∀ l, rh = some l → ∀ p ∈ l, ∀ b ∈ p.1, b ≠ 13) :
    (splitCRLF (response101 accept sub compress rh) []).length =
      4 + (if sub.isEmpty then 0 else 1) + (if compress then 1 else 0) + rhLines rh + 2 := by
  first | exact HttpLogic.no_injection .. | (apply HttpLogic.no_injection <;> assumption)

/-- the accept token cannot break a line -/
theorem base64_no_crlf (xs : Bytes) : ∀ b ∈ Spec.base64 xs, b ≠ 13 ∧ b ≠ 10 := by
  first | exact HttpLogic.base64_no_crlf .. | (apply HttpLogic.base64_no_crlf <;> assumption)

theorem scrub_no_ctl (v : Bytes) : ∀ b ∈ scrub v, 31 < b.toNat := by
  first | exact HttpLogic.scrub_no_ctl .. | (apply HttpLogic.scrub_no_ctl <;> assumption)

/-- accept_digest: the Accept value is base64(SHA-1(key ++ GUID)) with the GUID found in today's
    source; checked in the kernel on the example of RFC 6455 §1.3 -/
theorem accept_digest_rfc_vector :
    Spec.acceptKey Gen.keyGUID (strBytes "dGhlIHNhbXBsZSBub25jZQ==") = strBytes "s3pPLMBiTxaQ9kYGzzhZRbK+xOo=" := by
  decide +kernel

/-- the rejection chain recognised in today's Upgrade is the modelled one, in this order -/
theorem upgrade_chain_as_modelled :
    Gen.upgradeChain =
      ["!tokenListContainsValue(r.Header, \"Connection\", \"upgrade\") => http.StatusBadRequest",
       "!tokenListContainsValue(r.Header, \"Upgrade\", \"websocket\") => http.StatusUpgradeRequired",
       "r.Method != http.MethodGet => http.StatusMethodNotAllowed",
       "!tokenListContainsValue(r.Header, \"Sec-Websocket-Version\", \"13\") => http.StatusBadRequest",
       "_, ok := responseHeader[\"Sec-Websocket-Extensions\"]; ok => http.StatusInternalServerError",
       "!checkOrigin(r) => http.StatusForbidden",
       "!isValidChallengeKey(challengeKey) => http.StatusBadRequest",
       "err != nil => http.StatusInternalServerError"] := by decide +kernel

open WS.Robust
/-- contains_sound (arbitrary byte strings): if the list scanner says a header line contains the
    token, then some comma-separated element of the line, trimmed of SP/HT, is a token that equals it
    under ASCII folding — "websockets" or "xupgrade" can never pass -/
theorem contains_sound (s v : Bytes) (h : lineContains s v = true) :
    ∃ e ∈ elements s, e ≠ [] ∧ (∀ b ∈ e, isTokenOctet b = true) ∧ equalASCIIFold e v = true := by
  first | exact Robust.contains_sound .. | (apply Robust.contains_sound <;> assumption)

/-- contains_complete (well-formed 1#token lists): the scanner finds the token whenever an element
    equals it -/
theorem contains_complete (s v : Bytes)
    (hwf : ∀ e ∈ elements s, e ≠ [] ∧ ∀ b ∈ e, isTokenOctet b = true)
    (h : ∃ e ∈ elements s, equalASCIIFold e v = true) :
    lineContains s v = true := by
  first | exact Robust.contains_complete .. | (apply Robust.contains_complete <;> assumption)

/-- the exact lines of the 101 response (no application response header): status line, Upgrade,
    Connection, Accept, optional scrubbed subprotocol, optional extension announcement -/
theorem response101_lines (accept sub : Bytes) (compress : Bool)
    (ha : ∀ b ∈ accept, b ≠ 13) :
    splitCRLF (response101 accept sub compress none) [] =
      [strBytes "HTTP/1.1 101 Switching Protocols", strBytes "Upgrade: websocket", strBytes "Connection: Upgrade",
       strBytes "Sec-WebSocket-Accept: " ++ accept] ++
      (if sub.isEmpty then [] else [strBytes "Sec-WebSocket-Protocol: " ++ scrub sub]) ++
      (if compress then [strBytes "Sec-WebSocket-Extensions: permessage-deflate; server_no_context_takeover; client_no_context_takeover"] else []) ++
      [[], []] := by
  first | exact RequestLogic.response101_lines .. | (apply RequestLogic.response101_lines <;> assumption)

end WS.Props.C12
