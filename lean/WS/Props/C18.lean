import WS.Model.Client
/-
  C18 — Proxy tunnelling and TLS are applied on every dial path.
  Theorems over the decision logic `Client.dialPlan` (which function makes the first hop, what the
  proxy is asked, where TLS is layered) for the whole configuration matrix; the plan is compared
  with what in-process proxies and TLS backends observe (stream matrix). crypto/tls and the SOCKS5
  client of x/net are exercised, not modelled.
-/
namespace WS.Props.C18
open WS WS.Client

/-- wss_verified_tls: for a wss URL, on every path except a bare custom NetDialTLSContext without
    proxy, the library itself does TLS to the backend (ServerName = URL host, verification unless the
    user's config disables it) — over the proxy tunnel when there is a proxy -/
theorem wss_verified_tls (c : MCfg) (hw : c.wss = true) :
    (dialPlan c).libTLSBackend = true ∨ (c.proxy = .none ∧ c.ndtls = true ∧ (dialPlan c).customTLSBackend = true) := by
  obtain ⟨p, w, nd, ndc, ndtls, cr, ce, sk⟩ := c
  subst hw
  cases p <;> cases ndtls <;> simp [dialPlan]

/-- … and then the dial succeeds only with a certificate valid for the host (or verification disabled
    by the user) -/
theorem wss_success_needs_valid_cert (c : MCfg) (hw : c.wss = true) (hs : (dialPlan c).succeeds = true) :
    c.cert = .ok ∨ (c.skipVerify = true ∧ (dialPlan c).libTLSBackend = true) := by
  obtain ⟨p, w, nd, ndc, ndtls, cr, ce, sk⟩ := c
  subst hw
  cases p <;> cases ndtls <;> cases ce <;> cases sk <;> simp_all [dialPlan]

/-- ws URLs get no TLS to the backend -/
theorem ws_no_backend_tls (c : MCfg) (hw : c.wss = false) :
    (dialPlan c).libTLSBackend = false ∧ (dialPlan c).customTLSBackend = false := by
  obtain ⟨p, w, nd, ndc, ndtls, cr, ce, sk⟩ := c
  subst hw
  simp [dialPlan]

/-- connect_once / auth_iff_password: an HTTP(S) proxy gets a CONNECT, with Basic credentials exactly
    when the proxy URL carries a password -/
theorem connect_and_auth (c : MCfg) :
    ((dialPlan c).connect = true ↔ (c.proxy = .http ∨ c.proxy = .https)) ∧
    ((dialPlan c).connectAuth = true ↔ ((c.proxy = .http ∨ c.proxy = .https) ∧ (c.cred = .userpass ∨ c.cred = .userempty))) := by
  obtain ⟨p, w, nd, ndc, ndtls, cr, ce, sk⟩ := c
  cases p <;> cases cr <;> simp [dialPlan]

/-- first_hop_custom: the first hop always goes to the proxy when one is configured, and uses the
    applicable custom dial function: NetDialTLSContext for an https entity, else NetDialContext, else
    NetDial -/
theorem first_hop_custom (c : MCfg) :
    (dialPlan c).firstHopIsProxy = (c.proxy != .none) ∧
    (c.firstHTTPS = true → c.ndtls = true → (dialPlan c).firstFn = .ndtls) ∧
    ((c.firstHTTPS = false ∨ c.ndtls = false) → c.ndc = true → (dialPlan c).firstFn = .ndc) ∧
    ((c.firstHTTPS = false ∨ c.ndtls = false) → c.ndc = false → c.nd = true → (dialPlan c).firstFn = .nd) := by
  obtain ⟨p, w, nd, ndc, ndtls, cr, ce, sk⟩ := c
  refine ⟨rfl, ?_, ?_, ?_⟩
  · intro h1 h2; simp_all [dialPlan]
  · intro h1 h2; rcases h1 with h1 | h1 <;> simp_all [dialPlan]
  · intro h1 h2 h3; rcases h1 with h1 | h1 <;> simp_all [dialPlan]

/-- hostPortNoPort: default ports 443 for wss/https and 80 otherwise; an explicit port is kept; a
    bracketed IPv6 literal without port gets the default port -/
theorem hostport_examples :
    hostPortNoPort (strBytes "wss") (strBytes "example.com") = (strBytes "example.com:443", strBytes "example.com") ∧
    hostPortNoPort (strBytes "ws") (strBytes "example.com") = (strBytes "example.com:80", strBytes "example.com") ∧
    hostPortNoPort (strBytes "ws") (strBytes "example.com:8080") = (strBytes "example.com:8080", strBytes "example.com") ∧
    hostPortNoPort (strBytes "wss") (strBytes "[::1]") = (strBytes "[::1]:443", strBytes "[::1]") ∧
    hostPortNoPort (strBytes "https") (strBytes "[::1]:9") = (strBytes "[::1]:9", strBytes "[::1]") := by
  decide +kernel

/-- hostPortNoPort in general: a host without ':' after the last ']' gets the scheme's default port -/
theorem hostport_default (scheme host : Bytes) (h : lastIndexOf host 58 ≤ lastIndexOf host 93) :
    hostPortNoPort scheme host =
      (host ++ (if scheme == strBytes "wss" || scheme == strBytes "https" then strBytes ":443" else strBytes ":80"), host) := by
  unfold hostPortNoPort
  have : ¬ (lastIndexOf host 58 > lastIndexOf host 93) := by omega
  simp [this]

end WS.Props.C18
