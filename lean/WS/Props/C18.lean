import WS.Model.Client
/-
  C18 — Proxy tunnelling and TLS are applied on every dial path.
  Theorems over the decision logic `Client.dialPlan` (which function makes the first hop, what the
  proxy is asked, where TLS is layered) for the whole configuration matrix; the plan is compared
  with what in-process proxies and TLS backends observe (stream matrix). crypto/tls and the SOCKS5
  client of x/net are exercised, not modelled.
-/
namespace WS.Props.C18
open WS WS.Client

/-- wss_verified_tls: for a wss URL, on every path except a bare custom NetDialTLSContext without
    proxy, the library itself does TLS to the backend (ServerName = URL host, verification unless the
    user's config disables it) — over the proxy tunnel when there is a proxy -/
theorem wss_verified_tls (c : MCfg) (hw : c.wss = true) :
    (dialPlan c).libTLSBackend = true ∨ (c.proxy = .none ∧ c.ndtls = true ∧ (dialPlan c).customTLSBackend = true) := by
  obtain ⟨p, w, nd, ndc, ndtls, cr, ce, sk⟩ := c
  subst hw
  cases p <;> cases ndtls <;> simp [dialPlan]

/-- … and then the dial succeeds only with a certificate valid for the host (or verification disabled
    by the user) -/
theorem wss_success_needs_valid_cert (c : MCfg) (hw : c.wss = true) (hs : (dialPlan c).succeeds = true) :
    c.cert = .ok ∨ (c.skipVerify = true ∧ (dialPlan c).libTLSBackend = true) := by
  obtain ⟨p, w, nd, ndc, ndtls, cr, ce, sk⟩ := c
  subst hw
  cases p <;> cases ndtls <;> cases ce <;> cases sk <;> simp_all [dialPlan]

/-- ws URLs get no TLS to the backend -/
theorem ws_no_backend_tls (c : MCfg) (hw : c.wss = false) :
    (dialPlan c).libTLSBackend = false ∧ (dialPlan c).customTLSBackend = false := by
  obtain ⟨p, w, nd, ndc, ndtls, cr, ce, sk⟩ := c
  subst hw
  simp [dialPlan]

/-- connect_once / auth_iff_password: an HTTP(S) proxy gets a CONNECT, with Basic credentials exactly
    when the proxy URL carries a password -/
theorem connect_and_auth (c : MCfg) :
    ((dialPlan c).connect = true ↔ (c.proxy = .http ∨ c.proxy = .https)) ∧
    ((dialPlan c).connectAuth = true ↔ ((c.proxy = .http ∨ c.proxy = .https) ∧ (c.cred = .userpass ∨ c.cred = .userempty))) := by
  obtain ⟨p, w, nd, ndc, ndtls, cr, ce, sk⟩ := c
  cases p <;> cases cr <;> simp [dialPlan]

/-- first_hop_custom: the first hop always goes to the proxy when one is configured, and uses the
    applicable custom dial function: NetDialTLSContext for an https entity, else NetDialContext, else
    NetDial -/
theorem first_hop_custom (c : MCfg) :
    (dialPlan c).firstHopIsProxy = (c.proxy != .none) ∧
    (c.firstHTTPS = true → c.ndtls = true → (dialPlan c).firstFn = .ndtls) ∧
    ((c.firstHTTPS = false ∨ c.ndtls = false) → c.ndc = true → (dialPlan c).firstFn = .ndc) ∧
    ((c.firstHTTPS = false ∨ c.ndtls = false) → c.ndc = false → c.nd = true → (dialPlan c).firstFn = .nd) := by
  obtain ⟨p, w, nd, ndc, ndtls, cr, ce, sk⟩ := c
  refine ⟨rfl, ?_, ?_, ?_⟩
  · intro h1 h2; simp_all [dialPlan]
  · intro h1 h2; rcases h1 with h1 | h1 <;> simp_all [dialPlan]
  · intro h1 h2 h3; rcases h1 with h1 | h1 <;> simp_all [dialPlan]

/-- hostPortNoPort: default ports 443 for wss/https and 80 otherwise; an explicit port is kept; a
    bracketed IPv6 literal without port gets the default port -/
theorem hostport_examples :
    hostPortNoPort (strBytes "wss") (strBytes "example.com") = (strBytes "example.com:443", strBytes "example.com") ∧
    hostPortNoPort (strBytes "ws") (strBytes "example.com") = (strBytes "example.com:80", strBytes "example.com") ∧
    hostPortNoPort (strBytes "ws") (strBytes "example.com:8080") = (strBytes "example.com:8080", strBytes "example.com") ∧
    hostPortNoPort (strBytes "wss") (strBytes "[::1]") = (strBytes "[::1]:443", strBytes "[::1]") ∧
    hostPortNoPort (strBytes "https") (strBytes "[::1]:9") = (strBytes "[::1]:9", strBytes "[::1]") := by
  decide +kernel

/-- hostPortNoPort in general: a host without ':' after the last ']' gets the scheme's default port -/
theorem hostport_default (scheme host : Bytes) (h : lastIndexOf host 58 ≤ lastIndexOf host 93) :
    hostPortNoPort scheme host =
      (host ++ (if scheme == strBytes "wss" || scheme == strBytes "https" then strBytes ":443" else strBytes ":80"), host) := by
  unfold hostPortNoPort
  have : ¬ (lastIndexOf host 58 > lastIndexOf host 93) := by omega
  simp [this]

/-! ### non-vacuity -/
section NonVacuity
set_option linter.defProp false

/-- a wss dial through an https proxy whose URL carries user:password, NetDialContext set, backend
    certificate valid, verification on -/
def witWssHttpsProxy : MCfg :=
  { proxy := .https, wss := true, nd := false, ndc := true, ndtls := false, cred := .userpass,
    cert := .ok, skipVerify := false }

/-- a direct wss dial with a custom NetDialTLSContext (the one path where the library does not do TLS itself) -/
def witWssCustomTLS : MCfg :=
  { proxy := .none, wss := true, nd := false, ndc := false, ndtls := true, cred := .none,
    cert := .ok, skipVerify := false }

/-- a wss dial through a SOCKS5 proxy to a backend with an untrusted certificate, InsecureSkipVerify set -/
def witWssSocksSkip : MCfg :=
  { proxy := .socks5, wss := true, nd := true, ndc := false, ndtls := false, cred := .user,
    cert := .untrusted, skipVerify := true }

/-- a plain ws dial through an http proxy with credentials -/
def witWsHttpProxy : MCfg :=
  { proxy := .http, wss := false, nd := false, ndc := false, ndtls := true, cred := .userpass,
    cert := .other, skipVerify := false }

/-- non-vacuity of `wss_verified_tls`: wss through an https proxy with userpass credentials; the left
    disjunct (library TLS over the tunnel) is the one that holds -/
example : (dialPlan witWssHttpsProxy).libTLSBackend = true ∨
    (witWssHttpsProxy.proxy = .none ∧ witWssHttpsProxy.ndtls = true ∧ (dialPlan witWssHttpsProxy).customTLSBackend = true) :=
  wss_verified_tls witWssHttpsProxy rfl
/-- the witness of `wss_verified_tls` is the realistic path: CONNECT with Basic credentials, TLS to the proxy and TLS to the backend -/
example : (dialPlan witWssHttpsProxy).libTLSBackend = true ∧ (dialPlan witWssHttpsProxy).connect = true ∧
    (dialPlan witWssHttpsProxy).connectAuth = true ∧ (dialPlan witWssHttpsProxy).libTLSFirstHop = true := by decide

/-- non-vacuity of `wss_verified_tls`, right disjunct: direct wss with a custom NetDialTLSContext -/
example : (dialPlan witWssCustomTLS).libTLSBackend = true ∨
    (witWssCustomTLS.proxy = .none ∧ witWssCustomTLS.ndtls = true ∧ (dialPlan witWssCustomTLS).customTLSBackend = true) :=
  wss_verified_tls witWssCustomTLS rfl
/-- for the second witness of `wss_verified_tls` the left disjunct is false, so the right one is really needed -/
example : (dialPlan witWssCustomTLS).libTLSBackend = false ∧ (dialPlan witWssCustomTLS).customTLSBackend = true := by decide

/-- witness for `wss_success_needs_valid_cert`: the https-proxy dial succeeds -/
def witWssHttpsProxy_succeeds : (dialPlan witWssHttpsProxy).succeeds = true := by decide
/-- non-vacuity of `wss_success_needs_valid_cert`: both hypotheses hold for the wss / https-proxy /
    valid-certificate dial (left disjunct) -/
example : witWssHttpsProxy.cert = .ok ∨ (witWssHttpsProxy.skipVerify = true ∧ (dialPlan witWssHttpsProxy).libTLSBackend = true) :=
  wss_success_needs_valid_cert witWssHttpsProxy rfl witWssHttpsProxy_succeeds

/-- witness for `wss_success_needs_valid_cert`: the SOCKS5 dial with InsecureSkipVerify succeeds although the certificate is untrusted -/
def witWssSocksSkip_succeeds : (dialPlan witWssSocksSkip).succeeds = true := by decide
/-- non-vacuity of `wss_success_needs_valid_cert`, right disjunct: untrusted certificate, verification
    disabled by the user, library TLS over the SOCKS5 tunnel -/
example : witWssSocksSkip.cert = .ok ∨ (witWssSocksSkip.skipVerify = true ∧ (dialPlan witWssSocksSkip).libTLSBackend = true) :=
  wss_success_needs_valid_cert witWssSocksSkip rfl witWssSocksSkip_succeeds
/-- for the second witness of `wss_success_needs_valid_cert` the left disjunct is false -/
example : witWssSocksSkip.cert ≠ .ok := by decide
/-- the hypothesis `succeeds` of `wss_success_needs_valid_cert` is not automatic: the same dial with verification on fails -/
example : (dialPlan { witWssSocksSkip with skipVerify := false }).succeeds = false := by decide

/-- non-vacuity of `ws_no_backend_tls`: a ws dial through an http proxy (with a NetDialTLSContext set, which must not be used for the backend) -/
example : (dialPlan witWsHttpProxy).libTLSBackend = false ∧ (dialPlan witWsHttpProxy).customTLSBackend = false :=
  ws_no_backend_tls witWsHttpProxy rfl

/-- witness for `hostport_default`: "example.com" has no ':' (last index -1) and no ']' (last index -1) -/
def witHost_noPort : lastIndexOf (strBytes "example.com") 58 ≤ lastIndexOf (strBytes "example.com") 93 := by decide +kernel
/-- non-vacuity of `hostport_default`: wss://example.com gets port 443 -/
example : hostPortNoPort (strBytes "wss") (strBytes "example.com") =
    (strBytes "example.com" ++ (if strBytes "wss" == strBytes "wss" || strBytes "wss" == strBytes "https" then strBytes ":443" else strBytes ":80"),
     strBytes "example.com") :=
  hostport_default (strBytes "wss") (strBytes "example.com") witHost_noPort

/-- witness for `hostport_default`: a bracketed IPv6 literal without port: last ':' at 6, ']' at 7 -/
def witHost_v6 : lastIndexOf (strBytes "[2001::1]") 58 ≤ lastIndexOf (strBytes "[2001::1]") 93 := by decide +kernel
/-- non-vacuity of `hostport_default`: ws://[2001::1] gets port 80 -/
example : hostPortNoPort (strBytes "ws") (strBytes "[2001::1]") =
    (strBytes "[2001::1]" ++ (if strBytes "ws" == strBytes "wss" || strBytes "ws" == strBytes "https" then strBytes ":443" else strBytes ":80"),
     strBytes "[2001::1]") :=
  hostport_default (strBytes "ws") (strBytes "[2001::1]") witHost_v6
/-- the hypothesis of `hostport_default` is not automatic: it fails for a host with an explicit port -/
example : ¬ (lastIndexOf (strBytes "example.com:8080") 58 ≤ lastIndexOf (strBytes "example.com:8080") 93) := by decide +kernel

end NonVacuity

end WS.Props.C18
