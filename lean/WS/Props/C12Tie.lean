import WS.Gen.Skeletons
/-
  C12 — translator tie: the statement text of the functions this property's model transcribes, regenerated
  from /repo by factgen on every run (WS/Gen/Skeletons.lean), equals the text the model was written against.
  A change to one of these functions breaks the obligation below; the check then searches for a failing
  input with the property's oracles (DESIGN §5).
-/
namespace WS.Props.C12Tie
open WS

/-- today's isValidChallengeKey, computeAcceptKey, selectSubprotocol and tokenListContainsValue are the modelled ones -/
theorem server_helpers_as_modelled :
    Gen.stmts_isValidChallengeKey =
      ["if s == \"\" { return false }",
        "decoded, err := base64.StdEncoding.DecodeString(s)",
        "return err == nil && len(decoded) == 16"] ∧
    Gen.stmts_computeAcceptKey =
      ["h := sha1.New()",
        "h.Write([]byte(challengeKey))",
        "h.Write(keyGUID)",
        "return base64.StdEncoding.EncodeToString(h.Sum(nil))"] ∧
    Gen.stmts_selectSubprotocol =
      ["if u.Subprotocols != nil { clientProtocols := Subprotocols(r) for _, clientProtocol := range clientProtocols { for _, serverProtocol := range u.Subprotocols { if clientProtocol == serverProtocol { return clientProtocol } } } } else if responseHeader != nil { return responseHeader.Get(\"Sec-Websocket-Protocol\") }",
        "return \"\""] ∧
    Gen.stmts_tokenListContainsValue =
      ["headers: for _, s := range header[name] { for { var t string t, s = nextToken(skipSpace(s)) if t == \"\" { continue headers } s = skipSpace(s) if s != \"\" && s[0] != ',' { continue headers } if equalASCIIFold(t, value) { return true } if s == \"\" { continue headers } s = s[1:] } }",
        "return false"] := by
  refine ⟨?_, ?_, ?_, ?_⟩ <;> rfl


/-- today's Subprotocols, Upgrader.returnError and IsWebSocketUpgrade are the modelled ones -/
theorem request_helpers_as_modelled :
    Gen.stmts_Subprotocols =
      ["h := strings.TrimSpace(r.Header.Get(\"Sec-Websocket-Protocol\"))",
        "if h == \"\" { return nil }",
        "protocols := strings.Split(h, \",\")",
        "for i := range protocols { protocols[i] = strings.TrimSpace(protocols[i]) }",
        "return protocols"] ∧
    Gen.stmts_returnError =
      ["err := HandshakeError{reason}",
        "if u.Error != nil { u.Error(w, r, status, err) } else { w.Header().Set(\"Sec-Websocket-Version\", \"13\") http.Error(w, http.StatusText(status), status) }",
        "return nil, err"] ∧
    Gen.stmts_IsWebSocketUpgrade =
      ["return tokenListContainsValue(r.Header, \"Connection\", \"upgrade\") && tokenListContainsValue(r.Header, \"Upgrade\", \"websocket\")"] := by
  refine ⟨?_, ?_, ?_⟩ <;> rfl


end WS.Props.C12Tie
