import WS.Gen.Skeletons
/-
  C04 — translator tie: the statement text of the functions this property's model transcribes, regenerated
  from /repo by factgen on every run (WS/Gen/Skeletons.lean), equals the text the model was written against.
  A change to one of these functions breaks the obligation below; the check then searches for a failing
  input with the property's oracles (DESIGN §5).
-/
namespace WS.Props.C04Tie
open WS

/-- today's handleProtocolError and FormatCloseMessage are the modelled ones -/
theorem protocol_error_as_modelled :
    Gen.stmts_handleProtocolError =
      ["data := FormatCloseMessage(CloseProtocolError, message)",
        "if len(data) > maxControlFramePayloadSize { data = data[:maxControlFramePayloadSize] }",
        "_ = c.WriteControl(CloseMessage, data, time.Now().Add(writeWait))",
        "return errors.New(\"websocket: \" + message)"] ∧
    Gen.stmts_FormatCloseMessage =
      ["if closeCode == CloseNoStatusReceived { return []byte{} }",
        "buf := make([]byte, 2+len(text))",
        "binary.BigEndian.PutUint16(buf, uint16(closeCode))",
        "copy(buf[2:], text)",
        "return buf"] := by
  refine ⟨?_, ?_⟩ <;> rfl


end WS.Props.C04Tie
