import WS.Lemmas.Sched2
import WS.Model.Sched
import WS.Gen.Skeletons
import WS.Props.C09
/-
  C11 — Documented concurrency contract: frames atomic, WriteControl bounded, lock discipline.
  The Go memory model, the scheduler, timers, sync.Pool and sync.Once are outside the model; the
  theorems are about the lock protocol (whose atomic actions are tied to today's source by
  C09.write_wellLocked / writeControl_wellLocked) and about the field-access table regenerated from
  the source.
-/
namespace WS.Props.C11
open WS.Sched2

/-- frames_atomic: in every reachable state of every interleaving of any number of threads — with
    the transport accepting a frame in any number of parts and other threads running in between —
    the parts of each frame are contiguous on the wire: control frames appear only between whole frames -/
theorem frames_atomic {g : G} (h : Reach g) : Contiguous g.wire := by
  first | exact Sched2.frames_atomic .. | (apply Sched2.frames_atomic <;> assumption)

/-- writecontrol_timeout_clean: a WriteControl that gives up waiting writes nothing and does not poison the connection -/
theorem writecontrol_timeout_clean (g : G) (t : Nat) (h : g.phase t = .waiting) :
    ∃ g', Step g g' ∧ g'.wire = g.wire ∧ g'.writeErr = g.writeErr ∧ g'.holder = g.holder ∧ g'.phase t = .idle := by
  first | exact Sched2.timeout_clean .. | (apply Sched2.timeout_clean <;> assumption)

/-- … and giving up is always possible while waiting, even while another thread is blocked inside the transport holding the mutex -/
theorem timeout_always_enabled {g : G} (t u : Nat) (h : g.phase t = .waiting) (hu : g.holder = some u) :
    ∃ g', Step g g' ∧ g'.phase t = .idle ∧ g'.holder = some u := by
  first | exact Sched2.timeout_always_enabled .. | (apply Sched2.timeout_always_enabled <;> assumption)

/-- mutual exclusion of the critical section -/
theorem mutex {g : G} (h : Reach g) (t u : Nat)
    (ht : g.phase t ≠ .idle ∧ g.phase t ≠ .waiting) (hu : g.phase u ≠ .idle ∧ g.phase u ≠ .waiting) : t = u := by
  first | exact Sched2.mutex .. | (apply Sched2.mutex <;> assumption)

/-! ### lock discipline, decided over the field-access table regenerated from the source -/

def readerFns : List String :=
  ["Conn.NextReader", "Conn.advanceFrame", "messageReader.Read", "Conn.setReadRemaining", "Conn.ReadMessage",
   "Conn.SetReadLimit", "Conn.SetCloseHandler", "Conn.SetPingHandler", "Conn.SetPongHandler",
   "Conn.CloseHandler", "Conn.PingHandler", "Conn.PongHandler", "Conn.handleProtocolError", "Conn.read"]

def writerFns : List String :=
  ["Conn.NextWriter", "Conn.beginMessage", "messageWriter.endMessage", "messageWriter.flushFrame", "messageWriter.ncopy",
   "messageWriter.Write", "messageWriter.WriteString", "messageWriter.ReadFrom", "messageWriter.Close",
   "Conn.WriteMessage", "Conn.WritePreparedMessage", "Conn.SetWriteDeadline", "Conn.EnableWriteCompression",
   "Conn.SetCompressionLevel"]

/-- functions that run before the connection is shared with other goroutines -/
def constructorFns : List String := ["newConn", "Upgrader.Upgrade", "Dialer.DialContext", "PreparedMessage.frame", "NewPreparedMessage"]

def readerFields : List String :=
  ["reader", "readErr", "readRemaining", "readFinal", "readLength", "readLimit", "readMaskPos", "readMaskKey",
   "readErrCount", "messageReader", "readDecompress", "handlePong", "handlePing", "handleClose"]

def writerFields : List String :=
  ["writeBuf", "writer", "isWriting", "writeDeadline", "enableWriteCompression", "compressionLevel"]

/-- fields that any goroutine may touch: the mutex channel and the error guarded by writeErrMu, and
    only from these functions (each of which brackets writeErr with writeErrMu: skeleton `checkErr`
    and writeFatal) -/
def sharedFields : List String := ["mu", "writeErr", "writeErrMu"]
def sharedFns : List String := ["Conn.write", "Conn.WriteControl", "Conn.writeFatal", "Conn.beginMessage"]

/-- PreparedMessage: the frame cache and its once are only touched by `frame` -/
def preparedFields : List String := ["frames", "once"]

def accessOK (a : String × String × String) : Bool :=
  let (field, _, fn) := a
  constructorFns.contains fn ||
  (readerFields.contains field && readerFns.contains fn) ||
  (writerFields.contains field && writerFns.contains fn) ||
  (sharedFields.contains field && sharedFns.contains fn) ||
  (preparedFields.contains field && fn == "PreparedMessage.frame")

/-- lock_discipline: in today's source every access to a mutable Conn field is made by a function of
    the one role that owns the field (reader-only / writer-only, per the documented contract of one
    reading and one writing goroutine), or — for the mutex and the sticky error — by the four
    functions that follow the lock protocol. In particular WriteControl and write touch no reader-
    or writer-owned field. -/
theorem lock_discipline : Gen.fieldAccess.all accessOK = true := by decide +kernel

/-- the functions that may run on any goroutine (WriteControl, write, writeFatal) touch only the mutex, the sticky
    error and its lock. (That the package starts no goroutine of its own in these paths is an inventory expectation of
    factgen — `go_statements` in expect/inventory.json — not part of this statement.) -/
theorem any_thread_functions_touch_only_shared :
    (Gen.fieldAccess.filter (fun a => a.2.2 == "Conn.WriteControl" || a.2.2 == "Conn.write" || a.2.2 == "Conn.writeFatal")).all
      (fun a => sharedFields.contains a.1) = true := by decide +kernel

/-! ### non-vacuity -/
section NonVacuity
set_option linter.defProp false

/-! a schedule of two threads: thread 0 takes the mutex and its frame (frame no. 1) is accepted by
    the transport in two parts; thread 1 (a WriteControl) starts waiting between the two parts;
    thread 0 finishes and releases; thread 1 acquires and writes the first part of its frame -/
def witG1 : G := { init with phase := upd init.phase 0 .waiting }
def witG2 : G := { witG1 with holder := some 0, phase := upd witG1.phase 0 .locked }
def witG3 : G := { witG2 with phase := upd witG2.phase 0 (.writing 0), frameNo := upd witG2.frameNo 0 (witG2.frameNo 0 + 1) }
def witG4 : G := { witG3 with wire := witG3.wire ++ [(0, witG3.frameNo 0)], phase := upd witG3.phase 0 (.writing (0 + 1)) }
def witG5 : G := { witG4 with phase := upd witG4.phase 1 .waiting }
def witG6 : G := { witG5 with wire := witG5.wire ++ [(0, witG5.frameNo 0)], phase := upd witG5.phase 0 (.writing (1 + 1)) }
def witG7 : G := { witG6 with phase := upd witG6.phase 0 .done }
def witG8 : G := { witG7 with holder := none, phase := upd witG7.phase 0 .idle }
def witG9 : G := { witG8 with holder := some 1, phase := upd witG8.phase 1 .locked }
def witG10 : G := { witG9 with phase := upd witG9.phase 1 (.writing 0), frameNo := upd witG9.frameNo 1 (witG9.frameNo 1 + 1) }
def witG11 : G := { witG10 with wire := witG10.wire ++ [(1, witG10.frameNo 1)], phase := upd witG10.phase 1 (.writing (0 + 1)) }

def witR1 : Reach witG1 := .step .init (.want init 0 rfl)
def witR2 : Reach witG2 := .step witR1 (.acquire witG1 0 rfl rfl)
def witR3 : Reach witG3 := .step witR2 (.checkOk witG2 0 rfl rfl)
def witR4 : Reach witG4 := .step witR3 (.part witG3 0 0 rfl)
def witR5 : Reach witG5 := .step witR4 (.want witG4 1 rfl)
def witR6 : Reach witG6 := .step witR5 (.part witG5 0 1 rfl)
def witR7 : Reach witG7 := .step witR6 (.finish witG6 0 2 rfl)
def witR8 : Reach witG8 := .step witR7 (.release witG7 0 rfl)
def witR9 : Reach witG9 := .step witR8 (.acquire witG8 1 rfl rfl)
def witR10 : Reach witG10 := .step witR9 (.checkOk witG9 1 rfl rfl)
def witR11 : Reach witG11 := .step witR10 (.part witG10 1 0 rfl)

/-- the wire of the witness state `witG11` -/
example : witG11.wire = [(0, 1), (0, 1), (1, 1)] := rfl

/-- non-vacuity of `frames_atomic`: `witG11` is reachable; thread 0's frame went out in two parts
    with thread 1 waiting in between -/
example : Contiguous [(0, 1), (0, 1), (1, 1)] := frames_atomic witR11

/-- non-vacuity of `writecontrol_timeout_clean`: in `witG5` thread 1 waits while thread 0 is in the
    middle of its frame -/
example : ∃ g', Step witG5 g' ∧ g'.wire = [(0, 1)] ∧ g'.writeErr = false ∧ g'.holder = some 0 ∧ g'.phase 1 = .idle :=
  writecontrol_timeout_clean witG5 1 rfl

/-- non-vacuity of `timeout_always_enabled`: in `witG5` thread 1 waits and thread 0 holds the mutex -/
example : ∃ g', Step witG5 g' ∧ g'.phase 1 = .idle ∧ g'.holder = some 0 :=
  timeout_always_enabled (g := witG5) 1 0 rfl rfl

/-- non-vacuity of `mutex`: in the reachable `witG6` thread 0 is inside the critical section (phase
    `.writing 2`) while thread 1 waits; the hypotheses hold for t = u = 0 (and, by the theorem, for no
    other pair) -/
example : (0 : Nat) = 0 := mutex witR6 0 0 (by decide) (by decide)

end NonVacuity

end WS.Props.C11
