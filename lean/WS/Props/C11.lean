import WS.Lemmas.Sched2
import WS.Model.Sched
import WS.Gen.Skeletons
import WS.Props.C09
/-
  C11 — Documented concurrency contract: frames atomic, WriteControl bounded, lock discipline.
  The Go memory model, the scheduler, timers, sync.Pool and sync.Once are outside the model; the
  theorems are about the lock protocol (whose atomic actions are tied to today's source by
  C09.write_wellLocked / writeControl_wellLocked) and about the field-access table regenerated from
  the source.
-/
namespace WS.Props.C11
open WS.Sched2

/-- frames_atomic: in every reachable state of every interleaving of any number of threads — with
    the transport accepting a frame in any number of parts and other threads running in between —
    the parts of each frame are contiguous on the wire: control frames appear only between whole frames -/
theorem frames_atomic {g : G} (h : Reach g) : Contiguous g.wire := by
  first | exact Sched2.frames_atomic .. | (apply Sched2.frames_atomic <;> assumption)

/-- writecontrol_timeout_clean: a WriteControl that gives up waiting writes nothing and does not poison the connection -/
theorem writecontrol_timeout_clean (g : G) (t : Nat) (h : g.phase t = .waiting) :
    ∃ g', Step g g' ∧ g'.wire = g.wire ∧ g'.writeErr = g.writeErr ∧ g'.holder = g.holder ∧ g'.phase t = .idle := by
  first | exact Sched2.timeout_clean .. | (apply Sched2.timeout_clean <;> assumption)

/-- … and giving up is always possible while waiting, even while another thread is blocked inside the transport holding the mutex -/
theorem timeout_always_enabled {g : G} (t u : Nat) (h : g.phase t = .waiting) (hu : g.holder = some u) :
    ∃ g', Step g g' ∧ g'.phase t = .idle ∧ g'.holder = some u := by
  first | exact Sched2.timeout_always_enabled .. | (apply Sched2.timeout_always_enabled <;> assumption)

/-- mutual exclusion of the critical section -/
theorem mutex {g : G} (h : Reach g) (t u : Nat)
    (ht : g.phase t ≠ .idle ∧ g.phase t ≠ .waiting) (hu : g.phase u ≠ .idle ∧ g.phase u ≠ .waiting) : t = u := by
  first | exact Sched2.mutex .. | (apply Sched2.mutex <;> assumption)

/-! ### lock discipline, decided over the field-access table regenerated from the source -/

def readerFns : List String :=
  ["Conn.NextReader", "Conn.advanceFrame", "messageReader.Read", "Conn.setReadRemaining", "Conn.ReadMessage",
   "Conn.SetReadLimit", "Conn.SetCloseHandler", "Conn.SetPingHandler", "Conn.SetPongHandler",
   "Conn.CloseHandler", "Conn.PingHandler", "Conn.PongHandler", "Conn.handleProtocolError", "Conn.read"]

def writerFns : List String :=
  ["Conn.NextWriter", "Conn.beginMessage", "messageWriter.endMessage", "messageWriter.flushFrame", "messageWriter.ncopy",
   "messageWriter.Write", "messageWriter.WriteString", "messageWriter.ReadFrom", "messageWriter.Close",
   "Conn.WriteMessage", "Conn.WritePreparedMessage", "Conn.SetWriteDeadline", "Conn.EnableWriteCompression",
   "Conn.SetCompressionLevel"]

/-- functions that run before the connection is shared with other goroutines -/
def constructorFns : List String := ["newConn", "Upgrader.Upgrade", "Dialer.DialContext", "PreparedMessage.frame", "NewPreparedMessage"]

def readerFields : List String :=
  ["reader", "readErr", "readRemaining", "readFinal", "readLength", "readLimit", "readMaskPos", "readMaskKey",
   "readErrCount", "messageReader", "readDecompress", "handlePong", "handlePing", "handleClose"]

def writerFields : List String :=
  ["writeBuf", "writer", "isWriting", "writeDeadline", "enableWriteCompression", "compressionLevel"]

/-- fields that any goroutine may touch: the mutex channel and the error guarded by writeErrMu, and
    only from these functions (each of which brackets writeErr with writeErrMu: skeleton `checkErr`
    and writeFatal) -/
def sharedFields : List String := ["mu", "writeErr", "writeErrMu"]
def sharedFns : List String := ["Conn.write", "Conn.WriteControl", "Conn.writeFatal", "Conn.beginMessage"]

/-- PreparedMessage: the frame cache and its once are only touched by `frame` -/
def preparedFields : List String := ["frames", "once"]

def accessOK (a : String × String × String) : Bool :=
  let (field, _, fn) := a
  constructorFns.contains fn ||
  (readerFields.contains field && readerFns.contains fn) ||
  (writerFields.contains field && writerFns.contains fn) ||
  (sharedFields.contains field && sharedFns.contains fn) ||
  (preparedFields.contains field && fn == "PreparedMessage.frame")

/-- lock_discipline: in today's source every access to a mutable Conn field is made by a function of
    the one role that owns the field (reader-only / writer-only, per the documented contract of one
    reading and one writing goroutine), or — for the mutex and the sticky error — by the four
    functions that follow the lock protocol. In particular WriteControl and write touch no reader-
    or writer-owned field. -/
theorem lock_discipline : Gen.fieldAccess.all accessOK = true := by decide +kernel

/-- no `go` statement and no other synchronisation hides in the package: the concurrency is the callers' -/
theorem any_thread_functions_touch_only_shared :
    (Gen.fieldAccess.filter (fun a => a.2.2 == "Conn.WriteControl" || a.2.2 == "Conn.write" || a.2.2 == "Conn.writeFatal")).all
      (fun a => sharedFields.contains a.1) = true := by decide +kernel

end WS.Props.C11
