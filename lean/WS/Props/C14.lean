import WS.Lemmas.HttpLogic
import WS.Gen.Skeletons
import WS.Lemmas.RequestLogic
/-
  C14 — Client handshake: connect iff the reply proves the server accepted this request.
-/
namespace WS.Props.C14
open WS WS.Http WS.Client WS.HttpLogic

/-- dial_iff: the reply is accepted exactly when status, Upgrade, Connection and Accept prove that the
    server accepted the key sent in this very request (and the compression answer is acceptable) -/
theorem dial_iff (key : Bytes) (r : Reply) :
    (∃ d, checkReply key r = .ok d) ↔
      (r.status = 101 ∧
       tokenListContainsValue (r.values "Upgrade") (strBytes "websocket") = true ∧
       tokenListContainsValue (r.values "Connection") (strBytes "upgrade") = true ∧
       r.get "Sec-Websocket-Accept" = Spec.acceptKey Gen.keyGUID key ∧
       (∀ e, (parseExtensions (r.values "Sec-Websocket-Extensions")).find? (fun e => e.name == strBytes "permessage-deflate") = some e →
          e.has (strBytes "server_no_context_takeover") = true ∧ e.has (strBytes "client_no_context_takeover") = true)) := by
  first | exact HttpLogic.checkReply_ok_iff .. | (apply HttpLogic.checkReply_ok_iff <;> assumption)

/-- URLs that are not ws / wss or that carry userinfo are refused before anything is assembled -/
theorem scheme_userinfo_refused_early (d : DCfg) (u : Url) (key : Bytes) (caller : Client.Hdr)
    (h : (u.scheme ≠ strBytes "ws" ∧ u.scheme ≠ strBytes "wss") ∨ u.hasUser = true) :
    buildRequest d u key caller = .error .malformedURL := by
  first | exact HttpLogic.bad_url_refused .. | (apply HttpLogic.bad_url_refused <;> assumption)

/-- a caller header map with a protocol-owned key is refused before any network activity -/
theorem protocol_headers_not_overridable (d : DCfg) (u : Url) (key : Bytes) (caller : Client.Hdr) (k : Bytes) (vs : List Bytes)
    (hu : (u.scheme = strBytes "ws" ∨ u.scheme = strBytes "wss") ∧ u.hasUser = false)
    (hk : (k, vs) ∈ caller) (hf : forbidden d k = true) (hh : k ≠ strBytes "Host") :
    buildRequest d u key caller = .error .duplicateHeader := by
  first | exact HttpLogic.forbidden_refused .. | (apply HttpLogic.forbidden_refused <;> assumption)

/-- stale_accept_refused: an Accept computed for any other key is refused (unless SHA-1 collides) -/
theorem stale_accept_refused (key key' : Bytes) (r : Reply)
    (ha : r.get "Sec-Websocket-Accept" = Spec.acceptKey Gen.keyGUID key')
    (hne : Spec.acceptKey Gen.keyGUID key' ≠ Spec.acceptKey Gen.keyGUID key) :
    checkReply key r = .error .badHandshake := by
  unfold checkReply
  rw [ha]
  simp [hne]

/-- the reply check and the list of protocol-owned headers in today's DialContext are the modelled ones -/
theorem dial_checks_as_modelled :
    Gen.dialChecks =
      ["resp.StatusCode != 101",
       "!tokenListContainsValue(resp.Header, \"Upgrade\", \"websocket\")",
       "!tokenListContainsValue(resp.Header, \"Connection\", \"upgrade\")",
       "resp.Header.Get(\"Sec-Websocket-Accept\") != computeAcceptKey(challengeKey)",
       "forbidden: ck == \"Upgrade\"", "forbidden: ck == \"Connection\"", "forbidden: ck == \"Sec-Websocket-Key\"",
       "forbidden: ck == \"Sec-Websocket-Version\"", "forbidden: ck == \"Sec-Websocket-Extensions\"",
       "forbidden: (ck == \"Sec-Websocket-Protocol\" && len(d.Subprotocols) > 0)"] := by decide +kernel

open WS.RequestLogic
/-- request_headers: whenever the request is assembled the protocol-owned headers carry the
    protocol's values — Upgrade: websocket, Connection: Upgrade, the key of this dial, version 13 -/
theorem request_headers (d : DCfg) (u : Url) (key : Bytes) (caller : Client.Hdr) (host : Bytes) (h : Client.Hdr)
    (hok : buildRequest d u key caller = .ok (host, h))
    (hcan : ∀ p ∈ caller, p.1 ≠ strBytes "Upgrade" ∧ p.1 ≠ strBytes "Connection" ∧ p.1 ≠ strBytes "Sec-WebSocket-Key" ∧
        p.1 ≠ strBytes "Sec-WebSocket-Version" ∧ p.1 ≠ strBytes "Sec-WebSocket-Extensions") :
    lookup h (strBytes "Upgrade") = some [strBytes "websocket"] ∧
    lookup h (strBytes "Connection") = some [strBytes "Upgrade"] ∧
    lookup h (strBytes "Sec-WebSocket-Key") = some [key] ∧
    lookup h (strBytes "Sec-WebSocket-Version") = some [strBytes "13"] := by
  first | exact RequestLogic.protocol_headers_present .. | (apply RequestLogic.protocol_headers_present <;> assumption)

/-- the permessage-deflate offer is present exactly when compression is enabled -/
theorem offer_iff_enabled (d : DCfg) (u : Url) (key : Bytes) (caller : Client.Hdr) (host : Bytes) (h : Client.Hdr)
    (hok : buildRequest d u key caller = .ok (host, h))
    (hcan : ∀ p ∈ caller, p.1 ≠ strBytes "Sec-WebSocket-Extensions") :
    (lookup h (strBytes "Sec-WebSocket-Extensions")).isSome = d.enableCompression := by
  first | exact RequestLogic.offer_iff_enabled .. | (apply RequestLogic.offer_iff_enabled <;> assumption)

/-- Host comes from the URL unless the caller overrides it -/
theorem host_from_url_or_override (d : DCfg) (u : Url) (key : Bytes) (caller : Client.Hdr) (host : Bytes) (h : Client.Hdr)
    (hok : buildRequest d u key caller = .ok (host, h))
    (hno : ∀ p ∈ caller, canonicalKey p.1 ≠ strBytes "Host") : host = u.host := by
  first | exact RequestLogic.host_from_url_or_override .. | (apply RequestLogic.host_from_url_or_override <;> assumption)

/-- regression sentinel for F9: every capitalisation of a protocol-owned name canonicalises to the spelling the duplicate check refuses -/
theorem canonical_catches_rfc_spelling :
    canonicalKey (strBytes "Sec-WebSocket-Version") = strBytes "Sec-Websocket-Version" ∧
    canonicalKey (strBytes "UPGRADE") = strBytes "Upgrade" ∧
    canonicalKey (strBytes "sec-websocket-key") = strBytes "Sec-Websocket-Key" ∧
    canonicalKey (strBytes "connection") = strBytes "Connection" ∧
    canonicalKey (strBytes "SEC-WEBSOCKET-EXTENSIONS") = strBytes "Sec-Websocket-Extensions" := by
  first | exact RequestLogic.canonical_catches_rfc_spelling .. | (apply RequestLogic.canonical_catches_rfc_spelling <;> assumption)

end WS.Props.C14
