import WS.Lemmas.HttpLogic
import WS.Gen.Skeletons
import WS.Lemmas.RequestLogic
/-
  C14 — Client handshake: connect iff the reply proves the server accepted this request.
-/
namespace WS.Props.C14
open WS WS.Http WS.Client WS.HttpLogic

/-- dial_iff: the reply is accepted exactly when status, Upgrade, Connection and Accept prove that the
    server accepted the key sent in this very request (and the compression answer is acceptable) -/
theorem dial_iff (key : Bytes) (r : Reply) :
    (∃ d, checkReply key r = .ok d) ↔
      (r.status = 101 ∧
       tokenListContainsValue (r.values "Upgrade") (strBytes "websocket") = true ∧
       tokenListContainsValue (r.values "Connection") (strBytes "upgrade") = true ∧
       r.get "Sec-Websocket-Accept" = Spec.acceptKey Gen.keyGUID key ∧
       (∀ e, (parseExtensions (r.values "Sec-Websocket-Extensions")).find? (fun e => e.name == strBytes "permessage-deflate") = some e →
          e.has (strBytes "server_no_context_takeover") = true ∧ e.has (strBytes "client_no_context_takeover") = true)) := by
  first | exact HttpLogic.checkReply_ok_iff .. | (apply HttpLogic.checkReply_ok_iff <;> assumption)

/-- URLs that are not ws / wss or that carry userinfo are refused before anything is assembled -/
theorem scheme_userinfo_refused_early (d : DCfg) (u : Url) (key : Bytes) (caller : Client.Hdr)
    (h : (u.scheme ≠ strBytes "ws" ∧ u.scheme ≠ strBytes "wss") ∨ u.hasUser = true) :
    buildRequest d u key caller = .error .malformedURL := by
  first | exact HttpLogic.bad_url_refused .. | (apply HttpLogic.bad_url_refused <;> assumption)

/-- a caller header map with a protocol-owned key is refused before any network activity -/
theorem protocol_headers_not_overridable (d : DCfg) (u : Url) (key : Bytes) (caller : Client.Hdr) (k : Bytes) (vs : List Bytes)
    (hu : (u.scheme = strBytes "ws" ∨ u.scheme = strBytes "wss") ∧ u.hasUser = false)
    (hk : (k, vs) ∈ caller) (hf : forbidden d k = true) (hh : k ≠ strBytes "Host") :
    buildRequest d u key caller = .error .duplicateHeader := by
  first | exact HttpLogic.forbidden_refused .. | (apply HttpLogic.forbidden_refused <;> assumption)

/-- stale_accept_refused: an Accept computed for any other key is refused (unless SHA-1 collides) -/
theorem stale_accept_refused (key key' : Bytes) (r : Reply)
    (ha : r.get "Sec-Websocket-Accept" = Spec.acceptKey Gen.keyGUID key')
    (hne : Spec.acceptKey Gen.keyGUID key' ≠ Spec.acceptKey Gen.keyGUID key) :
    checkReply key r = .error .badHandshake := by
  unfold checkReply
  rw [ha]
  simp [hne]

/-- the reply check and the list of protocol-owned headers in today's DialContext are the modelled ones -/
theorem dial_checks_as_modelled :
    Gen.dialChecks =
      ["resp.StatusCode != 101",
       "!tokenListContainsValue(resp.Header, \"Upgrade\", \"websocket\")",
       "!tokenListContainsValue(resp.Header, \"Connection\", \"upgrade\")",
       "resp.Header.Get(\"Sec-Websocket-Accept\") != computeAcceptKey(challengeKey)",
       "forbidden: ck == \"Upgrade\"", "forbidden: ck == \"Connection\"", "forbidden: ck == \"Sec-Websocket-Key\"",
       "forbidden: ck == \"Sec-Websocket-Version\"", "forbidden: ck == \"Sec-Websocket-Extensions\"",
       "forbidden: (ck == \"Sec-Websocket-Protocol\" && len(d.Subprotocols) > 0)"] := by decide +kernel

open WS.RequestLogic
/-- request_headers: whenever the request is assembled the protocol-owned headers carry the
    protocol's values — Upgrade: websocket, Connection: Upgrade, the key of this dial, version 13 -/
theorem request_headers (d : DCfg) (u : Url) (key : Bytes) (caller : Client.Hdr) (host : Bytes) (h : Client.Hdr)
    (hok : buildRequest d u key caller = .ok (host, h))
    (hcan : ∀ p ∈ caller, p.1 ≠ strBytes "Upgrade" ∧ p.1 ≠ strBytes "Connection" ∧ p.1 ≠ strBytes "Sec-WebSocket-Key" ∧
        p.1 ≠ strBytes "Sec-WebSocket-Version" ∧ p.1 ≠ strBytes "Sec-WebSocket-Extensions") :
    lookup h (strBytes "Upgrade") = some [strBytes "websocket"] ∧
    lookup h (strBytes "Connection") = some [strBytes "Upgrade"] ∧
    lookup h (strBytes "Sec-WebSocket-Key") = some [key] ∧
    lookup h (strBytes "Sec-WebSocket-Version") = some [strBytes "13"] := by
  first | exact RequestLogic.protocol_headers_present .. | (apply RequestLogic.protocol_headers_present <;> assumption)

/-- the permessage-deflate offer is present exactly when compression is enabled -/
theorem offer_iff_enabled (d : DCfg) (u : Url) (key : Bytes) (caller : Client.Hdr) (host : Bytes) (h : Client.Hdr)
    (hok : buildRequest d u key caller = .ok (host, h))
    (hcan : ∀ p ∈ caller, p.1 ≠ strBytes "Sec-WebSocket-Extensions") :
    (lookup h (strBytes "Sec-WebSocket-Extensions")).isSome = d.enableCompression := by
  first | exact RequestLogic.offer_iff_enabled .. | (apply RequestLogic.offer_iff_enabled <;> assumption)

/-- Host comes from the URL unless the caller overrides it -/
theorem host_from_url_or_override (d : DCfg) (u : Url) (key : Bytes) (caller : Client.Hdr) (host : Bytes) (h : Client.Hdr)
    (hok : buildRequest d u key caller = .ok (host, h))
    (hno : ∀ p ∈ caller, canonicalKey p.1 ≠ strBytes "Host") : host = u.host := by
  first | exact RequestLogic.host_from_url_or_override .. | (apply RequestLogic.host_from_url_or_override <;> assumption)

/-- regression sentinel for F9: every capitalisation of a protocol-owned name canonicalises to the spelling the duplicate check refuses -/
theorem canonical_catches_rfc_spelling :
    canonicalKey (strBytes "Sec-WebSocket-Version") = strBytes "Sec-Websocket-Version" ∧
    canonicalKey (strBytes "UPGRADE") = strBytes "Upgrade" ∧
    canonicalKey (strBytes "sec-websocket-key") = strBytes "Sec-Websocket-Key" ∧
    canonicalKey (strBytes "connection") = strBytes "Connection" ∧
    canonicalKey (strBytes "SEC-WEBSOCKET-EXTENSIONS") = strBytes "Sec-Websocket-Extensions" := by
  first | exact RequestLogic.canonical_catches_rfc_spelling .. | (apply RequestLogic.canonical_catches_rfc_spelling <;> assumption)

/-! ### non-vacuity -/
section NonVacuity
set_option linter.defProp false

/-- the challenge key of RFC 6455 §1.3 -/
def witKey : Bytes := strBytes "dGhlIHNhbXBsZSBub25jZQ=="
/-- another well-formed challenge key (the key of an earlier dial) -/
def witKeyOld : Bytes := strBytes "x3JJHMbDL1EzLkh9GBhXDw=="

/-- the Accept value of `witKey` (RFC 6455 §1.3), checked in the kernel once -/
def witAccept_rfc : Spec.acceptKey Gen.keyGUID witKey = strBytes "s3pPLMBiTxaQ9kYGzzhZRbK+xOo=" := by decide +kernel
/-- the Accept value of `witKeyOld`, checked in the kernel once -/
def witAccept_old : Spec.acceptKey Gen.keyGUID witKeyOld = strBytes "HSmrc0sMlYUkAGmm5OPpG2HaGWk=" := by decide +kernel

/-- the server's reply of RFC 6455 §1.3, with subprotocol and a permessage-deflate answer (resp.Header has canonical keys) -/
def witReply : Reply :=
  { status := 101,
    hdr := [(strBytes "Upgrade", [strBytes "websocket"]),
            (strBytes "Connection", [strBytes "Upgrade"]),
            (strBytes "Sec-Websocket-Accept", [strBytes "s3pPLMBiTxaQ9kYGzzhZRbK+xOo="]),
            (strBytes "Sec-Websocket-Protocol", [strBytes "superchat"]),
            (strBytes "Sec-Websocket-Extensions", [strBytes "permessage-deflate; server_no_context_takeover; client_no_context_takeover"])] }

/-- the parsed extension of `witReply` -/
def witExt : Ext :=
  [([], strBytes "permessage-deflate"), (strBytes "server_no_context_takeover", []), (strBytes "client_no_context_takeover", [])]

/-- witness for `dial_iff`: the five conditions hold for the RFC reply and the RFC key -/
def witReply_conds :
    witReply.status = 101 ∧
    tokenListContainsValue (witReply.values "Upgrade") (strBytes "websocket") = true ∧
    tokenListContainsValue (witReply.values "Connection") (strBytes "upgrade") = true ∧
    witReply.get "Sec-Websocket-Accept" = Spec.acceptKey Gen.keyGUID witKey ∧
    (∀ e, (parseExtensions (witReply.values "Sec-Websocket-Extensions")).find? (fun e => e.name == strBytes "permessage-deflate") = some e →
       e.has (strBytes "server_no_context_takeover") = true ∧ e.has (strBytes "client_no_context_takeover") = true) := by
  refine ⟨rfl, by decide +kernel, by decide +kernel, ?_, ?_⟩
  · rw [witAccept_rfc]; decide +kernel
  · intro e h
    have h0 : (parseExtensions (witReply.values "Sec-Websocket-Extensions")).find? (fun e => e.name == strBytes "permessage-deflate")
        = some witExt := by decide +kernel
    rw [h0] at h
    cases h
    decide +kernel

/-- non-vacuity of `dial_iff` (right to left): the right-hand side is satisfiable by a realistic 101
    reply, hence the reply is accepted -/
example : ∃ d, checkReply witKey witReply = .ok d := (dial_iff witKey witReply).2 witReply_conds

/-- non-vacuity of `dial_iff`, concretely: the RFC reply is accepted with compression on and
    subprotocol "superchat" -/
example : checkReply witKey witReply = .ok { compress := true, subprotocol := strBytes "superchat" } := by
  have h0 : (parseExtensions (witReply.values "Sec-Websocket-Extensions")).find? (fun e => e.name == strBytes "permessage-deflate")
      = some witExt := by decide +kernel
  have hp : witReply.get "Sec-Websocket-Protocol" = strBytes "superchat" := by decide +kernel
  unfold checkReply
  simp only [witAccept_rfc, h0, hp]
  rw [if_neg (by decide +kernel), if_neg (by decide +kernel)]

/-- an `Except` value that evaluates to `.ok a` is `.ok a` (lets the kernel run `buildRequest`) -/
def witOkOf {ε α : Type} [DecidableEq α] (x : Except ε α) (a : α)
    (h : (match x with | .ok a' => decide (a' = a) | .error _ => false) = true) : x = .ok a := by
  cases x with
  | ok a' => simpa using h
  | error e => simp at h

/-- a Dialer offering two subprotocols, compression enabled -/
def witD : DCfg := { subprotocols := [strBytes "chat", strBytes "superchat"], enableCompression := true }
/-- ws://example.com/chat -/
def witUrl : Url := { scheme := strBytes "ws", host := strBytes "example.com", hasUser := false }
/-- the caller's requestHeader: an Origin and a Cookie -/
def witCaller : Client.Hdr :=
  [(strBytes "Origin", [strBytes "http://example.com"]), (strBytes "Cookie", [strBytes "session=abc123"])]
/-- the header map of the request that is sent -/
def witHdr : Client.Hdr :=
  [(strBytes "Upgrade", [strBytes "websocket"]), (strBytes "Connection", [strBytes "Upgrade"]),
   (strBytes "Sec-WebSocket-Key", [witKey]), (strBytes "Sec-WebSocket-Version", [strBytes "13"]),
   (strBytes "Sec-WebSocket-Protocol", [strBytes "chat, superchat"]),
   (strBytes "Origin", [strBytes "http://example.com"]), (strBytes "Cookie", [strBytes "session=abc123"]),
   (strBytes "Sec-WebSocket-Extensions", [strBytes "permessage-deflate; server_no_context_takeover; client_no_context_takeover"])]

/-- witness for `request_headers`, `offer_iff_enabled`, `host_from_url_or_override`: the request for
    ws://example.com/chat with the RFC key and the caller's Origin and Cookie is assembled -/
def witBuild_ok : buildRequest witD witUrl witKey witCaller = .ok (strBytes "example.com", witHdr) :=
  witOkOf _ _ (by decide +kernel)

/-- non-vacuity of `request_headers`: both hypotheses hold for the ws://example.com/chat dial, and the theorem applies -/
example : lookup witHdr (strBytes "Upgrade") = some [strBytes "websocket"] ∧
    lookup witHdr (strBytes "Connection") = some [strBytes "Upgrade"] ∧
    lookup witHdr (strBytes "Sec-WebSocket-Key") = some [witKey] ∧
    lookup witHdr (strBytes "Sec-WebSocket-Version") = some [strBytes "13"] :=
  request_headers witD witUrl witKey witCaller _ witHdr witBuild_ok (by decide +kernel)

/-- non-vacuity of `offer_iff_enabled`: both hypotheses hold for the same dial (compression enabled, offer present) -/
example : (lookup witHdr (strBytes "Sec-WebSocket-Extensions")).isSome = witD.enableCompression :=
  offer_iff_enabled witD witUrl witKey witCaller _ witHdr witBuild_ok (by decide +kernel)

/-- the header map sent when compression is not enabled -/
def witHdrPlain : Client.Hdr := witHdr.take 7
/-- witness for `offer_iff_enabled` (negative side): the same dial without compression -/
def witBuildPlain_ok : buildRequest { witD with enableCompression := false } witUrl witKey witCaller =
    .ok (strBytes "example.com", witHdrPlain) :=
  witOkOf _ _ (by decide +kernel)
/-- non-vacuity of `offer_iff_enabled` (negative side): no offer when compression is disabled -/
example : (lookup witHdrPlain (strBytes "Sec-WebSocket-Extensions")).isSome = false :=
  offer_iff_enabled { witD with enableCompression := false } witUrl witKey witCaller _ witHdrPlain witBuildPlain_ok (by decide +kernel)

/-- non-vacuity of `host_from_url_or_override`: the caller sets Origin and Cookie but no Host; Host is the URL's -/
example : strBytes "example.com" = witUrl.host :=
  host_from_url_or_override witD witUrl witKey witCaller _ witHdr witBuild_ok (by decide +kernel)
/-- the hypothesis `hno` of `host_from_url_or_override` matters: a caller "host" header (any spelling) overrides -/
example : ∃ h, buildRequest witD witUrl witKey ((strBytes "host", [strBytes "internal.example.net"]) :: witCaller) =
    .ok (strBytes "internal.example.net", h) :=
  ⟨witHdr, witOkOf _ _ (by decide +kernel)⟩

/-- non-vacuity of `scheme_userinfo_refused_early` (scheme): https://example.com/chat is refused -/
example : buildRequest witD { witUrl with scheme := strBytes "https" } witKey witCaller = .error .malformedURL :=
  scheme_userinfo_refused_early _ _ _ _ (Or.inl ⟨by decide +kernel, by decide +kernel⟩)
/-- non-vacuity of `scheme_userinfo_refused_early` (userinfo): ws://user:secret@example.com/chat is refused -/
example : buildRequest witD { witUrl with hasUser := true } witKey witCaller = .error .malformedURL :=
  scheme_userinfo_refused_early _ _ _ _ (Or.inr rfl)

/-- a caller header map that tries to set the protocol version (canonical spelling, as after http.Header.Set) -/
def witCallerBad : Client.Hdr :=
  [(strBytes "Origin", [strBytes "http://example.com"]), (strBytes "Sec-Websocket-Version", [strBytes "8"])]
/-- non-vacuity of `protocol_headers_not_overridable`: all four hypotheses hold, and the dial is refused -/
example : buildRequest witD witUrl witKey witCallerBad = .error .duplicateHeader :=
  protocol_headers_not_overridable witD witUrl witKey witCallerBad (strBytes "Sec-Websocket-Version") [strBytes "8"]
    ⟨Or.inl rfl, rfl⟩ (by decide +kernel) (by decide +kernel) (by decide +kernel)
/-- non-vacuity of `protocol_headers_not_overridable` (conditional key): Sec-Websocket-Protocol is
    protocol-owned because `witD` has subprotocols -/
example : buildRequest witD witUrl witKey [(strBytes "Sec-Websocket-Protocol", [strBytes "mqtt"])] = .error .duplicateHeader :=
  protocol_headers_not_overridable witD witUrl witKey _ (strBytes "Sec-Websocket-Protocol") [strBytes "mqtt"]
    ⟨Or.inl rfl, rfl⟩ (by decide +kernel) (by decide +kernel) (by decide +kernel)

/-- a 101 whose Accept was computed for the key of an earlier dial (a replayed / cached reply) -/
def witReplyStale : Reply :=
  { status := 101,
    hdr := [(strBytes "Upgrade", [strBytes "websocket"]),
            (strBytes "Connection", [strBytes "Upgrade"]),
            (strBytes "Sec-Websocket-Accept", [strBytes "HSmrc0sMlYUkAGmm5OPpG2HaGWk="])] }
/-- witness for `stale_accept_refused`: the stale reply carries the Accept of the old key -/
def witReplyStale_accept : witReplyStale.get "Sec-Websocket-Accept" = Spec.acceptKey Gen.keyGUID witKeyOld := by
  rw [witAccept_old]; decide +kernel
/-- witness for `stale_accept_refused`: the two keys have different Accept values -/
def witAccept_ne : Spec.acceptKey Gen.keyGUID witKeyOld ≠ Spec.acceptKey Gen.keyGUID witKey := by
  rw [witAccept_old, witAccept_rfc]; decide +kernel
/-- non-vacuity of `stale_accept_refused`: both hypotheses hold for two realistic keys, and the reply is refused -/
example : checkReply witKey witReplyStale = .error .badHandshake :=
  stale_accept_refused witKey witKeyOld witReplyStale witReplyStale_accept witAccept_ne

end NonVacuity

end WS.Props.C14
