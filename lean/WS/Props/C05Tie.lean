import WS.Gen.Skeletons
/-
  C05 — translator tie: the statement text of the functions this property's model transcribes, regenerated
  from /repo by factgen on every run (WS/Gen/Skeletons.lean), equals the text the model was written against.
  A change to one of these functions breaks the obligation below; the check then searches for a failing
  input with the property's oracles (DESIGN §5).
-/
namespace WS.Props.C05Tie
open WS

/-- today's messageReader.Read (incl. the F1 repair) is the modelled one -/
theorem reader_read_as_modelled :
    Gen.stmts_messageReaderRead =
      ["c := r.c",
        "if c.messageReader != r { return 0, io.EOF }",
        "for c.readErr == nil { if c.readRemaining > 0 { if int64(len(b)) > c.readRemaining { b = b[:c.readRemaining] } n, err := c.br.Read(b) c.readErr = err if c.isServer { c.readMaskPos = maskBytes(c.readMaskKey, c.readMaskPos, b[:n]) } rem := c.readRemaining rem -= int64(n) _ = c.setReadRemaining(rem) if (c.readRemaining > 0 || !c.readFinal) && c.readErr == io.EOF { c.readErr = errUnexpectedEOF } return n, c.readErr } if c.readFinal { c.messageReader = nil return 0, io.EOF } frameType, err := c.advanceFrame() switch { case err != nil: c.readErr = err case frameType == TextMessage || frameType == BinaryMessage: c.readErr = errors.New(\"websocket: internal error, unexpected text or binary in Reader\") } }",
        "err := c.readErr",
        "if err == io.EOF && c.messageReader == r { err = errUnexpectedEOF }",
        "return 0, err"] := by
  rfl


/-- today's Conn.read — Peek(n), io.EOF mapped to the abnormal-closure error, Discard — is the modelled one (Buf.take + mapEOF) -/
theorem conn_read_as_modelled :
    Gen.stmts_connRead =
      ["p, err := c.br.Peek(n)",
        "if err == io.EOF { err = errUnexpectedEOF }",
        "_, _ = c.br.Discard(len(p))",
        "return p, err"] := by
  rfl


end WS.Props.C05Tie
