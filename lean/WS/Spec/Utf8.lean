import WS.Basic
/-
  WS.Spec.Utf8 — well-formed UTF-8 byte sequences, transcribed from the table in RFC 3629 §4:

   UTF8-1 = %x00-7F
   UTF8-2 = %xC2-DF UTF8-tail
   UTF8-3 = %xE0 %xA0-BF UTF8-tail / %xE1-EC 2( UTF8-tail ) / %xED %x80-9F UTF8-tail / %xEE-EF 2( UTF8-tail )
   UTF8-4 = %xF0 %x90-BF 2( UTF8-tail ) / %xF1-F3 3( UTF8-tail ) / %xF4 %x80-8F 2( UTF8-tail )
   UTF8-tail = %x80-BF
-/
namespace WS.Spec

def inR (b : UInt8) (lo hi : Nat) : Bool := decide (lo ≤ b.toNat) && decide (b.toNat ≤ hi)
def tail (b : UInt8) : Bool := inR b 0x80 0xBF

def validUtf8 : Bytes → Bool
  | [] => true
  | b0 :: rest =>
    if inR b0 0x00 0x7F then validUtf8 rest
    else if inR b0 0xC2 0xDF then
      match rest with
      | b1 :: r => tail b1 && validUtf8 r
      | _ => false
    else if inR b0 0xE0 0xEF then
      match rest with
      | b1 :: b2 :: r =>
        (if b0.toNat == 0xE0 then inR b1 0xA0 0xBF
         else if b0.toNat == 0xED then inR b1 0x80 0x9F
         else tail b1) && tail b2 && validUtf8 r
      | _ => false
    else if inR b0 0xF0 0xF4 then
      match rest with
      | b1 :: b2 :: b3 :: r =>
        (if b0.toNat == 0xF0 then inR b1 0x90 0xBF
         else if b0.toNat == 0xF4 then inR b1 0x80 0x8F
         else tail b1) && tail b2 && tail b3 && validUtf8 r
      | _ => false
    else false

end WS.Spec
