import WS.Basic
import WS.Model.Mask
/-
  WS.Spec.Frame — RFC 6455 §5.2 frame codec and stream grammar, written from the RFC text.
  It shares only `maskFrom` (the RFC's masking formula) with the model of the code.

  The decoder is *strict*: a non-minimal length encoding, a 64-bit length with the top bit
  set, or a truncated frame are not decodable. "Decodable" therefore includes minimality.
-/
namespace WS.Spec
open WS

structure Frame where
  fin : Bool
  rsv1 : Bool
  rsv2 : Bool
  rsv3 : Bool
  opcode : Nat
  mask : Option Key
  payload : Bytes      -- application payload, unmasked
  deriving DecidableEq, Repr

def bitSet (b : UInt8) (v : Nat) : Bool := (b.toNat / v) % 2 = 1

/-- the extended payload length: `some (len, rest)` or `none` when truncated / non-minimal / top bit. -/
def decodeLen (len7 : Nat) (rest : Bytes) : Option (Nat × Bytes) :=
  if len7 < 126 then some (len7, rest)
  else if len7 = 126 then
    if rest.length < 2 then none
    else
      let v := beVal (rest.take 2)
      if v < 126 then none else some (v, rest.drop 2)
  else
    if rest.length < 8 then none
    else
      let v := beVal (rest.take 8)
      if v < 65536 ∨ v ≥ 2 ^ 63 then none else some (v, rest.drop 8)

def decodeKey (masked : Bool) (rest : Bytes) : Option (Option Key × Bytes) :=
  if masked then
    match rest with
    | a :: b :: c :: d :: r => some (some ⟨a, b, c, d⟩, r)
    | _ => none
  else some (none, rest)

/-- decode one frame from the front of `bs`. -/
def decodeFrame (bs : Bytes) : Option (Frame × Bytes) :=
  match bs with
  | b0 :: b1 :: rest =>
    match decodeLen (b1.toNat % 128) rest with
    | none => none
    | some (len, rest1) =>
      match decodeKey (decide (b1.toNat ≥ 128)) rest1 with
      | none => none
      | some (key, rest2) =>
        if rest2.length < len then none
        else
          let raw := rest2.take len
          let payload := match key with
            | some k => maskFrom k 0 raw
            | none => raw
          some ({ fin := bitSet b0 128, rsv1 := bitSet b0 64, rsv2 := bitSet b0 32, rsv3 := bitSet b0 16,
                  opcode := b0.toNat % 16, mask := key, payload := payload }, rest2.drop len)
  | _ => none

def decodeStreamAux : Nat → Bytes → Option (List Frame)
  | _, [] => some []
  | 0, _ :: _ => none
  | fuel + 1, bs =>
    match decodeFrame bs with
    | none => none
    | some (f, rest) => (decodeStreamAux fuel rest).map (f :: ·)

/-- a byte string is a sequence of whole frames. -/
def decodeStream (bs : Bytes) : Option (List Frame) := decodeStreamAux bs.length bs

/-- whole frames followed by at most one proper prefix of a frame: returns the whole frames. -/
def decodePrefixAux : Nat → Bytes → List Frame
  | 0, _ => []
  | fuel + 1, bs =>
    match decodeFrame bs with
    | none => []
    | some (f, rest) => f :: decodePrefixAux fuel rest

def isControlOp (o : Nat) : Bool := o == 8 || o == 9 || o == 10
def isDataOp (o : Nat) : Bool := o == 1 || o == 2

structure Ctx where
  senderIsClient : Bool
  negotiated : Bool

/-- per-frame rules of RFC 6455 §5 / RFC 7692 §6. -/
def frameOk (ctx : Ctx) (f : Frame) : Bool :=
  !f.rsv2 && !f.rsv3 && (f.mask.isSome == ctx.senderIsClient) &&
  (if isControlOp f.opcode then f.fin && decide (f.payload.length ≤ 125) && !f.rsv1
   else if isDataOp f.opcode then (!f.rsv1 || ctx.negotiated)
   else if f.opcode == 0 then !f.rsv1
   else false)

/-- fragmentation grammar: `inMsg` = a data message is open. Prefix-closed. -/
def grammar : Bool → List Frame → Bool
  | _, [] => true
  | inMsg, f :: fs =>
    if isControlOp f.opcode then grammar inMsg fs
    else if f.opcode == 0 then inMsg && grammar (!f.fin) fs
    else !inMsg && grammar (!f.fin) fs

def endsInMsg : Bool → List Frame → Bool
  | inMsg, [] => inMsg
  | inMsg, f :: fs => if isControlOp f.opcode then endsInMsg inMsg fs else endsInMsg (!f.fin) fs

def WellFormed (ctx : Ctx) (fs : List Frame) : Prop :=
  (∀ f ∈ fs, frameOk ctx f = true) ∧ grammar false fs = true

instance (ctx : Ctx) (fs : List Frame) : Decidable (WellFormed ctx fs) := by
  unfold WellFormed; infer_instance

structure Msg where
  opcode : Nat
  compressed : Bool
  payload : Bytes      -- concatenated frame payloads (still deflated when `compressed`)
  deriving DecidableEq, Repr

/-- the complete data messages a frame list encodes (open message at the end dropped). -/
def messagesAux : Option Msg → List Frame → List Msg
  | _, [] => []
  | cur, f :: fs =>
    if isControlOp f.opcode then messagesAux cur fs
    else
      let m : Msg := match cur with
        | some m => { m with payload := m.payload ++ f.payload }
        | none => { opcode := f.opcode, compressed := f.rsv1, payload := f.payload }
      if f.fin then m :: messagesAux none fs else messagesAux (some m) fs

def messages (fs : List Frame) : List Msg := messagesAux none fs

def controls (fs : List Frame) : List (Nat × Bytes) :=
  (fs.filter (fun f => isControlOp f.opcode)).map (fun f => (f.opcode, f.payload))

/-- index-free "close is last": no frame follows a close frame. -/
def closeIsLast : List Frame → Bool
  | [] => true
  | f :: fs => if f.opcode == 8 then fs.isEmpty else closeIsLast fs

end WS.Spec
