import WS.Basic
/-
  WS.Spec.Sha1 / Base64 — FIPS 180-4 SHA-1 and RFC 4648 base64 (standard alphabet, padding),
  written from the specifications; used to state what Sec-WebSocket-Accept must be.
-/
namespace WS.Spec

def rotl (x : UInt32) (n : UInt32) : UInt32 := (x <<< n) ||| (x >>> (32 - n))

def be32 (a b c d : UInt8) : UInt32 :=
  (a.toUInt32 <<< 24) ||| (b.toUInt32 <<< 16) ||| (c.toUInt32 <<< 8) ||| d.toUInt32

def words : Bytes → List UInt32
  | a :: b :: c :: d :: rest => be32 a b c d :: words rest
  | _ => []

/-- message padding: 0x80, zeros, 64-bit big-endian bit length -/
def sha1Pad (m : Bytes) : Bytes :=
  let l := m.length
  let k := (119 - l % 64) % 64     -- number of zero bytes so that total ≡ 0 mod 64
  m ++ [0x80] ++ List.replicate k 0 ++ WS.beBytes 8 (l * 8)

/-- message schedule: extend 16 words to 80 -/
def schedule (w : Array UInt32) : Array UInt32 := Id.run do
  let mut w := w
  for i in [16:80] do
    w := w.push (rotl (w[i-3]! ^^^ w[i-8]! ^^^ w[i-14]! ^^^ w[i-16]!) 1)
  return w

structure H5 where
  a : UInt32
  b : UInt32
  c : UInt32
  d : UInt32
  e : UInt32

def sha1Block (h : H5) (block : List UInt32) : H5 := Id.run do
  let w := schedule block.toArray
  let mut a := h.a
  let mut b := h.b
  let mut c := h.c
  let mut d := h.d
  let mut e := h.e
  for i in [0:80] do
    let (f, k) : UInt32 × UInt32 :=
      if i < 20 then ((b &&& c) ||| ((~~~ b) &&& d), 0x5A827999)
      else if i < 40 then (b ^^^ c ^^^ d, 0x6ED9EBA1)
      else if i < 60 then ((b &&& c) ||| (b &&& d) ||| (c &&& d), 0x8F1BBCDC)
      else (b ^^^ c ^^^ d, 0xCA62C1D6)
    let t := rotl a 5 + f + e + k + w[i]!
    e := d
    d := c
    c := rotl b 30
    b := a
    a := t
  return ⟨h.a + a, h.b + b, h.c + c, h.d + d, h.e + e⟩

def chunks16 : Nat → List UInt32 → List (List UInt32)
  | 0, _ => []
  | fuel + 1, ws => if ws.isEmpty then [] else ws.take 16 :: chunks16 fuel (ws.drop 16)

def u32Bytes (x : UInt32) : Bytes :=
  [(x >>> 24).toUInt8, (x >>> 16).toUInt8, (x >>> 8).toUInt8, x.toUInt8]

def sha1 (m : Bytes) : Bytes :=
  let ws := words (sha1Pad m)
  let h := (chunks16 (ws.length + 1) ws).foldl sha1Block ⟨0x67452301, 0xEFCDAB89, 0x98BADCFE, 0x10325476, 0xC3D2E1F0⟩
  u32Bytes h.a ++ u32Bytes h.b ++ u32Bytes h.c ++ u32Bytes h.d ++ u32Bytes h.e

def b64Char (n : Nat) : UInt8 :=
  if n < 26 then UInt8.ofNat (65 + n)
  else if n < 52 then UInt8.ofNat (97 + n - 26)
  else if n < 62 then UInt8.ofNat (48 + n - 52)
  else if n = 62 then 43 else 47

def base64 : Bytes → Bytes
  | a :: b :: c :: rest =>
    let n := a.toNat * 65536 + b.toNat * 256 + c.toNat
    [b64Char (n / 262144), b64Char (n / 4096 % 64), b64Char (n / 64 % 64), b64Char (n % 64)] ++ base64 rest
  | [a, b] =>
    let n := a.toNat * 65536 + b.toNat * 256
    [b64Char (n / 262144), b64Char (n / 4096 % 64), b64Char (n / 64 % 64), 61]
  | [a] =>
    let n := a.toNat * 65536
    [b64Char (n / 262144), b64Char (n / 4096 % 64), 61, 61]
  | [] => []

/-- RFC 6455 §4.2.2: Sec-WebSocket-Accept for a given Sec-WebSocket-Key, with the GUID as parameter -/
def acceptKey (guid key : Bytes) : Bytes := base64 (sha1 (key ++ guid))

end WS.Spec
