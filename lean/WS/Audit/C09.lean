import WS.Props.C09
open WS.Props.C09
#print axioms close_is_last
#print axioms no_byte_after_close
#print axioms writeErr_after_close_released
#print axioms only_checkFail_after_close
#print axioms write_wellLocked
#print axioms writeControl_wellLocked
#print axioms seq_nothing_after_close
#print axioms close_sets_sticky
#print axioms seq_requests_fail
