import WS.Model.Http
import WS.Model.Writer
import WS.Model.Reader
import WS.Spec.Sha1
import WS.Gen.Tables
/-
  WS.Model.Server — server.go: Upgrader.Upgrade as a decision function, selectSubprotocol,
  Subprotocols, checkSameOrigin, the 101 response, the choice of reader / write buffer, and
  brNetConn.Read.  `net/http` (hijacking, http.Error) and `net/url` are environment: the result
  of `url.Parse(origin).Host` and of the hijack are inputs.
-/
namespace WS.Server
open WS WS.Http

structure Req where
  method : Bytes
  host : Bytes
  hdr : List (Bytes × List Bytes)      -- r.Header: canonical key ↦ values
  deriving Repr

structure UCfg where
  subprotocols : Option (List Bytes)   -- Upgrader.Subprotocols (none = nil)
  enableCompression : Bool
  checkOrigin : Option Bool            -- none = default policy; some b = application func returning b
  readBufferSize : Int
  writeBufferSize : Int
  pool : Bool
  handshakeTimeout : Bool              -- HandshakeTimeout > 0
  deriving Repr

structure Hijack where
  ok : Bool          -- Hijack() succeeded
  brSize : Nat       -- brw.Reader.Size()
  buffered : Nat     -- brw.Reader.Buffered()
  availLen : Nat     -- len(brw.Writer.AvailableBuffer())
  deriving Repr

def Req.values (r : Req) (name : String) : List Bytes :=
  match r.hdr.find? (fun p => p.1 == strBytes name) with
  | some (_, vs) => vs
  | none => []

/-- Header.Get: first value of the canonical key -/
def Req.get (r : Req) (name : String) : Bytes := (r.values name).headD []

/-- checkSameOrigin; `ohost` = url.Parse(origin[0]).Host, none when parsing fails -/
def checkSameOrigin (r : Req) (ohost : Option Bytes) : Bool :=
  match r.values "Origin" with
  | [] => true
  | _ =>
    match ohost with
    | none => false
    | some h => equalASCIIFold h r.host

abbrev RespHdr := Option (List (Bytes × List Bytes))

def RespHdr.get (rh : RespHdr) (name : String) : Bytes :=
  match rh with
  | none => []
  | some l => match l.find? (fun p => p.1 == strBytes name) with
    | some (_, v :: _) => v
    | _ => []

def RespHdr.has (rh : RespHdr) (name : String) : Bool :=
  match rh with
  | none => false
  | some l => l.any (fun p => p.1 == strBytes name)

def selectSubprotocol (u : UCfg) (r : Req) (rh : RespHdr) : Bytes :=
  match u.subprotocols with
  | some server =>
    match (subprotocols (r.get "Sec-Websocket-Protocol")).find? (fun c => server.contains c) with
    | some c => c
    | none => []
  | none => rh.get "Sec-Websocket-Protocol"

inductive Reject
  | noConnectionUpgrade   -- 400
  | noUpgradeWebsocket    -- 426 + Upgrade: websocket
  | notGet                -- 405
  | badVersion            -- 400
  | appExtensions         -- 500
  | origin                -- 403
  | badKey                -- 400
  | hijack                -- 500
  deriving DecidableEq, Repr

def Reject.status : Reject → Nat
  | .noConnectionUpgrade => 400
  | .noUpgradeWebsocket => 426
  | .notGet => 405
  | .badVersion => 400
  | .appExtensions => 500
  | .origin => 403
  | .badKey => 400
  | .hijack => 500

structure Accepted where
  lines : List Bytes        -- the 101 response split at CRLF (without the final empty line)
  subprotocol : Bytes
  compress : Bool
  reuseReader : Bool        -- the hijacked bufio.Reader becomes the connection's reader
  wrapConn : Bool           -- netConn is wrapped in brNetConn
  readerSize : Nat          -- size of the connection's bufio.Reader
  wbufLen : Nat             -- c.writeBufSize
  deriving Repr

def crlf : Bytes := [13, 10]

def scrub (v : Bytes) : Bytes := v.map (fun b => if b.toNat ≤ 31 then 32 else b)

/-- the bytes of the 101 response -/
def response101 (accept subprotocol : Bytes) (compress : Bool) (rh : RespHdr) : Bytes :=
  strBytes "HTTP/1.1 101 Switching Protocols\r\nUpgrade: websocket\r\nConnection: Upgrade\r\nSec-WebSocket-Accept: "
    ++ accept ++ crlf ++
  (if subprotocol.isEmpty then [] else strBytes "Sec-WebSocket-Protocol: " ++ scrub subprotocol ++ crlf) ++
  (if compress then strBytes "Sec-WebSocket-Extensions: permessage-deflate; server_no_context_takeover; client_no_context_takeover\r\n" else []) ++
  (match rh with
   | none => []
   | some l => (l.filter (fun p => p.1 != strBytes "Sec-Websocket-Protocol")).flatMap
       (fun p => p.2.flatMap (fun v => p.1 ++ strBytes ": " ++ scrub v ++ crlf))) ++
  crlf

/-- split at CRLF (an independent, naive line splitter used to state "no injected lines") -/
def splitCRLF : Bytes → Bytes → List Bytes
  | [], cur => [cur.reverse]
  | 13 :: 10 :: rest, cur => cur.reverse :: splitCRLF rest []
  | b :: rest, cur => splitCRLF rest (b :: cur)

/-- Upgrader.Upgrade up to and including the 101 bytes -/
def upgrade (u : UCfg) (r : Req) (rh : RespHdr) (ohost : Option Bytes) (hj : Hijack) : Except Reject (Bytes × Accepted) :=
  if !tokenListContainsValue (r.values "Connection") (strBytes "upgrade") then .error .noConnectionUpgrade
  else if !tokenListContainsValue (r.values "Upgrade") (strBytes "websocket") then .error .noUpgradeWebsocket
  else if r.method != strBytes "GET" then .error .notGet
  else if !tokenListContainsValue (r.values "Sec-Websocket-Version") (strBytes "13") then .error .badVersion
  else if rh.has "Sec-Websocket-Extensions" then .error .appExtensions
  else if !(match u.checkOrigin with | some b => b | none => checkSameOrigin r ohost) then .error .origin
  else if !isValidChallengeKey (r.get "Sec-Websocket-Key") then .error .badKey
  else
    let sub := selectSubprotocol u r rh
    let compress := u.enableCompression &&
      (parseExtensions (r.values "Sec-Websocket-Extensions")).any (fun e => e.name == strBytes "permessage-deflate")
    if !hj.ok then .error .hijack
    else
      let reuse := u.readBufferSize == 0 && hj.brSize > 256
      let wrap := !reuse && hj.buffered > 0
      let reuseW := !u.pool && u.writeBufferSize == 0 && hj.availLen ≥ maxFrameHeaderSize + 256
      let w := newW true u.writeBufferSize u.pool compress (if reuseW then some hj.availLen else none)
      let bytes := response101 (Spec.acceptKey Gen.keyGUID (r.get "Sec-Websocket-Key")) sub compress rh
      .ok (bytes, { lines := (splitCRLF bytes []).dropLast.dropLast, subprotocol := sub, compress, reuseReader := reuse,
                    wrapConn := wrap, readerSize := if reuse then hj.brSize else readBufSize u.readBufferSize,
                    wbufLen := w.wbufLen })

/-! ### brNetConn.Read: serve the hijacked reader's buffered bytes first, never over-read -/

structure BrConn where
  buffered : Option Bytes   -- b.br != nil: bytes still buffered in the hijacked reader
  deriving Repr

/-- Read(p) with len(p) = k: (bytes delivered from the buffer, or none = the read goes to the socket) -/
def BrConn.read (b : BrConn) (k : Nat) : Option Bytes × BrConn :=
  match b.buffered with
  | some buf =>
    let n := min k buf.length
    let rest := buf.drop n
    (some (buf.take n), { buffered := if rest.isEmpty then none else some rest })
  | none => (none, b)

end WS.Server
