/-
  WS.Model.Sched — interleaving semantics of the write-side lock protocol (conn.go `write`,
  `WriteControl`): any number of threads, every interleaving. The atomic actions are the ones
  recognised by factgen in today's source (`WS.Gen.writeSkeleton`, `WS.Gen.writeControlSkeleton`);
  `WellLocked` (Props/C09) is the decidable condition on those generated lists under which the
  `Step` relation below is the semantics of the code.
-/
namespace WS.Sched

inductive Phase
  | idle            -- not in a frame write
  | waiting         -- wants the mutex
  | lockedUnchecked -- holds mu, has not looked at writeErr yet
  | lockedChecked   -- holds mu, saw writeErr = nil
  | deadlineSet     -- holds mu, SetWriteDeadline succeeded
  | wrote (close : Bool) -- holds mu, transport write done, not yet marked/released
  | marked          -- holds mu, ErrCloseSent recorded if needed
  deriving DecidableEq, Repr

structure G where
  holder   : Option Nat
  writeErr : Bool               -- c.writeErr != nil
  wire     : List Bool          -- one entry per frame fully written; true = close frame
  phase    : Nat → Phase

def upd (f : Nat → Phase) (t : Nat) (p : Phase) : Nat → Phase := fun u => if u = t then p else f u

inductive Step : G → G → Prop
  | want (g t) (h : g.phase t = .idle) : Step g { g with phase := upd g.phase t .waiting }
  | acquire (g t) (h : g.phase t = .waiting) (hf : g.holder = none) :
      Step g { g with holder := some t, phase := upd g.phase t .lockedUnchecked }
  | timeout (g t) (h : g.phase t = .waiting) : Step g { g with phase := upd g.phase t .idle }
  | checkFail (g t) (h : g.phase t = .lockedUnchecked) (he : g.writeErr = true) :
      Step g { g with holder := none, phase := upd g.phase t .idle }
  | checkOk (g t) (h : g.phase t = .lockedUnchecked) (he : g.writeErr = false) :
      Step g { g with phase := upd g.phase t .lockedChecked }
  | deadlineOk (g t) (h : g.phase t = .lockedChecked) :
      Step g { g with phase := upd g.phase t .deadlineSet }
  | deadlineFail (g t) (h : g.phase t = .lockedChecked) :
      Step g { g with writeErr := true, holder := none, phase := upd g.phase t .idle }
  | writeOk (g t) (c : Bool) (h : g.phase t = .deadlineSet) :
      Step g { g with wire := g.wire ++ [c], phase := upd g.phase t (.wrote c) }
  | writeFail (g t) (h : g.phase t = .deadlineSet) :
      Step g { g with writeErr := true, holder := none, phase := upd g.phase t .idle }
  | mark (g t) (c : Bool) (h : g.phase t = .wrote c) :
      Step g { g with writeErr := g.writeErr || c, phase := upd g.phase t .marked }
  | release (g t) (h : g.phase t = .marked) :
      Step g { g with holder := none, phase := upd g.phase t .idle }

def holds (p : Phase) : Bool :=
  match p with
  | .idle | .waiting => false
  | _ => true

/-- close frame is last: every element of the wire except possibly the last is a non-close frame -/
def CloseLast (w : List Bool) : Prop := ∀ i, i + 1 < w.length → w[i]? = some false

structure Inv (g : G) : Prop where
  lock   : ∀ t, holds (g.phase t) = true → g.holder = some t
  closeL : CloseLast g.wire
  -- if a close frame is on the wire and writeErr is still nil, the closer is still inside its critical section
  closer : true ∈ g.wire → g.writeErr = false → ∃ t, g.holder = some t ∧ g.phase t = .wrote true
  -- whoever holds the lock past the check knows no close is on the wire
  clean  : ∀ t, (g.phase t = .lockedChecked ∨ g.phase t = .deadlineSet) → true ∉ g.wire

def init : G := { holder := none, writeErr := false, wire := [], phase := fun _ => .idle }

theorem inv_init : Inv init := by
  constructor <;> simp [init, holds, CloseLast]

theorem closeLast_append {w : List Bool} (h : CloseLast w) (hn : true ∉ w) (c : Bool) : CloseLast (w ++ [c]) := by
  intro i hi
  simp at hi
  have : i < w.length := by omega
  rw [List.getElem?_append_left this]
  have hx : w[i] ∈ w := List.getElem_mem this
  rw [List.getElem?_eq_getElem this]
  cases hw : w[i] with
  | false => rfl
  | true => exact absurd (hw ▸ hx) hn

@[simp] theorem upd_same (f : Nat → Phase) (t : Nat) (p : Phase) : upd f t p t = p := by simp [upd]
theorem upd_other (f : Nat → Phase) {t u : Nat} (p : Phase) (e : u ≠ t) : upd f t p u = f u := by simp [upd, e]

/-- Frame lemma: a step by thread `t` that keeps `wire`, does not clear `writeErr`,
    and moves `t` to a phase `p`; `keep` says the lock-related facts for `t` itself. -/
theorem inv_local {g : G} (hi : Inv g) (t : Nat) (p : Phase) (holder' : Option Nat) (we' : Bool)
    (hwe : g.writeErr = true → we' = true)
    -- other threads that hold the lock keep holding it
    (hhold : ∀ u, u ≠ t → holds (g.phase u) = true → holder' = some u)
    (hself : holds p = true → holder' = some t)
    -- t is not (any more) a thread that claims "no close on wire" unless it was before
    (hclean : (p = .lockedChecked ∨ p = .deadlineSet) → true ∉ g.wire)
    -- closer obligation
    (hcloser : true ∈ g.wire → we' = false → ∃ u, holder' = some u ∧ upd g.phase t p u = .wrote true) :
    Inv { g with holder := holder', writeErr := we', phase := upd g.phase t p } := by
  obtain ⟨hl, hc, hcl, hcn⟩ := hi
  refine ⟨?_, hc, hcloser, ?_⟩
  · intro u hu
    by_cases e : u = t
    · subst e; exact hself (by simpa using hu)
    · exact hhold u e (by simpa [upd_other _ _ e] using hu)
  · intro u hu
    by_cases e : u = t
    · subst e; exact hclean (by simpa using hu)
    · exact hcn u (by simpa [upd_other _ _ e] using hu)

theorem holder_unique {g : G} (hi : Inv g) {t u : Nat} (ht : holds (g.phase t) = true)
    (hu : holds (g.phase u) = true) : u = t := by
  have a := hi.lock t ht; have b := hi.lock u hu; simp_all

theorem inv_step {g g' : G} (hi : Inv g) (hs : Step g g') : Inv g' := by
  have hl := hi.lock; have hcl := hi.closer; have hcn := hi.clean
  cases hs with
  | want t h =>
    apply inv_local hi t .waiting g.holder g.writeErr (fun x => x) (fun u _ hu => hl u hu) (by simp [holds]) (by simp)
    intro a b; obtain ⟨u, h1, h2⟩ := hcl a b; refine ⟨u, h1, ?_⟩
    have : u ≠ t := by intro e; subst e; simp [h] at h2
    simpa [upd_other _ _ this] using h2
  | acquire t h hf =>
    apply inv_local hi t .lockedUnchecked (some t) g.writeErr (fun x => x)
      (fun u _ hu => by have := hl u hu; simp_all) (by simp) (by simp)
    intro a b; obtain ⟨u, h1, _⟩ := hcl a b; simp_all
  | timeout t h =>
    apply inv_local hi t .idle g.holder g.writeErr (fun x => x) (fun u _ hu => hl u hu) (by simp [holds]) (by simp)
    intro a b; obtain ⟨u, h1, h2⟩ := hcl a b; refine ⟨u, h1, ?_⟩
    have : u ≠ t := by intro e; subst e; simp [h] at h2
    simpa [upd_other _ _ this] using h2
  | checkFail t h he =>
    have ht : holds (g.phase t) = true := by simp [h, holds]
    apply inv_local hi t .idle none g.writeErr (fun x => x)
      (fun u e hu => absurd (holder_unique hi ht hu) e) (by simp [holds]) (by simp)
    intro _ b; simp_all
  | checkOk t h he =>
    have ht : holds (g.phase t) = true := by simp [h, holds]
    have nowire : true ∉ g.wire := by
      intro hw; obtain ⟨v, h1, h2⟩ := hcl hw he
      have hv : holds (g.phase v) = true := by simp [h2, holds]
      have := holder_unique hi ht hv; subst this; simp [h] at h2
    apply inv_local hi t .lockedChecked g.holder g.writeErr (fun x => x) (fun u _ hu => hl u hu)
      (fun _ => hl t ht) (fun _ => nowire)
    intro a _; exact absurd a nowire
  | deadlineOk t h =>
    have ht : holds (g.phase t) = true := by simp [h, holds]
    have nowire := hcn t (Or.inl h)
    apply inv_local hi t .deadlineSet g.holder g.writeErr (fun x => x) (fun u _ hu => hl u hu)
      (fun _ => hl t ht) (fun _ => nowire)
    intro a _; exact absurd a nowire
  | deadlineFail t h =>
    have ht : holds (g.phase t) = true := by simp [h, holds]
    apply inv_local hi t .idle none true (fun _ => rfl)
      (fun u e hu => absurd (holder_unique hi ht hu) e) (by simp [holds]) (by simp)
    intro _ b; simp at b
  | writeOk t c h =>
    have ht : holds (g.phase t) = true := by simp [h, holds]
    have nowire := hcn t (Or.inr h)
    refine ⟨?_, closeLast_append hi.closeL nowire c, ?_, ?_⟩
    · intro u hu
      by_cases e : u = t
      · subst e; exact hl u ht
      · exact hl u (by simpa [upd_other _ _ e] using hu)
    · intro a _
      have : c = true := by
        simp at a; rcases a with a | a
        · exact absurd a nowire
        · exact a
      exact ⟨t, hl t ht, by simp [this]⟩
    · intro u hu
      by_cases e : u = t
      · subst e; simp at hu
      · have hu' : g.phase u = .lockedChecked ∨ g.phase u = .deadlineSet := by
          simpa [upd_other _ _ e] using hu
        have : holds (g.phase u) = true := by rcases hu' with h' | h' <;> simp [h', holds]
        exact absurd (holder_unique hi ht this) e
  | writeFail t h =>
    have ht : holds (g.phase t) = true := by simp [h, holds]
    apply inv_local hi t .idle none true (fun _ => rfl)
      (fun u e hu => absurd (holder_unique hi ht hu) e) (by simp [holds]) (by simp)
    intro _ b; simp at b
  | mark t c h =>
    have ht : holds (g.phase t) = true := by simp [h, holds]
    apply inv_local hi t .marked g.holder (g.writeErr || c) (by intro x; simp [x]) (fun u _ hu => hl u hu)
      (fun _ => hl t ht) (by simp)
    intro a b
    have hb : g.writeErr = false ∧ c = false := by simpa using b
    obtain ⟨u, _, h2⟩ := hcl a hb.1
    have hu : holds (g.phase u) = true := by simp [h2, holds]
    have := holder_unique hi ht hu; subst this
    rw [h] at h2; cases h2; simp at hb
  | release t h =>
    have ht : holds (g.phase t) = true := by simp [h, holds]
    apply inv_local hi t .idle none g.writeErr (fun x => x)
      (fun u e hu => absurd (holder_unique hi ht hu) e) (by simp [holds]) (by simp)
    intro a b
    obtain ⟨u, _, h2⟩ := hcl a b
    have hu : holds (g.phase u) = true := by simp [h2, holds]
    have := holder_unique hi ht hu; subst this
    rw [h] at h2; cases h2

inductive Reach : G → Prop
  | init : Reach init
  | step {g g'} : Reach g → Step g g' → Reach g'

/-- C09 core: in every reachable state of every interleaving of any number of threads,
    a close frame can only be the last frame on the wire. -/
theorem close_is_last {g : G} (h : Reach g) : CloseLast g.wire := by
  have : Inv g := by
    induction h with
    | init => exact inv_init
    | step _ hs ih => exact inv_step ih hs
  exact this.closeL

end WS.Sched
