import WS.Basic
/-
  WS.Model.Trunc — compression.go `truncWriter.Write`: forwards all but the last four bytes of
  the stream written to it. `p` holds the (up to four) bytes kept back; `out` is what the
  underlying writer has received so far (the model of `w.w.Write` calls, error-free case).
-/
namespace WS

structure Trunc where
  p : Bytes := []        -- w.p[:w.n]
  out : List Bytes := [] -- the Write calls made on the underlying writer, in order
  deriving Repr

/-- truncWriter.Write(q) -/
def Trunc.write (w : Trunc) (q : Bytes) : Trunc :=
  -- fill buffer first for simplicity
  let n := min (4 - w.p.length) q.length
  let p1 := w.p ++ q.take n
  let q1 := q.drop n
  if q1.isEmpty then { w with p := p1 }
  else
    let m := min q1.length 4
    -- w.w.Write(w.p[:m]); slide; keep the last m bytes of q1; w.w.Write(q1[:len-m])
    let out1 := p1.take m
    let p2 := p1.drop m ++ q1.drop (q1.length - m)
    { p := p2, out := w.out ++ [out1, q1.take (q1.length - m)] }

def Trunc.forwarded (w : Trunc) : Bytes := w.out.flatten

end WS
