/-
  WS.Model.Plan — the transport-operation plan of a handshake (client.go DialContext incl.
  netDialWithDeadline and httpProxyDialer for a plain HTTP CONNECT proxy; server.go Upgrade after
  the hijack), and what happens when the k-th operation fails: nothing more is done except closing
  the connection that was obtained, and no Conn is returned.
  Operations inside crypto/tls and x/net/proxy (SOCKS5) are not modelled (C18 observes them).
-/
namespace WS.Plan

inductive HOp
  | sd0    -- SetDeadline(zero)
  | sdD    -- SetDeadline(deadline)
  | swd0   -- SetWriteDeadline(zero)
  | swdD   -- SetWriteDeadline(deadline)
  | w      -- Write
  | r      -- one or more Reads
  | c      -- Close
  deriving DecidableEq, Repr

structure Cfg where
  server : Bool     -- Upgrade (true) or Dial (false)
  timeout : Bool    -- HandshakeTimeout / context deadline configured
  proxy : Bool      -- Dial through a plain HTTP CONNECT proxy
  deriving DecidableEq, Repr

/-- the operations of a fault-free handshake on the net.Conn, in order -/
def plan (cfg : Cfg) : List HOp :=
  if cfg.server then
    (if cfg.timeout then [.swdD, .w, .swd0] else [.sd0, .w])
  else
    (if cfg.timeout then [.sdD] else []) ++ (if cfg.proxy then [.w, .r] else []) ++ [.w, .r, .sd0]

structure Outcome where
  ops : List HOp
  returned : Bool    -- a *Conn is returned (with a nil error)
  closed : Bool      -- the net.Conn was closed
  deriving DecidableEq, Repr

/-- run the plan with the k-th operation failing (none = no fault) -/
def exec (p : List HOp) (failAt : Option Nat) : Outcome :=
  match failAt with
  | none => { ops := p, returned := true, closed := false }
  | some k => if k < p.length then { ops := p.take (k + 1) ++ [.c], returned := false, closed := true }
              else { ops := p, returned := true, closed := false }

def isDeadlineOp : HOp → Bool
  | .sd0 | .sdD | .swd0 | .swdD => true
  | _ => false

end WS.Plan
