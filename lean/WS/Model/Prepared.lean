import WS.Model.Writer
import WS.Spec.Frame
/-
  WS.Model.Prepared — prepared.go: NewPreparedMessage, PreparedMessage.frame (cache keyed by
  (isServer, compress, level); each entry rendered once through a private Conn with a
  4096-byte write buffer and a transport that never fails), and Conn.WritePreparedMessage.

  Uncompressed images are *computed* by running the Writer model on the private connection.
  A compressed image depends on how compress/flate chunks its output, which the model does
  not know; it is therefore an environment answer that is *validated* against the frame
  spec (`imageOk`) before it is cached.
-/
namespace WS

structure PKey where
  isServer : Bool
  compress : Bool
  level : Int
  deriving DecidableEq, Repr

structure PM where
  t : Int
  data : Bytes
  cache : List (PKey × Bytes) := []
  deriving Repr

/-- the private connection of `frame()` -/
def prepConn (k : PKey) (keys : Bytes) (keyIdx : Nat) : W :=
  { isServer := k.isServer, wbufLen := defaultWriteBufferSize + maxFrameHeaderSize, pool := false,
    nego := k.compress, level := k.level, bufRef := .fresh, keys, keyIdx }

/-- render an uncompressed key: (error, image, key index afterwards) -/
def renderPlain (k : PKey) (t : Int) (data : Bytes) (keys : Bytes) (keyIdx : Nat) : Option WErr × Bytes × Nat :=
  let (e, c) := writeMessage (prepConn k keys keyIdx) t data
  (e, c.wire, c.keyIdx)

/-- the keys of the frames of an image are consecutive draws from the key source -/
def keysConsecutive (keys : Bytes) : Nat → List Spec.Frame → Bool
  | _, [] => true
  | i, f :: fs =>
    let (k, _) := newKey { isServer := false, wbufLen := 0, pool := false, nego := false, keys, keyIdx := i }
    (f.mask == some k) && keysConsecutive keys (i + 1) fs

/-- validity of a compressed image supplied by the environment -/
def imageOk (k : PKey) (t : Int) (full : Bytes) (keys : Bytes) (keyIdx : Nat) (img : Bytes) : Bool :=
  match Spec.decodeStream img with
  | none => false
  | some fs =>
    decide (Spec.WellFormed ⟨!k.isServer, true⟩ fs) &&
    (Spec.messages fs == [⟨t.toNat, true, full.take (full.length - 4)⟩]) &&
    (full.drop (full.length - 4) == sync4) && decide (4 ≤ full.length) &&
    !(Spec.endsInMsg false fs) &&
    (fs.all (fun f => !Spec.isControlOp f.opcode)) &&
    (if k.isServer then true else keysConsecutive keys keyIdx fs)

def PM.lookup (pm : PM) (k : PKey) : Option Bytes := (pm.cache.find? (·.1 == k)).map (·.2)

/-- NewPreparedMessage -/
def newPrepared (t : Int) (data : Bytes) (keys : Bytes) (keyIdx : Nat) : Except WErr PM × Nat :=
  let k : PKey := ⟨true, false, 0⟩
  match renderPlain k t data keys keyIdx with
  | (some e, _, ki) => (.error e, ki)
  | (none, img, ki) => (.ok { t, data, cache := [(k, img)] }, ki)

def prepKey (s : W) (pm : PM) : PKey := ⟨s.isServer, s.nego && s.enableWC && isData pm.t, s.level⟩

/-- Conn.WritePreparedMessage. `env` = (image, full deflate stream) for a compressed key not yet cached;
    `dnp`, `fullp` = the flate answers for the implicit close of an open compressed writer (data messages). -/
def writePrepared (s : W) (pm : PM) (env : Option (Bytes × Bytes)) (dnp : List Bytes := []) (fullp : Bytes := []) :
    Option WErr × W × PM :=
  let k := prepKey s pm
  match pm.lookup k with
  | some img =>
    let (e, s) := writePreparedImage s pm.t img dnp fullp
    (e, s, pm)
  | none =>
    if k.compress then
      match env with
      | none => (some .deflateMismatch, s, pm)
      | some (img, full) =>
        if imageOk k pm.t full s.keys s.keyIdx img then
          let nframes := match Spec.decodeStream img with | some fs => fs.length | none => 0
          let s := if k.isServer then s else { s with keyIdx := s.keyIdx + nframes }
          let pm := { pm with cache := pm.cache ++ [(k, img)] }
          let (e, s) := writePreparedImage s pm.t img dnp fullp
          (e, s, pm)
        else (some .deflateMismatch, s, pm)
    else
      match renderPlain k pm.t pm.data s.keys s.keyIdx with
      | (some e, img, ki) =>
        -- frame() returns the error the first time (and caches whatever was rendered)
        (some e, { s with keyIdx := ki }, { pm with cache := pm.cache ++ [(k, img)] })
      | (none, img, ki) =>
        let s := { s with keyIdx := ki }
        let pm := { pm with cache := pm.cache ++ [(k, img)] }
        let (e, s) := writePreparedImage s pm.t img dnp fullp
        (e, s, pm)

end WS
