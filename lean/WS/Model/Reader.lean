import WS.Model.Writer
import WS.Model.Source
import WS.Spec.Utf8
import WS.Gen.Tables
/-
  WS.Model.Reader — executable model of the read side of conn.go:

    newConn (read fields), setReadRemaining, read, advanceFrame (steps 1-7), handleProtocolError,
    NextReader, messageReader.Read, ReadMessage (io.ReadAll as a loop of Read calls),
    SetReadLimit, default / recording / failing handlers, join.go joinReader.Read,
    compression.go decompressNoContextTakeover (compress/flate as an environment answer).

  A connection is the product of the write side `W` and the read side `R`: the reader's pongs,
  close echoes, 1002 and 1009 frames go through `writeControl` and share `writeErr` and the wire.
-/
namespace WS

inductive HMode
  | dflt                 -- the handler installed by the constructor
  | record               -- application handler that records and returns nil
  | fail (id : Nat)      -- application handler that records and returns an error
  deriving DecidableEq, Repr

inductive REv
  | ping (p : Bytes)
  | pong (p : Bytes)
  | close (code : Nat) (text : Bytes)
  deriving DecidableEq, Repr

structure R where
  isServer : Bool
  nego : Bool                       -- c.newDecompressionReader != nil
  readErr : Option RErr := none
  remaining : Int := 0              -- c.readRemaining (int64)
  final : Bool := true              -- c.readFinal
  length : Int := 0                 -- c.readLength
  limit : Int := 0                  -- c.readLimit
  maskPos : Nat := 0
  maskKey : Key := default
  decompress : Bool := false        -- c.readDecompress
  errCount : Nat := 0
  msgReader : Option Nat := none    -- identity of c.messageReader
  nextId : Nat := 0
  hPing : HMode := .dflt
  hPong : HMode := .dflt
  hClose : HMode := .dflt
  buf : Buf
  hlog : List REv := []             -- handler invocations (ghost)
  deriving Repr

structure Conn where
  w : W
  r : R
  deriving Repr

def defaultReadBufferSize : Nat := Gen.defaultReadBufferSize.toNat

/-- newConn's read-side arithmetic (br == nil case) -/
def readBufSize (readBufferSize : Int) : Nat :=
  if readBufferSize ≤ 0 then defaultReadBufferSize   -- 0 ↦ default (negative sizes make bufio pick its own default; not used)
  else if readBufferSize < Gen.maxControlFramePayloadSize then maxControlPayload
  else readBufferSize.toNat

def two63 : Int := 9223372036854775808
def two64 : Int := 18446744073709551616

/-- Go int64 wrap-around -/
def wrap64 (x : Int) : Int := (x + two63) % two64 - two63

/-- the deadline `time.Now().Add(writeWait)` as the transport sees it -/
def writeWaitDeadline : Int := 1000000

def closePayload (code : Nat) (text : Bytes) : Bytes :=
  if (code : Int) = Gen.CloseNoStatusReceived then [] else beBytes 2 code ++ text

/-- isValidReceivedCloseCode: the generated map literal and range of conn.go -/
def isValidReceivedCloseCode (code : Nat) : Bool :=
  Gen.validReceivedCloseCodes.contains ((code : Int), true) ||
    (decide (Gen.closeCodeRangeLo ≤ (code : Int)) && decide ((code : Int) ≤ Gen.closeCodeRangeHi))

/-- handleProtocolError: best-effort 1002 close, then the error -/
def handleProtocolError (c : Conn) (msg : String) : RErr × Conn :=
  let data := (closePayload Gen.CloseProtocolError.toNat (strBytes msg)).take maxControlPayload
  let (_, w) := writeControl c.w 8 data writeWaitDeadline
  (.protocol msg, { c with w })

/-- best-effort close frame with status 1009 (message too big) -/
def sendTooBig (c : Conn) : Conn :=
  { c with w := (writeControl c.w 8 (closePayload Gen.CloseMessageTooBig.toNat []) writeWaitDeadline).2 }

structure Hdr where
  opcode : Nat
  fin : Bool
  rsv1 : Bool
  rsv2 : Bool
  rsv3 : Bool
  mask : Bool
  len7 : Nat
  deriving DecidableEq, Repr

def parseHdr (b0 b1 : UInt8) : Hdr :=
  { opcode := b0.toNat % 16, fin := decide (b0.toNat / 128 % 2 = 1), rsv1 := decide (b0.toNat / 64 % 2 = 1),
    rsv2 := decide (b0.toNat / 32 % 2 = 1), rsv3 := decide (b0.toNat / 16 % 2 = 1),
    mask := decide (b1.toNat / 128 % 2 = 1), len7 := b1.toNat % 128 }

/-- the header errors advanceFrame collects, in source order (step 2). `final` is the reader's
    readFinal *before* this frame. -/
def headerErrors (isServer nego final : Bool) (h : Hdr) : List String :=
  (if h.rsv1 && !nego then ["RSV1 set"] else []) ++
  (if h.rsv2 then ["RSV2 set"] else []) ++
  (if h.rsv3 then ["RSV3 set"] else []) ++
  (if h.opcode == 8 || h.opcode == 9 || h.opcode == 10 then
     (if h.len7 > maxControlPayload then ["len > 125 for control"] else []) ++
     (if !h.fin then ["FIN not set on control"] else [])
   else if h.opcode == 1 || h.opcode == 2 then
     (if !final then ["data before FIN"] else [])
   else if h.opcode == 0 then
     (if final then ["continuation after FIN"] else [])
   else ["bad opcode " ++ toString h.opcode]) ++
  (if h.mask != isServer then ["bad MASK"] else [])

def REv.toEv : REv → Ev
  | .ping p => .hPing p
  | .pong p => .hPong p
  | .close c t => .hClose c t

def runHandler (mode : HMode) (c : Conn) (ev : REv) : Option RErr × Conn :=
  let c := { c with r := { c.r with hlog := c.r.hlog ++ [ev] }, w := emit c.w ev.toEv }
  match mode with
  | .fail id => (some (.handler id), c)
  | _ => (none, c)

/-- Conn.advanceFrame: `.ok frameType` or `.error err` -/
def advanceFrame (c : Conn) : Except RErr Nat × Conn :=
  -- 1. skip remainder of previous frame
  let s1 : Option RErr × Conn :=
    if c.r.remaining > 0 then
      let (e, b) := c.r.buf.skip c.r.remaining.toNat
      (e, { c with r := { c.r with buf := b } })
    else (none, c)
  match s1 with
  | (some e, c) => (.error e, c)
  | (none, c) =>
  -- 2. first two bytes
  let (p, e, b) := c.r.buf.take 2
  let c := { c with r := { c.r with buf := b } }
  match e, p with
  | some e, _ => (.error e, c)
  | none, [b0, b1] =>
    let h := parseHdr b0 b1
    let errs := headerErrors c.r.isServer c.r.nego c.r.final h
    let final' := if h.opcode == 1 || h.opcode == 2 || h.opcode == 0 then h.fin else c.r.final
    let c := { c with r := { c.r with remaining := h.len7, decompress := h.rsv1 && c.r.nego, final := final' } }
    if !errs.isEmpty then
      let (e, c) := handleProtocolError c (", ".intercalate errs)
      (.error e, c)
    else
    -- 3. extended length
    let s3 : Option RErr × Conn :=
      if h.len7 = 126 then
        let (p, e, b) := c.r.buf.take 2
        let c := { c with r := { c.r with buf := b } }
        match e with
        | some e => (some e, c)
        | none => (none, { c with r := { c.r with remaining := beVal p } })
      else if h.len7 = 127 then
        let (p, e, b) := c.r.buf.take 8
        let c := { c with r := { c.r with buf := b } }
        match e with
        | some e => (some e, c)
        | none =>
          let v := wrap64 (beVal p)
          -- setReadRemaining refuses a negative length; best-effort 1009 close
          if v < 0 then (some .readLimit, sendTooBig c) else (none, { c with r := { c.r with remaining := v } })
      else (none, c)
    match s3 with
    | (some e, c) => (.error e, c)
    | (none, c) =>
    -- 4. masking key
    let s4 : Option RErr × Conn :=
      if h.mask then
        let (p, e, b) := c.r.buf.take 4
        let c := { c with r := { c.r with buf := b, maskPos := 0 } }
        match e, Key.ofBytes p with
        | some e, _ => (some e, c)
        | none, some k => (none, { c with r := { c.r with maskKey := k } })
        | none, none => (some .any, c)
      else (none, c)
    match s4 with
    | (some e, c) => (.error e, c)
    | (none, c) =>
    -- 5. data frames: read limit
    if h.opcode == 0 || h.opcode == 1 || h.opcode == 2 then
      -- a text / binary frame starts a new message: restart the running sum
      let base : Int := if h.opcode == 0 then c.r.length else 0
      let len := wrap64 (base + c.r.remaining)
      let c := { c with r := { c.r with length := len } }
      if len < 0 || (c.r.limit > 0 && len > c.r.limit) then (.error .readLimit, sendTooBig c)
      else (.ok h.opcode, c)
    else
    -- 6. control frame payload
    let s6 : Option RErr × Bytes × Conn :=
      if c.r.remaining > 0 then
        let (p, e, b) := c.r.buf.take c.r.remaining.toNat
        let c := { c with r := { c.r with buf := b, remaining := 0 } }
        match e with
        | some e => (some e, [], c)
        | none => (none, if c.r.isServer then maskFrom c.r.maskKey 0 p else p, c)
      else (none, [], c)
    match s6 with
    | (some e, _, c) => (.error e, c)
    | (none, payload, c) =>
    -- 7. dispatch
    if h.opcode == 10 then
      let (e, c) := runHandler c.r.hPong c (.pong payload)
      match e with
      | some e => (.error e, c)
      | none => (.ok 10, c)
    else if h.opcode == 9 then
      let (e, c) := runHandler c.r.hPing c (.ping payload)
      match e with
      | some e => (.error e, c)
      | none =>
        let c := if c.r.hPing = .dflt then { c with w := (writeControl c.w 10 payload writeWaitDeadline).2 } else c
        (.ok 9, c)
    else
      -- close
      let code := if payload.length ≥ 2 then beVal (payload.take 2) else Gen.CloseNoStatusReceived.toNat
      let text := if payload.length ≥ 2 then payload.drop 2 else []
      if payload.length ≥ 2 && !isValidReceivedCloseCode code then
        let (e, c) := handleProtocolError c ("bad close code " ++ toString code)
        (.error e, c)
      else if payload.length ≥ 2 && !Spec.validUtf8 text then
        let (e, c) := handleProtocolError c "invalid utf8 payload in close frame"
        (.error e, c)
      else
        let (e, c) := runHandler c.r.hClose c (.close code text)
        match e with
        | some e => (.error e, c)
        | none =>
          let c := if c.r.hClose = .dflt then { c with w := (writeControl c.w 8 (closePayload code []) writeWaitDeadline).2 } else c
          (.error (.close code text), c)
  | none, _ => (.error .any, c)

inductive NRRes
  | msg (t : Nat) (rid : Nat) (compressed : Bool)
  | err (e : RErr)
  | panic
  deriving Repr

/-- the loop of NextReader; fuel ≥ number of frames that can still arrive -/
def nextReaderLoop : Nat → Conn → NRRes × Conn
  | 0, c => (.err .any, c)
  | fuel + 1, c =>
    match c.r.readErr with
    | some _ => (.err .any, c)   -- placeholder, replaced by the caller
    | none =>
      match advanceFrame c with
      | (.error e, c) => (.err e, { c with r := { c.r with readErr := some e } })
      | (.ok t, c) =>
        if t == 1 || t == 2 then
          let rid := c.r.nextId
          (.msg t rid c.r.decompress, { c with r := { c.r with msgReader := some rid, nextId := rid + 1 } })
        else nextReaderLoop fuel c

/-- bound on the number of frames that can still be parsed: every frame has at least two bytes -/
def Conn.fuel (c : Conn) : Nat := c.r.buf.total + c.r.buf.size + 2

/-- Conn.NextReader -/
def nextReader (c : Conn) : NRRes × Conn :=
  let c := { c with r := { c.r with msgReader := none, length := 0 } }
  let res : NRRes × Conn :=
    match c.r.readErr with
    | some _ => (.err .any, c)
    | none => nextReaderLoop c.fuel c
  match res with
  | (.msg t rid z, c) => (.msg t rid z, c)
  | (_, c) =>
    let c := { c with r := { c.r with errCount := c.r.errCount + 1 } }
    if c.r.errCount ≥ 1000 then (.panic, c)
    else (.err (c.r.readErr.getD .any), c)

/-- messageReader.Read(b) with len(b) = k ≥ 1, on the reader with identity `rid` -/
def mrReadLoop : Nat → Conn → Nat → Nat → (Bytes × Option RErr) × Conn
  | 0, c, _, _ => (([], some .any), c)
  | fuel + 1, c, rid, k =>
    match c.r.readErr with
    | some e =>
      (([], some (if e = .eof && c.r.msgReader = some rid then .unexpectedEOF else e)), c)
    | none =>
      if c.r.remaining > 0 then
        let k' := min k c.r.remaining.toNat
        let (bs, e, b) := c.r.buf.read k'
        let out := if c.r.isServer then maskFrom c.r.maskKey c.r.maskPos bs else bs
        let rem := c.r.remaining - bs.length
        let e' := if (rem > 0 || !c.r.final) && e = some .eof then some .unexpectedEOF else e
        let r := { c.r with buf := b, readErr := e', remaining := rem,
                            maskPos := if c.r.isServer then (c.r.maskPos + bs.length) % 4 else c.r.maskPos }
        ((out, e'), { c with r })
      else if c.r.final then
        (([], some .eof), { c with r := { c.r with msgReader := none } })
      else
        match advanceFrame c with
        | (.error e, c) => mrReadLoop fuel { c with r := { c.r with readErr := some e } } rid k
        | (.ok t, c) =>
          if t == 1 || t == 2 then mrReadLoop fuel { c with r := { c.r with readErr := some .internalData } } rid k
          else mrReadLoop fuel c rid k

def mrRead (c : Conn) (rid : Nat) (k : Nat) : (Bytes × Option RErr) × Conn :=
  if c.r.msgReader ≠ some rid then (([], some .eof), c)
  else mrReadLoop (c.fuel + 1) c rid k

/-- repeated Read(k) until an error (io.ReadAll with a fixed request size): (bytes, err) where
    err = none means the reader returned io.EOF (message complete) -/
def readAllLoop : Nat → Conn → Nat → Nat → List Bytes → (Bytes × Option RErr) × Conn
  | 0, c, _, _, acc => ((acc.reverse.flatten, some .any), c)
  | fuel + 1, c, rid, k, acc =>
    match mrRead c rid k with
    | ((bs, none), c) => readAllLoop fuel c rid k (bs :: acc)
    | ((bs, some .eof), c) => (((bs :: acc).reverse.flatten, none), c)
    | ((bs, some e), c) => (((bs :: acc).reverse.flatten, some e), c)

def readAll (c : Conn) (rid : Nat) (k : Nat) : (Bytes × Option RErr) × Conn :=
  readAllLoop (c.fuel + 2) c rid k []

/-- io.ReadAll(r): Read(b[len(b):cap(b)]) with the buffer growing by `append` when full. The
    capacities `append` picks (512, 896, 1408, …) belong to the Go runtime's allocator; they are an
    environment answer (`caps`, measured by the harness), not part of the model. -/
def readAllGrowLoop : Nat → Conn → Nat → List Nat → Nat → Nat → List Bytes → (Bytes × Option RErr) × Conn
  | 0, c, _, _, _, _, acc => ((acc.reverse.flatten, some .any), c)
  | fuel + 1, c, rid, caps, len, cap, acc =>
    match mrRead c rid (cap - len) with
    | ((bs, some .eof), c) => (((bs :: acc).reverse.flatten, none), c)
    | ((bs, some e), c) => (((bs :: acc).reverse.flatten, some e), c)
    | ((bs, none), c) =>
      let len := len + bs.length
      if len == cap then
        match caps with
        | cap' :: rest => readAllGrowLoop fuel c rid rest len cap' (bs :: acc)
        | [] => readAllGrowLoop fuel c rid [] len (cap + 8192) (bs :: acc)
      else readAllGrowLoop fuel c rid caps len cap (bs :: acc)

def readAllGrow (c : Conn) (rid : Nat) (caps : List Nat) : (Bytes × Option RErr) × Conn :=
  match caps with
  | cap :: rest => readAllGrowLoop (c.fuel + 2) c rid rest 0 cap []
  | [] => readAllGrowLoop (c.fuel + 2) c rid [] 0 512 []

/-! ### the decompressing reader (compression.go: flateReadWrapper over the message reader) -/

/-- What compress/flate does with the raw message is an environment answer: through its own
    bufio.Reader it makes raw read requests of the sizes `reqs` (Go-internal) and then either reports
    the end of the deflate stream (`ok = true`) or a data error. A failing read ends it with that
    error. The request size of the drain (`drainK`) is Go-internal as well. -/
structure ZEnv where
  reqs : List Nat      -- sizes of the raw read requests the decompressor makes, in order
  ok : Bool            -- after them it reports the end of the deflate stream (true) or a data error
  drainK : Nat         -- request size of the drain (io.Copy(io.Discard, src))
  deriving Repr, DecidableEq

inductive ZRes
  | complete                 -- flateReadWrapper.Read returned io.EOF: the message is reported complete
  | failed (e : RErr)
  deriving Repr, DecidableEq

/-- the decompressor's raw reads: requests of the given sizes; stops at the first error, or at
    the end of the raw message (io.EOF: the MultiReader goes on with the fixed tail and the connection
    is not read any more). Returns the raw bytes handed over and what stopped the reads. -/
def zFills : List Nat → Conn → Nat → List Bytes → (Bytes × Option RErr) × Conn
  | [], c, _, acc => ((acc.reverse.flatten, none), c)
  | k :: ks, c, rid, acc =>
    match mrRead c rid k with
    | ((bs, none), c) => zFills ks c rid (bs :: acc)
    | ((bs, some e), c) => (((bs :: acc).reverse.flatten, some e), c)

/-- flateReadWrapper.Read up to the end of a compressed message, as far as completion is concerned.
    When the deflate stream ends before the raw message does (a final block before the last frame),
    the rest of the message is drained (io.Copy(io.Discard, src): requests of `drainK` bytes) and io.EOF is
    reported only if that ends cleanly — the repair of finding F10. -/
def zReadToEnd (c : Conn) (rid : Nat) (env : ZEnv) : (Bytes × ZRes) × Conn :=
  match zFills env.reqs c rid [] with
  | ((raw, some .eof), c) => ((raw, if env.ok then .complete else .failed .inflate), c)
  | ((raw, some e), c) => ((raw, .failed e), c)
  | ((raw, none), c) =>
    if !env.ok then ((raw, .failed .inflate), c)
    else
      match readAll c rid env.drainK with
      | ((_, none), c) => ((raw, .complete), c)
      | ((_, some e), c) => ((raw, .failed e), c)

def setReadLimit (c : Conn) (l : Int) : Conn := { c with r := { c.r with limit := l } }

/-! ### JoinMessages -/

inductive JStage
  | idle
  | msg (rid : Nat)                  -- reading the message (MultiReader's first reader)
  | term (rid : Nat) (rest : Bytes)  -- message exhausted, emitting the terminator
  | plain (rid : Nat)                -- term == "": the message reader itself
  deriving Repr

/-- joinReader.Read(p), len(p) = k ≥ 1, for uncompressed messages -/
def joinRead (c : Conn) (st : JStage) (term : Bytes) (k : Nat) : (Bytes × Option RErr) × Conn × JStage :=
  let start : Option RErr × Conn × JStage :=
    match st with
    | .idle =>
      match nextReader c with
      | (.msg _ rid _, c) => (none, c, if term.isEmpty then .plain rid else .msg rid)
      | (.err e, c) => (some e, c, .idle)
      | (.panic, c) => (some .any, c, .idle)
    | st => (none, c, st)
  match start with
  | (some e, c, st) => (([], some e), c, st)
  | (none, c, st) =>
    match st with
    | .plain rid =>
      match mrRead c rid k with
      | ((bs, some .eof), c) => ((bs, none), c, .idle)
      | ((bs, e), c) => ((bs, e), c, .plain rid)
    | .msg rid =>
      match mrRead c rid k with
      | ((bs, some .eof), c) =>
        if !bs.isEmpty then ((bs, none), c, .term rid term)
        else ((term.take k, none), c, .term rid (term.drop k))
      | ((bs, e), c) => ((bs, e), c, .msg rid)
    | .term rid rest =>
      if rest.isEmpty then (([], none), c, .idle)
      else ((rest.take k, none), c, .term rid (rest.drop k))
    | .idle => (([], some .any), c, .idle)

end WS
