import WS.Model.Http
import WS.Spec.Sha1
import WS.Gen.Tables
/-
  WS.Model.Client — client.go: Dialer.DialContext as (a) early URL checks, (b) request header
  assembly incl. the protocol-owned headers a caller may not supply, (c) the decision on the
  server's reply, (d) adoption of compression and subprotocol, (e) hostPortNoPort, and the
  transport-operation plan of a dial (for C16/C18).  `net/url`, `http.Request.Write` and
  `http.ReadResponse` are environment: the parsed URL and the parsed reply are inputs.
-/
namespace WS.Client
open WS WS.Http

structure Url where
  scheme : Bytes
  host : Bytes
  hasUser : Bool
  deriving Repr

structure DCfg where
  subprotocols : List Bytes
  enableCompression : Bool
  deriving Repr

inductive DErr
  | malformedURL
  | duplicateHeader
  | badHandshake           -- ErrBadHandshake (response returned with up to 1024 body bytes)
  | invalidCompression     -- errInvalidCompression
  deriving DecidableEq, Repr

abbrev Hdr := List (Bytes × List Bytes)

def Hdr.set (h : Hdr) (k : Bytes) (vs : List Bytes) : Hdr :=
  if h.any (·.1 == k) then h.map (fun p => if p.1 == k then (k, vs) else p) else h ++ [(k, vs)]

def joinCommaSp : List Bytes → Bytes
  | [] => []
  | [a] => a
  | a :: rest => a ++ strBytes ", " ++ joinCommaSp rest

/-- http.CanonicalHeaderKey: if every byte is a token octet, upper-case the first letter and every
    letter after a '-', lower-case the rest; otherwise the key is returned unchanged -/
def canonAux : Bool → Bytes → Bytes
  | _, [] => []
  | up, b :: r =>
    let x := b.toNat
    let c : UInt8 := if up && 97 ≤ x && x ≤ 122 then b - 32 else if !up && 65 ≤ x && x ≤ 90 then b + 32 else b
    c :: canonAux (b == 45) r

def canonicalKey (k : Bytes) : Bytes := if k.all isTokenOctet then canonAux true k else k

/-- the protocol-owned canonical keys a caller header map may not contain -/
def forbidden (d : DCfg) (k : Bytes) : Bool :=
  k == strBytes "Upgrade" || k == strBytes "Connection" || k == strBytes "Sec-Websocket-Key" ||
  k == strBytes "Sec-Websocket-Version" || k == strBytes "Sec-Websocket-Extensions" ||
  (k == strBytes "Sec-Websocket-Protocol" && !d.subprotocols.isEmpty)

/-- request assembly: (Host, header map) or an error before any network activity -/
def buildRequest (d : DCfg) (u : Url) (key : Bytes) (caller : Hdr) : Except DErr (Bytes × Hdr) :=
  if u.scheme != strBytes "ws" && u.scheme != strBytes "wss" then .error .malformedURL
  else if u.hasUser then .error .malformedURL
  else
    let h0 : Hdr := [(strBytes "Upgrade", [strBytes "websocket"]), (strBytes "Connection", [strBytes "Upgrade"]),
                     (strBytes "Sec-WebSocket-Key", [key]), (strBytes "Sec-WebSocket-Version", [strBytes "13"])]
    let h1 := if d.subprotocols.isEmpty then h0 else h0.set (strBytes "Sec-WebSocket-Protocol") [joinCommaSp d.subprotocols]
    if caller.any (fun p => canonicalKey p.1 != strBytes "Host" && forbidden d (canonicalKey p.1)) then .error .duplicateHeader
    else
      let host := match caller.find? (fun p => canonicalKey p.1 == strBytes "Host" && !p.2.isEmpty) with
        | some (_, v :: _) => v
        | _ => u.host
      let h2 := caller.foldl (fun h p =>
        if canonicalKey p.1 == strBytes "Host" then h
        else if canonicalKey p.1 == strBytes "Sec-Websocket-Protocol" then h.set (strBytes "Sec-WebSocket-Protocol") p.2
        else h.set p.1 p.2) h1
      let h3 := if d.enableCompression then
          h2.set (strBytes "Sec-WebSocket-Extensions") [strBytes "permessage-deflate; server_no_context_takeover; client_no_context_takeover"]
        else h2
      .ok (host, h3)

structure Reply where
  status : Nat
  hdr : Hdr          -- resp.Header (canonical keys)
  deriving Repr

def Reply.values (r : Reply) (name : String) : List Bytes :=
  match r.hdr.find? (fun p => p.1 == strBytes name) with
  | some (_, vs) => vs
  | none => []

def Reply.get (r : Reply) (name : String) : Bytes := (r.values name).headD []

structure Dialed where
  compress : Bool
  subprotocol : Bytes
  deriving Repr, DecidableEq

/-- the decision on the server's reply for the key sent in this request -/
def checkReply (key : Bytes) (r : Reply) : Except DErr Dialed :=
  if r.status != 101 ||
     !tokenListContainsValue (r.values "Upgrade") (strBytes "websocket") ||
     !tokenListContainsValue (r.values "Connection") (strBytes "upgrade") ||
     r.get "Sec-Websocket-Accept" != Spec.acceptKey Gen.keyGUID key then .error .badHandshake
  else
    match (parseExtensions (r.values "Sec-Websocket-Extensions")).find? (fun e => e.name == strBytes "permessage-deflate") with
    | some e =>
      if !e.has (strBytes "server_no_context_takeover") || !e.has (strBytes "client_no_context_takeover") then .error .invalidCompression
      else .ok { compress := true, subprotocol := r.get "Sec-Websocket-Protocol" }
    | none => .ok { compress := false, subprotocol := r.get "Sec-Websocket-Protocol" }

/-! ### hostPortNoPort -/

def lastIndexOf (s : Bytes) (c : UInt8) : Int :=
  let idxs := (s.zipIdx.filter (fun p => p.1 == c)).map (fun p => (p.2 : Int))
  idxs.getLast?.getD (-1)

/-- hostPortNoPort(u): (hostPort, hostNoPort) -/
def hostPortNoPort (scheme host : Bytes) : Bytes × Bytes :=
  let i := lastIndexOf host 58     -- ':'
  let j := lastIndexOf host 93     -- ']'
  if i > j then (host, host.take i.toNat)
  else
    let port := if scheme == strBytes "wss" || scheme == strBytes "https" then strBytes ":443" else strBytes ":80"
    (host ++ port, host)

end WS.Client

namespace WS.Client

/-! ### the dial-path matrix (C18): which function makes the first hop, what the proxy is asked,
    where TLS is layered and whether the dial can succeed -/

inductive ProxyKind | none | http | https | socks5 deriving DecidableEq, Repr
inductive Cred | none | user | userpass | userempty deriving DecidableEq, Repr
inductive CertCase | ok | other | untrusted deriving DecidableEq, Repr

structure MCfg where
  proxy : ProxyKind
  wss : Bool
  nd : Bool          -- Dialer.NetDial set
  ndc : Bool         -- Dialer.NetDialContext set
  ndtls : Bool       -- Dialer.NetDialTLSContext set
  cred : Cred
  cert : CertCase    -- the backend's certificate
  skipVerify : Bool  -- TLSClientConfig.InsecureSkipVerify
  deriving DecidableEq, Repr

inductive DialFn | nd | ndc | ndtls | default deriving DecidableEq, Repr

structure MPlan where
  firstFn : DialFn
  firstHopIsProxy : Bool
  libTLSFirstHop : Bool          -- the library wraps the first hop in TLS (netDialWithTLSHandshake)
  connect : Bool                 -- one CONNECT to hostPort(backend)
  connectAuth : Bool             -- with Basic Proxy-Authorization
  socks : Bool
  libTLSBackend : Bool           -- the library does (verified) TLS to the backend with ServerName = URL host
  customTLSBackend : Bool        -- a custom NetDialTLSContext is trusted with TLS to the backend
  succeeds : Bool
  deriving DecidableEq, Repr

/-- is the first dialed entity an https one (then NetDialTLSContext applies, or the library adds TLS) -/
def MCfg.firstHTTPS (c : MCfg) : Bool := c.proxy == .https || (c.proxy == .none && c.wss)

def dialPlan (c : MCfg) : MPlan :=
  let base : DialFn := if c.ndc then .ndc else if c.nd then .nd else .default
  let firstFn : DialFn := if c.firstHTTPS && c.ndtls then .ndtls else base
  let libTLSFirst := c.firstHTTPS && !c.ndtls
  let viaProxy := c.proxy != .none
  let connect := c.proxy == .http || c.proxy == .https
  let socks := c.proxy == .socks5
  -- TLS to the backend: over the tunnel when a proxy is used, at the first hop otherwise
  let libTLSBackend := c.wss && (viaProxy || !c.ndtls)
  let customTLSBackend := c.wss && !viaProxy && c.ndtls
  let certAccepted := if libTLSBackend then (c.cert == .ok || c.skipVerify) else if customTLSBackend then c.cert == .ok else true
  { firstFn, firstHopIsProxy := viaProxy, libTLSFirstHop := libTLSFirst, connect,
    connectAuth := connect && (c.cred == .userpass || c.cred == .userempty), socks,
    libTLSBackend, customTLSBackend, succeeds := certAccepted }

end WS.Client
