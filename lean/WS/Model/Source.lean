import WS.Basic
/-
  WS.Model.Source — the byte source the reader sees (level L0): an executable model of
  `bufio.Reader` (Peek / Discard / Read incl. the pass-through case, error latching) over a
  scripted transport, and `io.CopyN(io.Discard, br, n)`.

  Transport script: a list of non-empty chunks; a transport `Read(p)` returns at most the rest
  of the current chunk; after the last chunk every Read returns the terminal error (sticky);
  with `together` the terminal error is returned together with the last bytes of the last chunk.
-/
namespace WS

inductive RErr
  | eof                               -- io.EOF
  | unexpectedEOF                     -- errUnexpectedEOF = &CloseError{1006, "unexpected EOF"}
  | transport (id : Nat)              -- error value returned by the transport
  | close (code : Nat) (text : Bytes) -- *CloseError
  | readLimit                         -- ErrReadLimit
  | protocol (msg : String)           -- errors.New("websocket: " + msg)
  | handler (id : Nat)                -- error returned by an application handler
  | internalData                      -- "internal error, unexpected text or binary in Reader"
  | bufferFull                        -- bufio.ErrBufferFull
  | inflate                           -- error of the decompressor (identity not modelled)
  | any
  deriving DecidableEq, Repr

structure TSrc where
  chunks : List Bytes := []
  term : RErr := .eof
  together : Bool := false
  deriving Repr

/-- one transport Read into a buffer of `room` bytes -/
def TSrc.read (t : TSrc) (room : Nat) : Bytes × Option RErr × TSrc :=
  match t.chunks with
  | [] => ([], some t.term, t)
  | c :: rest =>
    let n := min room c.length
    let out := c.take n
    let c' := c.drop n
    if c'.isEmpty then
      if rest.isEmpty && t.together then (out, some t.term, { t with chunks := [] })
      else (out, none, { t with chunks := rest })
    else (out, none, { t with chunks := c' :: rest })

def TSrc.pending (t : TSrc) : Bytes := t.chunks.flatten

/-- bufio.Reader -/
structure Buf where
  size : Nat
  buf : Bytes := []            -- b.buf[b.r:b.w]
  err : Option RErr := none    -- latched b.err
  t : TSrc := {}
  total : Nat := 0             -- ghost: number of bytes the transport script held when it was installed
  deriving Repr

/-- everything not yet consumed by the connection, in order -/
def Buf.pending (b : Buf) : Bytes := b.buf ++ b.t.pending

/-- b.fill(): one transport read into the free space (precondition: buffer not full) -/
def Buf.fill (b : Buf) : Buf :=
  let (bs, e, t) := b.t.read (b.size - b.buf.length)
  { b with buf := b.buf ++ bs, err := e, t }

/-- the loop of Peek(n): fill while fewer than n bytes are buffered, the buffer is not full and
    no error is latched. Every iteration adds a byte or latches an error, so n+1 rounds suffice. -/
def Buf.peekLoop : Nat → Buf → Nat → Buf
  | 0, b, _ => b
  | fuel + 1, b, n =>
    if b.buf.length < n && b.buf.length < b.size && b.err.isNone then peekLoop fuel b.fill n else b

/-- Conn.read(n) = Peek(n) + Discard(len(p)), with io.EOF mapped to errUnexpectedEOF -/
def Buf.take (b : Buf) (n : Nat) : Bytes × Option RErr × Buf :=
  let b := b.peekLoop (n + 1) n
  if n > b.size then
    (b.buf, some .bufferFull, { b with buf := [] })
  else if n ≤ b.buf.length then
    (b.buf.take n, none, { b with buf := b.buf.drop n })
  else
    let e := match b.err with
      | some e => e
      | none => .bufferFull
    let e := if e = .eof then .unexpectedEOF else e
    (b.buf, some e, { b with buf := [], err := none })

/-- bufio.Reader.Read(p) with len(p) = k ≥ 1 -/
def Buf.read (b : Buf) (k : Nat) : Bytes × Option RErr × Buf :=
  if b.buf.isEmpty then
    match b.err with
    | some e => ([], some e, { b with err := none })
    | none =>
      if k ≥ b.size then
        -- large read, empty buffer: read directly into p
        let (bs, e, t) := b.t.read k
        (bs, e, { b with t })
      else
        -- one read into the internal buffer
        let (bs, e, t) := b.t.read b.size
        if bs.isEmpty then ([], e, { b with t })
        else (bs.take k, none, { b with buf := bs.drop k, err := e, t })
  else
    (b.buf.take k, none, { b with buf := b.buf.drop k })

/-- io.CopyN(io.Discard, br, n): Read calls of at most 8192 bytes. Result: error or nil. -/
def Buf.skipLoop : Nat → Buf → Nat → Option RErr × Buf
  | 0, b, _ => (some .any, b)
  | fuel + 1, b, n =>
    if n = 0 then (none, b)
    else
      let (bs, e, b) := b.read (min 8192 n)
      let n' := n - bs.length
      match e with
      | some .eof => (if n' = 0 then none else some .eof, b)
      | some e => (if n' = 0 then none else some e, b)
      | none => if bs.isEmpty then (some .any, b) else skipLoop fuel b n'

/-- ReadSlice('\n') as used by net/textproto to read one header line: fill until a newline is
    buffered; a full buffer without newline is handed out whole (ErrBufferFull / isPrefix) and the
    line continues. Only the consumption matters here. fuel bounds the number of fills. -/
def Buf.readLine : Nat → Buf → Buf
  | 0, b => b
  | fuel + 1, b =>
    match b.buf.idxOf? (10 : UInt8) with
    | some i => { b with buf := b.buf.drop (i + 1) }
    | none =>
      if b.err.isSome then { b with buf := [], err := none }
      else if b.buf.length ≥ b.size then Buf.readLine fuel { b with buf := [] }
      else Buf.readLine fuel b.fill

def Buf.skip (b : Buf) (n : Nat) : Option RErr × Buf := b.skipLoop (n + 1) n

end WS
