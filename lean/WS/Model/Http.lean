import WS.Basic
import WS.Gen.Tables
/-
  WS.Model.Http — util.go: skipSpace, nextToken, nextTokenOrQuoted, equalASCIIFold (with Go's
  utf8.DecodeRuneInString), tokenListContainsValue, parseExtensions, isValidChallengeKey (with
  encoding/base64 StdEncoding.DecodeString's acceptance rules). Go strings are byte strings.
-/
namespace WS.Http

def isTokenOctet (b : UInt8) : Bool := Gen.tokenOctets.contains b.toNat

def skipSpace : Bytes → Bytes
  | [] => []
  | b :: r => if b == 32 || b == 9 then skipSpace r else b :: r

def nextToken (s : Bytes) : Bytes × Bytes := (s.takeWhile isTokenOctet, s.dropWhile isTokenOctet)

/-- the scan after the opening quote; `esc` = previous byte was a backslash. The Go code switches
    from slicing to copying at the first backslash; the result is the same unescaped string. -/
def quotedAux : Bytes → Bool → Bytes → Bytes × Bytes
  | [], _, _ => ([], [])
  | b :: r, true, acc => quotedAux r false (b :: acc)
  | b :: r, false, acc =>
    if b == 92 then quotedAux r true acc
    else if b == 34 then (acc.reverse, r)
    else quotedAux r false (b :: acc)

def nextTokenOrQuoted (s : Bytes) : Bytes × Bytes :=
  match s with
  | 34 :: r => quotedAux r false []
  | _ => nextToken s

/-! ### utf8.DecodeRuneInString -/

def runeError : Nat := 0xFFFD

def cont (b : UInt8) : Bool := decide (0x80 ≤ b.toNat) && decide (b.toNat ≤ 0xBF)

/-- (rune, size) for a non-empty string; invalid or short encodings give (RuneError, 1) -/
def decodeRune : Bytes → Nat × Nat
  | [] => (runeError, 0)
  | b0 :: rest =>
    let x := b0.toNat
    if x < 0x80 then (x, 1)
    else if 0xC2 ≤ x && x ≤ 0xDF then
      match rest with
      | b1 :: _ => if cont b1 then ((x % 32) * 64 + b1.toNat % 64, 2) else (runeError, 1)
      | _ => (runeError, 1)
    else if 0xE0 ≤ x && x ≤ 0xEF then
      match rest with
      | b1 :: b2 :: _ =>
        let lo := if x == 0xE0 then 0xA0 else 0x80
        let hi := if x == 0xED then 0x9F else 0xBF
        if lo ≤ b1.toNat && b1.toNat ≤ hi && cont b2 then
          ((x % 16) * 4096 + (b1.toNat % 64) * 64 + b2.toNat % 64, 3)
        else (runeError, 1)
      | _ => (runeError, 1)
    else if 0xF0 ≤ x && x ≤ 0xF4 then
      match rest with
      | b1 :: b2 :: b3 :: _ =>
        let lo := if x == 0xF0 then 0x90 else 0x80
        let hi := if x == 0xF4 then 0x8F else 0xBF
        if lo ≤ b1.toNat && b1.toNat ≤ hi && cont b2 && cont b3 then
          ((x % 8) * 262144 + (b1.toNat % 64) * 4096 + (b2.toNat % 64) * 64 + b3.toNat % 64, 4)
        else (runeError, 1)
      | _ => (runeError, 1)
    else (runeError, 1)

def foldRune (r : Nat) : Nat := if 65 ≤ r && r ≤ 90 then r + 32 else r

def foldByte (b : UInt8) : UInt8 := if 65 ≤ b.toNat && b.toNat ≤ 90 then b + 32 else b

/-- equalASCIIFold: equal length and byte-wise equal after folding A–Z -/
def equalASCIIFold : Bytes → Bytes → Bool
  | [], [] => true
  | a :: s, b :: t => foldByte a == foldByte b && equalASCIIFold s t
  | _, _ => false

/-- one header line of a `1#token` list: does it contain `value`? fuel = length -/
def lineContainsAux : Nat → Bytes → Bytes → Bool
  | 0, _, _ => false
  | fuel + 1, s, value =>
    let (t, s) := nextToken (skipSpace s)
    if t.isEmpty then false
    else
      let s := skipSpace s
      match s with
      | [] => equalASCIIFold t value
      | c :: rest =>
        if c != 44 then false
        else if equalASCIIFold t value then true
        else lineContainsAux fuel rest value

def lineContains (s value : Bytes) : Bool := lineContainsAux (s.length + 1) s value

/-- tokenListContainsValue(header, name, value) given header[name] -/
def tokenListContainsValue (lines : List Bytes) (value : Bytes) : Bool := lines.any (lineContains · value)

/-! ### parseExtensions -/

abbrev Ext := List (Bytes × Bytes)   -- [("", name), (param, value), …]; later entries override

/-- parameters of one extension: returns (params, rest, ok) where ok=false means `continue headers` -/
def paramsAux : Nat → Bytes → Ext → Ext × Bytes × Bool
  | 0, s, acc => (acc, s, false)
  | fuel + 1, s, acc =>
    let s := skipSpace s
    match s with
    | 59 :: r =>   -- ';'
      let (k, s) := nextToken (skipSpace r)
      if k.isEmpty then (acc, s, false)
      else
        let s := skipSpace s
        let (v, s) : Bytes × Bytes :=
          match s with
          | 61 :: r2 => let (v, s2) := nextTokenOrQuoted (skipSpace r2); (v, skipSpace s2)   -- '='
          | _ => ([], s)
        match s with
        | [] => paramsAux fuel s (acc ++ [(k, v)])
        | c :: _ => if c != 44 && c != 59 then (acc, s, false) else paramsAux fuel s (acc ++ [(k, v)])
    | _ => (acc, s, true)

/-- the extensions of one header line, in order; stops at the first malformed element -/
def lineExtsAux : Nat → Bytes → List Ext → List Ext
  | 0, _, acc => acc
  | fuel + 1, s, acc =>
    let (t, s) := nextToken (skipSpace s)
    if t.isEmpty then acc
    else
      let (ext, s, ok) := paramsAux (s.length + 1) s [([], t)]
      if !ok then acc
      else
        match s with
        | [] => acc ++ [ext]
        | c :: rest => if c != 44 then acc else lineExtsAux fuel rest (acc ++ [ext])

def parseExtensions (lines : List Bytes) : List Ext :=
  lines.foldl (fun acc l => acc ++ lineExtsAux (l.length + 1) l []) []

def Ext.name (e : Ext) : Bytes := match e with | (_, n) :: _ => n | [] => []
def Ext.has (e : Ext) (k : Bytes) : Bool := e.any (fun p => p.1 == k)

/-! ### base64 StdEncoding.DecodeString acceptance and isValidChallengeKey -/

def b64Val (b : UInt8) : Option Nat :=
  let x := b.toNat
  if 65 ≤ x && x ≤ 90 then some (x - 65)
  else if 97 ≤ x && x ≤ 122 then some (x - 71)
  else if 48 ≤ x && x ≤ 57 then some (x + 4)
  else if x == 43 then some 62
  else if x == 47 then some 63
  else none

/-- decoded length, or none if DecodeString reports an error. `\r` and `\n` are ignored anywhere. -/
def b64LenAux : Nat → Bytes → Nat → Option Nat
  | 0, _, _ => none
  | fuel + 1, s, n =>
    match s with
    | [] => some n
    | a :: b :: c :: d :: rest =>
      match b64Val a, b64Val b, b64Val c, b64Val d with
      | some _, some _, some _, some _ => b64LenAux fuel rest (n + 3)
      | some _, some _, some _, none => if d == 61 && rest.isEmpty then some (n + 2) else none
      | some _, some _, none, _ => if c == 61 && d == 61 && rest.isEmpty then some (n + 1) else none
      | _, _, _, _ => none
    | _ => none

def b64DecodedLen (s : Bytes) : Option Nat :=
  let s := s.filter (fun b => b != 10 && b != 13)
  b64LenAux (s.length + 1) s 0

def isValidChallengeKey (s : Bytes) : Bool := !s.isEmpty && b64DecodedLen s == some 16

/-- strings.TrimSpace restricted to ASCII white space (\t \n \v \f \r and space) -/
def isAsciiSpace (b : UInt8) : Bool := b == 32 || (9 ≤ b.toNat && b.toNat ≤ 13)
def trimSpace (s : Bytes) : Bytes := ((s.dropWhile isAsciiSpace).reverse.dropWhile isAsciiSpace).reverse

def splitComma (s : Bytes) : List Bytes :=
  (s.foldr (fun b acc => if b == 44 then [] :: acc else match acc with | h :: t => (b :: h) :: t | [] => [[b]]) [[]])

/-- server.go Subprotocols(r) given r.Header.Get("Sec-Websocket-Protocol") -/
def subprotocols (h : Bytes) : List Bytes :=
  let h := trimSpace h
  if h.isEmpty then [] else (splitComma h).map trimSpace

end WS.Http
