import WS.Basic
import WS.Model.Mask
import WS.Gen.Consts
/-
  WS.Model.Writer — executable model of the write side of conn.go:

    newConn (write fields), writeFatal, write, writeBufs (net.Buffers on a generic net.Conn =
    sequential Write calls), WriteControl, beginMessage, NextWriter, messageWriter.{endMessage,
    flushFrame, ncopy, Write, WriteString, ReadFrom, Close}, WriteMessage (fast path and slow
    path), WritePreparedMessage (the send; rendering is in Prepared.lean), SetWriteDeadline,
    EnableWriteCompression, SetCompressionLevel, json.go WriteJSON (payload already encoded),
    compression.go flateWriteWrapper.{Write,Close} with `compress/flate` as an environment.

  Mutating methods become functions returning the new state. The transport is a scripted
  environment: the k-th transport call of the connection may be made to fail (`faults`).
  Everything the connection does to the outside world is appended to `log`.
-/
set_option linter.unusedVariables false
namespace WS

inductive WErr
  | badOpcode            -- errBadWriteOpCode
  | writeClosed          -- errWriteClosed
  | invalidControl       -- errInvalidControlFrame
  | closeSent            -- ErrCloseSent
  | writeTimeout         -- errWriteTimeout
  | transport (id : Nat) -- the error value the transport returned (fault id)
  | reader (id : Nat)    -- the error a ReadFrom source returned
  | internalExtra        -- "internal error, extra used in client mode"
  | flateTail            -- "internal error, unexpected bytes at end of flate stream"
  | badLevel             -- "invalid compression level"
  | deflateMismatch      -- model-only: environment answers are inconsistent with the trunc spec
  | hang                 -- model-only: the Go loop would not terminate (cap = 0)
  | any                  -- model-only: some non-nil error, identity not predicted
  deriving DecidableEq, Repr

inductive Fault
  | fail (id : Nat)               -- call returns the error, nothing written
  | short (n : Nat) (id : Nat)    -- Write accepts n bytes, then returns the error
  deriving DecidableEq, Repr

/-- observable effects, in program order -/
inductive Ev
  | swd (d : Int) (failed : Option Nat)              -- conn.SetWriteDeadline(d)
  | wr (b : Bytes) (accepted : Nat) (failed : Option Nat)  -- conn.Write(b)
  | poolGet (hit : Option Nat)                       -- writePool.Get(): buffer id or miss
  | poolPut (id : Option Nat)                        -- writePool.Put(buffer id) (none = nil slice)
  | hPing (p : Bytes) | hPong (p : Bytes) | hClose (code : Nat) (text : Bytes)  -- handler invocations (read side)
  deriving DecidableEq, Repr

/-- messageWriter -/
structure MW where
  compress : Bool := false
  buf : Bytes := []          -- writeBuf[maxFrameHeaderSize:pos]
  ft : Nat := 0
  err : Option WErr := none
  deriving Repr

inductive Handle
  | plain (mw : Nat)
  /-- flateWriteWrapper: `fwOpen` ⇔ w.fw ≠ nil; `derr` = flate's sticky error; `sent` = bytes
      passed downstream (after truncWriter) so far. -/
  | flate (mw : Nat) (fwOpen : Bool) (derr : Option WErr) (sent : Bytes)
  deriving Repr

inductive BufRef
  | nil                 -- c.writeBuf == nil
  | fresh               -- allocated by this connection, never seen by the pool
  | pooled (id : Nat)
  deriving DecidableEq, Repr

structure W where
  -- configuration (immutable after construction)
  isServer : Bool
  wbufLen : Nat             -- len(c.writeBuf) when present = writeBufSize
  pool : Bool
  nego : Bool               -- c.newCompressionWriter != nil
  -- mutable connection state
  writeErr : Option WErr := none
  deadline : Int := 0
  enableWC : Bool := true
  level : Int := Gen.defaultCompressionLevel
  writer : Option Nat := none      -- c.writer (handle index)
  mws : List MW := []
  handles : List Handle := []
  bufRef : BufRef := .nil
  -- environment
  tcalls : Nat := 0
  faults : List (Nat × Fault) := []
  wire : Bytes := []               -- bytes the transport accepted (ghost)
  log : List Ev := []
  -- process-global environment shared by all connections of a scenario
  keys : Bytes := []
  keyIdx : Nat := 0
  poolFree : List Nat := []        -- LIFO stack of pooled buffer ids
  nextBuf : Nat := 0
  deriving Repr

-- constants are the ones factgen reads from /repo on every run
def maxFrameHeaderSize : Nat := Gen.maxFrameHeaderSize.toNat
def maxControlPayload : Nat := Gen.maxControlFramePayloadSize.toNat
def defaultWriteBufferSize : Nat := Gen.defaultWriteBufferSize.toNat

def isControl (t : Int) : Bool := t == Gen.CloseMessage || t == Gen.PingMessage || t == Gen.PongMessage
def isData (t : Int) : Bool := t == Gen.TextMessage || t == Gen.BinaryMessage

/-- newConn's write-side arithmetic: size ≤ 0 ↦ default; + header. `reuse` = length of a hijacked
    buffer handed in as writeBuf (server only). -/
def newW (isServer : Bool) (writeBufferSize : Int) (pool nego : Bool) (reuse : Option Nat := none) : W :=
  let sz : Nat := (if writeBufferSize ≤ 0 then defaultWriteBufferSize
                   else if writeBufferSize < Gen.maxControlFramePayloadSize then maxControlPayload   -- must be large enough for a control frame
                   else writeBufferSize.toNat) + maxFrameHeaderSize
  match reuse with
  | some n => { isServer, wbufLen := n, pool, nego, bufRef := .fresh }
  | none => { isServer, wbufLen := sz, pool, nego, bufRef := if pool then .nil else .fresh }

def W.cap (s : W) : Nat := s.wbufLen - maxFrameHeaderSize

def emit (s : W) (e : Ev) : W := { s with log := s.log ++ [e] }

/-- the next masking key from the process-wide key source -/
def newKey (s : W) : Key × W :=
  let n := s.keys.length / 4
  let i := if n = 0 then 0 else s.keyIdx % n
  let k := match Key.ofBytes ((s.keys.drop (4 * i)).take 4) with
    | some k => k
    | none => default
  (k, { s with keyIdx := s.keyIdx + 1 })

def writeFatal (s : W) (e : WErr) : W :=
  match s.writeErr with
  | none => { s with writeErr := some e }
  | some _ => s

def lookupFault (s : W) : Option Fault :=
  (s.faults.find? (fun p => p.1 == s.tcalls)).map (·.2)

def tSetWD (s : W) (d : Int) : Option WErr × W :=
  let f := lookupFault s
  let s := { s with tcalls := s.tcalls + 1 }
  match f with
  | none => (none, emit s (.swd d none))
  | some (.fail id) => (some (.transport id), emit s (.swd d (some id)))
  | some (.short _ id) => (some (.transport id), emit s (.swd d (some id)))

def tWrite (s : W) (b : Bytes) : Option WErr × W :=
  let f := lookupFault s
  let s := { s with tcalls := s.tcalls + 1 }
  match f with
  | none => (none, emit { s with wire := s.wire ++ b } (.wr b b.length none))
  | some (.fail id) => (some (.transport id), emit s (.wr b 0 (some id)))
  | some (.short n id) =>
    let n := min n b.length
    (some (.transport id), emit { s with wire := s.wire ++ b.take n } (.wr b n (some id)))

/-- `c.conn.Write(buf0)` or, with a second buffer, net.Buffers.WriteTo on a generic net.Conn:
    one Write per buffer, stopping at the first error -/
def writeBufs (s : W) (buf0 buf1 : Bytes) : Option WErr × W :=
  if buf1.isEmpty then tWrite s buf0
  else
    match tWrite s buf0 with
    | (some e, s) => (some e, s)
    | (none, s) => tWrite s buf1

/-- Conn.write under the (sequentially always free) mutex -/
def connWrite (s : W) (ft : Int) (d : Int) (buf0 buf1 : Bytes) : Option WErr × W :=
  match s.writeErr with
  | some e => (some e, s)
  | none =>
    match tSetWD s d with
    | (some e, s) => (some e, writeFatal s e)
    | (none, s) =>
      match writeBufs s buf0 buf1 with
      | (some e, s) => (some e, writeFatal s e)
      | (none, s) => (none, if ft == 8 then writeFatal s .closeSent else s)

/-- frame header as it leaves in writeBuf[framePos:maxFrameHeaderSize] -/
def header (isServer : Bool) (b0 : Nat) (len : Nat) (key : Key) : Bytes :=
  let m : Nat := if isServer then 0 else 128
  let h : Bytes :=
    if len ≥ 65536 then [UInt8.ofNat b0, UInt8.ofNat (m + 127)] ++ beBytes 8 len
    else if len > 125 then [UInt8.ofNat b0, UInt8.ofNat (m + 126)] ++ beBytes 2 len
    else [UInt8.ofNat b0, UInt8.ofNat (m + len)]
  if isServer then h else h ++ key.bytes

/-- the frame WriteControl builds -/
def controlFrame (isServer : Bool) (t : Nat) (data : Bytes) (key : Key) : Bytes :=
  if isServer then [UInt8.ofNat (t + 128), UInt8.ofNat data.length] ++ data
  else [UInt8.ofNat (t + 128), UInt8.ofNat (data.length + 128)] ++ key.bytes ++ maskFrom key 0 data

/-- the masking key WriteControl draws (clients only) -/
def ctlKey (s : W) : Key × W := if s.isServer then (default, s) else newKey s

/-- Conn.WriteControl. `d = 0` is the zero time; `d < 0` is a deadline already in the past.
    Sequentially the mutex is always free, so the locked part (check the sticky error, set the
    deadline, one Write, mark a close) behaves exactly like `connWrite` with a single buffer. -/
def writeControl (s : W) (t : Int) (data : Bytes) (d : Int) : Option WErr × W :=
  if !isControl t then (some .badOpcode, s)
  else if data.length > maxControlPayload then (some .invalidControl, s)
  else
    let ks := ctlKey s
    if d < 0 then (some .writeTimeout, ks.2)
    else connWrite ks.2 t d (controlFrame s.isServer t.toNat data ks.1) []

def poolPut (s : W) : W :=
  match s.bufRef with
  | .pooled id => emit { s with bufRef := .nil, poolFree := id :: s.poolFree } (.poolPut (some id))
  | .fresh => emit { s with bufRef := .nil, poolFree := s.nextBuf :: s.poolFree, nextBuf := s.nextBuf + 1 } (.poolPut (some s.nextBuf))
  | .nil => emit s (.poolPut none)

def poolGet (s : W) : W :=
  match s.poolFree with
  | id :: rest => emit { s with bufRef := .pooled id, poolFree := rest } (.poolGet (some id))
  | [] => emit { s with bufRef := .fresh } (.poolGet none)

/-- messageWriter.endMessage -/
def endMessage (s : W) (m : MW) (e : WErr) : W × MW :=
  if m.err.isSome then (s, m)
  else
    let s := { s with writer := none }
    (if s.pool then poolPut s else s, { m with err := some e })

/-- the part of flushFrame between validation and bookkeeping: build the header, mask, and hand
    the frame to Conn.write -/
def frameWrite (s : W) (m : MW) (final : Bool) (extra : Bytes) : Option WErr × W :=
  let length := m.buf.length + extra.length
  let b0 : Nat := m.ft + (if final then Gen.finalBit.toNat else 0) + (if m.compress then Gen.rsv1Bit.toNat else 0)
  if s.isServer then
    connWrite s m.ft s.deadline (header true b0 length default ++ m.buf) extra
  else
    let (k, s) := newKey s
    if !extra.isEmpty then
      (some .internalExtra, writeFatal s .internalExtra)
    else
      connWrite s m.ft s.deadline (header false b0 length k ++ maskFrom k 0 m.buf) []

/-- messageWriter.flushFrame -/
def flushFrame (s : W) (m : MW) (final : Bool) (extra : Bytes) : Option WErr × W × MW :=
  if isControl m.ft && (!final || m.buf.length + extra.length > maxControlPayload) then
    let (s, m) := endMessage s m .invalidControl
    (some .invalidControl, s, m)
  else
    match frameWrite s m final extra with
    | (some e, s) =>
      let (s, m) := endMessage s { m with compress := false } e
      (some e, s, m)
    | (none, s) =>
      if final then
        let (s, m) := endMessage s { m with compress := false } .writeClosed
        (none, s, m)
      else (none, s, { m with compress := false, buf := [], ft := 0 })

/-- the flush at the start of ncopy: `if n <= 0 { flushFrame(false, nil) }` -/
def ncopyPrep (s : W) (m : MW) : Option WErr × W × MW :=
  if s.cap ≤ m.buf.length then flushFrame s m false [] else (none, s, m)

/-- the `for len(p) > 0 { n, err := w.ncopy(len(p)); copy; w.pos += n; p = p[n:] }` loop -/
def copyLoop (s : W) (m : MW) (p : Bytes) : Option WErr × W × MW :=
  if hp : p = [] then (none, s, m)
  else
    match ncopyPrep s m with
    | (some e, s, m) => (some e, s, m)
    | (none, s, m) =>
      if hn : min (s.cap - m.buf.length) p.length = 0 then (some .hang, s, m)
      else copyLoop s { m with buf := m.buf ++ p.take (min (s.cap - m.buf.length) p.length) }
             (p.drop (min (s.cap - m.buf.length) p.length))
termination_by p.length
decreasing_by
  have : p.length ≠ 0 := by simpa using hp
  simp only [List.length_drop]
  omega

/-- messageWriter.Write -/
def mwWrite (s : W) (m : MW) (p : Bytes) : Option WErr × W × MW :=
  match m.err with
  | some e => (some e, s, m)
  | none =>
    if p.length > 2 * s.wbufLen && s.isServer then
      flushFrame s m false p
    else copyLoop s m p

/-- messageWriter.WriteString -/
def mwWriteString (s : W) (m : MW) (p : Bytes) : Option WErr × W × MW :=
  match m.err with
  | some e => (some e, s, m)
  | none => copyLoop s m p

/-- messageWriter.Close -/
def mwClose (s : W) (m : MW) : Option WErr × W × MW :=
  match m.err with
  | some e => (some e, s, m)
  | none => flushFrame s m true []

/-- A scripted io.Reader for ReadFrom: each Read hands out at most the rest of the current chunk.
    `termTogether`: the terminal is returned together with the last chunk's last bytes. -/
structure Src where
  chunks : List Bytes
  term : Option Nat          -- none = io.EOF, some id = error id
  together : Bool := false
  deriving Repr

/-- one `r.Read(p)` with `len(p) = room`: returns (bytes, err?, eof?, src') -/
def Src.read (r : Src) (room : Nat) : Bytes × Option (Option Nat) × Src :=
  match r.chunks with
  | [] => ([], some r.term, r)
  | c :: rest =>
    let n := min room c.length
    let out := c.take n
    let c' := c.drop n
    if c'.isEmpty then
      if rest.isEmpty && r.together then (out, some r.term, { r with chunks := [] })
      else (out, none, { r with chunks := rest })
    else (out, none, { r with chunks := c' :: rest })

def Src.size (r : Src) : Nat := (r.chunks.map (·.length + 1)).sum

/-- messageWriter.ReadFrom; returns (nn, err). Fuel bounds the number of Read calls; every
    Read of a non-empty room consumes bytes or reaches the terminal, so `Src.size + 1` suffices. -/
def readFromPrep (s : W) (m : MW) : Option WErr × W × MW :=
  if m.buf.length == s.cap then flushFrame s m false [] else (none, s, m)

def readFromLoop : Nat → W → MW → Src → Nat → (Nat × Option WErr) × W × MW
  | 0, s, m, _, nn => ((nn, some .hang), s, m)
  | fuel + 1, s, m, r, nn =>
    match readFromPrep s m with
    | (some e, s, m) => ((nn, some e), s, m)
    | (none, s, m) =>
      match r.read (s.cap - m.buf.length) with
      | (bs, some none, _) => ((nn + bs.length, none), s, { m with buf := m.buf ++ bs })  -- io.EOF ↦ nil
      | (bs, some (some id), _) => ((nn + bs.length, some (.reader id)), s, { m with buf := m.buf ++ bs })
      | (bs, none, r) => readFromLoop fuel s { m with buf := m.buf ++ bs } r (nn + bs.length)

def mwReadFrom (s : W) (m : MW) (r : Src) : (Nat × Option WErr) × W × MW :=
  match m.err with
  | some e => ((0, some e), s, m)
  | none => readFromLoop (r.size + 2) s m r 0

/-! ### handles, NextWriter, public API -/

def getMW (s : W) (i : Nat) : MW := s.mws.getD i {}
def setMW (s : W) (i : Nat) (m : MW) : W := { s with mws := s.mws.set i m }
def setHandle (s : W) (h : Nat) (x : Handle) : W := { s with handles := s.handles.set h x }

/-- feed the chunks flate pushed through truncWriter into the messageWriter -/
def feed (s : W) (m : MW) : List Bytes → Option WErr × W × MW
  | [] => (none, s, m)
  | c :: cs =>
    match mwWrite s m c with
    | (some e, s, m) => (some e, s, m)
    | (none, s, m) => feed s m cs

def sync4 : Bytes := [0, 0, 0xff, 0xff]

/-- Write on a handle. `dn` = what compress/flate pushed downstream during this call (environment). -/
def hWrite (s : W) (h : Nat) (p : Bytes) (dn : List Bytes) (asString : Bool := false) : (Nat × Option WErr) × W :=
  match s.handles[h]? with
  | none => ((0, some .any), s)
  | some (.plain i) =>
    let (e, s, m) := if asString then mwWriteString s (getMW s i) p else mwWrite s (getMW s i) p
    let s := setMW s i m
    ((if e.isSome then 0 else p.length, e), s)
  | some (.flate i fwOpen derr sent) =>
    if !fwOpen then ((0, some .writeClosed), s)
    else match derr with
    | some e => ((0, some e), s)
    | none =>
      let (e, s, m) := feed s (getMW s i) dn
      let s := setMW s i m
      let sent := sent ++ dn.flatten
      let s := setHandle s h (.flate i true e sent)
      ((if e.isSome then 0 else p.length, e), s)

/-- Close on a handle. `dn` = flate's Flush output after truncation; `full` = the complete deflate
    stream (with the 00 00 ff ff tail) as computed independently by the environment. -/
def hClose (s : W) (h : Nat) (dn : List Bytes) (full : Bytes) : Option WErr × W :=
  match s.handles[h]? with
  | none => (some .any, s)
  | some (.plain i) =>
    let (e, s, m) := mwClose s (getMW s i)
    (e, setMW s i m)
  | some (.flate i fwOpen derr sent) =>
    if !fwOpen then (some .writeClosed, s)
    else match derr with
    | some _ =>
      -- flate is in error; Close reports *some* error; the messageWriter already ended
      (some .any, setHandle s h (.flate i false derr sent))
    | none =>
      let (e1, s, m) := feed s (getMW s i) dn
      let s := setMW s i m
      let sent := sent ++ dn.flatten
      let s := setHandle s h (.flate i false e1 sent)
      match e1 with
      | some _ => (some .any, s)
      | none =>
        if full.length < 4 || full.drop (full.length - 4) != sync4 then (some .flateTail, s)
        else if sent != full.take (full.length - 4) then (some .deflateMismatch, s)
        else
          let (e2, s, m) := mwClose s (getMW s i)
          (e2, setMW s i m)

def clearWriter (s : W) : W := { s with writer := none }

/-- `if c.writer != nil { c.writer.Close(); c.writer = nil }` -/
def closePrev (s : W) (dnPrev : List Bytes) (fullPrev : Bytes) : W :=
  match s.writer with
  | some h => clearWriter (hClose s h dnPrev fullPrev).2
  | none => s

def ensureBuf (s : W) : W :=
  match s.bufRef with
  | .nil => poolGet s
  | _ => s

/-- beginMessage after the implicit close; returns the fresh messageWriter on success -/
def beginMessage' (s : W) (t : Int) : Except WErr MW × W :=
  if !isControl t && !isData t then (.error .badOpcode, s)
  else match s.writeErr with
  | some e => (.error e, s)
  | none => (.ok { ft := t.toNat }, ensureBuf s)

/-- beginMessage -/
def beginMessage (s : W) (t : Int) (dnPrev : List Bytes) (fullPrev : Bytes) : Except WErr MW × W :=
  beginMessage' (closePrev s dnPrev fullPrev) t

/-- NextWriter: returns the handle index -/
def nextWriter (s : W) (t : Int) (dnPrev : List Bytes := []) (fullPrev : Bytes := []) : Except WErr Nat × W :=
  match beginMessage s t dnPrev fullPrev with
  | (.error e, s) => (.error e, s)
  | (.ok m, s) =>
    let i := s.mws.length
    let h := s.handles.length
    if s.nego && s.enableWC && isData t then
      let s := { s with mws := s.mws ++ [{ m with compress := true }],
                        handles := s.handles ++ [.flate i true none []], writer := some h }
      (.ok h, s)
    else
      let s := { s with mws := s.mws ++ [m], handles := s.handles ++ [.plain i], writer := some h }
      (.ok h, s)

/-- is the handle a flate wrapper? -/
def isFlateHandle (s : W) (h : Nat) : Bool :=
  match s.handles[h]? with
  | some (.flate ..) => true
  | _ => false

/-- WriteMessage. For a compressed message `dn` is everything compress/flate pushed downstream
    during `w.Write(data)` *and* `w.Close()` (the harness cannot separate the two inside one API
    call). If the transport fails meanwhile, the error is reported either by Write (exactly) or by
    Close (as flate's tail error), so the model predicts only "some error". -/
def writeMessage (s : W) (t : Int) (data : Bytes) (dnPrev : List Bytes := []) (fullPrev : Bytes := [])
    (dn : List Bytes := []) (full : Bytes := []) : Option WErr × W :=
  if s.isServer && (!s.nego || !s.enableWC) then
    match beginMessage s t dnPrev fullPrev with
    | (.error e, s) => (some e, s)
    | (.ok m, s) =>
      let n := min s.cap data.length
      let m := { m with buf := data.take n }
      let (e, s, _) := flushFrame s m true (data.drop n)
      (e, s)
  else
    match nextWriter s t dnPrev fullPrev with
    | (.error e, s) => (some e, s)
    | (.ok h, s) =>
      match hWrite s h data dn with
      | ((_, some e), s) => (some (if isFlateHandle s h then .any else e), s)
      | ((_, none), s) => hClose s h [] full

/-- WriteJSON with the encoder's output given (`enc` already ends in '\n') -/
def writeJSON (s : W) (enc : Bytes) (dnPrev : List Bytes := []) (fullPrev : Bytes := [])
    (dn : List Bytes := []) (full : Bytes := []) : Option WErr × W :=
  match nextWriter s 1 dnPrev fullPrev with
  | (.error e, s) => (some e, s)
  | (.ok h, s) =>
    let ((_, e1), s) := hWrite s h enc dn
    let (e2, s) := hClose s h [] full
    (match e1 with | some e => some (if isFlateHandle s h then .any else e) | none => e2, s)

/-- the send half of WritePreparedMessage: one `Conn.write` of the rendered image -/
def writePreparedImage (s : W) (t : Int) (image : Bytes) (dnPrev : List Bytes := []) (fullPrev : Bytes := []) :
    Option WErr × W :=
  -- like NextWriter / WriteMessage, a data message first closes the writer the application left open
  -- (conn.go WritePreparedMessage, repair of finding F8); control messages may interleave
  let s := if isData t then closePrev s dnPrev fullPrev else s
  connWrite s t s.deadline image []

def setWriteDeadline (s : W) (d : Int) : W := { s with deadline := d }
def enableWriteCompression (s : W) (b : Bool) : W := { s with enableWC := b }
def setCompressionLevel (s : W) (l : Int) : Option WErr × W :=
  if Gen.minCompressionLevel ≤ l && l ≤ Gen.maxCompressionLevel then (none, { s with level := l }) else (some .badLevel, s)

end WS

namespace WS

/-! ### the public write API as an operation alphabet (for theorems over all programs) -/

inductive Op
  | nextWriter (t : Int) (dnp : List Bytes) (fullp : Bytes)
  | write (h : Nat) (p : Bytes) (dn : List Bytes) (asString : Bool)
  | readFrom (h : Nat) (src : Src)
  | close (h : Nat) (dn : List Bytes) (full : Bytes)
  | writeMessage (t : Int) (data : Bytes) (dnp : List Bytes) (fullp : Bytes) (dn : List Bytes) (full : Bytes)
  | writeJSON (enc : Bytes) (dnp : List Bytes) (fullp : Bytes) (dn : List Bytes) (full : Bytes)
  | writeControl (t : Int) (data : Bytes) (d : Int)
  | writePrepared (t : Int) (image : Bytes) (dnp : List Bytes) (fullp : Bytes)
  | setWriteDeadline (d : Int)
  | enableWriteCompression (b : Bool)
  | setCompressionLevel (l : Int)

/-- ReadFrom on a handle: messageWriter implements io.ReaderFrom; a flate wrapper does not (io.Copy
    then falls back to Write, which is `Op.write`) -/
def hReadFrom (s : W) (h : Nat) (r : Src) : Option WErr × W :=
  match s.handles[h]? with
  | some (.plain i) =>
    let ((_, e), s, m) := mwReadFrom s (getMW s i) r
    (e, setMW s i m)
  | _ => (some .any, s)

def applyOp (s : W) : Op → Option WErr × W
  | .nextWriter t dnp fullp =>
    match nextWriter s t dnp fullp with
    | (.ok _, s) => (none, s)
    | (.error e, s) => (some e, s)
  | .write h p dn asString => let ((_, e), s) := hWrite s h p dn asString; (e, s)
  | .readFrom h r => hReadFrom s h r
  | .close h dn full => hClose s h dn full
  | .writeMessage t data dnp fullp dn full => writeMessage s t data dnp fullp dn full
  | .writeJSON enc dnp fullp dn full => writeJSON s enc dnp fullp dn full
  | .writeControl t data d => writeControl s t data d
  | .writePrepared t image dnp fullp => writePreparedImage s t image dnp fullp
  | .setWriteDeadline d => (none, setWriteDeadline s d)
  | .enableWriteCompression b => (none, enableWriteCompression s b)
  | .setCompressionLevel l => setCompressionLevel s l

def run (s : W) : List Op → W
  | [] => s
  | op :: ops => run (applyOp s op).2 ops

end WS
