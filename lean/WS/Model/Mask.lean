import WS.Basic
/-
  WS.Model.Mask — mask.go `maskBytes` (word-at-a-time) and the byte-wise reference.

  `maskFrom k pos bs` is RFC 6455 §5.3 masking starting at key offset `pos`.
  `maskBytesGo k pos a bs` follows mask.go statement by statement; `a` is the address of
  `&b[0]` modulo the word size (8), which the Go code inspects and which therefore is a
  parameter of the model (it depends on where the slice lives in memory).
-/
namespace WS

structure Key where
  k0 : UInt8
  k1 : UInt8
  k2 : UInt8
  k3 : UInt8
  deriving DecidableEq, Repr, Inhabited

def Key.at (k : Key) (i : Nat) : UInt8 :=
  match i % 4 with
  | 0 => k.k0
  | 1 => k.k1
  | 2 => k.k2
  | _ => k.k3

def Key.bytes (k : Key) : Bytes := [k.k0, k.k1, k.k2, k.k3]

def Key.ofBytes : Bytes → Option Key
  | [a, b, c, d] => some ⟨a, b, c, d⟩
  | _ => none

/-- RFC 6455 §5.3: octet i of the output is octet i of the input XOR octet ((pos+i) mod 4) of the key. -/
def maskFrom (k : Key) : Nat → Bytes → Bytes
  | _, [] => []
  | pos, b :: bs => (b ^^^ k.at pos) :: maskFrom k (pos + 1) bs

def wordSize : Nat := 8

/-- XOR a block with a fixed 8-byte word `kw` repeated (the `*(*uintptr)(…) ^= kw` loop). -/
def xorWords (kw : Bytes) : Nat → Bytes → Bytes
  | 0, bs => bs
  | n + 1, bs => (List.zipWith (· ^^^ ·) (bs.take 8) kw) ++ xorWords kw n (bs.drop 8)

/-- mask.go `maskBytes`, following its control flow. Returns the new bytes and `pos & 3`. -/
def maskBytesGo (k : Key) (pos : Nat) (a : Nat) (b : Bytes) : Bytes × Nat :=
  if b.length < 2 * wordSize then
    (maskFrom k pos b, (pos + b.length) % 4)
  else
    -- Mask one byte at a time to word boundary.
    let n := if a % wordSize ≠ 0 then wordSize - a % wordSize else 0
    let pre := maskFrom k pos (b.take n)
    let pos1 := pos + n
    let b1 := b.drop n
    -- Create aligned word size key.
    let kw : Bytes := (List.range wordSize).map (fun i => k.at (pos1 + i))
    -- Mask one word at a time.
    let nw := b1.length / wordSize
    let mid := xorWords kw nw (b1.take (nw * wordSize))
    -- Mask one byte at a time for remaining bytes (pos is *not* advanced over the words).
    let tl := maskFrom k pos1 (b1.drop (nw * wordSize))
    (pre ++ mid ++ tl, (pos1 + (b1.length - nw * wordSize)) % 4)

end WS
