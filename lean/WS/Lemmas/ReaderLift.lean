import WS.Lemmas.ReaderDecodes
import WS.Lemmas.ReaderRejects
import WS.Lemmas.RobustReader
/-
  C04 / C06 at the level of the read API: what NextReader and a message reader return when the next
  frame violates the framing rules or breaks the read limit — after any conformant history.

-/
namespace WS.ReaderLift
open WS WS.Codec WS.SrcLaw WS.HdrLogic WS.ReaderDecodes WS.ReaderRejects

/-! ### lifting an `advanceFrame` error through the loops -/

open WS.RobustAux in
/-- one iteration of the NextReader loop on a failing frame -/
theorem nextReaderLoop_err (fuel : Nat) (c : Conn) (h : c.r.readErr = none) (e : RErr) (c' : Conn)
    (ha : advanceFrame c = (.error e, c')) :
    nextReaderLoop (fuel + 1) c = (.err e, { c' with r := { c'.r with readErr := some e } }) := by
  unfold nextReaderLoop
  simp only [h, ha]

theorem idle_c0_boundary (c : Conn) (hc : ReaderIdle c) : AtBoundary (RobustAux.c0 c) :=
  ⟨hc.noErr, hc.rem, hc.wf, hc.size⟩

open WS.RobustAux in
/-- NextReader when the first frame fails in advanceFrame: the error is returned and recorded,
    unless this is the 1000th failed call, which panics -/
theorem nextReader_adv_err (c : Conn) (h : c.r.readErr = none) (e : RErr) (c' : Conn)
    (ha : advanceFrame (c0 c) = (.error e, c')) :
    nextReader c =
      (if c.r.errCount + 1 ≥ 1000 then NRRes.panic else NRRes.err e,
       { c' with r := { c'.r with readErr := some e, errCount := c.r.errCount + 1 } }) := by
  have hec : c'.r.errCount = c.r.errCount := by
    have := advanceFrame_ec (c0 c)
    rw [ha] at this
    exact this
  have hf : c.fuel = (c.r.buf.total + c.r.buf.size + 1) + 1 := rfl
  rw [nextReader_eq, nrRes_none c h, hf, nextReaderLoop_err _ (c0 c) h e c' ha]
  unfold nrFinish
  simp only [hec, Option.getD_some]
  split <;> rfl

/-- one Read on a message reader whose next frame fails in advanceFrame -/
theorem mrRead_adv_err (c : Conn) (rid k : Nat) (h : c.r.readErr = none) (hr : c.r.remaining = 0)
    (hf : c.r.final = false) (hm : c.r.msgReader = some rid) (e : RErr) (c' : Conn)
    (ha : advanceFrame c = (.error e, c')) (hne : e ≠ .eof) :
    mrRead c rid k = (([], some e), { c' with r := { c'.r with readErr := some e } }) := by
  have hrem : ¬ c.r.remaining > 0 := by rw [hr]; decide
  have hfu : c.fuel + 1 = (c.r.buf.total + c.r.buf.size + 1) + 1 + 1 := rfl
  have hne' : (e = RErr.eof) = False := eq_false hne
  unfold mrRead
  rw [hfu]
  unfold mrReadLoop
  simp only [hm, ne_eq, not_true_eq_false, if_false, h, hrem, hf, Bool.false_eq_true, ha]
  unfold mrReadLoop
  simp only [hne', decide_false, Bool.false_and, Bool.false_eq_true, if_false]

/-! ### C04 at NextReader -/

/-- C04 (idle), total form: as `nextReader_violation`, with the documented panic of the 1000th
    failed call made explicit -/
theorem nextReader_violation_total (c : Conn) (hc : ReaderIdle c) (hw : WHealthy c.w) (b0 b1 : UInt8) (rest : Bytes)
    (hp : c.r.buf.pending = b0 :: b1 :: rest)
    (hv : Violates c.r.isServer c.r.nego false (parseHdr b0 b1)) :
    ∃ msg c', nextReader c = (if c.r.errCount + 1 ≥ 1000 then NRRes.panic else .err (.protocol msg), c') ∧
      c'.r.readErr = some (.protocol msg) ∧
      c'.r.hlog = c.r.hlog ∧ c'.r.buf.pending = rest ∧
      c'.w.wire = c.w.wire ++ closeFrameBytes c.w ((closePayload 1002 (strBytes msg)).take 125) ∧
      c'.w.writeErr = some .closeSent := by
  have hv' : Violates (RobustAux.c0 c).r.isServer (RobustAux.c0 c).r.nego (!(RobustAux.c0 c).r.final) (parseHdr b0 b1) := by
    show Violates c.r.isServer c.r.nego (!c.r.final) (parseHdr b0 b1)
    rw [hc.fin]; exact hv
  obtain ⟨msg, c', ha, h1, h2, h3, h4⟩ :=
    header_violation_rejected (RobustAux.c0 c) (idle_c0_boundary c hc) hw b0 b1 rest hp hv'
  exact ⟨msg, _, nextReader_adv_err c hc.noErr _ c' ha, rfl, h1, h2, h3, h4⟩

/-- C04 (idle): `nextReader_violation` below is false on the 1000th failed call (NextReader panics
    instead of returning the error); this is the statement with the missing hypothesis
    `c.r.errCount + 1 < 1000` (the same side condition as `ReaderRejects.nextReader_sticky`) -/
theorem nextReader_violation_partial (c : Conn) (hc : ReaderIdle c) (hw : WHealthy c.w) (b0 b1 : UInt8) (rest : Bytes)
    (hp : c.r.buf.pending = b0 :: b1 :: rest)
    (hv : Violates c.r.isServer c.r.nego false (parseHdr b0 b1))
    (hn : c.r.errCount + 1 < 1000) :
    ∃ msg c', nextReader c = (.err (.protocol msg), c') ∧ c'.r.readErr = some (.protocol msg) ∧
      c'.r.hlog = c.r.hlog ∧ c'.r.buf.pending = rest ∧
      c'.w.wire = c.w.wire ++ closeFrameBytes c.w ((closePayload 1002 (strBytes msg)).take 125) ∧
      c'.w.writeErr = some .closeSent := by
  obtain ⟨msg, c', h0, h⟩ := nextReader_violation_total c hc hw b0 b1 rest hp hv
  have hn' : ¬ (c.r.errCount + 1 ≥ 1000) := by omega
  rw [if_neg hn'] at h0
  exact ⟨msg, c', h0, h⟩

/-- counterexample to `nextReader_violation` as originally stated: an idle, healthy client-side
    connection whose NextReader has already failed 999 times (`ReaderIdle` does not bound
    `errCount`) and whose next frame is a text frame with RSV1 set (no compression negotiated) -/
def cex : Conn :=
  { w := { isServer := false, wbufLen := 0, pool := false, nego := false },
    r := { isServer := false, nego := false, errCount := 999,
           buf := { size := 4096, buf := [0xC1, 0x00], total := 2 } } }

theorem cex_idle : ReaderIdle cex :=
  ⟨rfl, rfl, rfl, ⟨by decide, by decide, (by intro c h; cases h), (by intro e h; cases h)⟩, by decide, by decide,
    (by intro id h; cases h), (by intro id h; cases h)⟩

theorem cex_healthy : WHealthy cex.w := ⟨rfl, rfl⟩

theorem cex_pending : cex.r.buf.pending = 0xC1 :: 0x00 :: [] := by decide

theorem cex_violates : Violates cex.r.isServer cex.r.nego false (parseHdr 0xC1 0x00) :=
  Or.inr (Or.inr (Or.inl ⟨by decide, rfl⟩))

/-- all hypotheses of `nextReader_violation` hold for `cex` (cex_idle, cex_healthy, cex_pending,
    cex_violates), but NextReader panics (`#eval (nextReader cex).1` prints `WS.NRRes.panic`) -/
theorem nextReader_violation_cex : ¬ ∃ msg c', nextReader cex = (.err (.protocol msg), c') := by
  rintro ⟨msg, c', h⟩
  obtain ⟨msg2, c2, h2, _⟩ := nextReader_violation_total cex cex_idle cex_healthy 0xC1 0x00 [] cex_pending cex_violates
  have hn : cex.r.errCount + 1 ≥ 1000 := by decide
  rw [if_pos hn, h] at h2
  have := congrArg Prod.fst h2
  cases this

/- ORIGINAL STATEMENT (false: counterexample `cex` above, refuted by `nextReader_violation_cex`;
   the closest true statements are `nextReader_violation_partial` / `nextReader_violation_total`):

theorem nextReader_violation (c : Conn) (hc : ReaderIdle c) (hw : WHealthy c.w) (b0 b1 : UInt8) (rest : Bytes)
    (hp : c.r.buf.pending = b0 :: b1 :: rest)
    (hv : Violates c.r.isServer c.r.nego false (parseHdr b0 b1)) :
    ∃ msg c', nextReader c = (.err (.protocol msg), c') ∧ c'.r.readErr = some (.protocol msg) ∧
      c'.r.hlog = c.r.hlog ∧ c'.r.buf.pending = rest ∧
      c'.w.wire = c.w.wire ++ closeFrameBytes c.w ((closePayload 1002 (strBytes msg)).take 125) ∧
      c'.w.writeErr = some .closeSent
-/

/-! ### C04 inside a fragmented message -/

/-- a reader in the middle of a fragmented message, at a frame boundary: the current frame's payload
    has been delivered completely and it was not the final frame -/
structure MidMessage (c : Conn) (rid : Nat) : Prop where
  noErr : c.r.readErr = none
  rem : c.r.remaining = 0
  notFinal : c.r.final = false
  cur : c.r.msgReader = some rid
  wf : WF c.r.buf
  size : 125 ≤ c.r.buf.size
  fuel : c.r.buf.pending.length ≤ c.r.buf.total

set_option linter.unusedVariables false in
/-- C04 (inside a fragmented message): the next Read on the message reader returns the protocol
    error, delivers no byte, and the 1002 close frame is written; a new text / binary frame is such a
    violation -/
theorem read_violation_mid_message (c : Conn) (rid : Nat) (hc : MidMessage c rid) (hw : WHealthy c.w) (b0 b1 : UInt8) (rest : Bytes)
    (hp : c.r.buf.pending = b0 :: b1 :: rest)
    (hv : Violates c.r.isServer c.r.nego true (parseHdr b0 b1)) (k : Nat) (hk : 0 < k) :
    ∃ msg c', mrRead c rid k = (([], some (.protocol msg)), c') ∧ c'.r.readErr = some (.protocol msg) ∧
      c'.r.hlog = c.r.hlog ∧
      c'.w.wire = c.w.wire ++ closeFrameBytes c.w ((closePayload 1002 (strBytes msg)).take 125) := by
  have hv' : Violates c.r.isServer c.r.nego (!c.r.final) (parseHdr b0 b1) := by
    rw [hc.notFinal]; exact hv
  obtain ⟨msg, c', ha, h1, _, h3, _⟩ :=
    header_violation_rejected c ⟨hc.noErr, hc.rem, hc.wf, hc.size⟩ hw b0 b1 rest hp hv'
  exact ⟨msg, _, mrRead_adv_err c rid k hc.noErr hc.rem hc.notFinal hc.cur _ c' ha (by intro h; cases h),
    rfl, h1, h3⟩

/-! ### C06 at NextReader -/

theorem parseHdr_data (t : Nat) (ht : t = 1 ∨ t = 2) (n : Nat) (hn : n < 126) :
    parseHdr (UInt8.ofNat (128 + t)) (UInt8.ofNat n) = Hdr.mk t true false false false false n := by
  rw [parseHdr_ctl _ n (by omega)]
  rcases ht with rfl | rfl <;> rfl

/-- C06, total form: as `nextReader_over_limit`, with the panic of the 1000th failed call explicit -/
theorem nextReader_over_limit_total (c : Conn) (hc : ReaderIdle c) (hw : WHealthy c.w) (hclient : c.r.isServer = false)
    (t : Nat) (ht : t = 1 ∨ t = 2) (payload rest : Bytes) (hl : payload.length < 126)
    (hp : c.r.buf.pending = [UInt8.ofNat (128 + t), UInt8.ofNat payload.length] ++ payload ++ rest)
    (hlim : 0 < c.r.limit) (hover : c.r.limit < payload.length) :
    ∃ c', nextReader c = (if c.r.errCount + 1 ≥ 1000 then NRRes.panic else .err .readLimit, c') ∧
      c'.r.readErr = some .readLimit ∧
      c'.r.buf.pending = payload ++ rest ∧
      c'.w.wire = c.w.wire ++ closeFrameBytes c.w (closePayload 1009 []) := by
  have hH := parseHdr_data t ht payload.length hl
  have hp' : (RobustAux.c0 c).r.buf.pending =
      UInt8.ofNat (128 + t) :: UInt8.ofNat payload.length :: (payload ++ rest) := by
    show c.r.buf.pending = _
    rw [hp, List.append_assoc]; rfl
  have hok : ¬ Violates (RobustAux.c0 c).r.isServer (RobustAux.c0 c).r.nego (!(RobustAux.c0 c).r.final)
      (parseHdr (UInt8.ofNat (128 + t)) (UInt8.ofNat payload.length)) := by
    show ¬ Violates c.r.isServer c.r.nego (!c.r.final) _
    rw [hH, hc.fin, hclient]
    unfold Violates
    simp only []
    rcases ht with rfl | rfl <;> simp
  obtain ⟨c', ha, h1, _, h3, _⟩ :=
    limit_refuses_small (RobustAux.c0 c) (idle_c0_boundary c hc) hw _ _ (payload ++ rest) hclient hp' hok
      (by rw [hH]; show t ≤ 2; omega) (by rw [hH]; exact hl) hlim (Int.le_refl 0) (by show (0 : Int) < 2 ^ 62; decide)
      (by
        rw [hH]
        show c.r.limit < sumBase (RobustAux.c0 c) _ + (payload.length : Int)
        have : sumBase (RobustAux.c0 c) (Hdr.mk t true false false false false payload.length) = 0 := by
          unfold sumBase; split <;> rfl
        rw [this]; omega)
  exact ⟨_, nextReader_adv_err c hc.noErr _ c' ha, rfl, h1, h3⟩

/-- C06: `nextReader_over_limit` below is false on the 1000th failed call; this is the statement
    with the missing hypothesis `c.r.errCount + 1 < 1000` -/
theorem nextReader_over_limit_partial (c : Conn) (hc : ReaderIdle c) (hw : WHealthy c.w) (hclient : c.r.isServer = false)
    (t : Nat) (ht : t = 1 ∨ t = 2) (payload rest : Bytes) (hl : payload.length < 126)
    (hp : c.r.buf.pending = [UInt8.ofNat (128 + t), UInt8.ofNat payload.length] ++ payload ++ rest)
    (hlim : 0 < c.r.limit) (hover : c.r.limit < payload.length)
    (hn : c.r.errCount + 1 < 1000) :
    ∃ c', nextReader c = (.err .readLimit, c') ∧ c'.r.readErr = some .readLimit ∧
      c'.r.buf.pending = payload ++ rest ∧
      c'.w.wire = c.w.wire ++ closeFrameBytes c.w (closePayload 1009 []) := by
  obtain ⟨c', h0, h⟩ := nextReader_over_limit_total c hc hw hclient t ht payload rest hl hp hlim hover
  have hn' : ¬ (c.r.errCount + 1 ≥ 1000) := by omega
  rw [if_neg hn'] at h0
  exact ⟨c', h0, h⟩

/-- counterexample to `nextReader_over_limit` as originally stated: read limit 1, a 2-byte text
    message, 999 earlier failed NextReader calls -/
def cex2 : Conn :=
  { w := { isServer := false, wbufLen := 0, pool := false, nego := false },
    r := { isServer := false, nego := false, errCount := 999, limit := 1,
           buf := { size := 4096, buf := [0x81, 0x02, 0x41, 0x42], total := 4 } } }

theorem cex2_idle : ReaderIdle cex2 :=
  ⟨rfl, rfl, rfl, ⟨by decide, by decide, (by intro c h; cases h), (by intro e h; cases h)⟩, by decide, by decide,
    (by intro id h; cases h), (by intro id h; cases h)⟩

theorem cex2_pending : cex2.r.buf.pending =
    [UInt8.ofNat (128 + 1), UInt8.ofNat ([0x41, 0x42] : Bytes).length] ++ [0x41, 0x42] ++ [] := by decide

/-- all hypotheses of `nextReader_over_limit` hold for `cex2` (t = 1, payload = [0x41, 0x42],
    rest = []), but NextReader panics -/
theorem nextReader_over_limit_cex : ¬ ∃ c', nextReader cex2 = (.err .readLimit, c') := by
  rintro ⟨c', h⟩
  obtain ⟨c2, h2, _⟩ := nextReader_over_limit_total cex2 cex2_idle ⟨rfl, rfl⟩ rfl 1 (Or.inl rfl)
    [0x41, 0x42] [] (by decide) cex2_pending (by decide) (by decide)
  have hn : cex2.r.errCount + 1 ≥ 1000 := by decide
  rw [if_pos hn, h] at h2
  have := congrArg Prod.fst h2
  cases this

/- ORIGINAL STATEMENT (false: counterexample `cex2` above, refuted by `nextReader_over_limit_cex`;
   the closest true statements are `nextReader_over_limit_partial` / `nextReader_over_limit_total`):

theorem nextReader_over_limit (c : Conn) (hc : ReaderIdle c) (hw : WHealthy c.w) (hclient : c.r.isServer = false)
    (t : Nat) (ht : t = 1 ∨ t = 2) (payload rest : Bytes) (hl : payload.length < 126)
    (hp : c.r.buf.pending = [UInt8.ofNat (128 + t), UInt8.ofNat payload.length] ++ payload ++ rest)
    (hlim : 0 < c.r.limit) (hover : c.r.limit < payload.length) :
    ∃ c', nextReader c = (.err .readLimit, c') ∧ c'.r.readErr = some .readLimit ∧
      c'.r.buf.pending = payload ++ rest ∧
      c'.w.wire = c.w.wire ++ closeFrameBytes c.w (closePayload 1009 [])
-/

-- checked: `#eval (nextReader cex).1` and `#eval (nextReader cex2).1` both print `WS.NRRes.panic`

end WS.ReaderLift
