import WS.Model.Reader
import WS.Lemmas.AdvFrame
/- advanceFrame and messageReader.Read never touch `nego` (copy of the `errCount` chain of RobustReader.lean) -/
namespace WS.NegoKeep
open WS WS.AdvFrame

theorem hpe_r (c : Conn) (msg : String) : (handleProtocolError c msg).2.r = c.r := rfl
theorem stb_r (c : Conn) : (sendTooBig c).r = c.r := rfl
theorem rh_ng (m : HMode) (c : Conn) (ev : REv) : (runHandler m c ev).2.r.nego = c.r.nego := by
  unfold runHandler; split <;> rfl

/-- generic projection lemmas: stated over arbitrary field values, so that neither the elaborator nor
    the kernel ever has to compare an updated record with the original one field by field (which
    would make them evaluate `wrap64 (beVal p)` on an open term). -/
theorem ng_pair {α : Type} (a : α) (w : W) (f1 f2 : Bool) (f3 : Option RErr) (f4 : Int) (f5 : Bool) (f6 f7 : Int)
    (f8 : Nat) (f9 : Key) (f10 : Bool) (f11 : Nat) (f12 : Option Nat) (f13 : Nat) (f14 f15 f16 : HMode)
    (f17 : Buf) (f18 : List REv) :
    (a, Conn.mk w (R.mk f1 f2 f3 f4 f5 f6 f7 f8 f9 f10 f11 f12 f13 f14 f15 f16 f17 f18)).snd.r.nego = f2 := rfl

theorem ng_pair_stb {α : Type} (a : α) (w : W) (f1 f2 : Bool) (f3 : Option RErr) (f4 : Int) (f5 : Bool) (f6 f7 : Int)
    (f8 : Nat) (f9 : Key) (f10 : Bool) (f11 : Nat) (f12 : Option Nat) (f13 : Nat) (f14 f15 f16 : HMode)
    (f17 : Buf) (f18 : List REv) :
    (a, sendTooBig (Conn.mk w (R.mk f1 f2 f3 f4 f5 f6 f7 f8 f9 f10 f11 f12 f13 f14 f15 f16 f17 f18))).snd.r.nego = f2 := rfl

theorem afSkip_ng (c : Conn) : (afSkip c).2.r.nego = c.r.nego := by
  unfold afSkip; split <;> rfl

theorem afLen_ng (h : Hdr) (c : Conn) : (afLen h c).2.r.nego = c.r.nego := by
  unfold afLen
  split
  · generalize c.r.buf.take 2 = x
    obtain ⟨p, e, b⟩ := x
    cases e <;> rfl
  · split
    · generalize c.r.buf.take 8 = x
      obtain ⟨p, e, b⟩ := x
      cases e
      · simp only []
        split
        · exact ng_pair_stb ..
        · exact ng_pair ..
      · rfl
    · rfl

theorem afKey_ng (h : Hdr) (c : Conn) : (afKey h c).2.r.nego = c.r.nego := by
  unfold afKey
  split
  · generalize c.r.buf.take 4 = x
    obtain ⟨p, e, b⟩ := x
    cases e
    · simp only []
      cases Key.ofBytes p <;> rfl
    · rfl
  · rfl

theorem afData_ng (h : Hdr) (c : Conn) : (afData h c).2.r.nego = c.r.nego := by
  unfold afData
  simp only []
  generalize (if (h.opcode == 0) = true then c.r.length else 0) = base
  split
  · exact ng_pair_stb ..
  · exact ng_pair ..

theorem afPayload_ng (c : Conn) : (afPayload c).2.2.r.nego = c.r.nego := by
  unfold afPayload
  split
  · generalize c.r.buf.take c.r.remaining.toNat = x
    obtain ⟨p, e, b⟩ := x
    cases e <;> rfl
  · rfl
theorem ng_w {α : Type} (a : α) (w : W) (c : Conn) : (a, ({ c with w := w } : Conn)).snd.r.nego = c.r.nego := rfl
theorem ng_id {α : Type} (a : α) (c : Conn) : (a, c).snd.r.nego = c.r.nego := rfl

/-- result of a handler call followed by the optional reply -/
theorem rh_tail (m : HMode) (c : Conn) (ev : REv) (f : Conn → Except RErr Nat × Conn)
    (hf : ∀ c', (f c').2.r.nego = c'.r.nego) :
    (match runHandler m c ev with
      | (e, c) => match e with
        | some e => ((.error e : Except RErr Nat), c)
        | none => f c).2.r.nego = c.r.nego := by
  have h := rh_ng m c ev
  generalize runHandler m c ev = x at h ⊢
  obtain ⟨e, c'⟩ := x
  cases e
  · exact (hf c').trans h
  · exact h

theorem afDispatch_ng (h : Hdr) (p : Bytes) (c : Conn) : (afDispatch h p c).2.r.nego = c.r.nego := by
  unfold afDispatch
  split
  · exact rh_tail _ _ _ (fun c => (.ok 10, c)) (fun _ => rfl)
  · split
    · exact rh_tail _ _ _ (fun c => (.ok 9, if c.r.hPing = .dflt then { c with w := (writeControl c.w 10 p writeWaitDeadline).2 } else c))
        (fun c' => by simp only []; split <;> rfl)
    · extract_lets code text
      split
      · exact congrArg R.nego (hpe_r _ _)
      · split
        · exact congrArg R.nego (hpe_r _ _)
        · exact rh_tail _ _ _ (fun c => (.error (.close code text), if c.r.hClose = .dflt then { c with w := (writeControl c.w 8 (closePayload code []) writeWaitDeadline).2 } else c))
            (fun c' => by simp only []; split <;> rfl)

theorem afHdr_ng (c : Conn) (b0 b1 : UInt8) : (afHdr c b0 b1).2.r.nego = c.r.nego := by
  unfold afHdr
  extract_lets h errs final' src c1
  have h0 : c1.r.nego = c.r.nego := rfl
  split
  · exact (congrArg R.nego (hpe_r _ _)).trans h0
  · have h1 := afLen_ng h c1
    generalize afLen h c1 = x at h1 ⊢
    obtain ⟨e, c2⟩ := x
    cases e
    · simp only [] at h1 ⊢
      have h2 := afKey_ng h c2
      generalize afKey h c2 = x at h2 ⊢
      obtain ⟨e, c3⟩ := x
      cases e
      · simp only [] at h2 ⊢
        split
        · exact (afData_ng h c3).trans (h2.trans (h1.trans h0))
        · have h3 := afPayload_ng c3
          generalize afPayload c3 = x at h3 ⊢
          obtain ⟨e, p, c4⟩ := x
          cases e
          · simp only [] at h3 ⊢
            exact (afDispatch_ng h p c4).trans (h3.trans (h2.trans (h1.trans h0)))
          · exact h3.trans (h2.trans (h1.trans h0))
      · exact h2.trans (h1.trans h0)
    · exact h1.trans h0

theorem afHead_ng (c : Conn) : (afHead c).2.r.nego = c.r.nego := by
  unfold afHead
  generalize c.r.buf.take 2 = x
  obtain ⟨p, e, b⟩ := x
  simp only []
  split
  · rfl
  · exact afHdr_ng _ _ _
  · rfl

theorem advanceFrame_ng (c : Conn) : (advanceFrame c).2.r.nego = c.r.nego := by
  rw [advanceFrame_eq]
  have h1 := afSkip_ng c
  generalize afSkip c = x at h1 ⊢
  obtain ⟨e, c1⟩ := x
  cases e
  · exact (afHead_ng c1).trans h1
  · exact h1

theorem mrReadLoop_ng (fuel : Nat) : ∀ (c : Conn) (rid k : Nat),
    (mrReadLoop fuel c rid k).2.r.nego = c.r.nego := by
  induction fuel with
  | zero => intro c rid k; rfl
  | succ n ih =>
    intro c rid k
    unfold mrReadLoop
    split
    · rfl
    · split
      · generalize c.r.buf.read (min k c.r.remaining.toNat) = x
        obtain ⟨bs, e, b⟩ := x
        rfl
      · split
        · rfl
        · have h1 := advanceFrame_ng c
          generalize advanceFrame c = x at h1 ⊢
          obtain ⟨res, c1⟩ := x
          cases res with
          | error e => exact (ih _ rid k).trans h1
          | ok t =>
            simp only [] at h1 ⊢
            split
            · exact (ih _ rid k).trans h1
            · exact (ih _ rid k).trans h1

theorem mrRead_ng (c : Conn) (rid k : Nat) : (mrRead c rid k).2.r.nego = c.r.nego := by
  unfold mrRead
  split
  · rfl
  · exact mrReadLoop_ng _ c rid k

end WS.NegoKeep
