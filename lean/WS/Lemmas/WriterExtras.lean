import WS.Model.Writer
import WS.Lemmas.Writer
/-
  C10: invalid write requests are harmless; every frame is written under the deadline in force.

-/
namespace WS.WriterExtras
open WS

/-- a bad message type is refused by WriteControl without any effect at all -/
theorem writeControl_badType (s : W) (t : Int) (data : Bytes) (d : Int) (ht : isControl t = false) :
    writeControl s t data d = (some .badOpcode, s) := by
  unfold writeControl
  simp [ht]

/-- a control payload over 125 bytes is refused by WriteControl without any effect at all -/
theorem writeControl_tooLong (s : W) (t : Int) (data : Bytes) (d : Int) (ht : isControl t = true) (hl : 125 < data.length) :
    writeControl s t data d = (some .invalidControl, s) := by
  have hm : maxControlPayload = 125 := by decide
  unfold writeControl
  rw [hm]
  simp [ht, hl]

theorem beginMessage_badType (s : W) (t : Int) (dnp : List Bytes) (fullp : Bytes)
    (ht : isControl t = false ∧ isData t = false) :
    beginMessage s t dnp fullp = (.error .badOpcode, closePrev s dnp fullp) := by
  unfold beginMessage beginMessage'
  simp [ht.1, ht.2]

/-- NextWriter / WriteMessage with a bad message type: an error, no transport call for this request
    (only the implicit close of a previously open writer can reach the transport), the sticky error
    is untouched -/
theorem nextWriter_badType (s : W) (t : Int) (dnp : List Bytes) (fullp : Bytes) (ht : isControl t = false ∧ isData t = false) :
    (nextWriter s t dnp fullp).1 = .error .badOpcode ∧ (nextWriter s t dnp fullp).2 = closePrev s dnp fullp := by
  have hb : beginMessage s t dnp fullp = (.error .badOpcode, closePrev s dnp fullp) := by
    unfold beginMessage beginMessage'
    simp [ht.1, ht.2]
  unfold nextWriter
  rw [hb]
  exact ⟨rfl, rfl⟩

theorem writeMessage_badType (s : W) (t : Int) (data : Bytes) (dnp : List Bytes) (fullp : Bytes) (dn : List Bytes) (full : Bytes)
    (ht : isControl t = false ∧ isData t = false) :
    (writeMessage s t data dnp fullp dn full).1 = some .badOpcode ∧
    (writeMessage s t data dnp fullp dn full).2 = closePrev s dnp fullp := by
  have hb : beginMessage s t dnp fullp = (.error .badOpcode, closePrev s dnp fullp) :=
    beginMessage_badType s t dnp fullp ht
  have hn := nextWriter_badType s t dnp fullp ht
  unfold writeMessage
  split
  · rw [hb]; exact ⟨rfl, rfl⟩
  · split
    · rename_i e s' heq
      rw [heq] at hn
      simp only at hn
      obtain ⟨h1, h2⟩ := hn
      cases h1
      exact ⟨rfl, h2⟩
    · rename_i h s' heq
      rw [heq] at hn
      simp at hn

/-- a control message that would exceed 125 bytes or need a second frame is refused by flushFrame
    before any byte is produced: no transport call, sticky error untouched -/
theorem flushFrame_invalidControl (s : W) (m : MW) (final : Bool) (extra : Bytes)
    (hc : isControl m.ft = true) (hbad : final = false ∨ 125 < m.buf.length + extra.length) :
    (flushFrame s m final extra).1 = some .invalidControl ∧
    (flushFrame s m final extra).2.1.core = s.core := by
  have hm : maxControlPayload = 125 := by decide
  have hcond : (isControl m.ft && (!final || decide (m.buf.length + extra.length > maxControlPayload))) = true := by
    rw [hm, hc]
    cases hbad with
    | inl h => simp [h]
    | inr h => simp [h]
  unfold flushFrame
  rw [if_pos hcond]
  exact ⟨rfl, endMessage_core _ _ _⟩

/-- the transport events a log may contain between two API calls -/
def isSwdOk : Ev → Option Int
  | .swd d none => some d
  | _ => none

/-- deadline discipline of a log: every transport Write is directly preceded by a successful
    SetWriteDeadline, or by another Write that is (the two-buffer write of one frame) -/
def DeadlineOK : List Ev → Prop
  | [] => True
  | [.wr _ _ _] => False
  | e :: rest =>
    (match e, rest with
     | .swd _ none, _ => True
     | .swd _ (some _), (.wr _ _ _) :: _ => False      -- a failed deadline call is never followed by a Write
     | .wr _ _ _, (.wr _ _ _) :: (.wr _ _ _) :: _ => False  -- at most two Writes per deadline call
     | _, _ => True) ∧ DeadlineOK rest

/-- transport events only: pool and handler events removed -/
def tevents (l : List Ev) : List Ev := l.filter (fun e => match e with | .swd _ _ => true | .wr _ _ _ => true | _ => false)

@[simp] theorem writeFatal_log (s : W) (e : WErr) : (writeFatal s e).log = s.log := by
  unfold writeFatal; split <;> rfl

theorem tSetWD_log (s : W) (d : Int) : ∃ f, (tSetWD s d).2.log = s.log ++ [.swd d f] := by
  unfold tSetWD
  dsimp only
  split
  · exact ⟨none, rfl⟩
  · exact ⟨some _, rfl⟩
  · exact ⟨some _, rfl⟩

theorem tWrite_log (s : W) (b : Bytes) : ∃ n f, (tWrite s b).2.log = s.log ++ [.wr b n f] := by
  unfold tWrite
  dsimp only
  split
  · exact ⟨_, none, rfl⟩
  · exact ⟨_, some _, rfl⟩
  · exact ⟨_, some _, rfl⟩

theorem writeBufs_log (s : W) (b0 b1 : Bytes) :
    ∃ evs, (writeBufs s b0 b1).2.log = s.log ++ evs ∧
      (∀ e ∈ evs, ∃ b n f, e = .wr b n f) ∧ evs.length ≤ 2 := by
  unfold writeBufs
  obtain ⟨n0, f0, h0⟩ := tWrite_log s b0
  split
  · exact ⟨[.wr b0 n0 f0], h0, by simp, by simp⟩
  · split
    · rename_i e s1 heq
      rw [heq] at h0
      exact ⟨[.wr b0 n0 f0], h0, by simp, by simp⟩
    · rename_i s1 heq
      rw [heq] at h0
      obtain ⟨n1, f1, h1⟩ := tWrite_log s1 b1
      refine ⟨[.wr b0 n0 f0, .wr b1 n1 f1], ?_, by simp, by simp⟩
      rw [h1]; simp only at h0; rw [h0]; simp

/-- Conn.write: the events it appends are `swd d` followed by one or two Writes (or fewer on a fault),
    with `d` the deadline argument -/
theorem connWrite_events (s : W) (ft d : Int) (b0 b1 : Bytes) :
    ∃ evs, (connWrite s ft d b0 b1).2.log = s.log ++ evs ∧
      (evs = [] ∨ ∃ f, evs.head? = some (.swd d f)) ∧
      (∀ e ∈ evs.drop 1, ∃ b n f, e = .wr b n f) ∧ evs.length ≤ 3 := by
  unfold connWrite
  split
  · exact ⟨[], by simp, Or.inl rfl, by simp, by simp⟩
  · obtain ⟨f, hf⟩ := tSetWD_log s d
    split
    · rename_i e s1 heq
      rw [heq] at hf
      refine ⟨[.swd d f], ?_, Or.inr ⟨f, rfl⟩, by simp, by simp⟩
      rw [writeFatal_log]; exact hf
    · rename_i s1 heq
      rw [heq] at hf
      obtain ⟨ws, hws, hall, hlen⟩ := writeBufs_log s1 b0 b1
      have hfin : ∀ s2 : W, s2.log = s1.log ++ ws →
          s2.log = s.log ++ (.swd d f :: ws) := by
        intro s2 h2
        rw [h2]; simp only at hf; rw [hf]; simp
      split
      · rename_i e s2 heq2
        rw [heq2] at hws
        refine ⟨.swd d f :: ws, ?_, Or.inr ⟨f, rfl⟩, by simpa using hall, by simp; omega⟩
        rw [writeFatal_log]; exact hfin _ hws
      · rename_i s2 heq2
        rw [heq2] at hws
        refine ⟨.swd d f :: ws, ?_, Or.inr ⟨f, rfl⟩, by simpa using hall, by simp; omega⟩
        split
        · rw [writeFatal_log]; exact hfin _ hws
        · exact hfin _ hws

/-- every frame a message writer flushes is written under the connection's current write deadline -/
theorem frameWrite_deadline (s : W) (m : MW) (final : Bool) (extra : Bytes) :
    ∃ evs, (frameWrite s m final extra).2.log = s.log ++ evs ∧
      (evs = [] ∨ ∃ f, evs.head? = some (.swd s.deadline f)) ∧
      (∀ e ∈ evs.drop 1, ∃ b n f, e = .wr b n f) := by
  unfold frameWrite
  dsimp only
  split
  · obtain ⟨evs, h1, h2, h3, _⟩ := connWrite_events s m.ft s.deadline (header true
      (m.ft + (if final then Gen.finalBit.toNat else 0) + (if m.compress then Gen.rsv1Bit.toNat else 0))
      (m.buf.length + extra.length) default ++ m.buf) extra
    exact ⟨evs, h1, h2, h3⟩
  · split
    · refine ⟨[], ?_, Or.inl rfl, by simp⟩
      rw [writeFatal_log]; simp [newKey]
    · obtain ⟨evs, h1, h2, h3, _⟩ := connWrite_events (newKey s).2 m.ft (newKey s).2.deadline (header false
        (m.ft + (if final then Gen.finalBit.toNat else 0) + (if m.compress then Gen.rsv1Bit.toNat else 0))
        (m.buf.length + extra.length) (newKey s).1 ++ maskFrom (newKey s).1 0 m.buf) []
      exact ⟨evs, h1, h2, h3⟩

/-- WriteControl writes under its own deadline argument (zero included) -/
theorem writeControl_deadline (s : W) (t : Int) (data : Bytes) (d : Int) :
    ∃ evs, (writeControl s t data d).2.log = s.log ++ evs ∧
      (evs = [] ∨ ∃ f, evs.head? = some (.swd d f)) ∧
      (∀ e ∈ evs.drop 1, ∃ b n f, e = .wr b n f) := by
  have hk : (ctlKey s).2.log = s.log := by
    unfold ctlKey; split <;> rfl
  unfold writeControl
  split
  · exact ⟨[], by simp, Or.inl rfl, by simp⟩
  · split
    · exact ⟨[], by simp, Or.inl rfl, by simp⟩
    · dsimp only
      split
      · exact ⟨[], by simp [hk], Or.inl rfl, by simp⟩
      · obtain ⟨evs, h1, h2, h3, _⟩ := connWrite_events (ctlKey s).2 t d
          (controlFrame s.isServer t.toNat data (ctlKey s).1) []
        rw [hk] at h1
        exact ⟨evs, h1, h2, h3⟩

end WS.WriterExtras
