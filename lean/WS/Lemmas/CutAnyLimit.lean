import WS.Lemmas.CutLogic
import WS.Lemmas.ReaderMore
import WS.Lemmas.CutLoopsL
/-
  C05 without the "no read limit" hypothesis: a message cut at any offset strictly inside it is never
  reported complete, whatever read limit is in force (with a limit the failure may be ErrReadLimit
  instead of the transport's error: still an error other than io.EOF, still only a prefix delivered).
-/
namespace WS.CutAnyLimit
open WS WS.Codec WS.ReaderDecodes WS.CutLogic WS.ReaderMore

/-- `C05.cut_never_complete` for ANY read limit (positive, zero or negative) -/
theorem cut_never_complete_any_limit (c : Conn) (hc : ReaderIdle c) (t : Nat) (ht : t = 1 ∨ t = 2)
    (fs : List PFrame)
    (hs : MsgShape t fs) (cut : Nat) (hcut : cut < (encAll c.r.isServer fs).length)
    (hp : c.r.buf.pending = (encAll c.r.isServer fs).take cut)
    (hsz : (dataPayload fs).length < 2 ^ 62)
    (k : Nat) (hk : 0 < k) :
    (∃ e, openAndRead c k = .failedOpen e ∧ c.r.errCount + 1 < 1000) ∨
    (∃ got e, openAndRead c k = .failedRead t got e ∧ e ≠ .eof ∧ got <+: dataPayload fs) ∨
    (1000 ≤ c.r.errCount + 1 ∧ openAndRead c k = .panicked) := by
  have hl : WS.CutLoopsL.LenOv (WS.RobustAux.c0 c) (dataPayload fs).length := by
    show (0 : Int) + ((dataPayload fs).length : Int) < 9223372036854775808
    omega
  have hi : WS.CutLoopsL.CIdle c.r.isServer t (WS.RobustAux.c0 c) fs cut :=
    ⟨⟨hc.wf, hc.size, hc.hp, hc.hq⟩, rfl, hc.noErr, hc.rem, hc.fin, Int.le_refl 0, hp, hcut, hs, hl⟩
  rcases WS.CutLoopsL.nextReader_cut c.r.isServer t ht c fs cut hi with
    ⟨c1, rid, w1, m1, n1, h1, h2, h3, h4, h5⟩ | ⟨e, c1, h1, h2⟩ | ⟨c1, h1, h2⟩
  · right; left
    obtain ⟨got, e, c2, d1, d2, d3⟩ :=
      WS.CutLoopsL.readAllLoop_cut c.r.isServer rid k hk (c1.fuel + 2) c1 w1 m1 n1 [] h2 h3 h4
    refine ⟨got, e, ?_, d2, by rw [← h5]; exact d3⟩
    apply openAndRead_failed c k t rid false c1 c2 got e h1
    unfold readAll
    rw [d1]
    simp
  · left
    exact ⟨e, openAndRead_err c k e c1 h1, h2⟩
  · right; right
    exact ⟨h2, openAndRead_panic c k c1 h1⟩

end WS.CutAnyLimit
