import WS.Lemmas.ReaderDecodes
/-
  C03 through JoinMessages: reading the joined reader delivers, for each message, exactly its payload
  followed by the terminator, for reads of any size — so what the application sees is
  payload₁ ++ term ++ payload₂ ++ term ++ … (join.go joinReader.Read = WS.joinRead).
-/
namespace WS.JoinLaw
open WS WS.Codec WS.SrcLaw WS.ReaderDecodes

/-- read the joined reader with reads of size k until one message and its terminator have been
    delivered (the stage is idle again) or an error occurs; returns everything delivered -/
def joinMsg : Nat → Conn → JStage → Bytes → Nat → Bytes → (Bytes × Option RErr) × Conn × JStage
  | 0, c, st, _, _, acc => ((acc, some .any), c, st)
  | fuel + 1, c, st, term, k, acc =>
    match joinRead c st term k with
    | ((bs, some e), c, st) => ((acc ++ bs, some e), c, st)
    | ((bs, none), c, .idle) => ((acc ++ bs, none), c, .idle)
    | ((bs, none), c, st) => joinMsg fuel c st term k (acc ++ bs)


/-! ### helper lemmas -/

theorem joinRead_term_nil (c : Conn) (rid : Nat) (term : Bytes) (k : Nat) :
    joinRead c (.term rid []) term k = (([], none), c, .idle) := by
  unfold joinRead; simp

theorem joinRead_term_cons (c : Conn) (rid : Nat) (b : UInt8) (r term : Bytes) (k : Nat) :
    joinRead c (.term rid (b :: r)) term k = (((b :: r).take k, none), c, .term rid ((b :: r).drop k)) := by
  unfold joinRead; simp

theorem joinRead_msg_chunk (c c' : Conn) (rid : Nat) (term out : Bytes) (k : Nat)
    (h : mrRead c rid k = ((out, none), c')) :
    joinRead c (.msg rid) term k = ((out, none), c', .msg rid) := by
  unfold joinRead; simp [h]

theorem joinRead_msg_eof (c c' : Conn) (rid : Nat) (term : Bytes) (k : Nat)
    (h : mrRead c rid k = (([], some .eof), c')) :
    joinRead c (.msg rid) term k = ((term.take k, none), c', .term rid (term.drop k)) := by
  unfold joinRead; simp [h]

theorem joinRead_plain_chunk (c c' : Conn) (rid : Nat) (term out : Bytes) (k : Nat)
    (h : mrRead c rid k = ((out, none), c')) :
    joinRead c (.plain rid) term k = ((out, none), c', .plain rid) := by
  unfold joinRead; simp [h]

theorem joinRead_plain_eof (c c' : Conn) (rid : Nat) (term : Bytes) (k : Nat)
    (h : mrRead c rid k = (([], some .eof), c')) :
    joinRead c (.plain rid) term k = (([], none), c', .idle) := by
  unfold joinRead; simp [h]

/-- the first Read of a message: NextReader, then the same Read on the fresh stage -/
theorem joinRead_idle (c c1 : Conn) (t rid : Nat) (z : Bool) (term : Bytes) (k : Nat)
    (h : nextReader c = (.msg t rid z, c1)) :
    joinRead c .idle term k = joinRead c1 (if term.isEmpty then .plain rid else .msg rid) term k := by
  cases term with
  | nil => unfold joinRead; simp [h]
  | cons b r => unfold joinRead; simp [h]

theorem joinMsg_succ (fuel : Nat) (c : Conn) (st : JStage) (term : Bytes) (k : Nat) (acc : Bytes) :
    joinMsg (fuel + 1) c st term k acc =
      match joinRead c st term k with
      | ((bs, some e), c, st) => ((acc ++ bs, some e), c, st)
      | ((bs, none), c, .idle) => ((acc ++ bs, none), c, .idle)
      | ((bs, none), c, st) => joinMsg fuel c st term k (acc ++ bs) := by
  rw [joinMsg]

/-- emitting the terminator -/
theorem term_loop (term : Bytes) (k : Nat) (hk : 0 < k) (c : Conn) (rid : Nat) (fuel : Nat) :
    ∀ (r acc : Bytes), r.length + 1 ≤ fuel →
      joinMsg fuel c (.term rid r) term k acc = ((acc ++ r, none), c, .idle) := by
  induction fuel with
  | zero => intro r acc h; omega
  | succ fuel ih =>
    intro r acc h
    rw [joinMsg_succ]
    cases r with
    | nil => rw [joinRead_term_nil]
    | cons b r =>
      rw [joinRead_term_cons]
      simp only []
      rw [ih _ _ (by simp only [List.length_drop, List.length_cons] at h ⊢; omega), List.append_assoc,
        List.take_append_drop]

/-- the message stage (term ≠ ""): the rest of the message, then the terminator -/
theorem msg_loop (S : Bool) (rid k : Nat) (hk : 0 < k) (rest term : Bytes) (hterm : term ≠ []) (fuel : Nat) :
    ∀ (c : Conn) (wire : Bytes) (more : List PFrame) (acc : Bytes), St S c wire more rest →
      c.r.msgReader = some rid → LenOk c (dataPayload more).length →
      (unmask c wire ++ dataPayload more).length + term.length + 1 ≤ fuel →
      ∃ c2, joinMsg fuel c (.msg rid) term k acc = ((acc ++ (unmask c wire ++ dataPayload more) ++ term, none), c2, .idle) ∧
        St S c2 [] [] rest ∧ c2.r.final = true ∧ Keep c c2 ∧ c2.r.hlog = c.r.hlog ++ ctlEvents more := by
  induction fuel with
  | zero => intro c wire more acc _ _ _ h; omega
  | succ fuel ih =>
    intro c wire more acc hst hm hl hf
    have hmr : mrRead c rid k = mrReadLoop (c.fuel + 1) c rid k := by
      unfold mrRead
      rw [if_neg (by rw [hm]; simp)]
    have hcf : c.r.buf.pending.length < c.fuel + 1 := by
      have := hst.env.fuel
      unfold Conn.fuel; omega
    rw [joinMsg_succ]
    rcases mrReadLoop_spec S rid k hk rest (c.fuel + 1) c wire more hst hm hl hcf with
      ⟨out, c2, w2, m2, b1, b2, b3, b4, b5, b6, b7, b8, b9⟩ | ⟨c2, b1, b2, b3, b4, b5, b6, b7, b8⟩
    · rw [joinRead_msg_chunk c c2 rid term out k (by rw [hmr, b1])]
      simp only []
      have hol : 0 < out.length := List.length_pos_iff.mpr b2
      obtain ⟨c3, d1, d2, d3, d4, d5⟩ := ih c2 w2 m2 (acc ++ out) b3 b5 b6
        (by rw [b7, List.length_append] at hf; omega)
      refine ⟨c3, ?_, d2, d3, b4.trans d4, ?_⟩
      · rw [d1, b7]; simp only [List.append_assoc]
      · rw [d5, b8]
    · rw [joinRead_msg_eof c c2 rid term k (by rw [hmr, b1])]
      simp only []
      have htl : 0 < term.length := List.length_pos_iff.mpr hterm
      rw [term_loop term k hk c2 rid fuel _ _ (by simp only [List.length_drop]; omega), b2, List.append_assoc,
        List.take_append_drop, List.append_nil]
      exact ⟨c2, rfl, b3, b4, b5, b7⟩

/-- the message stage when term = "": the message reader itself -/
theorem plain_loop (S : Bool) (rid k : Nat) (hk : 0 < k) (rest term : Bytes) (fuel : Nat) :
    ∀ (c : Conn) (wire : Bytes) (more : List PFrame) (acc : Bytes), St S c wire more rest →
      c.r.msgReader = some rid → LenOk c (dataPayload more).length →
      (unmask c wire ++ dataPayload more).length + 1 ≤ fuel →
      ∃ c2, joinMsg fuel c (.plain rid) term k acc = ((acc ++ (unmask c wire ++ dataPayload more), none), c2, .idle) ∧
        St S c2 [] [] rest ∧ c2.r.final = true ∧ Keep c c2 ∧ c2.r.hlog = c.r.hlog ++ ctlEvents more := by
  induction fuel with
  | zero => intro c wire more acc _ _ _ h; omega
  | succ fuel ih =>
    intro c wire more acc hst hm hl hf
    have hmr : mrRead c rid k = mrReadLoop (c.fuel + 1) c rid k := by
      unfold mrRead
      rw [if_neg (by rw [hm]; simp)]
    have hcf : c.r.buf.pending.length < c.fuel + 1 := by
      have := hst.env.fuel
      unfold Conn.fuel; omega
    rw [joinMsg_succ]
    rcases mrReadLoop_spec S rid k hk rest (c.fuel + 1) c wire more hst hm hl hcf with
      ⟨out, c2, w2, m2, b1, b2, b3, b4, b5, b6, b7, b8, b9⟩ | ⟨c2, b1, b2, b3, b4, b5, b6, b7, b8⟩
    · rw [joinRead_plain_chunk c c2 rid term out k (by rw [hmr, b1])]
      simp only []
      have hol : 0 < out.length := List.length_pos_iff.mpr b2
      obtain ⟨c3, d1, d2, d3, d4, d5⟩ := ih c2 w2 m2 (acc ++ out) b3 b5 b6
        (by rw [b7, List.length_append] at hf; omega)
      refine ⟨c3, ?_, d2, d3, b4.trans d4, ?_⟩
      · rw [d1, b7]; simp only [List.append_assoc]
      · rw [d5, b8]
    · rw [joinRead_plain_eof c c2 rid term k (by rw [hmr, b1])]
      simp only []
      rw [b2]
      exact ⟨c2, rfl, b3, b4, b5, b7⟩

/-- one message through the joined reader, with what the reader keeps -/
theorem join_message_keep (c : Conn) (hc : ReaderIdle c) (t : Nat) (ht : t = 1 ∨ t = 2) (fs : List PFrame)
    (hs : MsgShape t fs) (rest : Bytes)
    (hp : c.r.buf.pending = encAll c.r.isServer fs ++ rest)
    (hend : c.r.buf.t.together = false ∨ rest ≠ [])
    (hsz : (dataPayload fs).length < 2 ^ 62) (hlim : c.r.limit ≤ 0)
    (term : Bytes) (k : Nat) (hk : 0 < k) (fuel : Nat) (hf : (dataPayload fs).length + term.length + 1 ≤ fuel) :
    ∃ c', joinMsg fuel c .idle term k [] = ((dataPayload fs ++ term, none), c', .idle) ∧
      ReaderIdle c' ∧ c'.r.buf.pending = rest ∧ c'.r.hlog = c.r.hlog ++ ctlEvents fs ∧ Keep c c' := by
  have hst := idle_St c hc fs rest hp hend
  obtain ⟨c1, rid, w1, m1, b1, b2, b3, b4, b5, b6, b7⟩ := nextReader_spec c.r.isServer t ht rest c [] [] fs hst hs hend
    (by simp; omega) (Or.inl hlim)
  obtain ⟨fuel, rfl⟩ : ∃ f, fuel = f + 1 := ⟨fuel - 1, by omega⟩
  have hstep : joinMsg (fuel + 1) c .idle term k [] =
      joinMsg (fuel + 1) c1 (if term.isEmpty then .plain rid else .msg rid) term k [] := by
    rw [joinMsg_succ, joinMsg_succ, joinRead_idle c c1 t rid false term k b1]
  rw [hstep]
  simp only [ctlEvents_nil, List.append_nil] at b7
  cases term with
  | nil =>
    obtain ⟨c2, d1, d2, d3, d4, d5⟩ := plain_loop c.r.isServer rid k hk rest [] (fuel + 1) c1 w1 m1 [] b2 b4 b5
      (by rw [b6]; simp only [List.length_nil] at hf; omega)
    obtain ⟨i1, i2⟩ := d2.idle d3
    refine ⟨c2, ?_, i1, i2, by rw [d5, b7], b3.trans d4⟩
    simp only [List.isEmpty_nil, if_true]
    rw [d1, b6]; simp
  | cons b r =>
    obtain ⟨c2, d1, d2, d3, d4, d5⟩ := msg_loop c.r.isServer rid k hk rest (b :: r) (by simp) (fuel + 1) c1 w1 m1 [] b2 b4 b5
      (by rw [b6]; omega)
    obtain ⟨i1, i2⟩ := d2.idle d3
    refine ⟨c2, ?_, i1, i2, by rw [d5, b7], b3.trans d4⟩
    simp only [List.isEmpty_cons, Bool.false_eq_true, if_false]
    rw [d1, b6]; simp

/-- one message through the joined reader -/
theorem join_message (c : Conn) (hc : ReaderIdle c) (t : Nat) (ht : t = 1 ∨ t = 2) (fs : List PFrame)
    (hs : MsgShape t fs) (rest : Bytes)
    (hp : c.r.buf.pending = encAll c.r.isServer fs ++ rest)
    (hend : c.r.buf.t.together = false ∨ rest ≠ [])
    (hsz : (dataPayload fs).length < 2 ^ 62) (hlim : c.r.limit ≤ 0)
    (term : Bytes) (k : Nat) (hk : 0 < k) (fuel : Nat) (hf : (dataPayload fs).length + term.length + 3 ≤ fuel) :
    ∃ c', joinMsg fuel c .idle term k [] = ((dataPayload fs ++ term, none), c', .idle) ∧
      ReaderIdle c' ∧ c'.r.buf.pending = rest ∧ c'.r.hlog = c.r.hlog ++ ctlEvents fs := by
  obtain ⟨c', h1, h2, h3, h4, _⟩ := join_message_keep c hc t ht fs hs rest hp hend hsz hlim term k hk fuel (by omega)
  exact ⟨c', h1, h2, h3, h4⟩

/-- two messages: payload₁ ++ term ++ payload₂ ++ term, nothing of one message mixed into the other -/
theorem join_two_messages (c : Conn) (hc : ReaderIdle c) (t1 t2 : Nat) (ht1 : t1 = 1 ∨ t1 = 2) (ht2 : t2 = 1 ∨ t2 = 2)
    (fs1 fs2 : List PFrame) (hs1 : MsgShape t1 fs1) (hs2 : MsgShape t2 fs2) (rest : Bytes)
    (hp : c.r.buf.pending = encAll c.r.isServer fs1 ++ encAll c.r.isServer fs2 ++ rest)
    (hend : c.r.buf.t.together = false ∨ rest ≠ [])
    (hsz : (dataPayload fs1).length < 2 ^ 62 ∧ (dataPayload fs2).length < 2 ^ 62) (hlim : c.r.limit ≤ 0)
    (term : Bytes) (k : Nat) (hk : 0 < k) (fuel : Nat)
    (hf : (dataPayload fs1).length + (dataPayload fs2).length + term.length + 3 ≤ fuel) :
    ∃ c1 c2, joinMsg fuel c .idle term k [] = ((dataPayload fs1 ++ term, none), c1, .idle) ∧
      joinMsg fuel c1 .idle term k [] = ((dataPayload fs2 ++ term, none), c2, .idle) ∧
      ReaderIdle c2 ∧ c2.r.buf.pending = rest := by
  have hp' : c.r.buf.pending = encAll c.r.isServer fs1 ++ (encAll c.r.isServer fs2 ++ rest) := by
    rw [hp, List.append_assoc]
  have hne : encAll c.r.isServer fs2 ++ rest ≠ [] := by
    intro h; exact encAll_ne_nil hs2 (List.append_eq_nil_iff.mp h).1
  obtain ⟨c1, a1, a2, a3, _, a5⟩ := join_message_keep c hc t1 ht1 fs1 hs1 _ hp' (Or.inr hne) hsz.1 hlim term k hk
    fuel (by omega)
  obtain ⟨c2, b1, b2, b3, _, _⟩ := join_message_keep c1 a2 t2 ht2 fs2 hs2 rest (by rw [a3, a5.isServer])
    (by rw [a5.same.together]; exact hend) hsz.2 (by rw [a5.limit]; exact hlim) term k hk fuel (by omega)
  exact ⟨c1, c2, a1, b1, b2, b3⟩

end WS.JoinLaw
