import WS.Model.Reader
import WS.Lemmas.Mask
import WS.Lemmas.Codec
import WS.Lemmas.SrcLaw2
import WS.Lemmas.HdrLogic
/-
  advanceFrame cut into its stages (the stage functions are copies of the corresponding parts of
  WS.advanceFrame; `advanceFrame_eq` shows that composing them is advanceFrame), and what each stage
  does on well-formed input.
-/
namespace WS.AdvFrame
open WS WS.SrcLaw

/-- step 1 -/
def afSkip (c : Conn) : Option RErr × Conn :=
  if c.r.remaining > 0 then
    let (e, b) := c.r.buf.skip c.r.remaining.toNat
    (e, { c with r := { c.r with buf := b } })
  else (none, c)

/-- step 3 -/
def afLen (h : Hdr) (c : Conn) : Option RErr × Conn :=
  if h.len7 = 126 then
    let (p, e, b) := c.r.buf.take 2
    let c := { c with r := { c.r with buf := b } }
    match e with
    | some e => (some e, c)
    | none => (none, { c with r := { c.r with remaining := beVal p } })
  else if h.len7 = 127 then
    let (p, e, b) := c.r.buf.take 8
    let c := { c with r := { c.r with buf := b } }
    match e with
    | some e => (some e, c)
    | none =>
      let v := wrap64 (beVal p)
      if v < 0 then (some .readLimit, sendTooBig c) else (none, { c with r := { c.r with remaining := v } })
  else (none, c)

/-- step 4 -/
def afKey (h : Hdr) (c : Conn) : Option RErr × Conn :=
  if h.mask then
    let (p, e, b) := c.r.buf.take 4
    let c := { c with r := { c.r with buf := b, maskPos := 0 } }
    match e, Key.ofBytes p with
    | some e, _ => (some e, c)
    | none, some k => (none, { c with r := { c.r with maskKey := k } })
    | none, none => (some .any, c)
  else (none, c)

/-- step 5 -/
def afData (h : Hdr) (c : Conn) : Except RErr Nat × Conn :=
  let base : Int := if h.opcode == 0 then c.r.length else 0
  let len := wrap64 (base + c.r.remaining)
  let c := { c with r := { c.r with length := len } }
  if len < 0 || (c.r.limit > 0 && len > c.r.limit) then (.error .readLimit, sendTooBig c)
  else (.ok h.opcode, c)

/-- step 6 -/
def afPayload (c : Conn) : Option RErr × Bytes × Conn :=
  if c.r.remaining > 0 then
    let (p, e, b) := c.r.buf.take c.r.remaining.toNat
    let c := { c with r := { c.r with buf := b, remaining := 0 } }
    match e with
    | some e => (some e, [], c)
    | none => (none, if c.r.isServer then maskFrom c.r.maskKey 0 p else p, c)
  else (none, [], c)

/-- step 7 -/
def afDispatch (h : Hdr) (payload : Bytes) (c : Conn) : Except RErr Nat × Conn :=
  if h.opcode == 10 then
    let (e, c) := runHandler c.r.hPong c (.pong payload)
    match e with
    | some e => (.error e, c)
    | none => (.ok 10, c)
  else if h.opcode == 9 then
    let (e, c) := runHandler c.r.hPing c (.ping payload)
    match e with
    | some e => (.error e, c)
    | none =>
      let c := if c.r.hPing = .dflt then { c with w := (writeControl c.w 10 payload writeWaitDeadline).2 } else c
      (.ok 9, c)
  else
    -- close
    let code := if payload.length ≥ 2 then beVal (payload.take 2) else Gen.CloseNoStatusReceived.toNat
    let text := if payload.length ≥ 2 then payload.drop 2 else []
    if payload.length ≥ 2 && !isValidReceivedCloseCode code then
      let (e, c) := handleProtocolError c ("bad close code " ++ toString code)
      (.error e, c)
    else if payload.length ≥ 2 && !Spec.validUtf8 text then
      let (e, c) := handleProtocolError c "invalid utf8 payload in close frame"
      (.error e, c)
    else
      let (e, c) := runHandler c.r.hClose c (.close code text)
      match e with
      | some e => (.error e, c)
      | none =>
        let c := if c.r.hClose = .dflt then { c with w := (writeControl c.w 8 (closePayload code []) writeWaitDeadline).2 } else c
        (.error (.close code text), c)

/-- steps 2b–7 on the two header bytes -/
def afHdr (c : Conn) (b0 b1 : UInt8) : Except RErr Nat × Conn :=
  let h := parseHdr b0 b1
  let errs := headerErrors c.r.isServer c.r.nego c.r.final h
  let final' := if h.opcode == 1 || h.opcode == 2 || h.opcode == 0 then h.fin else c.r.final
  let c := { c with r := { c.r with remaining := h.len7, decompress := h.rsv1 && c.r.nego, final := final' } }
  if !errs.isEmpty then
    let (e, c) := handleProtocolError c (", ".intercalate errs)
    (.error e, c)
  else
  match afLen h c with
  | (some e, c) => (.error e, c)
  | (none, c) =>
  match afKey h c with
  | (some e, c) => (.error e, c)
  | (none, c) =>
  if h.opcode == 0 || h.opcode == 1 || h.opcode == 2 then afData h c
  else
  match afPayload c with
  | (some e, _, c) => (.error e, c)
  | (none, payload, c) => afDispatch h payload c

/-- step 2a and the rest -/
def afHead (c : Conn) : Except RErr Nat × Conn :=
  let (p, e, b) := c.r.buf.take 2
  let c := { c with r := { c.r with buf := b } }
  match e, p with
  | some e, _ => (.error e, c)
  | none, [b0, b1] => afHdr c b0 b1
  | none, _ => (.error .any, c)

theorem advanceFrame_eq (c : Conn) :
    advanceFrame c = match afSkip c with
      | (some e, c) => (.error e, c)
      | (none, c) => afHead c := by
  rfl

/-! ### wire layout of one frame -/

def l7 (len : Nat) : Nat := if len ≥ 65536 then 127 else if len > 125 then 126 else len
def ext (len : Nat) : Bytes := if len ≥ 65536 then beBytes 8 len else if len > 125 then beBytes 2 len else []
def keyBytes (S : Bool) (key : Key) : Bytes := if S then key.bytes else []
def body (S : Bool) (key : Key) (payload : Bytes) : Bytes := if S then maskFrom key 0 payload else payload
def mbit (S : Bool) : Nat := if S then 128 else 0

theorem l7_lt (len : Nat) : l7 len < 128 := by
  unfold l7; split
  · omega
  · split <;> omega

theorem body_length (S : Bool) (key : Key) (payload : Bytes) : (body S key payload).length = payload.length := by
  unfold body; split
  · simp
  · rfl

theorem encode_eq (S : Bool) (b0 : Nat) (key : Key) (payload : Bytes) :
    Codec.encode (!S) b0 key payload =
      UInt8.ofNat b0 :: UInt8.ofNat (mbit S + l7 payload.length) ::
        (ext payload.length ++ (keyBytes S key ++ body S key payload)) := by
  unfold Codec.encode header l7 ext keyBytes body mbit
  cases S <;> simp <;> split <;> (try split) <;> simp

theorem parseHdr_enc (op : Nat) (fin S : Bool) (n7 : Nat) (hop : op < 16) (hn : n7 < 128) :
    parseHdr (UInt8.ofNat (op + if fin then 128 else 0)) (UInt8.ofNat (mbit S + n7)) =
      ⟨op, fin, false, false, false, S, n7⟩ := by
  unfold parseHdr mbit
  rw [Codec.toNat_ofNat_lt _ (by split <;> omega), Codec.toNat_ofNat_lt _ (by split <;> omega)]
  cases fin <;> cases S <;> simp <;> omega

theorem hdrErrs_data (S nego final fin : Bool) (op n7 : Nat)
    (h : (op = 0 ∧ final = false) ∨ ((op = 1 ∨ op = 2) ∧ final = true)) :
    headerErrors S nego final ⟨op, fin, false, false, false, S, n7⟩ = [] := by
  rw [HdrLogic.headerErrors_nil_iff]
  unfold HdrLogic.Violates
  rcases h with ⟨rfl, rfl⟩ | ⟨rfl | rfl, rfl⟩ <;> simp

theorem hdrErrs_ctl (S nego final : Bool) (op n7 : Nat) (h : op = 9 ∨ op = 10) (hn : n7 ≤ 125) :
    headerErrors S nego final ⟨op, true, false, false, false, S, n7⟩ = [] := by
  rw [HdrLogic.headerErrors_nil_iff]
  unfold HdrLogic.Violates
  rcases h with rfl | rfl <;> simp <;> omega

theorem wrap64_id (x : Int) (h0 : 0 ≤ x) (h1 : x < 9223372036854775808) : wrap64 x = x := by
  unfold wrap64 two63 two64
  omega

/-! ### the stages on well-formed input -/

theorem afSkip_ok (c : Conn) (wire tail : Bytes) (hrem : c.r.remaining = (wire.length : Int))
    (hwf : WF c.r.buf) (hp : c.r.buf.pending = wire ++ tail) :
    ∃ b', afSkip c = (none, { c with r := { c.r with buf := b' } }) ∧ b'.pending = tail ∧ WF b' ∧
      Same2 c.r.buf b' := by
  unfold afSkip
  split
  · have hn : c.r.remaining.toNat = wire.length := by omega
    obtain ⟨b', h1, h2, h3, h4⟩ := skip_exact c.r.buf hwf c.r.remaining.toNat wire tail hp hn.symm
    rw [h1]
    exact ⟨b', rfl, h2, h3, h4⟩
  · have hn : wire.length = 0 := by omega
    have : wire = [] := List.eq_nil_of_length_eq_zero hn
    subst this
    exact ⟨c.r.buf, rfl, by simpa using hp, hwf, Same2.refl _⟩

theorem afLen_ok (h : Hdr) (c : Conn) (len : Nat) (tail : Bytes) (hl7 : h.len7 = l7 len)
    (hrem : c.r.remaining = ((l7 len : Nat) : Int)) (hlen : len < 2 ^ 62) (hwf : WF c.r.buf)
    (hsz : 8 ≤ c.r.buf.size) (hp : c.r.buf.pending = ext len ++ tail) :
    ∃ b', afLen h c = (none, { c with r := { c.r with buf := b', remaining := (len : Int) } }) ∧
      b'.pending = tail ∧ WF b' ∧ Same2 c.r.buf b' := by
  unfold afLen
  by_cases h1 : len ≥ 65536
  · have e7 : l7 len = 127 := by simp [l7, h1]
    have ex : ext len = beBytes 8 len := by simp [ext, h1]
    rw [hl7, e7, if_neg (by decide), if_pos rfl]
    rw [ex] at hp
    obtain ⟨b', t1, t2, t3, t4⟩ := take_exact c.r.buf hwf 8 hsz _ _ hp (beBytes_length ..)
    rw [t1]
    have hv : beVal (beBytes 8 len) = len := beVal_beBytes 8 len (by omega)
    have hw : wrap64 ((len : Nat) : Int) = (len : Int) := wrap64_id _ (by omega) (by omega)
    simp only [hv, hw]
    rw [if_neg (by omega)]
    exact ⟨b', rfl, t2, t3, t4⟩
  · by_cases h2 : len > 125
    · have e7 : l7 len = 126 := by simp [l7, h1, h2]
      have ex : ext len = beBytes 2 len := by simp [ext, h1, h2]
      rw [hl7, e7, if_pos rfl]
      rw [ex] at hp
      obtain ⟨b', t1, t2, t3, t4⟩ := take_exact c.r.buf hwf 2 (by omega) _ _ hp (beBytes_length ..)
      rw [t1]
      have hv : beVal (beBytes 2 len) = len := beVal_beBytes 2 len (by omega)
      simp only [hv]
      exact ⟨b', rfl, t2, t3, t4⟩
    · have e7 : l7 len = len := by simp [l7, h1, h2]
      have ex : ext len = [] := by simp [ext, h1, h2]
      rw [hl7, e7, if_neg (by omega), if_neg (by omega)]
      rw [ex] at hp
      rw [e7] at hrem
      refine ⟨c.r.buf, ?_, by simpa using hp, hwf, Same2.refl _⟩
      rw [← hrem]

theorem afKey_ok (h : Hdr) (c : Conn) (S : Bool) (key : Key) (tail : Bytes) (hm : h.mask = S)
    (hwf : WF c.r.buf) (hsz : 4 ≤ c.r.buf.size) (hp : c.r.buf.pending = keyBytes S key ++ tail) :
    ∃ b', afKey h c = (none, { c with r := { c.r with buf := b', maskPos := (if S then 0 else c.r.maskPos), maskKey := (if S then key else c.r.maskKey) } }) ∧
      b'.pending = tail ∧ WF b' ∧ Same2 c.r.buf b' := by
  unfold afKey
  cases S with
  | true =>
    rw [hm, if_pos rfl]
    simp only [keyBytes, if_true] at hp
    obtain ⟨b', t1, t2, t3, t4⟩ := take_exact c.r.buf hwf 4 hsz _ _ hp rfl
    rw [t1]
    exact ⟨b', rfl, t2, t3, t4⟩
  | false =>
    rw [hm, if_neg (by decide)]
    simp only [keyBytes, Bool.false_eq_true, if_false, List.nil_append] at hp
    exact ⟨c.r.buf, rfl, hp, hwf, Same2.refl _⟩

/-- the running sum a data frame starts from: a text / binary frame restarts it -/
def lenBase (op : Nat) (c : Conn) : Int := if op == 0 then c.r.length else 0

theorem lenBase_nonneg (op : Nat) (c : Conn) (h0 : 0 ≤ c.r.length) : 0 ≤ lenBase op c := by
  unfold lenBase; split
  · exact h0
  · exact Int.le_refl 0

theorem lenBase_le (op : Nat) (c : Conn) (h0 : 0 ≤ c.r.length) : lenBase op c ≤ c.r.length := by
  unfold lenBase; split
  · exact Int.le_refl _
  · exact h0

theorem afData_ok (h : Hdr) (c : Conn) (len : Nat) (hrem : c.r.remaining = (len : Int)) (h0 : 0 ≤ lenBase h.opcode c)
    (h1 : lenBase h.opcode c + len < 9223372036854775808)
    (hlim : c.r.limit ≤ 0 ∨ lenBase h.opcode c + len ≤ c.r.limit) :
    afData h c = (.ok h.opcode, { c with r := { c.r with length := lenBase h.opcode c + len } }) := by
  unfold afData
  have hw : wrap64 ((if h.opcode == 0 then c.r.length else 0) + c.r.remaining) = lenBase h.opcode c + len := by
    rw [hrem]; exact wrap64_id _ (by unfold lenBase at h0; omega) h1
  simp only [hw]
  rw [if_neg]
  simp only [Bool.or_eq_true, Bool.and_eq_true, decide_eq_true_eq]
  omega

theorem afPayload_ok (c : Conn) (wire tail : Bytes) (hrem : c.r.remaining = (wire.length : Int))
    (hwf : WF c.r.buf) (hsz : wire.length ≤ c.r.buf.size) (hp : c.r.buf.pending = wire ++ tail) :
    ∃ b', afPayload c = (none, (if c.r.isServer then maskFrom c.r.maskKey 0 wire else wire),
        { c with r := { c.r with buf := b', remaining := 0 } }) ∧
      b'.pending = tail ∧ WF b' ∧ Same2 c.r.buf b' := by
  unfold afPayload
  split
  · have hn : c.r.remaining.toNat = wire.length := by omega
    obtain ⟨b', t1, t2, t3, t4⟩ := take_exact c.r.buf hwf c.r.remaining.toNat (by omega) wire tail hp hn.symm
    rw [t1]
    exact ⟨b', rfl, t2, t3, t4⟩
  · have hn : wire.length = 0 := by omega
    have : wire = [] := List.eq_nil_of_length_eq_zero hn
    subst this
    have h0 : c.r.remaining = 0 := by simpa using hrem
    refine ⟨c.r.buf, ?_, by simpa using hp, hwf, Same2.refl _⟩
    rw [← h0]
    cases c.r.isServer <;> rfl

def ctlEv (op : Nat) (payload : Bytes) : REv := if op == 9 then .ping payload else .pong payload

theorem afDispatch_ok (h : Hdr) (payload : Bytes) (c : Conn) (hop : h.opcode = 9 ∨ h.opcode = 10)
    (hp : ∀ id, c.r.hPing ≠ .fail id) (hq : ∀ id, c.r.hPong ≠ .fail id) :
    ∃ w', afDispatch h payload c =
      (.ok h.opcode, { w := w', r := { c.r with hlog := c.r.hlog ++ [ctlEv h.opcode payload] } }) := by
  unfold afDispatch
  rcases hop with hop | hop
  · rw [hop]
    simp only [show ((9 : Nat) == 10) = false from rfl, show ((9 : Nat) == 9) = true from rfl, ctlEv,
      Bool.false_eq_true, if_false, if_true]
    unfold runHandler
    cases hh : c.r.hPing with
    | fail id => exact absurd hh (hp id)
    | dflt => simp only [hh]; exact ⟨_, rfl⟩
    | record => simp only [hh]; exact ⟨_, rfl⟩
  · rw [hop]
    simp only [show ((10 : Nat) == 10) = true from rfl, show ((10 : Nat) == 9) = false from rfl, ctlEv,
      Bool.false_eq_true, if_false, if_true]
    unfold runHandler
    cases hh : c.r.hPong with
    | fail id => exact absurd hh (hq id)
    | dflt => simp only [hh]; exact ⟨_, rfl⟩
    | record => simp only [hh]; exact ⟨_, rfl⟩

theorem afHead_ok (c : Conn) (x0 x1 : UInt8) (tail : Bytes) (hwf : WF c.r.buf) (hsz : 2 ≤ c.r.buf.size)
    (hp : c.r.buf.pending = x0 :: x1 :: tail) :
    ∃ b', afHead c = afHdr { c with r := { c.r with buf := b' } } x0 x1 ∧ b'.pending = tail ∧ WF b' ∧
      Same2 c.r.buf b' := by
  unfold afHead
  obtain ⟨b', t1, t2, t3, t4⟩ := take_exact c.r.buf hwf 2 hsz [x0, x1] tail hp rfl
  rw [t1]
  exact ⟨b', rfl, t2, t3, t4⟩

theorem afHdr_data (c : Conn) (tail : Bytes) (op : Nat) (fin : Bool) (key : Key) (payload : Bytes)
    (hwf : WF c.r.buf) (hsz : 125 ≤ c.r.buf.size)
    (hp : c.r.buf.pending = ext payload.length ++ (keyBytes c.r.isServer key ++ tail))
    (hop : (op = 0 ∧ c.r.final = false) ∨ ((op = 1 ∨ op = 2) ∧ c.r.final = true))
    (hlen : payload.length < 2 ^ 62) (h0 : 0 ≤ lenBase op c)
    (h1 : lenBase op c + payload.length < 9223372036854775808)
    (hlim : c.r.limit ≤ 0 ∨ lenBase op c + payload.length ≤ c.r.limit) :
    ∃ b', afHdr c (UInt8.ofNat (op + if fin then 128 else 0)) (UInt8.ofNat (mbit c.r.isServer + l7 payload.length)) =
        (.ok op, { c with r := { c.r with buf := b', remaining := (payload.length : Int), decompress := false, final := fin, maskPos := (if c.r.isServer then 0 else c.r.maskPos), maskKey := (if c.r.isServer then key else c.r.maskKey), length := lenBase op c + payload.length } }) ∧
      b'.pending = tail ∧ WF b' ∧ Same2 c.r.buf b' := by
  have hop16 : op < 16 := by omega
  have hopb : (op == 1 || op == 2 || op == 0) = true := by
    rcases hop with ⟨rfl, _⟩ | ⟨rfl | rfl, _⟩ <;> rfl
  have hopb' : (op == 0 || op == 1 || op == 2) = true := by
    rcases hop with ⟨rfl, _⟩ | ⟨rfl | rfl, _⟩ <;> rfl
  unfold afHdr
  simp only [parseHdr_enc op fin c.r.isServer _ hop16 (l7_lt _), hdrErrs_data _ _ _ _ _ _ hop, hopb, hopb',
    List.isEmpty_nil, Bool.not_true, Bool.false_eq_true, if_false, if_true, Bool.false_and]
  obtain ⟨b1, s1, s2, s3, s4⟩ := afLen_ok ⟨op, fin, false, false, false, c.r.isServer, l7 payload.length⟩
    { c with r := { c.r with remaining := ((l7 payload.length : Nat) : Int), decompress := false, final := fin } }
    payload.length _ rfl rfl hlen hwf (by simp only []; omega) hp
  rw [s1]
  simp only []
  obtain ⟨b2, t1, t2, t3, t4⟩ := afKey_ok ⟨op, fin, false, false, false, c.r.isServer, l7 payload.length⟩
    { c with r := { c.r with buf := b1, remaining := (payload.length : Int), decompress := false, final := fin } }
    c.r.isServer key tail rfl s3 (by have := s4.size; simp only [] at this ⊢; omega) s2
  rw [t1]
  simp only []
  refine ⟨b2, ?_, t2, t3, s4.trans t4⟩
  exact afData_ok _ _ payload.length rfl h0 h1 hlim

theorem afHdr_ctl (c : Conn) (tail : Bytes) (op : Nat) (key : Key) (payload : Bytes)
    (hwf : WF c.r.buf) (hsz : 125 ≤ c.r.buf.size)
    (hp : c.r.buf.pending = ext payload.length ++ (keyBytes c.r.isServer key ++ (body c.r.isServer key payload ++ tail)))
    (hop : op = 9 ∨ op = 10) (hlen : payload.length ≤ 125)
    (hhp : ∀ id, c.r.hPing ≠ .fail id) (hhq : ∀ id, c.r.hPong ≠ .fail id) :
    ∃ b' w', afHdr c (UInt8.ofNat (op + 128)) (UInt8.ofNat (mbit c.r.isServer + l7 payload.length)) =
        (.ok op, { w := w', r := { c.r with buf := b', remaining := 0, decompress := false, maskPos := (if c.r.isServer then 0 else c.r.maskPos), maskKey := (if c.r.isServer then key else c.r.maskKey), hlog := c.r.hlog ++ [ctlEv op payload] } }) ∧
      b'.pending = tail ∧ WF b' ∧ Same2 c.r.buf b' := by
  have hop16 : op < 16 := by omega
  have hopb : (op == 1 || op == 2 || op == 0) = false := by
    rcases hop with rfl | rfl <;> rfl
  have hopb' : (op == 0 || op == 1 || op == 2) = false := by
    rcases hop with rfl | rfl <;> rfl
  have h7 : l7 payload.length = payload.length := by
    unfold l7; rw [if_neg (by omega), if_neg (by omega)]
  have hph := parseHdr_enc op true c.r.isServer _ hop16 (l7_lt payload.length)
  simp only [↓reduceIte] at hph
  unfold afHdr
  simp only [hph,
    hdrErrs_ctl _ _ _ _ (l7 payload.length) hop (by omega), hopb, hopb',
    List.isEmpty_nil, Bool.not_true, Bool.false_eq_true, if_false, Bool.false_and]
  obtain ⟨b1, s1, s2, s3, s4⟩ := afLen_ok ⟨op, true, false, false, false, c.r.isServer, l7 payload.length⟩
    { c with r := { c.r with remaining := ((l7 payload.length : Nat) : Int), decompress := false, final := c.r.final } }
    payload.length _ rfl rfl (by omega) hwf (by simp only []; omega) hp
  rw [s1]
  simp only []
  obtain ⟨b2, t1, t2, t3, t4⟩ := afKey_ok ⟨op, true, false, false, false, c.r.isServer, l7 payload.length⟩
    { c with r := { c.r with buf := b1, remaining := (payload.length : Int), decompress := false, final := c.r.final } }
    c.r.isServer key _ rfl s3 (by have := s4.size; simp only [] at this ⊢; omega) s2
  rw [t1]
  simp only []
  obtain ⟨b3, u1, u2, u3, u4⟩ := afPayload_ok
    { c with r := { c.r with buf := b2, remaining := (payload.length : Int), decompress := false, final := c.r.final, maskPos := (if c.r.isServer then 0 else c.r.maskPos), maskKey := (if c.r.isServer then key else c.r.maskKey) } }
    (body c.r.isServer key payload) tail (by simp only [body_length]) t3
    (by have := s4.size; have := t4.size; simp only [body_length] at *; omega) t2
  rw [u1]
  simp only []
  have hunmask : (if c.r.isServer = true then maskFrom (if c.r.isServer = true then key else c.r.maskKey) 0 (body c.r.isServer key payload)
      else body c.r.isServer key payload) = payload := by
    unfold body
    cases c.r.isServer
    · rfl
    · simp only [if_true]; exact maskFrom_involutive _ _ _
  rw [hunmask]
  obtain ⟨w', v1⟩ := afDispatch_ok ⟨op, true, false, false, false, c.r.isServer, l7 payload.length⟩ payload
    { c with r := { c.r with buf := b3, remaining := 0, decompress := false, final := c.r.final, maskPos := (if c.r.isServer then 0 else c.r.maskPos), maskKey := (if c.r.isServer then key else c.r.maskKey) } }
    hop hhp hhq
  rw [v1]
  exact ⟨b3, w', rfl, u2, u3, (s4.trans t4).trans u4⟩

/-- advanceFrame on a data frame: skips what is left of the previous frame, consumes exactly the header -/
theorem advance_data_raw (c : Conn) (wire tail : Bytes) (op : Nat) (fin : Bool) (key : Key) (payload : Bytes)
    (hrem : c.r.remaining = (wire.length : Int)) (hwf : WF c.r.buf) (hsz : 125 ≤ c.r.buf.size)
    (hp : c.r.buf.pending = wire ++ (Codec.encode (!c.r.isServer) (op + if fin then 128 else 0) key payload ++ tail))
    (hop : (op = 0 ∧ c.r.final = false) ∨ ((op = 1 ∨ op = 2) ∧ c.r.final = true))
    (hlen : payload.length < 2 ^ 62) (h0 : 0 ≤ lenBase op c)
    (h1 : lenBase op c + payload.length < 9223372036854775808)
    (hlim : c.r.limit ≤ 0 ∨ lenBase op c + payload.length ≤ c.r.limit) :
    ∃ b', advanceFrame c =
        (.ok op, { c with r := { c.r with buf := b', remaining := (payload.length : Int), decompress := false, final := fin, maskPos := (if c.r.isServer then 0 else c.r.maskPos), maskKey := (if c.r.isServer then key else c.r.maskKey), length := lenBase op c + payload.length } }) ∧
      b'.pending = body c.r.isServer key payload ++ tail ∧ WF b' ∧ Same2 c.r.buf b' := by
  rw [advanceFrame_eq]
  rw [encode_eq] at hp
  simp only [List.cons_append, List.append_assoc] at hp
  obtain ⟨b1, s1, s2, s3, s4⟩ := afSkip_ok c wire _ hrem hwf hp
  rw [s1]
  simp only []
  obtain ⟨b2, t1, t2, t3, t4⟩ := afHead_ok { c with r := { c.r with buf := b1 } } _ _ _ s3
    (by have := s4.size; simp only [] at this ⊢; omega) s2
  rw [t1]
  obtain ⟨b3, u1, u2, u3, u4⟩ := afHdr_data { c with r := { c.r with buf := b2 } } (body c.r.isServer key payload ++ tail)
    op fin key payload t3 (by have := s4.size; have := t4.size; simp only [] at *; omega) t2 hop hlen h0 h1 hlim
  refine ⟨b3, ?_, u2, u3, (s4.trans t4).trans u4⟩
  exact u1

/-- advanceFrame on a ping / pong: consumes the whole frame and calls the handler -/
theorem advance_ctl_raw (c : Conn) (wire tail : Bytes) (op : Nat) (key : Key) (payload : Bytes)
    (hrem : c.r.remaining = (wire.length : Int)) (hwf : WF c.r.buf) (hsz : 125 ≤ c.r.buf.size)
    (hp : c.r.buf.pending = wire ++ (Codec.encode (!c.r.isServer) (op + 128) key payload ++ tail))
    (hop : op = 9 ∨ op = 10) (hlen : payload.length ≤ 125)
    (hhp : ∀ id, c.r.hPing ≠ .fail id) (hhq : ∀ id, c.r.hPong ≠ .fail id) :
    ∃ b' w', advanceFrame c =
        (.ok op, { w := w', r := { c.r with buf := b', remaining := 0, decompress := false, maskPos := (if c.r.isServer then 0 else c.r.maskPos), maskKey := (if c.r.isServer then key else c.r.maskKey), hlog := c.r.hlog ++ [ctlEv op payload] } }) ∧
      b'.pending = tail ∧ WF b' ∧ Same2 c.r.buf b' := by
  rw [advanceFrame_eq]
  rw [encode_eq] at hp
  simp only [List.cons_append, List.append_assoc] at hp
  obtain ⟨b1, s1, s2, s3, s4⟩ := afSkip_ok c wire _ hrem hwf hp
  rw [s1]
  simp only []
  obtain ⟨b2, t1, t2, t3, t4⟩ := afHead_ok { c with r := { c.r with buf := b1 } } _ _ _ s3
    (by have := s4.size; simp only [] at this ⊢; omega) s2
  rw [t1]
  obtain ⟨b3, w', u1, u2, u3, u4⟩ := afHdr_ctl { c with r := { c.r with buf := b2 } } tail
    op key payload t3 (by have := s4.size; have := t4.size; simp only [] at *; omega) t2 hop hlen hhp hhq
  refine ⟨b3, w', ?_, u2, u3, (s4.trans t4).trans u4⟩
  exact u1

end WS.AdvFrame
