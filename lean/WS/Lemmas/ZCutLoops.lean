import WS.Lemmas.ReaderZ
import WS.Lemmas.CutLoops
/-
  The RSV1 first frame of a compressed message on a stream that ends somewhere inside the message
  ("cut" versions of the lemmas of WS/Lemmas/ReaderZ.lean), and the decompressor's raw reads
  (`zFills`) over a cut message and over a whole one.
-/
namespace WS.ZCutLoops
open WS WS.Codec WS.SrcLaw WS.ReaderDecodes WS.AdvFrame WS.CutAdv WS.CutLoops WS.ReaderZ

theorem afHdr_dataZ_cut (c : Conn) (T : Bytes) (m : Nat) (op : Nat) (fin : Bool) (key : Key) (payload : Bytes)
    (hnego : c.r.nego = true)
    (hwf : WF c.r.buf) (hsz : 125 ≤ c.r.buf.size)
    (hp : c.r.buf.pending = (ext payload.length ++ (keyBytes c.r.isServer key ++ T)).take m)
    (hop : (op = 0 ∧ c.r.final = false) ∨ ((op = 1 ∨ op = 2) ∧ c.r.final = true))
    (hlen : payload.length < 2 ^ 62) (h0 : 0 ≤ lenBase op c)
    (h1 : lenBase op c + payload.length < 9223372036854775808)
    (hlim : c.r.limit ≤ 0 ∨ lenBase op c + payload.length ≤ c.r.limit) :
    (∃ b', afHdr c (UInt8.ofNat (op + (if fin then 128 else 0) + 64)) (UInt8.ofNat (mbit c.r.isServer + l7 payload.length)) =
        (.ok op, { c with r := { c.r with buf := b', remaining := (payload.length : Int), decompress := c.r.nego, final := fin, maskPos := (if c.r.isServer then 0 else c.r.maskPos), maskKey := (if c.r.isServer then key else c.r.maskKey), length := lenBase op c + payload.length } }) ∧
      (ext payload.length).length + (keyBytes c.r.isServer key).length ≤ m ∧
      b'.pending = T.take (m - (ext payload.length).length - (keyBytes c.r.isServer key).length) ∧ WF b' ∧
      Same2 c.r.buf b') ∨
    (∃ e c', afHdr c (UInt8.ofNat (op + (if fin then 128 else 0) + 64)) (UInt8.ofNat (mbit c.r.isServer + l7 payload.length)) =
        (.error e, c') ∧ e ≠ .eof) := by
  have hop16 : op < 16 := by omega
  have hopb : (op == 1 || op == 2 || op == 0) = true := by
    rcases hop with ⟨rfl, _⟩ | ⟨rfl | rfl, _⟩ <;> rfl
  have hopb' : (op == 0 || op == 1 || op == 2) = true := by
    rcases hop with ⟨rfl, _⟩ | ⟨rfl | rfl, _⟩ <;> rfl
  unfold afHdr
  simp only [parseHdr_encZ op fin c.r.isServer _ hop16 (l7_lt _), hdrErrs_dataZ _ _ _ _ _ _ hnego hop, hopb, hopb',
    List.isEmpty_nil, Bool.not_true, Bool.false_eq_true, if_false, if_true, Bool.true_and]
  rcases afLen_cut ⟨op, fin, true, false, false, c.r.isServer, l7 payload.length⟩
    { c with r := { c.r with remaining := ((l7 payload.length : Nat) : Int), decompress := c.r.nego, final := fin } }
    payload.length _ m rfl rfl hlen hwf (by simp only []; omega) hp with ⟨hm1, b1, s1, s2, s3, s4⟩ | ⟨e, c', s1, s2⟩
  · rw [s1]
    simp only []
    rcases afKey_cut ⟨op, fin, true, false, false, c.r.isServer, l7 payload.length⟩
      { c with r := { c.r with buf := b1, remaining := (payload.length : Int), decompress := c.r.nego, final := fin } }
      c.r.isServer key T _ rfl s3 (by have := s4.size; simp only [] at this ⊢; omega) s2 with
      ⟨hm2, b2, t1, t2, t3, t4⟩ | ⟨e, c', t1, t2⟩
    · left
      rw [t1]
      simp only []
      refine ⟨b2, ?_, by omega, t2, t3, s4.trans t4⟩
      exact afData_ok _ _ payload.length rfl h0 h1 hlim
    · right
      rw [t1]
      exact ⟨e, c', rfl, t2⟩
  · right
    rw [s1]
    exact ⟨e, c', rfl, s2⟩

/-- advanceFrame at a frame boundary, RSV1 data frame of the peer cut anywhere (or not at all) -/
theorem advance_dataZ_cut (c : Conn) (tail : Bytes) (m : Nat) (op : Nat) (fin : Bool) (key : Key) (payload : Bytes)
    (hnego : c.r.nego = true)
    (hrem : c.r.remaining = 0) (hwf : WF c.r.buf) (hsz : 125 ≤ c.r.buf.size)
    (hp : c.r.buf.pending = (Codec.encode (!c.r.isServer) (op + (if fin then 128 else 0) + 64) key payload ++ tail).take m)
    (hop : (op = 0 ∧ c.r.final = false) ∨ ((op = 1 ∨ op = 2) ∧ c.r.final = true))
    (hlen : payload.length < 2 ^ 62) (h0 : 0 ≤ lenBase op c)
    (h1 : lenBase op c + payload.length < 9223372036854775808)
    (hlim : c.r.limit ≤ 0 ∨ lenBase op c + payload.length ≤ c.r.limit) :
    (∃ b', advanceFrame c =
        (.ok op, { c with r := { c.r with buf := b', remaining := (payload.length : Int), decompress := c.r.nego, final := fin, maskPos := (if c.r.isServer then 0 else c.r.maskPos), maskKey := (if c.r.isServer then key else c.r.maskKey), length := lenBase op c + payload.length } }) ∧
      2 + (ext payload.length).length + (keyBytes c.r.isServer key).length ≤ m ∧
      b'.pending = (body c.r.isServer key payload ++ tail).take
        (m - (2 + (ext payload.length).length + (keyBytes c.r.isServer key).length)) ∧
      WF b' ∧ Same2 c.r.buf b') ∨
    (∃ e c', advanceFrame c = (.error e, c') ∧ e ≠ .eof) := by
  rw [advanceFrame_eq, afSkip_zero c hrem]
  simp only []
  rw [encode_eq] at hp
  simp only [List.cons_append, List.append_assoc] at hp
  rcases afHead_cut c _ _ _ m hwf (by omega) hp with ⟨hm0, b2, t1, t2, t3, t4⟩ | ⟨e, c', t1, t2⟩
  · rw [t1]
    rcases afHdr_dataZ_cut { c with r := { c.r with buf := b2 } } (body c.r.isServer key payload ++ tail) (m - 2)
      op fin key payload hnego t3 (by have := t4.size; simp only [] at *; omega) t2 hop hlen h0 h1 hlim with
      ⟨b3, u1, u2, u3, u4, u5⟩ | ⟨e, c', u1, u2⟩
    · left
      refine ⟨b3, u1, ?_, ?_, u4, t4.trans u5⟩
      · simp only [] at u2; omega
      · rw [u3]
        simp only []
        congr 1
        omega
    · right
      exact ⟨e, c', u1, u2⟩
  · right
    exact ⟨e, c', t1, t2⟩

/-- advanceFrame at a frame boundary on the RSV1 data frame of the peer, the stream cut after `m` bytes -/
theorem cadv_dataZ (S : Bool) (c : Conn) (f : PFrame) (fs : List PFrame) (m : Nat) (env : CEnv c)
    (hnego : c.r.nego = true)
    (srv : c.r.isServer = S) (noErr : c.r.readErr = none) (hrem : c.r.remaining = 0)
    (hp : c.r.buf.pending = (encZ S f ++ encAll S fs).take m)
    (hm : m < (encZ S f ++ encAll S fs).length)
    (hop : (f.op = 0 ∧ c.r.final = false) ∨ ((f.op = 1 ∨ f.op = 2) ∧ c.r.final = true))
    (hlen : f.payload.length < 2 ^ 62) (h0 : 0 ≤ c.r.length)
    (hT : f.fin = true → fs = []) (hF : f.fin = false → Tail fs)
    (extra : Nat) (hl : LenOk c (f.payload.length + (dataPayload fs).length + extra)) :
    (∃ e c', advanceFrame c = (.error e, c') ∧ e ≠ .eof) ∨
    (∃ c' m', advanceFrame c = (.ok f.op, c') ∧ CSt S c' (body S f.key f.payload) fs m' ∧ Keep c c' ∧
      c'.r.msgReader = c.r.msgReader ∧ c'.r.nextId = c.r.nextId ∧ c'.r.decompress = true ∧
      LenOk c' ((dataPayload fs).length + extra) ∧ unmask c' (body S f.key f.payload) = f.payload) := by
  subst srv
  have hb0 := lenBase_nonneg f.op c h0
  have hb1 := lenBase_le f.op c h0
  have hp' : c.r.buf.pending = (Codec.encode (!c.r.isServer) (f.op + (if f.fin then 128 else 0) + 64) f.key f.payload ++
      encAll c.r.isServer fs).take m := hp
  rcases advance_dataZ_cut c _ m f.op f.fin f.key f.payload hnego hrem env.wf env.size hp' hop hlen hb0
    (by have := hl.1; omega)
    (by rcases hl.2 with h | h
        · exact Or.inl h
        · exact Or.inr (by omega)) with ⟨b', h1, h2, h3, h4, h5⟩ | ⟨e, c', h1, h2⟩
  · right
    have hk : Keep c { c with r := { c.r with buf := b', remaining := (f.payload.length : Int), decompress := c.r.nego, final := f.fin, maskPos := (if c.r.isServer then 0 else c.r.maskPos), maskKey := (if c.r.isServer then f.key else c.r.maskKey), length := lenBase f.op c + f.payload.length } } :=
      ⟨rfl, rfl, rfl, rfl, h5⟩
    refine ⟨_, m - (2 + (ext f.payload.length).length + (keyBytes c.r.isServer f.key).length), h1,
      ⟨⟨h4, ?_, env.hp, env.hq⟩, rfl, noErr, ?_, h3, ?_, hT, hF, ?_⟩, hk, rfl, rfl, hnego, ?_, ?_⟩
    · show 125 ≤ b'.size
      rw [h5.size]; exact env.size
    · show ((f.payload.length : Nat) : Int) = _
      rw [body_length]
    · simp only [List.length_append, encZ_length, body_length] at hm ⊢
      omega
    · show 0 ≤ lenBase f.op c + f.payload.length
      omega
    · obtain ⟨l1, l2⟩ := hl
      refine ⟨?_, ?_⟩
      · show lenBase f.op c + f.payload.length + _ < _
        omega
      · show c.r.limit ≤ 0 ∨ lenBase f.op c + f.payload.length + _ ≤ c.r.limit
        rcases l2 with l2 | l2
        · exact Or.inl l2
        · exact Or.inr (by omega)
    · unfold unmask body
      simp only []
      cases c.r.isServer
      · rfl
      · simp only [if_true]; exact maskFrom_involutive _ _ _
  · left
    exact ⟨e, c', h1, h2⟩

/-! ### the decompressor's raw reads -/

theorem mrRead_eq_loop (c : Conn) (rid k : Nat) (hm : c.r.msgReader = some rid) :
    mrRead c rid k = mrReadLoop (c.fuel + 1) c rid k := by
  unfold mrRead
  rw [if_neg (by rw [hm]; simp)]

/-- the raw reads over a cut message: they stop with an error that is not io.EOF, or all of them
    succeed and the message is still cut -/
theorem zFills_cut (S : Bool) (rid : Nat) : ∀ (ks : List Nat), (∀ k ∈ ks, 0 < k) →
    ∀ (c : Conn) (wire : Bytes) (more : List PFrame) (m : Nat) (acc : List Bytes), CSt S c wire more m →
      c.r.msgReader = some rid → LenOk c (dataPayload more).length →
      (∃ raw e c2, zFills ks c rid acc = ((raw, some e), c2) ∧ e ≠ .eof) ∨
      (∃ raw c2 wire' more' m', zFills ks c rid acc = ((raw, none), c2) ∧ CSt S c2 wire' more' m' ∧
        c2.r.msgReader = some rid ∧ LenOk c2 (dataPayload more').length) := by
  intro ks
  induction ks with
  | nil =>
    intro _ c wire more m acc hst hm hl
    right
    exact ⟨_, c, wire, more, m, rfl, hst, hm, hl⟩
  | cons k ks ih =>
    intro hks c wire more m acc hst hm hl
    have hk : 0 < k := hks k (List.mem_cons_self ..)
    have hks' : ∀ k' ∈ ks, 0 < k' := fun k' h => hks k' (List.mem_cons_of_mem _ h)
    unfold zFills
    rw [mrRead_eq_loop c rid k hm]
    rcases mrReadLoop_cut S rid k hk (c.fuel + 1) c wire more m hst hm hl with
      ⟨out, c2, w2, m2, n2, b1, b2, b3, b4, _⟩ | ⟨out, e, c2, b1, b2, _⟩
    · rw [b1]
      simp only []
      exact ih hks' c2 w2 m2 n2 (out :: acc) b2 b3 b4
    · left
      rw [b1]
      exact ⟨_, e, c2, rfl, b2⟩

/-- the raw reads over a whole message: all of them succeed and the reader is still inside the
    message (what was handed over is a prefix of the raw message), or one of them reaches the end of
    the message and everything has been handed over -/
theorem zFills_spec (S : Bool) (rid : Nat) (rest : Bytes) : ∀ (ks : List Nat), (∀ k ∈ ks, 0 < k) →
    ∀ (c : Conn) (wire : Bytes) (more : List PFrame) (acc : List Bytes), St S c wire more rest →
      c.r.msgReader = some rid → LenOk c (dataPayload more).length →
      (∃ out c2 wire' more', zFills ks c rid acc = ((acc.reverse.flatten ++ out, none), c2) ∧
        St S c2 wire' more' rest ∧ c2.r.msgReader = some rid ∧ LenOk c2 (dataPayload more').length ∧
        unmask c wire ++ dataPayload more = out ++ (unmask c2 wire' ++ dataPayload more')) ∨
      (∃ c2, zFills ks c rid acc = ((acc.reverse.flatten ++ (unmask c wire ++ dataPayload more), some .eof), c2) ∧
        St S c2 [] [] rest ∧ c2.r.final = true) := by
  intro ks
  induction ks with
  | nil =>
    intro _ c wire more acc hst hm hl
    left
    refine ⟨[], c, wire, more, ?_, hst, hm, hl, rfl⟩
    simp [zFills]
  | cons k ks ih =>
    intro hks c wire more acc hst hm hl
    have hk : 0 < k := hks k (List.mem_cons_self ..)
    have hks' : ∀ k' ∈ ks, 0 < k' := fun k' h => hks k' (List.mem_cons_of_mem _ h)
    have hcf : c.r.buf.pending.length < c.fuel + 1 := by
      have := hst.env.fuel
      unfold Conn.fuel; omega
    unfold zFills
    rw [mrRead_eq_loop c rid k hm]
    rcases mrReadLoop_spec S rid k hk rest (c.fuel + 1) c wire more hst hm hl hcf with
      ⟨out, c2, w2, m2, b1, _, b3, _, b5, b6, b7, _, _⟩ | ⟨c2, b1, b2, b3, b4, _, _, _, _⟩
    · rw [b1]
      simp only []
      rcases ih hks' c2 w2 m2 (out :: acc) b3 b5 b6 with ⟨out', c3, w3, m3, d1, d2, d3, d4, d5⟩ | ⟨c3, d1, d2, d3⟩
      · left
        refine ⟨out ++ out', c3, w3, m3, ?_, d2, d3, d4, ?_⟩
        · rw [d1]; simp [List.append_assoc]
        · rw [b7, d5, List.append_assoc]
      · right
        refine ⟨c3, ?_, d2, d3⟩
        rw [d1, b7]; simp [List.append_assoc]
    · right
      rw [b1]
      simp only []
      refine ⟨c2, ?_, b3, b4⟩
      rw [b2]; simp

/-- when the raw reads never end the message and neither does the drain, the decompressing reader
    fails -/
theorem zReadToEnd_failed (c : Conn) (rid : Nat) (env : ZEnv)
    (h1 : ∀ raw c1, zFills env.reqs c rid [] ≠ ((raw, some .eof), c1))
    (h2 : ∀ raw c1, zFills env.reqs c rid [] = ((raw, none), c1) →
      ∀ bs c2, readAll c1 rid env.drainK ≠ ((bs, none), c2)) :
    ∃ raw e c2, zReadToEnd c rid env = ((raw, .failed e), c2) := by
  unfold zReadToEnd
  split
  · rename_i raw c1 heq
    exact absurd heq (h1 raw c1)
  · exact ⟨_, _, _, rfl⟩
  · rename_i raw c1 heq
    split
    · exact ⟨_, _, _, rfl⟩
    · split
      · rename_i bs c2 heq2
        exact absurd heq2 (h2 raw c1 heq bs c2)
      · exact ⟨_, _, _, rfl⟩

end WS.ZCutLoops
