import WS.Lemmas.ReaderLift
import WS.Lemmas.ReaderProg
/-
  C04 / C06 on reachable reader states, and the read limit inside a fragmented message.
-/
namespace WS.ReaderMore
open WS WS.Codec WS.SrcLaw WS.HdrLogic WS.ReaderDecodes WS.ReaderRejects WS.ReaderLift

/-- reachable-state invariant of the reader: the failed-call counter only moves once an error is
    latched (conn.go: `c.readErrCount++` is reached only after the `for c.readErr == nil` loop) -/
def CountInv (c : Conn) : Prop := c.r.readErr = none → c.r.errCount = 0

/-- counterexample to `nextReader_countInv` as originally stated (no hypothesis on the byte source):
    a fresh client connection with a well-formed source whose ghost field `total` (0) understates the
    five empty pong frames the transport still holds. `Conn.fuel` = total + size + 2 = 4, so the
    NextReader loop runs out of fuel after four pongs with no error latched, and NextReader counts a
    failed call all the same. -/
def cex3 : Conn :=
  { w := { isServer := false, wbufLen := 0, pool := false, nego := false },
    r := { isServer := false, nego := false,
           buf := { size := 2, buf := [], total := 0,
                    t := { chunks := [[0x8A, 0, 0x8A, 0, 0x8A, 0, 0x8A, 0, 0x8A, 0]] } } } }

theorem cex3_countInv : CountInv cex3 := fun _ => rfl

theorem cex3_wf : WF cex3.r.buf :=
  ⟨by decide, by decide, (by intro c h; simp [cex3] at h; subst h; simp), (by intro e h; cases h)⟩

/-- `CountInv cex3` holds (and the source is well formed, `cex3_wf`), but after NextReader the error
    counter is 1 with no error latched (`#eval (nextReader cex3)` : `.err .any`, readErr `none`,
    errCount 1) -/
theorem nextReader_countInv_cex : ¬ CountInv (nextReader cex3).2 := by
  intro h
  have h1 : (nextReader cex3).2.r.readErr = none := by decide
  have h2 : (nextReader cex3).2.r.errCount = 1 := by decide
  have h3 := h h1
  rw [h2] at h3
  cases h3

/- ORIGINAL STATEMENT (false: counterexample `cex3` above, refuted by `nextReader_countInv_cex`; the
   closest true statements are `nextReader_countInv_partial` and `nextReader_reachInv_partial` below):

theorem nextReader_countInv (c : Conn) (h : CountInv c) : CountInv (nextReader c).2
-/

open WS.RobustAux WS.ReaderProg in
/-- `nextReader_countInv` with the missing hypotheses: the byte source is well formed and its ghost
    `total` bounds the bytes still pending (both are part of `ReaderIdle` / `MidMessage`), so that
    the loop's fuel cannot run out -/
theorem nextReader_countInv_partial (c : Conn) (h : CountInv c) (hwf : WF c.r.buf)
    (hfuel : c.r.buf.pending.length ≤ c.r.buf.total) : CountInv (nextReader c).2 := by
  intro hn
  rw [nextReader_eq] at hn ⊢
  cases hc : c.r.readErr with
  | some e =>
    rw [nrFinish_readErr, nrRes_some c e hc] at hn
    have hn' : c.r.readErr = none := hn
    rw [hc] at hn'
    cases hn'
  | none =>
    rw [nrRes_none c hc] at hn ⊢
    have hf : (c0 c).r.buf.pending.length < c.fuel := by
      show c.r.buf.pending.length < c.r.buf.total + c.r.buf.size + 2
      omega
    obtain ⟨_, h2⟩ := nextReaderLoop_prog c.fuel (c0 c) hwf hf
    have h3 := (RobustAux.nextReaderLoop_spec c.fuel (c0 c)).1
    generalize nextReaderLoop c.fuel (c0 c) = x at hn h2 h3 ⊢
    obtain ⟨res, c1⟩ := x
    cases res with
    | msg t rid z =>
      show c1.r.errCount = 0
      rw [h3]
      exact h hc
    | err e =>
      rw [nrFinish_readErr] at hn
      exact absurd hn (h2 (fun _ _ _ h => by cases h))
    | panic =>
      rw [nrFinish_readErr] at hn
      exact absurd hn (h2 (fun _ _ _ h => by cases h))

/-- the invariant in inductive form: `CountInv` together with what makes it stable under NextReader -/
structure ReachInv (c : Conn) : Prop where
  count : CountInv c
  wf : WF c.r.buf
  fuel : c.r.buf.pending.length ≤ c.r.buf.total

open WS.ReaderProg in
theorem nextReader_reachInv_partial (c : Conn) (h : ReachInv c) : ReachInv (nextReader c).2 := by
  have hp := nextReader_prog c h.wf
  refine ⟨nextReader_countInv_partial c h.count h.wf h.fuel, hp.wf, ?_⟩
  rw [hp.total]
  exact Nat.le_trans hp.len h.fuel

open WS.RobustAux in
theorem mrReadLoop_ec (fuel : Nat) : ∀ (c : Conn) (rid k : Nat),
    (mrReadLoop fuel c rid k).2.r.errCount = c.r.errCount := by
  induction fuel with
  | zero => intro c rid k; rfl
  | succ n ih =>
    intro c rid k
    unfold mrReadLoop
    split
    · rfl
    · split
      · generalize c.r.buf.read (min k c.r.remaining.toNat) = x
        obtain ⟨bs, e, b⟩ := x
        rfl
      · split
        · rfl
        · have h1 := advanceFrame_ec c
          generalize advanceFrame c = x at h1 ⊢
          obtain ⟨res, c1⟩ := x
          cases res with
          | error e => exact (ih _ rid k).trans h1
          | ok t =>
            simp only [] at h1 ⊢
            split
            · exact (ih _ rid k).trans h1
            · exact (ih _ rid k).trans h1

theorem mrRead_ec (c : Conn) (rid k : Nat) : (mrRead c rid k).2.r.errCount = c.r.errCount := by
  unfold mrRead
  split
  · rfl
  · exact mrReadLoop_ec _ c rid k

/-- a Read on a failed connection leaves the connection as it is -/
theorem mrRead_failed_id (c : Conn) (rid k : Nat) (e : RErr) (he : c.r.readErr = some e) :
    (mrRead c rid k).2 = c := by
  unfold mrRead
  split
  · rfl
  · unfold mrReadLoop
    simp only [he]

theorem mrRead_countInv (c : Conn) (rid k : Nat) (h : CountInv c) : CountInv (mrRead c rid k).2 := by
  intro hn
  cases hc : c.r.readErr with
  | some e =>
    rw [mrRead_failed_id c rid k e hc, hc] at hn
    cases hn
  | none =>
    rw [mrRead_ec]
    exact h hc

open WS.ReaderProg in
/-- Read keeps the inductive form of the invariant as well -/
theorem mrRead_reachInv (c : Conn) (rid k : Nat) (hk : 0 < k) (h : ReachInv c) : ReachInv (mrRead c rid k).2 := by
  have hp := mrRead_prog c rid k hk h.wf
  refine ⟨mrRead_countInv c rid k h.count, hp.wf, ?_⟩
  rw [hp.total]
  exact Nat.le_trans hp.len h.fuel

/-- C04 on reachable states: no panic branch — NextReader returns the protocol error -/
theorem nextReader_violation_reach (c : Conn) (hc : ReaderIdle c) (hi : CountInv c) (hw : WHealthy c.w) (b0 b1 : UInt8) (rest : Bytes)
    (hp : c.r.buf.pending = b0 :: b1 :: rest)
    (hv : Violates c.r.isServer c.r.nego false (parseHdr b0 b1)) :
    ∃ msg c', nextReader c = (.err (.protocol msg), c') ∧ c'.r.readErr = some (.protocol msg) ∧
      c'.r.hlog = c.r.hlog ∧ c'.r.buf.pending = rest ∧
      c'.w.wire = c.w.wire ++ closeFrameBytes c.w ((closePayload 1002 (strBytes msg)).take 125) ∧
      c'.w.writeErr = some .closeSent := by
  have h0 : c.r.errCount = 0 := hi hc.noErr
  exact nextReader_violation_partial c hc hw b0 b1 rest hp hv (by rw [h0]; decide)

/-- C06 on reachable states -/
theorem nextReader_over_limit_reach (c : Conn) (hc : ReaderIdle c) (hi : CountInv c) (hw : WHealthy c.w) (hclient : c.r.isServer = false)
    (t : Nat) (ht : t = 1 ∨ t = 2) (payload rest : Bytes) (hl : payload.length < 126)
    (hp : c.r.buf.pending = [UInt8.ofNat (128 + t), UInt8.ofNat payload.length] ++ payload ++ rest)
    (hlim : 0 < c.r.limit) (hover : c.r.limit < payload.length) :
    ∃ c', nextReader c = (.err .readLimit, c') ∧ c'.r.readErr = some .readLimit ∧
      c'.r.buf.pending = payload ++ rest ∧
      c'.w.wire = c.w.wire ++ closeFrameBytes c.w (closePayload 1009 []) := by
  have h0 : c.r.errCount = 0 := hi hc.noErr
  exact nextReader_over_limit_partial c hc hw hclient t ht payload rest hl hp hlim hover (by rw [h0]; decide)

theorem parseHdr_cont (fin : Bool) (n : Nat) (hn : n < 126) :
    parseHdr (UInt8.ofNat (if fin then 128 else 0)) (UInt8.ofNat n) = Hdr.mk 0 fin false false false false n := by
  rw [parseHdr_ctl _ n (by omega)]
  cases fin <;> rfl

set_option linter.unusedVariables false in
/-- C06 inside a fragmented message: the continuation frame (final or not) whose length takes the
    running sum of the message over the limit is refused by the Read that meets it: ErrReadLimit, no
    byte delivered, no payload byte consumed, 1009 close frame written -/
theorem read_over_limit_mid_message (c : Conn) (rid : Nat) (hc : MidMessage c rid) (hw : WHealthy c.w)
    (hclient : c.r.isServer = false) (fin : Bool) (payload rest : Bytes) (hl : payload.length < 126)
    (hp : c.r.buf.pending = [UInt8.ofNat (if fin then 128 else 0), UInt8.ofNat payload.length] ++ payload ++ rest)
    (hlim : 0 < c.r.limit) (hsum : 0 ≤ c.r.length) (hsmall : c.r.length < 2 ^ 62)
    (hover : c.r.limit < c.r.length + payload.length) (k : Nat) (hk : 0 < k) :
    ∃ c', mrRead c rid k = (([], some .readLimit), c') ∧ c'.r.readErr = some .readLimit ∧
      c'.r.buf.pending = payload ++ rest ∧
      c'.w.wire = c.w.wire ++ closeFrameBytes c.w (closePayload 1009 []) := by
  have hH := parseHdr_cont fin payload.length hl
  have hp' : c.r.buf.pending =
      UInt8.ofNat (if fin then 128 else 0) :: UInt8.ofNat payload.length :: (payload ++ rest) := by
    rw [hp, List.append_assoc]; rfl
  have hok : ¬ Violates c.r.isServer c.r.nego (!c.r.final)
      (parseHdr (UInt8.ofNat (if fin then 128 else 0)) (UInt8.ofNat payload.length)) := by
    rw [hH, hc.notFinal, hclient]
    unfold Violates
    simp
  obtain ⟨c', ha, h1, _, h3, _⟩ :=
    limit_refuses_small c ⟨hc.noErr, hc.rem, hc.wf, hc.size⟩ hw _ _ (payload ++ rest) hclient hp' hok
      (by rw [hH]; show 0 ≤ 2; omega) (by rw [hH]; exact hl) hlim hsum hsmall
      (by
        rw [hH]
        show c.r.limit < sumBase c _ + (payload.length : Int)
        have : sumBase c (Hdr.mk 0 fin false false false false payload.length) = c.r.length := by
          unfold sumBase; rw [if_pos rfl]
        rw [this]; exact hover)
  exact ⟨_, mrRead_adv_err c rid k hc.noErr hc.rem hc.notFinal hc.cur _ c' ha (by intro h; cases h),
    rfl, h1, h3⟩

/-- the running sum is what the frames of the current message add up to: an accepted data frame with
    7-bit length adds exactly its length (a text/binary frame restarts the sum) -/
theorem accepted_frame_adds_length (c : Conn) (hc : AtBoundary c) (b0 b1 : UInt8) (rest : Bytes)
    (hclient : c.r.isServer = false) (hp : c.r.buf.pending = b0 :: b1 :: rest)
    (hok : ¬ Violates c.r.isServer c.r.nego (!c.r.final) (parseHdr b0 b1))
    (hdata : (parseHdr b0 b1).opcode ≤ 2) (hlen : (parseHdr b0 b1).len7 < 126)
    (hsum : 0 ≤ c.r.length) (hsmall : c.r.length < 2 ^ 62)
    (hunder : c.r.limit ≤ 0 ∨ sumBase c (parseHdr b0 b1) + (parseHdr b0 b1).len7 ≤ c.r.limit) :
    ∃ res c', advanceFrame c = (res, c') ∧ (∀ e, res ≠ .error e) ∧
      c'.r.length = sumBase c (parseHdr b0 b1) + (parseHdr b0 b1).len7 := by
  have hsz := hc.size
  obtain ⟨b', hT, hb1, hb2, hb3⟩ := take_eq c.r.buf hc.wf 2 (by omega) [b0, b1] rest hp rfl
  have hrem : ¬ c.r.remaining > 0 := by rw [hc.rem]; decide
  have herr := errs_empty c.r.isServer c.r.nego c.r.final (parseHdr b0 b1) hok
  have hmask : (parseHdr b0 b1).mask = false := by rw [mask_of_ok _ _ _ _ hok, hclient]
  have h126 : ¬ ((parseHdr b0 b1).len7 = 126) := by omega
  have h127 : ¬ ((parseHdr b0 b1).len7 = 127) := by omega
  have hop : ((parseHdr b0 b1).opcode == 0 || (parseHdr b0 b1).opcode == 1 || (parseHdr b0 b1).opcode == 2) = true := by
    simp only [Bool.or_eq_true, beq_iff_eq]; omega
  unfold advanceFrame
  simp only [hrem, if_false, hT, herr, Bool.false_eq_true, h126, h127, hmask, hop, if_true]
  have hbase : (if ((parseHdr b0 b1).opcode == 0) = true then c.r.length else 0) = sumBase c (parseHdr b0 b1) := by
    unfold sumBase; simp only [beq_iff_eq]
  have hB0 : 0 ≤ sumBase c (parseHdr b0 b1) := by unfold sumBase; split <;> omega
  have hB1 : sumBase c (parseHdr b0 b1) < 2 ^ 62 := by unfold sumBase; split <;> omega
  rw [hbase]
  have hwr := ReaderRejects.wrap64_id (sumBase c (parseHdr b0 b1) + ((parseHdr b0 b1).len7 : Int)) (by omega) (by omega)
  rw [hwr]
  have hcond : (decide (sumBase c (parseHdr b0 b1) + ((parseHdr b0 b1).len7 : Int) < 0) ||
      decide (c.r.limit > 0) && decide (sumBase c (parseHdr b0 b1) + ((parseHdr b0 b1).len7 : Int) > c.r.limit)) = false := by
    simp only [Bool.or_eq_false_iff, Bool.and_eq_false_iff, decide_eq_false_iff_not]
    refine ⟨by omega, ?_⟩
    rcases hunder with h | h
    · left; omega
    · right; omega
  simp only [hcond, Bool.false_eq_true, if_false]
  exact ⟨_, _, rfl, (fun e h => by cases h), rfl⟩

end WS.ReaderMore
