import WS.Lemmas.ReaderDecodes
/-
  C03 for permessage-deflate: a compressed message (RSV1 on its first data frame, compression
  negotiated) is announced by NextReader as compressed, and what the message reader hands to the
  decompressor — for reads of ANY size, any fragmentation, interleaved pings/pongs, any chunking and
  buffer size — is exactly the concatenation of the data frames' payloads, i.e. the deflate stream the
  peer produced (minus the 4-byte tail, which compression.go appends again before inflating).
  compress/flate itself is environment.
-/
namespace WS.ReaderZ
open WS WS.Codec WS.SrcLaw WS.ReaderDecodes

/-- the first data frame of a compressed message on the wire: RSV1 set -/
def encZ (readerIsServer : Bool) (f : PFrame) : Bytes := encode (!readerIsServer) (f.b0 + 64) f.key f.payload

/-- first frame `f` of type `t` plus the frames after it (continuations with pings/pongs interleaved) -/
def ZShape (t : Nat) (f : PFrame) (more : List PFrame) : Prop :=
  f.op = t ∧ f.payload.length < 2 ^ 62 ∧ ((f.fin = true ∧ more = []) ∨ (f.fin = false ∧ Tail more))


/-! ### helper lemmas: the first-frame step for an RSV1 frame -/
section HelpersZ
open WS.AdvFrame

theorem parseHdr_encZ (op : Nat) (fin S : Bool) (n7 : Nat) (hop : op < 16) (hn : n7 < 128) :
    parseHdr (UInt8.ofNat (op + (if fin then 128 else 0) + 64)) (UInt8.ofNat (mbit S + n7)) =
      ⟨op, fin, true, false, false, S, n7⟩ := by
  unfold parseHdr mbit
  rw [Codec.toNat_ofNat_lt _ (by split <;> omega), Codec.toNat_ofNat_lt _ (by split <;> omega)]
  cases fin <;> cases S <;> simp <;> omega

theorem hdrErrs_dataZ (S nego final fin : Bool) (op n7 : Nat) (hn : nego = true)
    (h : (op = 0 ∧ final = false) ∨ ((op = 1 ∨ op = 2) ∧ final = true)) :
    headerErrors S nego final ⟨op, fin, true, false, false, S, n7⟩ = [] := by
  subst hn
  rw [HdrLogic.headerErrors_nil_iff]
  unfold HdrLogic.Violates
  rcases h with ⟨rfl, rfl⟩ | ⟨rfl | rfl, rfl⟩ <;> simp

theorem afHdr_dataZ (c : Conn) (tail : Bytes) (op : Nat) (fin : Bool) (key : Key) (payload : Bytes)
    (hnego : c.r.nego = true)
    (hwf : WF c.r.buf) (hsz : 125 ≤ c.r.buf.size)
    (hp : c.r.buf.pending = ext payload.length ++ (keyBytes c.r.isServer key ++ tail))
    (hop : (op = 0 ∧ c.r.final = false) ∨ ((op = 1 ∨ op = 2) ∧ c.r.final = true))
    (hlen : payload.length < 2 ^ 62) (h0 : 0 ≤ lenBase op c)
    (h1 : lenBase op c + payload.length < 9223372036854775808)
    (hlim : c.r.limit ≤ 0 ∨ lenBase op c + payload.length ≤ c.r.limit) :
    ∃ b', afHdr c (UInt8.ofNat (op + (if fin then 128 else 0) + 64)) (UInt8.ofNat (mbit c.r.isServer + l7 payload.length)) =
        (.ok op, { c with r := { c.r with buf := b', remaining := (payload.length : Int), decompress := c.r.nego, final := fin, maskPos := (if c.r.isServer then 0 else c.r.maskPos), maskKey := (if c.r.isServer then key else c.r.maskKey), length := lenBase op c + payload.length } }) ∧
      b'.pending = tail ∧ WF b' ∧ Same2 c.r.buf b' := by
  have hop16 : op < 16 := by omega
  have hopb : (op == 1 || op == 2 || op == 0) = true := by
    rcases hop with ⟨rfl, _⟩ | ⟨rfl | rfl, _⟩ <;> rfl
  have hopb' : (op == 0 || op == 1 || op == 2) = true := by
    rcases hop with ⟨rfl, _⟩ | ⟨rfl | rfl, _⟩ <;> rfl
  unfold afHdr
  simp only [parseHdr_encZ op fin c.r.isServer _ hop16 (l7_lt _), hdrErrs_dataZ _ _ _ _ _ _ hnego hop, hopb, hopb',
    List.isEmpty_nil, Bool.not_true, Bool.false_eq_true, if_false, if_true, Bool.true_and]
  obtain ⟨b1, s1, s2, s3, s4⟩ := afLen_ok ⟨op, fin, true, false, false, c.r.isServer, l7 payload.length⟩
    { c with r := { c.r with remaining := ((l7 payload.length : Nat) : Int), decompress := c.r.nego, final := fin } }
    payload.length _ rfl rfl hlen hwf (by simp only []; omega) hp
  rw [s1]
  simp only []
  obtain ⟨b2, t1, t2, t3, t4⟩ := afKey_ok ⟨op, fin, true, false, false, c.r.isServer, l7 payload.length⟩
    { c with r := { c.r with buf := b1, remaining := (payload.length : Int), decompress := c.r.nego, final := fin } }
    c.r.isServer key tail rfl s3 (by have := s4.size; simp only [] at this ⊢; omega) s2
  rw [t1]
  simp only []
  refine ⟨b2, ?_, t2, t3, s4.trans t4⟩
  exact afData_ok _ _ payload.length rfl h0 h1 hlim

/-- advanceFrame on an RSV1 data frame when compression is negotiated -/
theorem advance_dataZ_raw (c : Conn) (wire tail : Bytes) (op : Nat) (fin : Bool) (key : Key) (payload : Bytes)
    (hnego : c.r.nego = true)
    (hrem : c.r.remaining = (wire.length : Int)) (hwf : WF c.r.buf) (hsz : 125 ≤ c.r.buf.size)
    (hp : c.r.buf.pending = wire ++ (Codec.encode (!c.r.isServer) (op + (if fin then 128 else 0) + 64) key payload ++ tail))
    (hop : (op = 0 ∧ c.r.final = false) ∨ ((op = 1 ∨ op = 2) ∧ c.r.final = true))
    (hlen : payload.length < 2 ^ 62) (h0 : 0 ≤ lenBase op c)
    (h1 : lenBase op c + payload.length < 9223372036854775808)
    (hlim : c.r.limit ≤ 0 ∨ lenBase op c + payload.length ≤ c.r.limit) :
    ∃ b', advanceFrame c =
        (.ok op, { c with r := { c.r with buf := b', remaining := (payload.length : Int), decompress := c.r.nego, final := fin, maskPos := (if c.r.isServer then 0 else c.r.maskPos), maskKey := (if c.r.isServer then key else c.r.maskKey), length := lenBase op c + payload.length } }) ∧
      b'.pending = body c.r.isServer key payload ++ tail ∧ WF b' ∧ Same2 c.r.buf b' := by
  rw [advanceFrame_eq]
  rw [encode_eq] at hp
  simp only [List.cons_append, List.append_assoc] at hp
  obtain ⟨b1, s1, s2, s3, s4⟩ := afSkip_ok c wire _ hrem hwf hp
  rw [s1]
  simp only []
  obtain ⟨b2, t1, t2, t3, t4⟩ := afHead_ok { c with r := { c.r with buf := b1 } } _ _ _ s3
    (by have := s4.size; simp only [] at this ⊢; omega) s2
  rw [t1]
  obtain ⟨b3, u1, u2, u3, u4⟩ := afHdr_dataZ { c with r := { c.r with buf := b2 } } (body c.r.isServer key payload ++ tail)
    op fin key payload hnego t3 (by have := s4.size; have := t4.size; simp only [] at *; omega) t2 hop hlen h0 h1 hlim
  refine ⟨b3, ?_, u2, u3, (s4.trans t4).trans u4⟩
  exact u1

theorem encZ_length (S : Bool) (f : PFrame) :
    (encZ S f).length = 2 + (ext f.payload.length).length + (keyBytes S f.key).length + f.payload.length := by
  unfold encZ
  rw [encode_eq]
  simp only [List.length_cons, List.length_append, body_length]
  omega

/-- advanceFrame on the RSV1 data frame of the peer -/
theorem adv_dataZ (c : Conn) (wire tail : Bytes) (f : PFrame) (env : Env c) (hnego : c.r.nego = true)
    (hrem : c.r.remaining = (wire.length : Int))
    (hp : c.r.buf.pending = wire ++ (encZ c.r.isServer f ++ tail))
    (hop : (f.op = 0 ∧ c.r.final = false) ∨ ((f.op = 1 ∨ f.op = 2) ∧ c.r.final = true))
    (hlen : f.payload.length < 2 ^ 62) (h0 : 0 ≤ c.r.length) (hl : LenOk c f.payload.length) :
    ∃ c', advanceFrame c = (.ok f.op, c') ∧ Keep c c' ∧ Env c' ∧
      c'.r.readErr = c.r.readErr ∧ c'.r.msgReader = c.r.msgReader ∧ c'.r.nextId = c.r.nextId ∧
      c'.r.hlog = c.r.hlog ∧ c'.r.remaining = (f.payload.length : Int) ∧ c'.r.final = f.fin ∧
      c'.r.length = lenBase f.op c + f.payload.length ∧ c'.r.decompress = true ∧
      c'.r.buf.pending = body c.r.isServer f.key f.payload ++ tail ∧
      unmask c' (body c.r.isServer f.key f.payload) = f.payload ∧
      c'.r.buf.pending.length + 2 ≤ c.r.buf.pending.length := by
  have hb0 := lenBase_nonneg f.op c h0
  have hb1 := lenBase_le f.op c h0
  obtain ⟨b', h1, h2, h3, h4⟩ := advance_dataZ_raw c wire tail f.op f.fin f.key f.payload hnego hrem env.wf env.size
    hp hop hlen hb0 (by have := hl.1; omega)
    (by rcases hl.2 with h | h
        · exact Or.inl h
        · exact Or.inr (by omega))
  have hk : Keep c { c with r := { c.r with buf := b', remaining := (f.payload.length : Int), decompress := c.r.nego, final := f.fin, maskPos := (if c.r.isServer then 0 else c.r.maskPos), maskKey := (if c.r.isServer then f.key else c.r.maskKey), length := lenBase f.op c + f.payload.length } } :=
    ⟨rfl, rfl, rfl, rfl, h4⟩
  have hpl : b'.pending.length + 2 ≤ c.r.buf.pending.length := by
    rw [h2, hp]
    simp only [List.length_append, encZ_length, body_length]
    omega
  refine ⟨_, h1, hk, env.step hk h3 (by simp only []; omega), rfl, rfl, rfl, rfl, rfl, rfl, rfl, hnego, h2, ?_, hpl⟩
  unfold unmask body
  simp only []
  cases c.r.isServer
  · rfl
  · simp only [if_true]; exact maskFrom_involutive _ _ _

/-- the RSV1 data frame is entered -/
theorem step_dataZ (S : Bool) (c : Conn) (wire : Bytes) (f : PFrame) (fs : List PFrame) (rest : Bytes)
    (env : Env c) (hnego : c.r.nego = true) (srv : c.r.isServer = S) (noErr : c.r.readErr = none)
    (hrem : c.r.remaining = (wire.length : Int))
    (hp : c.r.buf.pending = wire ++ (encZ S f ++ (encAll S fs ++ rest)))
    (hop : (f.op = 0 ∧ c.r.final = false) ∨ ((f.op = 1 ∨ f.op = 2) ∧ c.r.final = true))
    (hlen : f.payload.length < 2 ^ 62) (h0 : 0 ≤ c.r.length)
    (tog : c.r.buf.t.together = false ∨ rest ≠ [])
    (hT : f.fin = true → fs = []) (hF : f.fin = false → Tail fs)
    (extra : Nat) (hl : LenOk c (f.payload.length + (dataPayload fs).length + extra)) :
    ∃ c', advanceFrame c = (.ok f.op, c') ∧ St S c' (body S f.key f.payload) fs rest ∧ Keep c c' ∧
      c'.r.msgReader = c.r.msgReader ∧ c'.r.nextId = c.r.nextId ∧ c'.r.hlog = c.r.hlog ∧
      c'.r.decompress = true ∧ LenOk c' ((dataPayload fs).length + extra) ∧
      unmask c' (body S f.key f.payload) = f.payload ∧
      c'.r.buf.pending.length < c.r.buf.pending.length := by
  subst srv
  have hb0 := lenBase_nonneg f.op c h0
  have hb1 := lenBase_le f.op c h0
  obtain ⟨c', a1, a2, a3, a4, a5, a6, a7, a8, a9, a10, a11, a12, a13, a14⟩ :=
    adv_dataZ c wire (encAll c.r.isServer fs ++ rest) f env hnego hrem hp hop hlen h0 (hl.mono (by omega))
  refine ⟨c', a1, ⟨a3, a2.isServer, ?_, ?_, ?_, ?_, ?_, ?_, ?_⟩, a2, a5, a6, a7, a11, ?_, a13, by omega⟩
  · rw [a4]; exact noErr
  · rw [a8, body_length]
  · exact a12
  · rw [a9]; exact hT
  · rw [a9]; exact hF
  · rw [a10]; omega
  · rw [a2.same.together]; exact tog
  · obtain ⟨l1, l2⟩ := hl
    refine ⟨?_, ?_⟩
    · rw [a10]; omega
    · rw [a10, a2.limit]
      rcases l2 with l2 | l2
      · exact Or.inl l2
      · exact Or.inr (by omega)

/-- the header stage refuses RSV1 when compression was not negotiated -/
theorem afHdr_rsv1_refused (c : Conn) (b0 b1 : UInt8) (h1 : (parseHdr b0 b1).rsv1 = true) (hn : c.r.nego = false) :
    ∃ msg c', afHdr c b0 b1 = (.error (.protocol msg), c') ∧ c'.r.hlog = c.r.hlog ∧
      c'.r.readErr = c.r.readErr ∧ c'.r.errCount = c.r.errCount := by
  have hne : (!(headerErrors c.r.isServer c.r.nego c.r.final (parseHdr b0 b1)).isEmpty) = true := by
    unfold headerErrors
    rw [h1, hn]
    simp
  unfold afHdr
  simp only [hne, if_true]
  unfold handleProtocolError
  simp only []
  exact ⟨_, _, rfl, rfl, rfl, rfl⟩

theorem loop_msg (c0 c' : Conn) (t : Nat) (hne : c0.r.readErr = none) (a1 : advanceFrame c0 = (.ok t, c'))
    (htb : (t == 1 || t == 2) = true) (fuel : Nat) :
    nextReaderLoop (fuel + 1) c0 = (.msg t c'.r.nextId c'.r.decompress,
      { c' with r := { c'.r with msgReader := some c'.r.nextId, nextId := c'.r.nextId + 1 } }) := by
  unfold nextReaderLoop
  simp only [hne, a1, htb, if_true]

theorem loop_err (c0 c' : Conn) (e : RErr) (hne : c0.r.readErr = none) (a1 : advanceFrame c0 = (.error e, c'))
    (fuel : Nat) :
    nextReaderLoop (fuel + 1) c0 = (.err e, { c' with r := { c'.r with readErr := some e } }) := by
  unfold nextReaderLoop
  simp only [hne, a1]

end HelpersZ

theorem read_compressed_message (c : Conn) (hc : ReaderIdle c) (hn : c.r.nego = true) (t : Nat) (ht : t = 1 ∨ t = 2)
    (f : PFrame) (more : List PFrame) (hs : ZShape t f more) (rest : Bytes)
    (hp : c.r.buf.pending = encZ c.r.isServer f ++ encAll c.r.isServer more ++ rest)
    (hend : c.r.buf.t.together = false ∨ rest ≠ [])
    (hsz : (f.payload ++ dataPayload more).length < 2 ^ 62)
    (hlim : c.r.limit ≤ 0 ∨ (((f.payload ++ dataPayload more).length : Nat) : Int) ≤ c.r.limit)
    (k : Nat) (hk : 0 < k) :
    ∃ c1 rid, nextReader c = (.msg t rid true, c1) ∧
      ∃ c2, readAll c1 rid k = ((f.payload ++ dataPayload more, none), c2) ∧ ReaderIdle c2 ∧
        c2.r.buf.pending = rest ∧ c2.r.hlog = c.r.hlog ++ ctlEvents more := by
  obtain ⟨hop, hlen, hshape⟩ := hs
  have hT : f.fin = true → more = [] := by
    intro h
    rcases hshape with ⟨_, h2⟩ | ⟨h1, _⟩
    · exact h2
    · rw [h] at h1; cases h1
  have hF : f.fin = false → Tail more := by
    intro h
    rcases hshape with ⟨h1, _⟩ | ⟨_, h2⟩
    · rw [h] at h1; cases h1
    · exact h2
  have hsz' : f.payload.length + (dataPayload more).length < 2 ^ 62 := by
    simpa [List.length_append] using hsz
  have hl0 : LenOk { c with r := { c.r with msgReader := none, length := 0 } }
      (f.payload.length + (dataPayload more).length + 0) := by
    unfold LenOk
    simp only []
    refine ⟨by omega, ?_⟩
    rcases hlim with h | h
    · exact Or.inl h
    · right
      simp only [List.length_append] at h
      omega
  have hp' : ({ c with r := { c.r with msgReader := none, length := 0 } } : Conn).r.buf.pending =
      [] ++ (encZ c.r.isServer f ++ (encAll c.r.isServer more ++ rest)) := by
    show c.r.buf.pending = _
    rw [hp]; simp
  have hrem0 : ({ c with r := { c.r with msgReader := none, length := 0 } } : Conn).r.remaining =
      (([] : Bytes).length : Int) := by
    show c.r.remaining = _
    rw [hc.rem]; rfl
  obtain ⟨c', a1, a2, a3, a4, a5, a6, a7, a8, a9, a10⟩ := step_dataZ c.r.isServer
    { c with r := { c.r with msgReader := none, length := 0 } } [] f more rest
    ⟨hc.wf, hc.size, hc.fuel, hc.hp, hc.hq⟩ hn rfl hc.noErr hrem0 hp'
    (Or.inr ⟨by omega, hc.fin⟩) hlen (Int.le_refl 0) hend hT hF 0 hl0
  have htb : (t == 1 || t == 2) = true := by rcases ht with h | h <;> rw [h] <;> rfl
  have hloop : ∀ fuel, nextReaderLoop (fuel + 1) { c with r := { c.r with msgReader := none, length := 0 } } =
      (.msg t c'.r.nextId true,
        { c' with r := { c'.r with msgReader := some c'.r.nextId, nextId := c'.r.nextId + 1 } }) := by
    intro fuel
    have := loop_msg { c with r := { c.r with msgReader := none, length := 0 } } c' t hc.noErr (by rw [a1, hop]) htb fuel
    rw [a7] at this
    exact this
  have hfu : Conn.fuel { c with r := { c.r with msgReader := none, length := 0 } } =
      (c.r.buf.total + c.r.buf.size + 1) + 1 := rfl
  have hnr : nextReader c = (.msg t c'.r.nextId true,
      { c' with r := { c'.r with msgReader := some c'.r.nextId, nextId := c'.r.nextId + 1 } }) := by
    have b1 := hloop (c.r.buf.total + c.r.buf.size + 1)
    rw [← hfu] at b1
    have hne : c.r.readErr = none := hc.noErr
    unfold nextReader
    simp only [hne] at b1 ⊢
    simp only [b1]
  have hst1 : St c.r.isServer
      { c' with r := { c'.r with msgReader := some c'.r.nextId, nextId := c'.r.nextId + 1 } }
      (AdvFrame.body c.r.isServer f.key f.payload) more rest :=
    a2.congr rfl rfl rfl rfl rfl rfl rfl a2.len0
  have hl1 : LenOk { c' with r := { c'.r with msgReader := some c'.r.nextId, nextId := c'.r.nextId + 1 } }
      (dataPayload more).length := by
    have : LenOk c' (dataPayload more).length := by simpa using a8
    exact this
  obtain ⟨c2, d1, d2, d3, d4⟩ := readAll_spec c.r.isServer c'.r.nextId k hk rest _ _ more hst1 rfl hl1
  refine ⟨_, _, hnr, c2, ?_, d2, d3, ?_⟩
  · rw [d1]
    have hu : unmask { c' with r := { c'.r with msgReader := some c'.r.nextId, nextId := c'.r.nextId + 1 } }
        (AdvFrame.body c.r.isServer f.key f.payload) = f.payload := a9
    rw [hu]
  · rw [d4]
    show c'.r.hlog ++ _ = _
    rw [a6]

/-- and without negotiated compression the same bytes are a protocol violation (RSV1), nothing of the
    message is delivered -/
theorem compressed_frame_refused_when_not_negotiated (c : Conn) (hc : ReaderIdle c) (hn : c.r.nego = false)
    (t : Nat) (ht : t = 1 ∨ t = 2) (f : PFrame) (hf : f.op = t) (tail : Bytes)
    (hp : c.r.buf.pending = encZ c.r.isServer f ++ tail) (hcnt : c.r.errCount = 0) :
    ∃ msg c', nextReader c = (.err (.protocol msg), c') ∧ c'.r.hlog = c.r.hlog := by
  have hop16 : f.op < 16 := by omega
  have hp0 : ({ c with r := { c.r with msgReader := none, length := 0 } } : Conn).r.buf.pending =
      [] ++ (UInt8.ofNat (f.op + (if f.fin then 128 else 0) + 64) ::
        UInt8.ofNat (AdvFrame.mbit c.r.isServer + AdvFrame.l7 f.payload.length) ::
        (AdvFrame.ext f.payload.length ++ (AdvFrame.keyBytes c.r.isServer f.key ++
          (AdvFrame.body c.r.isServer f.key f.payload ++ tail)))) := by
    show c.r.buf.pending = _
    rw [hp]
    unfold encZ PFrame.b0
    rw [AdvFrame.encode_eq]
    simp only [List.cons_append, List.append_assoc, List.nil_append]
  have hrem0 : ({ c with r := { c.r with msgReader := none, length := 0 } } : Conn).r.remaining =
      (([] : Bytes).length : Int) := by
    show c.r.remaining = _
    rw [hc.rem]; rfl
  obtain ⟨b1, s1, s2, s3, s4⟩ := AdvFrame.afSkip_ok
    { c with r := { c.r with msgReader := none, length := 0 } } [] _ hrem0 hc.wf hp0
  obtain ⟨b2, t1, t2, t3, t4⟩ := AdvFrame.afHead_ok
    { c with r := { c.r with msgReader := none, length := 0, buf := b1 } } _ _ _ s3
    (by have := s4.size; have := hc.size; simp only [] at *; omega) s2
  obtain ⟨msg, c', u1, u2, u3, u4⟩ := afHdr_rsv1_refused
    { c with r := { c.r with msgReader := none, length := 0, buf := b2 } }
    (UInt8.ofNat (f.op + (if f.fin then 128 else 0) + 64))
    (UInt8.ofNat (AdvFrame.mbit c.r.isServer + AdvFrame.l7 f.payload.length))
    (by rw [parseHdr_encZ f.op f.fin c.r.isServer _ hop16 (AdvFrame.l7_lt _)]) hn
  have hadv : advanceFrame { c with r := { c.r with msgReader := none, length := 0 } } =
      (.error (.protocol msg), c') := by
    rw [AdvFrame.advanceFrame_eq, s1]
    simp only []
    rw [t1]
    exact u1
  have hloop : ∀ fuel, nextReaderLoop (fuel + 1) { c with r := { c.r with msgReader := none, length := 0 } } =
      (.err (.protocol msg), { c' with r := { c'.r with readErr := some (.protocol msg) } }) := by
    intro fuel
    exact loop_err { c with r := { c.r with msgReader := none, length := 0 } } c' _ hc.noErr hadv fuel
  have hfu : Conn.fuel { c with r := { c.r with msgReader := none, length := 0 } } =
      (c.r.buf.total + c.r.buf.size + 1) + 1 := rfl
  have b1' := hloop (c.r.buf.total + c.r.buf.size + 1)
  rw [← hfu] at b1'
  have hne : c.r.readErr = none := hc.noErr
  have hcnt' : c'.r.errCount = 0 := by rw [u4]; exact hcnt
  have hge : ¬ (c'.r.errCount + 1 ≥ 1000) := by omega
  refine ⟨msg, { c' with r := { c'.r with readErr := some (.protocol msg), errCount := c'.r.errCount + 1 } }, ?_, ?_⟩
  · unfold nextReader
    simp only [hne] at b1' ⊢
    simp only [b1', hge, if_false, Option.getD_some]
  · show c'.r.hlog = _
    rw [u2]

end WS.ReaderZ

