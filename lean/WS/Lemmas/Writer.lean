import WS.Model.Writer
/-
  Helper lemmas about the writer model: what each function can do to the transport-visible core
  of the state (wire, number of transport calls, sticky error, fault script).
-/
namespace WS

/-- the transport-visible part of the state -/
def W.core (s : W) : Bytes × Nat × Option WErr × List (Nat × Fault) × Bool :=
  (s.wire, s.tcalls, s.writeErr, s.faults, s.isServer)

@[simp] theorem emit_core (s : W) (e : Ev) : (emit s e).core = s.core := rfl
@[simp] theorem emit_writeErr (s : W) (e : Ev) : (emit s e).writeErr = s.writeErr := rfl

@[simp] theorem newKey_core (s : W) : (newKey s).2.core = s.core := rfl
@[simp] theorem newKey_writeErr (s : W) : (newKey s).2.writeErr = s.writeErr := rfl

@[simp] theorem poolPut_core (s : W) : (poolPut s).core = s.core := by
  unfold poolPut; split <;> rfl

@[simp] theorem poolGet_core (s : W) : (poolGet s).core = s.core := by
  unfold poolGet; split <;> rfl

theorem core_writeErr {s s' : W} (h : s'.core = s.core) : s'.writeErr = s.writeErr := by
  simp only [W.core, Prod.mk.injEq] at h; exact h.2.2.1

theorem core_wire {s s' : W} (h : s'.core = s.core) : s'.wire = s.wire := by
  simp only [W.core, Prod.mk.injEq] at h; exact h.1

theorem core_tcalls {s s' : W} (h : s'.core = s.core) : s'.tcalls = s.tcalls := by
  simp only [W.core, Prod.mk.injEq] at h; exact h.2.1

theorem writeFatal_core_of_some (s : W) (e : WErr) (h : s.writeErr.isSome) : (writeFatal s e).core = s.core := by
  unfold writeFatal
  cases hw : s.writeErr with
  | none => simp [hw] at h
  | some _ => rfl

theorem writeFatal_isSome (s : W) (e : WErr) : (writeFatal s e).writeErr.isSome := by
  unfold writeFatal
  cases hw : s.writeErr with
  | none => simp
  | some _ => simp [hw]

/-- with the sticky error set, Conn.write returns it and does nothing -/
theorem connWrite_of_err (s : W) (ft d : Int) (b0 b1 : Bytes) (e : WErr) (h : s.writeErr = some e) :
    connWrite s ft d b0 b1 = (some e, s) := by
  unfold connWrite; simp [h]

@[simp] theorem endMessage_core (s : W) (m : MW) (e : WErr) : (endMessage s m e).1.core = s.core := by
  unfold endMessage
  split
  · rfl
  · dsimp only
    split
    · rw [poolPut_core]; rfl
    · rfl

theorem endMessage_err (s : W) (m : MW) (e : WErr) : (endMessage s m e).2.err.isSome := by
  unfold endMessage
  split
  · assumption
  · simp

theorem frameWrite_of_err (s : W) (m : MW) (final : Bool) (extra : Bytes) (h : s.writeErr.isSome) :
    (frameWrite s m final extra).1.isSome ∧ (frameWrite s m final extra).2.core = s.core := by
  obtain ⟨e, he⟩ := Option.isSome_iff_exists.mp h
  unfold frameWrite
  dsimp only
  split
  · rw [connWrite_of_err _ _ _ _ _ e he]; exact ⟨rfl, rfl⟩
  · split
    · exact ⟨rfl, writeFatal_core_of_some _ _ (by simpa using h)⟩
    · rw [connWrite_of_err _ _ _ _ _ e (by simpa using he)]; exact ⟨rfl, rfl⟩

/-- with the sticky error set, flushFrame reports an error, ends the message and touches nothing
    the transport can see -/
theorem flushFrame_of_err (s : W) (m : MW) (final : Bool) (extra : Bytes) (h : s.writeErr.isSome) :
    (flushFrame s m final extra).1.isSome ∧ (flushFrame s m final extra).2.1.core = s.core ∧
    (flushFrame s m final extra).2.2.err.isSome := by
  have hf := frameWrite_of_err s m final extra h
  unfold flushFrame
  split
  · exact ⟨rfl, endMessage_core _ _ _, endMessage_err _ _ _⟩
  · split
    · rename_i e s' heq
      rw [heq] at hf
      refine ⟨rfl, ?_, endMessage_err _ _ _⟩
      rw [endMessage_core]; exact hf.2
    · rename_i s' heq
      rw [heq] at hf
      simp at hf


theorem ncopyPrep_of_err (s : W) (m : MW) (h : s.writeErr.isSome) :
    (ncopyPrep s m).2.1.core = s.core ∧ ((ncopyPrep s m).1 = none → (ncopyPrep s m).2.1 = s) := by
  unfold ncopyPrep
  split
  · have hf := flushFrame_of_err s m false [] h
    refine ⟨hf.2.1, fun hn => ?_⟩
    rw [hn] at hf; simp at hf
  · exact ⟨rfl, fun _ => rfl⟩

theorem copyLoop_of_err (s : W) (m : MW) (p : Bytes) (h : s.writeErr.isSome) :
    (copyLoop s m p).2.1.core = s.core := by
  induction hl : p.length using Nat.strongRecOn generalizing s m p with
  | _ n ih =>
    unfold copyLoop
    split
    · rfl
    · rename_i hp
      have hpre := ncopyPrep_of_err s m h
      split
      · rename_i e s' m' heq
        rw [heq] at hpre; exact hpre.1
      · rename_i s' m' heq
        rw [heq] at hpre
        have hs : s' = s := hpre.2 rfl
        subst hs
        split
        · rfl
        · rename_i hn
          have hlt : (p.drop (min (s'.cap - m'.buf.length) p.length)).length < n := by
            have : p.length ≠ 0 := by simpa using hp
            simp only [List.length_drop]; omega
          exact ih _ hlt s' _ _ h rfl

theorem mwWrite_of_err (s : W) (m : MW) (p : Bytes) (h : s.writeErr.isSome) :
    (mwWrite s m p).2.1.core = s.core := by
  unfold mwWrite
  split
  · rfl
  · split
    · exact (flushFrame_of_err s m false p h).2.1
    · exact copyLoop_of_err s m p h

theorem mwWriteString_of_err (s : W) (m : MW) (p : Bytes) (h : s.writeErr.isSome) :
    (mwWriteString s m p).2.1.core = s.core := by
  unfold mwWriteString
  split
  · rfl
  · exact copyLoop_of_err s m p h

theorem mwClose_of_err (s : W) (m : MW) (h : s.writeErr.isSome) :
    (mwClose s m).1.isSome ∧ (mwClose s m).2.1.core = s.core := by
  unfold mwClose
  split
  · rename_i e he; exact ⟨rfl, rfl⟩
  · have := flushFrame_of_err s m true [] h
    exact ⟨this.1, this.2.1⟩

theorem isSome_of_core {s s' : W} (hc : s'.core = s.core) (h : s.writeErr.isSome) : s'.writeErr.isSome := by
  rw [core_writeErr hc]; exact h

theorem readFromPrep_of_err (s : W) (m : MW) (h : s.writeErr.isSome) :
    (readFromPrep s m).2.1.core = s.core ∧ ((readFromPrep s m).1 = none → (readFromPrep s m).2.1 = s) := by
  unfold readFromPrep
  split
  · have hf := flushFrame_of_err s m false [] h
    refine ⟨hf.2.1, fun hn => ?_⟩
    rw [hn] at hf; simp at hf
  · exact ⟨rfl, fun _ => rfl⟩

theorem readFromLoop_of_err (fuel : Nat) (s : W) (m : MW) (r : Src) (nn : Nat) (h : s.writeErr.isSome) :
    (readFromLoop fuel s m r nn).2.1.core = s.core := by
  induction fuel generalizing s m r nn with
  | zero => rfl
  | succ fuel ih =>
    unfold readFromLoop
    have hpre := readFromPrep_of_err s m h
    split
    · rename_i e s' m' heq
      rw [heq] at hpre; exact hpre.1
    · rename_i s' m' heq
      rw [heq] at hpre
      have hs : s' = s := hpre.2 rfl
      subst hs
      split
      · rfl
      · rfl
      · exact ih _ _ _ _ h

theorem mwReadFrom_of_err (s : W) (m : MW) (r : Src) (h : s.writeErr.isSome) :
    (mwReadFrom s m r).2.1.core = s.core := by
  unfold mwReadFrom
  split
  · rfl
  · exact readFromLoop_of_err _ s m r 0 h

theorem feed_of_err (s : W) (m : MW) (cs : List Bytes) (h : s.writeErr.isSome) :
    (feed s m cs).2.1.core = s.core := by
  induction cs generalizing s m with
  | nil => rfl
  | cons c cs ih =>
    unfold feed
    have hw := mwWrite_of_err s m c h
    split
    · rename_i e s' m' heq
      rw [heq] at hw; exact hw
    · rename_i s' m' heq
      rw [heq] at hw
      rw [ih s' m' (isSome_of_core hw h)]; exact hw

@[simp] theorem setMW_core (s : W) (i : Nat) (m : MW) : (setMW s i m).core = s.core := rfl
@[simp] theorem setHandle_core (s : W) (h : Nat) (x : Handle) : (setHandle s h x).core = s.core := rfl

theorem hWrite_of_err (s : W) (h : Nat) (p : Bytes) (dn : List Bytes) (a : Bool) (he : s.writeErr.isSome) :
    (hWrite s h p dn a).2.core = s.core := by
  unfold hWrite
  split
  · rfl
  · rename_i i _
    dsimp only
    split
    · simp only [setMW_core]; exact mwWriteString_of_err s _ p he
    · simp only [setMW_core]; exact mwWrite_of_err s _ p he
  · rename_i i fo de sent _
    split
    · rfl
    · split
      · rfl
      · dsimp only
        exact feed_of_err s _ dn he

theorem hClose_of_err (s : W) (h : Nat) (dn : List Bytes) (full : Bytes) (he : s.writeErr.isSome) :
    (hClose s h dn full).1.isSome ∧ (hClose s h dn full).2.core = s.core := by
  unfold hClose
  split
  · exact ⟨rfl, rfl⟩
  · rename_i i _
    have := mwClose_of_err s (getMW s i) he
    exact ⟨this.1, by simpa using this.2⟩
  · rename_i i fo de sent _
    split
    · exact ⟨rfl, rfl⟩
    · split
      · exact ⟨rfl, rfl⟩
      · dsimp only
        have hfeed := feed_of_err s (getMW s i) dn he
        split
        · exact ⟨rfl, by simpa using hfeed⟩
        · split
          · exact ⟨rfl, by simpa using hfeed⟩
          · split
            · exact ⟨rfl, by simpa using hfeed⟩
            · have hs' : (setHandle (setMW (feed s (getMW s i) dn).2.1 i (feed s (getMW s i) dn).2.2) h
                  (.flate i false (feed s (getMW s i) dn).1 (sent ++ dn.flatten))).core = s.core := by
                simpa using hfeed
              have hsome := isSome_of_core hs' he
              generalize hS : (setHandle (setMW (feed s (getMW s i) dn).2.1 i (feed s (getMW s i) dn).2.2) h
                  (.flate i false (feed s (getMW s i) dn).1 (sent ++ dn.flatten))) = S at hs' hsome ⊢
              have hc := mwClose_of_err S (getMW S i) hsome
              refine ⟨hc.1, ?_⟩
              simp only [setMW_core]
              rw [hc.2]; exact hs'

@[simp] theorem clearWriter_core (s : W) : (clearWriter s).core = s.core := rfl

theorem closePrev_of_err (s : W) (dnp : List Bytes) (fullp : Bytes) (he : s.writeErr.isSome) :
    (closePrev s dnp fullp).core = s.core := by
  unfold closePrev
  split
  · rename_i h _
    simpa using (hClose_of_err s h dnp fullp he).2
  · rfl

theorem beginMessage'_of_err (s : W) (t : Int) (he : s.writeErr.isSome) :
    (∃ e, (beginMessage' s t).1 = .error e) ∧ (beginMessage' s t).2 = s := by
  unfold beginMessage'
  split
  · exact ⟨⟨_, rfl⟩, rfl⟩
  · split
    · exact ⟨⟨_, rfl⟩, rfl⟩
    · rename_i hn
      rw [hn] at he; simp at he

theorem beginMessage_of_err (s : W) (t : Int) (dnp : List Bytes) (fullp : Bytes) (he : s.writeErr.isSome) :
    (∃ e, (beginMessage s t dnp fullp).1 = .error e) ∧ (beginMessage s t dnp fullp).2.core = s.core := by
  unfold beginMessage
  have hc := closePrev_of_err s dnp fullp he
  have hb := beginMessage'_of_err (closePrev s dnp fullp) t (isSome_of_core hc he)
  exact ⟨hb.1, by rw [hb.2]; exact hc⟩

theorem nextWriter_of_err (s : W) (t : Int) (dnp : List Bytes) (fullp : Bytes) (he : s.writeErr.isSome) :
    (∃ e, (nextWriter s t dnp fullp).1 = .error e) ∧ (nextWriter s t dnp fullp).2.core = s.core := by
  unfold nextWriter
  have hb := beginMessage_of_err s t dnp fullp he
  obtain ⟨⟨e, hbe⟩, hbc⟩ := hb
  split
  · rename_i e' s' heq
    rw [heq] at hbc
    exact ⟨⟨_, rfl⟩, hbc⟩
  · rename_i m s' heq
    rw [heq] at hbe; cases hbe

@[simp] theorem ctlKey_core (s : W) : (ctlKey s).2.core = s.core := by
  unfold ctlKey; split <;> rfl

theorem writeControl_of_err (s : W) (t : Int) (data : Bytes) (d : Int) (he : s.writeErr.isSome) :
    (writeControl s t data d).1.isSome ∧ (writeControl s t data d).2.core = s.core := by
  unfold writeControl
  split
  · exact ⟨rfl, rfl⟩
  · split
    · exact ⟨rfl, rfl⟩
    · dsimp only
      split
      · exact ⟨rfl, ctlKey_core s⟩
      · have hk : (ctlKey s).2.writeErr.isSome := isSome_of_core (ctlKey_core s) he
        obtain ⟨e, hee⟩ := Option.isSome_iff_exists.mp hk
        rw [connWrite_of_err _ _ _ _ _ e hee]
        exact ⟨rfl, ctlKey_core s⟩

theorem writeMessage_of_err (s : W) (t : Int) (data : Bytes) (dnp : List Bytes) (fullp : Bytes) (dn : List Bytes)
    (full : Bytes) (he : s.writeErr.isSome) :
    (writeMessage s t data dnp fullp dn full).1.isSome ∧ (writeMessage s t data dnp fullp dn full).2.core = s.core := by
  unfold writeMessage
  split
  · have hb := beginMessage_of_err s t dnp fullp he
    obtain ⟨⟨e, hbe⟩, hbc⟩ := hb
    split
    · rename_i e' s' heq
      rw [heq] at hbc; exact ⟨rfl, hbc⟩
    · rename_i m s' heq
      rw [heq] at hbe; cases hbe
  · have hb := nextWriter_of_err s t dnp fullp he
    obtain ⟨⟨e, hbe⟩, hbc⟩ := hb
    split
    · rename_i e' s' heq
      rw [heq] at hbc; exact ⟨rfl, hbc⟩
    · rename_i m s' heq
      rw [heq] at hbe; cases hbe

theorem writeJSON_of_err (s : W) (enc : Bytes) (dnp : List Bytes) (fullp : Bytes) (dn : List Bytes)
    (full : Bytes) (he : s.writeErr.isSome) :
    (writeJSON s enc dnp fullp dn full).1.isSome ∧ (writeJSON s enc dnp fullp dn full).2.core = s.core := by
  unfold writeJSON
  have hb := nextWriter_of_err s 1 dnp fullp he
  obtain ⟨⟨e, hbe⟩, hbc⟩ := hb
  split
  · rename_i e' s' heq
    rw [heq] at hbc; exact ⟨rfl, hbc⟩
  · rename_i m s' heq
    rw [heq] at hbe; cases hbe

theorem writePreparedImage_of_err (s : W) (t : Int) (img : Bytes) (dnp : List Bytes) (fullp : Bytes)
    (he : s.writeErr.isSome) :
    (writePreparedImage s t img dnp fullp).1.isSome ∧ (writePreparedImage s t img dnp fullp).2.core = s.core := by
  unfold writePreparedImage
  dsimp only
  have hc : (if isData t then closePrev s dnp fullp else s).core = s.core := by
    split
    · exact closePrev_of_err s dnp fullp he
    · rfl
  obtain ⟨e, hee⟩ := Option.isSome_iff_exists.mp (isSome_of_core hc he)
  rw [connWrite_of_err _ _ _ _ _ e hee]
  exact ⟨rfl, hc⟩

theorem hReadFrom_of_err (s : W) (h : Nat) (r : Src) (he : s.writeErr.isSome) :
    (hReadFrom s h r).2.core = s.core := by
  unfold hReadFrom
  split
  · rename_i i _
    simpa using mwReadFrom_of_err s (getMW s i) r he
  · rfl

/-- fail-stop core: once the sticky write error is set, no operation of the write API reaches
    the transport or changes the error -/
theorem applyOp_of_err (s : W) (op : Op) (he : s.writeErr.isSome) : (applyOp s op).2.core = s.core := by
  cases op with
  | nextWriter t dnp fullp =>
    have := (nextWriter_of_err s t dnp fullp he).2
    simp only [applyOp]
    split
    · rename_i heq; rw [heq] at this; exact this
    · rename_i heq; rw [heq] at this; exact this
  | write h p dn a => exact hWrite_of_err s h p dn a he
  | readFrom h r => exact hReadFrom_of_err s h r he
  | close h dn full => exact (hClose_of_err s h dn full he).2
  | writeMessage t data dnp fullp dn full => exact (writeMessage_of_err s t data dnp fullp dn full he).2
  | writeJSON enc dnp fullp dn full => exact (writeJSON_of_err s enc dnp fullp dn full he).2
  | writeControl t data d => exact (writeControl_of_err s t data d he).2
  | writePrepared t img dnp fullp => exact (writePreparedImage_of_err s t img dnp fullp he).2
  | setWriteDeadline d => rfl
  | enableWriteCompression b => rfl
  | setCompressionLevel l =>
    simp only [applyOp, setCompressionLevel]; split <;> rfl

theorem run_of_err (s : W) (ops : List Op) (he : s.writeErr.isSome) : (run s ops).core = s.core := by
  induction ops generalizing s with
  | nil => rfl
  | cons op ops ih =>
    unfold run
    have h1 := applyOp_of_err s op he
    rw [ih _ (isSome_of_core h1 he), h1]

end WS
