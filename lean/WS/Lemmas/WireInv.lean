import WS.Model.Writer
import WS.Spec.Frame
import WS.Lemmas.Mask
import WS.Lemmas.Writer
import WS.Lemmas.Codec
/-
  Wire invariant of the writer model (C02 / C10 core).
  For every program over the write API, every fault script and every environment answer, the bytes
  accepted by the transport are a sequence of whole encoded frames followed by at most one
  incomplete write, and an incomplete write exists only if the sticky error is set.

-/
namespace WS.WireInv
open WS WS.Codec

/-- `f` is one frame as the writer encodes it for this role -/
def IsFrame (isServer : Bool) (f : Bytes) : Prop :=
  ∃ b0 key payload, b0 < 256 ∧ payload.length < 2 ^ 63 ∧ f = encode isServer b0 key payload

/-- a connection as the constructor leaves it (`newW`), with any fault script / key source / pool -/
def Fresh (s : W) : Prop :=
  s.wire = [] ∧ s.writeErr = none ∧ s.mws = [] ∧ s.handles = [] ∧ s.writer = none ∧
  maxFrameHeaderSize < s.wbufLen ∧ s.wbufLen < 2 ^ 40

/-- side conditions on the operations of a program: payload sizes are below 2^40 (so that frame
    lengths stay below 2^63) and a prepared image is a sequence of frames for this role -/
def OpOK (isServer : Bool) : Op → Prop
  | .write _ p dn _ => p.length < 2 ^ 40 ∧ ∀ c ∈ dn, c.length < 2 ^ 40
  | .readFrom _ r => ∀ c ∈ r.chunks, c.length < 2 ^ 40
  | .close _ dn _ => ∀ c ∈ dn, c.length < 2 ^ 40
  | .writeMessage _ data dnp _ dn _ => data.length < 2 ^ 40 ∧ (∀ c ∈ dnp, c.length < 2 ^ 40) ∧ ∀ c ∈ dn, c.length < 2 ^ 40
  | .writeJSON enc dnp _ dn _ => enc.length < 2 ^ 40 ∧ (∀ c ∈ dnp, c.length < 2 ^ 40) ∧ ∀ c ∈ dn, c.length < 2 ^ 40
  | .nextWriter _ dnp _ => ∀ c ∈ dnp, c.length < 2 ^ 40
  | .writePrepared t img dnp _ => (∃ fs : List Bytes, (∀ f ∈ fs, IsFrame isServer f) ∧ img = fs.flatten) ∧
      (isData t = true → ∀ c ∈ dnp, c.length < 2 ^ 40)
  | _ => True

/-- whole frames, then at most one incomplete write (a strict prefix of a frame sequence) -/
def Decomposes (isServer : Bool) (wire : Bytes) (clean : Bool) : Prop :=
  ∃ (fs : List Bytes) (tail : Bytes), wire = fs.flatten ++ tail ∧ (∀ f ∈ fs, IsFrame isServer f) ∧
    (tail = [] ∨ (clean = false ∧ ∃ (gs : List Bytes) (more : Bytes), (∀ g ∈ gs, IsFrame isServer g) ∧ more ≠ [] ∧ tail ++ more = gs.flatten))

/-! ## helper lemmas -/

/-- a sequence of whole frames -/
def Whole (sv : Bool) (w : Bytes) : Prop := ∃ fs : List Bytes, w = fs.flatten ∧ ∀ f ∈ fs, IsFrame sv f

theorem Whole.nil (sv : Bool) : Whole sv [] := ⟨[], rfl, by simp⟩

theorem Whole.single {sv : Bool} {f : Bytes} (h : IsFrame sv f) : Whole sv f :=
  ⟨[f], by simp, by simpa using h⟩

theorem Whole.append {sv : Bool} {a b : Bytes} (ha : Whole sv a) (hb : Whole sv b) : Whole sv (a ++ b) := by
  obtain ⟨fs, rfl, hfs⟩ := ha
  obtain ⟨gs, rfl, hgs⟩ := hb
  refine ⟨fs ++ gs, by simp, ?_⟩
  intro f hf
  rcases List.mem_append.mp hf with h | h
  · exact hfs f h
  · exact hgs f h

theorem Decomposes.of_whole {sv : Bool} {w : Bytes} (c : Bool) (h : Whole sv w) : Decomposes sv w c := by
  obtain ⟨fs, rfl, hfs⟩ := h
  exact ⟨fs, [], by simp, hfs, Or.inl rfl⟩

theorem Decomposes.whole {sv : Bool} {w : Bytes} (h : Decomposes sv w true) : Whole sv w := by
  obtain ⟨fs, tail, rfl, hfs, ht⟩ := h
  rcases ht with rfl | ⟨hc, _⟩
  · exact ⟨fs, by simp, hfs⟩
  · cases hc

theorem Decomposes.mono {sv : Bool} {w : Bytes} {c c' : Bool} (hcc : c' = true → c = true)
    (h : Decomposes sv w c) : Decomposes sv w c' := by
  obtain ⟨fs, tail, rfl, hfs, ht⟩ := h
  refine ⟨fs, tail, rfl, hfs, ?_⟩
  rcases ht with h | ⟨hc, h⟩
  · exact Or.inl h
  · refine Or.inr ⟨?_, h⟩
    cases c' with
    | false => rfl
    | true => rw [hcc rfl] at hc; cases hc

/-- whole frames followed by a prefix of whole frames -/
theorem Decomposes.of_prefix {sv : Bool} {w p q : Bytes} (hw : Whole sv w) (hb : Whole sv (p ++ q)) :
    Decomposes sv (w ++ p) false := by
  by_cases hq : q = []
  · subst hq
    rw [List.append_nil] at hb
    exact Decomposes.of_whole _ (hw.append hb)
  · obtain ⟨fs, rfl, hfs⟩ := hw
    obtain ⟨gs, hg, hgs⟩ := hb
    exact ⟨fs, p, rfl, hfs, Or.inr ⟨rfl, gs, q, hgs, hq, hg⟩⟩


/-! ### the state invariant -/

/-- per-messageWriter invariant: opcode nibble and buffered bytes are bounded -/
def GoodMW (L : Nat) (m : MW) : Prop := m.ft < 16 ∧ m.buf.length ≤ L - maxFrameHeaderSize

/-- configuration is unchanged, all messageWriters are good -/
structure Base (sv : Bool) (L : Nat) (F : List (Nat × Fault)) (s : W) : Prop where
  isv : s.isServer = sv
  len : s.wbufLen = L
  flt : s.faults = F
  mws : ∀ m ∈ s.mws, GoodMW L m

structure Inv (sv : Bool) (L : Nat) (F : List (Nat × Fault)) (s : W) : Prop where
  base : Base sv L F s
  bound : L < 2 ^ 40
  wire : Decomposes sv s.wire (s.writeErr.isNone || F.isEmpty)

theorem Inv.of_whole {sv L F} {s : W} (hb : Base sv L F s) (hL : L < 2 ^ 40) (hw : Whole sv s.wire) :
    Inv sv L F s := ⟨hb, hL, Decomposes.of_whole _ hw⟩

theorem Inv.whole_of_none {sv L F} {s : W} (h : Inv sv L F s) (hn : s.writeErr = none) : Whole sv s.wire := by
  have := h.wire
  rw [hn] at this
  exact Decomposes.whole (by simpa using this)

theorem faults_of_lookup {s : W} {f : Fault} (h : lookupFault s = some f) : s.faults.isEmpty = false := by
  unfold lookupFault at h
  cases hf : s.faults with
  | nil => rw [hf] at h; simp at h
  | cons _ _ => rfl

theorem tSetWD_spec {sv L F} (s : W) (d : Int) (hb : Base sv L F s) :
    Base sv L F (tSetWD s d).2 ∧ (tSetWD s d).2.wire = s.wire ∧ (tSetWD s d).2.writeErr = s.writeErr := by
  unfold tSetWD
  dsimp only
  split <;> exact ⟨⟨hb.isv, hb.len, hb.flt, hb.mws⟩, rfl, rfl⟩

theorem tWrite_spec {sv L F} (s : W) (b : Bytes) (hb : Base sv L F s) :
    Base sv L F (tWrite s b).2 ∧ (tWrite s b).2.writeErr = s.writeErr ∧
    ∃ p q, p ++ q = b ∧ (tWrite s b).2.wire = s.wire ++ p ∧
      ((tWrite s b).1 = none → q = []) ∧ ((tWrite s b).1.isSome → F.isEmpty = false) := by
  unfold tWrite
  dsimp only
  split
  · exact ⟨⟨hb.isv, hb.len, hb.flt, hb.mws⟩, rfl, b, [], by simp, rfl, fun _ => rfl, fun h => by cases h⟩
  · rename_i id heq
    have := faults_of_lookup heq
    rw [hb.flt] at this
    exact ⟨⟨hb.isv, hb.len, hb.flt, hb.mws⟩, rfl, [], b, by simp, by simp [emit], fun h => (by cases h), fun _ => this⟩
  · rename_i n id heq
    have := faults_of_lookup heq
    rw [hb.flt] at this
    exact ⟨⟨hb.isv, hb.len, hb.flt, hb.mws⟩, rfl, b.take (min n b.length), b.drop (min n b.length),
      List.take_append_drop _ _, rfl, fun h => (by cases h), fun _ => this⟩

theorem writeBufs_spec {sv L F} (s : W) (b0 b1 : Bytes) (hb : Base sv L F s) :
    Base sv L F (writeBufs s b0 b1).2 ∧ (writeBufs s b0 b1).2.writeErr = s.writeErr ∧
    ∃ p q, p ++ q = b0 ++ b1 ∧ (writeBufs s b0 b1).2.wire = s.wire ++ p ∧
      ((writeBufs s b0 b1).1 = none → q = []) ∧ ((writeBufs s b0 b1).1.isSome → F.isEmpty = false) := by
  unfold writeBufs
  split
  · rename_i h1
    have h1' : b1 = [] := by simpa using h1
    subst h1'
    simpa using tWrite_spec s b0 hb
  · have h0 := tWrite_spec s b0 hb
    split
    · rename_i e s1 heq
      rw [heq] at h0
      obtain ⟨hb1, he1, p, q, hpq, hw, hn, hs⟩ := h0
      exact ⟨hb1, he1, p, q ++ b1, by rw [← hpq]; simp, hw, fun h => (by cases h), hs⟩
    · rename_i s1 heq
      rw [heq] at h0
      obtain ⟨hb1, he1, p, q, hpq, hw, hn, hs⟩ := h0
      have hq : q = [] := hn rfl
      subst hq
      rw [List.append_nil] at hpq
      subst hpq
      have h2 := tWrite_spec s1 b1 hb1
      obtain ⟨hb2, he2, p2, q2, hpq2, hw2, hn2, hs2⟩ := h2
      refine ⟨hb2, he2.trans he1, p ++ p2, q2, by rw [← hpq2]; simp, ?_, hn2, hs2⟩
      rw [hw2]; dsimp only at hw; rw [hw]; simp

theorem Inv.writeFatal {sv L F} {s : W} (e : WErr) (h : Inv sv L F s) : Inv sv L F (writeFatal s e) := by
  unfold WS.writeFatal
  split
  · refine ⟨⟨h.base.isv, h.base.len, h.base.flt, h.base.mws⟩, h.bound, ?_⟩
    exact Decomposes.of_whole _ (h.whole_of_none (by assumption))
  · exact h

theorem writeFatal_inv_partial {sv L F} {s : W} (e : WErr) (hb : Base sv L F s) (hL : L < 2 ^ 40)
    (hw : Decomposes sv s.wire false) (hF : F.isEmpty = false) : Inv sv L F (writeFatal s e) := by
  have hs := writeFatal_isSome s e
  refine ⟨?_, hL, ?_⟩
  · unfold WS.writeFatal; split
    · exact ⟨hb.isv, hb.len, hb.flt, hb.mws⟩
    · exact hb
  · have hwire : (WS.writeFatal s e).wire = s.wire := by
      unfold WS.writeFatal; split <;> rfl
    rw [hwire]
    exact hw.mono (by
      intro hc
      rw [hF] at hc
      cases hx : (WS.writeFatal s e).writeErr with
      | none => rw [hx] at hs; cases hs
      | some _ => rw [hx] at hc; simp at hc)

/-- Conn.write of a sequence of whole frames keeps the invariant -/
theorem connWrite_inv {sv L F} (s : W) (ft d : Int) (b0 b1 : Bytes) (h : Inv sv L F s)
    (hfr : Whole sv (b0 ++ b1)) : Inv sv L F (connWrite s ft d b0 b1).2 := by
  unfold connWrite
  split
  · exact h
  · rename_i hnone
    have hw0 := h.whole_of_none hnone
    have h1 := tSetWD_spec s d h.base
    split
    · rename_i e s1 heq
      rw [heq] at h1
      exact (Inv.of_whole h1.1 h.bound (by rw [h1.2.1]; exact hw0)).writeFatal e
    · rename_i s1 heq
      rw [heq] at h1
      obtain ⟨hb1, hw1, he1⟩ := h1
      dsimp only at hw1 he1 hb1
      have h2 := writeBufs_spec s1 b0 b1 hb1
      split
      · rename_i e s2 heq2
        rw [heq2] at h2
        obtain ⟨hb2, he2, p, q, hpq, hw2, hn2, hs2⟩ := h2
        dsimp only at hw2 he2 hb2 hs2
        refine writeFatal_inv_partial e hb2 h.bound ?_ (hs2 rfl)
        rw [hw2, hw1]
        exact Decomposes.of_prefix hw0 (by rw [hpq]; exact hfr)
      · rename_i s2 heq2
        rw [heq2] at h2
        obtain ⟨hb2, he2, p, q, hpq, hw2, hn2, hs2⟩ := h2
        dsimp only at hw2 he2 hb2 hn2
        have hq := hn2 rfl
        subst hq
        rw [List.append_nil] at hpq
        subst hpq
        have hI : Inv sv L F s2 := Inv.of_whole hb2 h.bound (by rw [hw2, hw1]; exact hw0.append hfr)
        split
        · exact hI.writeFatal _
        · exact hI

theorem Inv.congr {sv L F} {s s' : W} (h : Inv sv L F s) (h1 : s'.isServer = s.isServer)
    (h2 : s'.wbufLen = s.wbufLen) (h3 : s'.faults = s.faults) (h4 : s'.mws = s.mws)
    (h5 : s'.wire = s.wire) (h6 : s'.writeErr = s.writeErr) : Inv sv L F s' :=
  ⟨⟨h1.trans h.base.isv, h2.trans h.base.len, h3.trans h.base.flt, by rw [h4]; exact h.base.mws⟩, h.bound,
    by rw [h5, h6]; exact h.wire⟩

theorem Inv.emit {sv L F} {s : W} (e : Ev) (h : Inv sv L F s) : Inv sv L F (emit s e) :=
  h.congr rfl rfl rfl rfl rfl rfl

theorem Inv.newKey {sv L F} {s : W} (h : Inv sv L F s) : Inv sv L F (newKey s).2 :=
  h.congr rfl rfl rfl rfl rfl rfl

theorem Inv.poolPut {sv L F} {s : W} (h : Inv sv L F s) : Inv sv L F (poolPut s) := by
  unfold WS.poolPut; split <;> exact h.congr rfl rfl rfl rfl rfl rfl

theorem Inv.poolGet {sv L F} {s : W} (h : Inv sv L F s) : Inv sv L F (poolGet s) := by
  unfold WS.poolGet; split <;> exact h.congr rfl rfl rfl rfl rfl rfl

theorem Inv.endMessage {sv L F} {s : W} (m : MW) (e : WErr) (h : Inv sv L F s) :
    Inv sv L F (endMessage s m e).1 := by
  unfold WS.endMessage
  split
  · exact h
  · dsimp only
    have h' : Inv sv L F { s with writer := none } := h.congr rfl rfl rfl rfl rfl rfl
    split
    · exact h'.poolPut
    · exact h'

theorem GoodMW.endMessage {L} (s : W) {m : MW} (e : WErr) (hm : GoodMW L m) : GoodMW L (endMessage s m e).2 := by
  unfold WS.endMessage
  split
  · exact hm
  · exact hm

theorem header_server_key (b0 len : Nat) (k k' : Key) : header true b0 len k = header true b0 len k' := by
  simp [header]

theorem b0_lt (m : MW) (final : Bool) (h : m.ft < 16) :
    m.ft + (if final then Gen.finalBit.toNat else 0) + (if m.compress then Gen.rsv1Bit.toNat else 0) < 256 := by
  have h1 : Gen.finalBit.toNat = 128 := by decide
  have h2 : Gen.rsv1Bit.toNat = 64 := by decide
  rw [h1, h2]
  split <;> split <;> omega

theorem frameWrite_inv {sv L F} (s : W) (m : MW) (final : Bool) (extra : Bytes) (h : Inv sv L F s)
    (hm : GoodMW L m) (he : extra.length < 2 ^ 40) : Inv sv L F (frameWrite s m final extra).2 := by
  have hL := h.bound
  have hb0 := b0_lt m final hm.1
  have hbuf := hm.2
  unfold frameWrite
  dsimp only
  split
  · rename_i hsv
    have hsv' : sv = true := by rw [← h.base.isv]; exact hsv
    subst hsv'
    apply connWrite_inv _ _ _ _ _ h
    refine Whole.single ⟨_, default, m.buf ++ extra, hb0, ?_, ?_⟩
    · rw [List.length_append]; omega
    · simp [encode, List.length_append]
  · rename_i hsv
    have hsv' : sv = false := by rw [← h.base.isv]; simpa using hsv
    subst hsv'
    split
    · exact h.newKey.writeFatal _
    · rename_i hex
      have hex' : extra = [] := by simpa using hex
      subst hex'
      apply connWrite_inv _ _ _ _ _ h.newKey
      refine Whole.single ⟨_, (WS.newKey s).1, m.buf, hb0, by omega, ?_⟩
      simp [encode]

theorem flushFrame_inv {sv L F} (s : W) (m : MW) (final : Bool) (extra : Bytes) (h : Inv sv L F s)
    (hm : GoodMW L m) (he : extra.length < 2 ^ 40) :
    Inv sv L F (flushFrame s m final extra).2.1 ∧ GoodMW L (flushFrame s m final extra).2.2 := by
  have hf := frameWrite_inv s m final extra h hm he
  have hm' : GoodMW L { m with compress := false } := ⟨hm.1, hm.2⟩
  unfold flushFrame
  split
  · exact ⟨h.endMessage _ _, hm.endMessage _ _⟩
  · split
    · rename_i e s' heq
      rw [heq] at hf
      exact ⟨hf.endMessage _ _, hm'.endMessage _ _⟩
    · rename_i s' heq
      rw [heq] at hf
      split
      · exact ⟨hf.endMessage _ _, hm'.endMessage _ _⟩
      · exact ⟨hf, by show 0 < 16; decide, by simp⟩

theorem ncopyPrep_inv {sv L F} (s : W) (m : MW) (h : Inv sv L F s) (hm : GoodMW L m) :
    Inv sv L F (ncopyPrep s m).2.1 ∧ GoodMW L (ncopyPrep s m).2.2 := by
  unfold ncopyPrep
  split
  · exact flushFrame_inv s m false [] h hm (by simp)
  · exact ⟨h, hm⟩

theorem copyLoop_inv {sv L F} (s : W) (m : MW) (p : Bytes) (h : Inv sv L F s) (hm : GoodMW L m) :
    Inv sv L F (copyLoop s m p).2.1 ∧ GoodMW L (copyLoop s m p).2.2 := by
  induction hl : p.length using Nat.strongRecOn generalizing s m p with
  | _ n ih =>
    unfold copyLoop
    split
    · exact ⟨h, hm⟩
    · rename_i hp
      have hpre := ncopyPrep_inv s m h hm
      split
      · rename_i e s' m' heq
        rw [heq] at hpre; exact hpre
      · rename_i s' m' heq
        rw [heq] at hpre
        obtain ⟨hs', hm'⟩ := hpre
        dsimp only at hs' hm'
        split
        · exact ⟨hs', hm'⟩
        · rename_i hn
          have hlt : (p.drop (min (s'.cap - m'.buf.length) p.length)).length < n := by
            have : p.length ≠ 0 := by simpa using hp
            simp only [List.length_drop]; omega
          refine ih _ hlt s' _ _ hs' ?_ rfl
          refine ⟨hm'.1, ?_⟩
          have hcap : s'.cap = L - maxFrameHeaderSize := by unfold W.cap; rw [hs'.base.len]
          have := hm'.2
          simp only [List.length_append, List.length_take]
          omega

theorem mwWrite_inv {sv L F} (s : W) (m : MW) (p : Bytes) (h : Inv sv L F s) (hm : GoodMW L m)
    (hp : p.length < 2 ^ 40) :
    Inv sv L F (mwWrite s m p).2.1 ∧ GoodMW L (mwWrite s m p).2.2 := by
  unfold mwWrite
  split
  · exact ⟨h, hm⟩
  · split
    · exact flushFrame_inv s m false p h hm hp
    · exact copyLoop_inv s m p h hm

theorem mwWriteString_inv {sv L F} (s : W) (m : MW) (p : Bytes) (h : Inv sv L F s) (hm : GoodMW L m) :
    Inv sv L F (mwWriteString s m p).2.1 ∧ GoodMW L (mwWriteString s m p).2.2 := by
  unfold mwWriteString
  split
  · exact ⟨h, hm⟩
  · exact copyLoop_inv s m p h hm

theorem mwClose_inv {sv L F} (s : W) (m : MW) (h : Inv sv L F s) (hm : GoodMW L m) :
    Inv sv L F (mwClose s m).2.1 ∧ GoodMW L (mwClose s m).2.2 := by
  unfold mwClose
  split
  · exact ⟨h, hm⟩
  · exact flushFrame_inv s m true [] h hm (by simp)

theorem readFromPrep_inv {sv L F} (s : W) (m : MW) (h : Inv sv L F s) (hm : GoodMW L m) :
    Inv sv L F (readFromPrep s m).2.1 ∧ GoodMW L (readFromPrep s m).2.2 := by
  unfold readFromPrep
  split
  · exact flushFrame_inv s m false [] h hm (by simp)
  · exact ⟨h, hm⟩

theorem Src.read_length (r : Src) (room : Nat) : (r.read room).1.length ≤ room := by
  unfold Src.read
  split
  · simp
  · dsimp only
    split
    · split <;> (simp only [List.length_take]; omega)
    · simp only [List.length_take]; omega

theorem readFromLoop_inv {sv L F} (fuel : Nat) (s : W) (m : MW) (r : Src) (nn : Nat) (h : Inv sv L F s)
    (hm : GoodMW L m) :
    Inv sv L F (readFromLoop fuel s m r nn).2.1 ∧ GoodMW L (readFromLoop fuel s m r nn).2.2 := by
  induction fuel generalizing s m r nn with
  | zero => exact ⟨h, hm⟩
  | succ fuel ih =>
    unfold readFromLoop
    have hpre := readFromPrep_inv s m h hm
    split
    · rename_i e s' m' heq
      rw [heq] at hpre; exact hpre
    · rename_i s' m' heq
      rw [heq] at hpre
      obtain ⟨hs', hm'⟩ := hpre
      dsimp only at hs' hm'
      have hcap : s'.cap = L - maxFrameHeaderSize := by unfold W.cap; rw [hs'.base.len]
      have hrd := Src.read_length r (s'.cap - m'.buf.length)
      have hgood : ∀ bs : Bytes, bs.length ≤ s'.cap - m'.buf.length → GoodMW L { m' with buf := m'.buf ++ bs } := by
        intro bs hbs
        refine ⟨hm'.1, ?_⟩
        have := hm'.2
        simp only [List.length_append]
        omega
      split
      · rename_i bs _ heq2
        rw [heq2] at hrd
        exact ⟨hs', hgood bs hrd⟩
      · rename_i bs id _ heq2
        rw [heq2] at hrd
        exact ⟨hs', hgood bs hrd⟩
      · rename_i bs r' heq2
        rw [heq2] at hrd
        exact ih _ _ _ _ hs' (hgood bs hrd)

theorem mwReadFrom_inv {sv L F} (s : W) (m : MW) (r : Src) (h : Inv sv L F s) (hm : GoodMW L m) :
    Inv sv L F (mwReadFrom s m r).2.1 ∧ GoodMW L (mwReadFrom s m r).2.2 := by
  unfold mwReadFrom
  split
  · exact ⟨h, hm⟩
  · exact readFromLoop_inv _ s m r 0 h hm

theorem feed_inv {sv L F} (s : W) (m : MW) (cs : List Bytes) (h : Inv sv L F s) (hm : GoodMW L m)
    (hcs : ∀ c ∈ cs, c.length < 2 ^ 40) :
    Inv sv L F (feed s m cs).2.1 ∧ GoodMW L (feed s m cs).2.2 := by
  induction cs generalizing s m with
  | nil => exact ⟨h, hm⟩
  | cons c cs ih =>
    unfold feed
    have hw := mwWrite_inv s m c h hm (hcs c (by simp))
    split
    · rename_i e s' m' heq
      rw [heq] at hw; exact hw
    · rename_i s' m' heq
      rw [heq] at hw
      exact ih s' m' hw.1 hw.2 (fun c' hc' => hcs c' (by simp [hc']))

theorem GoodMW.default (L : Nat) : GoodMW L {} := ⟨by show 0 < 16; decide, by simp⟩

theorem getMW_good {sv L F} {s : W} (h : Inv sv L F s) (i : Nat) : GoodMW L (getMW s i) := by
  unfold getMW
  rw [List.getD_eq_getElem?_getD]
  cases hi : s.mws[i]? with
  | none => exact GoodMW.default L
  | some m => exact h.base.mws m (List.mem_of_getElem? hi)

theorem Inv.setMW {sv L F} {s : W} (i : Nat) {m : MW} (h : Inv sv L F s) (hm : GoodMW L m) :
    Inv sv L F (setMW s i m) := by
  refine ⟨⟨h.base.isv, h.base.len, h.base.flt, ?_⟩, h.bound, h.wire⟩
  intro x hx
  rcases List.mem_or_eq_of_mem_set hx with hx | rfl
  · exact h.base.mws x hx
  · exact hm

theorem Inv.setHandle {sv L F} {s : W} (j : Nat) (x : Handle) (h : Inv sv L F s) :
    Inv sv L F (setHandle s j x) := h.congr rfl rfl rfl rfl rfl rfl

theorem Inv.clearWriter {sv L F} {s : W} (h : Inv sv L F s) : Inv sv L F (clearWriter s) :=
  h.congr rfl rfl rfl rfl rfl rfl

theorem hWrite_inv {sv L F} (s : W) (j : Nat) (p : Bytes) (dn : List Bytes) (a : Bool) (h : Inv sv L F s)
    (hp : p.length < 2 ^ 40) (hdn : ∀ c ∈ dn, c.length < 2 ^ 40) : Inv sv L F (hWrite s j p dn a).2 := by
  unfold hWrite
  split
  · exact h
  · rename_i i _
    dsimp only
    split
    · have := mwWriteString_inv s (getMW s i) p h (getMW_good h i)
      exact this.1.setMW i this.2
    · have := mwWrite_inv s (getMW s i) p h (getMW_good h i) hp
      exact this.1.setMW i this.2
  · rename_i i fo de sent _
    split
    · exact h
    · split
      · exact h
      · dsimp only
        have := feed_inv s (getMW s i) dn h (getMW_good h i) hdn
        exact (this.1.setMW i this.2).setHandle _ _

theorem hClose_inv {sv L F} (s : W) (j : Nat) (dn : List Bytes) (full : Bytes) (h : Inv sv L F s)
    (hdn : ∀ c ∈ dn, c.length < 2 ^ 40) : Inv sv L F (hClose s j dn full).2 := by
  unfold hClose
  split
  · exact h
  · rename_i i _
    have := mwClose_inv s (getMW s i) h (getMW_good h i)
    exact this.1.setMW i this.2
  · rename_i i fo de sent _
    split
    · exact h
    · split
      · exact h.setHandle _ _
      · dsimp only
        have hfeed := feed_inv s (getMW s i) dn h (getMW_good h i) hdn
        have hS : Inv sv L F (setHandle (setMW (feed s (getMW s i) dn).2.1 i (feed s (getMW s i) dn).2.2) j
                  (.flate i false (feed s (getMW s i) dn).1 (sent ++ dn.flatten))) :=
          (hfeed.1.setMW i hfeed.2).setHandle _ _
        split
        · exact hS
        · split
          · exact hS
          · split
            · exact hS
            · generalize (setHandle (setMW (feed s (getMW s i) dn).2.1 i (feed s (getMW s i) dn).2.2) j
                  (.flate i false (feed s (getMW s i) dn).1 (sent ++ dn.flatten))) = S at hS ⊢
              have hc := mwClose_inv S (getMW S i) hS (getMW_good hS i)
              exact hc.1.setMW i hc.2

theorem closePrev_inv {sv L F} (s : W) (dnp : List Bytes) (fullp : Bytes) (h : Inv sv L F s)
    (hdn : ∀ c ∈ dnp, c.length < 2 ^ 40) : Inv sv L F (closePrev s dnp fullp) := by
  unfold closePrev
  split
  · exact (hClose_inv s _ dnp fullp h hdn).clearWriter
  · exact h

theorem Inv.ensureBuf {sv L F} {s : W} (h : Inv sv L F s) : Inv sv L F (ensureBuf s) := by
  unfold WS.ensureBuf
  split
  · exact h.poolGet
  · exact h

theorem toNat_lt_of_op (t : Int) (h : ¬ (!isControl t && !isData t) = true) : t.toNat < 16 := by
  simp only [isControl, isData, Gen.CloseMessage, Gen.PingMessage, Gen.PongMessage, Gen.TextMessage,
    Gen.BinaryMessage] at h
  simp at h
  omega

theorem beginMessage'_inv {sv L F} (s : W) (t : Int) (h : Inv sv L F s) :
    Inv sv L F (beginMessage' s t).2 ∧ ∀ m, (beginMessage' s t).1 = .ok m → GoodMW L m := by
  unfold beginMessage'
  split
  · exact ⟨h, fun m hm => by cases hm⟩
  · rename_i ht
    split
    · exact ⟨h, fun m hm => by cases hm⟩
    · refine ⟨h.ensureBuf, fun m hm => ?_⟩
      cases hm
      exact ⟨toNat_lt_of_op t ht, by simp⟩

theorem beginMessage_inv {sv L F} (s : W) (t : Int) (dnp : List Bytes) (fullp : Bytes) (h : Inv sv L F s)
    (hdn : ∀ c ∈ dnp, c.length < 2 ^ 40) :
    Inv sv L F (beginMessage s t dnp fullp).2 ∧ ∀ m, (beginMessage s t dnp fullp).1 = .ok m → GoodMW L m := by
  unfold beginMessage
  exact beginMessage'_inv _ t (closePrev_inv s dnp fullp h hdn)

theorem Inv.push {sv L F} {s s' : W} {m : MW} (h : Inv sv L F s) (hm : GoodMW L m)
    (h1 : s'.isServer = s.isServer) (h2 : s'.wbufLen = s.wbufLen) (h3 : s'.faults = s.faults)
    (h4 : s'.mws = s.mws ++ [m]) (h5 : s'.wire = s.wire) (h6 : s'.writeErr = s.writeErr) : Inv sv L F s' := by
  refine ⟨⟨h1.trans h.base.isv, h2.trans h.base.len, h3.trans h.base.flt, ?_⟩, h.bound,
    by rw [h5, h6]; exact h.wire⟩
  intro x hx
  rw [h4] at hx
  rcases List.mem_append.mp hx with hx | hx
  · exact h.base.mws x hx
  · rw [List.mem_singleton] at hx; subst hx; exact hm

theorem nextWriter_inv {sv L F} (s : W) (t : Int) (dnp : List Bytes) (fullp : Bytes) (h : Inv sv L F s)
    (hdn : ∀ c ∈ dnp, c.length < 2 ^ 40) : Inv sv L F (nextWriter s t dnp fullp).2 := by
  unfold nextWriter
  have hb := beginMessage_inv s t dnp fullp h hdn
  split
  · rename_i e s' heq
    rw [heq] at hb; exact hb.1
  · rename_i m s' heq
    rw [heq] at hb
    obtain ⟨hs', hm'⟩ := hb
    have hm := hm' m rfl
    dsimp only
    split
    · exact hs'.push (m := { m with compress := true }) ⟨hm.1, hm.2⟩ rfl rfl rfl rfl rfl rfl
    · exact hs'.push hm rfl rfl rfl rfl rfl rfl

theorem writeMessage_inv {sv L F} (s : W) (t : Int) (data : Bytes) (dnp : List Bytes) (fullp : Bytes)
    (dn : List Bytes) (full : Bytes) (h : Inv sv L F s) (hd : data.length < 2 ^ 40)
    (hdnp : ∀ c ∈ dnp, c.length < 2 ^ 40) (hdn : ∀ c ∈ dn, c.length < 2 ^ 40) :
    Inv sv L F (writeMessage s t data dnp fullp dn full).2 := by
  unfold writeMessage
  split
  · have hb := beginMessage_inv s t dnp fullp h hdnp
    split
    · rename_i e s' heq
      rw [heq] at hb; exact hb.1
    · rename_i m s' heq
      rw [heq] at hb
      obtain ⟨hs', hm'⟩ := hb
      have hm := hm' m rfl
      dsimp only at hs' ⊢
      have hcap : s'.cap = L - maxFrameHeaderSize := by unfold W.cap; rw [hs'.base.len]
      refine (flushFrame_inv s' { m with buf := data.take (min s'.cap data.length) } true _ hs' ⟨hm.1, ?_⟩ ?_).1
      · simp only [List.length_take]; omega
      · simp only [List.length_drop]; omega
  · have hn := nextWriter_inv s t dnp fullp h hdnp
    split
    · rename_i e s' heq
      rw [heq] at hn; exact hn
    · rename_i j s' heq
      rw [heq] at hn
      dsimp only at hn
      have hw := hWrite_inv s' j data dn false hn hd hdn
      split
      · rename_i heq2
        rw [heq2] at hw; exact hw
      · rename_i heq2
        rw [heq2] at hw
        exact hClose_inv _ j [] full hw (by simp)

theorem writeJSON_inv {sv L F} (s : W) (enc : Bytes) (dnp : List Bytes) (fullp : Bytes)
    (dn : List Bytes) (full : Bytes) (h : Inv sv L F s) (hd : enc.length < 2 ^ 40)
    (hdnp : ∀ c ∈ dnp, c.length < 2 ^ 40) (hdn : ∀ c ∈ dn, c.length < 2 ^ 40) :
    Inv sv L F (writeJSON s enc dnp fullp dn full).2 := by
  unfold writeJSON
  have hn := nextWriter_inv s 1 dnp fullp h hdnp
  split
  · rename_i e s' heq
    rw [heq] at hn; exact hn
  · rename_i j s' heq
    rw [heq] at hn
    dsimp only at hn ⊢
    have hw := hWrite_inv s' j enc dn false hn hd hdn
    exact hClose_inv _ j [] full hw (by simp)

theorem controlFrame_eq' (isServer : Bool) (t : Nat) (data : Bytes) (key : Key) (hd : data.length ≤ 125) :
    controlFrame isServer t data key = encode isServer (t + 128) key data := by
  unfold controlFrame encode header
  have h1 : ¬ data.length ≥ 65536 := by omega
  have h2 : ¬ data.length > 125 := by omega
  cases isServer <;> simp [h1, h2, Nat.add_comm]

theorem Inv.ctlKey {sv L F} {s : W} (h : Inv sv L F s) : Inv sv L F (ctlKey s).2 := by
  unfold WS.ctlKey
  split
  · exact h
  · exact h.newKey

theorem writeControl_inv {sv L F} (s : W) (t : Int) (data : Bytes) (d : Int) (h : Inv sv L F s) :
    Inv sv L F (writeControl s t data d).2 := by
  unfold writeControl
  split
  · exact h
  · rename_i ht
    split
    · exact h
    · rename_i hlen
      dsimp only
      split
      · exact h.ctlKey
      · apply connWrite_inv _ _ _ _ _ h.ctlKey
        have hlen' : data.length ≤ 125 := by
          have : maxControlPayload = 125 := by decide
          rw [this] at hlen; omega
        have ht' : t.toNat < 16 := by
          simp only [isControl, Gen.CloseMessage, Gen.PingMessage, Gen.PongMessage] at ht
          simp at ht
          omega
        rw [List.append_nil, controlFrame_eq' _ _ _ _ hlen', h.base.isv]
        exact Whole.single ⟨_, _, _, by omega, by omega, rfl⟩

theorem writePreparedImage_inv {sv L F} (s : W) (t : Int) (img : Bytes) (dnp : List Bytes) (fullp : Bytes)
    (h : Inv sv L F s) (himg : Whole sv img) (hdn : isData t = true → ∀ c ∈ dnp, c.length < 2 ^ 40) :
    Inv sv L F (writePreparedImage s t img dnp fullp).2 := by
  unfold writePreparedImage
  dsimp only
  have hc : Inv sv L F (if isData t then closePrev s dnp fullp else s) := by
    split
    · rename_i ht; exact closePrev_inv s dnp fullp h (hdn ht)
    · exact h
  exact connWrite_inv _ _ _ _ _ hc (by simpa using himg)

theorem hReadFrom_inv {sv L F} (s : W) (j : Nat) (r : Src) (h : Inv sv L F s) :
    Inv sv L F (hReadFrom s j r).2 := by
  unfold hReadFrom
  split
  · rename_i i _
    have := mwReadFrom_inv s (getMW s i) r h (getMW_good h i)
    exact this.1.setMW i this.2
  · exact h

theorem applyOp_inv {sv L F} (s : W) (op : Op) (h : Inv sv L F s) (hop : OpOK sv op) :
    Inv sv L F (applyOp s op).2 := by
  cases op with
  | nextWriter t dnp fullp =>
    have := nextWriter_inv s t dnp fullp h hop
    simp only [applyOp]
    split
    · rename_i heq; rw [heq] at this; exact this
    · rename_i heq; rw [heq] at this; exact this
  | write j p dn a => exact hWrite_inv s j p dn a h hop.1 hop.2
  | readFrom j r => exact hReadFrom_inv s j r h
  | close j dn full => exact hClose_inv s j dn full h hop
  | writeMessage t data dnp fullp dn full => exact writeMessage_inv s t data dnp fullp dn full h hop.1 hop.2.1 hop.2.2
  | writeJSON enc dnp fullp dn full => exact writeJSON_inv s enc dnp fullp dn full h hop.1 hop.2.1 hop.2.2
  | writeControl t data d => exact writeControl_inv s t data d h
  | writePrepared t img dnp fullp =>
    obtain ⟨⟨fs, hfs, himg⟩, hdn⟩ := hop
    exact writePreparedImage_inv s t img dnp fullp h ⟨fs, himg, hfs⟩ hdn
  | setWriteDeadline d => exact h.congr rfl rfl rfl rfl rfl rfl
  | enableWriteCompression b => exact h.congr rfl rfl rfl rfl rfl rfl
  | setCompressionLevel l =>
    simp only [applyOp, setCompressionLevel]
    split
    · exact h.congr rfl rfl rfl rfl rfl rfl
    · exact h

theorem run_inv {sv L F} (s : W) (ops : List Op) (h : Inv sv L F s) (hops : ∀ op ∈ ops, OpOK sv op) :
    Inv sv L F (run s ops) := by
  induction ops generalizing s with
  | nil => exact h
  | cons op ops ih =>
    unfold run
    exact ih _ (applyOp_inv s op h (hops op (by simp))) (fun o ho => hops o (by simp [ho]))

theorem Fresh.inv {s : W} (h : Fresh s) : Inv s.isServer s.wbufLen s.faults s := by
  obtain ⟨hw, he, hm, _, _, _, hL⟩ := h
  refine ⟨⟨rfl, rfl, rfl, ?_⟩, hL, ?_⟩
  · rw [hm]; intro m hm; cases hm
  · rw [hw]; exact Decomposes.of_whole _ (Whole.nil _)

/-- C02/C10 core: for every program the wire decomposes; while no error is recorded it consists of
    whole frames only. -/
theorem wire_decomposes (s0 : W) (h0 : Fresh s0) (ops : List Op) (hops : ∀ op ∈ ops, OpOK s0.isServer op) :
    Decomposes s0.isServer (run s0 ops).wire ((run s0 ops).writeErr.isNone) := by
  have h := run_inv s0 ops h0.inv hops
  exact h.wire.mono (fun hc => by simp [hc])

/-- without transport faults no transport error is ever recorded, so the wire is whole frames -/
theorem no_fault_whole_frames (s0 : W) (h0 : Fresh s0) (hf : s0.faults = []) (ops : List Op)
    (hops : ∀ op ∈ ops, OpOK s0.isServer op) :
    ∃ fs : List Bytes, (run s0 ops).wire = fs.flatten ∧ ∀ f ∈ fs, IsFrame s0.isServer f := by
  have h := run_inv s0 ops h0.inv hops
  have hw := h.wire
  rw [hf] at hw
  exact Decomposes.whole (by simpa using hw)

end WS.WireInv
