import WS.Lemmas.CutProgramAux
/-
  Towards the program-level theorems without the "every whole message is within the read limit"
  restriction. Delivered here: the skip lemmas for NextReader called from inside a message whose
  remaining frames are within the limit — the loop of NextReader passes the rest of the abandoned message
  (its pings / pongs reach the handlers, in order) and arrives, with the same result, at a reader
  positioned at the boundary of the following message (`nrl_skip`), with the unread rest of the last
  frame skipped (`nrl_skip_boundary`). From there `nextReaderLoop_spec'`, `OverLimitAux.nextReaderLoop_over`
  (after generalising its `length = 0` hypothesis: the first frame of a message restarts the sum) or
  `CutLoopsL.nextReaderLoop_cut` / `ViolProgram.viol_adv` apply.
-/
namespace WS.ProgramAnyLimit
open WS WS.Codec WS.SrcLaw WS.ReaderDecodes WS.AdvFrame WS.CutProgramAux

/-- the loop of NextReader skips the rest of the abandoned message -/
theorem nrl_skip (S : Bool) (rest : Bytes) (fuel : Nat) :
    ∀ (c : Conn) (wire : Bytes) (more : List PFrame), St S c wire more rest →
      LenOk c (dataPayload more).length → c.r.buf.pending.length < fuel →
      ∃ fuel' c' wire', nextReaderLoop fuel c = nextReaderLoop fuel' c' ∧ St S c' wire' [] rest ∧
        c'.r.final = true ∧ Keep c c' ∧ c'.r.buf.pending.length < fuel' ∧
        c'.r.hlog = c.r.hlog ++ ctlEvents more ∧ c'.r.nextId = c.r.nextId ∧ c'.r.msgReader = c.r.msgReader := by
  induction fuel with
  | zero => intro c _ _ _ _ h; omega
  | succ fuel ih =>
    intro c wire more hst hl hf
    cases hfin : c.r.final with
    | true =>
      have hmore := hst.finT hfin
      subst hmore
      exact ⟨fuel + 1, c, wire, rfl, hst, hfin, Keep.refl c, hf, by simp, rfl, rfl⟩
    | false =>
      obtain ⟨t', c', wire', more', a1, a2, a3, a4, a5, a6, a7, a8, a9, a10⟩ :=
        step_tail S c wire more _ hst hfin 0 (by simpa using hl)
      have hstep : nextReaderLoop (fuel + 1) c = nextReaderLoop fuel c' := by
        conv => lhs; unfold nextReaderLoop
        simp only [hst.noErr, a1, a2, Bool.false_eq_true, if_false]
      obtain ⟨f2, c2, w2, b1, b2, b3, b4, b5, b6, b7, b8⟩ := ih c' wire' more' a3 (by simpa using a7) (by omega)
      refine ⟨f2, c2, w2, by rw [hstep, b1], b2, b3, a4.trans b4, b5, ?_, by rw [b7, a6], by rw [b8, a5]⟩
      have h9 : c'.r.hlog ++ ctlEvents more' = c.r.hlog ++ ctlEvents more := a9
      have hb2 := b2
      rw [b6]
      -- the skipped frames' events: c2.hlog = c'.hlog ++ ctlEvents more' = c.hlog ++ ctlEvents more
      exact h9

/-- … and arrives at the frame boundary of the following message: same result as from the reader with the
    unread rest of the last frame skipped (`remaining = 0`), or an error -/
theorem nrl_skip_boundary (S : Bool) (rest : Bytes) (fuel : Nat) (c : Conn) (wire : Bytes) (more : List PFrame)
    (hst : St S c wire more rest) (hl : LenOk c (dataPayload more).length) (hf : c.r.buf.pending.length < fuel) :
    ∃ fuel' c', (nextReaderLoop fuel c = nextReaderLoop (fuel' + 1) c' ∨ ∃ e c1, nextReaderLoop fuel c = (.err e, c1)) ∧
      St S c' [] [] rest ∧ c'.r.final = true ∧ c'.r.buf.pending = rest ∧ c'.r.limit = c.r.limit ∧
      c'.r.hlog = c.r.hlog ++ ctlEvents more ∧ c'.r.nextId = c.r.nextId ∧ c'.r.msgReader = c.r.msgReader := by
  obtain ⟨f1, c1, w1, b1, b2, b3, b4, b5, b6, b7, b8⟩ := nrl_skip S rest fuel c wire more hst hl hf
  have hp : c1.r.buf.pending = w1 ++ rest := by
    have := b2.pend
    simpa using this
  obtain ⟨b', p1, p2, p3, p4⟩ := adv_norm c1 w1 rest b2.rem b2.env.wf hp
  have hst' : St S (skipped c1 b') [] [] rest := by
    refine ⟨⟨p2, ?_, ?_, b2.env.hp, b2.env.hq⟩, b2.srv, b2.noErr, rfl, ?_, fun _ => rfl, ?_, b2.len0, ?_⟩
    · show 125 ≤ b'.size
      rw [p3.size]; exact b2.env.size
    · show b'.pending.length ≤ b'.total
      have h1 := b2.env.fuel
      rw [hp, List.length_append] at h1
      rw [p3.total, p1]
      omega
    · show b'.pending = _
      rw [p1]; simp
    · intro h
      have h' : c1.r.final = false := h
      rw [b3] at h'; cases h'
    · show b'.t.together = false ∨ rest ≠ []
      rw [p3.together]; exact b2.tog
  obtain ⟨f0, hf0⟩ : ∃ f0, f1 = f0 + 1 := ⟨f1 - 1, by omega⟩
  subst hf0
  refine ⟨f0, skipped c1 b', ?_, hst', b3, p1, b4.limit, b6, b7, b8⟩
  rcases nrl_norm f0 c1 b' b2.noErr p4 with h | ⟨e, cc, h⟩
  · left; rw [b1, h]
  · right; exact ⟨e, cc, by rw [b1, h]⟩

end WS.ProgramAnyLimit
