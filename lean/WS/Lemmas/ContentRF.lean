import WS.Lemmas.Content
import WS.Lemmas.ReadFromLoop
/-
  C01 / C02 at the round-trip level for `ReadFrom` (io.Copy into a message writer): a data message
  written through NextWriter in any pieces — Write / WriteString of any sizes, ReadFrom of a source
  that hands out its bytes in reads of any sizes and ends with io.EOF (alone or together with its
  last bytes), pings/pongs in between — is one message on the wire whose payload is the
  concatenation of everything written and copied, for every buffer size and either role.
-/
namespace WS.ContentRF
open WS WS.Content

inductive Piece2
  | write (p : Bytes) (asString : Bool)
  | control (t : Nat) (data : Bytes) (d : Nat)
  | readFrom (r : Src)

def Piece2.ok : Piece2 → Prop
  | .write p _ => p.length < 2 ^ 40
  | .control t data _ => (t = 9 ∨ t = 10) ∧ data.length ≤ 125
  | .readFrom r => r.term = none ∧ r.chunks.flatten.length < 2 ^ 40   -- the source ends with io.EOF

def Piece2.op (h : Nat) : Piece2 → Op
  | .write p a => .write h p [] a
  | .control t data d => .writeControl t data d
  | .readFrom r => .readFrom h r

def Piece2.bytes : Piece2 → Bytes
  | .write p _ => p
  | .control _ _ _ => []
  | .readFrom r => r.chunks.flatten

def Piece2.ctl : Piece2 → List (Nat × Bytes)
  | .control t data _ => [(t, data)]
  | _ => []

/-- NextWriter(t); pieces…; Close -/
def messageOps2 (s : W) (t : Nat) (ps : List Piece2) : List Op :=
  [.nextWriter t [] []] ++ ps.map (Piece2.op (nextHandle s)) ++ [.close (nextHandle s) [] []]

/- The hypothesis `isControl m.ft = false` of `readFrom_reports_all_data` below is needed: for the
   writer of a *control* message (NextWriter(PingMessage)) whose buffer is full, ReadFrom starts
   with flushFrame(false, nil), which fails with errInvalidControlFrame (control frames cannot be
   fragmented), so ReadFrom reports (0, errInvalidControlFrame) — `readFrom_full_control_writer_fails`
   is that instance, checked by `decide`. The other hypotheses are needed as well: cap = 0 or an
   overfull buffer makes the loop spin, a sticky write error or a transport fault makes the flush fail. -/

theorem readFrom_full_control_writer_fails :
    let s : W := { isServer := true, wbufLen := maxFrameHeaderSize + 1, pool := false, nego := false }
    let m : MW := { buf := [0], ft := 9 }
    let r : Src := { chunks := [[1]], term := none }
    m.err = none ∧ r.term = none ∧ 0 < s.cap ∧ m.buf.length ≤ s.cap ∧ s.writeErr = none ∧ s.faults = [] ∧
    (mwReadFrom s m r).1 = (0, some .invalidControl) ∧ r.chunks.flatten.length = 1 := by
  decide

/-- ReadFrom on a live message writer (of a data message, or of a message whose first frame has been
    flushed: `isControl m.ft = false`) of a healthy connection reports exactly the bytes the source
    handed out and no error when the source ends with io.EOF (the io.ReaderFrom contract) -/
theorem readFrom_reports_all_data (s : W) (m : MW) (r : Src) (hm : m.err = none) (hr : r.term = none)
    (hcap : 0 < s.cap) (hb : m.buf.length ≤ s.cap) (hw : s.writeErr = none) (hf : s.faults = [])
    (hft : isControl m.ft = false) :
    (mwReadFrom s m r).1 = (r.chunks.flatten.length, none) := by
  unfold mwReadFrom
  rw [hm]
  dsimp only
  have := (ReadFromLoop.readFromLoop_inv ReadFromLoop.plain_loopInv (r.size + 2) (acc := []) r 0
    ⟨hw, hf, hcap, hb, hft⟩ hr (by omega)).1
  rw [Nat.zero_add] at this
  exact this

/-! ### the step lemma for a ReadFrom piece and the list induction -/

open WS.Flow in
theorem hReadFrom_mid {s : W} {h t : Nat} {M C acc} (hM : Mid s h t M C acc) (ht : t = 1 ∨ t = 2) (r : Src)
    (hr : r.term = none) :
    (hReadFrom s h r).1 = none ∧ Mid (hReadFrom s h r).2 h t M C (acc ++ r.chunks.flatten) := by
  obtain ⟨pre, m, hmws, hdead, hh, hmid⟩ := hM.mw
  have hget := getMW_last s pre m hmws
  unfold hReadFrom
  rw [hh]
  dsimp only
  rw [hget]
  have hw := ReadFromLoop.mwReadFrom_mid r hmid ht hr
  refine ⟨congrArg Prod.snd hw.1, hw.2.1.nego.trans hM.plain, pre, (mwReadFrom s m r).2.2, ?_, hdead, ?_, ?_⟩
  · show (mwReadFrom s m r).2.1.mws.set pre.length _ = _
    rw [hw.2.1.mws, hmws, set_last]
  · show (mwReadFrom s m r).2.1.handles[h]? = _
    rw [hw.2.1.handles]; exact hh
  · exact hw.2.2.2.congr rfl rfl rfl rfl

theorem applyOp_piece2 {s : W} {h t : Nat} {M C acc} (hM : Mid s h t M C acc) (ht : t = 1 ∨ t = 2) (p : Piece2)
    (hp : p.ok) :
    (applyOp s (p.op h)).1 = none ∧ Mid (applyOp s (p.op h)).2 h t M (C ++ p.ctl) (acc ++ p.bytes) := by
  cases p with
  | write q a =>
    have := hWrite_mid hM ht q hp a
    simp only [Piece2.ctl, Piece2.bytes, List.append_nil]
    exact this
  | control ct data d =>
    have := writeControl_mid hM ct hp.1 data hp.2 d
    simp only [Piece2.ctl, Piece2.bytes, List.append_nil]
    exact this
  | readFrom r =>
    have := hReadFrom_mid hM ht r hp.1
    simp only [Piece2.ctl, Piece2.bytes, List.append_nil]
    exact this

theorem run_pieces2 {s : W} {h t : Nat} {M C acc} (hM : Mid s h t M C acc) (ht : t = 1 ∨ t = 2) (ps : List Piece2)
    (hps : ∀ p ∈ ps, p.ok) :
    Mid (run s (ps.map (Piece2.op h))) h t M (C ++ (ps.map Piece2.ctl).flatten) (acc ++ (ps.map Piece2.bytes).flatten) := by
  induction ps generalizing s C acc with
  | nil => simpa [run] using hM
  | cons p ps ih =>
    have h1 := (applyOp_piece2 hM ht p (hps p (by simp))).2
    have h2 := ih h1 (fun q hq => hps q (by simp [hq]))
    simp only [List.map_cons, run, List.flatten_cons]
    rw [← List.append_assoc, ← List.append_assoc]
    exact h2

/-- the round trip with ReadFrom among the pieces -/
theorem message_roundtrip_readFrom (s : W) (hi : Idle s) (t : Nat) (ht : t = 1 ∨ t = 2) (ps : List Piece2)
    (hps : ∀ p ∈ ps, p.ok) :
    let s' := run s (messageOps2 s t ps)
    Idle s' ∧
    wireMessages s' = wireMessages s ++ [⟨t, false, (ps.map Piece2.bytes).flatten⟩] ∧
    wireControls s' = wireControls s ++ (ps.map Piece2.ctl).flatten := by
  intro s'
  have hnw := nextWriter_idle hi t ht
  have hs' : s' = (hClose (run (nextWriter s (t : Int) [] []).2 (ps.map (Piece2.op (nextHandle s)))) (nextHandle s) [] []).2 := by
    show run s (messageOps2 s t ps) = _
    unfold messageOps2
    rw [run_append, run_append]
    simp only [run, applyOp_nextWriter_snd]
    rfl
  have hmid := run_pieces2 hnw.2 ht ps hps
  have hc := hClose_mid hmid ht
  rw [← hs'] at hc
  simp only [List.nil_append] at hc
  exact hc.2

end WS.ContentRF
