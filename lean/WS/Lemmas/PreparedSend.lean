import WS.Lemmas.PreparedLogic
import WS.Lemmas.Content
import WS.Lemmas.WriterMore
/-
  C19 at the connection level: sending a PreparedMessage puts on the wire a message that decodes to
  the type and payload given at creation — exactly what WriteMessage would have sent — whatever
  connection it is sent on and whatever was cached before (uncompressed variants; the compressed
  variant is `compressed_image_checked` + the correspondence runs). Also C09: a message writer that
  was open when a close frame went out fails no later than its Close.

  STATUS: all statements proven as given, except `writePrepared_valid`, which is false for the model
  as written (machine-checked counterexample `writePrepared_valid_counterexample`); the closest true
  statement is `writePrepared_valid_partial`, with corollaries `writePrepared_valid_of_ok`,
  `writePrepared_valid_data`, `writePrepared_valid_control`. Uses PreparedLogic.lean
  (`cached_image_sent`, `writePreparedImage_noWriter`, `prepConn_idle`), Content.lean
  (`writeMessage_roundtrip`, `Idle`), WriterMore.lean (`writeMessage_control_roundtrip`), Flow.lean
  (`connWrite_ok`), Stream.lean (`decodeStream_append`), Writer.lean (`hClose_of_err`).
-/
namespace WS.PreparedSend
open WS WS.Content

/-- every uncompressed variant in the cache is a rendering of this message for that key (with some
    key-source position): the invariant NewPreparedMessage establishes and sends preserve -/
def PMValid (pm : PM) : Prop :=
  ∀ k img, pm.lookup k = some img → k.compress = false →
    ∃ keys ki, (renderPlain k pm.t pm.data keys ki).1 = none ∧ img = (renderPlain k pm.t pm.data keys ki).2.1

/-! ### helper lemmas -/
section Helpers
open WS.Stream WS.Flow

/-- two wires of whole frames, both between messages, concatenated -/
theorem wireSt_append {w v : Bytes} {M M' : List Spec.Msg} {C C' : List (Nat × Bytes)}
    (h1 : WireSt w M C none) (h2 : WireSt v M' C' none) : WireSt (w ++ v) (M ++ M') (C ++ C') none := by
  obtain ⟨fs, hd, hM, hC, hc⟩ := h1
  obtain ⟨gs, hd', hM', hC', hc'⟩ := h2
  refine ⟨fs ++ gs, ?_, ?_, ?_, ?_⟩
  · rw [decodeStream_append w v fs hd, hd']; rfl
  · unfold Spec.messages at hM hM' ⊢
    rw [messagesAux_append, hM, hc, hM']
  · rw [controls_append, hC, hC']
  · rw [curAfter_append, hc, hc']

theorem idle_keyIdx {s : W} (hi : Idle s) (ki : Nat) : Idle { s with keyIdx := ki } :=
  ⟨hi.healthy, hi.noFaults, hi.noWriter, hi.dead, hi.size, hi.whole, hi.plain⟩

/-- the send half on an idle connection: an image of whole frames that ends between messages is
    accepted and its messages / control frames are appended to what the wire encodes -/
theorem send_image (s : W) (hi : Idle s) (t : Int) (hft : (t == 8) = false) (img : Bytes)
    (dnp : List Bytes) (fullp : Bytes) {M : List Spec.Msg} {C : List (Nat × Bytes)}
    (himg : WireSt img M C none) :
    (writePreparedImage s t img dnp fullp).1 = none ∧ Idle (writePreparedImage s t img dnp fullp).2 ∧
    wireMessages (writePreparedImage s t img dnp fullp).2 = wireMessages s ++ M ∧
    wireControls (writePreparedImage s t img dnp fullp).2 = wireControls s ++ C := by
  rw [PreparedLogic.writePreparedImage_noWriter s t img dnp fullp (Or.inr hi.noWriter)]
  obtain ⟨he, hk, hw, hwr⟩ := connWrite_ok s t s.deadline img [] hi.healthy hi.noFaults hft
  have hws : WireSt (connWrite s t s.deadline img []).2.wire (wireMessages s ++ M) (wireControls s ++ C) none := by
    rw [hw, List.append_nil]; exact wireSt_append hi.wireSt himg
  have hwire := wire_of_wireSt hws
  refine ⟨he, ⟨hk.writeErr.trans hi.healthy, hk.faults.trans hi.noFaults, hwr.trans hi.noWriter, ?_, ?_,
    WireSt.ends hws, hk.nego.trans hi.plain⟩, hwire.1, hwire.2⟩
  · rw [hk.mws]; exact hi.dead
  · rw [hk.wbufLen]; exact hi.size

theorem pkey_eta (k : PKey) (h : k.compress = false) : k = ⟨k.isServer, false, k.level⟩ := by
  cases k; simp only at h; subst h; rfl

theorem prepConn_wire (k : PKey) (keys : Bytes) (ki : Nat) : (prepConn k keys ki).wire = [] := rfl

theorem prepConn_wireMessages (k : PKey) (keys : Bytes) (ki : Nat) : wireMessages (prepConn k keys ki) = [] := rfl

theorem prepConn_wireControls (k : PKey) (keys : Bytes) (ki : Nat) : wireControls (prepConn k keys ki) = [] := rfl

/-- rendering a data message for an uncompressed key never fails and yields whole frames encoding
    exactly that message -/
theorem render_data_ok (k : PKey) (hk : k.compress = false) (t : Nat) (ht : t = 1 ∨ t = 2) (data keys : Bytes)
    (ki : Nat) (hd : data.length < 2 ^ 40) :
    (renderPlain k (t : Int) data keys ki).1 = none ∧
    WireSt (renderPlain k (t : Int) data keys ki).2.1 [⟨t, false, data⟩] [] none := by
  rw [pkey_eta k hk]
  have hi := PreparedLogic.prepConn_idle k.isServer k.level keys ki
  have h := writeMessage_roundtrip _ hi t ht data hd
  rw [prepConn_wireMessages, prepConn_wireControls, List.nil_append] at h
  obtain ⟨he, hi', hM, hC⟩ := h
  have hws := hi'.wireSt
  rw [hM, hC] at hws
  exact ⟨he, hws⟩

theorem prepConn_cap (k : PKey) (keys : Bytes) (ki : Nat) :
    maxFrameHeaderSize + 125 ≤ (prepConn k keys ki).wbufLen := by
  show maxFrameHeaderSize + 125 ≤ defaultWriteBufferSize + maxFrameHeaderSize
  decide

/-- rendering a ping / pong of at most 125 bytes for an uncompressed key never fails and yields one
    control frame with that payload -/
theorem render_control_ok (k : PKey) (hk : k.compress = false) (t : Nat) (ht : t = 9 ∨ t = 10) (data keys : Bytes)
    (ki : Nat) (hd : data.length ≤ 125) :
    (renderPlain k (t : Int) data keys ki).1 = none ∧
    WireSt (renderPlain k (t : Int) data keys ki).2.1 [] [(t, data)] none := by
  rw [pkey_eta k hk]
  have hi := PreparedLogic.prepConn_idle k.isServer k.level keys ki
  have h := WriterMore.writeMessage_control_roundtrip _ hi (prepConn_cap _ keys ki) t ht data hd
  rw [prepConn_wireMessages, prepConn_wireControls, List.nil_append] at h
  obtain ⟨he, hi', hM, hC⟩ := h
  have hws := hi'.wireSt
  rw [hM, hC] at hws
  exact ⟨he, hws⟩

/-- the uncompressed send on an idle connection, cached or rendered now, for any message type whose
    rendering is known to succeed with a known content -/
theorem writePrepared_plain (s : W) (hi : Idle s) (pm : PM) (hv : PMValid pm)
    (hplain : (prepKey s pm).compress = false) (hft : (pm.t == 8) = false)
    {M : List Spec.Msg} {C : List (Nat × Bytes)}
    (hr : ∀ keys ki, (renderPlain (prepKey s pm) pm.t pm.data keys ki).1 = none ∧
      WireSt (renderPlain (prepKey s pm) pm.t pm.data keys ki).2.1 M C none) :
    (writePrepared s pm none).1 = none ∧ Idle (writePrepared s pm none).2.1 ∧
    wireMessages (writePrepared s pm none).2.1 = wireMessages s ++ M ∧
    wireControls (writePrepared s pm none).2.1 = wireControls s ++ C := by
  cases hl : pm.lookup (prepKey s pm) with
  | some img =>
    rw [PreparedLogic.cached_image_sent s pm img [] [] hl]
    obtain ⟨keys, ki, _, himg⟩ := hv _ _ hl hplain
    exact send_image s hi pm.t hft img [] [] (by rw [himg]; exact (hr keys ki).2)
  | none =>
    have h1 := hr s.keys s.keyIdx
    unfold writePrepared
    simp only [hl, hplain, Bool.false_eq_true, if_false]
    split
    · rename_i e img ki heq
      rw [heq] at h1
      exact absurd h1.1 (by simp)
    · rename_i img ki heq
      rw [heq] at h1
      exact send_image { s with keyIdx := ki } (idle_keyIdx hi ki) pm.t hft img [] [] h1.2

theorem lookup_append_inv (pm : PM) (k0 : PKey) (img0 : Bytes) (k : PKey) (img : Bytes)
    (h : ({ pm with cache := pm.cache ++ [(k0, img0)] } : PM).lookup k = some img) :
    pm.lookup k = some img ∨ (k = k0 ∧ img = img0) := by
  unfold PM.lookup at h ⊢
  simp only [List.find?_append] at h
  cases hf : pm.cache.find? (·.1 == k) with
  | some y =>
    rw [hf] at h
    left
    simpa using h
  | none =>
    rw [hf] at h
    right
    simp only [Option.none_or, List.find?_cons, List.find?_nil] at h
    split at h
    · rename_i hb
      simp only [Option.map_some, Option.some.injEq] at h
      exact ⟨(eq_of_beq hb).symm, h.symm⟩
    · cases h

theorem valid_append (pm : PM) (h : PMValid pm) (k0 : PKey) (img0 : Bytes)
    (h0 : k0.compress = false → ∃ keys ki, (renderPlain k0 pm.t pm.data keys ki).1 = none ∧
      img0 = (renderPlain k0 pm.t pm.data keys ki).2.1) :
    PMValid { pm with cache := pm.cache ++ [(k0, img0)] } := by
  intro k img hl hk
  rcases lookup_append_inv pm k0 img0 k img hl with hl' | ⟨rfl, rfl⟩
  · exact h k img hl' hk
  · exact h0 hk

end Helpers

theorem newPrepared_valid (t : Int) (data keys : Bytes) (ki : Nat) (pm : PM)
    (h : (newPrepared t data keys ki).1 = .ok pm) : PMValid pm ∧ pm.t = t ∧ pm.data = data := by
  unfold newPrepared at h
  dsimp only at h
  split at h
  · cases h
  · rename_i img ki' heq
    simp only [Except.ok.injEq] at h
    subst h
    refine ⟨?_, rfl, rfl⟩
    have hv : PMValid ({ t, data, cache := [] } : PM) := by
      intro k img' hl _
      cases hl
    have := valid_append { t, data, cache := [] } hv ⟨true, false, 0⟩ img
      (fun _ => ⟨keys, ki, by rw [heq], by rw [heq]⟩)
    exact this

/-
  ORIGINAL STATEMENT — FALSE for the model as written:

  theorem writePrepared_valid (s : W) (pm : PM) (env : Option (Bytes × Bytes)) (dnp : List Bytes) (fullp : Bytes)
      (h : PMValid pm) : PMValid (writePrepared s pm env dnp fullp).2.2

  Counterexample (`writePrepared_valid_counterexample` below, machine-checked): pm = ⟨0, [], []⟩ (type 0
  is not a valid message type; the empty cache makes `PMValid pm` vacuously true) sent on
  s = { isServer := true, wbufLen := 0, pool := false, nego := false }. The key is not cached and not
  compressed, `renderPlain` fails with `badOpcode`, and — as `frame()` does — the model caches the
  (empty) image that was rendered anyway. The new entry is not the image of a *successful* rendering
  (there is none for type 0), so `PMValid` fails for the result. The same happens for every message
  whose rendering fails (invalid type, ping/pong/close longer than 125 bytes).

  Closest true statement: `writePrepared_valid_partial` adds exactly the hypothesis that, if the live
  key is uncompressed and not yet cached, its rendering succeeds. Corollaries without that
  hypothesis: `writePrepared_valid_of_ok` (the send reported no error), `writePrepared_valid_data`
  (type 1/2, payload < 2^40) and `writePrepared_valid_control` (type 9/10, payload ≤ 125).
-/
theorem writePrepared_valid_counterexample :
    ¬ (∀ (s : W) (pm : PM) (env : Option (Bytes × Bytes)) (dnp : List Bytes) (fullp : Bytes),
        PMValid pm → PMValid (writePrepared s pm env dnp fullp).2.2) := by
  intro hall
  have hv : PMValid ({ t := 0, data := [], cache := [] } : PM) := by
    intro k img hl _
    cases hl
  have h := hall { isServer := true, wbufLen := 0, pool := false, nego := false }
    { t := 0, data := [], cache := [] } none [] [] hv
  obtain ⟨keys, ki, he, _⟩ := h ⟨true, false, Gen.defaultCompressionLevel⟩ [] rfl rfl
  have : (renderPlain ⟨true, false, Gen.defaultCompressionLevel⟩ 0 [] keys ki).1 = some .badOpcode := rfl
  have he' : (renderPlain ⟨true, false, Gen.defaultCompressionLevel⟩ 0 [] keys ki).1 = none := he
  rw [this] at he'
  cases he'

theorem writePrepared_valid_partial (s : W) (pm : PM) (env : Option (Bytes × Bytes)) (dnp : List Bytes) (fullp : Bytes)
    (h : PMValid pm)
    (hr : pm.lookup (prepKey s pm) = none → (prepKey s pm).compress = false →
      (renderPlain (prepKey s pm) pm.t pm.data s.keys s.keyIdx).1 = none) :
    PMValid (writePrepared s pm env dnp fullp).2.2 := by
  unfold writePrepared
  dsimp only
  split
  · exact h
  · rename_i hl
    split
    · rename_i hc
      split
      · exact h
      · split
        · exact valid_append pm h _ _ (fun hk => by rw [hc] at hk; cases hk)
        · exact h
    · rename_i hc
      have hc' : (prepKey s pm).compress = false := by simpa using hc
      have hr' := hr hl hc'
      split
      · rename_i e img ki heq
        rw [heq] at hr'
        cases hr'
      · rename_i img ki heq
        exact valid_append pm h _ _ (fun _ => ⟨s.keys, s.keyIdx, hr', by rw [heq]⟩)

/-- a send that reports no error leaves the cache valid -/
theorem writePrepared_valid_of_ok (s : W) (pm : PM) (env : Option (Bytes × Bytes)) (dnp : List Bytes) (fullp : Bytes)
    (h : PMValid pm) (hok : (writePrepared s pm env dnp fullp).1 = none) :
    PMValid (writePrepared s pm env dnp fullp).2.2 := by
  apply writePrepared_valid_partial s pm env dnp fullp h
  intro hl hc
  unfold writePrepared at hok
  simp only [hl, hc, Bool.false_eq_true, if_false] at hok
  split at hok
  · cases hok
  · rename_i img ki heq
    rw [heq]

theorem writePrepared_valid_data (s : W) (pm : PM) (env : Option (Bytes × Bytes)) (dnp : List Bytes) (fullp : Bytes)
    (h : PMValid pm) (t : Nat) (ht : t = 1 ∨ t = 2) (hpt : pm.t = (t : Int)) (hd : pm.data.length < 2 ^ 40) :
    PMValid (writePrepared s pm env dnp fullp).2.2 := by
  apply writePrepared_valid_partial s pm env dnp fullp h
  intro _ hc
  rw [hpt]
  exact (render_data_ok _ hc t ht pm.data s.keys s.keyIdx hd).1

theorem writePrepared_valid_control (s : W) (pm : PM) (env : Option (Bytes × Bytes)) (dnp : List Bytes) (fullp : Bytes)
    (h : PMValid pm) (t : Nat) (ht : t = 9 ∨ t = 10) (hpt : pm.t = (t : Int)) (hd : pm.data.length ≤ 125) :
    PMValid (writePrepared s pm env dnp fullp).2.2 := by
  apply writePrepared_valid_partial s pm env dnp fullp h
  intro _ hc
  rw [hpt]
  exact (render_control_ok _ hc t ht pm.data s.keys s.keyIdx hd).1

/-- C19 prepared_equiv at the connection: a prepared data message sent on a connection between
    messages (either role; write compression off or not negotiated) is accepted and the wire gains
    exactly one complete message with the type and payload given at creation — the same as
    `Content.writeMessage_roundtrip` says for WriteMessage — whether the variant was cached or is
    rendered now -/
theorem prepared_data_roundtrip (s : W) (hi : Idle s) (pm : PM) (hv : PMValid pm) (t : Nat) (ht : t = 1 ∨ t = 2)
    (hpt : pm.t = (t : Int)) (hd : pm.data.length < 2 ^ 40) (hplain : (prepKey s pm).compress = false) :
    (writePrepared s pm none).1 = none ∧ Idle (writePrepared s pm none).2.1 ∧
    wireMessages (writePrepared s pm none).2.1 = wireMessages s ++ [⟨t, false, pm.data⟩] ∧
    wireControls (writePrepared s pm none).2.1 = wireControls s := by
  have hft : (pm.t == 8) = false := by
    rw [hpt]; rcases ht with rfl | rfl <;> decide
  have h := writePrepared_plain s hi pm hv hplain hft (M := [⟨t, false, pm.data⟩]) (C := [])
    (fun keys ki => by rw [hpt]; exact render_data_ok _ hplain t ht pm.data keys ki hd)
  rw [List.append_nil] at h
  exact h

/-- prepared ping / pong: one control frame with the payload given at creation -/
theorem prepared_control_roundtrip (s : W) (hi : Idle s) (pm : PM) (hv : PMValid pm) (t : Nat) (ht : t = 9 ∨ t = 10)
    (hpt : pm.t = (t : Int)) (hd : pm.data.length ≤ 125) :
    (writePrepared s pm none).1 = none ∧ Idle (writePrepared s pm none).2.1 ∧
    wireMessages (writePrepared s pm none).2.1 = wireMessages s ∧
    wireControls (writePrepared s pm none).2.1 = wireControls s ++ [(t, pm.data)] := by
  have hplain : (prepKey s pm).compress = false := by
    show (s.nego && s.enableWC && isData pm.t) = false
    rw [hi.plain]; rfl
  have hft : (pm.t == 8) = false := by
    rw [hpt]; rcases ht with rfl | rfl <;> decide
  have h := writePrepared_plain s hi pm hv hplain hft (M := []) (C := [(t, pm.data)])
    (fun keys ki => by rw [hpt]; exact render_control_ok _ hplain t ht pm.data keys ki hd)
  rw [List.append_nil] at h
  exact h

/-- C09: once the connection's write side has failed or a close frame has been sent (`writeErr` set),
    Close on ANY writer handle — the live one, a stale one, a compressed one, a bogus index — returns
    an error, so a message that was open when the close went out is never reported as sent -/
theorem close_after_close_fails (s : W) (he : s.writeErr.isSome) (h : Nat) (dn : List Bytes) (full : Bytes) :
    (hClose s h dn full).1.isSome :=
  (hClose_of_err s h dn full he).1

end WS.PreparedSend
