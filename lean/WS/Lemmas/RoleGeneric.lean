import WS.Lemmas.ReaderMore
/-
  C06 / C08 for BOTH roles: the statements of `ReaderRejects.ping_answered`, `close_echoed`,
  `limit_refuses_small` and `ReaderLift.nextReader_over_limit_total` are for a client-side reader
  (peer frames unmasked). Here the frame is given as `PFrame.enc c.r.isServer f`, i.e. masked with
  an arbitrary key when the reader is a server, unmasked when it is a client.
-/
namespace WS.RoleGeneric
open WS WS.Codec WS.SrcLaw WS.HdrLogic WS.ReaderDecodes WS.ReaderRejects WS.ReaderLift WS.ReaderMore


/-! ### helper lemmas (role-generic stage lemmas on top of AdvFrame.lean) -/
section Helpers
open WS.AdvFrame

/-- steps 5-7 -/
def afRest (h : Hdr) (c : Conn) : Except RErr Nat × Conn :=
  if h.opcode == 0 || h.opcode == 1 || h.opcode == 2 then afData h c
  else
  match afPayload c with
  | (some e, _, c) => (.error e, c)
  | (none, payload, c) => afDispatch h payload c

/-- readFinal after the header of a frame with opcode `op` -/
def finalAfter (op : Nat) (fin : Bool) (c : Conn) : Bool :=
  if op == 1 || op == 2 || op == 0 then fin else c.r.final

theorem hdrErrs_ctl3 (S nego final : Bool) (op n7 : Nat) (h : op = 8 ∨ op = 9 ∨ op = 10) (hn : n7 ≤ 125) :
    headerErrors S nego final ⟨op, true, false, false, false, S, n7⟩ = [] := by
  rw [HdrLogic.headerErrors_nil_iff]
  unfold HdrLogic.Violates
  rcases h with rfl | rfl | rfl <;> simp <;> omega

/-- steps 2b-4 on a well-formed header: length and key are consumed -/
theorem afHdr_prefix (c : Conn) (tail : Bytes) (op : Nat) (fin : Bool) (key : Key) (len : Nat)
    (hwf : WF c.r.buf) (hsz : 125 ≤ c.r.buf.size)
    (hp : c.r.buf.pending = ext len ++ (keyBytes c.r.isServer key ++ tail))
    (hop16 : op < 16)
    (herrs : headerErrors c.r.isServer c.r.nego c.r.final ⟨op, fin, false, false, false, c.r.isServer, l7 len⟩ = [])
    (hlen : len < 2 ^ 62) :
    ∃ b', afHdr c (UInt8.ofNat (op + if fin then 128 else 0)) (UInt8.ofNat (mbit c.r.isServer + l7 len)) =
        afRest ⟨op, fin, false, false, false, c.r.isServer, l7 len⟩
          { c with r := { c.r with buf := b', remaining := (len : Int), decompress := false, final := finalAfter op fin c, maskPos := (if c.r.isServer then 0 else c.r.maskPos), maskKey := (if c.r.isServer then key else c.r.maskKey) } } ∧
      b'.pending = tail ∧ WF b' ∧ Same2 c.r.buf b' := by
  unfold afHdr
  simp only [parseHdr_enc op fin c.r.isServer _ hop16 (l7_lt _), herrs,
    List.isEmpty_nil, Bool.not_true, Bool.false_eq_true, if_false, Bool.false_and]
  obtain ⟨b1, s1, s2, s3, s4⟩ := afLen_ok ⟨op, fin, false, false, false, c.r.isServer, l7 len⟩
    { c with r := { c.r with remaining := ((l7 len : Nat) : Int), decompress := false, final := finalAfter op fin c } }
    len _ rfl rfl hlen hwf (by simp only []; omega) hp
  unfold finalAfter at s1
  rw [s1]
  simp only []
  obtain ⟨b2, t1, t2, t3, t4⟩ := afKey_ok ⟨op, fin, false, false, false, c.r.isServer, l7 len⟩
    { c with r := { c.r with buf := b1, remaining := (len : Int), decompress := false, final := finalAfter op fin c } }
    c.r.isServer key tail rfl s3 (by have := s4.size; simp only [] at this ⊢; omega) s2
  unfold finalAfter at t1
  rw [t1]
  simp only []
  exact ⟨b2, rfl, t2, t3, s4.trans t4⟩

/-- advanceFrame at a frame boundary on a well-formed header -/
theorem advance_prefix (c : Conn) (hc : AtBoundary c) (tail : Bytes) (op : Nat) (fin : Bool) (key : Key) (payload : Bytes)
    (hp : c.r.buf.pending = PFrame.enc c.r.isServer ⟨op, fin, key, payload⟩ ++ tail)
    (hop16 : op < 16)
    (herrs : headerErrors c.r.isServer c.r.nego c.r.final ⟨op, fin, false, false, false, c.r.isServer, l7 payload.length⟩ = [])
    (hlen : payload.length < 2 ^ 62) :
    ∃ b', advanceFrame c =
        afRest ⟨op, fin, false, false, false, c.r.isServer, l7 payload.length⟩
          { c with r := { c.r with buf := b', remaining := (payload.length : Int), decompress := false, final := finalAfter op fin c, maskPos := (if c.r.isServer then 0 else c.r.maskPos), maskKey := (if c.r.isServer then key else c.r.maskKey) } } ∧
      b'.pending = body c.r.isServer key payload ++ tail ∧ WF b' ∧ Same2 c.r.buf b' := by
  rw [advanceFrame_eq]
  unfold PFrame.enc PFrame.b0 at hp
  simp only [] at hp
  rw [encode_eq] at hp
  simp only [List.cons_append, List.append_assoc] at hp
  obtain ⟨b1, s1, s2, s3, s4⟩ := afSkip_ok c [] _ (by rw [hc.rem]; rfl) hc.wf (by simp only [List.nil_append]; exact hp)
  rw [s1]
  simp only []
  obtain ⟨b2, t1, t2, t3, t4⟩ := afHead_ok { c with r := { c.r with buf := b1 } } _ _ _ s3
    (by have := s4.size; have := hc.size; simp only [] at this ⊢; omega) s2
  rw [t1]
  obtain ⟨b3, u1, u2, u3, u4⟩ := afHdr_prefix { c with r := { c.r with buf := b2 } } (body c.r.isServer key payload ++ tail)
    op fin key payload.length t3 (by have := s4.size; have := t4.size; have := hc.size; simp only [] at *; omega) t2 hop16 herrs hlen
  exact ⟨b3, u1, u2, u3, (s4.trans t4).trans u4⟩


/-- step 6 after the prefix: the control payload is consumed and unmasked -/
theorem afRest_ctl (h : Hdr) (c : Conn) (key : Key) (payload tail : Bytes)
    (hop : (h.opcode == 0 || h.opcode == 1 || h.opcode == 2) = false)
    (hrem : c.r.remaining = (payload.length : Int)) (hwf : WF c.r.buf) (hsz : payload.length ≤ c.r.buf.size)
    (hp : c.r.buf.pending = body c.r.isServer key payload ++ tail)
    (hk : c.r.isServer = true → c.r.maskKey = key) :
    ∃ b', afRest h c = afDispatch h payload { c with r := { c.r with buf := b', remaining := 0 } } ∧
      b'.pending = tail ∧ WF b' ∧ Same2 c.r.buf b' := by
  unfold afRest
  rw [hop]
  simp only [Bool.false_eq_true, if_false]
  obtain ⟨b', u1, u2, u3, u4⟩ := afPayload_ok c (body c.r.isServer key payload) tail
    (by rw [body_length]; exact hrem) hwf (by rw [body_length]; exact hsz) hp
  rw [u1]
  simp only []
  have hunmask : (if c.r.isServer = true then maskFrom c.r.maskKey 0 (body c.r.isServer key payload)
      else body c.r.isServer key payload) = payload := by
    unfold body
    cases hS : c.r.isServer
    · rfl
    · simp only [if_true]; rw [hk hS]; exact maskFrom_involutive _ _ _
  rw [hunmask]
  exact ⟨b', rfl, u2, u3, u4⟩

theorem afDispatch_ping (h : Hdr) (payload : Bytes) (c : Conn) (hop : h.opcode = 9) (hd : c.r.hPing = .dflt) :
    afDispatch h payload c =
      (.ok 9, { w := (writeControl (emit c.w (.hPing payload)) 10 payload writeWaitDeadline).2,
                r := { c.r with hlog := c.r.hlog ++ [.ping payload] } }) := by
  unfold afDispatch
  rw [hop]
  simp only [show ((9 : Nat) == 10) = false from rfl, show ((9 : Nat) == 9) = true from rfl,
    Bool.false_eq_true, if_false, if_true, runHandler, hd]
  rfl

theorem afDispatch_close (h : Hdr) (c : Conn) (hop : h.opcode = 8) (hd : c.r.hClose = .dflt)
    (code : Nat) (reason : Bytes)
    (hcode : isValidReceivedCloseCode code = true) (hc16 : code < 65536) (hutf : Spec.validUtf8 reason = true) :
    afDispatch h (beBytes 2 code ++ reason) c =
      (.error (.close code reason),
       { w := (writeControl (emit c.w (.hClose code reason)) 8 (closePayload code []) writeWaitDeadline).2,
         r := { c.r with hlog := c.r.hlog ++ [.close code reason] } }) := by
  have hge : ((beBytes 2 code ++ reason).length ≥ 2) = True := by
    simp only [List.length_append, beBytes_length, ge_iff_le, Nat.le_add_right]
  have hcode' : beVal (List.take 2 (beBytes 2 code ++ reason)) = code := by
    rw [List.take_left' (beBytes_length ..)]
    exact beVal_beBytes 2 code (by simpa using hc16)
  have htext : List.drop 2 (beBytes 2 code ++ reason) = reason := by
    rw [List.drop_left' (beBytes_length ..)]
  unfold afDispatch
  rw [hop]
  simp only [show ((8 : Nat) == 10) = false from rfl, show ((8 : Nat) == 9) = false from rfl,
    Bool.false_eq_true, if_false, if_true, hge, hcode', htext, hcode, hutf, decide_true, Bool.not_true,
    Bool.and_false, runHandler, hd]
  rfl


/-- step 5 refusing a data frame: the running sum exceeds the read limit -/
theorem afData_over (h : Hdr) (c : Conn) (len : Nat) (hrem : c.r.remaining = (len : Int)) (h0 : 0 ≤ lenBase h.opcode c)
    (h1 : lenBase h.opcode c + len < 9223372036854775808)
    (hlim : 0 < c.r.limit) (hover : c.r.limit < lenBase h.opcode c + len) :
    afData h c = (.error .readLimit, sendTooBig { c with r := { c.r with length := lenBase h.opcode c + len } }) := by
  unfold afData
  have hw : wrap64 ((if h.opcode == 0 then c.r.length else 0) + c.r.remaining) = lenBase h.opcode c + len := by
    rw [hrem]; exact AdvFrame.wrap64_id _ (by unfold lenBase at h0; omega) h1
  simp only [hw]
  rw [if_pos]
  simp only [Bool.or_eq_true, Bool.and_eq_true, decide_eq_true_eq]
  omega

end Helpers

open WS.AdvFrame

/-- C08 default_ping_pong, either role: a ping of 0..125 bytes reaches the ping handler once with its
    exact (unmasked) payload and the default handler answers with one pong carrying it -/
theorem ping_answered_any (c : Conn) (hc : AtBoundary c) (hw : WHealthy c.w) (hd : c.r.hPing = .dflt)
    (key : Key) (payload rest : Bytes) (hl : payload.length ≤ 125)
    (hp : c.r.buf.pending = PFrame.enc c.r.isServer ⟨9, true, key, payload⟩ ++ rest) :
    ∃ c', advanceFrame c = (.ok 9, c') ∧ c'.r.hlog = c.r.hlog ++ [.ping payload] ∧ c'.r.buf.pending = rest ∧
      c'.w.wire = c.w.wire ++ controlFrame c.w.isServer 10 payload (ctlKey c.w).1 ∧
      c'.r.readErr = none ∧ c'.r.final = c.r.final := by
  have hsz := hc.size
  have h7 : l7 payload.length = payload.length := by
    unfold l7; rw [if_neg (by omega), if_neg (by omega)]
  obtain ⟨b1, a1, a2, a3, a4⟩ := advance_prefix c hc rest 9 true key payload hp (by decide)
    (hdrErrs_ctl3 _ _ _ 9 _ (Or.inr (Or.inl rfl)) (by rw [h7]; exact hl)) (by omega)
  obtain ⟨b2, r1, r2, r3, r4⟩ := afRest_ctl ⟨9, true, false, false, false, c.r.isServer, l7 payload.length⟩
    { c with r := { c.r with buf := b1, remaining := (payload.length : Int), decompress := false, final := finalAfter 9 true c, maskPos := (if c.r.isServer then 0 else c.r.maskPos), maskKey := (if c.r.isServer then key else c.r.maskKey) } }
    key payload rest rfl rfl a3 (by have := a4.size; simp only [] at this ⊢; omega) a2
    (by intro h; simp only [] at h ⊢; rw [if_pos h])
  rw [r1] at a1
  have a1' := a1.trans (afDispatch_ping _ _ _ (by rfl) (by exact hd))
  have hwc := writeControl_healthy (emit c.w (Ev.hPing payload)) 10 payload hw (by decide) hl
  rw [ctlKey_emit] at hwc
  exact ⟨_, a1', rfl, r2, hwc.1, hc.noErr, rfl⟩

/-- C08 default_close_echo, either role -/
theorem close_echoed_any (c : Conn) (hc : AtBoundary c) (hw : WHealthy c.w) (hd : c.r.hClose = .dflt)
    (key : Key) (code : Nat) (reason rest : Bytes)
    (hcode : isValidReceivedCloseCode code = true) (hc16 : code < 65536) (hutf : Spec.validUtf8 reason = true)
    (hl : reason.length ≤ 123)
    (hp : c.r.buf.pending = PFrame.enc c.r.isServer ⟨8, true, key, beBytes 2 code ++ reason⟩ ++ rest) :
    ∃ c', advanceFrame c = (.error (.close code reason), c') ∧ c'.r.hlog = c.r.hlog ++ [.close code reason] ∧
      c'.w.wire = c.w.wire ++ controlFrame c.w.isServer 8 (closePayload code []) (ctlKey c.w).1 ∧
      c'.w.writeErr = some .closeSent := by
  have hsz := hc.size
  have hPl : (beBytes 2 code ++ reason).length = 2 + reason.length := by
    rw [List.length_append, beBytes_length]
  have h7 : l7 (beBytes 2 code ++ reason).length = (beBytes 2 code ++ reason).length := by
    unfold l7; rw [if_neg (by omega), if_neg (by omega)]
  obtain ⟨b1, a1, a2, a3, a4⟩ := advance_prefix c hc rest 8 true key (beBytes 2 code ++ reason) hp (by decide)
    (hdrErrs_ctl3 _ _ _ 8 _ (Or.inl rfl) (by rw [h7]; omega)) (by omega)
  obtain ⟨b2, r1, r2, r3, r4⟩ := afRest_ctl ⟨8, true, false, false, false, c.r.isServer, l7 (beBytes 2 code ++ reason).length⟩
    { c with r := { c.r with buf := b1, remaining := ((beBytes 2 code ++ reason).length : Int), decompress := false, final := finalAfter 8 true c, maskPos := (if c.r.isServer then 0 else c.r.maskPos), maskKey := (if c.r.isServer then key else c.r.maskKey) } }
    key (beBytes 2 code ++ reason) rest rfl rfl a3 (by have := a4.size; simp only [] at this ⊢; omega) a2
    (by intro h; simp only [] at h ⊢; rw [if_pos h])
  rw [r1] at a1
  have a1' := a1.trans (afDispatch_close _ _ (by rfl) (by exact hd) code reason hcode hc16 hutf)
  have hwc := writeControl_healthy (emit c.w (Ev.hClose code reason)) 8 (closePayload code []) hw (by decide)
    (closePayload_nil_len code)
  rw [ctlKey_emit] at hwc
  exact ⟨_, a1', rfl, hwc.1, hwc.2⟩

/-- C06 limit_refuses, either role, any of the three length encodings the writer can produce for a
    payload below 2^16: the data frame (first frame of a message, or a continuation when one is
    open) whose length takes the running sum over the limit is refused: ErrReadLimit, the payload is
    not consumed, a 1009 close frame is written -/
theorem limit_refuses_any (c : Conn) (hc : AtBoundary c) (hw : WHealthy c.w)
    (op : Nat) (fin : Bool) (key : Key) (payload rest : Bytes) (hl : payload.length < 65536)
    (hop : (c.r.final = true ∧ (op = 1 ∨ op = 2)) ∨ (c.r.final = false ∧ op = 0))
    (hp : c.r.buf.pending = PFrame.enc c.r.isServer ⟨op, fin, key, payload⟩ ++ rest)
    (hlim : 0 < c.r.limit) (hsum : 0 ≤ c.r.length) (hsmall : c.r.length < 2 ^ 62)
    (hover : c.r.limit < (if op = 0 then c.r.length else 0) + payload.length) :
    ∃ c', advanceFrame c = (.error .readLimit, c') ∧
      c'.r.buf.pending = (if c.r.isServer then maskFrom key 0 payload else payload) ++ rest ∧
      c'.r.hlog = c.r.hlog ∧
      c'.w.wire = c.w.wire ++ closeFrameBytes c.w (closePayload 1009 []) ∧ c'.w.writeErr = some .closeSent := by
  have hsz := hc.size
  have hop16 : op < 16 := by omega
  have herrs := hdrErrs_data c.r.isServer c.r.nego c.r.final fin op (l7 payload.length)
    (by rcases hop with ⟨h1, h2⟩ | ⟨h1, h2⟩
        · exact Or.inr ⟨h2, h1⟩
        · exact Or.inl ⟨h2, h1⟩)
  obtain ⟨b1, a1, a2, a3, a4⟩ := advance_prefix c hc rest op fin key payload hp hop16 herrs (by omega)
  have hopb : (op == 0 || op == 1 || op == 2) = true := by
    rcases hop with ⟨_, rfl | rfl⟩ | ⟨_, rfl⟩ <;> rfl
  have hb : lenBase op c = (if op = 0 then c.r.length else 0) := by
    unfold lenBase; simp only [beq_iff_eq]
  have hb0 : 0 ≤ lenBase op c := lenBase_nonneg op c hsum
  have hb1 : lenBase op c ≤ c.r.length := lenBase_le op c hsum
  unfold afRest at a1
  simp only [hopb, if_true] at a1
  have a1' := a1.trans (afData_over _ _ payload.length (by rfl) (by exact hb0)
    (by show lenBase op c + _ < _; omega) (by exact hlim)
    (by show c.r.limit < lenBase op c + _; rw [hb]; exact hover))
  refine ⟨_, a1', ?_, ?_, ?_, ?_⟩
  · exact a2
  · rfl
  · exact (sendTooBig_healthy _ (by exact hw)).2.1
  · exact (sendTooBig_healthy _ (by exact hw)).2.2

/-- the same at the API for an idle reader on a reachable state -/
theorem nextReader_over_limit_any (c : Conn) (hc : ReaderIdle c) (hi : CountInv c) (hw : WHealthy c.w)
    (t : Nat) (ht : t = 1 ∨ t = 2) (fin : Bool) (key : Key) (payload rest : Bytes) (hl : payload.length < 65536)
    (hp : c.r.buf.pending = PFrame.enc c.r.isServer ⟨t, fin, key, payload⟩ ++ rest)
    (hlim : 0 < c.r.limit) (hover : c.r.limit < payload.length) :
    ∃ c', nextReader c = (.err .readLimit, c') ∧ c'.r.readErr = some .readLimit ∧
      c'.w.wire = c.w.wire ++ closeFrameBytes c.w (closePayload 1009 []) := by
  have h0 : c.r.errCount = 0 := hi hc.noErr
  obtain ⟨c', ha, _, _, h3, _⟩ := limit_refuses_any (RobustAux.c0 c) (idle_c0_boundary c hc) hw t fin key payload rest hl
    (Or.inl ⟨hc.fin, ht⟩) hp hlim (Int.le_refl 0) (by show (0 : Int) < 2 ^ 62; decide)
    (by show c.r.limit < (if t = 0 then (0 : Int) else 0) + (payload.length : Int)
        split <;> omega)
  have hn := nextReader_adv_err c hc.noErr _ c' ha
  rw [h0, if_neg (by decide)] at hn
  exact ⟨_, hn, rfl, h3⟩

end WS.RoleGeneric
