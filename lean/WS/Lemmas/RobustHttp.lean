import WS.Model.Http
/-
  Helper lemmas for WS/Lemmas/Robust.lean (handshake side): takeWhile / dropWhile facts, skipSpace as
  a dropWhile, splitComma on comma-free prefixes, and what one round of the `1#token` list scanner
  computes on `OWS token OWS [ "," rest ]`.
-/
namespace WS.RobustAux
open WS WS.Http

/-! ### generic list facts -/

theorem takeWhile_length_le {α} (p : α → Bool) (l : List α) : (l.takeWhile p).length ≤ l.length := by
  have := congrArg List.length (List.takeWhile_append_dropWhile (p := p) (l := l))
  rw [List.length_append] at this; omega

theorem dropWhile_length_le {α} (p : α → Bool) (l : List α) : (l.dropWhile p).length ≤ l.length := by
  have := congrArg List.length (List.takeWhile_append_dropWhile (p := p) (l := l))
  rw [List.length_append] at this; omega

theorem mem_takeWhile {α} (p : α → Bool) (l : List α) : ∀ b ∈ l.takeWhile p, p b = true := by
  induction l with
  | nil => intro b hb; cases hb
  | cons a l ih =>
    intro b hb
    by_cases ha : p a = true
    · rw [List.takeWhile_cons_of_pos ha] at hb
      rcases List.mem_cons.mp hb with rfl | hb
      · exact ha
      · exact ih b hb
    · rw [List.takeWhile_cons_of_neg ha] at hb
      cases hb

theorem dropWhile_head_neg {α} (p : α → Bool) (l : List α) (c : α) (rest : List α)
    (h : l.dropWhile p = c :: rest) : ¬ p c = true := by
  induction l with
  | nil => cases h
  | cons x l ih =>
    by_cases hx : p x = true
    · rw [List.dropWhile_cons_of_pos hx] at h; exact ih h
    · rw [List.dropWhile_cons_of_neg hx] at h
      cases h; exact hx

/-! ### quoted strings -/

theorem quoted_rest_length (s : Bytes) (esc : Bool) (acc : Bytes) :
    (quotedAux s esc acc).2.length ≤ s.length := by
  induction s generalizing esc acc with
  | nil => unfold quotedAux; simp
  | cons b r ih =>
    cases esc with
    | true =>
      unfold quotedAux
      have := ih false (b :: acc)
      simp only [List.length_cons] at this ⊢
      omega
    | false =>
      unfold quotedAux
      split
      · have := ih true acc
        simp only [List.length_cons] at this ⊢
        omega
      · split
        · simp only [List.length_cons]; omega
        · have := ih false (b :: acc)
          simp only [List.length_cons] at this ⊢
          omega

/-! ### optional white space, token octets, commas -/

/-- SP / HT -/
def sp (b : UInt8) : Bool := b == 32 || b == 9

/-- not a comma -/
def nc (b : UInt8) : Bool := b != 44

theorem sp_iff (b : UInt8) : sp b = true ↔ b = 32 ∨ b = 9 := by
  unfold sp; simp

theorem skipSpace_eq (s : Bytes) : skipSpace s = s.dropWhile sp := by
  induction s with
  | nil => rfl
  | cons b r ih =>
    unfold skipSpace
    by_cases hb : sp b = true
    · rw [List.dropWhile_cons_of_pos hb, ← ih]
      unfold sp at hb
      rw [if_pos hb]
    · rw [List.dropWhile_cons_of_neg hb]
      unfold sp at hb
      rw [if_neg hb]

theorem tok_not_sp (b : UInt8) (h : isTokenOctet b = true) : ¬ sp b = true := by
  intro hs
  rcases (sp_iff b).mp hs with rfl | rfl
  · exact absurd h (by decide)
  · exact absurd h (by decide)

theorem sp_not_tok (b : UInt8) (h : sp b = true) : ¬ isTokenOctet b = true :=
  fun ht => tok_not_sp b ht h

theorem tok_ne_comma (b : UInt8) (h : isTokenOctet b = true) : b ≠ 44 := by
  rintro rfl; exact absurd h (by decide)

theorem sp_ne_comma (b : UInt8) (h : sp b = true) : b ≠ 44 := by
  rintro rfl; exact absurd h (by decide)

theorem skipSpace_split (s : Bytes) : ∃ pre, pre ++ skipSpace s = s ∧ ∀ b ∈ pre, sp b = true :=
  ⟨s.takeWhile sp, by rw [skipSpace_eq]; exact List.takeWhile_append_dropWhile, mem_takeWhile _ _⟩

theorem nextToken_split' (s : Bytes) :
    (nextToken s).1 ++ (nextToken s).2 = s ∧ ∀ b ∈ (nextToken s).1, isTokenOctet b = true := by
  unfold nextToken
  exact ⟨List.takeWhile_append_dropWhile, mem_takeWhile _ _⟩

/-! ### splitComma -/

theorem splitComma_cons (b : UInt8) (s : Bytes) :
    splitComma (b :: s) = if b == 44 then [] :: splitComma s else
      match splitComma s with
      | h :: t => (b :: h) :: t
      | [] => [[b]] := rfl

theorem splitComma_nocomma (p : Bytes) (h : ∀ b ∈ p, b ≠ 44) : splitComma p = [p] := by
  induction p with
  | nil => rfl
  | cons b p ih =>
    have hb : ¬ (b == 44) = true := by
      have := h b (List.mem_cons_self ..); simpa using this
    rw [splitComma_cons, if_neg hb, ih (fun x hx => h x (List.mem_cons_of_mem _ hx))]

theorem splitComma_append (p rest : Bytes) (h : ∀ b ∈ p, b ≠ 44) :
    splitComma (p ++ 44 :: rest) = p :: splitComma rest := by
  induction p with
  | nil => rw [List.nil_append, splitComma_cons, if_pos (by decide)]
  | cons b p ih =>
    have hb : ¬ (b == 44) = true := by
      have := h b (List.mem_cons_self ..); simpa using this
    rw [List.cons_append, splitComma_cons, if_neg hb, ih (fun x hx => h x (List.mem_cons_of_mem _ hx))]

/-- every string is a comma-free prefix, followed by nothing or by a comma and the rest -/
theorem comma_split (s : Bytes) : ∃ p, (∀ b ∈ p, b ≠ 44) ∧ (s = p ∨ ∃ rest, s = p ++ 44 :: rest) := by
  refine ⟨s.takeWhile nc, ?_, ?_⟩
  · intro b hb
    have := mem_takeWhile nc s b hb
    unfold nc at this
    simpa using this
  · have h := List.takeWhile_append_dropWhile (p := nc) (l := s)
    cases hd : s.dropWhile nc with
    | nil => left; rw [hd, List.append_nil] at h; exact h.symm
    | cons c rest =>
      right
      have hc : ¬ nc c = true := dropWhile_head_neg nc s c rest hd
      have hc' : c = 44 := by unfold nc at hc; simpa using hc
      subst hc'
      exact ⟨rest, by rw [hd] at h; exact h.symm⟩

theorem no_comma (a t w : Bytes) (ha : ∀ b ∈ a, sp b = true) (hw : ∀ b ∈ w, sp b = true)
    (htok : ∀ b ∈ t, isTokenOctet b = true) : ∀ b ∈ a ++ (t ++ w), b ≠ 44 := by
  intro b hb
  rcases List.mem_append.mp hb with hb | hb
  · exact sp_ne_comma b (ha b hb)
  · rcases List.mem_append.mp hb with hb | hb
    · exact tok_ne_comma b (htok b hb)
    · exact sp_ne_comma b (hw b hb)

/-! ### one round of the scanner -/

theorem dropWhile_sp_tok (t r : Bytes) (ht : t ≠ []) (htok : ∀ b ∈ t, isTokenOctet b = true) :
    (t ++ r).dropWhile sp = t ++ r := by
  cases t with
  | nil => exact absurd rfl ht
  | cons x t' =>
    rw [List.cons_append, List.dropWhile_cons_of_neg (tok_not_sp x (htok x (List.mem_cons_self ..)))]

theorem takeWhile_tok_stop (w tail : Bytes) (hw : ∀ b ∈ w, sp b = true) (htail : tail = [] ∨ ∃ rest, tail = 44 :: rest) :
    (w ++ tail).takeWhile isTokenOctet = [] ∧ (w ++ tail).dropWhile isTokenOctet = w ++ tail := by
  cases w with
  | nil =>
    rcases htail with rfl | ⟨rest, rfl⟩
    · exact ⟨rfl, rfl⟩
    · rw [List.nil_append]
      have h44 : ¬ isTokenOctet 44 = true := by decide
      exact ⟨List.takeWhile_cons_of_neg h44, List.dropWhile_cons_of_neg h44⟩
  | cons y w' =>
    have hy := sp_not_tok y (hw y (List.mem_cons_self ..))
    rw [List.cons_append]
    exact ⟨List.takeWhile_cons_of_neg hy, List.dropWhile_cons_of_neg hy⟩

/-- on `OWS token OWS tail` (tail empty or starting with a comma) the scanner reads exactly the token
    and then stands at `tail` -/
theorem scan_eq (a t w tail : Bytes) (ha : ∀ b ∈ a, sp b = true) (hw : ∀ b ∈ w, sp b = true)
    (ht : t ≠ []) (htok : ∀ b ∈ t, isTokenOctet b = true) (htail : tail = [] ∨ ∃ rest, tail = 44 :: rest) :
    nextToken (skipSpace (a ++ (t ++ (w ++ tail)))) = (t, w ++ tail) ∧ skipSpace (w ++ tail) = tail := by
  obtain ⟨h1, h2⟩ := takeWhile_tok_stop w tail hw htail
  constructor
  · rw [skipSpace_eq, List.dropWhile_append_of_pos ha, dropWhile_sp_tok t _ ht htok]
    unfold nextToken
    rw [List.takeWhile_append_of_pos htok, List.dropWhile_append_of_pos htok, h1, h2, List.append_nil]
  · rw [skipSpace_eq, List.dropWhile_append_of_pos hw]
    rcases htail with rfl | ⟨rest, rfl⟩
    · rfl
    · exact List.dropWhile_cons_of_neg (by decide)

/-- one unfolding of the scanner loop, with the `let`-bound pairs written as projections -/
theorem lca_succ (fuel : Nat) (s v : Bytes) : lineContainsAux (fuel+1) s v =
    if (nextToken (skipSpace s)).1.isEmpty then false else
     match skipSpace (nextToken (skipSpace s)).2 with
     | [] => equalASCIIFold (nextToken (skipSpace s)).1 v
     | c :: rest => if c != 44 then false
        else if equalASCIIFold (nextToken (skipSpace s)).1 v then true else lineContainsAux fuel rest v := rfl

end WS.RobustAux
