import WS.Model.Reader
import WS.Spec.Frame
import WS.Lemmas.Mask
import WS.Lemmas.Codec
import WS.Lemmas.SrcLaw
import WS.Lemmas.HdrLogic
import WS.Lemmas.SrcLaw2
import WS.Lemmas.AdvFrame
/-
  C03 / C08: the reader decodes a conformant peer stream, however it is fragmented, chunked by the
  transport, buffered and read; control frames between fragments reach their handlers exactly
  once, in wire order; abandoning a message part-way never skips, repeats or merges a later one.

  Frames are encoded by `WS.Codec.encode` for the *peer's* role (masked iff the reader is a
  server). The byte source is the bufio model of WS/Model/Source.lean; its stream law is proved in
  WS/Lemmas/SrcLaw.lean (take_ok / take_short / read_spec / skip_ok / skip_short) — use those
  lemmas, never unfold Buf.take / Buf.read / Buf.skip here.

-/
namespace WS.ReaderDecodes
open WS WS.Codec WS.SrcLaw

/-- a frame sent by the peer (uncompressed: RSV bits clear) -/
structure PFrame where
  op : Nat
  fin : Bool
  key : Key
  payload : Bytes
  deriving Repr

def PFrame.b0 (f : PFrame) : Nat := f.op + (if f.fin then 128 else 0)

/-- its bytes on the wire towards a reader of the given role -/
def PFrame.enc (readerIsServer : Bool) (f : PFrame) : Bytes := encode (!readerIsServer) f.b0 f.key f.payload

def encAll (readerIsServer : Bool) (fs : List PFrame) : Bytes := (fs.map (PFrame.enc readerIsServer)).flatten

def PFrame.isCtl (f : PFrame) : Bool := f.op == 9 || f.op == 10

/-- a conformant ping / pong -/
def PFrame.ctlOk (f : PFrame) : Prop := (f.op = 9 ∨ f.op = 10) ∧ f.fin = true ∧ f.payload.length ≤ 125

/-- the frames of one data message of type `t` with pings / pongs interleaved: `more` = the frames
    after the first data frame. The segment ends with the FIN data frame. -/
inductive Tail : List PFrame → Prop
  | last (f : PFrame) : f.op = 0 → f.fin = true → f.payload.length < 2 ^ 62 → Tail [f]
  | cont (f : PFrame) (fs : List PFrame) : f.op = 0 → f.fin = false → f.payload.length < 2 ^ 62 → Tail fs → Tail (f :: fs)
  | ctl (f : PFrame) (fs : List PFrame) : f.ctlOk → Tail fs → Tail (f :: fs)

inductive MsgShape (t : Nat) : List PFrame → Prop
  | single (f : PFrame) : f.op = t → f.fin = true → f.payload.length < 2 ^ 62 → MsgShape t [f]
  | frag (f : PFrame) (fs : List PFrame) : f.op = t → f.fin = false → f.payload.length < 2 ^ 62 → Tail fs → MsgShape t (f :: fs)
  | ctl (f : PFrame) (fs : List PFrame) : f.ctlOk → MsgShape t fs → MsgShape t (f :: fs)

/-- application payload of the message = concatenation of the data frames' payloads -/
def dataPayload (fs : List PFrame) : Bytes := ((fs.filter (fun f => !f.isCtl)).map (·.payload)).flatten

/-- handler invocations the control frames of a segment must cause, in wire order -/
def ctlEvents (fs : List PFrame) : List REv :=
  (fs.filter (·.isCtl)).map (fun f => if f.op == 9 then REv.ping f.payload else REv.pong f.payload)

/-- a reader between messages -/
structure ReaderIdle (c : Conn) : Prop where
  noErr : c.r.readErr = none
  rem : c.r.remaining = 0
  fin : c.r.final = true
  wf : WF c.r.buf
  size : 125 ≤ c.r.buf.size
  fuel : c.r.buf.pending.length ≤ c.r.buf.total
  hp : ∀ id, c.r.hPing ≠ .fail id
  hq : ∀ id, c.r.hPong ≠ .fail id


/-! ### helper lemmas -/
section Helpers
open WS.AdvFrame

/-- the application bytes behind `wire` (the rest of the current frame as it is on the wire) -/
def unmask (c : Conn) (wire : Bytes) : Bytes :=
  if c.r.isServer then maskFrom c.r.maskKey c.r.maskPos wire else wire

/-- buffer health and handler modes -/
structure Env (c : Conn) : Prop where
  wf : WF c.r.buf
  size : 125 ≤ c.r.buf.size
  fuel : c.r.buf.pending.length ≤ c.r.buf.total
  hp : ∀ id, c.r.hPing ≠ .fail id
  hq : ∀ id, c.r.hPong ≠ .fail id

/-- what no reader step changes -/
structure Keep (c c' : Conn) : Prop where
  isServer : c'.r.isServer = c.r.isServer
  limit : c'.r.limit = c.r.limit
  hPing : c'.r.hPing = c.r.hPing
  hPong : c'.r.hPong = c.r.hPong
  same : Same2 c.r.buf c'.r.buf

theorem Keep.refl (c : Conn) : Keep c c := ⟨rfl, rfl, rfl, rfl, Same2.refl _⟩

theorem Keep.trans {a b c : Conn} (h1 : Keep a b) (h2 : Keep b c) : Keep a c :=
  ⟨h2.isServer.trans h1.isServer, h2.limit.trans h1.limit, h2.hPing.trans h1.hPing, h2.hPong.trans h1.hPong,
    h1.same.trans h2.same⟩

theorem Env.step {c c' : Conn} (e : Env c) (k : Keep c c') (hwf : WF c'.r.buf)
    (hlen : c'.r.buf.pending.length ≤ c.r.buf.pending.length) : Env c' := by
  refine ⟨hwf, ?_, ?_, ?_, ?_⟩
  · rw [k.same.size]; exact e.size
  · rw [k.same.total]; exact Nat.le_trans hlen e.fuel
  · rw [k.hPing]; exact e.hp
  · rw [k.hPong]; exact e.hq

/-- no int64 overflow and no read-limit violation when `n` more payload bytes are counted -/
def LenOk (c : Conn) (n : Nat) : Prop :=
  c.r.length + (n : Int) < 9223372036854775808 ∧ (c.r.limit ≤ 0 ∨ c.r.length + (n : Int) ≤ c.r.limit)

theorem LenOk.mono {c : Conn} {n m : Nat} (h : LenOk c n) (hm : m ≤ n) : LenOk c m := by
  obtain ⟨h1, h2⟩ := h
  refine ⟨by omega, ?_⟩
  rcases h2 with h2 | h2
  · exact Or.inl h2
  · exact Or.inr (by omega)

theorem enc_length (S : Bool) (f : PFrame) :
    (f.enc S).length = 2 + (ext f.payload.length).length + (keyBytes S f.key).length + f.payload.length := by
  unfold PFrame.enc
  rw [encode_eq]
  simp only [List.length_cons, List.length_append, body_length]
  omega

@[simp] theorem encAll_nil (S : Bool) : encAll S [] = [] := rfl

@[simp] theorem encAll_cons (S : Bool) (f : PFrame) (fs : List PFrame) :
    encAll S (f :: fs) = f.enc S ++ encAll S fs := by
  simp [encAll]

theorem enc_ne_nil (S : Bool) (f : PFrame) : f.enc S ≠ [] := by
  intro h
  have := congrArg List.length h
  rw [enc_length, List.length_nil] at this
  omega

theorem encAll_ne_nil {t : Nat} {S : Bool} {fs : List PFrame} (h : MsgShape t fs) : encAll S fs ≠ [] := by
  cases h <;> simp [enc_ne_nil]

theorem isCtl_of_ctlOk {f : PFrame} (h : f.ctlOk) : f.isCtl = true := by
  unfold PFrame.isCtl
  rcases h.1 with h | h <;> simp [h]

theorem isCtl_of_data {f : PFrame} (h : f.op = 0 ∨ f.op = 1 ∨ f.op = 2) : f.isCtl = false := by
  unfold PFrame.isCtl
  rcases h with h | h | h <;> simp [h]

@[simp] theorem dataPayload_nil : dataPayload [] = [] := rfl
@[simp] theorem ctlEvents_nil : ctlEvents [] = [] := rfl

theorem dataPayload_ctl {f : PFrame} (fs : List PFrame) (h : f.isCtl = true) :
    dataPayload (f :: fs) = dataPayload fs := by
  simp [dataPayload, h]

theorem dataPayload_data {f : PFrame} (fs : List PFrame) (h : f.isCtl = false) :
    dataPayload (f :: fs) = f.payload ++ dataPayload fs := by
  simp [dataPayload, h]

theorem ctlEvents_ctl {f : PFrame} (fs : List PFrame) (h : f.isCtl = true) :
    ctlEvents (f :: fs) = ctlEv f.op f.payload :: ctlEvents fs := by
  simp [ctlEvents, h, ctlEv]

theorem ctlEvents_data {f : PFrame} (fs : List PFrame) (h : f.isCtl = false) :
    ctlEvents (f :: fs) = ctlEvents fs := by
  simp [ctlEvents, h]

/-- advanceFrame on a data frame of the peer -/
theorem adv_data (c : Conn) (wire tail : Bytes) (f : PFrame) (env : Env c)
    (hrem : c.r.remaining = (wire.length : Int))
    (hp : c.r.buf.pending = wire ++ (f.enc c.r.isServer ++ tail))
    (hop : (f.op = 0 ∧ c.r.final = false) ∨ ((f.op = 1 ∨ f.op = 2) ∧ c.r.final = true))
    (hlen : f.payload.length < 2 ^ 62) (h0 : 0 ≤ c.r.length) (hl : LenOk c f.payload.length) :
    ∃ c', advanceFrame c = (.ok f.op, c') ∧ Keep c c' ∧ Env c' ∧
      c'.r.readErr = c.r.readErr ∧ c'.r.msgReader = c.r.msgReader ∧ c'.r.nextId = c.r.nextId ∧
      c'.r.hlog = c.r.hlog ∧ c'.r.remaining = (f.payload.length : Int) ∧ c'.r.final = f.fin ∧
      c'.r.length = lenBase f.op c + f.payload.length ∧ c'.r.decompress = false ∧
      c'.r.buf.pending = body c.r.isServer f.key f.payload ++ tail ∧
      unmask c' (body c.r.isServer f.key f.payload) = f.payload ∧
      c'.r.buf.pending.length + 2 ≤ c.r.buf.pending.length := by
  have hb0 := lenBase_nonneg f.op c h0
  have hb1 := lenBase_le f.op c h0
  obtain ⟨b', h1, h2, h3, h4⟩ := advance_data_raw c wire tail f.op f.fin f.key f.payload hrem env.wf env.size
    hp hop hlen hb0 (by have := hl.1; omega)
    (by rcases hl.2 with h | h
        · exact Or.inl h
        · exact Or.inr (by omega))
  have hk : Keep c { c with r := { c.r with buf := b', remaining := (f.payload.length : Int), decompress := false, final := f.fin, maskPos := (if c.r.isServer then 0 else c.r.maskPos), maskKey := (if c.r.isServer then f.key else c.r.maskKey), length := lenBase f.op c + f.payload.length } } :=
    ⟨rfl, rfl, rfl, rfl, h4⟩
  have hpl : b'.pending.length + 2 ≤ c.r.buf.pending.length := by
    rw [h2, hp]
    simp only [List.length_append, enc_length, body_length]
    omega
  refine ⟨_, h1, hk, env.step hk h3 (by simp only []; omega), rfl, rfl, rfl, rfl, rfl, rfl, rfl, rfl, h2, ?_, hpl⟩
  unfold unmask body
  simp only []
  cases c.r.isServer
  · rfl
  · simp only [if_true]; exact maskFrom_involutive _ _ _

/-- advanceFrame on a ping / pong of the peer -/
theorem adv_ctl (c : Conn) (wire tail : Bytes) (f : PFrame) (env : Env c)
    (hrem : c.r.remaining = (wire.length : Int))
    (hp : c.r.buf.pending = wire ++ (f.enc c.r.isServer ++ tail)) (hf : f.ctlOk) :
    ∃ c', advanceFrame c = (.ok f.op, c') ∧ Keep c c' ∧ Env c' ∧
      c'.r.readErr = c.r.readErr ∧ c'.r.msgReader = c.r.msgReader ∧ c'.r.nextId = c.r.nextId ∧
      c'.r.hlog = c.r.hlog ++ [ctlEv f.op f.payload] ∧ c'.r.remaining = 0 ∧ c'.r.final = c.r.final ∧
      c'.r.length = c.r.length ∧
      c'.r.buf.pending = tail ∧
      c'.r.buf.pending.length + 2 ≤ c.r.buf.pending.length := by
  obtain ⟨hop, hfin, hlen⟩ := hf
  have hp' : c.r.buf.pending = wire ++ (Codec.encode (!c.r.isServer) (f.op + 128) f.key f.payload ++ tail) := by
    rw [hp]; simp [PFrame.enc, PFrame.b0, hfin]
  obtain ⟨b', w', h1, h2, h3, h4⟩ := advance_ctl_raw c wire tail f.op f.key f.payload hrem env.wf env.size
    hp' hop hlen env.hp env.hq
  have hk : Keep c { w := w', r := { c.r with buf := b', remaining := 0, decompress := false, maskPos := (if c.r.isServer then 0 else c.r.maskPos), maskKey := (if c.r.isServer then f.key else c.r.maskKey), hlog := c.r.hlog ++ [ctlEv f.op f.payload] } } :=
    ⟨rfl, rfl, rfl, rfl, h4⟩
  have hpl : b'.pending.length + 2 ≤ c.r.buf.pending.length := by
    rw [h2, hp]
    simp only [List.length_append, enc_length]
    omega
  exact ⟨_, h1, hk, env.step hk h3 (by simp only []; omega), rfl, rfl, rfl, rfl, rfl, rfl, rfl, h2, hpl⟩

@[simp] theorem unmask_nil (c : Conn) : unmask c [] = [] := by
  unfold unmask; split <;> rfl

@[simp] theorem unmask_length (c : Conn) (w : Bytes) : (unmask c w).length = w.length := by
  unfold unmask; split
  · simp
  · rfl

/-- the reader inside (or just before / after) a message: `wire` is what is left of the current frame
    on the wire, `more` the frames of the message still to come, `rest` what follows the message -/
structure St (S : Bool) (c : Conn) (wire : Bytes) (more : List PFrame) (rest : Bytes) : Prop where
  env : Env c
  srv : c.r.isServer = S
  noErr : c.r.readErr = none
  rem : c.r.remaining = (wire.length : Int)
  pend : c.r.buf.pending = wire ++ (encAll S more ++ rest)
  finT : c.r.final = true → more = []
  finF : c.r.final = false → Tail more
  len0 : 0 ≤ c.r.length
  tog : c.r.buf.t.together = false ∨ rest ≠ []

theorem St.congr {S : Bool} {c c' : Conn} {wire : Bytes} {more : List PFrame} {rest : Bytes}
    (h : St S c wire more rest) (h1 : c'.r.readErr = c.r.readErr) (h2 : c'.r.remaining = c.r.remaining)
    (h3 : c'.r.buf = c.r.buf) (h4 : c'.r.final = c.r.final) (h5 : c'.r.isServer = c.r.isServer)
    (h6 : c'.r.hPing = c.r.hPing) (h7 : c'.r.hPong = c.r.hPong) (h8 : 0 ≤ c'.r.length) :
    St S c' wire more rest := by
  refine ⟨⟨?_, ?_, ?_, ?_, ?_⟩, ?_, ?_, ?_, ?_, ?_, ?_, h8, ?_⟩
  · rw [h3]; exact h.env.wf
  · rw [h3]; exact h.env.size
  · rw [h3]; exact h.env.fuel
  · rw [h6]; exact h.env.hp
  · rw [h7]; exact h.env.hq
  · rw [h5]; exact h.srv
  · rw [h1]; exact h.noErr
  · rw [h2]; exact h.rem
  · rw [h3]; exact h.pend
  · rw [h4]; exact h.finT
  · rw [h4]; exact h.finF
  · rw [h3]; exact h.tog

theorem St.idle {S : Bool} {c : Conn} {more : List PFrame} {rest : Bytes} (h : St S c [] more rest)
    (hf : c.r.final = true) : ReaderIdle c ∧ c.r.buf.pending = rest := by
  have hm := h.finT hf
  subst hm
  refine ⟨⟨h.noErr, by simpa using h.rem, hf, h.env.wf, h.env.size, h.env.fuel, h.env.hp, h.env.hq⟩, ?_⟩
  simpa using h.pend

/-- a data frame is entered -/
theorem step_data (S : Bool) (c : Conn) (wire : Bytes) (f : PFrame) (fs : List PFrame) (rest : Bytes)
    (env : Env c) (srv : c.r.isServer = S) (noErr : c.r.readErr = none)
    (hrem : c.r.remaining = (wire.length : Int))
    (hp : c.r.buf.pending = wire ++ (f.enc S ++ (encAll S fs ++ rest)))
    (hop : (f.op = 0 ∧ c.r.final = false) ∨ ((f.op = 1 ∨ f.op = 2) ∧ c.r.final = true))
    (hlen : f.payload.length < 2 ^ 62) (h0 : 0 ≤ c.r.length)
    (tog : c.r.buf.t.together = false ∨ rest ≠ [])
    (hT : f.fin = true → fs = []) (hF : f.fin = false → Tail fs)
    (extra : Nat) (hl : LenOk c (f.payload.length + (dataPayload fs).length + extra)) :
    ∃ c', advanceFrame c = (.ok f.op, c') ∧ St S c' (body S f.key f.payload) fs rest ∧ Keep c c' ∧
      c'.r.msgReader = c.r.msgReader ∧ c'.r.nextId = c.r.nextId ∧ c'.r.hlog = c.r.hlog ∧
      c'.r.decompress = false ∧ LenOk c' ((dataPayload fs).length + extra) ∧
      unmask c' (body S f.key f.payload) = f.payload ∧
      c'.r.buf.pending.length < c.r.buf.pending.length := by
  subst srv
  have hb0 := lenBase_nonneg f.op c h0
  have hb1 := lenBase_le f.op c h0
  obtain ⟨c', a1, a2, a3, a4, a5, a6, a7, a8, a9, a10, a11, a12, a13, a14⟩ :=
    adv_data c wire (encAll c.r.isServer fs ++ rest) f env hrem hp hop hlen h0 (hl.mono (by omega))
  refine ⟨c', a1, ⟨a3, a2.isServer, ?_, ?_, ?_, ?_, ?_, ?_, ?_⟩, a2, a5, a6, a7, a11, ?_, a13, by omega⟩
  · rw [a4]; exact noErr
  · rw [a8, body_length]
  · exact a12
  · rw [a9]; exact hT
  · rw [a9]; exact hF
  · rw [a10]; omega
  · rw [a2.same.together]; exact tog
  · obtain ⟨l1, l2⟩ := hl
    refine ⟨?_, ?_⟩
    · rw [a10]; omega
    · rw [a10, a2.limit]
      rcases l2 with l2 | l2
      · exact Or.inl l2
      · exact Or.inr (by omega)

/-- one frame of the tail of a message (continuation, ping or pong) is passed -/
theorem step_tail (S : Bool) (c : Conn) (wire : Bytes) (more : List PFrame) (rest : Bytes)
    (hst : St S c wire more rest) (hfin : c.r.final = false) (extra : Nat)
    (hl : LenOk c ((dataPayload more).length + extra)) :
    ∃ t c' wire' more', advanceFrame c = (.ok t, c') ∧ (t == 1 || t == 2) = false ∧ St S c' wire' more' rest ∧
      Keep c c' ∧ c'.r.msgReader = c.r.msgReader ∧ c'.r.nextId = c.r.nextId ∧
      LenOk c' ((dataPayload more').length + extra) ∧
      unmask c' wire' ++ dataPayload more' = dataPayload more ∧
      c'.r.hlog ++ ctlEvents more' = c.r.hlog ++ ctlEvents more ∧
      c'.r.buf.pending.length < c.r.buf.pending.length := by
  have ht := hst.finF hfin
  have hp := hst.pend
  cases ht with
  | last f h1 h2 h3 =>
    have hd : f.isCtl = false := isCtl_of_data (Or.inl h1)
    rw [encAll_cons, List.append_assoc] at hp
    rw [dataPayload_data _ hd, List.length_append] at hl
    obtain ⟨c', a1, a2, a3, a4, a5, a6, a7, a8, a9, a10⟩ := step_data S c wire f [] rest hst.env hst.srv hst.noErr
      hst.rem hp (Or.inl ⟨h1, hfin⟩) h3 hst.len0 hst.tog (fun _ => rfl) (fun h => by rw [h2] at h; cases h) extra hl
    refine ⟨f.op, c', _, [], a1, by rw [h1]; rfl, a2, a3, a4, a5, a8, ?_, ?_, a10⟩
    · rw [a9, dataPayload_data _ hd]
    · rw [a6, ctlEvents_data _ hd]
  | cont f fs h1 h2 h3 h4 =>
    have hd : f.isCtl = false := isCtl_of_data (Or.inl h1)
    rw [encAll_cons, List.append_assoc] at hp
    rw [dataPayload_data _ hd, List.length_append] at hl
    obtain ⟨c', a1, a2, a3, a4, a5, a6, a7, a8, a9, a10⟩ := step_data S c wire f fs rest hst.env hst.srv hst.noErr
      hst.rem hp (Or.inl ⟨h1, hfin⟩) h3 hst.len0 hst.tog (fun h => by rw [h2] at h; cases h) (fun _ => h4) extra hl
    refine ⟨f.op, c', _, fs, a1, by rw [h1]; rfl, a2, a3, a4, a5, a8, ?_, ?_, a10⟩
    · rw [a9, dataPayload_data _ hd]
    · rw [a6, ctlEvents_data _ hd]
  | ctl f fs h1 h4 =>
    have hd : f.isCtl = true := isCtl_of_ctlOk h1
    rw [encAll_cons, List.append_assoc, ← hst.srv] at hp
    rw [dataPayload_ctl _ hd] at hl
    obtain ⟨c', a1, a2, a3, a4, a5, a6, a7, a8, a9, a10, a11, a12⟩ := adv_ctl c wire _ f hst.env hst.rem hp h1
    refine ⟨f.op, c', [], fs, a1, ?_, ⟨a3, a2.isServer.trans hst.srv, ?_, ?_, ?_, ?_, ?_, ?_, ?_⟩, a2, a5, a6, ?_, ?_, ?_, by omega⟩
    · rcases h1.1 with h | h <;> rw [h] <;> rfl
    · rw [a4]; exact hst.noErr
    · rw [a8]; rfl
    · rw [a11, hst.srv]; rfl
    · rw [a9, hfin]; intro h; cases h
    · intro _; exact h4
    · rw [a10]; exact hst.len0
    · rw [a2.same.together]; exact hst.tog
    · unfold LenOk at hl ⊢; rw [a10, a2.limit]; exact hl
    · rw [unmask_nil, List.nil_append, dataPayload_ctl _ hd]
    · rw [a7, ctlEvents_ctl _ hd, List.append_assoc]; rfl

/-- messageReader.Read inside a frame: a non-empty prefix of the rest of the frame, unmasked -/
theorem mrRead_data (S : Bool) (c : Conn) (rid k : Nat) (wire : Bytes) (more : List PFrame) (rest : Bytes)
    (hst : St S c wire more rest) (hw : wire ≠ []) (hk : 0 < k) (fuel : Nat) :
    ∃ out c' wire', mrReadLoop (fuel + 1) c rid k = ((out, none), c') ∧ out ≠ [] ∧ St S c' wire' more rest ∧
      Keep c c' ∧ c'.r.msgReader = c.r.msgReader ∧ c'.r.length = c.r.length ∧ c'.r.hlog = c.r.hlog ∧
      unmask c wire = out ++ unmask c' wire' ∧ c'.r.buf.pending.length < c.r.buf.pending.length := by
  have hwl : 0 < wire.length := List.length_pos_iff.mpr hw
  have hpos : c.r.remaining > 0 := by rw [hst.rem]; omega
  have hk' : 0 < min k c.r.remaining.toNat := by omega
  have hend : c.r.buf.t.together = false ∨ encAll S more ++ rest ≠ [] := by
    rcases hst.tog with h | h
    · exact Or.inl h
    · right; intro hc; exact h (List.append_eq_nil_iff.mp hc).2
  obtain ⟨bs, b', r1, r2, r3, r4, r5, r6, r7⟩ := read_exact c.r.buf hst.env.wf _ hk' wire _ hst.pend
    (by have := hst.rem; omega) hend
  have hbl : 0 < bs.length := List.length_pos_iff.mpr r2
  have hwl' : wire.length = bs.length + (wire.drop bs.length).length := by
    simp only [List.length_drop]; omega
  unfold mrReadLoop
  simp only [hst.noErr]
  rw [if_pos hpos, r1]
  simp only []
  have he : (if ((decide (c.r.remaining - (bs.length : Int) > 0) || !c.r.final) && decide ((none : Option RErr) = some RErr.eof)) = true
      then some RErr.unexpectedEOF else (none : Option RErr)) = none := by simp
  simp only [he]
  have hk : Keep c { c with r := { c.r with buf := b', readErr := none, remaining := c.r.remaining - (bs.length : Int), maskPos := if c.r.isServer then (c.r.maskPos + bs.length) % 4 else c.r.maskPos } } :=
    ⟨rfl, rfl, rfl, rfl, r7⟩
  have hpl : b'.pending.length < c.r.buf.pending.length := by
    rw [r5, hst.pend]
    simp only [List.length_append, List.length_drop]
    omega
  refine ⟨_, _, wire.drop bs.length, rfl, ?_, ⟨hst.env.step hk r6 (by simp only []; omega), hst.srv, rfl, ?_, r5,
    hst.finT, hst.finF, hst.len0, ?_⟩, hk, rfl, rfl, rfl, ?_, hpl⟩
  · cases c.r.isServer
    · exact r2
    · simp only [if_true]
      intro hc
      exact r2 (by simpa using congrArg List.length hc)
  · simp only []
    have := hst.rem
    omega
  · simp only []
    rw [r7.together]; exact hst.tog
  · unfold unmask
    simp only []
    cases c.r.isServer
    · exact r4
    · simp only [if_true]
      conv => lhs; rw [r4, maskFrom_append]
      congr 1
      exact maskFrom_congr _ (by omega) _

/-- one messageReader.Read: either a non-empty piece of the rest of the message (after passing any
    number of pings, pongs and empty fragments), or end-of-message -/
theorem mrReadLoop_spec (S : Bool) (rid k : Nat) (hk : 0 < k) (rest : Bytes) (fuel : Nat) :
    ∀ (c : Conn) (wire : Bytes) (more : List PFrame), St S c wire more rest → c.r.msgReader = some rid →
      LenOk c (dataPayload more).length → c.r.buf.pending.length < fuel →
      (∃ out c' wire' more', mrReadLoop fuel c rid k = ((out, none), c') ∧ out ≠ [] ∧ St S c' wire' more' rest ∧
        Keep c c' ∧ c'.r.msgReader = some rid ∧ LenOk c' (dataPayload more').length ∧
        unmask c wire ++ dataPayload more = out ++ (unmask c' wire' ++ dataPayload more') ∧
        c'.r.hlog ++ ctlEvents more' = c.r.hlog ++ ctlEvents more ∧
        c'.r.buf.pending.length < c.r.buf.pending.length) ∨
      (∃ c', mrReadLoop fuel c rid k = (([], some .eof), c') ∧ unmask c wire ++ dataPayload more = [] ∧
        St S c' [] [] rest ∧ c'.r.final = true ∧ Keep c c' ∧ c'.r.msgReader = none ∧
        c'.r.hlog = c.r.hlog ++ ctlEvents more ∧ LenOk c' 0) := by
  induction fuel with
  | zero => intro c wire more _ _ _ h; omega
  | succ fuel ih =>
    intro c wire more hst hm hl hf
    by_cases hw : wire = []
    · subst hw
      have hrem : ¬ c.r.remaining > 0 := by have := hst.rem; simp at this; omega
      cases hfin : c.r.final with
      | true =>
        right
        have hmore := hst.finT hfin
        subst hmore
        unfold mrReadLoop
        simp only [hst.noErr]
        rw [if_neg hrem]
        simp only [hfin, if_true]
        refine ⟨_, rfl, by simp, hst.congr hst.noErr.symm rfl rfl hfin.symm rfl rfl rfl hst.len0, rfl, ⟨rfl, rfl, rfl, rfl, Same2.refl _⟩,
          rfl, by simp, ?_⟩
        exact (by simpa using hl : LenOk c 0)
      | false =>
        obtain ⟨t, c', wire', more', a1, a2, a3, a4, a5, a6, a7, a8, a9, a10⟩ :=
          step_tail S c [] more rest hst hfin 0 (by simpa using hl)
        have hstep : mrReadLoop (fuel + 1) c rid k = mrReadLoop fuel c' rid k := by
          conv => lhs; unfold mrReadLoop
          simp only [hst.noErr]
          rw [if_neg hrem]
          simp only [hfin, Bool.false_eq_true, if_false, a1, a2]
        rw [hstep]
        rcases ih c' wire' more' a3 (by rw [a5]; exact hm) (by simpa using a7) (by omega) with
          ⟨out, c2, w2, m2, b1, b2, b3, b4, b5, b6, b7, b8, b9⟩ | ⟨c2, b1, b2, b3, b4, b5, b6, b7, b8⟩
        · left
          refine ⟨out, c2, w2, m2, b1, b2, b3, a4.trans b4, b5, b6, ?_, ?_, by omega⟩
          · rw [unmask_nil, List.nil_append, ← a8, b7]
          · rw [b8, a9]
        · right
          refine ⟨c2, b1, ?_, b3, b4, a4.trans b5, b6, ?_, b8⟩
          · rw [unmask_nil, List.nil_append, ← a8, b2]
          · rw [b7, a9]
    · left
      obtain ⟨out, c', wire', a1, a2, a3, a4, a5, a6, a7, a8, a9⟩ := mrRead_data S c rid k wire more rest hst hw hk fuel
      refine ⟨out, c', wire', more, a1, a2, a3, a4, by rw [a5]; exact hm, ?_, ?_, by rw [a7], a9⟩
      · unfold LenOk at hl ⊢; rw [a6, a4.limit]; exact hl
      · rw [a8, List.append_assoc]

/-- reading a message to its end -/
theorem readAllLoop_spec (S : Bool) (rid k : Nat) (hk : 0 < k) (rest : Bytes) (fuel : Nat) :
    ∀ (c : Conn) (wire : Bytes) (more : List PFrame) (acc : List Bytes), St S c wire more rest →
      c.r.msgReader = some rid → LenOk c (dataPayload more).length → c.r.buf.pending.length < fuel →
      ∃ c2, readAllLoop fuel c rid k acc = ((acc.reverse.flatten ++ (unmask c wire ++ dataPayload more), none), c2) ∧
        St S c2 [] [] rest ∧ c2.r.final = true ∧ Keep c c2 ∧ c2.r.hlog = c.r.hlog ++ ctlEvents more := by
  induction fuel with
  | zero => intro c wire more acc _ _ _ h; omega
  | succ fuel ih =>
    intro c wire more acc hst hm hl hf
    have hmr : mrRead c rid k = mrReadLoop (c.fuel + 1) c rid k := by
      unfold mrRead
      rw [if_neg (by rw [hm]; simp)]
    have hcf : c.r.buf.pending.length < c.fuel + 1 := by
      have := hst.env.fuel
      unfold Conn.fuel; omega
    unfold readAllLoop
    rw [hmr]
    rcases mrReadLoop_spec S rid k hk rest (c.fuel + 1) c wire more hst hm hl hcf with
      ⟨out, c2, w2, m2, b1, b2, b3, b4, b5, b6, b7, b8, b9⟩ | ⟨c2, b1, b2, b3, b4, b5, b6, b7, b8⟩
    · rw [b1]
      simp only []
      obtain ⟨c3, d1, d2, d3, d4, d5⟩ := ih c2 w2 m2 (out :: acc) b3 b5 b6 (by omega)
      refine ⟨c3, ?_, d2, d3, b4.trans d4, ?_⟩
      · rw [d1, b7]
        simp [List.append_assoc]
      · rw [d5, b8]
    · rw [b1]
      simp only []
      refine ⟨c2, ?_, b3, b4, b5, b7⟩
      rw [b2]; simp

/-- the loop of NextReader: whatever is left of an abandoned message is skipped (its pings and pongs
    still reach the handlers), then the next message is opened -/
theorem nextReaderLoop_spec (S : Bool) (t : Nat) (ht : t = 1 ∨ t = 2) (rest : Bytes) (fuel : Nat) :
    ∀ (c : Conn) (wire : Bytes) (more fs2 : List PFrame), St S c wire more (encAll S fs2 ++ rest) →
      MsgShape t fs2 → (c.r.buf.t.together = false ∨ rest ≠ []) →
      LenOk c ((dataPayload more).length + (dataPayload fs2).length) → c.r.buf.pending.length < fuel →
      ∃ c1 wire1 more1, nextReaderLoop fuel c = (.msg t c.r.nextId false, c1) ∧ St S c1 wire1 more1 rest ∧
        Keep c c1 ∧ c1.r.msgReader = some c.r.nextId ∧ LenOk c1 (dataPayload more1).length ∧
        unmask c1 wire1 ++ dataPayload more1 = dataPayload fs2 ∧
        c1.r.hlog ++ ctlEvents more1 = c.r.hlog ++ ctlEvents more ++ ctlEvents fs2 := by
  induction fuel with
  | zero => intro c wire more fs2 _ _ _ _ h; omega
  | succ fuel ih =>
    intro c wire more fs2 hst hs htog hl hf
    cases hfin : c.r.final with
    | false =>
      obtain ⟨t', c', wire', more', a1, a2, a3, a4, a5, a6, a7, a8, a9, a10⟩ :=
        step_tail S c wire more _ hst hfin _ hl
      have hstep : nextReaderLoop (fuel + 1) c = nextReaderLoop fuel c' := by
        conv => lhs; unfold nextReaderLoop
        simp only [hst.noErr, a1, a2, Bool.false_eq_true, if_false]
      rw [hstep]
      obtain ⟨c1, w1, m1, b1, b2, b3, b4, b5, b6, b7⟩ := ih c' wire' more' fs2 a3 hs
        (by rw [a4.same.together]; exact htog) a7 (by omega)
      refine ⟨c1, w1, m1, by rw [b1, a6], b2, a4.trans b3, by rw [b4, a6], b5, b6, ?_⟩
      rw [b7, a9]
    | true =>
      have hmore := hst.finT hfin
      subst hmore
      have hp := hst.pend
      simp only [encAll_nil, List.nil_append] at hp
      cases hs with
      | single f h1 h2 h3 =>
        have hd : f.isCtl = false := isCtl_of_data (by omega)
        simp only [encAll_cons, encAll_nil, List.append_nil] at hp
        rw [← List.append_nil (f.enc S ++ rest)] at hp
        have hp' : c.r.buf.pending = wire ++ (f.enc S ++ (encAll S [] ++ rest)) := by
          rw [hp]; simp
        obtain ⟨c', a1, a2, a3, a4, a5, a6, a7, a8, a9, a10⟩ := step_data S c wire f [] rest hst.env hst.srv hst.noErr
          hst.rem hp' (Or.inr ⟨by omega, hfin⟩) h3 hst.len0 htog (fun _ => rfl) (fun h => by rw [h2] at h; cases h) 0
          (by simpa [dataPayload_data _ hd] using hl)
        have htb : (t == 1 || t == 2) = true := by rcases ht with h | h <;> rw [h] <;> rfl
        refine ⟨{ c' with r := { c'.r with msgReader := some c'.r.nextId, nextId := c'.r.nextId + 1 } }, _, [], ?_,
          a2.congr rfl rfl rfl rfl rfl rfl rfl a2.len0, ⟨a3.isServer, a3.limit, a3.hPing, a3.hPong, a3.same⟩, ?_, ?_, ?_, ?_⟩
        · unfold nextReaderLoop
          simp only [hst.noErr, a1, htb, if_true, a7, h1, a5]
        · simp only [a5]
        · exact a8
        · show unmask c' _ ++ _ = _
          rw [a9, dataPayload_data _ hd]
        · simp only [a6, ctlEvents_data _ hd, ctlEvents_nil, List.append_nil]
      | frag f fs h1 h2 h3 h4 =>
        have hd : f.isCtl = false := isCtl_of_data (by omega)
        rw [encAll_cons, List.append_assoc] at hp
        obtain ⟨c', a1, a2, a3, a4, a5, a6, a7, a8, a9, a10⟩ := step_data S c wire f fs rest hst.env hst.srv hst.noErr
          hst.rem hp (Or.inr ⟨by omega, hfin⟩) h3 hst.len0 htog (fun h => by rw [h2] at h; cases h) (fun _ => h4) 0
          (by simpa [dataPayload_data _ hd] using hl)
        have htb : (t == 1 || t == 2) = true := by rcases ht with h | h <;> rw [h] <;> rfl
        refine ⟨{ c' with r := { c'.r with msgReader := some c'.r.nextId, nextId := c'.r.nextId + 1 } }, _, fs, ?_,
          a2.congr rfl rfl rfl rfl rfl rfl rfl a2.len0, ⟨a3.isServer, a3.limit, a3.hPing, a3.hPong, a3.same⟩, ?_, ?_, ?_, ?_⟩
        · unfold nextReaderLoop
          simp only [hst.noErr, a1, htb, if_true, a7, h1, a5]
        · simp only [a5]
        · exact (by simpa using a8 : LenOk c' _)
        · show unmask c' _ ++ _ = _
          rw [a9, dataPayload_data _ hd]
        · simp only [a6, ctlEvents_data _ hd, ctlEvents_nil, List.append_nil]
      | ctl f fs h1 h4 =>
        have hd : f.isCtl = true := isCtl_of_ctlOk h1
        rw [encAll_cons, List.append_assoc, ← hst.srv] at hp
        obtain ⟨c', a1, a2, a3, a4, a5, a6, a7, a8, a9, a10, a11, a12⟩ := adv_ctl c wire _ f hst.env hst.rem hp h1
        have htb : (f.op == 1 || f.op == 2) = false := by rcases h1.1 with h | h <;> rw [h] <;> rfl
        have hstep : nextReaderLoop (fuel + 1) c = nextReaderLoop fuel c' := by
          conv => lhs; unfold nextReaderLoop
          simp only [hst.noErr, a1, htb, Bool.false_eq_true, if_false]
        rw [hstep]
        have hst' : St S c' [] [] (encAll S fs ++ rest) := by
          refine ⟨a3, a2.isServer.trans hst.srv, ?_, ?_, ?_, fun _ => rfl, ?_, ?_, ?_⟩
          · rw [a4]; exact hst.noErr
          · rw [a8]; rfl
          · rw [a11, hst.srv]; rfl
          · rw [a9, hfin]; intro h; cases h
          · rw [a10]; exact hst.len0
          · right; intro hc
            exact encAll_ne_nil h4 (List.append_eq_nil_iff.mp hc).1
        obtain ⟨c1, w1, m1, b1, b2, b3, b4, b5, b6, b7⟩ := ih c' [] [] fs hst' h4
          (by rw [a2.same.together]; exact htog)
          (by unfold LenOk at hl ⊢; rw [a10, a2.limit]; simpa [dataPayload_ctl _ hd] using hl) (by omega)
        refine ⟨c1, w1, m1, by rw [b1, a6], b2, a2.trans b3, by rw [b4, a6], b5, ?_, ?_⟩
        · rw [b6, dataPayload_ctl _ hd]
        · rw [b7, a7, ctlEvents_ctl _ hd]; simp

/-- NextReader from any point of a (possibly abandoned) message `more`, followed by message `fs2` -/
theorem nextReader_spec (S : Bool) (t : Nat) (ht : t = 1 ∨ t = 2) (rest : Bytes) (c : Conn) (wire : Bytes)
    (more fs2 : List PFrame)
    (hst : St S { c with r := { c.r with msgReader := none, length := 0 } } wire more (encAll S fs2 ++ rest))
    (hs : MsgShape t fs2) (htog : c.r.buf.t.together = false ∨ rest ≠ [])
    (hl1 : (dataPayload more).length + (dataPayload fs2).length < 2 ^ 63)
    (hl2 : c.r.limit ≤ 0 ∨ (((dataPayload more).length + (dataPayload fs2).length : Nat) : Int) ≤ c.r.limit) :
    ∃ c1 rid wire1 more1, nextReader c = (.msg t rid false, c1) ∧ St S c1 wire1 more1 rest ∧ Keep c c1 ∧
      c1.r.msgReader = some rid ∧ LenOk c1 (dataPayload more1).length ∧
      unmask c1 wire1 ++ dataPayload more1 = dataPayload fs2 ∧
      c1.r.hlog ++ ctlEvents more1 = c.r.hlog ++ ctlEvents more ++ ctlEvents fs2 := by
  have hfuel : ({ c with r := { c.r with msgReader := none, length := 0 } } : Conn).r.buf.pending.length <
      Conn.fuel { c with r := { c.r with msgReader := none, length := 0 } } := by
    have := hst.env.fuel
    unfold Conn.fuel
    simp only [] at this ⊢
    omega
  have hl0 : LenOk { c with r := { c.r with msgReader := none, length := 0 } }
      ((dataPayload more).length + (dataPayload fs2).length) := by
    unfold LenOk
    simp only []
    refine ⟨by omega, ?_⟩
    rcases hl2 with h | h
    · exact Or.inl h
    · exact Or.inr (by omega)
  obtain ⟨c1, w1, m1, b1, b2, b3, b4, b5, b6, b7⟩ := nextReaderLoop_spec S t ht rest _
    { c with r := { c.r with msgReader := none, length := 0 } } wire more fs2 hst hs htog hl0 hfuel
  refine ⟨c1, c.r.nextId, w1, m1, ?_, b2, ⟨b3.isServer, b3.limit, b3.hPing, b3.hPong, b3.same⟩, b4, b5, b6, b7⟩
  have hne : c.r.readErr = none := hst.noErr
  unfold nextReader
  simp only [hne] at b1 ⊢
  simp only [b1]

theorem readAll_spec (S : Bool) (rid k : Nat) (hk : 0 < k) (rest : Bytes) (c : Conn) (wire : Bytes)
    (more : List PFrame) (hst : St S c wire more rest) (hm : c.r.msgReader = some rid)
    (hl : LenOk c (dataPayload more).length) :
    ∃ c2, readAll c rid k = ((unmask c wire ++ dataPayload more, none), c2) ∧ ReaderIdle c2 ∧
      c2.r.buf.pending = rest ∧ c2.r.hlog = c.r.hlog ++ ctlEvents more := by
  have hf : c.r.buf.pending.length < c.fuel + 2 := by
    have := hst.env.fuel
    unfold Conn.fuel; omega
  obtain ⟨c2, d1, d2, d3, d4, d5⟩ := readAllLoop_spec S rid k hk rest (c.fuel + 2) c wire more [] hst hm hl hf
  obtain ⟨i1, i2⟩ := d2.idle d3
  refine ⟨c2, ?_, i1, i2, d5⟩
  unfold readAll
  rw [d1]
  simp

theorem open_and_read (S : Bool) (t : Nat) (ht : t = 1 ∨ t = 2) (rest : Bytes) (c : Conn) (wire : Bytes)
    (more fs2 : List PFrame)
    (hst : St S { c with r := { c.r with msgReader := none, length := 0 } } wire more (encAll S fs2 ++ rest))
    (hs : MsgShape t fs2) (htog : c.r.buf.t.together = false ∨ rest ≠ [])
    (hl1 : (dataPayload more).length + (dataPayload fs2).length < 2 ^ 63)
    (hl2 : c.r.limit ≤ 0 ∨ (((dataPayload more).length + (dataPayload fs2).length : Nat) : Int) ≤ c.r.limit)
    (k : Nat) (hk : 0 < k) :
    ∃ c1 rid, nextReader c = (.msg t rid false, c1) ∧
      ∃ c2, readAll c1 rid k = ((dataPayload fs2, none), c2) ∧ ReaderIdle c2 ∧ c2.r.buf.pending = rest ∧
        c2.r.hlog = c.r.hlog ++ ctlEvents more ++ ctlEvents fs2 := by
  obtain ⟨c1, rid, w1, m1, b1, b2, b3, b4, b5, b6, b7⟩ := nextReader_spec S t ht rest c wire more fs2 hst hs htog hl1 hl2
  obtain ⟨c2, d1, d2, d3, d4⟩ := readAll_spec S rid k hk rest c1 w1 m1 b2 b4 b5
  refine ⟨c1, rid, b1, c2, ?_, d2, d3, ?_⟩
  · rw [d1, b6]
  · rw [d4, b7]

theorem idle_St (c : Conn) (hc : ReaderIdle c) (fs : List PFrame) (rest : Bytes)
    (hp : c.r.buf.pending = encAll c.r.isServer fs ++ rest) (htog : c.r.buf.t.together = false ∨ rest ≠ []) :
    St c.r.isServer { c with r := { c.r with msgReader := none, length := 0 } } [] [] (encAll c.r.isServer fs ++ rest) := by
  refine ⟨⟨hc.wf, hc.size, hc.fuel, hc.hp, hc.hq⟩, rfl, hc.noErr, ?_, ?_, fun _ => rfl, ?_, Int.le_refl 0, ?_⟩
  · show c.r.remaining = _
    rw [hc.rem]; rfl
  · show c.r.buf.pending = _
    rw [hp]; simp
  · intro h
    have h' : c.r.final = false := h
    rw [hc.fin] at h'; cases h'
  · rcases htog with h | h
    · exact Or.inl h
    · right; intro hcn; exact h (List.append_eq_nil_iff.mp hcn).2


end Helpers

/-- C03 core (one message): from an idle reader whose pending bytes start with a conformant
    message (any fragmentation incl. empty frames, any keys, pings / pongs between fragments),
    NextReader returns its type, and reading it to the end with reads of any size `k` yields
    exactly its payload and then end-of-message; the reader is idle again at the first byte after
    the message, and the handlers saw exactly the interleaved control frames, in order.
    (`together = false ∨ rest ≠ []`: when the transport reports its terminal error together with the
    very last payload bytes of the stream, the last Read reports that error instead.) -/
theorem read_message (c : Conn) (hc : ReaderIdle c) (t : Nat) (ht : t = 1 ∨ t = 2) (fs : List PFrame)
    (hs : MsgShape t fs) (rest : Bytes)
    (hp : c.r.buf.pending = encAll c.r.isServer fs ++ rest)
    (hend : c.r.buf.t.together = false ∨ rest ≠ [])
    (hsz : (dataPayload fs).length < 2 ^ 62)
    (hlim : c.r.limit ≤ 0 ∨ ((dataPayload fs).length : Int) ≤ c.r.limit)
    (k : Nat) (hk : 0 < k) :
    ∃ c1 rid, nextReader c = (.msg t rid false, c1) ∧
      ∃ c2, readAll c1 rid k = ((dataPayload fs, none), c2) ∧ ReaderIdle c2 ∧ c2.r.buf.pending = rest ∧
        c2.r.hlog = c.r.hlog ++ ctlEvents fs := by
  have hst := idle_St c hc fs rest hp hend
  obtain ⟨c1, rid, h1, c2, h2, h3, h4, h5⟩ := open_and_read c.r.isServer t ht rest c [] [] fs hst hs hend
    (by simp; omega) (by simpa using hlim) k hk
  exact ⟨c1, rid, h1, c2, h2, h3, h4, by simpa using h5⟩

/-- reads of arbitrary sizes on reader `rid`, results discarded (an application that reads part of
    a message) -/
def partialReads (c : Conn) (rid : Nat) : List Nat → Conn
  | [] => c
  | k :: ks => partialReads (mrRead c rid (k + 1)).2 rid ks

section Helpers2
open WS.AdvFrame

/-- the reader after some reads on reader `rid` of the message opened by NextReader -/
def Ab (S : Bool) (rid : Nat) (rest1 : Bytes) (H : List REv) (n : Nat) (tg : Bool) (c : Conn) : Prop :=
  ∃ wire more, St S c wire more rest1 ∧ (c.r.msgReader = some rid ∨ c.r.msgReader = none) ∧
    LenOk c (dataPayload more).length ∧ wire.length + (dataPayload more).length ≤ n ∧
    c.r.hlog ++ ctlEvents more = H ∧ c.r.limit ≤ 0 ∧ c.r.buf.t.together = tg

theorem partialReads_spec (S : Bool) (rid : Nat) (rest1 : Bytes) (H : List REv) (n : Nat) (tg : Bool) :
    ∀ (reads : List Nat) (c : Conn), Ab S rid rest1 H n tg c → Ab S rid rest1 H n tg (partialReads c rid reads) := by
  intro reads
  induction reads with
  | nil => intro c h; exact h
  | cons k ks ih =>
    intro c h
    unfold partialReads
    apply ih
    obtain ⟨wire, more, hst, hm, hl, hn, hH, hlim, htg⟩ := h
    by_cases hmr : c.r.msgReader = some rid
    · have hmrd : mrRead c rid (k + 1) = mrReadLoop (c.fuel + 1) c rid (k + 1) := by
        unfold mrRead
        rw [if_neg (by rw [hmr]; simp)]
      have hcf : c.r.buf.pending.length < c.fuel + 1 := by
        have := hst.env.fuel
        unfold Conn.fuel; omega
      rw [hmrd]
      rcases mrReadLoop_spec S rid (k + 1) (by omega) rest1 (c.fuel + 1) c wire more hst hmr hl hcf with
        ⟨out, c2, w2, m2, b1, b2, b3, b4, b5, b6, b7, b8, b9⟩ | ⟨c2, b1, b2, b3, b4, b5, b6, b7, b8⟩
      · rw [b1]
        refine ⟨w2, m2, b3, Or.inl b5, b6, ?_, by rw [b8, hH], by rw [b4.limit]; exact hlim,
          by rw [b4.same.together]; exact htg⟩
        have := congrArg List.length b7
        simp only [List.length_append, unmask_length] at this
        omega
      · rw [b1]
        refine ⟨[], [], b3, Or.inr b6, b8, by simp, by rw [b7, hH]; simp, by rw [b5.limit]; exact hlim,
          by rw [b5.same.together]; exact htg⟩
    · have hmrd : mrRead c rid (k + 1) = (([], some .eof), c) := by
        unfold mrRead
        rw [if_pos hmr]
      rw [hmrd]
      exact ⟨wire, more, hst, hm, hl, hn, hH, hlim, htg⟩

end Helpers2

/-- C03 (abandonment): after opening a message and reading any part of it (or nothing, or all of
    it), the next NextReader returns the *following* message, complete and unmixed. -/
theorem abandon_then_next (c : Conn) (hc : ReaderIdle c) (t1 t2 : Nat) (ht1 : t1 = 1 ∨ t1 = 2) (ht2 : t2 = 1 ∨ t2 = 2)
    (fs1 fs2 : List PFrame) (hs1 : MsgShape t1 fs1) (hs2 : MsgShape t2 fs2) (rest : Bytes)
    (hp : c.r.buf.pending = encAll c.r.isServer fs1 ++ encAll c.r.isServer fs2 ++ rest)
    (hend : c.r.buf.t.together = false ∨ rest ≠ [])
    (hsz : (dataPayload fs1).length < 2 ^ 62 ∧ (dataPayload fs2).length < 2 ^ 62)
    (hlim : c.r.limit ≤ 0)
    (reads : List Nat) (k : Nat) (hk : 0 < k) :
    ∃ c1 rid1, nextReader c = (.msg t1 rid1 false, c1) ∧
      ∃ c3 rid2, nextReader (partialReads c1 rid1 reads) = (.msg t2 rid2 false, c3) ∧
        ∃ c4, readAll c3 rid2 k = ((dataPayload fs2, none), c4) ∧ ReaderIdle c4 ∧ c4.r.buf.pending = rest ∧
          c4.r.hlog = c.r.hlog ++ ctlEvents fs1 ++ ctlEvents fs2 := by
  have hp' : c.r.buf.pending = encAll c.r.isServer fs1 ++ (encAll c.r.isServer fs2 ++ rest) := by
    rw [hp, List.append_assoc]
  have hne : encAll c.r.isServer fs2 ++ rest ≠ [] := by
    intro h; exact encAll_ne_nil hs2 (List.append_eq_nil_iff.mp h).1
  have hst := idle_St c hc fs1 _ hp' (Or.inr hne)
  obtain ⟨c1, rid1, w1, m1, b1, b2, b3, b4, b5, b6, b7⟩ := nextReader_spec c.r.isServer t1 ht1 _ c [] [] fs1 hst hs1
    (Or.inr hne) (by simp; omega) (Or.inl hlim)
  have hn : w1.length + (dataPayload m1).length ≤ (dataPayload fs1).length := by
    have := congrArg List.length b6
    simp only [List.length_append, unmask_length] at this
    omega
  have hab : Ab c.r.isServer rid1 (encAll c.r.isServer fs2 ++ rest) (c.r.hlog ++ ctlEvents fs1)
      (dataPayload fs1).length c.r.buf.t.together c1 :=
    ⟨w1, m1, b2, Or.inl b4, b5, hn, by rw [b7]; simp, by rw [b3.limit]; exact hlim, b3.same.together⟩
  obtain ⟨w, m, e1, e2, e3, e4, e5, e6, e7⟩ := partialReads_spec _ _ _ _ _ _ reads c1 hab
  have hst' := e1.congr (c' := { (partialReads c1 rid1 reads) with r := { (partialReads c1 rid1 reads).r with msgReader := none, length := 0 } })
    rfl rfl rfl rfl rfl rfl rfl (Int.le_refl 0)
  have htog : (partialReads c1 rid1 reads).r.buf.t.together = false ∨ rest ≠ [] := by
    rw [e7]; exact hend
  obtain ⟨c3, rid2, h1, c4, h2, h3, h4, h5⟩ := open_and_read c.r.isServer t2 ht2 rest (partialReads c1 rid1 reads)
    w m fs2 hst' hs2 htog (by omega) (Or.inl e6) k hk
  refine ⟨c1, rid1, b1, c3, rid2, h1, c4, h2, h3, h4, ?_⟩
  rw [h5, e5]

end WS.ReaderDecodes
