import WS.Lemmas.HttpLogic
import WS.Lemmas.RequestLogic
/-
  C15, first sentence, as a theorem over the two handshake models composed: a Dialer and an
  Upgrader always agree on whether compression is in use, for every pair of EnableCompression
  settings — and it is in use exactly when both enabled it.

  The composition needs net/http as a carrier, which is environment: `reqOf` says the server sees the
  client's header fields under canonical names (http.ReadRequest), `replyOf` says the client sees the
  fields of the 101 under canonical names (http.ReadResponse). `replyOf_renders` ties `replyOf` to
  the bytes `response101` really produces.
-/
namespace WS.Agree
open WS WS.Http WS.Server WS.Client WS.RequestLogic

/-- http.ReadRequest: the header fields the client wrote, under canonical names; method GET -/
def reqOf (host : Bytes) (h : Client.Hdr) : Req :=
  { method := strBytes "GET", host := host, hdr := h.map (fun p => (canonicalKey p.1, p.2)) }

/-- http.ReadResponse of the 101 the Upgrader wrote (no application response header): status and header
    fields under canonical names -/
def replyOf (a : Accepted) (accept : Bytes) : Reply :=
  { status := 101,
    hdr := [(strBytes "Upgrade", [strBytes "websocket"]), (strBytes "Connection", [strBytes "Upgrade"]),
            (strBytes "Sec-Websocket-Accept", [accept])] ++
           (if a.subprotocol.isEmpty then [] else [(strBytes "Sec-Websocket-Protocol", [scrub a.subprotocol])]) ++
           (if a.compress then [(strBytes "Sec-Websocket-Extensions",
              [strBytes "permessage-deflate; server_no_context_takeover; client_no_context_takeover"])] else []) }

/-! ### helper lemmas -/

def offerLit : Bytes := strBytes "permessage-deflate; server_no_context_takeover; client_no_context_takeover"

/-- the request header map of a dial without caller headers, explicitly -/
def dialHdr (d : DCfg) (key : Bytes) : Client.Hdr :=
  [(strBytes "Upgrade", [strBytes "websocket"]), (strBytes "Connection", [strBytes "Upgrade"]),
   (strBytes "Sec-WebSocket-Key", [key]), (strBytes "Sec-WebSocket-Version", [strBytes "13"])] ++
  (if d.subprotocols.isEmpty then [] else [(strBytes "Sec-WebSocket-Protocol", [joinCommaSp d.subprotocols])]) ++
  (if d.enableCompression then [(strBytes "Sec-WebSocket-Extensions", [offerLit])] else [])

theorem finalHdr_nil (d : DCfg) (key : Bytes) : finalHdr d key [] = dialHdr d key := by
  have e1 : (strBytes "Upgrade" == strBytes "Sec-WebSocket-Protocol") = false := by decide +kernel
  have e2 : (strBytes "Connection" == strBytes "Sec-WebSocket-Protocol") = false := by decide +kernel
  have e3 : (strBytes "Sec-WebSocket-Key" == strBytes "Sec-WebSocket-Protocol") = false := by decide +kernel
  have e4 : (strBytes "Sec-WebSocket-Version" == strBytes "Sec-WebSocket-Protocol") = false := by decide +kernel
  have f1 : (strBytes "Upgrade" == strBytes "Sec-WebSocket-Extensions") = false := by decide +kernel
  have f2 : (strBytes "Connection" == strBytes "Sec-WebSocket-Extensions") = false := by decide +kernel
  have f3 : (strBytes "Sec-WebSocket-Key" == strBytes "Sec-WebSocket-Extensions") = false := by decide +kernel
  have f4 : (strBytes "Sec-WebSocket-Version" == strBytes "Sec-WebSocket-Extensions") = false := by decide +kernel
  have f5 : (strBytes "Sec-WebSocket-Protocol" == strBytes "Sec-WebSocket-Extensions") = false := by decide +kernel
  unfold finalHdr baseHdr dialHdr offerLit
  simp only [List.foldl_nil]
  cases d.subprotocols.isEmpty <;> cases d.enableCompression <;>
    simp [Client.Hdr.set, e1, e2, e3, e4, f1, f2, f3, f4, f5]


/-- what the server sees of that request -/
def srvHdr (d : DCfg) (key : Bytes) : List (Bytes × List Bytes) :=
  [(strBytes "Upgrade", [strBytes "websocket"]), (strBytes "Connection", [strBytes "Upgrade"]),
   (strBytes "Sec-Websocket-Key", [key]), (strBytes "Sec-Websocket-Version", [strBytes "13"])] ++
  (if d.subprotocols.isEmpty then [] else [(strBytes "Sec-Websocket-Protocol", [joinCommaSp d.subprotocols])]) ++
  (if d.enableCompression then [(strBytes "Sec-Websocket-Extensions", [offerLit])] else [])

theorem dialHdr_canon (d : DCfg) (key : Bytes) :
    (dialHdr d key).map (fun p => (canonicalKey p.1, p.2)) = srvHdr d key := by
  have c1 : canonicalKey (strBytes "Upgrade") = strBytes "Upgrade" := by decide +kernel
  have c2 : canonicalKey (strBytes "Connection") = strBytes "Connection" := by decide +kernel
  have c3 : canonicalKey (strBytes "Sec-WebSocket-Key") = strBytes "Sec-Websocket-Key" := by decide +kernel
  have c4 : canonicalKey (strBytes "Sec-WebSocket-Version") = strBytes "Sec-Websocket-Version" := by decide +kernel
  have c5 : canonicalKey (strBytes "Sec-WebSocket-Protocol") = strBytes "Sec-Websocket-Protocol" := by decide +kernel
  have c6 : canonicalKey (strBytes "Sec-WebSocket-Extensions") = strBytes "Sec-Websocket-Extensions" := by decide +kernel
  unfold dialHdr srvHdr
  cases d.subprotocols.isEmpty <;> cases d.enableCompression <;>
    simp [c1, c2, c3, c4, c5, c6]

structure SrvView (d : DCfg) (key : Bytes) (r : Req) : Prop where
  method : r.method = strBytes "GET"
  conn : r.values "Connection" = [strBytes "Upgrade"]
  upg : r.values "Upgrade" = [strBytes "websocket"]
  ver : r.values "Sec-Websocket-Version" = [strBytes "13"]
  key : r.get "Sec-Websocket-Key" = key
  origin : r.values "Origin" = []
  ext : r.values "Sec-Websocket-Extensions" = if d.enableCompression then [offerLit] else []

theorem srvView (d : DCfg) (key host : Bytes) : SrvView d key { method := strBytes "GET", host := host, hdr := srvHdr d key } := by
  have e (a b : String) (h : (strBytes a == strBytes b) = false := by decide +kernel) : (strBytes a == strBytes b) = false := h
  have k1 := e "Upgrade" "Connection"
  have k3 := e "Upgrade" "Sec-Websocket-Version"
  have k4 := e "Connection" "Sec-Websocket-Version"
  have k5 := e "Sec-Websocket-Key" "Sec-Websocket-Version"
  have k6 := e "Upgrade" "Sec-Websocket-Key"
  have k7 := e "Connection" "Sec-Websocket-Key"
  have o1 := e "Upgrade" "Origin"
  have o2 := e "Connection" "Origin"
  have o3 := e "Sec-Websocket-Key" "Origin"
  have o4 := e "Sec-Websocket-Version" "Origin"
  have o5 := e "Sec-Websocket-Protocol" "Origin"
  have o6 := e "Sec-Websocket-Extensions" "Origin"
  have x1 := e "Upgrade" "Sec-Websocket-Extensions"
  have x2 := e "Connection" "Sec-Websocket-Extensions"
  have x3 := e "Sec-Websocket-Key" "Sec-Websocket-Extensions"
  have x4 := e "Sec-Websocket-Version" "Sec-Websocket-Extensions"
  have x5 := e "Sec-Websocket-Protocol" "Sec-Websocket-Extensions"
  constructor
  · rfl
  all_goals
    simp only [srvHdr, Req.get, Req.values]
    cases d.subprotocols.isEmpty <;> cases d.enableCompression <;>
      simp [k1, k3, k4, k5, k6, k7, o1, o2, o3, o4, o5, o6, x1, x2, x3, x4, x5]

structure CliView (a : Accepted) (accept : Bytes) (r : Reply) : Prop where
  status : r.status = 101
  conn : r.values "Connection" = [strBytes "Upgrade"]
  upg : r.values "Upgrade" = [strBytes "websocket"]
  acc : r.get "Sec-Websocket-Accept" = accept
  ext : r.values "Sec-Websocket-Extensions" = if a.compress then [offerLit] else []

theorem cliView (a : Accepted) (accept : Bytes) : CliView a accept (replyOf a accept) := by
  have e (a b : String) (h : (strBytes a == strBytes b) = false := by decide +kernel) : (strBytes a == strBytes b) = false := h
  have k1 := e "Upgrade" "Connection"
  have k6 := e "Upgrade" "Sec-Websocket-Accept"
  have k7 := e "Connection" "Sec-Websocket-Accept"
  have x1 := e "Upgrade" "Sec-Websocket-Extensions"
  have x2 := e "Connection" "Sec-Websocket-Extensions"
  have x3 := e "Sec-Websocket-Accept" "Sec-Websocket-Extensions"
  have x5 := e "Sec-Websocket-Protocol" "Sec-Websocket-Extensions"
  constructor
  · rfl
  all_goals
    simp only [replyOf, Reply.get, Reply.values, offerLit]
    cases a.subprotocol.isEmpty <;> cases a.compress <;>
      simp [k1, k6, k7, x1, x2, x3, x5]

theorem reqOf_eq (d : DCfg) (url : Url) (key host : Bytes) (h : Client.Hdr)
    (hb : buildRequest d url key [] = .ok (host, h)) :
    reqOf host h = { method := strBytes "GET", host := host, hdr := srvHdr d key } := by
  obtain ⟨_, rfl⟩ := buildRequest_ok d url key [] host h hb
  unfold reqOf
  rw [finalHdr_nil, dialHdr_canon]

theorem parse_nil : parseExtensions [] = [] := rfl

theorem buildRequest_nil_ok (d : DCfg) (url : Url) (key : Bytes)
    (hs : url.scheme = strBytes "ws" ∨ url.scheme = strBytes "wss") (hnu : url.hasUser = false) :
    buildRequest d url key [] = .ok (url.host, finalHdr d key []) := by
  unfold buildRequest
  split
  · rename_i h1
    simp at h1
    rcases hs with h | h
    · exact absurd h h1.1
    · exact absurd h h1.2
  split
  · rename_i h2
    rw [hnu] at h2
    exact absurd h2 (by simp)
  simp only
  split
  · rename_i h3
    simp at h3
  · rfl

theorem upgrade_lines (u : UCfg) (r : Req) (oh : Option Bytes) (hj : Hijack) (bytes : Bytes) (a : Accepted)
    (hu : upgrade u r none oh hj = .ok (bytes, a)) :
    a.lines = (splitCRLF (response101 (Spec.acceptKey Gen.keyGUID (r.get "Sec-Websocket-Key")) a.subprotocol a.compress none) []).dropLast.dropLast := by
  revert hu
  unfold upgrade
  repeat' split
  all_goals simp
  all_goals (intro _ h; rw [← h])

theorem acceptKey_no_cr (g k : Bytes) : ∀ b ∈ Spec.acceptKey g k, b ≠ 13 := by
  intro b hb
  exact (HttpLogic.base64_no_crlf _ b hb).1

theorem dropLast2 {α} (l : List α) (x y : α) : (l ++ [x, y]).dropLast.dropLast = l := by
  have : l ++ [x, y] = (l ++ [x]) ++ [y] := by simp
  rw [this, List.dropLast_concat, List.dropLast_concat]

/-- `replyOf` is what the 101 bytes say: status line, then one `Name: value` line per field of
    `replyOf`, the wire spelling of each name canonicalising to the key -/
theorem replyOf_renders (u : UCfg) (r : Req) (oh : Option Bytes) (hj : Hijack) (bytes : Bytes) (a : Accepted)
    (hu : upgrade u r none oh hj = .ok (bytes, a)) :
    ∃ names : List Bytes,
      names.map canonicalKey = (replyOf a (Spec.acceptKey Gen.keyGUID (r.get "Sec-Websocket-Key"))).hdr.map (·.1) ∧
      a.lines = strBytes "HTTP/1.1 101 Switching Protocols" ::
        (names.zip (replyOf a (Spec.acceptKey Gen.keyGUID (r.get "Sec-Websocket-Key"))).hdr).map
          (fun p => p.1 ++ strBytes ": " ++ p.2.2.headD []) := by
  have c1 : canonicalKey (strBytes "Upgrade") = strBytes "Upgrade" := by decide +kernel
  have c2 : canonicalKey (strBytes "Connection") = strBytes "Connection" := by decide +kernel
  have c3 : canonicalKey (strBytes "Sec-WebSocket-Accept") = strBytes "Sec-Websocket-Accept" := by decide +kernel
  have c5 : canonicalKey (strBytes "Sec-WebSocket-Protocol") = strBytes "Sec-Websocket-Protocol" := by decide +kernel
  have c6 : canonicalKey (strBytes "Sec-WebSocket-Extensions") = strBytes "Sec-Websocket-Extensions" := by decide +kernel
  have l1 : strBytes "Upgrade" ++ (strBytes ": " ++ strBytes "websocket") = strBytes "Upgrade: websocket" := by decide +kernel
  have l2 : strBytes "Connection" ++ (strBytes ": " ++ strBytes "Upgrade") = strBytes "Connection: Upgrade" := by decide +kernel
  have l3 : ∀ x : Bytes, strBytes "Sec-WebSocket-Accept" ++ (strBytes ": " ++ x) = strBytes "Sec-WebSocket-Accept: " ++ x := by
    intro x
    have : strBytes "Sec-WebSocket-Accept" ++ strBytes ": " = strBytes "Sec-WebSocket-Accept: " := by decide +kernel
    rw [← List.append_assoc, this]
  have l5 : ∀ x : Bytes, strBytes "Sec-WebSocket-Protocol" ++ (strBytes ": " ++ x) = strBytes "Sec-WebSocket-Protocol: " ++ x := by
    intro x
    have : strBytes "Sec-WebSocket-Protocol" ++ strBytes ": " = strBytes "Sec-WebSocket-Protocol: " := by decide +kernel
    rw [← List.append_assoc, this]
  have l6 : strBytes "Sec-WebSocket-Extensions" ++ (strBytes ": " ++
      strBytes "permessage-deflate; server_no_context_takeover; client_no_context_takeover") =
      strBytes "Sec-WebSocket-Extensions: permessage-deflate; server_no_context_takeover; client_no_context_takeover" := by
    decide +kernel
  refine ⟨[strBytes "Upgrade", strBytes "Connection", strBytes "Sec-WebSocket-Accept"] ++
      (if a.subprotocol.isEmpty then [] else [strBytes "Sec-WebSocket-Protocol"]) ++
      (if a.compress then [strBytes "Sec-WebSocket-Extensions"] else []), ?_, ?_⟩
  · simp only [replyOf]
    cases a.subprotocol.isEmpty <;> cases a.compress <;> simp [c1, c2, c3, c5, c6]
  · rw [upgrade_lines u r oh hj bytes a hu, response101_lines _ _ _ (acceptKey_no_cr _ _), dropLast2]
    simp only [replyOf]
    cases a.subprotocol.isEmpty <;> cases a.compress <;> simp [l1, l2, l3, l5, l6]

/-- C15 both_or_neither: whenever the Dialer's request (no caller headers) is upgraded, the server
    side compresses exactly when both sides enabled compression, and the Dialer accepts the reply
    with the same setting: both compress or neither does -/
theorem both_or_neither (d : DCfg) (u : UCfg) (url : Url) (key host : Bytes) (h : Client.Hdr)
    (oh : Option Bytes) (hj : Hijack) (bytes : Bytes) (a : Accepted)
    (hb : buildRequest d url key [] = .ok (host, h))
    (hu : upgrade u (reqOf host h) none oh hj = .ok (bytes, a)) :
    a.compress = (d.enableCompression && u.enableCompression) ∧
    ∃ dl, checkReply key (replyOf a (Spec.acceptKey Gen.keyGUID key)) = .ok dl ∧ dl.compress = a.compress := by
  have hv := srvView d key host
  rw [← reqOf_eq d url key host h hb] at hv
  have hc := HttpLogic.compress_iff u _ _ _ _ _ _ hu
  rw [hv.ext] at hc
  have hcv := cliView a (Spec.acceptKey Gen.keyGUID key)
  have hok : ∃ dl, checkReply key (replyOf a (Spec.acceptKey Gen.keyGUID key)) = .ok dl := by
    rw [HttpLogic.checkReply_ok_iff, hcv.upg, hcv.conn, hcv.acc, hcv.ext]
    refine ⟨hcv.status, by decide +kernel, by decide +kernel, rfl, ?_⟩
    cases a.compress
    · intro e he
      simp [parse_nil] at he
    · simp only [if_true, offerLit]
      have := HttpLogic.announce_literal_accepted
      intro e he
      rw [he] at this
      simpa using this
  obtain ⟨dl, hdl⟩ := hok
  refine ⟨?_, dl, hdl, ?_⟩
  · rw [hc]
    cases d.enableCompression
    · simp [parse_nil]
    · simp only [if_true, offerLit, HttpLogic.offer_literal_negotiates]
      simp
  · rw [HttpLogic.client_compress_iff key _ dl hdl, hcv.ext]
    cases a.compress
    · simp [parse_nil]
    · simp only [if_true, offerLit, HttpLogic.offer_literal_negotiates]

/-- … and the handshake does succeed: a ws/wss URL without userinfo, a valid key, hijack possible,
    default origin policy (the Dialer sends no Origin header) -/
theorem handshake_succeeds (d : DCfg) (u : UCfg) (url : Url) (key : Bytes) (oh : Option Bytes) (hj : Hijack)
    (hs : url.scheme = strBytes "ws" ∨ url.scheme = strBytes "wss") (hnu : url.hasUser = false)
    (hk : isValidChallengeKey key = true) (hjok : hj.ok = true) (hco : u.checkOrigin = none ∨ u.checkOrigin = some true) :
    ∃ host h bytes a, buildRequest d url key [] = .ok (host, h) ∧ upgrade u (reqOf host h) none oh hj = .ok (bytes, a) := by
  have hb := buildRequest_nil_ok d url key hs hnu
  have hv := srvView d key url.host
  rw [← reqOf_eq d url key _ _ hb] at hv
  have hok : ∃ p, upgrade u (reqOf url.host (finalHdr d key [])) none oh hj = .ok p := by
    rw [HttpLogic.upgrade_ok_iff, hv.conn, hv.upg, hv.ver, hv.key]
    refine ⟨by decide +kernel, by decide +kernel, hv.method, by decide +kernel, rfl, ?_, hk, hjok⟩
    rcases hco with h | h <;> rw [h]
    · simp only
      rw [HttpLogic.same_origin_iff]
      exact Or.inl hv.origin
  obtain ⟨⟨bytes, a⟩, hp⟩ := hok
  exact ⟨_, _, bytes, a, hb, hp⟩

end WS.Agree
