import WS.Lemmas.RoleGeneric
import WS.Lemmas.PreparedSend
import WS.Lemmas.AuditGapsAux
/-
  Statements an audit found missing behind docstrings: the identity of the sticky error after a close
  (ErrCloseSent), "a failing transport operation sets the sticky error", the close-frame checks of the
  reader (bad status code, reason not UTF-8, empty body → 1005), and "a failing handler's error is
  returned by the read and latched".
-/
namespace WS.AuditGaps
open WS WS.Codec WS.SrcLaw WS.HdrLogic WS.ReaderDecodes WS.ReaderRejects WS.ReaderLift WS.ReaderMore WS.RoleGeneric

/-! ### writer: which error is sticky -/

/-- C10: whatever makes a frame write fail — the sticky error, a failing SetWriteDeadline, a failing or
    short transport write — the connection's sticky write error is set afterwards -/
theorem connWrite_error_is_sticky (s : W) (ft d : Int) (b0 b1 : Bytes) (h : (connWrite s ft d b0 b1).1.isSome) :
    (connWrite s ft d b0 b1).2.writeErr.isSome := by
  exact connWrite_error_is_sticky' s ft d b0 b1 h

/-- … and it is the error that was returned when the connection was healthy before -/
theorem connWrite_error_latched (s : W) (ft d : Int) (b0 b1 : Bytes) (e : WErr) (hs : s.writeErr = none)
    (h : (connWrite s ft d b0 b1).1 = some e) : (connWrite s ft d b0 b1).2.writeErr = some e := by
  exact connWrite_error_latched' s ft d b0 b1 e hs h

/-- C09: a close frame that went out makes ErrCloseSent the sticky error (any path ends in this frame write) -/
theorem close_sets_closeSent (s : W) (d : Int) (b0 b1 : Bytes) (h : (connWrite s 8 d b0 b1).1 = none) :
    (connWrite s 8 d b0 b1).2.writeErr = some .closeSent := by
  exact close_sets_closeSent' s d b0 b1 h

/-- C09: with ErrCloseSent latched every otherwise valid request fails with exactly ErrCloseSent and
    the wire does not change -/
theorem requests_fail_with_closeSent (s : W) (h : s.writeErr = some .closeSent) :
    (∀ t data, (t = 1 ∨ t = 2) → (writeMessage s t data).1 = some .closeSent ∧ (writeMessage s t data).2.wire = s.wire) ∧
    (∀ t, (t = 1 ∨ t = 2) → ∃ s', nextWriter s t = (.error .closeSent, s') ∧ s'.wire = s.wire) ∧
    (∀ t data d, (t = 8 ∨ t = 9 ∨ t = 10) → data.length ≤ 125 → 0 ≤ d →
        (writeControl s t data d).1 = some .closeSent ∧ (writeControl s t data d).2.wire = s.wire) ∧
    (∀ t img, (writePreparedImage s t img).1 = some .closeSent ∧ (writePreparedImage s t img).2.wire = s.wire) := by
  exact requests_fail_with_closeSent' s h

/-! ### reader: close frames -/

/-- C04: a close frame whose status code is not one a peer may send is a protocol violation: the close
    handler is not run, the error is a protocol error, a 1002 close frame is written (either role) -/
theorem bad_close_code_rejected (c : Conn) (hc : AtBoundary c) (hw : WHealthy c.w)
    (key : Key) (code : Nat) (reason rest : Bytes)
    (hcode : isValidReceivedCloseCode code = false) (hc16 : code < 65536) (hl : reason.length ≤ 123)
    (hp : c.r.buf.pending = PFrame.enc c.r.isServer ⟨8, true, key, beBytes 2 code ++ reason⟩ ++ rest) :
    ∃ msg c', advanceFrame c = (.error (.protocol msg), c') ∧ c'.r.hlog = c.r.hlog ∧
      c'.w.wire = c.w.wire ++ closeFrameBytes c.w ((closePayload 1002 (strBytes msg)).take 125) ∧
      c'.w.writeErr = some .closeSent := by
  exact bad_close_code_rejected' c hc hw key code reason rest hcode hc16 hl hp

/-- C04: a close reason that is not UTF-8 is a protocol violation, same consequences -/
theorem bad_close_utf8_rejected (c : Conn) (hc : AtBoundary c) (hw : WHealthy c.w)
    (key : Key) (code : Nat) (reason rest : Bytes)
    (hcode : isValidReceivedCloseCode code = true) (hc16 : code < 65536) (hutf : Spec.validUtf8 reason = false)
    (hl : reason.length ≤ 123)
    (hp : c.r.buf.pending = PFrame.enc c.r.isServer ⟨8, true, key, beBytes 2 code ++ reason⟩ ++ rest) :
    ∃ msg c', advanceFrame c = (.error (.protocol msg), c') ∧ c'.r.hlog = c.r.hlog ∧
      c'.w.wire = c.w.wire ++ closeFrameBytes c.w ((closePayload 1002 (strBytes msg)).take 125) ∧
      c'.w.writeErr = some .closeSent := by
  exact bad_close_utf8_rejected' c hc hw key code reason rest hcode hc16 hutf hl hp

/-- C08: a close frame without a body is reported as CloseError 1005 (no status received) with an
    empty reason; the default handler echoes a close frame -/
theorem empty_close_is_1005 (c : Conn) (hc : AtBoundary c) (hw : WHealthy c.w) (hd : c.r.hClose = .dflt)
    (key : Key) (rest : Bytes)
    (hp : c.r.buf.pending = PFrame.enc c.r.isServer ⟨8, true, key, []⟩ ++ rest) :
    ∃ c', advanceFrame c = (.error (.close 1005 []), c') ∧ c'.r.hlog = c.r.hlog ++ [.close 1005 []] ∧
      c'.w.writeErr = some .closeSent ∧ c.w.wire.length < c'.w.wire.length := by
  exact empty_close_is_1005' c hc hw hd key rest hp

/-! ### reader: a handler that fails -/

/-- a reader between messages, handlers arbitrary (`ReaderIdle` without its two handler fields) -/
structure ReaderIdle' (c : Conn) : Prop where
  noErr : c.r.readErr = none
  rem : c.r.remaining = 0
  fin : c.r.final = true
  wf : WF c.r.buf
  size : 125 ≤ c.r.buf.size
  fuel : c.r.buf.pending.length ≤ c.r.buf.total

/-- C08: the error a ping handler returns is what the read call returns, it is latched, and no pong is
    written -/
theorem failing_ping_handler (c : Conn) (hc : ReaderIdle' c) (id : Nat) (hh : c.r.hPing = .fail id)
    (key : Key) (payload rest : Bytes) (hl : payload.length ≤ 125) (hcnt : c.r.errCount = 0)
    (hp : c.r.buf.pending = PFrame.enc c.r.isServer ⟨9, true, key, payload⟩ ++ rest) :
    ∃ c', nextReader c = (.err (.handler id), c') ∧ c'.r.readErr = some (.handler id) ∧
      c'.r.hlog = c.r.hlog ++ [.ping payload] ∧ c'.w.wire = c.w.wire := by
  have hb : AtBoundary (RobustAux.c0 c) := ⟨hc.noErr, hc.rem, hc.wf, hc.size⟩
  obtain ⟨c2, a1, e1, e2, e3, e4⟩ := advance_ctl (RobustAux.c0 c) hb 9 (Or.inr (Or.inl rfl)) key payload rest hl hp
  rw [afDispatch_ping_fail _ payload c2 rfl id (e4.trans hh)] at a1
  have hn := nextReader_adv_err c hc.noErr _ _ a1
  rw [hcnt, if_neg (by decide)] at hn
  refine ⟨_, hn, rfl, ?_, ?_⟩
  · show c2.r.hlog ++ [REv.ping payload] = c.r.hlog ++ [REv.ping payload]
    rw [e2]; rfl
  · show c2.w.wire = c.w.wire
    rw [e1]; rfl

end WS.AuditGaps
