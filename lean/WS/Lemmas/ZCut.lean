import WS.Lemmas.ReaderZ
import WS.Lemmas.CutLogic
import WS.Lemmas.ReaderMore
import WS.Lemmas.ZCutAux
import WS.Lemmas.ZCutLoops
/-
  C05 for compressed messages (finding F10 as a theorem): whatever compress/flate does with the raw
  bytes — however many of them it asks for, in requests of whatever sizes, before it reports the end
  of the deflate stream, e.g. at a final (BFINAL) block long before the last frame — a compressed
  message whose last frame has not arrived is never reported complete; and one that has arrived
  whole is.
-/
namespace WS.ZCut
open WS WS.Codec WS.ReaderDecodes WS.ReaderZ WS.CutLogic WS.ReaderMore

/-
  ORIGINAL STATEMENT (FALSE for the model as written):

  /-- completion implies the raw message was read to its end: if the decompressing reader reports the
      message complete, the underlying message reader has returned io.EOF (it is detached:
      `msgReader = none`), for every behaviour of the decompressor -/
  theorem complete_reads_to_end (c : Conn) (rid : Nat) (hrid : c.r.msgReader = some rid) (env : ZEnv)
      (raw : Bytes) (c' : Conn) (h : zReadToEnd c rid env = ((raw, .complete), c')) :
      c'.r.msgReader = none

  COUNTEREXAMPLE: a transport that reports its terminal error io.EOF *together* with the last bytes
  (`together = true`; io.Reader allows it). When a raw Read is served by bufio's pass-through case
  (request ≥ buffer size, buffer empty) and the transport hands over the last payload bytes of the
  final frame together with io.EOF, `messageReader.Read` returns those bytes and io.EOF in the same
  call (`remaining` drops to 0 and `final` is set, so the error is not turned into
  errUnexpectedEOF): the message is complete, the decompressing reader reports it complete, but the
  branch that detaches the reader (`c.messageReader = nil`) was never taken — io.EOF is latched in
  `readErr` instead. The concrete instance is `cxC` / `cxE` below (`complete_reads_to_end_counterexample`);
  the same happens from an idle reader (buffer size 125) in front of a whole one-frame compressed
  message of 125 bytes whose payload arrives in one chunk together with io.EOF:
    #eval nextReader / zReadToEnd ⇒ (.complete, 125 bytes, msgReader = some 0, readErr = some .eof).

  Closest true statements: `complete_reads_to_end_partial` (extra hypothesis `together = false`,
  conclusion unchanged) and `complete_reads_to_end_or_latched_partial` (no extra hypothesis, second
  alternative: io.EOF is latched after the last byte of the final frame, on a `together` transport).
-/

/-- the connection of the counterexample: client reader inside the final frame of a compressed
    message, one payload byte to go; the transport delivers that byte together with io.EOF -/
def cxC : Conn :=
  { w := { isServer := false, wbufLen := 0, pool := false, nego := true },
    r := { isServer := false, nego := true, remaining := 1, final := true, msgReader := some 0, nextId := 1,
           decompress := true,
           buf := { size := 1, t := { chunks := [[7]], term := .eof, together := true }, total := 1 } } }

/-- the decompressor asks once for 4096 bytes and then reports the end of the deflate stream -/
def cxE : ZEnv := ⟨[4096], true, 32768⟩

theorem complete_reads_to_end_counterexample :
    cxC.r.msgReader = some 0 ∧ (∀ k ∈ cxE.reqs, 0 < k) ∧ 0 < cxE.drainK ∧
    (zReadToEnd cxC 0 cxE).1 = ([7], .complete) ∧ (zReadToEnd cxC 0 cxE).2.r.msgReader = some 0 := by
  decide

/-- completion implies the raw message was read to its end (closest true form 1): on a transport
    that reports its terminal error after the last bytes (not together with them), if the
    decompressing reader reports the message complete, the underlying message reader has returned
    io.EOF from the branch that detaches it (`msgReader = none`), for every behaviour of the
    decompressor (any request sizes, including 0) -/
theorem complete_reads_to_end_partial (c : Conn) (rid : Nat) (hrid : c.r.msgReader = some rid)
    (htog : c.r.buf.t.together = false) (env : ZEnv)
    (raw : Bytes) (c' : Conn) (h : zReadToEnd c rid env = ((raw, .complete), c')) :
    c'.r.msgReader = none := by
  rcases WS.ZCutAux.zReadToEnd_class c rid hrid env raw c' h with d | ⟨d, _⟩
  · exact d
  · rw [htog] at d; cases d

/-- completion implies the raw message was read to its end (closest true form 2, no extra
    hypothesis): the message reader is detached, or — only on a transport that reports io.EOF together
    with bytes — io.EOF is latched, nothing is left of the current frame and that frame is final -/
theorem complete_reads_to_end_or_latched_partial (c : Conn) (rid : Nat) (hrid : c.r.msgReader = some rid)
    (env : ZEnv) (raw : Bytes) (c' : Conn) (h : zReadToEnd c rid env = ((raw, .complete), c')) :
    c'.r.msgReader = none ∨
    (c.r.buf.t.together = true ∧ c'.r.readErr = some .eof ∧ c'.r.remaining ≤ 0 ∧ c'.r.final = true) := by
  rcases WS.ZCutAux.zReadToEnd_class c rid hrid env raw c' h with d | ⟨d1, _, d3, d4, d5⟩
  · exact Or.inl d
  · exact Or.inr ⟨d1, d3, d4, d5⟩

/-! ### helper: NextReader on the RSV1 first frame -/
section Helpers
open WS.RobustAux WS.CutLoops WS.ZCutLoops

theorem fuel_succ (c : Conn) : c.fuel = (c.r.buf.total + c.r.buf.size + 1) + 1 := rfl

theorem nextReader_of_msg (c c' : Conn) (t : Nat) (hne : c.r.readErr = none)
    (a1 : advanceFrame (c0 c) = (.ok t, c')) (htb : (t == 1 || t == 2) = true) :
    nextReader c = (.msg t c'.r.nextId c'.r.decompress,
      { c' with r := { c'.r with msgReader := some c'.r.nextId, nextId := c'.r.nextId + 1 } }) := by
  rw [nextReader_eq, nrRes_none c hne, fuel_succ, loop_msg (c0 c) c' t hne a1 htb]
  rfl

theorem nextReader_of_err (c c' : Conn) (e : RErr) (hne : c.r.readErr = none) (hcnt : c.r.errCount = 0)
    (a1 : advanceFrame (c0 c) = (.error e, c')) :
    ∃ e' c1, nextReader c = (.err e', c1) := by
  have hec : c'.r.errCount = 0 := by
    have := advanceFrame_ec (c0 c)
    rw [a1] at this
    exact this.trans hcnt
  rw [nextReader_eq, nrRes_none c hne, fuel_succ, loop_err (c0 c) c' e hne a1, nrFinish_err]
  rw [if_neg (by show ¬ (c'.r.errCount + 1 ≥ 1000); omega)]
  exact ⟨_, _, rfl⟩

end Helpers

/-- cut_never_complete for compressed messages: the transport ends (EOF, error or timeout; alone or
    together with the last bytes) at ANY byte offset strictly inside a compressed message (first frame
    RSV1, any fragmentation, control frames in between), compression negotiated: for EVERY behaviour
    of the decompressor (any number of raw read requests of any positive sizes before it reports the
    end of the deflate stream or a data error, any positive request size of the drain) the message is
    not reported complete — NextReader fails, or the decompressing reader fails -/
theorem compressed_cut_never_complete (c : Conn) (hc : ReaderIdle c) (hi : CountInv c) (hn : c.r.nego = true)
    (t : Nat) (ht : t = 1 ∨ t = 2) (f : PFrame) (more : List PFrame) (hs : ZShape t f more)
    (cut : Nat) (hcut : cut < (encZ c.r.isServer f ++ encAll c.r.isServer more).length)
    (hp : c.r.buf.pending = (encZ c.r.isServer f ++ encAll c.r.isServer more).take cut)
    (hsz : (f.payload ++ dataPayload more).length < 2 ^ 62) (hlim : c.r.limit ≤ 0) (env : ZEnv)
    (hreq : ∀ k ∈ env.reqs, 0 < k) (hdr : 0 < env.drainK) :
    (∃ e c1, nextReader c = (.err e, c1)) ∨
    (∃ c1 rid, nextReader c = (.msg t rid true, c1) ∧ ∃ raw e c2, zReadToEnd c1 rid env = ((raw, .failed e), c2)) := by
  obtain ⟨hop, hlen, hshape⟩ := hs
  have hT : f.fin = true → more = [] := by
    intro h
    rcases hshape with ⟨_, h2⟩ | ⟨h1, _⟩
    · exact h2
    · rw [h] at h1; cases h1
  have hF : f.fin = false → Tail more := by
    intro h
    rcases hshape with ⟨h1, _⟩ | ⟨_, h2⟩
    · rw [h] at h1; cases h1
    · exact h2
  have hsz' : f.payload.length + (dataPayload more).length < 2 ^ 62 := by
    simpa [List.length_append] using hsz
  have hl0 : LenOk (WS.RobustAux.c0 c) (f.payload.length + (dataPayload more).length + 0) := by
    refine ⟨?_, Or.inl hlim⟩
    show (0 : Int) + ((f.payload.length + (dataPayload more).length + 0 : Nat) : Int) < 9223372036854775808
    omega
  have htb : (t == 1 || t == 2) = true := by rcases ht with h | h <;> rw [h] <;> rfl
  rcases WS.ZCutLoops.cadv_dataZ c.r.isServer (WS.RobustAux.c0 c) f more cut ⟨hc.wf, hc.size, hc.hp, hc.hq⟩ hn rfl
    hc.noErr hc.rem hp hcut (Or.inr ⟨by omega, hc.fin⟩) hlen (Int.le_refl 0) hT hF 0 hl0 with
    ⟨e, c', a1, _⟩ | ⟨c', m', a1, a2, _, _, _, a6, a7, _⟩
  · left
    exact nextReader_of_err c c' e hc.noErr (hi hc.noErr) a1
  · right
    rw [hop] at a1
    have hnr := nextReader_of_msg c c' t hc.noErr a1 htb
    rw [a6] at hnr
    refine ⟨_, _, hnr, ?_⟩
    have hst1 : WS.CutLoops.CSt c.r.isServer
        { c' with r := { c'.r with msgReader := some c'.r.nextId, nextId := c'.r.nextId + 1 } }
        (AdvFrame.body c.r.isServer f.key f.payload) more m' :=
      a2.congr rfl rfl rfl rfl rfl rfl rfl a2.len0
    have hl1 : LenOk { c' with r := { c'.r with msgReader := some c'.r.nextId, nextId := c'.r.nextId + 1 } }
        (dataPayload more).length := by
      have : LenOk c' (dataPayload more).length := by simpa using a7
      exact this
    apply WS.ZCutLoops.zReadToEnd_failed
    · intro raw' c1' h
      rcases WS.ZCutLoops.zFills_cut c.r.isServer c'.r.nextId env.reqs hreq _ _ more m' [] hst1 rfl hl1 with
        ⟨raw, e, c2, z1, z2⟩ | ⟨raw, c2, w2, m2, n2, z1, _, _, _⟩
      · rw [z1] at h
        simp only [Prod.mk.injEq, Option.some.injEq] at h
        exact z2 h.1.2
      · rw [z1] at h
        simp only [Prod.mk.injEq] at h
        cases h.1.2
    · intro raw' c1' h bs c3 h3
      rcases WS.ZCutLoops.zFills_cut c.r.isServer c'.r.nextId env.reqs hreq _ _ more m' [] hst1 rfl hl1 with
        ⟨raw, e, c2, z1, z2⟩ | ⟨raw, c2, w2, m2, n2, z1, z2, z3, z4⟩
      · rw [z1] at h
        simp only [Prod.mk.injEq] at h
        cases h.1.2
      · rw [z1] at h
        have hcc : c2 = c1' := congrArg Prod.snd h
        subst hcc
        obtain ⟨got, e, c4, d1, _, _⟩ :=
          WS.CutLoops.readAllLoop_cut c.r.isServer c'.r.nextId env.drainK hdr (c2.fuel + 2) c2 w2 m2 n2 [] z2 z3 z4
        unfold readAll at h3
        rw [d1] at h3
        simp only [Prod.mk.injEq] at h3
        cases h3.1.2

/-- … and a compressed message that arrived whole is reported complete whenever the decompressor
    accepts it, however early or late it reports the end of the deflate stream (any raw read requests
    of positive sizes, any positive request size of the drain); what it was given is a prefix of the
    concatenated payloads, all of them if it read to the end -/
theorem compressed_whole_complete (c : Conn) (hc : ReaderIdle c) (hn : c.r.nego = true)
    (t : Nat) (ht : t = 1 ∨ t = 2) (f : PFrame) (more : List PFrame) (hs : ZShape t f more) (rest : Bytes)
    (hp : c.r.buf.pending = encZ c.r.isServer f ++ encAll c.r.isServer more ++ rest)
    (hend : c.r.buf.t.together = false ∨ rest ≠ [])
    (hsz : (f.payload ++ dataPayload more).length < 2 ^ 62) (hlim : c.r.limit ≤ 0)
    (reqs : List Nat) (drainK : Nat) (hreq : ∀ k ∈ reqs, 0 < k) (hdr : 0 < drainK) :
    ∃ c1 rid, nextReader c = (.msg t rid true, c1) ∧
      ∃ raw c2, zReadToEnd c1 rid ⟨reqs, true, drainK⟩ = ((raw, .complete), c2) ∧
        raw <+: f.payload ++ dataPayload more ∧ ReaderIdle c2 ∧ c2.r.buf.pending = rest := by
  obtain ⟨hop, hlen, hshape⟩ := hs
  have hT : f.fin = true → more = [] := by
    intro h
    rcases hshape with ⟨_, h2⟩ | ⟨h1, _⟩
    · exact h2
    · rw [h] at h1; cases h1
  have hF : f.fin = false → Tail more := by
    intro h
    rcases hshape with ⟨h1, _⟩ | ⟨_, h2⟩
    · rw [h] at h1; cases h1
    · exact h2
  have hsz' : f.payload.length + (dataPayload more).length < 2 ^ 62 := by
    simpa [List.length_append] using hsz
  have hl0 : LenOk (WS.RobustAux.c0 c) (f.payload.length + (dataPayload more).length + 0) := by
    refine ⟨?_, Or.inl hlim⟩
    show (0 : Int) + ((f.payload.length + (dataPayload more).length + 0 : Nat) : Int) < 9223372036854775808
    omega
  have hp' : (WS.RobustAux.c0 c).r.buf.pending =
      [] ++ (encZ c.r.isServer f ++ (encAll c.r.isServer more ++ rest)) := by
    show c.r.buf.pending = _
    rw [hp]; simp
  have hrem0 : (WS.RobustAux.c0 c).r.remaining = (([] : Bytes).length : Int) := by
    show c.r.remaining = _
    rw [hc.rem]; rfl
  obtain ⟨c', a1, a2, _, _, _, _, a7, a8, a9, _⟩ := step_dataZ c.r.isServer (WS.RobustAux.c0 c) [] f more rest
    ⟨hc.wf, hc.size, hc.fuel, hc.hp, hc.hq⟩ hn rfl hc.noErr hrem0 hp'
    (Or.inr ⟨by omega, hc.fin⟩) hlen (Int.le_refl 0) hend hT hF 0 hl0
  have htb : (t == 1 || t == 2) = true := by rcases ht with h | h <;> rw [h] <;> rfl
  rw [hop] at a1
  have hnr := nextReader_of_msg c c' t hc.noErr a1 htb
  rw [a7] at hnr
  have hst1 : St c.r.isServer
      { c' with r := { c'.r with msgReader := some c'.r.nextId, nextId := c'.r.nextId + 1 } }
      (AdvFrame.body c.r.isServer f.key f.payload) more rest :=
    a2.congr rfl rfl rfl rfl rfl rfl rfl a2.len0
  have hl1 : LenOk { c' with r := { c'.r with msgReader := some c'.r.nextId, nextId := c'.r.nextId + 1 } }
      (dataPayload more).length := by
    have : LenOk c' (dataPayload more).length := by simpa using a8
    exact this
  have hu : unmask { c' with r := { c'.r with msgReader := some c'.r.nextId, nextId := c'.r.nextId + 1 } }
      (AdvFrame.body c.r.isServer f.key f.payload) = f.payload := a9
  refine ⟨_, _, hnr, ?_⟩
  rcases WS.ZCutLoops.zFills_spec c.r.isServer c'.r.nextId rest reqs hreq _ _ more [] hst1 rfl hl1 with
    ⟨out, c2, w2, m2, z1, z2, z3, z4, z5⟩ | ⟨c2, z1, z2, z3⟩
  · obtain ⟨c3, d1, d2, d3, _⟩ := readAll_spec c.r.isServer c'.r.nextId drainK hdr rest c2 w2 m2 z2 z3 z4
    refine ⟨out, c3, ?_, ?_, d2, d3⟩
    · unfold zReadToEnd
      simp only []
      rw [z1]
      simp only [Bool.not_true, Bool.false_eq_true, if_false]
      rw [d1]
      simp
    · rw [hu] at z5
      exact ⟨_, z5.symm⟩
  · obtain ⟨i1, i2⟩ := z2.idle z3
    refine ⟨f.payload ++ dataPayload more, c2, ?_, List.prefix_refl _, i1, i2⟩
    unfold zReadToEnd
    simp only []
    rw [z1, hu]
    simp

end WS.ZCut
