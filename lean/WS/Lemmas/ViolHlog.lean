import WS.Lemmas.HlogProgram
import WS.Lemmas.ViolProgram
/-
  C04, handler log, for EVERY read program (whole messages within the read limit): nothing from the
  violating frame or after it reaches a handler.
-/
namespace WS.ViolHlog
open WS WS.Codec WS.HdrLogic WS.ReaderDecodes WS.Sequences WS.ReadProgram WS.LimitHistoryAux WS.HlogProgram
open WS.CutProgramAux WS.RobustAux WS.AdvFrame WS.SrcLaw WS.ReaderRejects WS.CutAdv WS.CutLoops

theorem afHead_remH (c : Conn) (b' : Buf) :
    afHead { c with r := { c.r with buf := b' } } = afHead (skipped c b') ∨
    ∃ e x, afHead { c with r := { c.r with buf := b' } } = (.error e, x) ∧ x.r.hlog = c.r.hlog := by
  unfold afHead skipped
  simp only []
  generalize b'.take 2 = r
  obtain ⟨p, e, b⟩ := r
  simp only []
  cases e with
  | some e => right; exact ⟨e, _, rfl, rfl⟩
  | none =>
    match p with
    | [] => right; exact ⟨.any, _, rfl, rfl⟩
    | [_] => right; exact ⟨.any, _, rfl, rfl⟩
    | [b0, b1] => left; rfl
    | _ :: _ :: _ :: _ => right; exact ⟨.any, _, rfl, rfl⟩

theorem adv_normH (c : Conn) (wire tail : Bytes) (hrem : c.r.remaining = (wire.length : Int))
    (hwf : WF c.r.buf) (hp : c.r.buf.pending = wire ++ tail) :
    ∃ b', b'.pending = tail ∧ WF b' ∧ Same2 c.r.buf b' ∧
      (advanceFrame c = advanceFrame (skipped c b') ∨
       ∃ e x, advanceFrame c = (.error e, x) ∧ x.r.hlog = c.r.hlog) := by
  obtain ⟨b', h1, h2, h3, h4⟩ := afSkip_ok c wire tail hrem hwf hp
  refine ⟨b', h2, h3, h4, ?_⟩
  rw [advanceFrame_eq, advanceFrame_eq, h1, afSkip_zero (skipped c b') rfl]
  exact afHead_remH c b'

/-- `ViolProgram.viol_adv`, with the handler log unchanged -/
theorem viol_adv_hlog (c : Conn) (hrem : c.r.remaining = 0) (hwf : WF c.r.buf) (hsz : 125 ≤ c.r.buf.size)
    (b0 b1 : UInt8) (rest : Bytes) (hp : c.r.buf.pending = b0 :: b1 :: rest)
    (hv : Violates c.r.isServer c.r.nego (!c.r.final) (parseHdr b0 b1)) :
    ∃ e c', advanceFrame c = (.error e, c') ∧ c'.r.hlog = c.r.hlog := by
  obtain ⟨b', hT, _⟩ := take_eq c.r.buf hwf 2 (by omega) [b0, b1] rest hp rfl
  have hrem' : ¬ c.r.remaining > 0 := by rw [hrem]; decide
  unfold advanceFrame
  have hne : (!(headerErrors c.r.isServer c.r.nego c.r.final (parseHdr b0 b1)).isEmpty) = true := by
    have h := headerErrors_nil_iff c.r.isServer c.r.nego c.r.final (parseHdr b0 b1)
    cases hh : headerErrors c.r.isServer c.r.nego c.r.final (parseHdr b0 b1) with
    | nil => exact absurd hv (h.mp hh)
    | cons _ _ => rfl
  simp only [hrem', if_false, hT, hne, if_true]
  unfold handleProtocolError
  exact ⟨_, _, rfl, rfl⟩

/-- `ViolProgram.nrl_viol`, with the handler log: only control frames of the abandoned message -/
theorem nrl_viol_hlog (S N : Bool) (b0 b1 : UInt8) (tail : Bytes) (hv : Violates S N false (parseHdr b0 b1)) (fuel : Nat) :
    ∀ (c : Conn) (wire : Bytes) (more : List PFrame), St S c wire more (b0 :: b1 :: tail) → c.r.nego = N →
      LenOk c (dataPayload more).length →
      ∃ e c1, nextReaderLoop fuel c = (.err e, c1) ∧ c1.r.hlog <+: c.r.hlog ++ ctlEvents more := by
  induction fuel with
  | zero => intro c _ _ _ _ _; exact ⟨.any, c, rfl, List.prefix_append _ _⟩
  | succ fuel ih =>
    intro c wire more hst hN hl
    cases hfin : c.r.final with
    | false =>
      obtain ⟨t', c', wire', more', a1, a2, a3, a4, a5, a6, a7, a8, a9, a10⟩ :=
        step_tail S c wire more _ hst hfin 0 (by simpa using hl)
      have hstep : nextReaderLoop (fuel + 1) c = nextReaderLoop fuel c' := by
        conv => lhs; unfold nextReaderLoop
        simp only [hst.noErr, a1, a2, Bool.false_eq_true, if_false]
      rw [hstep]
      have hN' : c'.r.nego = N := by
        have := WS.NegoKeep.advanceFrame_ng c; rw [a1] at this; exact this.trans hN
      obtain ⟨e, c1, b1, b2⟩ := ih c' wire' more' a3 hN' (by simpa using a7)
      exact ⟨e, c1, b1, by rw [← a9]; exact b2⟩
    | true =>
      have hmore := hst.finT hfin
      subst hmore
      have hp : c.r.buf.pending = wire ++ b0 :: b1 :: tail := by
        have := hst.pend
        simpa using this
      obtain ⟨b', p1, p2, p3, p4⟩ := adv_normH c wire _ hst.rem hst.env.wf hp
      have hv' : Violates (skipped c b').r.isServer (skipped c b').r.nego (!(skipped c b').r.final) (parseHdr b0 b1) := by
        show Violates c.r.isServer c.r.nego (!c.r.final) (parseHdr b0 b1)
        rw [hst.srv, hN, hfin]; exact hv
      obtain ⟨e, c', hadv, hh⟩ := viol_adv_hlog (skipped c b') rfl p2
        (by show 125 ≤ b'.size; rw [p3.size]; exact hst.env.size) b0 b1 tail p1 hv'
      have hall : ∃ e x, advanceFrame c = (.error e, x) ∧ x.r.hlog = c.r.hlog := by
        rcases p4 with h | h
        · exact ⟨e, c', by rw [h, hadv], hh⟩
        · exact h
      obtain ⟨e2, x, hx1, hx2⟩ := hall
      unfold nextReaderLoop
      simp only [hst.noErr, hx1]
      refine ⟨_, _, rfl, ?_⟩
      show x.r.hlog <+: _
      rw [hx2]
      exact List.prefix_append _ _

theorem nextReader_loop_err_hlog (c : Conn) (hne : c.r.readErr = none) (e : RErr) (c1 : Conn)
    (h : nextReaderLoop c.fuel (c0 c) = (.err e, c1)) (ops : List ROp) (cur : Option Nat) :
    (runProg (.next :: ops) c cur).2.r.hlog = c1.r.hlog := by
  have hnr : nextReader c = nrFinish (.err e, c1) := by rw [nextReader_eq, nrRes_none c hne, h]
  rw [nrFinish_err] at hnr
  split at hnr
  · simp only [runProg, hnr]
  · simp only [runProg, hnr]

/-- NextReader called when no whole message is left -/
theorem viol_end_hlog (S N : Bool) (b0 b1 : UInt8) (tail : Bytes) (hv : Violates S N false (parseHdr b0 b1))
    (L : Int) (tg : Bool) (ops : List ROp) (c : Conn) (n : Nat) (cur : Option Nat) (H : List REv)
    (hN : c.r.nego = N) (hpre : Pre S (b0 :: b1 :: tail) H n L tg c) (hn : n < 2 ^ 62)
    (hnL : L ≤ 0 ∨ (n : Int) ≤ L) :
    (runProg (.next :: ops) c cur).2.r.hlog <+: H := by
  have hlimc := hpre.limit
  obtain ⟨wire, more, hst, hwn, hH, _, _⟩ := hpre
  have hl : LenOk (c0 c) (dataPayload more).length := by
    refine ⟨?_, ?_⟩
    · show (0 : Int) + _ < _
      omega
    · show c.r.limit ≤ 0 ∨ (0 : Int) + _ ≤ c.r.limit
      rw [hlimc]
      rcases hnL with h | h
      · exact Or.inl h
      · right; omega
  obtain ⟨e, c1, h, hpf⟩ := nrl_viol_hlog S N b0 b1 tail hv c.fuel (c0 c) wire more hst hN hl
  rw [nextReader_loop_err_hlog c hst.noErr e c1 h ops cur, ← hH]
  exact hpf

def HeldV (S N : Bool) (rest : Bytes) (L : Int) (tg : Bool) (ops : List ROp) : Prop :=
  ∀ (msgs : List (Nat × List PFrame)) (c : Conn) (rid : Nat) (n : Nat) (H : List REv), MsgsOk L msgs →
    Ab' S rid (wireOf S msgs rest) H n L tg c → n < 2 ^ 62 → (L ≤ 0 ∨ (n : Int) ≤ L) → c.r.nego = N →
    (runProg ops c (some rid)).2.r.hlog <+: H ++ (msgs.map (fun m => ctlEvents m.2)).flatten

theorem next_caseV (S N : Bool) (rest : Bytes) (L : Int) (tg : Bool) (htog : tg = false ∨ rest ≠ [])
    (hEnd : ∀ (ops : List ROp) (c : Conn) (n : Nat) (cur : Option Nat) (H : List REv), c.r.nego = N →
      Pre S rest H n L tg c → n < 2 ^ 62 → (L ≤ 0 ∨ (n : Int) ≤ L) →
      (runProg (.next :: ops) c cur).2.r.hlog <+: H) (ops : List ROp)
    (ih : HeldV S N rest L tg ops) (msgs : List (Nat × List PFrame)) (c : Conn) (n : Nat) (cur : Option Nat)
    (H : List REv) (hm : MsgsOk L msgs) (hpre : Pre S (wireOf S msgs rest) H n L tg c)
    (hn : n < 2 ^ 62) (hnL : L ≤ 0 ∨ (n : Int) ≤ L) (hN : c.r.nego = N) :
    (runProg (.next :: ops) c cur).2.r.hlog <+: H ++ (msgs.map (fun m => ctlEvents m.2)).flatten := by
  cases msgs with
  | nil =>
    have hw : wireOf S [] rest = rest := by simp [wireOf]
    rw [hw] at hpre
    simpa using hEnd ops c n cur H hN hpre hn hnL
  | cons m ms =>
    rw [wireOf_cons] at hpre
    obtain ⟨mt, ms1, msz, mfit⟩ := hm m (by simp)
    have htog' : tg = false ∨ wireOf S ms rest ≠ [] := by
      rcases htog with h | h
      · exact Or.inl h
      · right; intro hc; exact h (List.append_eq_nil_iff.mp hc).2
    have hlimc := hpre.limit
    have htg : c.r.buf.t.together = tg := by
      obtain ⟨_, _, _, _, _, _, h⟩ := hpre; exact h
    obtain ⟨c1, rid, w1, m1, b1, b2, b3, b4, b5, b6, b7⟩ := pre_next S m.1 mt _ H n L tg c m.2 hpre ms1 htog' hn msz
      (by rcases hnL with h | h
          · exact Or.inl h
          · rcases mfit with h' | h'
            · exact Or.inl h'
            · exact Or.inr ⟨h, h'⟩)
    have hlen : w1.length + (dataPayload m1).length ≤ (dataPayload m.2).length := by
      have := congrArg List.length b6
      simp only [List.length_append, unmask_length] at this
      omega
    have hab : Ab' S rid (wireOf S ms rest) (H ++ ctlEvents m.2) (dataPayload m.2).length L tg c1 :=
      ⟨w1, m1, b2, Or.inl b4, b5, hlen, b7, by rw [b3.limit, hlimc], by rw [b3.same.together]; exact htg⟩
    have hN1 : c1.r.nego = N := by
      have := WS.ViolProgram.nextReader_ng c; rw [b1] at this; exact this.trans hN
    have hrec := ih ms c1 rid _ _ (fun x hx => hm x (by simp [hx])) hab msz mfit hN1
    simp only [runProg, b1]
    simpa [List.append_assoc] using hrec

theorem run_heldV (S N : Bool) (rest : Bytes) (L : Int) (tg : Bool) (htog : tg = false ∨ rest ≠ [])
    (hEnd : ∀ (ops : List ROp) (c : Conn) (n : Nat) (cur : Option Nat) (H : List REv), c.r.nego = N →
      Pre S rest H n L tg c → n < 2 ^ 62 → (L ≤ 0 ∨ (n : Int) ≤ L) →
      (runProg (.next :: ops) c cur).2.r.hlog <+: H) :
    ∀ ops : List ROp, HeldV S N rest L tg ops := by
  intro ops
  induction ops with
  | nil =>
    intro msgs c rid n H _ hab _ _ _
    simp only [runProg]
    exact pre_hlog (ab_pre hab) _
  | cons op ops ih =>
    intro msgs c rid n H hm hab hn hnL hN
    cases op with
    | next => exact next_caseV S N rest L tg htog hEnd ops ih msgs c n (some rid) H hm (ab_pre hab) hn hnL hN
    | read k =>
      have hab' := ab_read S rid _ H n L tg c k hab
      generalize hr : mrRead c rid (k + 1) = r at hab'
      obtain ⟨⟨bs, e⟩, c1⟩ := r
      simp only [runProg, hr]
      exact ih msgs c1 rid n H hm hab' hn hnL (by have := WS.NegoKeep.mrRead_ng c rid (k + 1); rw [hr] at this; exact this.trans hN)

theorem run_idleV (S N : Bool) (rest : Bytes) (L : Int) (tg : Bool) (htog : tg = false ∨ rest ≠ [])
    (hEnd : ∀ (ops : List ROp) (c : Conn) (n : Nat) (cur : Option Nat) (H : List REv), c.r.nego = N →
      Pre S rest H n L tg c → n < 2 ^ 62 → (L ≤ 0 ∨ (n : Int) ≤ L) →
      (runProg (.next :: ops) c cur).2.r.hlog <+: H) :
    ∀ (ops : List ROp) (msgs : List (Nat × List PFrame)) (c : Conn) (n : Nat) (H : List REv), MsgsOk L msgs →
      Pre S (wireOf S msgs rest) H n L tg c → n < 2 ^ 62 → (L ≤ 0 ∨ (n : Int) ≤ L) → c.r.nego = N →
      (runProg ops c none).2.r.hlog <+: H ++ (msgs.map (fun m => ctlEvents m.2)).flatten := by
  intro ops
  induction ops with
  | nil =>
    intro msgs c n H _ hpre _ _ _
    simp only [runProg]
    exact pre_hlog hpre _
  | cons op ops ih =>
    intro msgs c n H hm hpre hn hnL hN
    cases op with
    | next => exact next_caseV S N rest L tg htog hEnd ops (run_heldV S N rest L tg htog hEnd ops) msgs c n none H hm hpre hn hnL hN
    | read k =>
      simp only [runProg]
      exact ih msgs c n H hm hpre hn hnL hN

/-- part (2) of `violation_program` (the handler log) when every whole message is within the read limit -/
theorem violation_program_hlog_fits_partial (c : Conn) (hc : ReaderIdle c) (msgs : List (Nat × List PFrame))
    (hm : ∀ m ∈ msgs, (m.1 = 1 ∨ m.1 = 2) ∧ MsgShape m.1 m.2 ∧ (dataPayload m.2).length < 2 ^ 62 ∧
      (c.r.limit ≤ 0 ∨ ((dataPayload m.2).length : Int) ≤ c.r.limit))
    (b0 b1 : UInt8) (tail : Bytes)
    (hv : Violates c.r.isServer c.r.nego false (parseHdr b0 b1))
    (hp : c.r.buf.pending = (msgs.map (fun m => encAll c.r.isServer m.2)).flatten ++ b0 :: b1 :: tail)
    (ops : List ROp) :
    (runProg ops c none).2.r.hlog <+: c.r.hlog ++ (msgs.map (fun m => ctlEvents m.2)).flatten := by
  have hR : c.r.buf.t.together = false ∨ b0 :: b1 :: tail ≠ [] := Or.inr (by simp)
  have hne : c.r.buf.t.together = false ∨
      (msgs.map (fun m => encAll c.r.isServer m.2)).flatten ++ b0 :: b1 :: tail ≠ [] := Or.inr (by simp)
  exact run_idleV c.r.isServer c.r.nego (b0 :: b1 :: tail) c.r.limit c.r.buf.t.together hR
    (fun ops c' n cur H hN hpre hn hnL =>
      viol_end_hlog c.r.isServer c.r.nego b0 b1 tail hv c.r.limit c.r.buf.t.together ops c' n cur H hN hpre hn hnL)
    ops msgs c 0 c.r.hlog hm (pre_idle c hc _ hp hne) (by omega) (by omega) rfl

end WS.ViolHlog
