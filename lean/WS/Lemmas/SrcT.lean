import WS.Model.Source
namespace WS.SrcLaw
open WS

theorem tread_spec (t : TSrc) (room : Nat) (hroom : 0 < room) (hc : ∀ c ∈ t.chunks, c ≠ []) :
    (t.read room).1 ++ (t.read room).2.2.pending = t.pending ∧
    (t.read room).1.length ≤ room ∧
    (t.chunks ≠ [] → (t.read room).1 ≠ []) ∧
    (∀ e, (t.read room).2.1 = some e → (t.read room).2.2.chunks = [] ∧ e = t.term) ∧
    (t.chunks = [] → (t.read room).2.1 = some t.term ∧ (t.read room).1 = [] ∧ (t.read room).2.2 = t) ∧
    (∀ c ∈ (t.read room).2.2.chunks, c ≠ []) ∧
    (t.read room).2.2.term = t.term ∧ (t.read room).2.2.together = t.together := by
  unfold TSrc.read
  split
  next heq =>
    simp [TSrc.pending, heq]
  next c rest heq =>
    have hcne : c ≠ [] := hc c (by simp [heq])
    have hrest : ∀ c ∈ rest, c ≠ [] := fun c' h' => hc c' (by simp [heq, h'])
    have hclen : 0 < c.length := List.length_pos_iff.mpr hcne
    have hmin : 0 < min room c.length := by omega
    have hout : List.take (min room c.length) c ≠ [] := by
      intro h
      have := congrArg List.length h
      rw [List.length_take, List.length_nil] at this
      omega
    simp only []
    split
    next hemp =>
      have hd : List.drop (min room c.length) c = [] := by simpa using hemp
      have htk : List.take (min room c.length) c = c := by
        have := List.take_append_drop (min room c.length) c
        rw [hd] at this; simpa using this
      split
      next hb =>
        simp only [Bool.and_eq_true, List.isEmpty_iff] at hb
        refine ⟨?_, ?_, ?_, ?_, ?_, ?_, rfl, rfl⟩
        · simp [TSrc.pending, heq, hb.1, htk]
        · simp; omega
        · intro _; exact hout
        · intro e he; simp at he; simp [he]
        · intro h; simp [heq] at h
        · simp
      next hb =>
        refine ⟨?_, ?_, ?_, ?_, ?_, ?_, rfl, rfl⟩
        · simp [TSrc.pending, heq, htk]
        · simp; omega
        · intro _; exact hout
        · intro e he; simp at he
        · intro h; simp [heq] at h
        · simpa using hrest
    next hemp =>
      have hd : List.drop (min room c.length) c ≠ [] := by simpa using hemp
      refine ⟨?_, ?_, ?_, ?_, ?_, ?_, rfl, rfl⟩
      · simp [TSrc.pending, heq]
        rw [← List.append_assoc, List.take_append_drop]
      · simp; omega
      · intro _; exact hout
      · intro e he; simp at he
      · intro h; simp [heq] at h
      · intro c' hc'
        simp at hc'
        rcases hc' with h | h
        · rw [h]; exact hd
        · exact hrest c' h

end WS.SrcLaw
